/-
Line-protocol driver for the C06 model (run with `lake env lean --run Ampverif/Drivers/C06.lean`).

world description (before the first `begin`):
  reaction <rid> <init csv> <final csv> <own topologies csv> <combinatorics topologies csv>
  zeta <rid> <k> <sym> <massids;massids;…>        one alignment symbol of DPD(k): the mass symbols it contains
  axis <rid> <sym> <massids;…>                    same for AxisAngleAlignment.define_symbols
  topomap <rid> <topo> <entry> …                  entry = m:<ids csv>=<vid> | a:<n>=<vid>
histories:
  name <kind> <ids csv> <hex>                     name of a symbol
  begin <aliased> <reset> <shared> <tiebreak> <missingsorted>   new process: empty heap, no builders
  new <rid> <order csv>
  set <b> align none|axis|dpd:<k> | scalar 0|1 | stable -|<ids csv> | hel 0|1 | dyn <p> <bid> | naming <n>
  bad <b> <code>
  reg <b> <topo> <order csv>
  evict <n> | evictall
  formulate <b> <order csv>  → `f class=<n> pure=<0|1> err=<-|code> kin=<number of kinematic variables> mk=<their keys kind:ids in dict order> pm=<mass symbols among the parameters>`
natural sorting:
  key <hex>          → tokens `T<hex>` / `N<ip>.<fraction digits>`
  sort <tiebreak> <hex> …       → `sorted <indices> ties=<0|1>`
  missing <sorted> <registered hex …> | <atoms hex …>   → `amps <hex>=<1 registered|0 zero> …` (final key order)
  merge <tiebreak> <perm csv> | <khex>=<vid> … | …   → `merged consistent=<0|1> ties=<0|1> <khex>=<vid> …`
-/
import Ampverif.Model.C06Purity

open Ampverif.C06

namespace Ampverif.C06.Driver

def parseCsv (s : String) : List Nat :=
  if s == "-" || s == "" then [] else (s.splitOn ",").filterMap (·.toNat?)

def hexVal (c : Char) : Nat :=
  if c.isDigit then c.toNat - 48 else if 'a' ≤ c ∧ c ≤ 'f' then c.toNat - 87 else c.toNat - 55

/-- hex string (4 hex digits per code point) → code points -/
def unhex (s : String) : List Nat :=
  let rec go : List Char → List Nat
    | a :: b :: c :: d :: rest => (((hexVal a * 16 + hexVal b) * 16 + hexVal c) * 16 + hexVal d) :: go rest
    | _ => []
  go s.toList

structure RInfo where
  init : List Nat
  final : List Nat
  own : List Nat
  comb : List Nat

structure Tables where
  reactions : List (Nat × RInfo) := []
  zeta : List ((Nat × Nat) × SymDict) := []
  axis : List (Nat × SymDict) := []
  topo : List ((Nat × Nat) × SymDict) := []
  names : List (Sym × List Nat) := []

def massAtoms (s : String) : Expr :=
  if s == "-" || s == "" then [] else (s.splitOn ";").map (fun g => Atom.sym (massSym (parseCsv g)))

def parseEntry (e : String) : Option (Sym × Expr) :=
  match e.splitOn "=" with
  | [k, v] =>
    match k.splitOn ":" with
    | ["m", ids] => some (massSym (parseCsv ids), [Atom.other [v.toNat!]])
    | ["a", n] => some (⟨2, [n.toNat!]⟩, [Atom.other [v.toNat!]])
    | _ => none
  | _ => none

def rinfo (t : Tables) (r : Nat) : RInfo := (dget t.reactions r).getD ⟨[], [], [], []⟩

def cfgCode (c : Cfg) : List Nat :=
  [if c.helCouplings then 1 else 0, c.naming] ++ c.dynamics.flatMap (fun p => [p.1, p.2])

def mkWorld (t : Tables) : World where
  pureVal cid key := match cid with
    | .dpdAligned => ⟨100 :: key, (dget t.zeta (key.getD 0 0, key.getD 1 0)).getD []⟩
    | .oppositeHelicity => ⟨101 :: key, []⟩
    | .spectatorId => ⟨102 :: key, []⟩
    | .decayProductIds => ⟨103 :: key, []⟩
    | .assertThreeBody => ⟨104 :: key, []⟩
    | .boostChainSuffix => ⟨105 :: key, []⟩
    | .blattWeisskopfPoly => ⟨106 :: key, []⟩
    | .sumIndices => ⟨107 :: key, []⟩
    | .kmatrixCreate => ⟨108 :: key, []⟩
    | .qrulesVersion => ⟨109 :: key, []⟩
  roCalls r cfg :=
    (.qrulesVersion, []) :: ((rinfo t r).own.flatMap fun tp => [(.boostChainSuffix, [tp]), (.oppositeHelicity, [tp])])
      ++ (match cfg.align with | .dpd _ => (rinfo t r).own.map fun tp => (.spectatorId, [tp]) | _ => [])
      ++ (cfg.dynamics.filter (fun p => p.2 ≥ 2)).map fun p => (.blattWeisskopfPoly, [p.1 % 3])
  topEntries r cfg obs :=
    let code := cfgCode cfg ++ [obs.length]
    (rinfo t r).own.flatMap fun tp =>
      [ IngEntry.amp [r, tp, 0] ([r, tp, 0] ++ code), IngEntry.amp [r, tp, 1] ([r, tp, 1] ++ code),
        IngEntry.comp [r, tp] ([r, tp] ++ code),
        (if cfg.helCouplings then IngEntry.param ⟨3, [r, tp]⟩ [1] else IngEntry.param ⟨4, [r, tp]⟩ [1]) ]
      ++ cfg.dynamics.map fun p => IngEntry.param ⟨5, [p.1, p.2]⟩ [p.2]
  intensity r _ amp _ := r :: amp
  alignAmp r c := [200 + c, r]
  axisSyms r := (dget t.axis r).getD []
  alignError r a := match a with
    | .none => none
    | .axisAngle => if (rinfo t r).init = [0] then none else some 1
    | .dpd _ => if (rinfo t r).init = [1] ∧ (rinfo t r).final = [2, 3, 4] then none else some 1
  topoMap r tp := (dget t.topo (r, tp)).getD []
  ownTopos r := (rinfo t r).own
  combTopos r := (rinfo t r).comb
  initialIds r := (rinfo t r).init
  finalIds r := (rinfo t r).final
  finalMass r i := [300, r, i]
  initialMass r := [301, r]
  symName s := (dget t.names s).getD (s.kind :: 0 :: s.ids)
  ampKey k := k.take 2
  compKey k := k
  intensityAtoms r _ _ _ := (rinfo t r).own.flatMap fun tp => [[r, tp, 0], [r, tp, 1], [r, tp, 2], [r, tp, 3]]
  ampStr k := k

def parseAlign (s : String) : Option Align :=
  if s == "none" then some .none
  else if s == "axis" then some .axisAngle
  else match s.splitOn ":" with
    | ["dpd", k] => k.toNat?.map Align.dpd
    | _ => none

def parseField : List String → Option Field
  | ["align", a] => (parseAlign a).map Field.align
  | ["scalar", b] => some (.scalarInitial (b == "1"))
  | ["stable", "-"] => some (.stable none)
  | ["stable", ids] => some (.stable (some (parseCsv ids)))
  | ["hel", b] => some (.helCouplings (b == "1"))
  | ["dyn", p, b] => some (.dynamics p.toNat! b.toNat!)
  | ["naming", n] => some (.naming n.toNat!)
  | _ => none

def tokStr : Tok → String
  | .txt cs => "T" ++ String.intercalate "," (cs.map toString)
  | .num ip fr => "N" ++ toString ip ++ "." ++ String.join (fr.map toString)

structure DState where
  tables : Tables := {}
  variant : Variant := soundVariant
  state : State := {}
  seen : List Output := []

def findIdx (l : List Output) (o : Output) : Option Nat :=
  let rec go : List Output → Nat → Option Nat
    | [], _ => none
    | x :: xs, i => if x = o then some i else go xs (i + 1)
  go l 0

def hasTies (names : List (List Nat)) : Bool :=
  let keys := names.map natKey
  let rec go : List (List Tok) → Bool
    | [] => false
    | k :: rest => rest.contains k || go rest
  go keys

def consistent (maps : List (List (List Nat × Nat))) : Bool :=
  let all := maps.flatten
  all.all fun p => all.all fun q => p.1 != q.1 || p.2 == q.2

def handle (d : DState) (line : String) : DState × Option String :=
  let toks := (line.splitOn " ").filter (· != "")
  match toks with
  | ["reaction", r, i, f, o, c] =>
    ({ d with tables := { d.tables with reactions := dset d.tables.reactions r.toNat! ⟨parseCsv i, parseCsv f, parseCsv o, parseCsv c⟩ } }, none)
  | ["zeta", r, k, s, m] =>
    let key := (r.toNat!, k.toNat!)
    let old := (dget d.tables.zeta key).getD []
    let e : Expr := massAtoms m ++ [Atom.other [s.toNat!]]
    ({ d with tables := { d.tables with zeta := dset d.tables.zeta key (dset old ⟨1, [r.toNat!, k.toNat!, s.toNat!]⟩ e) } }, none)
  | ["axis", r, s, m] =>
    let old := (dget d.tables.axis r.toNat!).getD []
    let e : Expr := massAtoms m ++ [Atom.other [s.toNat!]]
    ({ d with tables := { d.tables with axis := dset d.tables.axis r.toNat! (dset old ⟨1, [r.toNat!, 0, s.toNat!]⟩ e) } }, none)
  | "topomap" :: r :: tp :: entries =>
    let m : SymDict := (entries.filterMap parseEntry).foldl (fun acc p => dset acc p.1 p.2) []
    ({ d with tables := { d.tables with topo := dset d.tables.topo (r.toNat!, tp.toNat!) m } }, none)
  | ["name", kind, ids, h] =>
    ({ d with tables := { d.tables with names := dset d.tables.names ⟨kind.toNat!, parseCsv ids⟩ (unhex h) } }, none)
  | ["begin", a, r, s, tb, ms] =>
    ({ d with variant := ⟨a == "1", r == "1", s == "1", tb == "1", ms == "1"⟩, state := {} }, some "ok")
  | ["new", r, order] =>
    let w := mkWorld d.tables
    ({ d with state := (step d.variant w d.state (.newBuilder r.toNat! (parseCsv order))).1 }, some "ok")
  | "set" :: b :: rest =>
    match parseField rest with
    | none => (d, some "bad-field")
    | some f =>
      let w := mkWorld d.tables
      ({ d with state := (step d.variant w d.state (.configure b.toNat! f)).1 }, some "ok")
  | ["bad", b, c] =>
    let w := mkWorld d.tables
    ({ d with state := (step d.variant w d.state (.configureBad b.toNat! c.toNat!)).1 }, some "ok")
  | ["reg", b, tp, order] =>
    let w := mkWorld d.tables
    ({ d with state := (step d.variant w d.state (.register b.toNat! tp.toNat! (parseCsv order))).1 }, some "ok")
  | ["evict", n] =>
    let w := mkWorld d.tables
    ({ d with state := (step d.variant w d.state (.evict n.toNat!)).1 }, some "ok")
  | ["evictall"] =>
    ({ d with state := { d.state with heap := { d.state.heap with cache := [] } } }, some "ok")
  | ["formulate", b, order] =>
    let w := mkWorld d.tables
    match d.state.builders[b.toNat!]? with
    | none => (d, some "no-builder")
    | some bs =>
      let (s', o) := step d.variant w d.state (.formulate b.toNat! (parseCsv order) [])
      match o with
      | none => (d, some "no-output")
      | some out =>
        let spec := F w bs.reaction bs.user
        let (seen, cls) := match findIdx d.seen out with
          | some i => (d.seen, i)
          | none => (d.seen ++ [out], d.seen.length)
        let err := match out with | .ok _ => "-" | .error c => toString c
        let kin := match out with | .ok m => m.kin.length | .error _ => 0
        let mk := match out with
          | .ok m => String.intercalate "|" ((dkeys m.kin).map fun (k : Sym) =>
              toString k.kind ++ ":" ++ String.intercalate "," (k.ids.map toString))
          | .error _ => ""
        let pm := match out with
          | .ok m => String.intercalate "|" (((dkeys m.params).filter (fun (k : Sym) => k.kind == 0)).map fun (k : Sym) =>
              String.intercalate "," (k.ids.map toString))
          | .error _ => ""
        ({ d with state := s', seen := seen },
          some s!"f class={cls} pure={if out = spec then 1 else 0} err={err} kin={kin} mk={mk} pm={pm}")
  | ["key", h] => (d, some (String.intercalate " " ((natKey (unhex h)).map tokStr)))
  | "sort" :: tb :: hs =>
    let names := hs.map unhex
    let idx := (List.range names.length).zip names
    let sorted := if tb == "1" then isort (fun a b => nameLe a.2 b.2) idx
      else isort (fun a b => natKeyLe (natKey a.2) (natKey b.2)) idx
    (d, some ("sorted " ++ String.intercalate "," (sorted.map (toString ·.1)) ++
      s!" ties={if hasTies names then 1 else 0}"))
  | "missing" :: sorted :: rest =>
    -- missing <sorted 0|1> <registered keys hex …> | <atoms in iteration order hex …>
    let groups := (String.intercalate " " rest).splitOn "|"
    let parse (g : String) : List (String × List Nat) :=
      ((g.splitOn " ").filter (· != "")).map fun h => (h, unhex h)
    let regs := parse (groups.getD 0 "")
    let atoms := parse (groups.getD 1 "")
    let order := if sorted == "1" then isort (lexLe natLe) (atoms.map (·.2)) else atoms.map (·.2)
    let amps : List (List Nat × Nat) := ddefaults (regs.map fun p => (p.2, 1)) 0 order
    let final := isort (fun a b => natKeyLe (natKey a.1) (natKey b.1)) amps
    let hexOf (cs : List Nat) : String :=
      (((regs ++ atoms).find? (fun e => e.2 == cs)).map (·.1)).getD "?"
    (d, some ("amps " ++ String.intercalate " " (final.map fun p => hexOf p.1 ++ "=" ++ toString p.2)))
  | "merge" :: tb :: perm :: rest =>
    let groups := (String.intercalate " " rest).splitOn "|"
    let maps : List (List (String × List Nat × Nat)) := groups.filterMap fun g =>
      let es := (g.splitOn " ").filter (· != "")
      if es.isEmpty then none else some (es.filterMap fun e => match e.splitOn "=" with
        | [k, v] => some (k, unhex k, v.toNat!)
        | _ => none)
    let plain := maps.map (·.map fun e => (e.2.1, e.2.2))
    let ordered := (parseCsv perm).filterMap fun i => plain[i]?
    let merged := dmerge ordered
    let sorted := if tb == "1" then isort (fun a b => nameLe a.1 b.1) merged
      else isort (fun a b => natKeyLe (natKey a.1) (natKey b.1)) merged
    let hexOf (cs : List Nat) : String :=
      ((maps.flatten.find? (fun e => e.2.1 == cs)).map (·.1)).getD "?"
    (d, some (s!"merged consistent={if consistent plain then 1 else 0} ties={if hasTies (dkeys merged) then 1 else 0} "
      ++ String.intercalate " " (sorted.map fun p => hexOf p.1 ++ "=" ++ toString p.2)))
  | [] => (d, none)
  | _ => (d, some "bad-op")

partial def loop (stdin : IO.FS.Stream) (stdout : IO.FS.Stream) (d : DState) : IO Unit := do
  let line ← stdin.getLine
  if line.isEmpty then return
  let (d', reply) := handle d line.trimAsciiEnd.toString
  match reply with
  | some r => stdout.putStrLn r
  | none => pure ()
  loop stdin stdout d'

end Ampverif.C06.Driver

def main : IO Unit := do
  let stdin ← IO.getStdin
  let stdout ← IO.getStdout
  Ampverif.C06.Driver.loop stdin stdout {}
