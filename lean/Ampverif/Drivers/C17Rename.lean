-- line-protocol entry point of Model/C17Rename.lean (kept out of the model so the library root builds)
import Ampverif.Model.C17Rename
def main : IO Unit := do
  let stdin ← IO.getStdin
  let stdout ← IO.getStdout
  Ampverif.Model.C17.Driver.loop stdin stdout {}
