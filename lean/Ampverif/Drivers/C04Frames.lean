-- line-protocol entry point of Model/C04Frames.lean (kept out of the model so the library root builds)
import Ampverif.Model.C04Frames
def main : IO Unit := do
  Ampverif.Model.C04Frames.loop (← IO.getStdin) []
