-- line-protocol entry point of Model/C08Einsum.lean (kept out of the model so the library root builds)
import Ampverif.Model.C08Einsum
def main : IO Unit := do c08EinsumLoop (← IO.getStdin)
