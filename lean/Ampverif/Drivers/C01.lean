/-
Line-protocol driver for the C01 builder model (see tools/corr/C01_proto.py for the format).
One request per line (`case …`), one reply per line.  Run with
  lake env lean --run Ampverif/Drivers/C01.lean
-/
import Ampverif.Drivers.C01Parse

open Ampverif.Model.C01

def pKind : P Kind := do
  let t ← tok
  match t with
  | "nd" => pure .nd
  | "bw" => pure .bw
  | "bwff" => pure .bwff
  | "ff" => pure .ff
  | "custom" => pure .custom
  | _ => throw s!"bad builder kind {t}"

def pAlign : P Align := do
  let t ← tok
  match t with
  | "n" => pure .none
  | "a" => pure .axis
  | "d1" => pure (.dpd 1)
  | "d2" => pure (.dpd 2)
  | "d3" => pure (.dpd 3)
  | _ => throw s!"bad alignment {t}"

def pVariant : P Variant := do
  expect "V"
  let z ← tok
  let zm ← match z with
    | "n" => pure ZeroMode.none
    | "p" => pure ZeroMode.product
    | "r" => pure ZeroMode.refs
    | _ => throw s!"bad zero mode {z}"
  let reg ← pBool
  let sel ← pBool
  let pc ← pBool
  pure ⟨zm, reg, sel, pc⟩

def pCase : P (Variant × Reaction × Config) := do
  expect "case"
  let v ← pVariant
  let reaction ← pReaction
  expect "G"
  let al ← pAlign
  let stable ← pOpt (pMany pInt)
  let scalar ← pBool
  let hc ← pBool
  let parent ← pBool
  let child ← pBool
  let ls ← pBool
  let dyn ← pMany (do let p ← pNat; let k ← pKind; pure (p, k))
  let perm ← pBool
  pure (v, reaction, ⟨al, stable, scalar, hc, parent, child, ls, dyn, perm⟩)

def answer (v : Variant) (r : Reaction) (cfg : Config) : String :=
  match errorOf v r cfg with
  | some .valueError => "error ValueError"
  | some .keyError => "error KeyError"
  | some .typeError => "error TypeError"
  | none =>
    let res := result v r cfg
    let d := res.defs
    let defsS := d.map (fun kv => encKey kv.1)
    let zeroS := (d.filter (fun kv => kv.2.zero)).map (fun kv => encKey kv.1)
    let refsS := res.refs.map encKey
    let undefS := res.undefined.map encKey
    let parS := res.params.map encName
    let kinS := res.kin.map (fun kd => encName kd.1 ++ "<" ++ "+".intercalate (kd.2.map encName))
    let freeS := res.free.map encName
    s!"ok defs={encList defsS} zero={encList zeroS} refs={encList refsS} undefined={encList undefS} params={encList parS} kin={encList kinS} free={encList freeS}"

partial def loop (h : IO.FS.Stream) : IO Unit := do
  let line ← h.getLine
  if line.isEmpty then return ()
  let toks := (line.trimAscii.toString.splitOn " ").filter (· ≠ "")
  match toks with
  | [] => loop h
  | _ =>
    match (pCase.run toks) with
    | .ok ((v, r, cfg), _) => IO.println (answer v r cfg)
    | .error e => IO.println s!"bad-request {e}"
    loop h

def main : IO Unit := do loop (← IO.getStdin)
