-- line-protocol entry point of Model/C10History.lean (kept out of the model so the library root builds)
import Ampverif.Model.C10History
def main : IO Unit := do
  Ampverif.C10History.loop (← IO.getStdin) false [] []
