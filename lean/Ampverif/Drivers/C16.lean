/-
Line-protocol driver for the C16 model (T2 correspondence).

  variant storesKey=1 checksKey=1 atomic=1 tolerant=1 tempPerCaller=1
  expr <id> <valId>                     doit table
  key <mode> <exprId> <nameId>          file-name table (mode: sha | seed<N>), tabulated from the real get_readable_hash
  keyeq                                 start a key-equality table (clears the previous one); without it: identity
  eq <storedExprId> <requestedExprId>   the real `stored_key == expr` is True for this ordered pair
  reset                                 empty directory, all processes idle
  file <name> <content>                 name: F/<mode>/<nameId> | T/<mode>/<nameId>/<pid> | O/<n>
                                        content: new/<e>/<v>/<k> | old/<v>/<k> | junk/<n> | empty | tail/<e>/<v>/<n>
  call <p> <mode> <e> | step <p> | crash <p>      reply: "<pc of p> <event or ->"
  ls                                    reply: "ls name=class ..." (sorted by the harness)
-/
import Ampverif.Model.C16Cache
open Ampverif.Model.C16

structure Drv where
  v : Variant := Variant.fixed
  doit : List (Nat × Nat) := []
  keys : List ((Mode × Nat) × Nat) := []
  eqs : Option (List (Nat × Nat)) := none
  st : State := initState []
  names : List Name := []

def lookupD {α β : Type} [BEq α] (l : List (α × β)) (a : α) (d : β) : β :=
  match l.find? (fun x => x.1 == a) with
  | some x => x.2
  | none => d

def Drv.world (d : Drv) : World :=
  { key := fun m e => lookupD d.keys (m, e) (1000000 + e), doit := fun e => lookupD d.doit e 0,
    keyEq := match d.eqs with
      | none => fun a b => a == b
      | some l => fun a b => l.contains (a, b) }

def parseMode (s : String) : Option Mode :=
  if s == "sha" then some .sha
  else if s.startsWith "seed" then (s.drop 4).toNat?.map Mode.seeded
  else none

def modeStr : Mode → String
  | .sha => "sha"
  | .seeded s => s!"seed{s}"

def parseName (s : String) : Option Name :=
  match s.splitOn "/" with
  | ["F", m, h] => do pure (.final (← parseMode m) (← h.toNat?))
  | ["T", m, h, p] => do pure (.temp (← parseMode m) (← h.toNat?) (← p.toNat?))
  | ["O", n] => do pure (.other (← n.toNat?))
  | _ => none

def nameStr : Name → String
  | .final m h => s!"F/{modeStr m}/{h}"
  | .temp m h p => s!"T/{modeStr m}/{h}/{p}"
  | .other n => s!"O/{n}"

def parseContent (s : String) : Option Bytes :=
  match s.splitOn "/" with
  | ["new", e, v, k] => do pure ((serNew (← e.toNat?) (← v.toNat?)).take (← k.toNat?))
  | ["old", v, k] => do pure ((serOld (← v.toNat?)).take (← k.toNat?))
  | ["junk", n] => do pure [.junk (← n.toNat?), .junk 0]
  | ["empty"] => some []
  -- a complete record followed by n garbage tokens (pickle ignores what follows STOP)
  | ["tail", e, v, n] => do pure (serNew (← e.toNat?) (← v.toNat?) ++ List.replicate (← n.toNat?) (.junk 9))
  | _ => none

def pcStr : PC → String
  | .idle => "idle"
  | .started .. => "started"
  | .willOpen .. => "willOpen"
  | .willLoad .. => "willLoad"
  | .willCompute .. => "willCompute"
  | .writing _ _ _ k => s!"writing{k}"
  | .willRename .. => "willRename"

def outStr : Outcome → String
  | .value v => s!"value:{v}"
  | .tuple => "tuple"
  | .raised => "raised"

def evStr : Option Event → String
  | none => "-"
  | some ev => s!"ret:{ev.p}:{ev.e}:{outStr ev.out}"

def loadedStr : Loaded → String
  | .pair e v => s!"pair:{e}:{v}"
  | .bare v => s!"bare:{v}"
  | .fail => "fail"

def flag (toks : List String) (name : String) : Option Bool :=
  match toks.find? (fun t => t.startsWith (name ++ "=")) with
  | some t => some (t.endsWith "=1")
  | none => none

def Drv.addNames (d : Drv) (ns : List Name) : Drv :=
  { d with names := d.names ++ ns.filter (fun n => !d.names.contains n) }

def Drv.doOp (d : Drv) (op : Op) (p : Nat) : Drv × String :=
  let r := applyOp d.world d.v d.st op
  ({ d with st := r.1 }, s!"{pcStr (r.1.pc p)} {evStr r.2}")

def handle (d : Drv) (toks : List String) : Drv × Option String :=
  match toks with
  | "variant" :: rest =>
    match flag rest "storesKey", flag rest "checksKey", flag rest "atomic", flag rest "tolerant",
          flag rest "tempPerCaller" with
    | some a, some b, some c, some t, some u => ({ d with v := ⟨a, b, c, t, u⟩ }, none)
    | _, _, _, _, _ => (d, some "bad-op")
  | ["expr", e, v] =>
    match e.toNat?, v.toNat? with
    | some e, some v => ({ d with doit := (e, v) :: d.doit }, none)
    | _, _ => (d, some "bad-op")
  | ["key", m, e, h] =>
    match parseMode m, e.toNat?, h.toNat? with
    | some m, some e, some h => ({ d with keys := ((m, e), h) :: d.keys }, none)
    | _, _, _ => (d, some "bad-op")
  | ["keyeq"] => ({ d with eqs := some [] }, none)
  | ["eq", a, b] =>
    match a.toNat?, b.toNat? with
    | some a, some b => ({ d with eqs := some ((a, b) :: (d.eqs.getD [])) }, none)
    | _, _ => (d, some "bad-op")
  | ["reset"] => ({ d with st := initState [], names := [] }, none)
  | ["file", n, c] =>
    match parseName n, parseContent c with
    | some n, some c =>
      if (d.st.fs.dir n).isSome then (d, some "bad-op")
      else ({ d with st := { d.st with fs := d.st.fs.addFile n c } }.addNames [n], none)
    | _, _ => (d, some "bad-op")
  | ["call", p, m, e] =>
    match p.toNat?, parseMode m, e.toNat? with
    | some p, some m, some e =>
      let w := d.world
      let d := d.addNames [.final m (w.key m e), .temp m (w.key m e) p, .temp m (w.key m e) 0]
      let r := d.doOp (.call p m e) p
      (r.1, some r.2)
    | _, _, _ => (d, some "bad-op")
  | ["step", p] =>
    match p.toNat? with
    | some p => let r := d.doOp (.step p) p; (r.1, some r.2)
    | none => (d, some "bad-op")
  | ["crash", p] =>
    match p.toNat? with
    | some p => let r := d.doOp (.crash p) p; (r.1, some r.2)
    | none => (d, some "bad-op")
  | ["ls"] =>
    let items := d.names.filterMap (fun n =>
      match d.st.fs.dir n with
      | some i => some s!"{nameStr n}={loadedStr (load (d.st.fs.ino i))}"
      | none => none)
    (d, some (" ".intercalate ("ls" :: items)))
  | _ => (d, some "bad-op")

partial def loop (h : IO.FS.Stream) (d : Drv) : IO Unit := do
  let line ← h.getLine
  if line.isEmpty then return ()
  let toks := (line.trimAscii.toString.splitOn " ").filter (· ≠ "")
  match toks with
  | [] => loop h d
  | _ =>
    let (d', out) := handle d toks
    match out with
    | some s => IO.println s
    | none => pure ()
    loop h d'

def main : IO Unit := do loop (← IO.getStdin) {}
