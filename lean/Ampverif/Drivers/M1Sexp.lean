/-
S-expression reader/printer and the standard interpretation for the M1 term model
(line protocol of DESIGN Appendix A).  Used by the drivers of C18, C14 and C15.
Strings are hex-encoded UTF-8 with an `x` prefix; rationals are `(rat p q)`.
-/
import Ampverif.Model.ExprNew

namespace Ampverif.Drivers
open Ampverif.Model

inductive Sexp where
  | atom : String → Sexp
  | list : List Sexp → Sexp
deriving Inhabited, Repr

def tokenize (s : String) : List String := Id.run do
  let mut toks : Array String := #[]
  let mut cur : String := ""
  for c in s.toList do
    if c == '(' || c == ')' then
      if cur != "" then toks := toks.push cur; cur := ""
      toks := toks.push (String.singleton c)
    else if c == ' ' || c == '\t' || c == '\n' || c == '\r' then
      if cur != "" then toks := toks.push cur; cur := ""
    else cur := cur.push c
  if cur != "" then toks := toks.push cur
  return toks.toList

mutual
partial def parseOne : List String → Option (Sexp × List String)
  | [] => none
  | "(" :: rest => do
      let (items, rest') ← parseMany rest
      pure (Sexp.list items, rest')
  | ")" :: _ => none
  | a :: rest => some (Sexp.atom a, rest)
partial def parseMany : List String → Option (List Sexp × List String)
  | [] => none
  | ")" :: rest => some ([], rest)
  | toks => do
      let (x, rest) ← parseOne toks
      let (xs, rest') ← parseMany rest
      pure (x :: xs, rest')
end

def parseSexp (s : String) : Option Sexp :=
  match parseOne (tokenize s) with
  | some (x, []) => some x
  | _ => none

def hexDigit (n : Nat) : Char := if n < 10 then Char.ofNat (48 + n) else Char.ofNat (87 + n)

def hexEnc (s : String) : String :=
  "x" ++ String.ofList (s.toUTF8.toList.flatMap (fun b => [hexDigit (b.toNat / 16), hexDigit (b.toNat % 16)]))

def hexVal (c : Char) : Option Nat :=
  if '0' ≤ c ∧ c ≤ '9' then some (c.toNat - 48)
  else if 'a' ≤ c ∧ c ≤ 'f' then some (c.toNat - 87) else none

def hexDec (s : String) : Option String :=
  match s.toList with
  | 'x' :: cs =>
    let rec go : List Char → List UInt8 → Option (List UInt8)
      | [], acc => some acc.reverse
      | a :: b :: rest, acc => do
          let h ← hexVal a; let l ← hexVal b
          go rest (UInt8.ofNat (h * 16 + l) :: acc)
      | _, _ => none
    (go cs []).bind (fun bs => String.fromUTF8? ⟨bs.toArray⟩)
  | _ => none

def parseInt (s : String) : Option Int := s.toInt?

def ratOf (p : Int) (q : Nat) : Q := mkRat p q

def parseQ : Sexp → Option Q
  | .list [.atom "rat", .atom p, .atom q] => do
      let p ← parseInt p; let q ← q.toNat?
      if q = 0 then none else pure (ratOf p q)
  | _ => none

def parseSym : Sexp → Option Sym
  | .list (.atom "sym" :: .atom n :: fl) => do
      let n ← hexDec n
      let fl ← fl.mapM (fun f => match f with | .atom a => hexDec a | _ => none)
      pure ⟨n, fl⟩
  | _ => none

def parseAttr : Sexp → Option Attr
  | .list [.atom "none"] => some .none
  | .list [.atom "cls", .atom q] => (hexDec q).map .cls
  | .list [.atom "str", .atom q] => (hexDec q).map .str
  | .list [.atom "obj", .atom q] => (hexDec q).map .obj
  | _ => none

mutual
partial def parseExpr : Sexp → Option Expr
  | .list (.atom "sym" :: rest) => (parseSym (.list (.atom "sym" :: rest))).map .sym
  | .list [.atom "rat", p, q] => (parseQ (.list [.atom "rat", p, q])).map .rat
  | .list (.atom "add" :: es) => (parseExprs es).map .add
  | .list (.atom "mul" :: es) => (parseExprs es).map .mul
  | .list [.atom "pow", b, .atom n] => do
      let b ← parseExpr b; let n ← n.toNat?
      pure (.pow b n)
  | .list (.atom "app" :: .atom f :: es) => do
      let f ← hexDec f; let es ← parseExprs es
      pure (.app f es)
  | .list (.atom "idx" :: .atom f :: es) => do
      let f ← hexDec f; let es ← parseExprs es
      pure (.idx f es)
  | .list [.atom "node", .atom c, .list es, .list ats] => do
      let c ← hexDec c; let es ← parseExprs es
      let ats ← ats.mapM parseAttr
      pure (.node c es ats)
  | .list (.atom "psum" :: b :: bs) => do
      let b ← parseExpr b
      let bs ← parseBinders bs
      pure (.psum b bs)
  | _ => none
partial def parseExprs : List Sexp → Option (List Expr)
  | [] => some []
  | e :: es => do
      let e ← parseExpr e; let es ← parseExprs es
      pure (e :: es)
/-- `(bind <sym> <value> …)`: the pool values are terms. -/
partial def parseBinders : List Sexp → Option (List Binder)
  | [] => some []
  | .list (.atom "bind" :: s :: vals) :: rest => do
      let s ← parseSym s
      let vs ← parseExprs vals
      let rest ← parseBinders rest
      pure ((s, vs) :: rest)
  | _ => none
end

def showQ (q : Q) : String := s!"(rat {q.num} {q.den})"

def showSym (s : Sym) : String :=
  "(sym " ++ hexEnc s.name ++ String.join (s.flags.map (fun f => " " ++ hexEnc f)) ++ ")"

def showAttr : Attr → String
  | .none => "(none)"
  | .cls q => "(cls " ++ hexEnc q ++ ")"
  | .str q => "(str " ++ hexEnc q ++ ")"
  | .obj q => "(obj " ++ hexEnc q ++ ")"

mutual
partial def showExpr : Expr → String
  | .sym s => showSym s
  | .rat q => showQ q
  | .add es => "(add" ++ showExprs es ++ ")"
  | .mul es => "(mul" ++ showExprs es ++ ")"
  | .pow b n => s!"(pow {showExpr b} {n})"
  | .app f es => "(app " ++ hexEnc f ++ showExprs es ++ ")"
  | .idx f es => "(idx " ++ hexEnc f ++ showExprs es ++ ")"
  | .node c es ats =>
      "(node " ++ hexEnc c ++ " (" ++ showExprs es ++ " ) (" ++ " ".intercalate (ats.map showAttr) ++ "))"
  | .psum b bs =>
      "(psum " ++ showExpr b ++ String.join (bs.map (fun x => " (bind " ++ showSym x.1 ++ showExprs x.2 ++ ")")) ++ ")"
partial def showExprs : List Expr → String
  | [] => ""
  | e :: es => " " ++ showExpr e ++ showExprs es
end

/-- The fixed interpretation of uninterpreted heads used by `evalat` (mirrored in Python):
`h/3 + Σ_j (j+2)/(h+j)·a_j + a_0·a_last`, `h` a small hash of the head's key. -/
def headHash (f : String) : Nat :=
  (f.toList.foldl (fun acc c => (acc * 31 + c.toNat) % 1009) 7) % 17 + 1

def stdInterp : Interp := fun f args =>
  let h := headHash f
  let rec lin : List Q → Nat → Q
    | [], _ => 0
    | a :: rest, j => mkRat (j + 2) (h + j) * a + lin rest (j + 1)
  let cross : Q := match args with
    | [] => 0
    | a :: _ => a * (args.getLast?.getD 0)
  mkRat h 3 + lin args 0 + cross

def parsePairs (l : List Sexp) : Option (List (Sym × Expr)) :=
  l.mapM (fun p => match p with
    | .list [s, e] => do
        let s ← parseSym s; let e ← parseExpr e
        pure (s, e)
    | _ => none)

def parsePairsT (l : List Sexp) : Option (List (Expr × Expr)) :=
  l.mapM (fun p => match p with
    | .list [k, e] => do
        let k ← parseExpr k; let e ← parseExpr e
        pure (k, e)
    | _ => none)

def parseEnv (l : List Sexp) : Option (List (Sym × Q)) :=
  l.mapM (fun p => match p with
    | .list [s, q] => do
        let s ← parseSym s; let q ← parseQ q
        pure (s, q)
    | _ => none)

def envOf (l : List (Sym × Q)) : Env := fun s =>
  match l.find? (fun p => p.1 = s) with
  | some p => p.2
  | none => 0

/-- `(pool <sym> <oneShot 0|1> <value> …)`: an index with the iterable handed to `PoolSum.__new__`. -/
def parsePools (l : List Sexp) : Option (List (Sym × Pool)) :=
  l.mapM (fun p => match p with
    | .list (.atom "pool" :: s :: .atom o :: vals) => do
        let s ← parseSym s
        let vs ← parseExprs vals
        pure (s, ⟨vs, o == "1"⟩)
    | _ => none)

def showNewResult : NewResult → String
  | .ok e => showExpr e
  | .noValues j => "(novalues " ++ showSym j ++ ")"

/-- replies shared by all M1 drivers; `none` = not an M1 command. -/
def m1Command (v : Variant) : Sexp → Option String
  -- `(new <validateInOwnPass> <dropsRepeated> <evaluate> <summand> (pool …) …)`: `PoolSum.__new__`
  | .list (.atom "new" :: .atom tp :: .atom dd :: .atom ev :: e :: pools) => some <|
      match parseExpr e, parsePools pools with
      | some e, some ps => showNewResult (psumNew v ⟨tp == "1", dd == "1"⟩ e ps (ev == "1"))
      | _, _ => "err parse"
  -- `(rebuild <tp> <dd> <term>)`: `term.func(*term.args)`
  | .list [.atom "rebuild", .atom tp, .atom dd, e] => some <|
      match parseExpr e with
      | some e => showNewResult (psumRebuild v ⟨tp == "1", dd == "1"⟩ e)
      | none => "err parse"
  -- `(subsnew <tp> <dd> <term> (<sym> <term>))` / `(xreplacenew <tp> <dd> <term> (<sym> <term>) …)`:
  -- `subs` of ONE pair / `xreplace`, rebuilding through `__new__`
  | .list [.atom "subsnew", .atom tp, .atom dd, e, pair] => some <|
      match parseExpr e, parsePairs [pair] with
      | some e, some [(x, a)] => showNewResult (subst1ViaNew v ⟨tp == "1", dd == "1"⟩ x a e)
      | _, _ => "err parse"
  | .list (.atom "xreplacenew" :: .atom tp :: .atom dd :: e :: pairs) => some <|
      match parseExpr e, parsePairs pairs with
      | some e, some ps => showNewResult (xreplaceViaNew v ⟨tp == "1", dd == "1"⟩ ps e)
      | _, _ => "err parse"
  | .list (.atom "subs" :: e :: pairs) => some <|
      match parseExpr e, parsePairs pairs with
      | some e, some ps => showExpr (substSeq v ps e)
      | _, _ => "err parse"
  | .list (.atom "xreplace" :: e :: pairs) => some <|
      match parseExpr e, parsePairs pairs with
      | some e, some ps => showExpr (xreplace v e ps)
      | _, _ => "err parse"
  | .list (.atom "substt" :: e :: pairs) => some <|
      match parseExpr e, parsePairsT pairs with
      | some e, some ps => showExpr (substTSeq v ps e)
      | _, _ => "err parse"
  | .list (.atom "xreplacet" :: e :: pairs) => some <|
      match parseExpr e, parsePairsT pairs with
      | some e, some ps => showExpr (xreplaceT v e ps)
      | _, _ => "err parse"
  | .list [.atom "wfsums", e] => some <|
      match parseExpr e with
      | some e => if wfSums e then "true" else "false"
      | none => "err parse"
  | .list [.atom "evaluate", e] => some <|
      match parseExpr e with
      | some e => showExpr (evaluate v e)
      | none => "err parse"
  | .list [.atom "doit", e] => some <|
      match parseExpr e with
      | some e => showExpr (doit v (psumDepth e + 1) e)
      | none => "err parse"
  | .list [.atom "cleanup", e] => some <|
      match parseExpr e with
      | some e => showExpr (cleanup v e)
      | none => "err parse"
  | .list [.atom "free", e] => some <|
      match parseExpr e with
      | some e => "(syms" ++ String.join ((free e).map (fun s => " " ++ showSym s)) ++ ")"
      | none => "err parse"
  | .list (.atom "evalatwf" :: e :: env) => some <|
      -- value of a term that satisfies the hypothesis `wfSums` of the theorems, else `nwf` (one parse)
      match parseExpr e, parseEnv env with
      | some e, some env => if wfSums e then showQ (eval stdInterp e (envOf env)) else "nwf"
      | _, _ => "err parse"
  | .list (.atom "evalat" :: e :: env) => some <|
      match parseExpr e, parseEnv env with
      | some e, some env => showQ (eval stdInterp e (envOf env))
      | _, _ => "err parse"
  | _ => none

def parseVariant : Sexp → Option Variant
  | .list [.atom "variant", .atom a, .atom b] =>
      some ⟨a == "1", b == "1"⟩
  | _ => none

end Ampverif.Drivers
