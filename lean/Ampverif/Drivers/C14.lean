/-
Line-protocol driver for the M1 model with the regenerated class table (C14, C15).
`lake env lean --run Ampverif/Drivers/C14.lean` (stdin → stdout).
-/
import Ampverif.Drivers.M1Sexp
import Ampverif.Gen.C14Table
open Ampverif.Model Ampverif.Drivers

def tbl : ClassTable := Ampverif.Gen.C14.classTable

def showOpt : Option Expr → String
  | some e => showExpr e
  | none => "err none"

def tableCommand (v : Variant) : Sexp → Option String
  | .list [.atom "unfold", e] => some <|
      match parseExpr e with
      | some e => showExpr (unfold v tbl e)
      | none => "err parse"
  | .list [.atom "eqv", a, b] => some <|
      match parseExpr a, parseExpr b with
      | some a, some b => if Expr.eqv a b then "true" else "false"
      | _, _ => "err parse"
  | .list [.atom "rebuild", e] => some <|
      match parseExpr e with
      | some e => showOpt (rebuild tbl e)
      | none => "err parse"
  | .list [.atom "roundtrip", e] => some <|
      match parseExpr e with
      | some e => showOpt (deserialise tbl (serialise v tbl e))
      | none => "err parse"
  | .list (.atom "construct" :: .atom c :: vals) => some <|
      match hexDec c, vals.mapM (fun v => match v with
          | .list [.atom "e", e] => (parseExpr e).map Arg.e
          | .list [.atom "a", a] => (parseAttr a).map Arg.a
          | _ => none) with
      | some c, some vs => showOpt (new tbl c vs)
      | _, _ => "err parse"
  | .list [.atom "wfterm", e] => some <|
      match parseExpr e with
      | some e => if wfTerm tbl e then "true" else "false"
      | none => "err parse"
  | .list [.atom "wftable"] => some (if wfTable tbl then "true" else "false")
  | _ => none

partial def loop (h : IO.FS.Stream) (out : IO.FS.Stream) (v : Variant) : IO Unit := do
  let line ← h.getLine
  if line.isEmpty then return
  if (tokenize line).isEmpty then
    loop h out v
  else
    match parseSexp line with
    | none => out.putStrLn "err parse"; loop h out v
    | some sx =>
      match parseVariant sx with
      | some v' => out.putStrLn "ok"; loop h out v'
      | none =>
        match tableCommand v sx with
        | some r => out.putStrLn r; loop h out v
        | none =>
          match m1Command v sx with
          | some r => out.putStrLn r; loop h out v
          | none => out.putStrLn "err command"; loop h out v

def main : IO Unit := do
  let stdin ← IO.getStdin
  let stdout ← IO.getStdout
  loop stdin stdout Variant.current
