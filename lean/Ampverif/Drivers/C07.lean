/-
Line-protocol driver for the topology model M2 (DESIGN Appendix A).

  variant angleSource=decaying|helicityState
  topo N e:o:t e:o:t …      register topology N (edges in the iteration order of topology.edges)
  attached|sibling|opp|parent|chain|bchain|suffix|mass N e
  masses N | angles N | writes N
  permute N…                the set produced by permutate_registered_topologies
  register N…               HelicityAdapter.register_topology one after the other
  merge N… | collisions N…  create_expressions for the given iteration order
  natsort name…             sorted(names, key=natural_sorting)

One reply line per request line. No floats.
-/
import Ampverif.Model.Topology
open Ampverif.Model.Topology

namespace Ampverif.Drivers.C07

def showIds (l : List Int) : String := ".".intercalate (l.map toString)
def showChain (c : List (List Int)) : String := ">".intercalate (c.map showIds)
def showDesc (d : Desc) : String := showChain d.chain ++ "@" ++ showIds d.target
def showDef : Def → String
  | .mass ids => "M:" ++ showIds ids
  | .phi d => "P:" ++ showDesc d
  | .theta d => "T:" ++ showDesc d
def showDict (d : List (List Char × Def)) : String :=
  ";".intercalate (d.map fun kv => String.ofList kv.1 ++ "=" ++ showDef kv.2)
def showErr (e : Err) : String := "err " ++ e.toString

def parseOptNat (s : String) : Option (Option Nat) :=
  if s == "-" then some none else (s.toNat?).map some

def parseEdge (s : String) : Option Edge :=
  match s.splitOn ":" with
  | [a, b, c] =>
    match a.toInt?, parseOptNat b, parseOptNat c with
    | some i, some o, some t => some ⟨i, o, t⟩
    | _, _, _ => none
  | _ => none

structure Stored where
  topo : Topo            -- edges in the order given
  order : List Int
  tree : Except Err Tree

structure State where
  variant : Variant := Variant.pinned
  topos : List (Nat × Stored) := []

def State.get (st : State) (n : Nat) : Option Stored := st.topos.lookup n

def showTopo (t : Topo) : String :=
  " ".intercalate (t.edges.map fun e =>
    toString e.id ++ ":" ++ (match e.orig with | some n => toString n | none => "-") ++ ":" ++
      (match e.dest with | some n => toString n | none => "-"))

def withTree (st : State) (n : String) (k : Stored → Tree → String) : String :=
  match n.toNat? with
  | none => "err Malformed"
  | some n =>
    match st.get n with
    | none => "err Malformed"
    | some s => match s.tree with
      | .ok t => k s t
      | .error e => showErr e

def exc {α : Type} (r : Except Err α) (f : α → String) : String :=
  match r with
  | .ok x => f x
  | .error e => showErr e

def collectTrees (st : State) (ns : List String) : Except Err (List (Tree × List Int)) :=
  ns.mapM fun n =>
    match n.toNat? with
    | none => .error .malformed
    | some k => match st.get k with
      | none => .error .malformed
      | some s => match s.tree with
        | .ok t => .ok (t, s.order)
        | .error e => .error e

def collectTopos (st : State) (ns : List String) : Except Err (List Topo) :=
  ns.mapM fun n =>
    match n.toNat? with
    | none => .error .malformed
    | some k => match st.get k with
      | none => .error .malformed
      | some s => .ok s.topo

def step (st : State) (toks : List String) : State × String :=
  match toks with
  | ["variant", v] =>
    if v == "angleSource=decaying" then ({ st with variant := Variant.pinned }, "ok")
    else if v == "angleSource=helicityState" then ({ st with variant := Variant.documented }, "ok")
    else (st, "err Malformed")
  | "topo" :: n :: es =>
    match n.toNat?, es.mapM parseEdge with
    | some n, some edges =>
      let topo : Topo := ⟨edges⟩
      let tree := topo.toTree
      let st' := { st with topos := (n, ⟨topo, edges.map Edge.id, tree⟩) :: st.topos }
      (st', match tree with | .ok _ => "ok" | .error e => showErr e)
    | _, _ => (st, "err Malformed")
  | ["masses", n] => (st, withTree st n fun s t => showDict (invariantMasses t s.order))
  | ["angles", n] => (st, withTree st n fun _ t => showDict (helicityAngles st.variant t))
  | ["writes", n] =>
    (st, withTree st n fun _ t =>
      ";".intercalate ((angleWrites st.variant t).map fun w => String.ofList w.suffix ++ "=" ++ showDesc w.desc))
  | "permute" :: ns =>
    (st, exc (collectTopos st ns) fun ts =>
      "|".intercalate ((permutateRegistered (ts.map Topo.normalize)).map showTopo))
  | "register" :: ns =>
    (st, exc (collectTopos st ns) fun ts =>
      let r := ts.foldl (fun acc t => match acc with
        | .ok reg => registerTopology reg t
        | .error e => .error e) (.ok [] : Except Err (List Topo))
      exc r fun reg => "ok " ++ toString reg.length)
  | "reghist" :: ns =>
    -- a history of register_topology calls with rejected calls caught: what stays registered
    (st, exc (collectTopos st ns) fun ts =>
      let r := registerHistory ts
      "kept " ++ toString r.1.length ++ " errs " ++ toString r.2)
  | "merge" :: ns =>
    (st, exc (collectTrees st ns) fun ts => showDict (createExpressions st.variant ts))
  | "collisions" :: ns =>
    (st, exc (collectTrees st ns) fun ts =>
      ";".intercalate ((collisions st.variant ts).map fun c =>
        String.ofList c.1 ++ "=" ++ showDef c.2.1 ++ "/" ++ showDef c.2.2))
  | "natsort" :: names =>
    (st, " ".intercalate ((naturalSort (names.map String.toList)).map String.ofList))
  | [q, n, e] =>
    match e.toInt? with
    | none => (st, "err Malformed")
    | some e =>
      (st, withTree st n fun _ t =>
        match q with
        | "attached" => exc (determineAttached t e) showIds
        | "sibling" => exc (getSiblingId t e) toString
        | "opp" => exc (isOpposite t e) fun b => if b then "1" else "0"
        | "parent" => exc (getParentId t e) fun p => match p with | some i => toString i | none => "None"
        | "chain" => exc (listDecayChainIds t e) showIds
        | "bchain" => exc (boostChainIds t e) showIds
        | "suffix" => exc (boostChainSuffix t e) String.ofList
        | "mass" => exc (massName t e) String.ofList
        | _ => "err Malformed")
  | _ => (st, "err Malformed")

partial def loop (h : IO.FS.Stream) (st : State) : IO Unit := do
  let line ← h.getLine
  if line.isEmpty then return ()
  let toks := (line.trimAscii.toString.splitOn " ").filter (· ≠ "")
  match toks with
  | [] => loop h st
  | _ =>
    let (st', out) := step st toks
    IO.println out
    loop h st'

end Ampverif.Drivers.C07

def main : IO Unit := do Ampverif.Drivers.C07.loop (← IO.getStdin) {}
