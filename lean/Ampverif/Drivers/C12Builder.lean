-- line-protocol entry point of Model/C12Builder.lean (kept out of the model so the library root builds)
import Ampverif.Model.C12Builder
def main : IO Unit := do
  Ampverif.C12Builder.loop (← IO.getStdin) Ampverif.C12Builder.Variant.soundV ⟨false, false, 0⟩
