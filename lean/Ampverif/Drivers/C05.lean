/-
C05 — line-protocol driver: `lake env lean --run Ampverif/Drivers/C05.lean`.

* `range <variant 0|1> <2·spin> <flag 0|1>`  → one line (`ok …` | `ValueError` | `OutOfFuel`)
* `skel <none|axis|dpd1|dpd2|dpd3> <variant> <tree> <state>*` → skeleton lines, then `done`
-/
import Ampverif.Model.C05Spin
import Ampverif.Model.C05Align

open Ampverif.Model

partial def c05Loop (h out : IO.FS.Stream) : IO Unit := do
  let line ← h.getLine
  if line.isEmpty then return
  let toks := ((line.splitOn "\n").headD "" |>.splitOn " ").filter (· ≠ "")
  match toks with
  | "range" :: rest => out.putStrLn (C05Spin.answer (" ".intercalate rest))
  | "skel" :: rest => for l in C05Align.answer (" ".intercalate ("skel" :: rest)) do out.putStrLn l
  | [] => pure ()
  | _ => out.putStrLn "bad-request"
  c05Loop h out

def main : IO Unit := do
  let h ← IO.getStdin
  let out ← IO.getStdout
  c05Loop h out
