/-
Shared token parser / encoders of the C01 and C13 line-protocol drivers (reaction blocks, names).
-/
import Ampverif.Model.C01Builder

open Ampverif.Model.C01

abbrev P := StateT (List String) (Except String)

def tok : P String := do
  match (← get) with
  | [] => throw "unexpected end of line"
  | t :: ts => set ts; pure t

def expect (s : String) : P Unit := do
  let t ← tok
  if t ≠ s then throw s!"expected {s}, got {t}"

def pNat : P Nat := do
  let t ← tok
  match t.toNat? with
  | some n => pure n
  | none => throw s!"not a natural number: {t}"

def pInt : P Int := do
  let t ← tok
  match t.toInt? with
  | some n => pure n
  | none => throw s!"not an integer: {t}"

def pBool : P Bool := do
  let t ← tok
  match t with
  | "0" => pure false
  | "1" => pure true
  | _ => throw s!"not a flag: {t}"

def decodeName (t : String) : Except String Name :=
  if t = "e" then pure [] else
  (t.splitOn ".").mapM (fun x => match x.toNat? with
    | some n => pure n
    | none => throw s!"bad name token {t}")

def pName : P Name := do
  let t ← tok
  match decodeName t with
  | .ok n => pure n
  | .error e => throw e

def pOpt {α} (p : P α) : P (Option α) := do
  match (← get) with
  | "-" :: ts => set ts; pure none
  | _ => some <$> p

def pMany {α} (p : P α) : P (List α) := do
  let n ← pNat
  let rec go : Nat → List α → P (List α)
    | 0, acc => pure acc.reverse
    | k + 1, acc => do let x ← p; go k (x :: acc)
  go n []

partial def pTree : P Tree := do
  let t ← tok
  match t with
  | "L" => Tree.leaf <$> pInt
  | "N" => do
    let e ← pInt
    let n ← pNat
    let a ← pTree
    let b ← pTree
    -- children in ascending edge-id order (iteration order of a small-int set)
    pure (if b.edge < a.edge then Tree.node e n b a else Tree.node e n a b)
  | _ => throw s!"bad tree token {t}"

def pParticle : P Particle := do
  let name ← pName
  let latex ← pOpt pName
  let spin2 ← pNat
  let massless ← pBool
  pure ⟨name, latex, spin2, massless⟩

def pState : P State := do
  let e ← pInt
  let p ← pNat
  let m ← pInt
  pure ⟨e, p, m⟩

def pInter : P Inter := do
  let n ← pNat
  let l ← pOpt pNat
  let s ← pOpt pNat
  let pf ← pOpt pInt
  pure ⟨n, l, s, pf⟩

def pChain : P Chain := do
  let t ← pNat
  let ss ← pMany pState
  pure ⟨t, ss⟩

def pTransition : P Transition := do
  let t ← pNat
  let ss ← pMany pState
  let is ← pMany pInter
  let cs ← pMany pChain
  pure ⟨t, ss, is, cs⟩


/-- `F <h|c> P … T … R …` : one reaction -/
def pReaction : P Reaction := do
  expect "F"
  let f ← tok
  expect "P"
  let ps ← pMany pParticle
  expect "T"
  let ts ← pMany pTree
  expect "R"
  let rs ← pMany pTransition
  pure ⟨f = "c", ps, ts, rs⟩

def encName (n : Name) : String :=
  if n.isEmpty then "e" else ".".intercalate (n.map toString)

def encKey (k : AmpKey) : String :=
  encName k.1 ++ ":" ++ "_".intercalate (k.2.map toString)

def encList (xs : List String) : String := if xs.isEmpty then "-" else ",".intercalate xs

