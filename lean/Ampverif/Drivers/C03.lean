/-
Line-protocol driver for the C03 model (`lake env lean --run Ampverif/Drivers/C03.lean`).

  variant <perFlippedNode 0|1> <guardOnFlipped 0|1> [<perNode 0|1>]   (perNode defaults to 1)
  flags <parentHel 0|1> <childHel 0|1> <lsArrow 0|1>
  chain <node>;<node>;…      node = eta,ls,pname,plabel,phel2,aname,alabel,ahel2,bname,blabel,bhel2
                              eta ∈ {-,1,-1}; ls ∈ {-, 2L:2S}; names/labels hex (UTF-8)
  end                        → mapping line, one line per chain, wf line, `repeated` line (number of
                               flipped nodes whose suffix already occurred at an earlier flipped node of
                               the same chain, summed over the chains), `done`
-/
import Ampverif.Model.C03ParityRule

open Ampverif.Model.C03

namespace C03Driver

def hexVal (c : Char) : Nat :=
  if '0' ≤ c && c ≤ '9' then c.toNat - '0'.toNat
  else if 'a' ≤ c && c ≤ 'f' then c.toNat - 'a'.toNat + 10
  else 0

def unhex (s : String) : String :=
  let rec go : List Char → List UInt8
    | a :: b :: rest => UInt8.ofNat (hexVal a * 16 + hexVal b) :: go rest
    | _ => []
  (String.fromUTF8? (ByteArray.mk (go s.toList).toArray)).getD "?"

def hexDigit (n : Nat) : Char := if n < 10 then Char.ofNat (48 + n) else Char.ofNat (87 + n)

def tohex (s : String) : String :=
  String.ofList (s.toUTF8.toList.foldr (fun b acc => hexDigit (b.toNat / 16) :: hexDigit (b.toNat % 16) :: acc) [])

def parseInt (s : String) : Int := s.toInt?.getD 0

def parseNode (s : String) : Option Node :=
  match s.splitOn "," with
  | [eta, ls, pn, pl, ph, an, al, ah, bn, bl, bh] =>
    let eta := if eta == "-" then none else some (parseInt eta)
    let ls := match ls.splitOn ":" with
      | [l, s] => some (l.toNat!, s.toNat!)
      | _ => none
    some { parent := ⟨unhex pn, unhex pl, parseInt ph⟩, childA := ⟨unhex an, unhex al, parseInt ah⟩,
           childB := ⟨unhex bn, unhex bl, parseInt bh⟩, eta := eta, ls := ls }
  | _ => none

def parseChain (s : String) : Chain := (s.splitOn ";").filterMap parseNode

structure State where
  v : Rule := ⟨⟨true, true⟩, true⟩
  f : Flags := ⟨false, true, false⟩
  chains : List Chain := []

def showOpt : Option Int → String
  | none => "-"
  | some p => toString p

def flush (st : State) : List String :=
  let ts := st.chains.reverse
  let m := registerAll st.f ts
  let mline := "mapping" ++ String.join (m.map fun (k, v) => " " ++ tohex k ++ "=" ++ tohex v)
  let clines := ts.map fun c =>
    "chain " ++ tohex (coefficientName st.f m c) ++ " " ++ showOpt (prefactorR st.v st.f m c)
  let wf := partnerInjective st.f ts.flatten
  let rep := (ts.map fun c => repeatedFlipped st.f m c []).foldl (· + ·) 0
  [mline] ++ clines ++ ["wf " ++ (if wf then "1" else "0"), "repeated " ++ toString rep, "done"]

partial def loop (h : IO.FS.Stream) (out : IO.FS.Stream) (st : State) : IO Unit := do
  let line ← h.getLine
  if line.isEmpty then return
  let line := String.ofList (line.toList.reverse.dropWhile Char.isWhitespace).reverse
  match line.splitOn " " with
  | ["variant", a, b] => loop h out { st with v := ⟨⟨a == "1", b == "1"⟩, true⟩ }
  | ["variant", a, b, c] => loop h out { st with v := ⟨⟨a == "1", b == "1"⟩, c == "1"⟩ }
  | ["flags", a, b, c] => loop h out { st with f := ⟨a == "1", b == "1", c == "1"⟩, chains := [] }
  | ["chain", c] => loop h out { st with chains := parseChain c :: st.chains }
  | ["end"] =>
    for l in flush st do out.putStrLn l
    loop h out { st with chains := [] }
  | [""] => loop h out st
  | _ =>
    out.putStrLn "bad-line"
    loop h out st

end C03Driver

def main : IO Unit := do
  let h ← IO.getStdin
  let out ← IO.getStdout
  C03Driver.loop h out {}
