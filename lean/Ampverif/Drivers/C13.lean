/-
Line-protocol driver for the C13 selector / formulation model (format: tools/corr/C13_real.py).
  hist <covers> F … P … T … R … O <n> {op}*         -> ok <map0>|<map1>|…   (choice map after every op)
  form <covers> F … P … T … R … M <n> {mass width}* ONE <tok> O <n> {op}* G <n|a> <hc> <parent> <child> <ls>
                                                     -> ok calls=… defaults=… skel=… inexpr=… | error ValueError
  skel: per (transition k, chain j) the amplitude skeleton  k/j|coef|couplings|phi:theta;…|dynamics factors
  (builder configuration: use_helicity_couplings and the three naming flags)
-/
import Ampverif.Drivers.C01Parse
import Ampverif.Model.C13Selector

open Ampverif.Model.C01 Ampverif.Model.C13

def pDecay : P Decay := do
  let p ← pState
  let c1 ← pState
  let c2 ← pState
  let l ← pOpt pNat
  let s ← pOpt pNat
  let pf ← pOpt pInt
  pure (p, c1, c2, ⟨0, l, s, pf⟩)

def pOp : P Op := do
  let t ← tok
  match t with
  | "name" => do let s ← pName; let b ← pNat; pure ⟨.byName s, b⟩
  | "part" => do let p ← pNat; let b ← pNat; pure ⟨.byParticle p, b⟩
  | "decay" => do let d ← pDecay; let b ← pNat; pure ⟨.byDecay d, b⟩
  | "node" => do let ti ← pNat; let n ← pNat; let b ← pNat; pure ⟨.byNode ti n, b⟩
  | "bad" => do let b ← pNat; pure ⟨.unsupported, b⟩
  | _ => throw s!"bad op {t}"

def optS {α} (f : α → String) : Option α → String
  | none => "x"
  | some a => f a

def encState (s : State) : String := s!"{s.edge}.{s.pidx}.{s.proj2}"

def encDecay (d : Decay) : String :=
  let i := d.2.2.2
  s!"{encState d.1}/{encState d.2.1}/{encState d.2.2.1}/{optS toString i.l}.{optS toString i.s2}.{optS toString i.pf}"

def encMap (m : Choices) : String := encList (m.map (fun kv => encDecay kv.1 ++ "=" ++ toString kv.2))

def histAnswer (covers : Bool) (r : Reaction) (ops : List Op) : String :=
  let ctx := ctxOf r
  let m0 := init (initialDecays covers r)
  let (_, outs) := ops.foldl (fun (acc : Choices × List String) op =>
    let m' := assign ctx acc.1 op
    let mark := if op.sel = .unsupported then "!" else ""
    (m', (mark ++ encMap m') :: acc.2)) (m0, [encMap m0])
  "ok " ++ "|".intercalate outs.reverse

def encCall (c : DynCall) : String :=
  s!"{c.builder}:{c.parent}:{encName c.vars.inv}:{encName c.vars.m1}:{encName c.vars.m2}:{encName c.vars.phi}:{encName c.vars.theta}:{optS toString c.vars.l}"

def encSemi (xs : List String) : String := if xs.isEmpty then "-" else ";".intercalate xs

def encFactor (c : DynCall) : String :=
  s!"{c.builder}:{c.parent}:{encName c.vars.inv}:{encName c.vars.m1}:{encName c.vars.m2}:{optS toString c.vars.l}"

def encSkel (x : Nat × Nat × ChainSkel) : String :=
  let s := x.2.2
  let hs := s.nodes.filterMap (fun ns => ns.coupling.map encName)
  let ds := s.nodes.map (fun ns => encName ns.phi ++ ":" ++ encName ns.theta)
  let fs := (s.dynFactors.filter (fun c => c.builder ≠ 0)).map encFactor
  s!"{x.1}/{x.2.1}|{optS encName s.coef}|{encSemi hs}|{encSemi ds}|{encSemi fs}"

def formAnswer (covers : Bool) (r : Reaction) (pinfo : List (Nat × Nat)) (one : Nat) (ops : List Op) (cfg : Config) : String :=
  let m := run (ctxOf r) (initialDecays covers r) ops
  let calls := allCalls m r
  if calls.any (fun c => (kindOfId c.builder).needsL && c.vars.l.isNone) then "error ValueError"
  else
    let pi : Nat → PInfo := fun i =>
      let mw := pinfo.getD i (0, 0)
      ⟨(r.particle i).ident, mw.1, mw.2⟩
    let dflt := collect (callWrites one r pi calls)
    let callsS := (calls.filter (fun c => c.builder ≠ 0)).map encCall
    let dfS := dflt.map (fun kv => encName kv.1 ++ "=" ++ toString kv.2)
    let skS := (allSkels cfg m r).map encSkel
    let ieS := (dedup (dynParamsInExpression cfg m r)).map encName
    let ie := if baseCollision r then "skip" else encList ieS
    s!"ok calls={encList callsS} defaults={encList dfS} skel={encList skS} inexpr={ie}"

def pRequest : P String := do
  let kind ← tok
  let covers ← pBool
  let r ← pReaction
  match kind with
  | "hist" => do
    expect "O"
    let ops ← pMany pOp
    pure (histAnswer covers r ops)
  | "form" => do
    expect "M"
    let pinfo ← pMany (do let a ← pNat; let b ← pNat; pure (a, b))
    expect "ONE"
    let one ← pNat
    expect "O"
    let ops ← pMany pOp
    expect "G"
    let al ← tok
    let hc ← pBool
    let parent ← pBool
    let child ← pBool
    let ls ← pBool
    -- stable ids / scalar initial mass do not enter a chain amplitude or the set of referenced amplitudes:
    -- fixed here, varied on the real side; the alignment decides which amplitude symbols the intensity sums over
    pure (formAnswer covers r pinfo one ops ⟨if al = "a" then .axis else .none, none, false, hc, parent, child, ls, [], false⟩)
  | _ => throw s!"bad request {kind}"

partial def loop (h : IO.FS.Stream) : IO Unit := do
  let line ← h.getLine
  if line.isEmpty then return ()
  let toks := (line.trimAscii.toString.splitOn " ").filter (· ≠ "")
  match toks with
  | [] => loop h
  | _ =>
    match (pRequest.run toks) with
    | .ok (s, _) => IO.println s
    | .error e => IO.println s!"bad-request {e}"
    loop h

def main : IO Unit := do loop (← IO.getStdin)
