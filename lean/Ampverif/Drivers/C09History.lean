-- C09: line-protocol entry point of the call-history state machine (Model/C10History.lean, shared with C10;
-- the K-matrix classes are `nrK` / `relK`), key = the factor object itself
import Ampverif.Model.C10History
def main : IO Unit := do
  Ampverif.C10History.loop (← IO.getStdin) false [] []
