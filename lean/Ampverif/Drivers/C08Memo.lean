-- line-protocol entry point of Model/C08Memo.lean (kept out of the model so the library root builds)
import Ampverif.Model.C08Memo
def main : IO Unit := do
  Ampverif.C08Memo.loop (← IO.getStdin) Ampverif.C08Memo.KeyKind.ident []
