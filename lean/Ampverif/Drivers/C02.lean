/-
Line-protocol driver for the C02 model (`lake env lean --run Ampverif/Drivers/C02.lean`).

  variant <perFlippedNode 0|1> <guardOnFlipped 0|1> <ownProjections 0|1>
  config <canonical> <couplings> <parentHel> <childHel> <lsArrow> <dyn>    (0|1 each; dyn = - or namehex=builderhex,…)
  t <nodes>|<edges>|<states>|<inters>
        nodes  n,n,…                      edges  id:orig:dest;…   (`-` = none)
        states id,namehex,labelhex,spin2,hel2;…      inters node,eta,ls;…  (eta -|1|-1, ls -|2L:2S)
  end   → sym/amp/compA/compI/bases/pool/wf/agree lines, then `done`
-/
import Ampverif.Model.C02Skeleton

open Ampverif.Model.C03 Ampverif.Model.C02

namespace C02Driver

def hexVal (c : Char) : Nat :=
  if '0' ≤ c && c ≤ '9' then c.toNat - '0'.toNat
  else if 'a' ≤ c && c ≤ 'f' then c.toNat - 'a'.toNat + 10
  else 0

def unhex (s : String) : String :=
  let rec go : List Char → List UInt8
    | a :: b :: rest => UInt8.ofNat (hexVal a * 16 + hexVal b) :: go rest
    | _ => []
  (String.fromUTF8? (ByteArray.mk (go s.toList).toArray)).getD "?"

def hexDigit (n : Nat) : Char := if n < 10 then Char.ofNat (48 + n) else Char.ofNat (87 + n)

def tohex (s : String) : String :=
  String.ofList (s.toUTF8.toList.foldr (fun b acc => hexDigit (b.toNat / 16) :: hexDigit (b.toNat % 16) :: acc) [])

def pInt (s : String) : Int := s.toInt?.getD 0
def pNat (s : String) : Nat := s.toNat?.getD 0
def pOptNat (s : String) : Option Nat := if s == "-" then none else some (pNat s)

def parseTransition (s : String) : Option Transition :=
  match s.splitOn "|" with
  | [ns, es, ss, is] =>
    let nodes := (ns.splitOn ",").filter (· ≠ "") |>.map pNat
    let edges := (es.splitOn ";").filterMap fun e =>
      match e.splitOn ":" with
      | [i, o, d] => some (⟨pInt i, pOptNat o, pOptNat d⟩ : Edge)
      | _ => none
    let states := (ss.splitOn ";").filterMap fun e =>
      match e.splitOn "," with
      | [i, n, l, sp, h] => some (pInt i, (⟨unhex n, unhex l, pNat sp, pInt h⟩ : EState))
      | _ => none
    let inters := (is.splitOn ";").filterMap fun e =>
      match e.splitOn "," with
      | [n, eta, ls] =>
        let eta := if eta == "-" then none else some (pInt eta)
        let ls := match ls.splitOn ":" with
          | [l, sc] => some (pNat l, pNat sc)
          | _ => none
        some (pNat n, (⟨eta, ls⟩ : Inter))
      | _ => none
    some ⟨nodes, edges, states, inters⟩
  | _ => none

def ints (l : List Int) : String := if l.isEmpty then "-" else ",".intercalate (l.map toString)

def termStr (t : Term) : String :=
  let cs := (match t.coeff with | some c => [c] | none => []) ++ t.nodes.filterMap (·.coupling)
  "P=" ++ toString t.prefactor
    ++ "|C=" ++ ",".intercalate (cs.map tohex)
    ++ "|D=" ++ ";".intercalate (t.nodes.map fun n =>
        ints [n.d.j2, n.d.m2, n.d.mu2] ++ "," ++ tohex n.d.phi ++ "," ++ tohex n.d.theta)
    ++ "|G=" ++ ";".intercalate ((t.nodes.flatMap (·.cg)).map fun g => ints [g.j1, g.m1, g.j2, g.m2, g.J, g.M])
    ++ "|L=" ++ ";".intercalate ((t.nodes.filterMap (·.dyn)).map fun a =>
        ",".intercalate [tohex a.builder, tohex a.particle, tohex a.mParent, tohex a.m1, tohex a.m2,
          (match a.ell with | some l => toString l | none => "-"), tohex a.phi, tohex a.theta])

def terms (l : List Term) : String := if l.isEmpty then "-" else "#".intercalate (l.map termStr)

def optNat : Option Nat → String
  | none => "-"
  | some n => toString n

def graphStr (t : Transition) : String :=
  let es := sortBy (fun (a b : Edge) => a.id < b.id) t.edges
  let ss := sortBy (fun (a b : Int × EState) => a.1 < b.1) t.states
  ",".intercalate (es.map fun e => toString e.id ++ ":" ++ optNat e.orig ++ ":" ++ optNat e.dest)
    ++ "/" ++ ",".intercalate (ss.map fun p => toString p.1 ++ ":" ++ tohex p.2.name ++ ":" ++ toString p.2.hel2)

structure State where
  v : Variant := ⟨true, true⟩
  own : Bool := true
  cfg : Config := ⟨false, false, ⟨false, true, false⟩, []⟩
  ts : List Transition := []

def flush (st : State) : List String :=
  let ts := st.ts.reverse
  let s := impl st.v st.own st.cfg ts
  let p := spec st.v st.cfg ts
  (ts.map fun t => "sym " ++ "#".intercalate (t.symmetrise.map graphStr))
  ++ (s.writes.map fun w => "amp " ++ tohex w.base ++ " " ++ ints w.idx ++ " " ++ terms w.terms)
  ++ (s.compA.map fun (n, t) => "compA " ++ tohex n ++ " " ++ termStr t)
  ++ (s.compI.map fun (n, ls) => "compI " ++ tohex n ++ " " ++ "@".intercalate (ls.map terms))
  ++ ["bases " ++ " ".intercalate (s.bases.map tohex)]
  ++ (s.pools.map fun (n, vs) => "pool " ++ n ++ " " ++ ints vs)
  ++ ["wf " ++ (if wellFormed ts && (st.own || wellGrouped ts) then "1" else "0"),
      "grouped " ++ (if wellGrouped ts then "1" else "0"),
      "agree " ++ (if skeletonsAgree s p then "1" else "0"), "done"]

partial def loop (h : IO.FS.Stream) (out : IO.FS.Stream) (st : State) : IO Unit := do
  let line ← h.getLine
  if line.isEmpty then return
  let line := String.ofList (line.toList.reverse.dropWhile Char.isWhitespace).reverse
  match line.splitOn " " with
  | ["variant", a, b, c] => loop h out { st with v := ⟨a == "1", b == "1"⟩, own := c == "1" }
  | ["config", c, k, p, ch, ls, dyn] =>
    let d := if dyn == "-" then [] else (dyn.splitOn ",").filterMap fun e =>
      match e.splitOn "=" with
      | [a, b] => some (unhex a, unhex b)
      | _ => none
    loop h out { st with cfg := ⟨c == "1", k == "1", ⟨p == "1", ch == "1", ls == "1"⟩, d⟩, ts := [] }
  | ["t", body] =>
    match parseTransition body with
    | some t => loop h out { st with ts := t :: st.ts }
    | none => out.putStrLn "bad-transition"; loop h out st
  | ["end"] =>
    for l in flush st do out.putStrLn l
    loop h out { st with ts := [] }
  | [""] => loop h out st
  | _ =>
    out.putStrLn "bad-line"
    loop h out st

end C02Driver

def main : IO Unit := do
  let h ← IO.getStdin
  let out ← IO.getStdout
  C02Driver.loop h out {}
