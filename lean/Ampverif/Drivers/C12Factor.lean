-- line-protocol entry point of Model/C12Factor.lean (kept out of the model so the library root builds)
import Ampverif.Model.C12Factor
def main : IO Unit := do
  Ampverif.C12Factor.loop (← IO.getStdin) false [] []
