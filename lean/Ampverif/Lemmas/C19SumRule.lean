/-
The analytic core of the ζ sum rule: three cosines `N_a/(√A₀√A₃)`, `N_b/(√A₀√A₂)`, `N_c/(√A₂√A₃)`
whose Gram defects coincide (`= G ≥ 0`) and whose numerators are related as for three coplanar
vectors `u, v, u+v` satisfy `arccos c = arccos a + arccos b`.
-/
import Ampverif.Lemmas.C19Basic
import Mathlib.Tactic.LinearCombination

namespace Ampverif.Lemmas.C19

/-- version with the square roots named: `A₀ = r₀²`, `A₂ = r₂²`, `A₃ = r₃²`, `G = g²` -/
theorem sum_rule_aux {r0 r2 r3 g Na Nb Nc : ℝ} (h0 : 0 < r0) (h2 : 0 < r2) (h3 : 0 < r3)
    (hg : 0 ≤ g) (ha : r0 ^ 2 * r3 ^ 2 - Na ^ 2 = g ^ 2) (hb : r0 ^ 2 * r2 ^ 2 - Nb ^ 2 = g ^ 2)
    (hc : r2 ^ 2 * r3 ^ 2 - Nc ^ 2 = g ^ 2) (hab : Na * Nb - Nc * r0 ^ 2 = g ^ 2)
    (hNa : Na = Nc + r3 ^ 2) (hNb : Nb = Nc + r2 ^ 2) :
    Real.arccos (Nc / (r2 * r3)) = Real.arccos (Na / (r0 * r3)) + Real.arccos (Nb / (r0 * r2)) := by
  have p03 : 0 < r0 * r3 := by positivity
  have p02 : 0 < r0 * r2 := by positivity
  have p23 : 0 < r2 * r3 := by positivity
  have bNa := abs_le_of_sq_le_sq' (a := Na) (b := r0 * r3) (by nlinarith [sq_nonneg g]) p03.le
  have bNb := abs_le_of_sq_le_sq' (a := Nb) (b := r0 * r2) (by nlinarith [sq_nonneg g]) p02.le
  have bNc := abs_le_of_sq_le_sq' (a := Nc) (b := r2 * r3) (by nlinarith [sq_nonneg g]) p23.le
  have hx1 : -1 ≤ Na / (r0 * r3) := by rw [le_div_iff₀ p03]; linarith [bNa.1]
  have hx2 : Na / (r0 * r3) ≤ 1 := by rw [div_le_one p03]; exact bNa.2
  have hy1 : -1 ≤ Nb / (r0 * r2) := by rw [le_div_iff₀ p02]; linarith [bNb.1]
  have hy2 : Nb / (r0 * r2) ≤ 1 := by rw [div_le_one p02]; exact bNb.2
  have sx : Real.sqrt (1 - (Na / (r0 * r3)) ^ 2) = g / (r0 * r3) := by
    have : 1 - (Na / (r0 * r3)) ^ 2 = (g / (r0 * r3)) ^ 2 := by
      field_simp
      linear_combination ha
    rw [this, Real.sqrt_sq (by positivity)]
  have sy : Real.sqrt (1 - (Nb / (r0 * r2)) ^ 2) = g / (r0 * r2) := by
    have : 1 - (Nb / (r0 * r2)) ^ 2 = (g / (r0 * r2)) ^ 2 := by
      field_simp
      linear_combination hb
    rw [this, Real.sqrt_sq (by positivity)]
  have hsum : 0 ≤ Na / (r0 * r3) + Nb / (r0 * r2) := by
    have : Na / (r0 * r3) + Nb / (r0 * r2) = ((r2 + r3) * (Nc + r2 * r3)) / (r0 * r2 * r3) := by
      rw [hNa, hNb]
      field_simp
      ring
    rw [this]
    apply div_nonneg _ (by positivity)
    apply mul_nonneg (by positivity)
    linarith [bNc.1]
  rw [arccos_add_arccos hx1 hx2 hy1 hy2 hsum, sx, sy]
  congr 1
  field_simp
  linear_combination (-1 : ℝ) * hab

theorem sum_rule_abstract {A0 A2 A3 Na Nb Nc G : ℝ} (h0 : 0 < A0) (h2 : 0 < A2) (h3 : 0 < A3)
    (hG : 0 ≤ G) (ha : A0 * A3 - Na ^ 2 = G) (hb : A0 * A2 - Nb ^ 2 = G)
    (hc : A2 * A3 - Nc ^ 2 = G) (hab : Na * Nb - Nc * A0 = G)
    (hNa : Na = Nc + A3) (hNb : Nb = Nc + A2) :
    Real.arccos (Nc / (Real.sqrt A2 * Real.sqrt A3))
      = Real.arccos (Na / (Real.sqrt A0 * Real.sqrt A3))
        + Real.arccos (Nb / (Real.sqrt A0 * Real.sqrt A2)) := by
  have e0 : Real.sqrt A0 ^ 2 = A0 := Real.sq_sqrt h0.le
  have e2 : Real.sqrt A2 ^ 2 = A2 := Real.sq_sqrt h2.le
  have e3 : Real.sqrt A3 ^ 2 = A3 := Real.sq_sqrt h3.le
  have eg : Real.sqrt G ^ 2 = G := Real.sq_sqrt hG
  exact sum_rule_aux (g := Real.sqrt G) (Real.sqrt_pos.mpr h0) (Real.sqrt_pos.mpr h2)
    (Real.sqrt_pos.mpr h3) (Real.sqrt_nonneg G) (by rw [e0, e3, eg]; exact ha)
    (by rw [e0, e2, eg]; exact hb) (by rw [e2, e3, eg]; exact hc) (by rw [e0, eg]; exact hab)
    (by rw [e3]; exact hNa) (by rw [e2]; exact hNb)

end Ampverif.Lemmas.C19
