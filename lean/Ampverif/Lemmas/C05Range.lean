/-
C05 — `create_spin_range` model: the loop produces `-s, -s+1, …, s`, ends by its own condition,
and the `remove(0.0)` step removes exactly the value 0 when it is there.
-/
import Ampverif.Model.C05Spin
import Mathlib.Data.List.Nodup
import Mathlib.Data.List.Range
import Mathlib.Tactic.Ring
import Mathlib.Tactic.Linarith

namespace Ampverif.Lemmas.C05Range
open Ampverif.Model.C05Spin

theorem loop_spec (n : ℕ) : ∀ (fuel : ℕ) (s2 p : ℤ) (acc : List ℤ), n ≤ fuel →
    s2 < p + 2 * (n : ℤ) → (∀ k : ℕ, k < n → p + 2 * (k : ℤ) ≤ s2) →
    loop fuel s2 p acc = some (acc ++ (List.range n).map (fun (k : ℕ) => p + 2 * (k : ℤ))) := by
  induction n with
  | zero =>
    intro fuel s2 p acc _ hn _
    have hp : ¬ p ≤ s2 := by simp at hn; omega
    cases fuel <;> simp [loop, hp]
  | succ n ih =>
    intro fuel s2 p acc hfuel hn hle
    have hp : p ≤ s2 := by simpa using hle 0 (Nat.succ_pos n)
    obtain ⟨f, rfl⟩ : ∃ f, fuel = f + 1 := ⟨fuel - 1, by omega⟩
    have hp' : (if p = 0 then (0 : ℤ) else p) = p := by split <;> simp_all
    simp only [loop, hp, if_true, hp']
    rw [ih f s2 (p + 2) (acc ++ [p]) (by omega) (by push_cast at hn ⊢; omega)
      (fun k hk => by have := hle (k + 1) (by omega); push_cast at this; omega)]
    rw [List.range_succ_eq_map, List.map_cons, List.map_map, List.append_assoc]
    congr 2
    simp only [Nat.cast_zero, mul_zero, add_zero, List.singleton_append, List.cons.injEq, true_and]
    apply List.map_congr_left
    intro k _
    simp only [Function.comp, Nat.succ_eq_add_one]
    push_cast
    ring

theorem loop_full (s2 : ℕ) : loop ((s2 : ℤ).toNat + 1) s2 (-(s2 : ℤ)) [] = some (fullRange s2) := by
  rw [loop_spec (s2 + 1) _ _ _ _ (by simp) (by push_cast; omega) (fun k hk => by omega)]
  simp [fullRange]

theorem fullRange_nodup (s2 : ℕ) : (fullRange s2).Nodup := by
  unfold fullRange
  apply List.Nodup.map _ (List.nodup_range)
  intro a b h
  simp only at h
  omega

theorem mem_fullRange (s2 : ℕ) (m : ℤ) : m ∈ fullRange s2 ↔ ∃ k : ℕ, k ≤ s2 ∧ m = -(s2 : ℤ) + 2 * (k : ℤ) := by
  unfold fullRange
  simp only [List.mem_map, List.mem_range]
  constructor
  · rintro ⟨k, hk, rfl⟩; exact ⟨k, by omega, rfl⟩
  · rintro ⟨k, hk, rfl⟩; exact ⟨k, by omega, rfl⟩

theorem fullRange_neg (s2 : ℕ) : ∀ m ∈ fullRange s2, -m ∈ fullRange s2 := by
  intro m hm
  obtain ⟨k, hk, rfl⟩ := (mem_fullRange s2 m).mp hm
  exact (mem_fullRange s2 _).mpr ⟨s2 - k, by omega, by push_cast [Nat.cast_sub hk]; ring⟩

theorem zero_mem_fullRange (s2 : ℕ) : (0 : ℤ) ∈ fullRange s2 ↔ s2 % 2 = 0 := by
  rw [mem_fullRange]
  constructor
  · rintro ⟨k, _, h⟩; omega
  · intro h; exact ⟨s2 / 2, by omega, by omega⟩

theorem length_fullRange (s2 : ℕ) : (fullRange s2).length = s2 + 1 := by simp [fullRange]

theorem pyRemove_spec (x : ℤ) : ∀ l : List ℤ, x ∈ l → l.Nodup →
    pyRemove x l = some (l.filter (· ≠ x)) := by
  intro l
  induction l with
  | nil => intro h; simp at h
  | cons y ys ih =>
    intro hx hnd
    have hy : y ∉ ys := (List.nodup_cons.mp hnd).1
    have hys : ys.Nodup := (List.nodup_cons.mp hnd).2
    by_cases hyx : y = x
    · subst hyx
      simp only [pyRemove, if_true, List.filter_cons, ne_eq, not_true_eq_false, decide_false]
      congr 1
      symm
      simp only [Bool.false_eq_true, if_false]
      rw [List.filter_eq_self]
      intro a ha
      simp only [decide_eq_true_eq]
      intro h; exact hy (h ▸ ha)
    · have hx' : x ∈ ys := by
        rcases List.mem_cons.mp hx with h | h
        · exact absurd h.symm hyx
        · exact h
      simp only [pyRemove, hyx, if_false, ih hx' hys, Option.map_some, List.filter_cons, ne_eq,
        not_false_eq_true, decide_true, if_true]

/-- `create_spin_range` of the repaired source: total, and exactly the specification. -/
theorem spinRange_sound (v : Variant) (hv : v.sound) (s2 : ℕ) (flag : Bool) :
    spinRange v (s2 : ℤ) flag = .ok (specRange s2 flag) := by
  unfold Variant.sound at hv
  unfold spinRange specRange
  rw [loop_full]
  simp only [hv, Bool.not_true, Bool.false_or, length_fullRange]
  cases flag with
  | false => simp
  | true =>
    by_cases h0 : s2 = 0
    · subst h0; simp [fullRange]
    · have hpos : 0 < s2 := Nat.pos_of_ne_zero h0
      by_cases hev : s2 % 2 = 0
      · have hmem := (zero_mem_fullRange s2).mpr hev
        have hc : (fullRange s2).contains 0 = true := by simpa using hmem
        simp only [Bool.true_and, hc, hev, hpos, pyRemove_spec 0 _ hmem (fullRange_nodup s2)]
        simp [h0]
      · have hmem : (0 : ℤ) ∉ fullRange s2 := fun h => hev ((zero_mem_fullRange s2).mp h)
        have hc : (fullRange s2).contains 0 = false := by simpa using hmem
        simp [hev, hmem]

end Ampverif.Lemmas.C05Range
