/-
Helper lemmas for C18: substitutions commute syntactically; `doit`.
-/
import Ampverif.Lemmas.C18Cleanup

namespace Ampverif.Lemmas.C18
open Ampverif.Model

/-! ### substituting a symbol that does not occur -/

mutual
theorem subst1_not_occ (v : Variant) (hv : v.sound) (i : Sym) (r : Expr) :
    ∀ e : Expr, i ∉ syms e → subst1 v i r e = e
  | .sym s, h => by
      have : s ≠ i := by intro hs; apply h; simp [syms, hs]
      simp [subst1, this]
  | .rat q, _ => by simp [subst1]
  | .add es, h => by simp [subst1, subst1List_not_occ v hv i r es (by simpa [syms] using h)]
  | .mul es, h => by simp [subst1, subst1List_not_occ v hv i r es (by simpa [syms] using h)]
  | .pow b n, h => by simp [subst1, subst1_not_occ v hv i r b (by simpa [syms] using h)]
  | .app f es, h => by simp [subst1, subst1List_not_occ v hv i r es (by simpa [syms] using h)]
  | .node c es t, h => by
      have hr : v.getArgsRecursive = false := hv.1
      simp [subst1, hr, subst1List_not_occ v hv i r es (by simpa [syms] using h)]
  | .psum b ixs, h => by
      have hp : v.poolSumProtectsBound = true := hv.2
      have h' : i ∉ names ixs ∧ i ∉ syms b := by simpa [syms] using h
      by_cases hx : (names ixs).contains i = true
      · simp only [subst1, hp, hx, if_true]
      · simp only [subst1, hp, hx, if_true]
        simp [subst1_not_occ v hv i r b h'.2]
  | .idx f es, h => by simp [subst1, subst1List_not_occ v hv i r es (by simpa [syms] using h)]
theorem subst1List_not_occ (v : Variant) (hv : v.sound) (i : Sym) (r : Expr) :
    ∀ es : List Expr, i ∉ symsList es → subst1List v i r es = es
  | [], _ => by simp [subst1List]
  | e :: es, h => by
      have h' : i ∉ syms e ∧ i ∉ symsList es := by simpa [symsList] using h
      simp [subst1List, subst1_not_occ v hv i r e h'.1, subst1List_not_occ v hv i r es h'.2]
end

theorem subst1_psum_mem (v : Variant) (hv : v.sound) (x : Sym) (a b : Expr) (ixs : List Binder)
    (h : x ∈ names ixs) : subst1 v x a (.psum b ixs) = .psum b ixs := by
  have hp : v.poolSumProtectsBound = true := hv.2
  have hx : (names ixs).contains x = true := by simpa using h
  simp only [subst1, hp, hx, if_true]

theorem subst1_psum_not_mem (v : Variant) (hv : v.sound) (x : Sym) (a b : Expr) (ixs : List Binder)
    (h : x ∉ names ixs) : subst1 v x a (.psum b ixs) = .psum (subst1 v x a b) ixs := by
  have hp : v.poolSumProtectsBound = true := hv.2
  have hx : ¬ (names ixs).contains x = true := by simpa using h
  simp only [subst1, hp, hx, if_true]
  simp

/-! ### two substitutions commute -/

mutual
theorem subst1_comm (v : Variant) (hv : v.sound) (i : Sym) (q : Q) (x : Sym) (a : Expr)
    (hix : i ≠ x) (hia : i ∉ syms a) :
    ∀ e : Expr, subst1 v i (.rat q) (subst1 v x a e) = subst1 v x a (subst1 v i (.rat q) e)
  | .sym s => by
      by_cases hsx : s = x
      · have hsi : s ≠ i := fun h => hix (h.symm.trans hsx)
        simp [subst1, hsx, hsi, subst1_not_occ v hv i (.rat q) a hia, Ne.symm hix]
      · by_cases hsi : s = i
        · simp [subst1, hsx, hsi, hix]
        · simp [subst1, hsx, hsi]
  | .rat r => by simp [subst1]
  | .add es => by simp [subst1, subst1List_comm v hv i q x a hix hia es]
  | .mul es => by simp [subst1, subst1List_comm v hv i q x a hix hia es]
  | .pow b n => by simp [subst1, subst1_comm v hv i q x a hix hia b]
  | .app f es => by simp [subst1, subst1List_comm v hv i q x a hix hia es]
  | .node c es t => by
      have hr : v.getArgsRecursive = false := hv.1
      simp [subst1, hr, subst1List_comm v hv i q x a hix hia es]
  | .psum b ixs => by
      by_cases h1 : x ∈ names ixs <;> by_cases h2 : i ∈ names ixs
      · rw [subst1_psum_mem v hv x a b ixs h1, subst1_psum_mem v hv i _ b ixs h2,
          subst1_psum_mem v hv x a b ixs h1]
      · rw [subst1_psum_mem v hv x a b ixs h1, subst1_psum_not_mem v hv i _ b ixs h2,
          subst1_psum_mem v hv x a _ ixs h1]
      · rw [subst1_psum_not_mem v hv x a b ixs h1, subst1_psum_mem v hv i _ _ ixs h2,
          subst1_psum_mem v hv i _ b ixs h2, subst1_psum_not_mem v hv x a b ixs h1]
      · rw [subst1_psum_not_mem v hv x a b ixs h1, subst1_psum_not_mem v hv i _ _ ixs h2,
          subst1_psum_not_mem v hv i _ b ixs h2, subst1_psum_not_mem v hv x a _ ixs h1,
          subst1_comm v hv i q x a hix hia b]
  | .idx f es => by simp [subst1, subst1List_comm v hv i q x a hix hia es]
theorem subst1List_comm (v : Variant) (hv : v.sound) (i : Sym) (q : Q) (x : Sym) (a : Expr)
    (hix : i ≠ x) (hia : i ∉ syms a) :
    ∀ es : List Expr,
      subst1List v i (.rat q) (subst1List v x a es) = subst1List v x a (subst1List v i (.rat q) es)
  | [] => by simp [subst1List]
  | e :: es => by
      simp [subst1List, subst1_comm v hv i q x a hix hia e, subst1List_comm v hv i q x a hix hia es]
end

theorem substSeq_comm (v : Variant) (hv : v.sound) (x : Sym) (a : Expr) (c : List (Sym × Q)) :
    ∀ e : Expr, (∀ p ∈ c, p.1 ≠ x ∧ p.1 ∉ syms a) →
      substSeq v (litPairs c) (subst1 v x a e) = subst1 v x a (substSeq v (litPairs c) e) := by
  induction c with
  | nil => intro e _; simp [litPairs, substSeq]
  | cons p c ih =>
    intro e h
    obtain ⟨i, q⟩ := p
    have hp := h (i, q) List.mem_cons_self
    rw [substSeq_litPairs_cons, substSeq_litPairs_cons, subst1_comm v hv i q x a hp.1 hp.2,
      ih _ (fun p hp => h p (List.mem_cons_of_mem _ hp))]

theorem subst1List_map {α : Type} (v : Variant) (x : Sym) (a : Expr) (l : List α) (f : α → Expr) :
    subst1List v x a (l.map f) = l.map (fun c => subst1 v x a (f c)) := by
  induction l with
  | nil => simp [subst1List]
  | cons c l ih => simp [subst1List, ih]

theorem assignments_keys (ixs : List Binder) :
    ∀ c ∈ assignments ixs, ∀ p ∈ c, p.1 ∈ names ixs := by
  induction ixs with
  | nil => intro c hc p hp; simp [assignments] at hc; subst hc; simp at hp
  | cons b rest ih =>
    obtain ⟨i, pool⟩ := b
    intro c hc p hp
    simp only [assignments, List.mem_flatMap, List.mem_map] at hc
    obtain ⟨q, _, c', hc', rfl⟩ := hc
    rw [names_cons]
    rcases List.mem_cons.mp hp with h | h
    · subst h; simp
    · exact List.mem_cons_of_mem _ (ih c' hc' p h)

/-! ### `xreplace` with the empty map -/

mutual
theorem xreplace_nil (v : Variant) (hv : v.sound) : ∀ e : Expr, xreplace v e [] = e
  | .sym s => by simp [xreplace, lookup]
  | .rat q => by simp [xreplace]
  | .add es => by simp [xreplace, xreplaceList_nil v hv es]
  | .mul es => by simp [xreplace, xreplaceList_nil v hv es]
  | .pow b n => by simp [xreplace, xreplace_nil v hv b]
  | .app f es => by simp [xreplace, xreplaceList_nil v hv es]
  | .node c es t => by
      have hr : v.getArgsRecursive = false := hv.1
      simp [xreplace, hr, xreplaceList_nil v hv es]
  | .psum b ixs => by
      have hp : v.poolSumProtectsBound = true := hv.2
      simp [xreplace, hp, xreplace_nil v hv b]
  | .idx f es => by simp [xreplace, xreplaceList_nil v hv es]
theorem xreplaceList_nil (v : Variant) (hv : v.sound) : ∀ es : List Expr, xreplaceList v es [] = es
  | [] => by simp [xreplaceList]
  | e :: es => by simp [xreplaceList, xreplace_nil v hv e, xreplaceList_nil v hv es]
end

/-! ### `doit` -/

mutual
theorem eval_doitPass (I : Interp) (v : Variant) (hv : v.sound) (k : Expr → Expr)
    (hk : ∀ (e : Expr) (ρ : Env), wfSums e = true → eval I (k e) ρ = eval I e ρ)
    (hev : ∀ (b : Expr) (ixs : List Binder) (ρ : Env), wfSums (.psum b ixs) = true →
      eval I (evaluate v (.psum b ixs)) ρ = eval I (.psum b ixs) ρ) :
    ∀ (e : Expr) (ρ : Env), wfSums e = true → eval I (doitPass v k e) ρ = eval I e ρ
  | .sym s, ρ, _ => by simp [doitPass]
  | .rat q, ρ, _ => by simp [doitPass]
  | .add es, ρ, h => by
      simp only [doitPass, eval]; rw [evalList_doitPass I v hv k hk hev es ρ (by simpa [wfSums] using h)]
  | .mul es, ρ, h => by
      simp only [doitPass, eval]; rw [evalList_doitPass I v hv k hk hev es ρ (by simpa [wfSums] using h)]
  | .pow b n, ρ, h => by
      simp only [doitPass, eval]; rw [eval_doitPass I v hv k hk hev b ρ (by simpa [wfSums] using h)]
  | .app f es, ρ, h => by
      simp only [doitPass, eval]; rw [evalList_doitPass I v hv k hk hev es ρ (by simpa [wfSums] using h)]
  | .node c es t, ρ, h => by
      simp only [doitPass, eval]; rw [evalList_doitPass I v hv k hk hev es ρ (by simpa [wfSums] using h)]
  | .psum b ixs, ρ, h => by
      simp only [doitPass]
      rw [hk _ ρ (wfSums_evaluate v hv b ixs h), hev b ixs ρ h]
  | .idx f es, ρ, h => by
      simp only [doitPass, eval]; rw [evalList_doitPass I v hv k hk hev es ρ (by simpa [wfSums] using h)]
theorem evalList_doitPass (I : Interp) (v : Variant) (hv : v.sound) (k : Expr → Expr)
    (hk : ∀ (e : Expr) (ρ : Env), wfSums e = true → eval I (k e) ρ = eval I e ρ)
    (hev : ∀ (b : Expr) (ixs : List Binder) (ρ : Env), wfSums (.psum b ixs) = true →
      eval I (evaluate v (.psum b ixs)) ρ = eval I (.psum b ixs) ρ) :
    ∀ (es : List Expr) (ρ : Env), wfSumsList es = true →
      evalList I (doitPassList v k es) ρ = evalList I es ρ
  | [], ρ, _ => by simp [doitPassList]
  | e :: es, ρ, h => by
      have h' : wfSums e = true ∧ wfSumsList es = true := by simpa [wfSumsList] using h
      simp only [doitPassList, evalList]
      rw [eval_doitPass I v hv k hk hev e ρ h'.1, evalList_doitPass I v hv k hk hev es ρ h'.2]
end

end Ampverif.Lemmas.C18
