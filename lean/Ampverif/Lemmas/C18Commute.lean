/-
Helper lemmas for C18: substitutions commute syntactically; `doit`.
-/
import Ampverif.Lemmas.C18Cleanup

namespace Ampverif.Lemmas.C18
open Ampverif.Model

/-! ### substituting a symbol that does not occur -/

mutual
theorem subst1_not_occ (v : Variant) (hv : v.sound) (i : Sym) (r : Expr) :
    ∀ e : Expr, i ∉ syms e → subst1 v i r e = e
  | .sym s, h => by
      have : s ≠ i := by intro hs; apply h; simp [syms, hs]
      simp [subst1, this]
  | .rat q, _ => by simp [subst1]
  | .add es, h => by simp [subst1, subst1List_not_occ v hv i r es (by simpa [syms] using h)]
  | .mul es, h => by simp [subst1, subst1List_not_occ v hv i r es (by simpa [syms] using h)]
  | .pow b n, h => by simp [subst1, subst1_not_occ v hv i r b (by simpa [syms] using h)]
  | .app f es, h => by simp [subst1, subst1List_not_occ v hv i r es (by simpa [syms] using h)]
  | .node c es t, h => by
      have hr : v.getArgsRecursive = false := hv.1
      simp [subst1, hr, subst1List_not_occ v hv i r es (by simpa [syms] using h)]
  | .psum b ixs, h => by
      have hp : v.poolSumProtectsBound = true := hv.2
      have h' : i ∉ names ixs ∧ i ∉ symsBinders ixs ∧ i ∉ syms b := by simpa [syms, not_or] using h
      by_cases hx : (names ixs).contains i = true
      · simp only [subst1, hp, hx, if_true]
      · simp only [subst1, hp, hx, if_true]
        simp [subst1_not_occ v hv i r b h'.2.2, subst1Binders_not_occ v hv i r ixs h'.2.1]
  | .idx f es, h => by simp [subst1, subst1List_not_occ v hv i r es (by simpa [syms] using h)]
theorem subst1List_not_occ (v : Variant) (hv : v.sound) (i : Sym) (r : Expr) :
    ∀ es : List Expr, i ∉ symsList es → subst1List v i r es = es
  | [], _ => by simp [subst1List]
  | e :: es, h => by
      have h' : i ∉ syms e ∧ i ∉ symsList es := by simpa [symsList] using h
      simp [subst1List, subst1_not_occ v hv i r e h'.1, subst1List_not_occ v hv i r es h'.2]
theorem subst1Binders_not_occ (v : Variant) (hv : v.sound) (i : Sym) (r : Expr) :
    ∀ ixs : List (Sym × List Expr), i ∉ symsBinders ixs → subst1Binders v i r ixs = ixs
  | [], _ => by simp [subst1Binders]
  | (j, pool) :: rest, h => by
      have h' : i ∉ symsList pool ∧ i ∉ symsBinders rest := by simpa [symsBinders] using h
      simp [subst1Binders, subst1List_not_occ v hv i r pool h'.1, subst1Binders_not_occ v hv i r rest h'.2]
end

theorem subst1_psum_mem (v : Variant) (hv : v.sound) (x : Sym) (a b : Expr) (ixs : List Binder)
    (h : x ∈ names ixs) : subst1 v x a (.psum b ixs) = .psum b ixs := by
  have hp : v.poolSumProtectsBound = true := hv.2
  have hx : (names ixs).contains x = true := by simpa using h
  simp only [subst1, hp, hx, if_true]

theorem subst1_psum_not_mem (v : Variant) (hv : v.sound) (x : Sym) (a b : Expr) (ixs : List Binder)
    (h : x ∉ names ixs) :
    subst1 v x a (.psum b ixs) = .psum (subst1 v x a b) (subst1Binders v x a ixs) := by
  have hp : v.poolSumProtectsBound = true := hv.2
  have hx : ¬ (names ixs).contains x = true := by simpa using h
  simp only [subst1, hp, hx, if_true]
  simp

/-! ### two substitutions commute

`e[i ↦ w][x ↦ a] = e[x ↦ a][i ↦ w[x ↦ a]]` when `i ≠ x`, `a` does not mention `i`, and `w` does
not mention `x` wherever `x` is bound inside `e` (no capture). -/

mutual
theorem subst1_comm (v : Variant) (hv : v.sound) (i : Sym) (w : Expr) (x : Sym) (a : Expr)
    (hix : i ≠ x) (hia : i ∉ syms a) :
    ∀ e : Expr, (x ∈ bound e → x ∉ syms w) →
      subst1 v i (subst1 v x a w) (subst1 v x a e) = subst1 v x a (subst1 v i w e)
  | .sym s, _ => by
      by_cases hsx : s = x
      · have hsi : s ≠ i := fun h => hix (h.symm.trans hsx)
        simp [subst1, hsx, subst1_not_occ v hv i _ a hia, Ne.symm hix]
      · by_cases hsi : s = i
        · simp [subst1, hsi, hix]
        · simp [subst1, hsx, hsi]
  | .rat r, _ => by simp [subst1]
  | .add es, h => by simp [subst1, subst1List_comm v hv i w x a hix hia es (by simpa [bound] using h)]
  | .mul es, h => by simp [subst1, subst1List_comm v hv i w x a hix hia es (by simpa [bound] using h)]
  | .pow b n, h => by simp [subst1, subst1_comm v hv i w x a hix hia b (by simpa [bound] using h)]
  | .app f es, h => by simp [subst1, subst1List_comm v hv i w x a hix hia es (by simpa [bound] using h)]
  | .node c es t, h => by
      have hr : v.getArgsRecursive = false := hv.1
      simp [subst1, hr, subst1List_comm v hv i w x a hix hia es (by simpa [bound] using h)]
  | .psum b ixs, h => by
      have hb : x ∈ bound b → x ∉ syms w := fun hx => h (by simp [bound, hx])
      have hbb : x ∈ boundBinders ixs → x ∉ syms w := fun hx => h (by simp [bound, hx])
      by_cases h1 : x ∈ names ixs <;> by_cases h2 : i ∈ names ixs
      · rw [subst1_psum_mem v hv x a b ixs h1, subst1_psum_mem v hv i _ b ixs h2,
          subst1_psum_mem v hv i _ b ixs h2, subst1_psum_mem v hv x a b ixs h1]
      · have hxw : x ∉ syms w := h (by simp [bound, h1])
        rw [subst1_psum_mem v hv x a b ixs h1, subst1_not_occ v hv x a w hxw,
          subst1_psum_not_mem v hv i _ b ixs h2,
          subst1_psum_mem v hv x a _ _ (by rw [names_subst1Binders]; exact h1)]
      · rw [subst1_psum_not_mem v hv x a b ixs h1,
          subst1_psum_mem v hv i _ _ _ (by rw [names_subst1Binders]; exact h2),
          subst1_psum_mem v hv i _ b ixs h2, subst1_psum_not_mem v hv x a b ixs h1]
      · rw [subst1_psum_not_mem v hv x a b ixs h1,
          subst1_psum_not_mem v hv i _ _ _ (by rw [names_subst1Binders]; exact h2),
          subst1_psum_not_mem v hv i _ b ixs h2,
          subst1_psum_not_mem v hv x a _ _ (by rw [names_subst1Binders]; exact h1),
          subst1_comm v hv i w x a hix hia b hb, subst1Binders_comm v hv i w x a hix hia ixs hbb]
  | .idx f es, h => by simp [subst1, subst1List_comm v hv i w x a hix hia es (by simpa [bound] using h)]
theorem subst1List_comm (v : Variant) (hv : v.sound) (i : Sym) (w : Expr) (x : Sym) (a : Expr)
    (hix : i ≠ x) (hia : i ∉ syms a) :
    ∀ es : List Expr, (x ∈ boundList es → x ∉ syms w) →
      subst1List v i (subst1 v x a w) (subst1List v x a es) = subst1List v x a (subst1List v i w es)
  | [], _ => by simp [subst1List]
  | e :: es, h => by
      simp [subst1List, subst1_comm v hv i w x a hix hia e (fun hx => h (by simp [boundList, hx])),
        subst1List_comm v hv i w x a hix hia es (fun hx => h (by simp [boundList, hx]))]
theorem subst1Binders_comm (v : Variant) (hv : v.sound) (i : Sym) (w : Expr) (x : Sym) (a : Expr)
    (hix : i ≠ x) (hia : i ∉ syms a) :
    ∀ ixs : List (Sym × List Expr), (x ∈ boundBinders ixs → x ∉ syms w) →
      subst1Binders v i (subst1 v x a w) (subst1Binders v x a ixs)
        = subst1Binders v x a (subst1Binders v i w ixs)
  | [], _ => by simp [subst1Binders]
  | (j, pool) :: rest, h => by
      simp [subst1Binders, subst1List_comm v hv i w x a hix hia pool (fun hx => h (by simp [boundBinders, hx])),
        subst1Binders_comm v hv i w x a hix hia rest (fun hx => h (by simp [boundBinders, hx]))]
end

/-- the pairs of a replacement sequence with `x ↦ a` applied to every value. -/
def mapVals (v : Variant) (x : Sym) (a : Expr) (c : List (Sym × Expr)) : List (Sym × Expr) :=
  c.map (fun p => (p.1, subst1 v x a p.2))

theorem substSeq_comm (v : Variant) (hv : v.sound) (x : Sym) (a : Expr) (c : List (Sym × Expr)) :
    ∀ e : Expr, (∀ p ∈ c, p.1 ≠ x ∧ p.1 ∉ syms a ∧ noPsum p.2 = true ∧ (x ∈ bound e → x ∉ syms p.2)) →
      substSeq v (mapVals v x a c) (subst1 v x a e) = subst1 v x a (substSeq v c e) := by
  induction c with
  | nil => intro e _; simp [mapVals, substSeq]
  | cons p c ih =>
    intro e h
    obtain ⟨i, w⟩ := p
    have hp := h (i, w) List.mem_cons_self
    have : mapVals v x a ((i, w) :: c) = (i, subst1 v x a w) :: mapVals v x a c := by simp [mapVals]
    rw [this, substSeq_cons, substSeq_cons, subst1_comm v hv i w x a hp.1 hp.2.1 e hp.2.2.2]
    apply ih
    intro q hq
    have := h q (List.mem_cons_of_mem _ hq)
    refine ⟨this.1, this.2.1, this.2.2.1, ?_⟩
    rw [bound_subst1 v hv i w (bound_of_noPsum w hp.2.2.1)]
    exact this.2.2.2

theorem subst1List_map {α : Type} (v : Variant) (x : Sym) (a : Expr) (l : List α) (f : α → Expr) :
    subst1List v x a (l.map f) = l.map (fun c => subst1 v x a (f c)) := by
  induction l with
  | nil => simp [subst1List]
  | cons c l ih => simp [subst1List, ih]

theorem subst1List_eq_map (v : Variant) (x : Sym) (a : Expr) (l : List Expr) :
    subst1List v x a l = l.map (fun e => subst1 v x a e) := by
  have := subst1List_map v x a l id
  simpa using this

theorem assignments_keys {α : Type} (ixs : List (Sym × List α)) :
    ∀ c ∈ assignments ixs, ∀ p ∈ c, p.1 ∈ names ixs := by
  induction ixs with
  | nil => intro c hc p hp; simp [assignments] at hc; subst hc; simp at hp
  | cons b rest ih =>
    obtain ⟨i, pool⟩ := b
    intro c hc p hp
    simp only [assignments, List.mem_flatMap, List.mem_map] at hc
    obtain ⟨q, _, c', hc', rfl⟩ := hc
    rw [names_cons]
    rcases List.mem_cons.mp hp with h | h
    · subst h; simp
    · exact List.mem_cons_of_mem _ (ih c' hc' p h)

/-- `itertools.product` over substituted pools = the substituted combinations. -/
theorem assignments_subst1Binders (v : Variant) (x : Sym) (a : Expr) :
    ∀ ixs : List Binder,
      assignments (subst1Binders v x a ixs) = (assignments ixs).map (mapVals v x a)
  | [] => by simp [subst1Binders, assignments, mapVals]
  | (i, pool) :: rest => by
      simp only [subst1Binders, assignments]
      rw [assignments_subst1Binders v x a rest, subst1List_eq_map, List.flatMap_map, List.map_flatMap]
      congr 1
      funext w
      simp [List.map_map, Function.comp_def, mapVals]

/-! ### `xreplace` with the empty map -/

mutual
theorem xreplace_nil (v : Variant) (hv : v.sound) : ∀ e : Expr, xreplace v e [] = e
  | .sym s => by simp [xreplace, lookup]
  | .rat q => by simp [xreplace]
  | .add es => by simp [xreplace, xreplaceList_nil v hv es]
  | .mul es => by simp [xreplace, xreplaceList_nil v hv es]
  | .pow b n => by simp [xreplace, xreplace_nil v hv b]
  | .app f es => by simp [xreplace, xreplaceList_nil v hv es]
  | .node c es t => by
      have hr : v.getArgsRecursive = false := hv.1
      simp [xreplace, hr, xreplaceList_nil v hv es]
  | .psum b ixs => by
      have hp : v.poolSumProtectsBound = true := hv.2
      simp [xreplace, hp, xreplace_nil v hv b, xreplaceBinders_nil v hv ixs]
  | .idx f es => by simp [xreplace, xreplaceList_nil v hv es]
theorem xreplaceList_nil (v : Variant) (hv : v.sound) : ∀ es : List Expr, xreplaceList v es [] = es
  | [] => by simp [xreplaceList]
  | e :: es => by simp [xreplaceList, xreplace_nil v hv e, xreplaceList_nil v hv es]
theorem xreplaceBinders_nil (v : Variant) (hv : v.sound) :
    ∀ ixs : List (Sym × List Expr), xreplaceBinders v ixs [] = ixs
  | [] => by simp [xreplaceBinders]
  | (i, pool) :: rest => by
      simp [xreplaceBinders, xreplaceList_nil v hv pool, xreplaceBinders_nil v hv rest]
end

/-! ### `doit` -/

mutual
theorem eval_doitPass (I : Interp) (v : Variant) (hv : v.sound) (k : Expr → Expr)
    (hk : ∀ (e : Expr) (ρ : Env), wfSums e = true → eval I (k e) ρ = eval I e ρ)
    (hev : ∀ (b : Expr) (ixs : List Binder) (ρ : Env), wfSums (.psum b ixs) = true →
      eval I (evaluate v (.psum b ixs)) ρ = eval I (.psum b ixs) ρ) :
    ∀ (e : Expr) (ρ : Env), wfSums e = true → eval I (doitPass v k e) ρ = eval I e ρ
  | .sym s, ρ, _ => by simp [doitPass]
  | .rat q, ρ, _ => by simp [doitPass]
  | .add es, ρ, h => by
      simp only [doitPass, eval]; rw [evalList_doitPass I v hv k hk hev es ρ (by simpa [wfSums] using h)]
  | .mul es, ρ, h => by
      simp only [doitPass, eval]; rw [evalList_doitPass I v hv k hk hev es ρ (by simpa [wfSums] using h)]
  | .pow b n, ρ, h => by
      simp only [doitPass, eval]; rw [eval_doitPass I v hv k hk hev b ρ (by simpa [wfSums] using h)]
  | .app f es, ρ, h => by
      simp only [doitPass, eval]; rw [evalList_doitPass I v hv k hk hev es ρ (by simpa [wfSums] using h)]
  | .node c es t, ρ, h => by
      simp only [doitPass, eval]; rw [evalList_doitPass I v hv k hk hev es ρ (by simpa [wfSums] using h)]
  | .psum b ixs, ρ, h => by
      simp only [doitPass]
      rw [hk _ ρ (wfSums_evaluate v hv b ixs h), hev b ixs ρ h]
  | .idx f es, ρ, h => by
      simp only [doitPass, eval]; rw [evalList_doitPass I v hv k hk hev es ρ (by simpa [wfSums] using h)]
theorem evalList_doitPass (I : Interp) (v : Variant) (hv : v.sound) (k : Expr → Expr)
    (hk : ∀ (e : Expr) (ρ : Env), wfSums e = true → eval I (k e) ρ = eval I e ρ)
    (hev : ∀ (b : Expr) (ixs : List Binder) (ρ : Env), wfSums (.psum b ixs) = true →
      eval I (evaluate v (.psum b ixs)) ρ = eval I (.psum b ixs) ρ) :
    ∀ (es : List Expr) (ρ : Env), wfSumsList es = true →
      evalList I (doitPassList v k es) ρ = evalList I es ρ
  | [], ρ, _ => by simp [doitPassList]
  | e :: es, ρ, h => by
      have h' : wfSums e = true ∧ wfSumsList es = true := by simpa [wfSumsList] using h
      simp only [doitPassList, evalList]
      rw [eval_doitPass I v hv k hk hev e ρ h'.1, evalList_doitPass I v hv k hk hev es ρ h'.2]
end

end Ampverif.Lemmas.C18
