/-
Helper lemmas for C11 about the regenerated definitions `Ampverif.Gen.C11.*`:
closed forms of q², and the value of every definition in the three regions of the real s axis.
-/
import Ampverif.Gen.C11
import Ampverif.Lemmas.C11Branch
import Mathlib.Tactic.Ring
import Mathlib.Tactic.FieldSimp
import Mathlib.Tactic.Linarith
import Mathlib.Tactic.Positivity

namespace Ampverif.Lemmas.C11
open Ampverif.Gen.C11

/-- `q² = (s-(m1+m2)²)(s-(m1-m2)²)/(4s)` -/
theorem q2_eq (s m1 m2 : ℝ) :
    BreakupMomentumSquared s m1 m2 = (s - (m1 + m2) ^ 2) * (s - (m1 - m2) ^ 2) / (4 * s) := by
  unfold BreakupMomentumSquared
  rcases eq_or_ne s 0 with rfl | hs
  · simp
  · field_simp
    ring

theorem four_s_q2 {s : ℝ} (hs : s ≠ 0) (m1 m2 : ℝ) :
    4 * s * BreakupMomentumSquared s m1 m2 = (s - (m1 + m2) ^ 2) * (s - (m1 - m2) ^ 2) := by
  rw [q2_eq]; field_simp

/-- above threshold `s > 0` and `q² > 0` (masses non-negative) -/
theorem above_pos {s m1 m2 : ℝ} (h1 : 0 ≤ m1) (h2 : 0 ≤ m2) (h : (m1 + m2) ^ 2 < s) :
    0 < s ∧ 0 < BreakupMomentumSquared s m1 m2 := by
  have hs : 0 < s := lt_of_le_of_lt (sq_nonneg _) h
  refine ⟨hs, ?_⟩
  rw [q2_eq]
  have h3 : 0 < s - (m1 - m2) ^ 2 := by nlinarith [mul_nonneg h1 h2]
  have h4 : 0 < s - (m1 + m2) ^ 2 := by linarith
  positivity

/-- between pseudo-threshold and threshold `s > 0` and `q² < 0` -/
theorem between_neg {s m1 m2 : ℝ} (hlo : (m1 - m2) ^ 2 < s) (hhi : s < (m1 + m2) ^ 2) :
    0 < s ∧ BreakupMomentumSquared s m1 m2 < 0 := by
  have hs : 0 < s := lt_of_le_of_lt (sq_nonneg _) hlo
  refine ⟨hs, ?_⟩
  rw [q2_eq]
  have h3 : 0 < s - (m1 - m2) ^ 2 := by linarith
  have h4 : s - (m1 + m2) ^ 2 < 0 := by linarith
  apply div_neg_of_neg_of_pos _ (by positivity)
  exact mul_neg_of_neg_of_pos h4 h3

theorem ComplexSqrt_of_nonneg {x : ℝ} (hx : 0 ≤ x) : ComplexSqrt x = ((Real.sqrt x : ℝ) : ℂ) := by
  unfold ComplexSqrt
  rw [if_neg (not_lt.mpr hx), csqrt_ofReal_of_nonneg hx]

theorem ComplexSqrt_of_neg {x : ℝ} (hx : x < 0) :
    ComplexSqrt x = Complex.I * ((Real.sqrt (-x) : ℝ) : ℂ) := by
  unfold ComplexSqrt
  rw [if_pos hx, csqrt_ofReal_of_nonneg (by linarith : (0:ℝ) ≤ -1 * x)]
  congr 3
  ring

end Ampverif.Lemmas.C11
