/-
Helper lemmas for C11/C12: principal square root and logarithm of a real number seen in ℂ.
(`x ^ (1/2 : ℂ)` is how the translator prints SymPy's/numpy's principal `sqrt`.)
-/
import Mathlib.Analysis.SpecialFunctions.Pow.Real
import Mathlib.Analysis.SpecialFunctions.Complex.Log
import Mathlib.Analysis.SpecialFunctions.Pow.Complex
import Mathlib.Analysis.Real.Sqrt

namespace Ampverif.Lemmas.C11
open Complex

/-- principal root of a non-negative real -/
theorem csqrt_ofReal_of_nonneg {x : ℝ} (hx : 0 ≤ x) :
    ((x : ℝ) : ℂ) ^ ((1 : ℂ) / 2) = ((Real.sqrt x : ℝ) : ℂ) := by
  rw [Real.sqrt_eq_rpow, Complex.ofReal_cpow hx]
  norm_num

/-- principal root of a negative real: `+i√(-x)` -/
theorem csqrt_ofReal_of_neg {x : ℝ} (hx : x < 0) :
    ((x : ℝ) : ℂ) ^ ((1 : ℂ) / 2) = Complex.I * ((Real.sqrt (-x) : ℝ) : ℂ) := by
  rw [Complex.ofReal_cpow_of_nonpos hx.le]
  have h1 : (-(x : ℂ)) ^ ((1 : ℂ) / 2) = ((Real.sqrt (-x) : ℝ) : ℂ) := by
    rw [← Complex.ofReal_neg]
    exact csqrt_ofReal_of_nonneg (by linarith)
  have h2 : Complex.exp (↑Real.pi * Complex.I * ((1 : ℂ) / 2)) = Complex.I := by
    have : (↑Real.pi * Complex.I * ((1 : ℂ) / 2)) = ↑(Real.pi / 2) * Complex.I := by
      push_cast; ring
    rw [this, Complex.exp_mul_I]
    simp
  rw [h1, h2, mul_comm]

/-- principal logarithm of a positive real -/
theorem clog_ofReal_of_pos {x : ℝ} (hx : 0 < x) :
    Complex.log ((x : ℝ) : ℂ) = ((Real.log x : ℝ) : ℂ) :=
  (Complex.ofReal_log hx.le).symm

/-- principal logarithm of a negative real: `log|x| + iπ` -/
theorem clog_ofReal_of_neg {x : ℝ} (hx : x < 0) :
    Complex.log ((x : ℝ) : ℂ) = ((Real.log (-x) : ℝ) : ℂ) + (Real.pi : ℂ) * Complex.I := by
  apply Complex.ext
  · simp [Complex.log_re, Real.log_neg_eq_log]
  · simp [Complex.log_im, Complex.arg_ofReal_of_neg hx]

end Ampverif.Lemmas.C11
