/-
Helper lemmas for the C01 builder model: sorting / grouping / dict membership, digit names,
name classes, tree coverage.
-/
import Ampverif.Model.C01Builder

namespace Ampverif.Model.C01

/-! ### sorting and grouping keep the elements -/

theorem mem_insertBy {α} (lt : α → α → Bool) (x y : α) (ys : List α) :
    y ∈ insertBy lt x ys ↔ y = x ∨ y ∈ ys := by
  induction ys with
  | nil => simp [insertBy]
  | cons z zs ih =>
    unfold insertBy
    split
    · simp [ih]; constructor <;> (intro h; rcases h with h | h | h <;> simp [h])
    · simp

theorem mem_sortBy {α} (lt : α → α → Bool) (y : α) (xs : List α) :
    y ∈ sortBy lt xs ↔ y ∈ xs := by
  induction xs with
  | nil => simp [sortBy]
  | cons x xs ih => simp [sortBy, mem_insertBy, ih]

theorem sortBy_ne_nil {α} (lt : α → α → Bool) (xs : List α) (h : xs ≠ []) : sortBy lt xs ≠ [] := by
  cases xs with
  | nil => exact absurd rfl h
  | cons x xs =>
    intro hc
    have : x ∈ sortBy lt (x :: xs) := (mem_sortBy lt x (x :: xs)).2 (by simp)
    rw [hc] at this
    cases this

theorem mem_dedup {α} [DecidableEq α] (y : α) (xs : List α) : y ∈ dedup xs ↔ y ∈ xs := by
  induction xs with
  | nil => simp [dedup]
  | cons x xs ih =>
    simp only [dedup]
    split
    · rename_i hx
      constructor
      · intro h; exact List.mem_cons_of_mem _ (ih.1 h)
      · intro h
        rcases List.mem_cons.1 h with h | h
        · subst h; exact hx
        · exact ih.2 h
    · simp [ih]

/-! ### dictionaries -/

theorem dictGet?_dictSet {κ ν} [DecidableEq κ] (k k' : κ) (v a : ν) (d : List (κ × ν))
    (h : dictGet? k (dictSet k' v d) = some a) : a = v ∨ dictGet? k d = some a := by
  induction d with
  | nil =>
    simp only [dictSet, dictGet?] at h
    split at h
    · left; exact (Option.some.inj h).symm
    · cases h
  | cons kv rest ih =>
    obtain ⟨k0, v0⟩ := kv
    simp only [dictSet] at h
    split at h
    · rename_i hk
      simp only [dictGet?] at h ⊢
      split at h
      · left; exact (Option.some.inj h).symm
      · rename_i hne
        right
        have : ¬ k0 = k := by intro hc; exact hne (hk ▸ hc)
        simp [this, h]
    · simp only [dictGet?] at h ⊢
      split at h
      · rename_i hk; right; simp [hk, h]
      · rename_i hk
        simp only [hk, if_false]
        exact ih h

theorem dictHas_dictSet_self {κ ν} [DecidableEq κ] (k : κ) (v : ν) (d : List (κ × ν)) :
    dictHas k (dictSet k v d) = true := by
  induction d with
  | nil => simp [dictSet, dictHas, dictGet?]
  | cons kv rest ih =>
    obtain ⟨k0, v0⟩ := kv
    simp only [dictSet]
    split
    · simp [dictHas, dictGet?]
    · rename_i hne
      simp only [dictHas, dictGet?, hne, if_false] at ih ⊢
      exact ih

theorem dictHas_append {κ ν} [DecidableEq κ] (k : κ) (d e : List (κ × ν)) :
    dictHas k (d ++ e) = (dictHas k d || dictHas k e) := by
  induction d with
  | nil => simp [dictHas, dictGet?]
  | cons kv rest ih =>
    obtain ⟨k0, v0⟩ := kv
    simp only [dictHas, List.cons_append, dictGet?] at ih ⊢
    split
    · simp
    · exact ih

theorem dictGet?_append {κ ν} [DecidableEq κ] (k : κ) (d e : List (κ × ν)) (a : ν)
    (h : dictGet? k (d ++ e) = some a) : dictGet? k d = some a ∨ dictGet? k e = some a := by
  induction d with
  | nil => right; simpa using h
  | cons kv rest ih =>
    obtain ⟨k0, v0⟩ := kv
    simp only [List.cons_append, dictGet?] at h ⊢
    split at h
    · left; simp [*]
    · rename_i hne
      simp only [hne, if_false]
      exact ih h

/-! ### addMissing -/

theorem addMissing_step_has (k k' : AmpKey) (d : List (AmpKey × AmpDef)) (h : dictHas k d = true) :
    dictHas k (if dictHas k' d then d else d ++ [(k', ⟨k', true, []⟩)]) = true := by
  split
  · exact h
  · rw [dictHas_append]; simp [h]

theorem addMissing_preserves (ks : List AmpKey) (k : AmpKey) (d : List (AmpKey × AmpDef))
    (h : dictHas k d = true) : dictHas k (addMissing ks d) = true := by
  induction ks generalizing d with
  | nil => simpa [addMissing] using h
  | cons k' ks ih =>
    simp only [addMissing, List.foldl_cons]
    exact ih _ (addMissing_step_has k k' d h)

theorem addMissing_has (ks : List AmpKey) (k : AmpKey) (d : List (AmpKey × AmpDef)) (hk : k ∈ ks) :
    dictHas k (addMissing ks d) = true := by
  induction ks generalizing d with
  | nil => cases hk
  | cons k' ks ih =>
    simp only [addMissing, List.foldl_cons]
    rcases List.mem_cons.1 hk with h | h
    · subst h
      apply addMissing_preserves
      split
      · assumption
      · rw [dictHas_append]; simp [dictHas, dictGet?]
    · exact ih _ h

/-- values of `addMissing` are old values or zero definitions -/
theorem addMissing_get (ks : List AmpKey) (k : AmpKey) (d : List (AmpKey × AmpDef)) (a : AmpDef)
    (h : dictGet? k (addMissing ks d) = some a) : dictGet? k d = some a ∨ a.free = [] := by
  induction ks generalizing d with
  | nil => left; simpa [addMissing] using h
  | cons k' ks ih =>
    simp only [addMissing, List.foldl_cons] at h
    rcases ih _ h with h1 | h1
    · split at h1
      · left; exact h1
      · rcases dictGet?_append _ _ _ _ h1 with h2 | h2
        · left; exact h2
        · right
          simp only [dictGet?] at h2
          split at h2
          · cases h2; rfl
          · cases h2
    · right; exact h1

/-! ### digit names -/

theorem natDigitsF_head (f n : Nat) : ∃ c rest, natDigitsF f n = c :: rest ∧ isDigit c = true := by
  induction f generalizing n with
  | zero => exact ⟨48, [], rfl, by decide⟩
  | succ f ih =>
    unfold natDigitsF
    split
    · rename_i h
      refine ⟨48 + n, [], rfl, ?_⟩
      simp [isDigit]; omega
    · obtain ⟨c, rest, hc, hd⟩ := ih (n / 10)
      exact ⟨c, rest ++ [48 + n % 10], by simp [hc], hd⟩

theorem intName_head (i : Int) (h : 0 ≤ i) : ∃ c rest, intName i = c :: rest ∧ isDigit c = true := by
  cases i with
  | ofNat n => exact natDigitsF_head (n + 1) n
  | negSucc n => omega

theorem digitsOf_head (ids : List Int) (hne : ids ≠ []) (hpos : ∀ i ∈ ids, 0 ≤ i) :
    ∃ c rest, digitsOf ids = c :: rest ∧ isDigit c = true := by
  cases ids with
  | nil => exact absurd rfl hne
  | cons i is =>
    obtain ⟨c, rest, hc, hd⟩ := intName_head i (hpos i (by simp))
    exact ⟨c, rest ++ digitsOf is, by simp [digitsOf, hc], hd⟩

end Ampverif.Model.C01
