/-
Helper lemmas for C07: lookups by edge id in a decay tree whose edge ids are pairwise distinct
return the subtree and the ancestors one expects (so the id-addressed functions of the model
coincide with structural recursion over the tree).
-/
import Ampverif.Model.Topology

namespace Ampverif.Lemmas.C07
open Ampverif.Model.Topology

/-- edge ids are pairwise distinct (qrules keeps edges as a dict keyed by id) -/
def WF (t : Tree) : Prop := t.ids.Nodup

instance (t : Tree) : Decidable (WF t) := inferInstanceAs (Decidable t.ids.Nodup)

/-- `At top anc s`: `s` is the subtree of `top` reached through the proper ancestors `anc`
(outermost first; `anc = []` iff `s = top`). -/
inductive At : Tree → List Tree → Tree → Prop
  | here (t : Tree) : At t [] t
  | left {i : Int} {a b : Tree} {anc : List Tree} {s : Tree} :
      At a anc s → At (.node i a b) (.node i a b :: anc) s
  | right {i : Int} {a b : Tree} {anc : List Tree} {s : Tree} :
      At b anc s → At (.node i a b) (.node i a b :: anc) s

theorem id_mem_ids (t : Tree) : t.id ∈ t.ids := by
  cases t <;> simp [Tree.id, Tree.ids]

theorem At.ids_subset {t s : Tree} {anc : List Tree} (h : At t anc s) : ∀ x ∈ s.ids, x ∈ t.ids := by
  induction h with
  | here t => intro x hx; exact hx
  | left _ ih => intro x hx; simp [Tree.ids]; exact Or.inr (Or.inl (ih x hx))
  | right _ ih => intro x hx; simp [Tree.ids]; exact Or.inr (Or.inr (ih x hx))

theorem At.id_mem {t s : Tree} {anc : List Tree} (h : At t anc s) : s.id ∈ t.ids :=
  h.ids_subset _ (id_mem_ids s)

theorem At.mem_subtrees {t s : Tree} {anc : List Tree} (h : At t anc s) : s ∈ t.subtrees := by
  induction h with
  | here t => cases t <;> simp [Tree.subtrees]
  | left _ ih => simp [Tree.subtrees]; exact Or.inr (Or.inl ih)
  | right _ ih => simp [Tree.subtrees]; exact Or.inr (Or.inr ih)

theorem exists_at_of_mem_subtrees {t s : Tree} (h : s ∈ t.subtrees) : ∃ anc, At t anc s := by
  induction t with
  | leaf i =>
    simp [Tree.subtrees] at h; subst h; exact ⟨[], .here _⟩
  | node i a b iha ihb =>
    simp [Tree.subtrees] at h
    rcases h with h | h | h
    · subst h; exact ⟨[], .here _⟩
    · obtain ⟨anc, ha⟩ := iha h; exact ⟨_, .left ha⟩
    · obtain ⟨anc, hb⟩ := ihb h; exact ⟨_, .right hb⟩

/-- going one step further down -/
theorem At.snoc_left {t : Tree} {anc : List Tree} {i : Int} {a b : Tree}
    (h : At t anc (.node i a b)) : At t (anc ++ [.node i a b]) a := by
  generalize hs : Tree.node i a b = s at h
  induction h with
  | here t => subst hs; exact .left (.here a)
  | left _ ih => exact .left (ih hs)
  | right _ ih => exact .right (ih hs)

theorem At.snoc_right {t : Tree} {anc : List Tree} {i : Int} {a b : Tree}
    (h : At t anc (.node i a b)) : At t (anc ++ [.node i a b]) b := by
  generalize hs : Tree.node i a b = s at h
  induction h with
  | here t => subst hs; exact .right (.here b)
  | left _ ih => exact .left (ih hs)
  | right _ ih => exact .right (ih hs)

theorem WF.node_inv {i : Int} {a b : Tree} (h : WF (.node i a b)) :
    i ∉ a.ids ∧ i ∉ b.ids ∧ WF a ∧ WF b ∧ (∀ x ∈ a.ids, x ∉ b.ids) := by
  unfold WF at *
  simp only [Tree.ids, List.nodup_cons, List.mem_append, not_or, List.nodup_append] at h
  obtain ⟨⟨h1, h2⟩, h3, h4, h5⟩ := h
  refine ⟨h1, h2, h3, h4, ?_⟩
  intro x hx hxb
  exact h5 x hx x hxb rfl

theorem At.wf {t s : Tree} {anc : List Tree} (h : At t anc s) (hw : WF t) : WF s := by
  induction h with
  | here t => exact hw
  | left _ ih => exact ih hw.node_inv.2.2.1
  | right _ ih => exact ih hw.node_inv.2.2.2.1

theorem pathTo_none {t : Tree} {e : Int} (h : e ∉ t.ids) : pathTo t e = none := by
  induction t with
  | leaf i =>
    simp [Tree.ids] at h
    simp [pathTo]; intro hh; exact h hh.symm
  | node i a b iha ihb =>
    simp [Tree.ids] at h
    obtain ⟨h1, h2, h3⟩ := h
    have h1' : ¬ i = e := fun hh => h1 hh.symm
    simp [pathTo, h1', iha h2, ihb h3]

/-- the path to the root edge of a subtree is the list of its ancestors followed by itself -/
theorem pathTo_at {t s : Tree} {anc : List Tree} (hw : WF t) (h : At t anc s) :
    pathTo t s.id = some (anc ++ [s]) := by
  induction h with
  | here t => cases t <;> simp [pathTo, Tree.id]
  | @left i a b anc s h ih =>
    obtain ⟨h1, _, hwa, _, _⟩ := hw.node_inv
    have hne : ¬ i = s.id := fun hh => h1 (hh ▸ h.id_mem)
    simp [pathTo, hne, ih hwa]
  | @right i a b anc s h ih =>
    obtain ⟨_, h2, _, hwb, hdis⟩ := hw.node_inv
    have hne : ¬ i = s.id := fun hh => h2 (hh ▸ h.id_mem)
    have hna : pathTo a s.id = none := pathTo_none (fun hh => hdis _ hh h.id_mem)
    simp [pathTo, hne, hna, ih hwb]

theorem find_at {t s : Tree} {anc : List Tree} (hw : WF t) (h : At t anc s) :
    find? t s.id = some s := by
  simp [find?, pathTo_at hw h]

theorem attachedE_at {t s : Tree} {anc : List Tree} (hw : WF t) (h : At t anc s) :
    attachedE t s.id = s.attached := by
  simp [attachedE, find_at hw h]

theorem determineAttached_at {t s : Tree} {anc : List Tree} (hw : WF t) (h : At t anc s) :
    determineAttached t s.id = .ok s.attached := by
  simp [determineAttached, find_at hw h]

theorem parentNode_at_snoc {t s p : Tree} {anc : List Tree} (hw : WF t) (h : At t (anc ++ [p]) s) :
    parentNode? t s.id = some p := by
  simp [parentNode?, pathTo_at hw h]

theorem ids_ne_of_wf {i : Int} {a b : Tree} (hw : WF (.node i a b)) : a.id ≠ b.id := by
  obtain ⟨_, _, _, _, hdis⟩ := hw.node_inv
  intro hh
  exact hdis _ (id_mem_ids a) (hh ▸ id_mem_ids b)

theorem sibling_left {t : Tree} {anc : List Tree} {i : Int} {a b : Tree} (hw : WF t)
    (h : At t anc (.node i a b)) : siblingE t a.id = b.id := by
  have hp := pathTo_at hw h.snoc_left
  have hpar := parentNode_at_snoc hw h.snoc_left
  simp [siblingE, getSiblingId, hp, hpar]

theorem sibling_right {t : Tree} {anc : List Tree} {i : Int} {a b : Tree} (hw : WF t)
    (h : At t anc (.node i a b)) : siblingE t b.id = a.id := by
  have hp := pathTo_at hw h.snoc_right
  have hpar := parentNode_at_snoc hw h.snoc_right
  have hne : a.id ≠ b.id := ids_ne_of_wf (h.wf hw)
  simp [siblingE, getSiblingId, hp, hpar, hne]

theorem isOpposite_left {t : Tree} {anc : List Tree} {i : Int} {a b : Tree} (hw : WF t)
    (h : At t anc (.node i a b)) : isOppositeE t a.id = lexGt a.attached b.attached := by
  simp [isOppositeE, sibling_left hw h, attachedE_at hw h.snoc_left, attachedE_at hw h.snoc_right]

theorem isOpposite_right {t : Tree} {anc : List Tree} {i : Int} {a b : Tree} (hw : WF t)
    (h : At t anc (.node i a b)) : isOppositeE t b.id = lexGt b.attached a.attached := by
  simp [isOppositeE, sibling_right hw h, attachedE_at hw h.snoc_left, attachedE_at hw h.snoc_right]

end Ampverif.Lemmas.C07
