/-
A small concrete world for the C06 witness theorems and non-vacuity examples, shaped after
J/psi → K0 Σ+ p~ (reaction 0: relabelled ids 0;1,2,3 → model ids 1;2,3,4, DPD usable) and its
un-relabelled twin (reaction 1: ids -1;0,1,2 → model ids 0;1,2,3, axis-angle usable).
-/
import Ampverif.Lemmas.C06Heap

namespace Ampverif.C06.Witness
open Ampverif.C06

def m (ids : List Nat) : Sym := massSym ids
def ang (n : Nat) : Sym := ⟨2, [n]⟩
def o (n : Nat) : Expr := [.other [n]]

/-- topology maps (helicity angles + invariant masses), two topologies per reaction -/
def topoMap0 : Nat → Nat → SymDict
  | 0, 1 => [(m [2, 3], o 3), (m [2], o 0), (m [3], o 1), (m [4], o 2), (m [2, 3, 4], o 4), (ang 0, o 5), (ang 1, o 6)]
  | 0, 2 => [(m [2, 4], o 7), (m [2], o 0), (m [3], o 1), (m [4], o 2), (m [2, 3, 4], o 4), (ang 2, o 8), (ang 3, o 9)]
  | 1, 1 => [(m [1, 2], o 3), (m [1], o 0), (m [2], o 1), (m [3], o 2), (m [1, 2, 3], o 4), (ang 0, o 5), (ang 1, o 6)]
  | 1, 2 => [(m [1, 3], o 7), (m [1], o 0), (m [2], o 1), (m [3], o 2), (m [1, 2, 3], o 4), (ang 2, o 8), (ang 3, o 9)]
  | _, _ => []

/-- ζ-angle definitions of DPD(1) for reaction 0: they mention m_0 (model id 1), final masses and
pair masses -/
def zeta0 : SymDict :=
  [ (⟨1, [0]⟩, [.sym (m [1]), .sym (m [2]), .sym (m [2, 3]), .other [10]]),
    (⟨1, [1]⟩, [.sym (m [1]), .sym (m [3]), .sym (m [4]), .sym (m [2, 4]), .other [11]]) ]

/-- real names: `m_<digits of the ampform ids>` for masses (so `m_1` and `m_01` tie under the
natural sort), anything else gets a name outside that shape -/
def symName0 (s : Sym) : List Nat :=
  if s.kind = 0 then 109 :: 95 :: s.ids.map (· + 47) else 0 :: s.kind :: s.ids

def w0 : World where
  pureVal cid key := match cid with
    | .dpdAligned => ⟨100 :: key, if key = [0, 1] then zeta0 else []⟩
    | _ => ⟨7 :: key, []⟩
  roCalls r _ := [(.boostChainSuffix, [r]), (.qrulesVersion, [])]
  topEntries r cfg obs :=
    [ .amp [r, 1] ([r, cfg.naming] ++ obs.flatten), .amp [r, 0] [r], .comp [r] [r, cfg.naming],
      (if cfg.helCouplings then .param ⟨3, [r]⟩ [1] else .param ⟨4, [r]⟩ [1]) ]
      ++ cfg.dynamics.map fun p => .param ⟨5, [p.1, p.2]⟩ [p.2]
  intensity r _ amp _ := r :: amp
  alignAmp r c := [200 + c, r]
  axisSyms _ := [(⟨1, [9]⟩, [.other [12]])]
  alignError r a := match a with
    | .none => none
    | .axisAngle => if r = 1 then none else some 1
    | .dpd _ => if r = 0 then none else some 1
  topoMap := topoMap0
  ownTopos _ := [1, 2]
  combTopos _ := [1, 2]
  initialIds r := if r = 0 then [1] else [0]
  finalIds r := if r = 0 then [2, 3, 4] else [1, 2, 3]
  finalMass r i := [300, r, i]
  initialMass r := [301, r]
  symName := symName0
  ampKey k := k.take 1
  compKey k := k
  -- two amplitudes with transitions ([r,1], [r,0]) and two without ([r,3], [r,2]); all four tie
  -- under `ampKey` (as `A[0,-1/2,+1/2]` / `A[0,+1/2,-1/2]` do under the natural sort)
  intensityAtoms r _ _ _ := [[r, 0], [r, 1], [r, 2], [r, 3]]
  ampStr k := k

/-! ### the unsound variants (one switch each) -/

def aliasedVariant : Variant := ⟨true, true, false, true, true⟩
def noResetVariant : Variant := ⟨false, false, false, true, true⟩
def sharedVariant : Variant := ⟨false, true, true, true, true⟩
def tiesVariant : Variant := ⟨false, true, false, false, true⟩
def missingUnsortedVariant : Variant := ⟨false, true, false, true, false⟩

/-! ### histories -/

/-- stable ids; default; stable ids again — one builder, DPD(1) -/
def aliasHistory : List Op :=
  [ .newBuilder 0 [], .configure 0 (.align (.dpd 1)), .configure 0 (.stable (some [2, 3, 4])),
    .formulate 0 [] [], .configure 0 (.stable none), .formulate 0 [] [],
    .configure 0 (.stable (some [4, 3, 2])), .formulate 0 [] [] ]

/-- couplings on, formulate, couplings off, formulate; a fresh builder formulates the default -/
def noResetHistory : List Op :=
  [ .newBuilder 0 [], .configure 0 (.helCouplings true), .formulate 0 [] [],
    .configure 0 (.helCouplings false), .formulate 0 [] [], .newBuilder 0 [], .formulate 1 [] [] ]

/-- configuring builder 0 between two formulate calls of builder 1 -/
def sharedHistory : List Op :=
  [ .newBuilder 0 [], .newBuilder 0 [], .formulate 1 [] [], .configure 0 (.helCouplings true),
    .configure 0 (.scalarInitial true), .formulate 1 [] [] ]

/-- two builders of the un-relabelled reaction whose topology sets iterate in opposite orders
(two hash seeds / two registration orders) -/
def tiesHistory : List Op :=
  [ .newBuilder 1 [1, 2], .newBuilder 1 [2, 1], .formulate 0 [1, 2] [], .formulate 1 [2, 1] [] ]

/-- two builders (two processes / hash seeds) whose `atoms(sp.Indexed)` sets iterate differently -/
def missingHistory : List Op :=
  [ .newBuilder 0 [], .newBuilder 0 [], .formulate 0 [] [[0, 0], [0, 1], [0, 2], [0, 3]],
    .formulate 1 [] [[0, 3], [0, 1], [0, 2], [0, 0]] ]

/-- two builders sharing reaction 0, operations interleaved, an eviction, a registration, an error -/
def interleavedHistory : List Op :=
  [ .newBuilder 0 [2, 1], .newBuilder 0 [], .configure 0 (.align (.dpd 1)), .configure 1 (.align (.dpd 1)),
    .configure 0 (.stable (some [2, 3, 4])), .formulate 0 [] [], .formulate 1 [2, 1] [],
    .configure 1 (.scalarInitial true), .formulate 1 [] [], .evict 0, .formulate 0 [] [],
    .register 1 1 [2, 1], .configure 0 (.align .axisAngle), .formulate 0 [] [], .configure 1 (.stable (some [3, 2, 4])),
    .configure 1 (.scalarInitial false), .formulate 1 [] [] ]

/-! ### `OutputsPure` is decidable -/

def outputsPureB (v : Variant) (w : World) : State → List Op → Bool
  | _, [] => true
  | s, op :: rest =>
    (match op with
      | .formulate i _ _ =>
        match s.builders[i]? with
        | some b => decide ((step v w s op).2 = some (F w b.reaction b.user))
        | none => true
      | _ => true) && outputsPureB v w (step v w s op).1 rest

theorem outputsPureB_iff (v : Variant) (w : World) :
    ∀ (ops : List Op) (s : State), outputsPureB v w s ops = true ↔ OutputsPure v w s ops := by
  intro ops
  induction ops with
  | nil => intro s; simp [outputsPureB, OutputsPure]
  | cons op rest ih =>
    intro s
    simp only [outputsPureB, OutputsPure, Bool.and_eq_true, ih]
    refine and_congr_left' ?_
    cases op with
    | formulate i order atoms =>
      simp only []
      cases hb : s.builders[i]? with
      | none => simp
      | some b => simp
    | newBuilder _ _ => simp
    | configure _ _ => simp
    | configureBad _ _ => simp
    | register _ _ _ => simp
    | evict _ => simp

/-! ### the world satisfies the premises of `C06_pure` -/

def agreeB (m₁ m₂ : SymDict) : Bool :=
  m₁.all fun p => m₂.all fun q => !decide (p.1 = q.1) || decide (p.2 = q.2)

theorem agree_of_agreeB {m₁ m₂ : SymDict} (h : agreeB m₁ m₂ = true) :
    ∀ k v₁ v₂, (k, v₁) ∈ m₁ → (k, v₂) ∈ m₂ → v₁ = v₂ := by
  intro k v₁ v₂ h₁ h₂
  unfold agreeB at h
  have := List.all_eq_true.mp h _ h₁
  have := List.all_eq_true.mp this _ h₂
  simpa using this

theorem topoMap0_consistent (r t₁ t₂ : Nat) : agreeB (topoMap0 r t₁) (topoMap0 r t₂) = true := by
  match r, t₁, t₂ with
  | 0, 1, 1 => decide
  | 0, 1, 2 => decide
  | 0, 2, 1 => decide
  | 0, 2, 2 => decide
  | 1, 1, 1 => decide
  | 1, 1, 2 => decide
  | 1, 2, 1 => decide
  | 1, 2, 2 => decide
  | 0, 0, _ => simp [topoMap0, agreeB]
  | 0, (_ + 3), _ => simp [topoMap0, agreeB]
  | 1, 0, _ => simp [topoMap0, agreeB]
  | 1, (_ + 3), _ => simp [topoMap0, agreeB]
  | (_ + 2), _, _ => simp [topoMap0, agreeB]
  | 0, 1, 0 => simp [topoMap0, agreeB]
  | 0, 2, 0 => simp [topoMap0, agreeB]
  | 1, 1, 0 => simp [topoMap0, agreeB]
  | 1, 2, 0 => simp [topoMap0, agreeB]
  | 0, 1, (_ + 3) => simp [topoMap0, agreeB]
  | 0, 2, (_ + 3) => simp [topoMap0, agreeB]
  | 1, 1, (_ + 3) => simp [topoMap0, agreeB]
  | 1, 2, (_ + 3) => simp [topoMap0, agreeB]

theorem map_add_inj : ∀ a b : List Nat, a.map (· + 47) = b.map (· + 47) → a = b := by
  intro a
  induction a with
  | nil => intro b h; cases b with
    | nil => rfl
    | cons _ _ => simp at h
  | cons x t ih =>
    intro b h
    cases b with
    | nil => simp at h
    | cons y u =>
      simp only [List.map_cons, List.cons.injEq] at h
      have hx : x = y := Nat.add_right_cancel h.1
      rw [hx, ih u h.2]

theorem symName0_injective : ∀ s t : Sym, symName0 s = symName0 t → s = t := by
  intro ⟨ks, is⟩ ⟨kt, it⟩ h
  unfold symName0 at h
  simp only at h
  by_cases hs : ks = 0 <;> by_cases ht : kt = 0
  · subst hs; subst ht
    simp only [if_true, List.cons.injEq, true_and] at h
    rw [map_add_inj is it h]
  · simp [hs, ht] at h
  · simp [hs, ht] at h
  · simp only [hs, ht, if_false, List.cons.injEq, true_and] at h
    obtain ⟨h1, h2⟩ := h
    rw [h1, h2]

theorem w0_ok : WorldOK w0 where
  consistent r t₁ t₂ := agree_of_agreeB (topoMap0_consistent r t₁ t₂)
  names := symName0_injective
  ampStrs _ _ h := h

end Ampverif.C06.Witness
