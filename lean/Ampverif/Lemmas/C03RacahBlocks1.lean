/-
C03 — Racah's closed formula equals the REGENERATED SymPy Clebsch–Gordan table on every admissible
key of the blocks `(2j₁, 2j₂) = (1, ·)` (kernel evaluation, exact rational arithmetic; generated
file layout: one module per `2j₁` so that the blocks build in parallel).
-/
import Ampverif.Lemmas.C03Racah
import Ampverif.Gen.C03CG

namespace Ampverif.Lemmas.C03RacahBlocks
open Ampverif.Model.C03CG Ampverif.Lemmas.C03CG Ampverif.Gen.C03CG

theorem racah_1_0 : blockIsRacah table 1 0 = true := by decide +kernel
theorem racah_1_1 : blockIsRacah table 1 1 = true := by decide +kernel
theorem racah_1_2 : blockIsRacah table 1 2 = true := by decide +kernel
theorem racah_1_3 : blockIsRacah table 1 3 = true := by decide +kernel
theorem racah_1_4 : blockIsRacah table 1 4 = true := by decide +kernel
theorem racah_1_5 : blockIsRacah table 1 5 = true := by decide +kernel
theorem racah_1_6 : blockIsRacah table 1 6 = true := by decide +kernel

end Ampverif.Lemmas.C03RacahBlocks
