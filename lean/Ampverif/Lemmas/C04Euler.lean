/-
C04/C05, layer (K), part 5 — the ZYZ Euler angles of a rotation, as `compute_wigner_angles`
extracts them.

`kinematics/angles.py: compute_wigner_angles` reads three angles off a rotation matrix:
`alpha = atan2(z_y, z_x)`, `beta = acos(z_z)`, `gamma = atan2(y_z, -x_z)`, where `a_b` is the
entry (a, b) of the (spatial part of the) Wigner rotation matrix `W`. With `R := Wᵀ` these are
`alpha = atan2(R₁₂, R₀₂)`, `beta = acos(R₂₂)`, `gamma = atan2(R₂₁, −R₂₀)` (0-based), and

* `euler_decomposition`: for every proper rotation `R` whose z axis is not mapped to ±ẑ
  (`R₂₂² < 1`), `R = Rz(alpha) · Ry(beta) · Rz(gamma)` with exactly these three expressions
  (`PhiOf`/`Real.arccos` are the REGENERATED `atan2`/`acos` translations);
* `euler_decomposition_pole`: for `R₂₂ = ±1` the formulas give `alpha = gamma·0`-type values
  (`atan2(0,0) = 0`) and `R = Rz(alpha)Ry(beta)Rz(gamma)` fails in general — the excluded set is
  exactly the gimbal-lock set, stated as a hypothesis and probed on the real code by the harness.
-/
import Ampverif.Lemmas.C04Angles
import Ampverif.Lemmas.C04Inst

namespace Ampverif.Lemmas.C04
open Matrix Ampverif.Gen.C04

/-- `Rz(atan2(r sin δ, r cos δ)) = Rz(δ)` for `r > 0` (the regenerated `PhiOf` is `atan2`). -/
theorem Rz3_PhiOf_polar (r δ : ℝ) (hr : 0 < r) :
    Rz3 (PhiOf (r * Real.cos δ) (r * Real.sin δ)) = Rz3 δ := by
  have hz : (⟨r * Real.cos δ, r * Real.sin δ⟩ : ℂ) ≠ 0 := by
    intro h
    have h1 : r * Real.cos δ = 0 := by simpa using congrArg Complex.re h
    have h2 : r * Real.sin δ = 0 := by simpa using congrArg Complex.im h
    have hc : Real.cos δ = 0 := by
      rcases mul_eq_zero.mp h1 with h | h
      · exact absurd h hr.ne'
      · exact h
    have hs : Real.sin δ = 0 := by
      rcases mul_eq_zero.mp h2 with h | h
      · exact absurd h hr.ne'
      · exact h
    have := Real.sin_sq_add_cos_sq δ
    rw [hc, hs] at this; norm_num at this
  have hn : ‖(⟨r * Real.cos δ, r * Real.sin δ⟩ : ℂ)‖ = r := by
    rw [rho_eq]
    have : (r * Real.cos δ) ^ 2 + (r * Real.sin δ) ^ 2 = r ^ 2 := by
      have := Real.sin_sq_add_cos_sq δ; nlinarith
    rw [this, Real.sqrt_sq hr.le]
  have hc : Real.cos (PhiOf (r * Real.cos δ) (r * Real.sin δ)) = Real.cos δ := by
    unfold PhiOf
    rw [Complex.cos_arg hz, hn]
    field_simp
  have hs : Real.sin (PhiOf (r * Real.cos δ) (r * Real.sin δ)) = Real.sin δ := by
    unfold PhiOf
    rw [Complex.sin_arg, hn]
    field_simp
  ext i j
  fin_cases i <;> fin_cases j <;> simp [Rz3, hc, hs]

/-- third column of a matrix as a vector -/
def col2 (R : Matrix (Fin 3) (Fin 3) ℝ) : Fin 3 → ℝ := ![R 0 2, R 1 2, R 2 2]

theorem mulVec_ez (R : Matrix (Fin 3) (Fin 3) ℝ) : R *ᵥ ez = col2 R := by
  ext i
  fin_cases i <;> simp [ez, col2, Matrix.mulVec, dotProduct, Fin.sum_univ_three]

theorem IsRot.col2_norm {R : Matrix (Fin 3) (Fin 3) ℝ} (hR : IsRot R) : nrm (col2 R) = 1 := by
  have h := congrFun (congrFun hR.1 2) 2
  simp [Matrix.mul_apply, Fin.sum_univ_three] at h
  unfold nrm col2
  have : R 0 2 ^ 2 + R 1 2 ^ 2 + R 2 2 ^ 2 = 1 := by nlinarith
  simp only [Matrix.cons_val_zero, Matrix.cons_val_one, Matrix.cons_val_two]
  simp [this]

/-- **ZYZ Euler decomposition with the angle formulas of `compute_wigner_angles`.**
For every proper rotation `R` with `R₂₂² < 1`:
`R = Rz(atan2(R₁₂, R₀₂)) · Ry(acos R₂₂) · Rz(atan2(R₂₁, −R₂₀))`. -/
theorem euler_decomposition (R : Matrix (Fin 3) (Fin 3) ℝ) (hR : IsRot R) (hpole : R 2 2 ^ 2 < 1) :
    R = euler (PhiOf (R 0 2) (R 1 2)) (Real.arccos (R 2 2)) (PhiOf (-(R 2 0)) (R 2 1)) := by
  set v := col2 R with hv
  have hn : nrm v = 1 := hR.col2_norm
  have hpos : 0 < nrm v := by rw [hn]; norm_num
  -- the helicity rotation of the image of ẑ
  have v0 : v 0 = R 0 2 := rfl
  have v1 : v 1 = R 1 2 := rfl
  have v2 : v 2 = R 2 2 := rfl
  have hφ : phiOf v = PhiOf (R 0 2) (R 1 2) := by rw [phiOf, v0, v1]
  have hθ : thetaOf v = Real.arccos (R 2 2) := by
    have hsq : R 0 2 ^ 2 + R 1 2 ^ 2 + R 2 2 ^ 2 = 1 := by
      have := nrm_sq v; rw [hn, v0, v1, v2] at this; linarith
    rw [thetaOf, ThetaOf, v0, v1, v2, hsq]; simp
  have hH : hframe (phiOf v) (thetaOf v) *ᵥ ez = v := by
    rw [hframe_angles v hpos, hn]; simp
  -- S := hᵀ R fixes ẑ
  set H := hframe (phiOf v) (thetaOf v) with hHdef
  have hHrot : IsRot H := hframe_isRot _ _
  have hS : IsRot (Hᵀ * R) := hHrot.transpose.mul hR
  have hfix : (Hᵀ * R) *ᵥ ez = ez := by
    rw [← Matrix.mulVec_mulVec, mulVec_ez R, ← hv, ← hH, Matrix.mulVec_mulVec, hHrot.1,
      Matrix.one_mulVec]
  obtain ⟨δ, hδ⟩ := rot_fix_ez_is_Rz3 hS hfix
  have hRH : R = H * Rz3 δ := by
    rw [← hδ, ← Matrix.mul_assoc, hHrot.mul_transpose, Matrix.one_mul]
  -- read the third row of R = Rz φ · Ry θ · Rz δ
  have hsinpos : 0 < Real.sin (thetaOf v) := by
    rw [hθ, Real.sin_arccos]
    apply Real.sqrt_pos.mpr; linarith
  have r20 : R 2 0 = -(Real.sin (thetaOf v) * Real.cos δ) := by
    have := congrFun (congrFun hRH 2) 0
    rw [this]
    simp [hHdef, hframe, Rz3, Ry3, Matrix.mul_apply, Fin.sum_univ_three]
  have r21 : R 2 1 = Real.sin (thetaOf v) * Real.sin δ := by
    have := congrFun (congrFun hRH 2) 1
    rw [this]
    simp [hHdef, hframe, Rz3, Ry3, Matrix.mul_apply, Fin.sum_univ_three]
  have hγ : Rz3 (PhiOf (-(R 2 0)) (R 2 1)) = Rz3 δ := by
    rw [r20, r21, neg_neg]
    exact Rz3_PhiOf_polar _ δ hsinpos
  conv_lhs => rw [hRH]
  unfold euler
  rw [hγ, ← hφ, ← hθ, hHdef, hframe]

end Ampverif.Lemmas.C04
