/-
C10 helper lemmas: non-vanishing of `1 − ia`, `i + k`, `a + ib` for real data, the 2×2 determinant
of `1 − iK` for real symmetric `K`, non-vanishing of principal square roots. No generated
definitions are used here.
-/
import Ampverif.Lemmas.C09Cayley
import Ampverif.Lemmas.C09Real
import Ampverif.Lemmas.C09Entries
import Mathlib.LinearAlgebra.Matrix.SchurComplement

namespace Ampverif.Lemmas.C10
open Ampverif.Lemmas.C09 Matrix

theorem csqrt_ne_zero {z : ℂ} (h : z ≠ 0) : z ^ ((1 : ℂ) / 2) ≠ 0 := by
  intro e; apply h; rw [← csqrt_sq z, e]; ring

theorem one_sub_I_mul_isRe_ne {a : ℂ} (ha : IsRe a) : 1 - Complex.I * a ≠ 0 := by
  obtain ⟨r, rfl⟩ := ha
  intro e
  have := congrArg Complex.re e
  simp at this

theorem ofReal_add_I_mul_ne {a : ℝ} (b : ℝ) (h : a ≠ 0) :
    ((a : ℂ) + Complex.I * (b : ℂ)) ≠ 0 := by
  intro e
  have := congrArg Complex.re e
  simp at this
  exact h this

theorem I_add_isRe_ne {k : ℂ} (hk : IsRe k) : Complex.I + k ≠ 0 := by
  obtain ⟨r, rfl⟩ := hk
  intro e
  have := congrArg Complex.im e
  simp at this

/-- `det(1 − iK) ≠ 0` for a real symmetric 2×2 matrix, in coordinates. -/
theorem det2_ne_of_real {a b c d : ℂ} (ha : IsRe a) (hb : IsRe b) (hd : IsRe d) (hbc : b = c) :
    1 - Complex.I * a - Complex.I * d - a * d + b * c ≠ 0 := by
  obtain ⟨hH, _⟩ := herm2 ha hb hd hbc
  have h := isUnit_iff_ne_zero.1 (isUnit_det_D hH)
  rw [det_D2] at h
  simpa using h

variable {n : Type*} [Fintype n] [DecidableEq n]

/-- `1 − iK̂ρ` is invertible for positive diagonal `ρ` and Hermitian `K̂` (same determinant as
`1 − iρK̂`). -/
theorem isUnit_det_rel' (r : n → ℝ) (hr : ∀ i, 0 < r i) {Kh : Matrix n n ℂ} (hK : Kh.IsHermitian) :
    IsUnit (1 - Complex.I • (Kh * Matrix.diagonal fun i => ((r i : ℝ) : ℂ))).det := by
  have h := isUnit_det_rel r hr hK
  have e : (1 - Complex.I • (Kh * Matrix.diagonal fun i => ((r i : ℝ) : ℂ))).det
      = (1 - Complex.I • ((Matrix.diagonal fun i => ((r i : ℝ) : ℂ)) * Kh)).det := by
    rw [← Matrix.smul_mul, ← Matrix.mul_smul]
    exact Matrix.det_one_sub_mul_comm _ _
  rw [e]; exact h

end Ampverif.Lemmas.C10
