/-
Helper lemmas for C06: the heap invariant "every cache entry is the pure value of its key", the
builder invariant, and their preservation by every operation of the state machine (sound variant).
-/
import Ampverif.Lemmas.C06Machine

set_option linter.unusedSectionVars false

namespace Ampverif.C06

/-! ## heap -/

/-- every cache entry refers to an object that is (still) the pure value of its key -/
def HeapInv (w : World) (h : Heap) : Prop :=
  ∀ ck a, (ck, a) ∈ h.cache → h.objs[a]? = some (w.pureVal ck.1 ck.2)

theorem HeapInv.init (w : World) : HeapInv w {} := by
  intro ck a h; simp at h

theorem HeapInv.addr_lt {w : World} {h : Heap} (hi : HeapInv w h) {ck : CacheId × List Nat} {a : Nat}
    (hm : (ck, a) ∈ h.cache) : a < h.objs.length := by
  have := hi ck a hm
  by_cases hlt : a < h.objs.length
  · exact hlt
  · rw [List.getElem?_eq_none (Nat.le_of_not_lt hlt)] at this
    simp at this

theorem HeapInv.alloc {w : World} {h : Heap} (hi : HeapInv w h) (o : Obj) : HeapInv w (h.alloc o).1 := by
  intro ck a hm
  simp only [Heap.alloc] at hm ⊢
  rw [List.getElem?_append_left (hi.addr_lt hm)]
  exact hi ck a hm

theorem Heap.alloc_obj (h : Heap) (o : Obj) : (h.alloc o).1.obj (h.alloc o).2 = o := by
  simp [Heap.alloc, Heap.obj]

theorem HeapInv.alloc_fresh {w : World} {h : Heap} (hi : HeapInv w h) (o : Obj) :
    ∀ ck a, (ck, a) ∈ (h.alloc o).1.cache → a ≠ (h.alloc o).2 := by
  intro ck a hm
  simp only [Heap.alloc] at hm ⊢
  exact Nat.ne_of_lt (hi.addr_lt hm)

theorem HeapInv.call {w : World} {h : Heap} (hi : HeapInv w h) (cid : CacheId) (key : List Nat) :
    HeapInv w (h.call w cid key).1 ∧
      (h.call w cid key).1.obj (h.call w cid key).2 = w.pureVal cid key := by
  unfold Heap.call
  cases hg : dget h.cache (cid, key) with
  | some a =>
    simp only []
    refine ⟨hi, ?_⟩
    have := hi (cid, key) a (dget_some_mem hg)
    simp [Heap.obj, this]
  | none =>
    simp only []
    constructor
    · intro ck a hm
      simp only [List.mem_append, List.mem_singleton] at hm
      rcases hm with hm | hm
      · rw [List.getElem?_append_left (hi.addr_lt hm)]
        exact hi ck a hm
      · injection hm with h1 h2
        subst h1; subst h2
        simp
    · simp [Heap.obj]

theorem HeapInv.callAll {w : World} (calls : List (CacheId × List Nat)) :
    ∀ {h : Heap}, HeapInv w h →
      HeapInv w (Heap.callAll w h calls).1 ∧
        (Heap.callAll w h calls).2 = calls.map (fun ck => (w.pureVal ck.1 ck.2).imm) := by
  induction calls with
  | nil => intro h hi; exact ⟨hi, rfl⟩
  | cons ck t ih =>
    intro h hi
    simp only [Heap.callAll, List.map_cons]
    have hc := hi.call ck.1 ck.2
    have := ih hc.1
    exact ⟨this.1, by rw [this.2, hc.2]⟩

/-- an in-place update of an object no cache entry refers to keeps the invariant -/
theorem HeapInv.set_fresh {w : World} {h : Heap} (hi : HeapInv w h) (addr : Nat)
    (hf : ∀ ck a, (ck, a) ∈ h.cache → a ≠ addr) (o : Obj) :
    HeapInv w { h with objs := h.objs.set addr o } := by
  intro ck a hm
  simp only at hm ⊢
  rw [List.getElem?_set_ne (fun e => hf ck a hm e.symm)]
  exact hi ck a hm

theorem HeapInv.evict {w : World} {h : Heap} (hi : HeapInv w h) (n : Nat) :
    HeapInv w { h with cache := h.cache.eraseIdx n } := by
  intro ck a hm
  exact hi ck a (List.mem_of_mem_eraseIdx hm)

/-- `formulate_amplitude` / `define_symbols` in the sound variant: the amplitude and the symbol dict
are the pure ones, and the dict lives at an address that no cache entry refers to -/
theorem alignPhase_spec {v : Variant} (hv : v.dpdSymbolsAliased = false) {w : World} {h : Heap}
    (hi : HeapInv w h) (r : Nat) (a : Align) :
    (alignPhase v w h r a).2.1 = pureAmp w r a ∧
    ((alignPhase v w h r a).1.obj (alignPhase v w h r a).2.2).dict = pureSyms w r a ∧
    HeapInv w (alignPhase v w h r a).1 ∧
    (∀ ck x, (ck, x) ∈ (alignPhase v w h r a).1.cache → x ≠ (alignPhase v w h r a).2.2) := by
  cases a with
  | none =>
    simp only [alignPhase, pureAmp, pureSyms]
    exact ⟨trivial, by rw [Heap.alloc_obj], hi.alloc _, hi.alloc_fresh _⟩
  | axisAngle =>
    simp only [alignPhase, pureAmp, pureSyms]
    exact ⟨trivial, by rw [Heap.alloc_obj], hi.alloc _, hi.alloc_fresh _⟩
  | dpd k =>
    have hc := hi.call (w := w) .dpdAligned [r, k]
    simp only [alignPhase, hv, pureAmp, pureSyms, Bool.false_eq_true, if_false]
    refine ⟨by rw [hc.2], ?_, hc.1.alloc _, hc.1.alloc_fresh _⟩
    rw [Heap.alloc_obj, hc.2]

/-! ## builders -/

def BInv (b : Builder) : Prop := b.cfg = b.user ∧ b.iterOrder.Perm b.user.topos

theorem orderOf_perm (p set : List Nat) : (orderOf p set).Perm set := by
  unfold orderOf
  split
  · rename_i h; rw [← h]; exact (isort_perm natLe p).symm
  · exact List.Perm.refl _

theorem Cfg.apply_topos (c : Cfg) (f : Field) : (c.apply f).topos = c.topos := by
  cases f <;> rfl

structure SInv (w : World) (s : State) : Prop where
  heap : HeapInv w s.heap
  builders : ∀ b ∈ s.builders, BInv b

theorem SInv.init (w : World) : SInv w State.init :=
  ⟨HeapInv.init w, by intro b hb; simp [State.init] at hb⟩

theorem binv_set {l : List Builder} (h : ∀ b ∈ l, BInv b) (i : Nat) (x : Builder) (hx : BInv x) :
    ∀ b ∈ l.set i x, BInv b := by
  intro b hb
  rcases List.mem_or_eq_of_mem_set hb with h1 | h1
  · exact h b h1
  · rw [h1]; exact hx

/-- the world premises: C07's no-collision premise and distinct symbols have distinct names -/
structure WorldOK (w : World) : Prop where
  consistent : ∀ r t₁ t₂ k v₁ v₂, (k, v₁) ∈ w.topoMap r t₁ → (k, v₂) ∈ w.topoMap r t₂ → v₁ = v₂
  names : SymNameInjective w
  /-- distinct amplitude symbols print differently -/
  ampStrs : ∀ a b : List Nat, w.ampStr a = w.ampStr b → a = b

theorem strLe_total (w : World) (a b : List Nat) : strLe w a b = true ∨ strLe w b a = true :=
  natLex_total _ _

theorem strLe_trans (w : World) (a b c : List Nat) :
    strLe w a b = true → strLe w b c = true → strLe w a c = true := natLex_trans _ _ _

theorem strLe_anti {w : World} (hw : WorldOK w) (a b : List Nat) :
    strLe w a b = true → strLe w b a = true → a = b :=
  fun h1 h2 => hw.ampStrs a b (natLex_anti _ _ h1 h2)

theorem atomsOrderOf_perm (w : World) (p atoms : List (List Nat)) : (atomsOrderOf w p atoms).Perm atoms := by
  unfold atomsOrderOf
  split
  · rename_i h
    exact (isort_perm (strLe w) p).symm.trans (h ▸ isort_perm (strLe w) atoms)
  · exact List.Perm.refl _

/-- with the inner `sorted(..., key=str)` the visiting order of `__define_missing_amplitudes` does
not depend on the iteration order of the atoms set -/
theorem missingOrder_sorted {w : World} (hw : WorldOK w) (p atoms : List (List Nat)) :
    missingOrder true w (atomsOrderOf w p atoms) = isort (strLe w) atoms := by
  simp only [missingOrder, if_true]
  exact isort_eq_of_perm (strLe_total w) (strLe_trans w)
    (fun a b _ _ => strLe_anti hw a b) (atomsOrderOf_perm w p atoms)

theorem kinMerge_KEq {w : World} (hw : WorldOK w) (r : Nat) {o o' : List Nat} (hp : o.Perm o') :
    KEq (kinMerge w r o) (kinMerge w r o') := by
  unfold kinMerge
  refine ⟨dmerge_dequiv_of_perm ?_ (hp.map _), NodupKeys.dmerge _, NodupKeys.dmerge _⟩
  intro m₁ h₁ m₂ h₂ k v₁ v₂ hk₁ hk₂
  obtain ⟨t₁, _, e₁⟩ := List.mem_map.mp h₁
  obtain ⟨t₂, _, e₂⟩ := List.mem_map.mp h₂
  subst e₁; subst e₂
  exact hw.consistent r t₁ t₂ k v₁ v₂ hk₁ hk₂

/-! ## `formulate` in the sound variant -/

theorem formulate_spec {v : Variant} (hv : v.sound) {w : World} (hw : WorldOK w) {s : State}
    (hs : SInv w s) (i : Nat) (b : Builder) (hb : BInv b) (order : List Nat) (atoms : List (List Nat)) :
    (formulate v w s i b order atoms).2 = F w b.reaction b.user ∧
      SInv w (formulate v w s i b order atoms).1 := by
  obtain ⟨hal, hre, hsh, htb, hms⟩ := hv
  obtain ⟨hcfg, _⟩ := hb
  have hobs := HeapInv.callAll (w := w) (w.roCalls b.reaction (closeCfg w b.reaction b.user)) hs.heap
  unfold formulate F
  simp only [effCfg, hsh, hre, htb, hms, hcfg, if_true, Bool.false_eq_true, if_false]
  have hperm : (orderOf order (closeCfg w b.reaction b.user).topos).Perm
      (closeCfg w b.reaction b.user).topos := orderOf_perm _ _
  cases herr : w.alignError b.reaction (closeCfg w b.reaction b.user).align with
  | some e =>
    simp only []
    refine ⟨trivial, hobs.1, ?_⟩
    exact binv_set hs.builders i _ ⟨rfl, hperm⟩
  | none =>
    simp only []
    have hph := alignPhase_spec hal hobs.1 b.reaction (closeCfg w b.reaction b.user).align
    obtain ⟨h1, h2, h3, h4⟩ := hph
    constructor
    · rw [h1, h2, hobs.2, missingOrder_sorted hw]
      have := core_congr w hw.names b.reaction (closeCfg w b.reaction b.user) {}
        (pureAmp w b.reaction (closeCfg w b.reaction b.user).align)
        (pureObs w b.reaction (closeCfg w b.reaction b.user))
        (isort (strLe w) (w.intensityAtoms b.reaction (closeCfg w b.reaction b.user)
          (pureAmp w b.reaction (closeCfg w b.reaction b.user).align)
          (pureObs w b.reaction (closeCfg w b.reaction b.user))))
        (pureSyms w b.reaction (closeCfg w b.reaction b.user).align)
        (kinMerge_KEq hw b.reaction hperm)
      unfold pureObs at this ⊢
      rw [this]
    · exact ⟨h3.set_fresh _ h4 _, binv_set hs.builders i _ ⟨rfl, hperm⟩⟩

/-! ## every operation keeps the invariants -/

theorem step_inv {v : Variant} (hv : v.sound) {w : World} (hw : WorldOK w) {s : State}
    (hs : SInv w s) (op : Op) : SInv w (step v w s op).1 := by
  have hsh : v.configShared = false := hv.2.2.1
  cases op with
  | newBuilder r order =>
    simp only [step]
    refine ⟨hs.heap, ?_⟩
    intro b hb
    rcases List.mem_append.mp hb with h1 | h1
    · exact hs.builders b h1
    · rw [List.mem_singleton.mp h1]
      exact ⟨rfl, orderOf_perm _ _⟩
  | configure i f =>
    simp only [step]
    cases hb : s.builders[i]? with
    | none => exact hs
    | some b =>
      simp only [hsh, Bool.false_eq_true, if_false]
      have hbi : BInv b := hs.builders b (List.mem_of_getElem? hb)
      refine ⟨hs.heap, binv_set hs.builders i _ ⟨?_, ?_⟩⟩
      · simp only []; rw [hbi.1]
      · simp only []; rw [Cfg.apply_topos]; exact hbi.2
  | configureBad i c => exact hs
  | register i t order =>
    simp only [step]
    cases hb : s.builders[i]? with
    | none => exact hs
    | some b =>
      have hbi : BInv b := hs.builders b (List.mem_of_getElem? hb)
      refine ⟨hs.heap, binv_set hs.builders i _ ⟨?_, orderOf_perm _ _⟩⟩
      simp only []; rw [hbi.1]
  | formulate i order atoms =>
    simp only [step]
    cases hb : s.builders[i]? with
    | none => exact hs
    | some b =>
      have hbi : BInv b := hs.builders b (List.mem_of_getElem? hb)
      exact (formulate_spec hv hw hs i b hbi order atoms).2
  | evict n =>
    simp only [step]
    exact ⟨hs.heap.evict n, hs.builders⟩

theorem step_output {v : Variant} (hv : v.sound) {w : World} (hw : WorldOK w) {s : State}
    (hs : SInv w s) (i : Nat) (order : List Nat) (atoms : List (List Nat)) (b : Builder)
    (hb : s.builders[i]? = some b) :
    (step v w s (.formulate i order atoms)).2 = some (F w b.reaction b.user) := by
  have hbi : BInv b := hs.builders b (List.mem_of_getElem? hb)
  simp only [step, hb]
  rw [(formulate_spec hv hw hs i b hbi order atoms).1]

/-- induction over the history, for any invariant-satisfying start state -/
theorem outputsPure_of_inv {v : Variant} (hv : v.sound) {w : World} (hw : WorldOK w) :
    ∀ (ops : List Op) (s : State), SInv w s → OutputsPure v w s ops := by
  intro ops
  induction ops with
  | nil => intro s _; trivial
  | cons op rest ih =>
    intro s hs
    refine ⟨?_, ih _ (step_inv hv hw hs op)⟩
    cases op with
    | formulate i order atoms => intro b hb; exact step_output hv hw hs i order atoms b hb
    | newBuilder _ _ => trivial
    | configure _ _ => trivial
    | configureBad _ _ => trivial
    | register _ _ _ => trivial
    | evict _ => trivial

end Ampverif.C06
