/-
C04, layer (K), part 2 — helicity frames.

* `unit_of_angles`: a rotation `(cos, sin)` pair is `(cos δ, sin δ)` for some δ;
* `rot_fix_ez_is_Rz3` (KEY LEMMA): a proper rotation that fixes ẑ is `Rz3 δ`;
* `hframe φ θ = Rz3 φ * Ry3 θ` maps ẑ to the direction with polar angles `(θ, φ)`, and for
  `θ = ThetaOf`, `φ = PhiOf` (REGENERATED from `Theta/Phi.evaluate()`) of a non-zero vector `v`
  this direction is `v/|v|`.
-/
import Ampverif.Lemmas.C04Rot
import Mathlib.Analysis.SpecialFunctions.Complex.Arg
import Mathlib.Analysis.SpecialFunctions.Trigonometric.Inverse
import Mathlib.LinearAlgebra.Matrix.Determinant.Basic
import Mathlib.LinearAlgebra.Matrix.NonsingularInverse
import Mathlib.Tactic.NormNum
import Mathlib.Tactic.FieldSimp
import Mathlib.Tactic.Positivity

namespace Ampverif.Lemmas.C04
open Matrix Ampverif.Gen.C04

/-- proper rotations: orthogonal with determinant one -/
def IsRot (R : Matrix (Fin 3) (Fin 3) ℝ) : Prop := Rᵀ * R = 1 ∧ R.det = 1

def ez : Fin 3 → ℝ := ![0, 0, 1]

theorem exists_angle {c s : ℝ} (h : c ^ 2 + s ^ 2 = 1) : ∃ δ : ℝ, Real.cos δ = c ∧ Real.sin δ = s := by
  have hn : ‖(⟨c, s⟩ : ℂ)‖ = 1 := by
    rw [Complex.norm_def, Complex.normSq_mk]
    have : c * c + s * s = 1 := by nlinarith
    rw [this, Real.sqrt_one]
  have hne : (⟨c, s⟩ : ℂ) ≠ 0 := by
    intro h0
    rw [h0, norm_zero] at hn
    exact zero_ne_one hn
  refine ⟨Complex.arg ⟨c, s⟩, ?_, ?_⟩
  · rw [Complex.cos_arg hne, hn]; simp
  · rw [Complex.sin_arg, hn]; simp

theorem Rz3_isRot (a : ℝ) : IsRot (Rz3 a) := by
  constructor
  · rw [Rz3_transpose, Rz3_add]; simp [Rz3_zero]
  · simp [Rz3, Matrix.det_fin_three]
    nlinarith [Real.sin_sq_add_cos_sq a]

theorem Ry3_isRot (a : ℝ) : IsRot (Ry3 a) := by
  constructor
  · rw [Ry3_transpose, Ry3_add]; simp [Ry3_zero]
  · simp [Ry3, Matrix.det_fin_three]
    nlinarith [Real.sin_sq_add_cos_sq a]

theorem IsRot.mul {R S : Matrix (Fin 3) (Fin 3) ℝ} (hR : IsRot R) (hS : IsRot S) : IsRot (R * S) := by
  constructor
  · rw [Matrix.transpose_mul, Matrix.mul_assoc, ← Matrix.mul_assoc Rᵀ, hR.1, Matrix.one_mul, hS.1]
  · rw [Matrix.det_mul, hR.2, hS.2, one_mul]

theorem IsRot.transpose {R : Matrix (Fin 3) (Fin 3) ℝ} (hR : IsRot R) : IsRot Rᵀ := by
  constructor
  · rw [Matrix.transpose_transpose]; exact mul_eq_one_comm.mp hR.1
  · rw [Matrix.det_transpose]; exact hR.2

theorem IsRot.mul_transpose {R : Matrix (Fin 3) (Fin 3) ℝ} (hR : IsRot R) : R * Rᵀ = 1 :=
  mul_eq_one_comm.mp hR.1

/-- KEY LEMMA: a proper rotation that fixes the z axis is a rotation about z. -/
theorem rot_fix_ez_is_Rz3 {R : Matrix (Fin 3) (Fin 3) ℝ} (hR : IsRot R) (hz : R *ᵥ ez = ez) :
    ∃ δ : ℝ, R = Rz3 δ := by
  obtain ⟨horth, hdet⟩ := hR
  have horth' : R * Rᵀ = 1 := mul_eq_one_comm.mp horth
  -- third column
  have c0 : R 0 2 = 0 := by
    have := congrFun hz 0; simpa [ez, Matrix.mulVec, dotProduct, Fin.sum_univ_three] using this
  have c1 : R 1 2 = 0 := by
    have := congrFun hz 1; simpa [ez, Matrix.mulVec, dotProduct, Fin.sum_univ_three] using this
  have c2 : R 2 2 = 1 := by
    have := congrFun hz 2; simpa [ez, Matrix.mulVec, dotProduct, Fin.sum_univ_three] using this
  -- third row from the unit norm of the rows
  have r22 : R 2 0 * R 2 0 + R 2 1 * R 2 1 + R 2 2 * R 2 2 = 1 := by
    have := congrFun (congrFun horth' 2) 2
    simpa [Matrix.mul_apply, Fin.sum_univ_three] using this
  have hsq : R 2 0 ^ 2 + R 2 1 ^ 2 = 0 := by rw [c2] at r22; nlinarith
  have r0 : R 2 0 = 0 := by nlinarith [sq_nonneg (R 2 0), sq_nonneg (R 2 1)]
  have r1 : R 2 1 = 0 := by nlinarith [sq_nonneg (R 2 0), sq_nonneg (R 2 1)]
  -- upper-left block
  have e00 : R 0 0 * R 0 0 + R 1 0 * R 1 0 + R 2 0 * R 2 0 = 1 := by
    have := congrFun (congrFun horth 0) 0
    simpa [Matrix.mul_apply, Fin.sum_univ_three] using this
  have e11 : R 0 1 * R 0 1 + R 1 1 * R 1 1 + R 2 1 * R 2 1 = 1 := by
    have := congrFun (congrFun horth 1) 1
    simpa [Matrix.mul_apply, Fin.sum_univ_three] using this
  have hd : R 0 0 * R 1 1 - R 0 1 * R 1 0 = 1 := by
    rw [Matrix.det_fin_three] at hdet
    rw [c0, c1, c2, r0, r1] at hdet
    linarith
  rw [r0] at e00
  rw [r1] at e11
  have hsum : (R 0 0 - R 1 1) ^ 2 + (R 0 1 + R 1 0) ^ 2 = 0 := by nlinarith
  have h11 : R 1 1 = R 0 0 := by nlinarith [sq_nonneg (R 0 0 - R 1 1), sq_nonneg (R 0 1 + R 1 0)]
  have h01 : R 0 1 = -R 1 0 := by nlinarith [sq_nonneg (R 0 0 - R 1 1), sq_nonneg (R 0 1 + R 1 0)]
  obtain ⟨δ, hc, hs⟩ := exists_angle (c := R 0 0) (s := R 1 0) (by nlinarith)
  refine ⟨δ, ?_⟩
  ext i j
  fin_cases i <;> fin_cases j <;> simp [Rz3, hc, hs, c0, c1, c2, r0, r1, h11, h01]

/-- the rotation `Rz(φ) Ry(θ)` that takes ẑ to the direction `(θ, φ)` -/
noncomputable def hframe (φ θ : ℝ) : Matrix (Fin 3) (Fin 3) ℝ := Rz3 φ * Ry3 θ

theorem hframe_isRot (φ θ : ℝ) : IsRot (hframe φ θ) := (Rz3_isRot φ).mul (Ry3_isRot θ)

theorem hframe_ez (φ θ : ℝ) :
    hframe φ θ *ᵥ ez = ![Real.sin θ * Real.cos φ, Real.sin θ * Real.sin φ, Real.cos θ] := by
  ext i
  fin_cases i <;>
    simp [hframe, ez, Rz3, Ry3, Matrix.mulVec, dotProduct, Matrix.mul_apply, Fin.sum_univ_three] <;> ring

end Ampverif.Lemmas.C04
