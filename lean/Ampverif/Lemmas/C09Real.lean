/-
C09 helper lemmas — "this complex expression is (the cast of) a real / a non-negative real".

The generated K-matrix parametrisations are complex-valued terms built from casts of real
parameters, `+ * ⁻¹ ^n` and the principal square root `z ^ (1/2)`. `IsRe`/`IsNN` are closed under
these operations, and the tactic `real_closure` proves such goals syntactically, whatever the
exact shape of the regenerated term is.
-/
import Mathlib.Analysis.SpecialFunctions.Pow.Complex
import Mathlib.Analysis.SpecialFunctions.Pow.Real
import Mathlib.Analysis.SpecialFunctions.Sqrt
import Mathlib.Analysis.Complex.Basic

namespace Ampverif.Lemmas.C09

/-- `z` is the cast of a real number. -/
def IsRe (z : ℂ) : Prop := ∃ r : ℝ, z = (r : ℂ)

/-- `z` is the cast of a non-negative real number. -/
def IsNN (z : ℂ) : Prop := ∃ r : ℝ, 0 ≤ r ∧ z = (r : ℂ)

theorem IsNN.isRe {z : ℂ} (h : IsNN z) : IsRe z := let ⟨r, _, e⟩ := h; ⟨r, e⟩

theorem IsRe.conj_eq {z : ℂ} (h : IsRe z) : (starRingEnd ℂ) z = z := by
  obtain ⟨r, rfl⟩ := h; exact Complex.conj_ofReal r

theorem isRe_of_conj {z : ℂ} (h : (starRingEnd ℂ) z = z) : IsRe z := by
  obtain ⟨r, hr⟩ := Complex.conj_eq_iff_real.1 h
  exact ⟨r, hr⟩

theorem IsRe.ofReal (r : ℝ) : IsRe (r : ℂ) := ⟨r, rfl⟩
theorem IsNN.ofReal {r : ℝ} (h : 0 ≤ r) : IsNN (r : ℂ) := ⟨r, h, rfl⟩
theorem IsNN.ofReal_pos {r : ℝ} (h : 0 < r) : IsNN (r : ℂ) := ⟨r, h.le, rfl⟩

theorem IsRe.one : IsRe (1 : ℂ) := ⟨1, by simp⟩
theorem IsRe.neg_one : IsRe (-1 : ℂ) := ⟨-1, by simp⟩
theorem IsNN.one : IsNN (1 : ℂ) := ⟨1, zero_le_one, by simp⟩
theorem IsRe.zero : IsRe (0 : ℂ) := ⟨0, by simp⟩

theorem IsRe.add {a b : ℂ} (ha : IsRe a) (hb : IsRe b) : IsRe (a + b) := by
  obtain ⟨x, rfl⟩ := ha; obtain ⟨y, rfl⟩ := hb; exact ⟨x + y, by push_cast; rfl⟩
theorem IsRe.mul {a b : ℂ} (ha : IsRe a) (hb : IsRe b) : IsRe (a * b) := by
  obtain ⟨x, rfl⟩ := ha; obtain ⟨y, rfl⟩ := hb; exact ⟨x * y, by push_cast; rfl⟩
theorem IsRe.neg {a : ℂ} (ha : IsRe a) : IsRe (-a) := by
  obtain ⟨x, rfl⟩ := ha; exact ⟨-x, by push_cast; rfl⟩
theorem IsRe.sub {a b : ℂ} (ha : IsRe a) (hb : IsRe b) : IsRe (a - b) := by
  obtain ⟨x, rfl⟩ := ha; obtain ⟨y, rfl⟩ := hb; exact ⟨x - y, by push_cast; rfl⟩
theorem IsRe.inv {a : ℂ} (ha : IsRe a) : IsRe a⁻¹ := by
  obtain ⟨x, rfl⟩ := ha; exact ⟨x⁻¹, by push_cast; rfl⟩
theorem IsRe.div {a b : ℂ} (ha : IsRe a) (hb : IsRe b) : IsRe (a / b) := by
  obtain ⟨x, rfl⟩ := ha; obtain ⟨y, rfl⟩ := hb; exact ⟨x / y, by push_cast; rfl⟩
theorem IsRe.pow {a : ℂ} (ha : IsRe a) (n : ℕ) : IsRe (a ^ n) := by
  obtain ⟨x, rfl⟩ := ha; exact ⟨x ^ n, by push_cast; rfl⟩

theorem IsNN.add {a b : ℂ} (ha : IsNN a) (hb : IsNN b) : IsNN (a + b) := by
  obtain ⟨x, hx, rfl⟩ := ha; obtain ⟨y, hy, rfl⟩ := hb
  exact ⟨x + y, add_nonneg hx hy, by push_cast; rfl⟩
theorem IsNN.mul {a b : ℂ} (ha : IsNN a) (hb : IsNN b) : IsNN (a * b) := by
  obtain ⟨x, hx, rfl⟩ := ha; obtain ⟨y, hy, rfl⟩ := hb
  exact ⟨x * y, mul_nonneg hx hy, by push_cast; rfl⟩
theorem IsNN.inv {a : ℂ} (ha : IsNN a) : IsNN a⁻¹ := by
  obtain ⟨x, hx, rfl⟩ := ha; exact ⟨x⁻¹, inv_nonneg.2 hx, by push_cast; rfl⟩
theorem IsNN.div {a b : ℂ} (ha : IsNN a) (hb : IsNN b) : IsNN (a / b) := by
  obtain ⟨x, hx, rfl⟩ := ha; obtain ⟨y, hy, rfl⟩ := hb
  exact ⟨x / y, div_nonneg hx hy, by push_cast; rfl⟩
theorem IsNN.pow {a : ℂ} (ha : IsNN a) (n : ℕ) : IsNN (a ^ n) := by
  obtain ⟨x, hx, rfl⟩ := ha; exact ⟨x ^ n, pow_nonneg hx n, by push_cast; rfl⟩
/-- The square of a real is non-negative. -/
theorem IsNN.sq_of_isRe {a : ℂ} (ha : IsRe a) : IsNN (a ^ 2) := by
  obtain ⟨x, rfl⟩ := ha; exact ⟨x ^ 2, sq_nonneg x, by push_cast; rfl⟩

/-- The principal complex square root of a non-negative real is its real square root. -/
theorem csqrt_ofReal {r : ℝ} (h : 0 ≤ r) : ((r : ℂ)) ^ ((1 : ℂ) / 2) = ((Real.sqrt r : ℝ) : ℂ) := by
  rw [Real.sqrt_eq_rpow, Complex.ofReal_cpow h]
  norm_num

theorem IsNN.csqrt {a : ℂ} (ha : IsNN a) : IsNN (a ^ ((1 : ℂ) / 2)) := by
  obtain ⟨x, hx, rfl⟩ := ha
  exact ⟨Real.sqrt x, Real.sqrt_nonneg x, csqrt_ofReal hx⟩

/-- `(z^(1/2))^2 = z` for every complex `z` (no sign condition). -/
theorem csqrt_sq (z : ℂ) : (z ^ ((1 : ℂ) / 2)) ^ 2 = z := by
  have h : ((1 : ℂ) / 2) = ((2 : ℕ) : ℂ)⁻¹ := by norm_num
  rw [h]
  exact Complex.cpow_nat_inv_pow z two_ne_zero

theorem csqrt_mul_self (z : ℂ) : z ^ ((1 : ℂ) / 2) * z ^ ((1 : ℂ) / 2) = z := by
  rw [← sq]; exact csqrt_sq z

/-- For a positive real the principal root is real, hence fixed by conjugation. -/
theorem conj_csqrt_ofReal {r : ℝ} (h : 0 ≤ r) :
    (starRingEnd ℂ) (((r : ℂ)) ^ ((1 : ℂ) / 2)) = ((Real.sqrt r : ℝ) : ℂ) := by
  rw [csqrt_ofReal h, Complex.conj_ofReal]

/-- Proves `IsRe e` / `IsNN e` for terms built from casts of reals (with sign hypotheses in the
context), numerals, `+ * ⁻¹ / ^n` and `^(1/2)`. -/
macro "real_closure" : tactic => `(tactic|
  repeat' (first
    | assumption
    | exact IsNN.one
    | exact IsRe.one
    | exact IsRe.neg_one
    | exact IsRe.zero
    | exact IsNN.ofReal (by assumption)
    | exact IsNN.ofReal_pos (by assumption)
    | exact IsRe.ofReal _
    | with_reducible apply IsNN.csqrt
    | with_reducible apply IsNN.sq_of_isRe
    | with_reducible apply IsNN.inv
    | with_reducible apply IsNN.div
    | with_reducible apply IsNN.pow
    | with_reducible apply IsNN.mul
    | with_reducible apply IsNN.add
    | with_reducible apply IsRe.inv
    | with_reducible apply IsRe.div
    | with_reducible apply IsRe.pow
    | with_reducible apply IsRe.neg
    | with_reducible apply IsRe.sub
    | with_reducible apply IsRe.mul
    | with_reducible apply IsRe.add
    | with_reducible apply IsNN.isRe))

end Ampverif.Lemmas.C09
