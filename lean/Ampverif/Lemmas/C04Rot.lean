/-
C04, layer (K), part 1 — rotation matrices.

`Rz3`, `Ry3` are the 3×3 rotations; `emb` embeds a 3×3 matrix into the 4×4 block form that acts
on four-momenta `(E, x, y, z)`. The REGENERATED matrices `Gen.C04.RotZ/RotY/BoostZ`
(from `RotationZMatrix/RotationYMatrix/BoostZMatrix.as_explicit()`) are identified with them.
-/
import Ampverif.Gen.C04
import Mathlib.LinearAlgebra.Matrix.Notation
import Mathlib.Data.Matrix.Mul
import Mathlib.Analysis.SpecialFunctions.Trigonometric.Basic
import Mathlib.Tactic.Ring
import Mathlib.Tactic.FinCases
import Mathlib.Tactic.Linarith

namespace Ampverif.Lemmas.C04
open Matrix Ampverif.Gen.C04

/-- rotation about z (active, counter-clockwise) -/
noncomputable def Rz3 (a : ℝ) : Matrix (Fin 3) (Fin 3) ℝ :=
  !![Real.cos a, -Real.sin a, 0; Real.sin a, Real.cos a, 0; 0, 0, 1]

/-- rotation about y -/
noncomputable def Ry3 (a : ℝ) : Matrix (Fin 3) (Fin 3) ℝ :=
  !![Real.cos a, 0, Real.sin a; 0, 1, 0; -Real.sin a, 0, Real.cos a]

/-- block embedding `1 ⊕ R` acting on `(E, x, y, z)` -/
def emb (R : Matrix (Fin 3) (Fin 3) ℝ) : Matrix (Fin 4) (Fin 4) ℝ :=
  !![1, 0, 0, 0;
     0, R 0 0, R 0 1, R 0 2;
     0, R 1 0, R 1 1, R 1 2;
     0, R 2 0, R 2 1, R 2 2]

theorem emb_mul (R S : Matrix (Fin 3) (Fin 3) ℝ) : emb (R * S) = emb R * emb S := by
  ext i j
  fin_cases i <;> fin_cases j <;>
    simp [emb, Matrix.mul_apply, Fin.sum_univ_four, Fin.sum_univ_three]

theorem emb_one : emb 1 = 1 := by
  ext i j
  fin_cases i <;> fin_cases j <;> simp [emb]

theorem Rz3_add (a b : ℝ) : Rz3 a * Rz3 b = Rz3 (a + b) := by
  ext i j
  fin_cases i <;> fin_cases j <;>
    simp [Rz3, Matrix.mul_apply, Fin.sum_univ_three, Real.cos_add, Real.sin_add] <;> ring

theorem Ry3_add (a b : ℝ) : Ry3 a * Ry3 b = Ry3 (a + b) := by
  ext i j
  fin_cases i <;> fin_cases j <;>
    simp [Ry3, Matrix.mul_apply, Fin.sum_univ_three, Real.cos_add, Real.sin_add] <;> ring

theorem Rz3_zero : Rz3 0 = 1 := by
  ext i j
  fin_cases i <;> fin_cases j <;> simp [Rz3]

theorem Ry3_zero : Ry3 0 = 1 := by
  ext i j
  fin_cases i <;> fin_cases j <;> simp [Ry3]

theorem Rz3_transpose (a : ℝ) : (Rz3 a)ᵀ = Rz3 (-a) := by
  ext i j
  fin_cases i <;> fin_cases j <;> simp [Rz3]

theorem Ry3_transpose (a : ℝ) : (Ry3 a)ᵀ = Ry3 (-a) := by
  ext i j
  fin_cases i <;> fin_cases j <;> simp [Ry3]

/-- the regenerated `RotationZMatrix(a).as_explicit()` is `1 ⊕ Rz(a)` -/
theorem RotZ_eq (a : ℝ) : RotZ a = emb (Rz3 a) := by
  ext i j
  fin_cases i <;> fin_cases j <;>
    simp [RotZ, emb, Rz3, RotZ_0_0, RotZ_0_1, RotZ_0_2, RotZ_0_3, RotZ_1_0, RotZ_1_1, RotZ_1_2,
      RotZ_1_3, RotZ_2_0, RotZ_2_1, RotZ_2_2, RotZ_2_3, RotZ_3_0, RotZ_3_1, RotZ_3_2, RotZ_3_3]

/-- the regenerated `RotationYMatrix(a).as_explicit()` is `1 ⊕ Ry(a)` -/
theorem RotY_eq (a : ℝ) : RotY a = emb (Ry3 a) := by
  ext i j
  fin_cases i <;> fin_cases j <;>
    simp [RotY, emb, Ry3, RotY_0_0, RotY_0_1, RotY_0_2, RotY_0_3, RotY_1_0, RotY_1_1, RotY_1_2,
      RotY_1_3, RotY_2_0, RotY_2_1, RotY_2_2, RotY_2_3, RotY_3_0, RotY_3_1, RotY_3_2, RotY_3_3]

theorem RotZ_add (a b : ℝ) : RotZ a * RotZ b = RotZ (a + b) := by
  rw [RotZ_eq, RotZ_eq, RotZ_eq, ← emb_mul, Rz3_add]

theorem RotY_add (a b : ℝ) : RotY a * RotY b = RotY (a + b) := by
  rw [RotY_eq, RotY_eq, RotY_eq, ← emb_mul, Ry3_add]

/-- the generated z-boost has the form `[[g, 0, 0, -g·b], …, [-g·b, 0, 0, g]]` with
`g = (√(1 - b²))⁻¹` -/
noncomputable def gam (b : ℝ) : ℝ := (Real.sqrt ((1 : ℝ) + (-1 : ℝ) * b ^ 2))⁻¹

theorem gam_eq (b : ℝ) : gam b = (Real.sqrt (1 - b ^ 2))⁻¹ := by
  unfold gam
  congr 2
  ring

theorem BoostZ_eq (b : ℝ) :
    BoostZ b = !![gam b, 0, 0, -(b * gam b); 0, 1, 0, 0; 0, 0, 1, 0; -(b * gam b), 0, 0, gam b] := by
  ext i j
  fin_cases i <;> fin_cases j <;>
    simp [BoostZ, gam, BoostZ_0_0, BoostZ_0_1, BoostZ_0_2, BoostZ_0_3, BoostZ_1_0, BoostZ_1_1,
      BoostZ_1_2, BoostZ_1_3, BoostZ_2_0, BoostZ_2_1, BoostZ_2_2, BoostZ_2_3, BoostZ_3_0,
      BoostZ_3_1, BoostZ_3_2, BoostZ_3_3]

/-- a z-boost commutes with every rotation about z -/
theorem BoostZ_comm_RotZ (b a : ℝ) : BoostZ b * RotZ a = RotZ a * BoostZ b := by
  rw [BoostZ_eq, RotZ_eq]
  ext i j
  fin_cases i <;> fin_cases j <;>
    simp [emb, Rz3, Matrix.mul_apply, Fin.sum_univ_four]

end Ampverif.Lemmas.C04
