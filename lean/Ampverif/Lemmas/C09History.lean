/-
Helper definitions / lemma for `Props/C09History.lean` (import-free apart from the shared history model).
-/
import Ampverif.Model.C10History

namespace Ampverif.Lemmas.C09History
open Ampverif.C10History

/-- The two classes of C09. -/
def isKMatrix (a : Args) : Bool := a.cls == Cls.nrK || a.cls == Cls.relK

/-- What the unitarity hypotheses need from one item of a result, for a predicate `good` on factor
objects and the arguments `a` of the call. -/
def Item.guarded (good : Factor → Prop) (a : Args) : Item → Prop
  | .width _ _ f l d => good f ∧ f = a.phsp ∧ l = a.angMom ∧ d = a.radius
  | .formFactor _ l d => l = a.angMom ∧ d = a.radius
  | .rho _ n => a.phsp.node = some n

theorem guarded_of_honours (good : Factor → Prop) (a : Args) (hg : good a.phsp) (it : Item)
    (h : it.honours a = true) : Item.guarded good a it := by
  cases it with
  | width r i f l d =>
    simp only [Item.honours, Bool.and_eq_true, beq_iff_eq] at h
    obtain ⟨⟨hf, hl⟩, hd⟩ := h
    exact ⟨hf ▸ hg, hf, hl, hd⟩
  | formFactor i l d =>
    simp only [Item.honours, Bool.and_eq_true, beq_iff_eq] at h
    exact h
  | rho i n =>
    simp only [Item.honours, beq_iff_eq] at h
    exact h

end Ampverif.Lemmas.C09History
