/-
Helper lemmas for C15: `weave` (pickle's flat new-args tuple) is `interleave`, option-list helpers.
-/
import Ampverif.Lemmas.C14Unfold

namespace Ampverif.Lemmas.C15
open Ampverif.Model Ampverif.Lemmas.C14

theorem weave_eq_interleave :
    ∀ (fs : List Field) (es : List Expr) (t : List Attr),
      weave (fs.map (fun f => f.sympify)) es t = interleave fs es t
  | [], es, t => by simp [weave, interleave]
  | f :: fs, es, t => by
      by_cases hf : f.sympify = true
      · cases es with
        | nil => simp [weave, interleave, hf, weave_eq_interleave fs [] t]
        | cons e es => simp [weave, interleave, hf, weave_eq_interleave fs es t]
      · have hf' : f.sympify = false := by simpa using hf
        cases t with
        | nil => simp [weave, interleave, hf', weave_eq_interleave fs es []]
        | cons a t => simp [weave, interleave, hf', weave_eq_interleave fs es t]

theorem optPairs_map {α β : Type} (f : α → β) (g : β → Option α) (l : List (α × α))
    (h : ∀ p ∈ l, g (f p.1) = some p.1 ∧ g (f p.2) = some p.2) :
    optPairs g (l.map (fun p => (f p.1, f p.2))) = some l := by
  induction l with
  | nil => simp [optPairs]
  | cons p l ih =>
    obtain ⟨a, b⟩ := p
    have hp := h (a, b) (by simp)
    have := ih (fun q hq => h q (by simp [hq]))
    simp only [List.map_cons, optPairs]
    simp [hp.1, hp.2, this]

theorem optFst_map {α β γ : Type} (f : α → β) (g : β → Option α) (l : List (α × γ))
    (h : ∀ p ∈ l, g (f p.1) = some p.1) :
    optFst g (l.map (fun p => (f p.1, p.2))) = some l := by
  induction l with
  | nil => simp [optFst]
  | cons p l ih =>
    obtain ⟨a, c⟩ := p
    have hp := h (a, c) (by simp)
    have := ih (fun q hq => h q (by simp [hq]))
    simp only [List.map_cons, optFst]
    simp [hp, this]

theorem optSnd_map {α β γ : Type} (f : α → β) (g : β → Option α) (l : List (γ × α))
    (h : ∀ p ∈ l, g (f p.2) = some p.2) :
    optSnd g (l.map (fun p => (p.1, f p.2))) = some l := by
  induction l with
  | nil => simp [optSnd]
  | cons p l ih =>
    obtain ⟨c, a⟩ := p
    have hp := h (c, a) (by simp)
    have := ih (fun q hq => h q (by simp [hq]))
    simp only [List.map_cons, optSnd]
    simp [hp, this]

end Ampverif.Lemmas.C15
