/-
C04, layer (I), J ≤ 5/2 — unitarity of `e^{-imα} d^J_{mm'}(β) e^{-im'γ}` from the d-tables that
builder-C05 regenerates from SymPy (`Gen/C05Wigner.lean`, imported read-only).
-/
import Ampverif.Lemmas.C04Half
import Ampverif.Gen.C05Wigner
import Mathlib.Algebra.BigOperators.Fin
namespace Ampverif.Lemmas.C04
open Matrix Ampverif.Gen.C05Wigner

/-- projection `m_a = −J + a` for `J = j2/2` -/
noncomputable def mOf (j2 : ℕ) (a : ℕ) : ℝ := -(j2 : ℝ) / 2 + a

/-- `D^J_{m m'}(α,β,γ) = e^{-imα} d^J_{mm'}(β) e^{-im'γ}` built from the d-table regenerated from SymPy
(`Gen.C05Wigner.dtab`, J = j2/2 ≤ 5/2); the shape `phase · d · phase` is checked on the SymPy objects
at run time (fact `sympy_D_is_phase_times_real_d_upto_j2`). -/
noncomputable def DJ (j2 : ℕ) (α β γ : ℝ) : Matrix (Fin (j2 + 1)) (Fin (j2 + 1)) ℂ :=
  Matrix.of fun a b =>
    ce (-(mOf j2 a * α))
      * ((dtab j2 (Real.cos (β / 2)) (Real.sin (β / 2)) (Real.sqrt 2) (Real.sqrt 3) (Real.sqrt 5) a b : ℝ) : ℂ)
      * ce (-(mOf j2 b * γ))

theorem ce_mul_conj (x : ℝ) : ce x * (starRingEnd ℂ) (ce x) = 1 := by
  rw [ce_conj, ce_add, add_neg_cancel, ce_zero]

/-- unitarity for every J ≤ 5/2 (in particular J = 3/2, 2, 5/2) and all angles -/
theorem DJ_unitary (j2 : ℕ) (hj : j2 ≤ 5) (α β γ : ℝ) : DJ j2 α β γ * (DJ j2 α β γ)ᴴ = 1 := by
  have hcs : Real.cos (β / 2) ^ 2 + Real.sin (β / 2) ^ 2 = 1 := by
    have := Real.sin_sq_add_cos_sq (β / 2); linarith
  have h2 : Real.sqrt 2 ^ 2 = 2 := Real.sq_sqrt (by norm_num)
  have h3 : Real.sqrt 3 ^ 2 = 3 := Real.sq_sqrt (by norm_num)
  have h5 : Real.sqrt 5 ^ 2 = 5 := Real.sq_sqrt (by norm_num)
  ext a b
  rw [Matrix.mul_apply]
  have key : ∀ k : Fin (j2 + 1), DJ j2 α β γ a k * (DJ j2 α β γ)ᴴ k b
      = (ce (-(mOf j2 a * α)) * (starRingEnd ℂ) (ce (-(mOf j2 b * α))))
        * (((dtab j2 (Real.cos (β / 2)) (Real.sin (β / 2)) (Real.sqrt 2) (Real.sqrt 3) (Real.sqrt 5) a k
            * dtab j2 (Real.cos (β / 2)) (Real.sin (β / 2)) (Real.sqrt 2) (Real.sqrt 3) (Real.sqrt 5) b k : ℝ)) : ℂ) := by
    intro k
    simp only [DJ, Matrix.conjTranspose_apply, Matrix.of_apply, star_mul', Complex.star_def, Complex.conj_ofReal]
    have := ce_mul_conj (-(mOf j2 k * γ))
    push_cast
    linear_combination (ce (-(mOf j2 a * α)) * (starRingEnd ℂ) (ce (-(mOf j2 b * α)))
      * (dtab j2 (Real.cos (β / 2)) (Real.sin (β / 2)) (Real.sqrt 2) (Real.sqrt 3) (Real.sqrt 5) a k : ℂ)
      * (dtab j2 (Real.cos (β / 2)) (Real.sin (β / 2)) (Real.sqrt 2) (Real.sqrt 3) (Real.sqrt 5) b k : ℂ)) * this
  rw [Finset.sum_congr rfl fun k _ => key k, ← Finset.mul_sum, ← Complex.ofReal_sum,
    Fin.sum_univ_eq_sum_range (fun k => dtab j2 (Real.cos (β / 2)) (Real.sin (β / 2)) (Real.sqrt 2) (Real.sqrt 3)
      (Real.sqrt 5) a k * dtab j2 (Real.cos (β / 2)) (Real.sin (β / 2)) (Real.sqrt 2) (Real.sqrt 3) (Real.sqrt 5) b k) (j2 + 1),
    dtab_row_orth j2 hj _ _ _ _ _ hcs h2 h3 h5 a b a.2 b.2]
  by_cases hab : a = b
  · subst hab
    simp [ce_mul_conj]
  · have : (a : ℕ) ≠ b := fun h => hab (Fin.ext h)
    simp [this, Matrix.one_apply_ne hab]

end Ampverif.Lemmas.C04
