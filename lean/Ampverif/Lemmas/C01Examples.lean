/-
Concrete reactions used by the witness theorems and non-vacuity examples of Props/C01.lean.
Each of them is also replayed on the real code by tools/props/C01.py (variant probes).
-/
import Ampverif.Model.C01Builder

namespace Ampverif.Model.C01.Examples

def vSound : Variant := ⟨.refs, true, true, true⟩

def cfgDefault : Config :=
  { align := .none, stable := none, scalarInitial := false, helicityCouplings := false,
    parentHel := false, childHel := true, insertLS := true, dyn := [] }

def cfgAxis : Config := { cfgDefault with align := .axis }

/-- eta_c(1S) -> Lambda Lambda~ : only (-1/2,-1/2) and (+1/2,+1/2) have a transition -/
def etaC : Reaction :=
  let tree := Tree.node (-1) 0 (.leaf 0) (.leaf 1)
  let mk (h : Int) : Transition :=
    let ss : List State := [⟨-1, 0, 0⟩, ⟨0, 1, h⟩, ⟨1, 2, h⟩]
    { topo := 0, states := ss, inters := [⟨0, none, none, some (-1)⟩], chains := [⟨0, ss⟩] }
  { canonical := false,
    particles := [⟨n!"eta(c)(1S)", some n!"\\eta_{c}(1S)", 0, false⟩, ⟨n!"Lambda", some n!"\\Lambda", 1, false⟩,
                  ⟨n!"Lambda~", some n!"\\overline{\\Lambda}", 1, false⟩],
    topos := [tree], transitions := [mk (-1), mk 1] }

def tree12 : Tree := .node (-1) 0 (.leaf 0) (.node 3 1 (.leaf 1) (.leaf 2))
def tree02 : Tree := .node (-1) 0 (.leaf 1) (.node 3 1 (.leaf 0) (.leaf 2))

/-- J/psi(±1) -> gamma(-1) pi0 pi0 via f0: the photon helicity +1 is not part of the reaction -/
def jpsiPartial : Reaction :=
  let mk (m : Int) : Transition :=
    let ss : List State := [⟨-1, 0, m⟩, ⟨0, 1, -2⟩, ⟨1, 2, 0⟩, ⟨2, 2, 0⟩, ⟨3, 3, 0⟩]
    { topo := 0, states := ss, inters := [⟨0, none, none, some 1⟩, ⟨1, none, none, none⟩], chains := [⟨0, ss⟩] }
  { canonical := false,
    particles := [⟨n!"J/psi(1S)", some n!"J/\\psi(1S)", 2, false⟩, ⟨n!"gamma", some n!"\\gamma", 2, true⟩,
                  ⟨n!"pi0", some n!"\\pi^{0}", 0, false⟩, ⟨n!"f(0)(980)", some n!"f_{0}(980)", 0, false⟩],
    topos := [tree12], transitions := [mk (-2), mk 2] }

/-- J/psi(+1) -> pi0 pi0 gamma(+1) via omega(782): qrules has ONE topology ((12)0); the identical-particle
combinatorics add the chain with pi0_0 <-> pi0_1 swapped on topology (02)1 -/
def omega : Reaction :=
  let mk (lam : Int) : Transition :=
    let ss : List State := [⟨-1, 0, 2⟩, ⟨0, 1, 0⟩, ⟨1, 1, 0⟩, ⟨2, 2, 2⟩, ⟨3, 3, lam⟩]
    { topo := 0, states := ss, inters := [⟨0, none, none, some 1⟩, ⟨1, none, none, some (-1)⟩],
      chains := [⟨0, ss⟩, ⟨1, ss⟩] }
  { canonical := false,
    particles := [⟨n!"J/psi(1S)", some n!"J/\\psi(1S)", 2, false⟩, ⟨n!"pi0", some n!"\\pi^{0}", 0, false⟩,
                  ⟨n!"gamma", some n!"\\gamma", 2, true⟩, ⟨n!"omega(782)", some n!"\\omega(782)", 2, false⟩],
    topos := [tree12, tree02], transitions := [mk (-2), mk 0, mk 2] }

/-- Breit-Wigner with form factor on the resonance, all final states stable, scalar initial mass -/
def cfgRich : Config :=
  { cfgDefault with stable := some [0, 1, 2], scalarInitial := true, dyn := [(3, .bw), (0, .custom)] }

/-- a DPD-relabelled three-body reaction (ids 0; 1,2,3) with a spin-1/2 final state -/
def dpdR : Reaction :=
  let tree := Tree.node 0 0 (.leaf 1) (.node 4 1 (.leaf 2) (.leaf 3))
  let mk (a b : Int) : Transition :=
    let ss : List State := [⟨0, 0, a⟩, ⟨1, 1, b⟩, ⟨2, 2, 0⟩, ⟨3, 2, 0⟩, ⟨4, 3, 0⟩]
    { topo := 0, states := ss, inters := [⟨0, none, none, none⟩, ⟨1, none, none, none⟩], chains := [⟨0, ss⟩] }
  { canonical := false,
    particles := [⟨n!"Lambda(c)+", some n!"\\Lambda_{c}^{+}", 1, false⟩, ⟨n!"p", some n!"p", 1, false⟩,
                  ⟨n!"K", none, 0, false⟩, ⟨n!"R", none, 0, false⟩],
    topos := [tree], transitions := [mk (-1) (-1), mk (-1) 1, mk 1 (-1), mk 1 1] }

def cfgDpd : Config := { cfgDefault with align := .dpd 2, stable := some [1, 2, 3], scalarInitial := true }

end Ampverif.Model.C01.Examples
