/-
C05 — contraction with matrices that are unitary on the pools preserves the incoherent sum.

`PoolIso p U` : the columns of `U` restricted to the pool `p` are orthonormal (`U†U = 1` on `p`).
`alignedS_norm` : for ANY number of outer states, if every state's chain matrix is `PoolIso` on
the state's pool, the pools have no duplicates, outer pool = inner pool, and pools of states whose
amplitude index is negated are closed under negation, then

    Σ_{m ∈ Π pools} |alignedS … A m|²  =  Σ_{λ ∈ Π pools} |A λ|² .
-/
import Ampverif.Lemmas.C05Wiring
import Mathlib.Data.Complex.BigOperators
import Mathlib.Algebra.BigOperators.Ring.Finset
import Mathlib.Algebra.BigOperators.Group.Finset.Basic
import Mathlib.Tactic.Ring

namespace Ampverif.Lemmas.C05Unitary
open Ampverif.Model.C05Align Ampverif.Lemmas.C05Wiring
open scoped ComplexConjugate

/-! ## one matrix -/

/-- the columns of `U` indexed by the pool are orthonormal w.r.t. the sum over the pool -/
def PoolIso (p : List ℤ) (U : ℤ → ℤ → ℂ) : Prop :=
  ∀ l ∈ p, ∀ l' ∈ p, (p.map fun m => conj (U m l) * U m l').sum = if l = l' then 1 else 0

theorem inner_preserved (s : Finset ℤ) (U : ℤ → ℤ → ℂ)
    (hU : ∀ l ∈ s, ∀ l' ∈ s, ∑ m ∈ s, conj (U m l) * U m l' = if l = l' then 1 else 0)
    (x y : ℤ → ℂ) :
    ∑ m ∈ s, conj (∑ l ∈ s, U m l * x l) * (∑ l ∈ s, U m l * y l) = ∑ l ∈ s, conj (x l) * y l := by
  calc ∑ m ∈ s, conj (∑ l ∈ s, U m l * x l) * (∑ l ∈ s, U m l * y l)
      = ∑ m ∈ s, ∑ l ∈ s, ∑ l' ∈ s, (conj (x l) * y l') * (conj (U m l) * U m l') := by
        apply Finset.sum_congr rfl
        intro m _
        rw [map_sum, Finset.sum_mul_sum]
        apply Finset.sum_congr rfl
        intro l _
        apply Finset.sum_congr rfl
        intro l' _
        rw [map_mul]
        ring
    _ = ∑ l ∈ s, ∑ l' ∈ s, (conj (x l) * y l') * ∑ m ∈ s, conj (U m l) * U m l' := by
        rw [Finset.sum_comm]
        apply Finset.sum_congr rfl
        intro l _
        rw [Finset.sum_comm]
        apply Finset.sum_congr rfl
        intro l' _
        rw [Finset.mul_sum]
    _ = ∑ l ∈ s, ∑ l' ∈ s, (conj (x l) * y l') * (if l = l' then 1 else 0) := by
        apply Finset.sum_congr rfl
        intro l hl
        apply Finset.sum_congr rfl
        intro l' hl'
        rw [hU l hl l' hl']
    _ = ∑ l ∈ s, conj (x l) * y l := by
        apply Finset.sum_congr rfl
        intro l hl
        simp [mul_ite, Finset.sum_ite_eq, hl]

theorem sum_map_eq_finset {M : Type*} [AddCommMonoid M] (p : List ℤ) (hp : p.Nodup) (f : ℤ → M) :
    (p.map f).sum = ∑ i ∈ p.toFinset, f i := (List.sum_toFinset f hp).symm

theorem PoolIso.finset {p : List ℤ} (hp : p.Nodup) {U : ℤ → ℤ → ℂ} (h : PoolIso p U) :
    ∀ l ∈ p.toFinset, ∀ l' ∈ p.toFinset,
      ∑ m ∈ p.toFinset, conj (U m l) * U m l' = if l = l' then 1 else 0 := by
  intro l hl l' hl'
  rw [← sum_map_eq_finset p hp]
  exact h l (List.mem_toFinset.mp hl) l' (List.mem_toFinset.mp hl')

/-- a matrix with orthonormal columns on the pool preserves the sum of squared moduli -/
theorem iso_norm (p : List ℤ) (hp : p.Nodup) (U : ℤ → ℤ → ℂ) (hU : PoolIso p U) (x : ℤ → ℂ) :
    (p.map fun m => Complex.normSq ((p.map fun l => U m l * x l).sum)).sum
      = (p.map fun l => Complex.normSq (x l)).sum := by
  apply Complex.ofReal_injective
  have h := inner_preserved p.toFinset U (hU.finset hp) x x
  simp only [sum_map_eq_finset p hp]
  push_cast
  simp only [Complex.normSq_eq_conj_mul_self]
  exact h

/-- the product of two matrices with orthonormal columns has orthonormal columns -/
theorem iso_comp (p : List ℤ) (hp : p.Nodup) (C M : ℤ → ℤ → ℂ) (hC : PoolIso p C) (hM : PoolIso p M) :
    PoolIso p (fun m v => (p.map fun w => M w v * C m w).sum) := by
  intro v hv v' hv'
  have h := inner_preserved p.toFinset C (hC.finset hp) (fun w => M w v) (fun w => M w v')
  have hM' := hM v hv v' hv'
  simp only [sum_map_eq_finset p hp] at hM' ⊢
  rw [← hM', ← h]
  apply Finset.sum_congr rfl
  intro m _
  have e1 : ∀ u, ∑ w ∈ p.toFinset, M w u * C m w = ∑ l ∈ p.toFinset, C m l * M l u :=
    fun u => Finset.sum_congr rfl (fun w _ => mul_comm _ _)
  rw [e1, e1]

/-- chain matrices of rotations that are `PoolIso` are `PoolIso` -/
theorem chain_iso (D : ℕ → Angle → ℤ → ℤ → ℂ) (p : List ℤ) (hp : p.Nodup) (links : List Link)
    (hne : links ≠ []) (h : ∀ l ∈ links, PoolIso p (linkMat D l)) : PoolIso p (chainMat D p links) := by
  induction links with
  | nil => exact absurd rfl hne
  | cons l rest ih =>
    cases rest with
    | nil =>
      have := h l (by simp)
      simpa [chainMat] using this
    | cons l' rest =>
      have hC := ih (by simp) (fun x hx => h x (by simp only [List.mem_cons]; exact Or.inr (by simpa [List.mem_cons] using hx)))
      have hM := h l (by simp)
      have := iso_comp p hp _ _ hC hM
      simpa [chainMat] using this

/-! ## linearity of `psum` and commutation with an update of a different variable -/

theorem psum_zero (xs : List (Var × List ℤ)) (env : Env) : psum xs (fun _ => (0 : ℝ)) env = 0 := by
  induction xs generalizing env with
  | nil => rfl
  | cons x xs ih =>
    obtain ⟨x, pool⟩ := x
    simp only [psum, ih]
    simp

theorem psum_add (xs : List (Var × List ℤ)) (f g : Env → ℝ) (env : Env) :
    psum xs (fun e => f e + g e) env = psum xs f env + psum xs g env := by
  induction xs generalizing env with
  | nil => rfl
  | cons x xs ih =>
    obtain ⟨x, pool⟩ := x
    simp only [psum, ih]
    exact List.sum_map_add

theorem psum_list_sum (xs : List (Var × List ℤ)) (p : List ℤ) (f : ℤ → Env → ℝ) (env : Env) :
    psum xs (fun e => (p.map fun m => f m e).sum) env = (p.map fun m => psum xs (f m) env).sum := by
  induction p with
  | nil => simpa using psum_zero xs env
  | cons m p ih =>
    simp only [List.map_cons, List.sum_cons]
    rw [psum_add, ih]

theorem psum_update_comm (xs : List (Var × List ℤ)) (f : Env → ℝ) (env : Env) (x : Var) (v : ℤ)
    (hx : x ∉ xs.map Prod.fst) :
    psum xs f (Function.update env x v) = psum xs (fun e => f (Function.update e x v)) env := by
  induction xs generalizing env with
  | nil => rfl
  | cons y xs ih =>
    obtain ⟨y, pool⟩ := y
    have hxy : x ≠ y := fun e => hx (by simp [e])
    have hx' : x ∉ xs.map Prod.fst := fun e => hx (by simp only [List.map_cons, List.mem_cons]; exact Or.inr e)
    simp only [psum]
    congr 1
    apply List.map_congr_left
    intro w _
    rw [Function.update_comm hxy, ih _ hx']

/-! ## all states -/

/-- `Σ_{λ ∈ Π pools} |A λ|²` -/
def totalNorm : List (List ℤ) → (List ℤ → ℂ) → ℝ
  | [], A => Complex.normSq (A [])
  | p :: ps, A => (p.map fun v => totalNorm ps (fun ls => A (v :: ls))).sum

def specPool : Spec → List ℤ
  | .direct _ op => op
  | .chain _ _ pool _ _ => pool

/-- what the norm theorem needs from one state -/
def SpecIso (D : ℕ → Angle → ℤ → ℤ → ℂ) : Spec → Prop
  | .direct _ _ => True
  | .chain _ op pool neg links =>
    op = pool ∧ pool.Nodup ∧ (neg = true → ∀ v ∈ pool, -v ∈ pool) ∧ PoolIso pool (chainMat D pool links)

theorem flatten_outer_vars (specs : List Spec) :
    ∀ x ∈ (flatten specs).outer.map Prod.fst, ∃ e, x = Var.outer e ∧ e ∈ specs.map Spec.state := by
  induction specs with
  | nil => intro x hx; simp [flatten] at hx
  | cons s rest ih =>
    intro x hx
    simp only [flatten, List.map_cons, List.mem_cons] at hx
    rcases hx with rfl | hx
    · refine ⟨s.state, ?_, by simp⟩
      cases s <;> rfl
    · obtain ⟨e, rfl, he⟩ := ih x hx
      exact ⟨e, rfl, by simp only [List.map_cons, List.mem_cons]; exact Or.inr he⟩

/-- `alignedS` reads the environment only at the outer variables of ITS states -/
theorem alignedS_congr' (D : ℕ → Angle → ℤ → ℤ → ℂ) (specs : List Spec) (A : List ℤ → ℂ)
    (env env' : Env) (h : ∀ e ∈ specs.map Spec.state, env' (.outer e) = env (.outer e)) :
    alignedS D specs A env' = alignedS D specs A env := by
  induction specs generalizing A with
  | nil => rfl
  | cons s rest ih =>
    have hrest : ∀ e ∈ rest.map Spec.state, env' (.outer e) = env (.outer e) :=
      fun e he => h e (by simp only [List.map_cons, List.mem_cons]; exact Or.inr he)
    cases s with
    | direct e op =>
      have he := h e (by simp [Spec.state])
      simp only [alignedS, he]
      exact ih _ hrest
    | chain e op pool neg links =>
      have he := h e (by simp [Spec.state])
      simp only [alignedS, he]
      congr 1
      apply List.map_congr_left
      intro l _
      rw [ih _ hrest]

theorem sum_neg_reindex (p : List ℤ) (hp : p.Nodup) (hneg : ∀ v ∈ p, -v ∈ p) (g : ℤ → ℝ) :
    (p.map fun l => g (-l)).sum = (p.map g).sum := by
  rw [sum_map_eq_finset p hp, sum_map_eq_finset p hp]
  apply Finset.sum_nbij' (fun l => -l) (fun l => -l)
  · intro a ha; exact List.mem_toFinset.mpr (hneg a (List.mem_toFinset.mp ha))
  · intro a ha; exact List.mem_toFinset.mpr (hneg a (List.mem_toFinset.mp ha))
  · intro a _; exact neg_neg a
  · intro a _; exact neg_neg a
  · intro a _; rfl

/-- **Unitary product, list form.** Any number of states, any pools. -/
theorem alignedS_norm (D : ℕ → Angle → ℤ → ℤ → ℂ) (specs : List Spec)
    (hnd : (specs.map Spec.state).Nodup) (hiso : ∀ s ∈ specs, SpecIso D s)
    (A : List ℤ → ℂ) (env : Env) :
    psum (flatten specs).outer (fun e => Complex.normSq (alignedS D specs A e)) env
      = totalNorm (specs.map specPool) A := by
  induction specs generalizing A env with
  | nil => simp [flatten, psum, alignedS, totalNorm]
  | cons s rest ih =>
    have hs : s.state ∉ rest.map Spec.state := (List.nodup_cons.mp hnd).1
    have hrest : (rest.map Spec.state).Nodup := (List.nodup_cons.mp hnd).2
    have hiso' : ∀ s' ∈ rest, SpecIso D s' := fun s' h' => hiso s' (List.mem_cons_of_mem _ h')
    have hnot : Var.outer s.state ∉ (flatten rest).outer.map Prod.fst := by
      intro hmem
      obtain ⟨e, heq, he⟩ := flatten_outer_vars rest _ hmem
      injection heq with h1
      exact hs (h1 ▸ he)
    have hupd : ∀ (e' : Env) (m : ℤ) (B : List ℤ → ℂ),
        alignedS D rest B (Function.update e' (.outer s.state) m) = alignedS D rest B e' := by
      intro e' m B
      apply alignedS_congr'
      intro e he
      rw [Function.update_of_ne]
      intro hh
      injection hh with h1
      exact hs (h1 ▸ he)
    cases s with
    | direct e op =>
      simp only [Spec.state] at hnot hupd
      simp only [flatten, Spec.outer, psum, List.map_cons, specPool, totalNorm]
      congr 1
      apply List.map_congr_left
      intro m _
      rw [psum_update_comm _ _ _ _ _ hnot, ← ih hrest hiso' (fun ls => A (m :: ls)) env]
      apply psum_congr
      intro env' _
      simp only [alignedS, Function.update_self]
      rw [hupd]
    | chain e op pool neg links =>
      obtain ⟨hop, hpn, hneg, hU⟩ := hiso _ (List.mem_cons_self)
      subst hop
      simp only [Spec.state] at hnot hupd
      simp only [flatten, Spec.outer, psum, List.map_cons, specPool, totalNorm]
      -- bring the update inside and drop it from the rest
      have h1 : ∀ m ∈ op,
          psum (flatten rest).outer
            (fun e' => Complex.normSq (alignedS D (Spec.chain e op op neg links :: rest) A e'))
            (Function.update env (.outer e) m)
          = psum (flatten rest).outer
            (fun e' => Complex.normSq ((op.map fun l => chainMat D op links m l
              * alignedS D rest (fun ls => A (sgn neg l :: ls)) e').sum)) env := by
        intro m _
        rw [psum_update_comm _ _ _ _ _ hnot]
        apply psum_congr
        intro env' _
        simp only [alignedS, Function.update_self]
        congr 2
        apply List.map_congr_left
        intro l _
        rw [hupd]
      rw [List.map_congr_left h1, ← psum_list_sum]
      -- pointwise: the chain matrix preserves the norm
      have h2 : (fun e' : Env => (op.map fun m => Complex.normSq ((op.map fun l => chainMat D op links m l
              * alignedS D rest (fun ls => A (sgn neg l :: ls)) e').sum)).sum)
          = fun e' => (op.map fun l => Complex.normSq (alignedS D rest (fun ls => A (sgn neg l :: ls)) e')).sum := by
        funext e'
        exact iso_norm op hpn _ hU (fun l => alignedS D rest (fun ls => A (sgn neg l :: ls)) e')
      rw [h2, psum_list_sum]
      have h3 : ∀ l ∈ op,
          psum (flatten rest).outer
            (fun e' => Complex.normSq (alignedS D rest (fun ls => A (sgn neg l :: ls)) e')) env
          = totalNorm (rest.map specPool) (fun ls => A (sgn neg l :: ls)) :=
        fun l _ => ih hrest hiso' _ env
      rw [List.map_congr_left h3]
      cases neg with
      | false => simp [sgn]
      | true =>
        simp only [sgn, if_true]
        exact sum_neg_reindex op hpn (hneg rfl) (fun l => totalNorm (rest.map specPool) (fun ls => A (l :: ls)))

/-! ## intensities of skeletons -/

/-- meaning of the top expression `PoolSum(|amplitude|², outer pools)` of a skeleton -/
noncomputable def intensity (D : ℕ → Angle → ℤ → ℤ → ℂ) (A : List ℤ → ℂ) (sk : Skeleton) (env : Env) : ℝ :=
  psum sk.outer (fun e => Complex.normSq (amplitude D A sk e)) env

/-- the unaligned skeleton over the same states and pools (`NoAlignment`) -/
def unaligned (specs : List Spec) : List Spec := specs.map fun s => .direct s.state (specPool s)

theorem intensity_eq_totalNorm (D : ℕ → Angle → ℤ → ℤ → ℂ) (specs : List Spec)
    (hnd : (specs.map Spec.state).Nodup) (hiso : ∀ s ∈ specs, SpecIso D s)
    (A : List ℤ → ℂ) (env : Env) :
    intensity D A (flatten specs) env = totalNorm (specs.map specPool) A := by
  unfold intensity
  rw [← alignedS_norm D specs hnd hiso A env]
  apply psum_congr
  intro env' _
  rw [wiring D specs hnd]

/-- **Alignment leaves the intensity unchanged** (skeleton level): if every state's chain is
unitary on its pool, the aligned skeleton and the unaligned skeleton have the same intensity,
for every amplitude tensor. -/
theorem aligned_eq_unaligned (D : ℕ → Angle → ℤ → ℤ → ℂ) (specs : List Spec)
    (hnd : (specs.map Spec.state).Nodup) (hiso : ∀ s ∈ specs, SpecIso D s)
    (A : List ℤ → ℂ) (env : Env) :
    intensity D A (flatten specs) env = intensity D A (flatten (unaligned specs)) env := by
  rw [intensity_eq_totalNorm D specs hnd hiso]
  have hst : (unaligned specs).map Spec.state = specs.map Spec.state := by
    simp [unaligned, Function.comp_def, Spec.state]
  have hpl : (unaligned specs).map specPool = specs.map specPool := by
    simp [unaligned, Function.comp_def, specPool]
  rw [intensity_eq_totalNorm D (unaligned specs) (hst ▸ hnd)
    (by intro s hs; simp only [unaligned, List.mem_map] at hs; obtain ⟨_, _, rfl⟩ := hs; trivial), hpl]

end Ampverif.Lemmas.C05Unitary
