/-
C03 — the regenerated Clebsch–Gordan table (`Gen/C03CG.lean`, spins ≤ 3) is mirror symmetric:
one kernel-evaluated check per `(2j₁, 2j₂)` block (kept separate so that no single proof is slow).
The block names are fixed by the spin bound; if SymPy's table changes, these lemmas break.
-/
import Ampverif.Gen.C03CG

namespace Ampverif.Lemmas.C03CGBlocks
open Ampverif.Model.C03CG Ampverif.Gen.C03CG

theorem symm_0_0 : (block_0_0.symmetric && block_0_0.all fun (k, _) => (k.j1, k.j2) == (0, 0)) = true := by decide +kernel
theorem symm_0_1 : (block_0_1.symmetric && block_0_1.all fun (k, _) => (k.j1, k.j2) == (0, 1)) = true := by decide +kernel
theorem symm_0_2 : (block_0_2.symmetric && block_0_2.all fun (k, _) => (k.j1, k.j2) == (0, 2)) = true := by decide +kernel
theorem symm_0_3 : (block_0_3.symmetric && block_0_3.all fun (k, _) => (k.j1, k.j2) == (0, 3)) = true := by decide +kernel
theorem symm_0_4 : (block_0_4.symmetric && block_0_4.all fun (k, _) => (k.j1, k.j2) == (0, 4)) = true := by decide +kernel
theorem symm_0_5 : (block_0_5.symmetric && block_0_5.all fun (k, _) => (k.j1, k.j2) == (0, 5)) = true := by decide +kernel
theorem symm_0_6 : (block_0_6.symmetric && block_0_6.all fun (k, _) => (k.j1, k.j2) == (0, 6)) = true := by decide +kernel
theorem symm_1_0 : (block_1_0.symmetric && block_1_0.all fun (k, _) => (k.j1, k.j2) == (1, 0)) = true := by decide +kernel
theorem symm_1_1 : (block_1_1.symmetric && block_1_1.all fun (k, _) => (k.j1, k.j2) == (1, 1)) = true := by decide +kernel
theorem symm_1_2 : (block_1_2.symmetric && block_1_2.all fun (k, _) => (k.j1, k.j2) == (1, 2)) = true := by decide +kernel
theorem symm_1_3 : (block_1_3.symmetric && block_1_3.all fun (k, _) => (k.j1, k.j2) == (1, 3)) = true := by decide +kernel
theorem symm_1_4 : (block_1_4.symmetric && block_1_4.all fun (k, _) => (k.j1, k.j2) == (1, 4)) = true := by decide +kernel
theorem symm_1_5 : (block_1_5.symmetric && block_1_5.all fun (k, _) => (k.j1, k.j2) == (1, 5)) = true := by decide +kernel
theorem symm_1_6 : (block_1_6.symmetric && block_1_6.all fun (k, _) => (k.j1, k.j2) == (1, 6)) = true := by decide +kernel
theorem symm_2_0 : (block_2_0.symmetric && block_2_0.all fun (k, _) => (k.j1, k.j2) == (2, 0)) = true := by decide +kernel
theorem symm_2_1 : (block_2_1.symmetric && block_2_1.all fun (k, _) => (k.j1, k.j2) == (2, 1)) = true := by decide +kernel
theorem symm_2_2 : (block_2_2.symmetric && block_2_2.all fun (k, _) => (k.j1, k.j2) == (2, 2)) = true := by decide +kernel
theorem symm_2_3 : (block_2_3.symmetric && block_2_3.all fun (k, _) => (k.j1, k.j2) == (2, 3)) = true := by decide +kernel
theorem symm_2_4 : (block_2_4.symmetric && block_2_4.all fun (k, _) => (k.j1, k.j2) == (2, 4)) = true := by decide +kernel
theorem symm_2_5 : (block_2_5.symmetric && block_2_5.all fun (k, _) => (k.j1, k.j2) == (2, 5)) = true := by decide +kernel
theorem symm_2_6 : (block_2_6.symmetric && block_2_6.all fun (k, _) => (k.j1, k.j2) == (2, 6)) = true := by decide +kernel
theorem symm_3_0 : (block_3_0.symmetric && block_3_0.all fun (k, _) => (k.j1, k.j2) == (3, 0)) = true := by decide +kernel
theorem symm_3_1 : (block_3_1.symmetric && block_3_1.all fun (k, _) => (k.j1, k.j2) == (3, 1)) = true := by decide +kernel
theorem symm_3_2 : (block_3_2.symmetric && block_3_2.all fun (k, _) => (k.j1, k.j2) == (3, 2)) = true := by decide +kernel
theorem symm_3_3 : (block_3_3.symmetric && block_3_3.all fun (k, _) => (k.j1, k.j2) == (3, 3)) = true := by decide +kernel
theorem symm_3_4 : (block_3_4.symmetric && block_3_4.all fun (k, _) => (k.j1, k.j2) == (3, 4)) = true := by decide +kernel
theorem symm_3_5 : (block_3_5.symmetric && block_3_5.all fun (k, _) => (k.j1, k.j2) == (3, 5)) = true := by decide +kernel
theorem symm_3_6 : (block_3_6.symmetric && block_3_6.all fun (k, _) => (k.j1, k.j2) == (3, 6)) = true := by decide +kernel
theorem symm_4_0 : (block_4_0.symmetric && block_4_0.all fun (k, _) => (k.j1, k.j2) == (4, 0)) = true := by decide +kernel
theorem symm_4_1 : (block_4_1.symmetric && block_4_1.all fun (k, _) => (k.j1, k.j2) == (4, 1)) = true := by decide +kernel
theorem symm_4_2 : (block_4_2.symmetric && block_4_2.all fun (k, _) => (k.j1, k.j2) == (4, 2)) = true := by decide +kernel
theorem symm_4_3 : (block_4_3.symmetric && block_4_3.all fun (k, _) => (k.j1, k.j2) == (4, 3)) = true := by decide +kernel
theorem symm_4_4 : (block_4_4.symmetric && block_4_4.all fun (k, _) => (k.j1, k.j2) == (4, 4)) = true := by decide +kernel
theorem symm_4_5 : (block_4_5.symmetric && block_4_5.all fun (k, _) => (k.j1, k.j2) == (4, 5)) = true := by decide +kernel
theorem symm_4_6 : (block_4_6.symmetric && block_4_6.all fun (k, _) => (k.j1, k.j2) == (4, 6)) = true := by decide +kernel
theorem symm_5_0 : (block_5_0.symmetric && block_5_0.all fun (k, _) => (k.j1, k.j2) == (5, 0)) = true := by decide +kernel
theorem symm_5_1 : (block_5_1.symmetric && block_5_1.all fun (k, _) => (k.j1, k.j2) == (5, 1)) = true := by decide +kernel
theorem symm_5_2 : (block_5_2.symmetric && block_5_2.all fun (k, _) => (k.j1, k.j2) == (5, 2)) = true := by decide +kernel
theorem symm_5_3 : (block_5_3.symmetric && block_5_3.all fun (k, _) => (k.j1, k.j2) == (5, 3)) = true := by decide +kernel
theorem symm_5_4 : (block_5_4.symmetric && block_5_4.all fun (k, _) => (k.j1, k.j2) == (5, 4)) = true := by decide +kernel
theorem symm_5_5 : (block_5_5.symmetric && block_5_5.all fun (k, _) => (k.j1, k.j2) == (5, 5)) = true := by decide +kernel
theorem symm_5_6 : (block_5_6.symmetric && block_5_6.all fun (k, _) => (k.j1, k.j2) == (5, 6)) = true := by decide +kernel
theorem symm_6_0 : (block_6_0.symmetric && block_6_0.all fun (k, _) => (k.j1, k.j2) == (6, 0)) = true := by decide +kernel
theorem symm_6_1 : (block_6_1.symmetric && block_6_1.all fun (k, _) => (k.j1, k.j2) == (6, 1)) = true := by decide +kernel
theorem symm_6_2 : (block_6_2.symmetric && block_6_2.all fun (k, _) => (k.j1, k.j2) == (6, 2)) = true := by decide +kernel
theorem symm_6_3 : (block_6_3.symmetric && block_6_3.all fun (k, _) => (k.j1, k.j2) == (6, 3)) = true := by decide +kernel
theorem symm_6_4 : (block_6_4.symmetric && block_6_4.all fun (k, _) => (k.j1, k.j2) == (6, 4)) = true := by decide +kernel
theorem symm_6_5 : (block_6_5.symmetric && block_6_5.all fun (k, _) => (k.j1, k.j2) == (6, 5)) = true := by decide +kernel
theorem symm_6_6 : (block_6_6.symmetric && block_6_6.all fun (k, _) => (k.j1, k.j2) == (6, 6)) = true := by decide +kernel

theorem table_symmetric : table.symmetric = true := by
  simp only [Table.symmetric, table, List.all_cons, List.all_nil, Bool.and_true,
    symm_0_0, symm_0_1, symm_0_2, symm_0_3, symm_0_4, symm_0_5, symm_0_6, symm_1_0, symm_1_1, symm_1_2, symm_1_3, symm_1_4, symm_1_5, symm_1_6, symm_2_0, symm_2_1, symm_2_2, symm_2_3, symm_2_4, symm_2_5, symm_2_6, symm_3_0, symm_3_1, symm_3_2, symm_3_3, symm_3_4, symm_3_5, symm_3_6, symm_4_0, symm_4_1, symm_4_2, symm_4_3, symm_4_4, symm_4_5, symm_4_6, symm_5_0, symm_5_1, symm_5_2, symm_5_3, symm_5_4, symm_5_5, symm_5_6, symm_6_0, symm_6_1, symm_6_2, symm_6_3, symm_6_4, symm_6_5, symm_6_6]

end Ampverif.Lemmas.C03CGBlocks
