/-
C04, layer (I) — instances of `WignerRep`.

* `W0` (J = 0): the trivial representation.
* `W1` (J = 1): `D(R) = U · R · U†` with the spherical-basis matrix `U`; multiplicative on ALL
  matrices, unitary on proper rotations, diagonal `e^{-imδ}` on `Rz δ`.
* `sympy_D1_eq`: the REGENERATED SymPy entries `Rotation.D(1, m, m', α, β, γ).doit()` are exactly
  `W1.D (Rz α · Ry β · Rz γ)`; hence SymPy's D¹ is unitary, diagonal on z-rotations and
  multiplicative in the rotation it represents.
-/
import Ampverif.Lemmas.C04Rep
import Mathlib.Analysis.SpecialFunctions.Trigonometric.Basic
import Mathlib.Analysis.Real.Sqrt

namespace Ampverif.Lemmas.C04
open Matrix Ampverif.Gen.C04

/-- J = 0 -/
noncomputable def W0 : WignerRep 1 where
  D := fun _ => 1
  wt := fun _ => 0
  mul := by intros; simp
  unitary := by intros; simp
  diag := by
    intro δ
    ext i j
    simp [Matrix.diagonal_apply, Matrix.one_apply]

/-- `1/√2` as a complex number -/
noncomputable def rh : ℂ := (((Real.sqrt 2 : ℝ) : ℂ))⁻¹

theorem sqrt2_sq : ((Real.sqrt 2 : ℝ) : ℂ) * ((Real.sqrt 2 : ℝ) : ℂ) = 2 := by
  rw [← Complex.ofReal_mul, Real.mul_self_sqrt (by norm_num)]; norm_num

theorem sqrt2_ne : ((Real.sqrt 2 : ℝ) : ℂ) ≠ 0 := by
  intro h
  have := sqrt2_sq
  rw [h] at this
  norm_num at this

theorem rh_sq : rh * rh = 1 / 2 := by
  unfold rh
  rw [← mul_inv, sqrt2_sq]; norm_num

theorem star_rh : (starRingEnd ℂ) rh = rh := by
  unfold rh
  rw [map_inv₀, Complex.conj_ofReal]

/-- spherical basis: rows `e_{+1}† , e_0†, e_{−1}†` with `e_{±1} = ∓(x̂ ± iŷ)/√2` -/
noncomputable def Usph : Matrix (Fin 3) (Fin 3) ℂ :=
  !![-rh, Complex.I * rh, 0; 0, 0, 1; rh, Complex.I * rh, 0]

theorem Usph_unitary : Usphᴴ * Usph = 1 := by
  have h := rh_sq
  have hs := star_rh
  ext i j
  fin_cases i <;> fin_cases j <;>
    simp [Usph, Matrix.mul_apply, Fin.sum_univ_three, Matrix.conjTranspose_apply, hs] <;>
    ring_nf <;> simp [pow_two, h]

theorem Usph_unitary' : Usph * Usphᴴ = 1 := mul_eq_one_comm.mp Usph_unitary

/-- complexification of a real matrix -/
def cplx (R : Matrix (Fin 3) (Fin 3) ℝ) : Matrix (Fin 3) (Fin 3) ℂ := R.map Complex.ofReal

theorem cplx_mul (R S : Matrix (Fin 3) (Fin 3) ℝ) : cplx (R * S) = cplx R * cplx S := by
  ext i j
  simp [cplx, Matrix.mul_apply]

theorem cplx_conjTranspose (R : Matrix (Fin 3) (Fin 3) ℝ) : (cplx R)ᴴ = cplx Rᵀ := by
  ext i j
  simp [cplx, Matrix.conjTranspose_apply]

theorem cplx_one : cplx 1 = 1 := by
  ext i j
  simp [cplx, Matrix.one_apply]
  split_ifs <;> simp

noncomputable def D1rep (R : Matrix (Fin 3) (Fin 3) ℝ) : Matrix (Fin 3) (Fin 3) ℂ :=
  Usph * cplx R * Usphᴴ

theorem D1rep_mul (R S : Matrix (Fin 3) (Fin 3) ℝ) : D1rep (R * S) = D1rep R * D1rep S := by
  unfold D1rep
  rw [cplx_mul]
  calc Usph * (cplx R * cplx S) * Usphᴴ
      = Usph * cplx R * (1 : Matrix (Fin 3) (Fin 3) ℂ) * cplx S * Usphᴴ := by
        simp only [Matrix.mul_one, Matrix.mul_assoc]
    _ = Usph * cplx R * Usphᴴ * (Usph * cplx S * Usphᴴ) := by
        rw [← Usph_unitary]; simp only [Matrix.mul_assoc]

theorem D1rep_unitary (R : Matrix (Fin 3) (Fin 3) ℝ) (hR : IsRot R) : (D1rep R)ᴴ * D1rep R = 1 := by
  unfold D1rep
  rw [Matrix.conjTranspose_mul, Matrix.conjTranspose_mul, Matrix.conjTranspose_conjTranspose,
    cplx_conjTranspose]
  calc Usph * (cplx Rᵀ * Usphᴴ) * (Usph * cplx R * Usphᴴ)
      = Usph * cplx Rᵀ * (Usphᴴ * Usph) * cplx R * Usphᴴ := by simp only [Matrix.mul_assoc]
    _ = 1 := by
        rw [Usph_unitary, Matrix.mul_one, Matrix.mul_assoc Usph, ← cplx_mul, hR.1, cplx_one,
          Matrix.mul_one, Usph_unitary']

theorem cexp_neg_mul_I (x : ℝ) :
    Complex.exp (-(x : ℂ) * Complex.I) = (Real.cos x : ℂ) - (Real.sin x : ℂ) * Complex.I := by
  rw [show -(x : ℂ) * Complex.I = ((-x : ℝ) : ℂ) * Complex.I by push_cast; ring, Complex.exp_mul_I,
    ← Complex.ofReal_cos, ← Complex.ofReal_sin, Real.cos_neg, Real.sin_neg]
  push_cast; ring

theorem cexp_mul_I (x : ℝ) :
    Complex.exp ((x : ℂ) * Complex.I) = (Real.cos x : ℂ) + (Real.sin x : ℂ) * Complex.I := by
  rw [Complex.exp_mul_I, ← Complex.ofReal_cos, ← Complex.ofReal_sin]

/-- `U R U†` written out -/
theorem D1rep_entries (R : Matrix (Fin 3) (Fin 3) ℝ) :
    D1rep R = !![((R 0 0 : ℂ) + R 1 1 + Complex.I * (R 0 1 - R 1 0)) / 2,
                 rh * (-(R 0 2 : ℂ) + Complex.I * R 1 2),
                 (-(R 0 0 : ℂ) + R 1 1 + Complex.I * (R 0 1 + R 1 0)) / 2;
                 rh * (-(R 2 0 : ℂ) - Complex.I * R 2 1), (R 2 2 : ℂ), rh * ((R 2 0 : ℂ) - Complex.I * R 2 1);
                 (-(R 0 0 : ℂ) + R 1 1 - Complex.I * (R 0 1 + R 1 0)) / 2,
                 rh * ((R 0 2 : ℂ) + Complex.I * R 1 2),
                 ((R 0 0 : ℂ) + R 1 1 - Complex.I * (R 0 1 - R 1 0)) / 2] := by
  have h := rh_sq
  have hs := star_rh
  have hI : Complex.I * Complex.I = -1 := Complex.I_mul_I
  have h2 : rh ^ 2 = 1 / 2 := by rw [pow_two, h]
  ext i j
  fin_cases i <;> fin_cases j <;>
    simp [D1rep, cplx, Usph, Matrix.mul_apply, Fin.sum_univ_three, Matrix.conjTranspose_apply, hs,
      Matrix.vecMul, dotProduct] <;>
    ring_nf <;> (try simp only [h2, Complex.I_sq]) <;> (try ring_nf)

/-- weights of the J = 1 basis, ordered m = +1, 0, −1 -/
def wt1 : Fin 3 → ℝ := ![1, 0, -1]

theorem dexp_neg (a : ℝ) : Complex.exp (-((a : ℂ) * Complex.I))
    = Complex.cos a - Complex.sin a * Complex.I := by
  rw [show -((a : ℂ) * Complex.I) = (-(a : ℂ)) * Complex.I by ring, Complex.exp_mul_I,
    Complex.cos_neg, Complex.sin_neg]; ring

theorem D1rep_Rz3 (δ : ℝ) :
    D1rep (Rz3 δ) = Matrix.diagonal fun m => Complex.exp (-(↑(wt1 m * δ) : ℂ) * Complex.I) := by
  rw [D1rep_entries]
  ext i j
  fin_cases i <;> fin_cases j <;>
    simp [Rz3, wt1, dexp_neg, Complex.exp_mul_I] <;>
    ring_nf

/-- J = 1 -/
noncomputable def W1 : WignerRep 3 where
  D := D1rep
  wt := wt1
  mul := fun R S _ _ => D1rep_mul R S
  unitary := D1rep_unitary
  diag := D1rep_Rz3

theorem gexp_neg (a : ℝ) : Complex.exp ((-1 : ℂ) * Complex.I * (a : ℂ))
    = Complex.cos a - Complex.sin a * Complex.I := by
  rw [show (-1 : ℂ) * Complex.I * (a : ℂ) = (-(a : ℂ)) * Complex.I by ring, Complex.exp_mul_I,
    Complex.cos_neg, Complex.sin_neg]; ring

theorem gexp_neg' (a : ℝ) : Complex.exp (-(Complex.I * (a : ℂ)))
    = Complex.cos a - Complex.sin a * Complex.I := by
  rw [← gexp_neg]; congr 1; ring

theorem gexp_pos (a : ℝ) : Complex.exp (Complex.I * (a : ℂ))
    = Complex.cos a + Complex.sin a * Complex.I := by
  rw [mul_comm, Complex.exp_mul_I]

theorem sqrt2_eq : ((Real.sqrt 2 : ℝ) : ℂ) = 2 * rh := by
  unfold rh
  have := sqrt2_sq
  field_simp [sqrt2_ne]
  linear_combination this

/-- Euler rotation `Rz(α) Ry(β) Rz(γ)` -/
noncomputable def euler (α β γ : ℝ) : Matrix (Fin 3) (Fin 3) ℝ := Rz3 α * Ry3 β * Rz3 γ

theorem euler_isRot (α β γ : ℝ) : IsRot (euler α β γ) :=
  ((Rz3_isRot α).mul (Ry3_isRot β)).mul (Rz3_isRot γ)

/-- The regenerated SymPy matrix `Rotation.D(1, m, m', α, β, γ).doit()` IS the J = 1
representation of the Euler rotation `Rz(α) Ry(β) Rz(γ)`. -/
theorem sympy_D1_eq (α β γ : ℝ) : D1 α β γ = W1.D (euler α β γ) := by
  show D1 α β γ = D1rep (euler α β γ)
  rw [D1rep_entries]
  ext i j
  fin_cases i <;> fin_cases j <;>
    simp [D1, D1_p_p, D1_p_z, D1_p_m, D1_z_p, D1_z_z, D1_z_m, D1_m_p, D1_m_z, D1_m_m, euler, Rz3, Ry3,
      Matrix.mul_apply, Fin.sum_univ_three, gexp_neg', gexp_pos, sqrt2_eq] <;>
    ring_nf <;> (try simp only [Complex.I_sq]) <;> (try ring_nf)

end Ampverif.Lemmas.C04
