/-
C03 — Racah's closed formula (`Lemmas/C03CG.lean: racah`, the object of the all-spin mirror
theorem) IS the Clebsch–Gordan coefficient SymPy computes: an exact, executable rational twin.

`racah = √A · √B · S` with `A, B ∈ ℚ≥0` and `S ∈ ℚ`. Here the three rational numbers are
computable definitions (`Aq`, `Bq`, `Sq` over `ℚ`, the sum as a `List.range` fold), it is proved
that `racah = sign(S) · √(A·B·S²)` for ALL arguments (`racah_eq_exact`), and a decidable per-key
comparison with a table value `sign · √(num/den)` is lifted to the real-valued equality
(`racah_eq_val`). `Lemmas/C03RacahBlocks.lean` evaluates that comparison in the kernel on EVERY
valid key of every block of the regenerated SymPy table (`decide +kernel`).
-/
import Ampverif.Lemmas.C03CG
import Mathlib.Tactic.Positivity
import Mathlib.Tactic.FieldSimp
import Mathlib.Data.Rat.Cast.Order
import Mathlib.Algebra.Order.BigOperators.Ring.Finset

namespace Ampverif.Lemmas.C03CG
open Ampverif.Model.C03CG Finset

/-- `1/(x/2)!` for an even non-negative doubled argument, else 0 (rational twin of `iF`) -/
def iFq (x : Int) : ℚ := if x < 0 ∨ x % 2 ≠ 0 then 0 else 1 / ((x / 2).toNat.factorial : ℚ)

/-- `(x/2)!` for an even non-negative doubled argument, else 0 (rational twin of `fH`) -/
def fHq (x : Int) : ℚ := if x < 0 ∨ x % 2 ≠ 0 then 0 else ((x / 2).toNat.factorial : ℚ)

def Tq (a b c m1 m2 : Int) (k : ℕ) : ℚ :=
  (-1) ^ k * iFq (2 * k) * iFq (a + b - c - 2 * k) * iFq (a - m1 - 2 * k) * iFq (b + m2 - 2 * k)
    * iFq (c - b + m1 + 2 * k) * iFq (c - a - m2 + 2 * k)

/-- the sum of Racah's formula as a list fold (executable) -/
def Sq (j1 : Nat) (m1 : Int) (j2 : Nat) (m2 : Int) (J : Nat) : ℚ :=
  ((List.range (j1 + j2 + 1)).map (Tq j1 j2 J m1 m2)).sum

def Aq (j1 j2 J : Nat) : ℚ :=
  (((J : Int) : ℚ) + 1) * fHq ((J : Int) + j1 - j2) * fHq ((J : Int) - j1 + j2) * fHq ((j1 : Int) + j2 - J)
    * iFq ((j1 : Int) + j2 + J + 2)

def Bq (j1 : Nat) (m1 : Int) (j2 : Nat) (m2 : Int) (J : Nat) (M : Int) : ℚ :=
  fHq ((J : Int) + M) * fHq ((J : Int) - M) * fHq ((j1 : Int) - m1) * fHq ((j1 : Int) + m1)
    * fHq ((j2 : Int) - m2) * fHq ((j2 : Int) + m2)

/-- exact value of Racah's formula as `sign · √sq` -/
def racahSq (j1 : Nat) (m1 : Int) (j2 : Nat) (m2 : Int) (J : Nat) (M : Int) : ℚ :=
  if M ≠ m1 + m2 then 0 else Aq j1 j2 J * Bq j1 m1 j2 m2 J M * Sq j1 m1 j2 m2 J ^ 2

def racahSign (j1 : Nat) (m1 : Int) (j2 : Nat) (m2 : Int) (J : Nat) (M : Int) : Int :=
  if M ≠ m1 + m2 then 0 else
    if 0 < Sq j1 m1 j2 m2 J then 1 else if Sq j1 m1 j2 m2 J < 0 then -1 else 0

/-! ### casts -/

theorem iFq_cast (x : Int) : ((iFq x : ℚ) : ℝ) = iF x := by
  unfold iFq iF; split_ifs <;> simp

theorem fHq_cast (x : Int) : ((fHq x : ℚ) : ℝ) = fH x := by
  unfold fHq fH; split_ifs <;> simp

theorem Tq_cast (a b c m1 m2 : Int) (k : ℕ) : ((Tq a b c m1 m2 k : ℚ) : ℝ) = T a b c m1 m2 k := by
  unfold Tq T; push_cast; simp only [iFq_cast]

theorem list_sum_range (f : ℕ → ℝ) (n : ℕ) : ((List.range n).map f).sum = ∑ k ∈ range n, f k := by
  induction n with
  | zero => simp
  | succ n ih => rw [List.range_succ, List.map_append, List.sum_append, ih, Finset.sum_range_succ]; simp

theorem Sq_cast (j1 : Nat) (m1 : Int) (j2 : Nat) (m2 : Int) (J : Nat) :
    ((Sq j1 m1 j2 m2 J : ℚ) : ℝ) = ∑ k ∈ range (j1 + j2 + 1), T j1 j2 J m1 m2 k := by
  unfold Sq
  rw [← list_sum_range]
  induction List.range (j1 + j2 + 1) with
  | nil => simp
  | cons x xs ih => simp only [List.map_cons, List.sum_cons]; push_cast; rw [ih, Tq_cast]

theorem fH_nonneg (x : Int) : 0 ≤ fH x := by unfold fH; split_ifs <;> positivity
theorem iF_nonneg (x : Int) : 0 ≤ iF x := by unfold iF; split_ifs <;> positivity

theorem Aq_cast (j1 j2 J : Nat) :
    ((Aq j1 j2 J : ℚ) : ℝ) = (((J : Int) : ℝ) + 1) * fH ((J : Int) + j1 - j2) * fH ((J : Int) - j1 + j2)
      * fH ((j1 : Int) + j2 - J) * iF ((j1 : Int) + j2 + J + 2) := by
  unfold Aq; push_cast; simp only [iFq_cast, fHq_cast]

theorem Bq_cast (j1 : Nat) (m1 : Int) (j2 : Nat) (m2 : Int) (J : Nat) (M : Int) :
    ((Bq j1 m1 j2 m2 J M : ℚ) : ℝ) = racahB j1 j2 J m1 m2 M := by
  unfold Bq racahB; push_cast; simp only [fHq_cast]

theorem sqrt_mul_sign (a b s : ℝ) (ha : 0 ≤ a) (hb : 0 ≤ b) :
    Real.sqrt a * Real.sqrt b * s
      = (if 0 < s then (1 : ℝ) else if s < 0 then -1 else 0) * Real.sqrt (a * b * s ^ 2) := by
  rw [Real.sqrt_mul (mul_nonneg ha hb), Real.sqrt_sq_eq_abs, Real.sqrt_mul ha]
  rcases lt_trichotomy s 0 with h | h | h
  · rw [if_neg (not_lt.mpr h.le), if_pos h, abs_of_neg h]; ring
  · subst h; simp
  · rw [if_pos h, abs_of_pos h]; ring

/-- **Racah's formula, exactly**: `racah = sign · √sq` with the executable rational `sign`, `sq`
(ALL arguments). -/
theorem racah_eq_exact (j1 : Nat) (m1 : Int) (j2 : Nat) (m2 : Int) (J : Nat) (M : Int) :
    racah j1 m1 j2 m2 J M
      = ((racahSign j1 m1 j2 m2 J M : Int) : ℝ) * Real.sqrt ((racahSq j1 m1 j2 m2 J M : ℚ) : ℝ) := by
  unfold racah racahSign racahSq
  by_cases hM : M ≠ m1 + m2
  · simp [hM]
  · rw [if_neg hM, if_neg hM, if_neg hM]
    have hJ : (0 : ℝ) ≤ ((J : Int) : ℝ) + 1 := by
      have : (0 : ℝ) ≤ ((J : Int) : ℝ) := by exact_mod_cast Int.natCast_nonneg J
      linarith
    have hA : (0 : ℝ) ≤ (((J : Int) : ℝ) + 1) * fH ((J : Int) + j1 - j2) * fH ((J : Int) - j1 + j2)
        * fH ((j1 : Int) + j2 - J) * iF ((j1 : Int) + j2 + J + 2) := by
      have := fH_nonneg ((J : Int) + j1 - j2)
      have := fH_nonneg ((J : Int) - j1 + j2)
      have := fH_nonneg ((j1 : Int) + j2 - J)
      have := iF_nonneg ((j1 : Int) + j2 + J + 2)
      positivity
    have hB : (0 : ℝ) ≤ racahB j1 j2 J m1 m2 M := by
      unfold racahB
      have := fH_nonneg ((J : Int) + M)
      have := fH_nonneg ((J : Int) - M)
      have := fH_nonneg ((j1 : Int) - m1)
      have := fH_nonneg ((j1 : Int) + m1)
      have := fH_nonneg ((j2 : Int) - m2)
      have := fH_nonneg ((j2 : Int) + m2)
      positivity
    rw [sqrt_mul_sign _ _ _ hA hB]
    have hS := Sq_cast j1 m1 j2 m2 J
    push_cast
    rw [Aq_cast, Bq_cast, hS]
    congr 1
    -- the sign
    have h1 : (0 < Sq j1 m1 j2 m2 J) ↔ (0 : ℝ) < ∑ k ∈ range (j1 + j2 + 1), T j1 j2 J m1 m2 k := by
      rw [← hS]; exact_mod_cast Iff.rfl
    have h2 : (Sq j1 m1 j2 m2 J < 0) ↔ (∑ k ∈ range (j1 + j2 + 1), T j1 j2 J m1 m2 k) < (0 : ℝ) := by
      rw [← hS]; exact_mod_cast Iff.rfl
    by_cases p : 0 < Sq j1 m1 j2 m2 J
    · rw [if_pos p, if_pos (h1.mp p)]
    · rw [if_neg p, if_neg (fun h => p (h1.mpr h))]
      by_cases q : Sq j1 m1 j2 m2 J < 0
      · rw [if_pos q, if_pos (h2.mp q)]
      · rw [if_neg q, if_neg (fun h => q (h2.mpr h))]

/-- decidable comparison of Racah's value with a table value `sign · √(num/den)` -/
def racahMatches (k : Key) (v : Val) : Bool :=
  decide (racahSign k.j1 k.m1 k.j2 k.m2 k.J k.M = v.sign)
    && decide (racahSq k.j1 k.m1 k.j2 k.m2 k.J k.M = (v.num : ℚ) / (v.den : ℚ))

theorem racah_eq_val (k : Key) (v : Val) (h : racahMatches k v = true) :
    racah k.j1 k.m1 k.j2 k.m2 k.J k.M = v.toReal := by
  simp only [racahMatches, Bool.and_eq_true, decide_eq_true_eq] at h
  rw [racah_eq_exact, h.1, h.2, Val.toReal]
  push_cast
  rfl

/-- all keys of a block with admissible quantum numbers: `m_i ∈ {−j_i, −j_i+2, …, j_i}`,
`J ∈ {|j₁−j₂|, …, j₁+j₂}` in steps of 2, `M = m₁+m₂` -/
def validKeys (j1 j2 : Nat) : List Key :=
  (List.range (j1 + 1)).flatMap fun (a : Nat) =>
    (List.range (j2 + 1)).flatMap fun (b : Nat) =>
      (List.range (min j1 j2 + 1)).map fun (c : Nat) =>
        let m1 : Int := 2 * (a : Int) - j1
        let m2 : Int := 2 * (b : Int) - j2
        ⟨j1, m1, j2, m2, (max j1 j2 - min j1 j2) + 2 * c, m1 + m2⟩

/-- the block check: on every admissible key the table value (0 when the key is absent) is Racah's value -/
def blockIsRacah (t : Table) (j1 j2 : Nat) : Bool :=
  (validKeys j1 j2).all fun k => racahMatches k (t.get k)

end Ampverif.Lemmas.C03CG
