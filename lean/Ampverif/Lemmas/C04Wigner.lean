/-
C04/C05, layer (K), part 6 — the Wigner rotation of the axis-angle alignment.

`kinematics/angles.py: compute_wigner_rotation_matrix(topology, momenta, i)` returns
`MatrixMultiplication(BoostMatrix(NegativeMomentum(p_i)), *compute_boost_chain(topology, momenta, i))`
and `kinematics/lorentz.py: compute_boost_chain` builds the chain
`B₁ = B(q₁)`, `B₂ = B(B₁ q₂)`, `B₃ = B(B₂ B₁ q₃)`, … for the momenta `q₁, …, q_n = p_i` of the states
from the first resonance down to the final state `i` (every momentum of the pool is boosted after
each step).  Here the chain is modelled on the REGENERATED explicit boost matrices
(`Gen.C08.boostEx`, `Gen.C08.boostNegEx`) and it is proved, for every chain length:

* `lorentz_fix_e0`: a proper Lorentz matrix that fixes the time axis is `1 ⊕ R` with `R` a
  proper rotation;
* `wigner_is_rotation`: the Wigner matrix `W = B(−p) · B₁ ⋯ B_n` is `1 ⊕ R`, `R` a proper
  rotation, whenever every momentum met by the chain is time-like with non-zero three-momentum
  (the guards of the C08 boost theorems; `Admissible`).
-/
import Ampverif.Props.C08
import Ampverif.Lemmas.C04Euler

set_option linter.unusedVariables false
set_option linter.unusedSimpArgs false

namespace Ampverif.Lemmas.C04
open Matrix Ampverif.Gen.C08 Ampverif.Lemmas.C08 Ampverif.Props.C08

abbrev M4 := Matrix (Fin 4) (Fin 4) ℝ

def e0 : Fin 4 → ℝ := ![1, 0, 0, 0]

/-- spatial 3×3 block -/
def spat (L : M4) : Matrix (Fin 3) (Fin 3) ℝ :=
  !![L 1 1, L 1 2, L 1 3; L 2 1, L 2 2, L 2 3; L 3 1, L 3 2, L 3 3]

def IsLorentz (L : M4) : Prop := Lᵀ * eta * L = eta

theorem IsLorentz.mul {A B : M4} (hA : IsLorentz A) (hB : IsLorentz B) : IsLorentz (A * B) := by
  unfold IsLorentz at *
  rw [Matrix.transpose_mul]
  calc Bᵀ * Aᵀ * eta * (A * B) = Bᵀ * (Aᵀ * eta * A) * B := by simp only [Matrix.mul_assoc]
    _ = eta := by rw [hA, hB]

theorem eta_mul_eta : eta * eta = (1 : M4) := by
  ext i j
  fin_cases i <;> fin_cases j <;> simp [eta, Matrix.mul_apply, Fin.sum_univ_four]

/-- the transpose of a Lorentz matrix is a Lorentz matrix -/
theorem IsLorentz.transpose {A : M4} (hA : IsLorentz A) : IsLorentz Aᵀ := by
  unfold IsLorentz at *
  rw [Matrix.transpose_transpose]
  -- (η Aᵀ η) A = 1  ⇒  A (η Aᵀ η) = 1  ⇒  A η Aᵀ = η
  have h1 : (eta * Aᵀ * eta) * A = 1 := by
    rw [Matrix.mul_assoc, Matrix.mul_assoc, ← Matrix.mul_assoc Aᵀ, hA, eta_mul_eta]
  have h2 : A * (eta * Aᵀ * eta) = 1 := mul_eq_one_comm.mp h1
  calc A * eta * Aᵀ = (A * (eta * Aᵀ * eta)) * eta := by
        simp only [Matrix.mul_assoc]; rw [eta_mul_eta, Matrix.mul_one]
    _ = eta := by rw [h2, Matrix.one_mul]

theorem det_emb (R : Matrix (Fin 3) (Fin 3) ℝ) : (emb R).det = R.det := by
  rw [det4, Matrix.det_fin_three]
  simp [emb]

/-- **A proper Lorentz matrix fixing the time axis is a rotation** `1 ⊕ R`. -/
theorem lorentz_fix_e0 (L : M4) (hL : IsLorentz L) (hdet : L.det = 1) (h0 : L *ᵥ e0 = e0) :
    IsRot (spat L) ∧ L = emb (spat L) := by
  -- first column
  have c0 : L 0 0 = 1 := by
    have := congrFun h0 0; simpa [e0, Matrix.mulVec, dotProduct, Fin.sum_univ_four] using this
  have c1 : L 1 0 = 0 := by
    have := congrFun h0 1; simpa [e0, Matrix.mulVec, dotProduct, Fin.sum_univ_four] using this
  have c2 : L 2 0 = 0 := by
    have := congrFun h0 2; simpa [e0, Matrix.mulVec, dotProduct, Fin.sum_univ_four] using this
  have c3 : L 3 0 = 0 := by
    have := congrFun h0 3; simpa [e0, Matrix.mulVec, dotProduct, Fin.sum_univ_four] using this
  -- entries of Lᵀ η L = η
  have ent : ∀ i j : Fin 4, L 0 i * L 0 j - L 1 i * L 1 j - L 2 i * L 2 j - L 3 i * L 3 j = eta i j := by
    intro i j
    have := congrFun (congrFun hL i) j
    rw [← this]
    simp [eta, Matrix.mul_apply, Fin.sum_univ_four]
    ring
  -- first row
  have r1 : L 0 1 = 0 := by have := ent 0 1; simp [eta, c0, c1, c2, c3] at this; linarith
  have r2 : L 0 2 = 0 := by have := ent 0 2; simp [eta, c0, c1, c2, c3] at this; linarith
  have r3 : L 0 3 = 0 := by have := ent 0 3; simp [eta, c0, c1, c2, c3] at this; linarith
  have hemb : L = emb (spat L) := by
    ext i j
    fin_cases i <;> fin_cases j <;> simp [emb, spat, c0, c1, c2, c3, r1, r2, r3]
  refine ⟨⟨?_, ?_⟩, hemb⟩
  · ext i j
    fin_cases i <;> fin_cases j <;>
      simp [spat, Matrix.mul_apply, Fin.sum_univ_three]
    · have := ent 1 1; simp [eta, r1] at this; linarith
    · have := ent 1 2; simp [eta, r1, r2] at this; linarith
    · have := ent 1 3; simp [eta, r1, r3] at this; linarith
    · have := ent 2 1; simp [eta, r1, r2] at this; linarith
    · have := ent 2 2; simp [eta, r2] at this; linarith
    · have := ent 2 3; simp [eta, r2, r3] at this; linarith
    · have := ent 3 1; simp [eta, r1, r3] at this; linarith
    · have := ent 3 2; simp [eta, r2, r3] at this; linarith
    · have := ent 3 3; simp [eta, r3] at this; linarith
  · rw [← det_emb, ← hemb]; exact hdet

/-! ### the boost chain on the regenerated matrices -/

/-- `BoostMatrix(p).as_explicit()` of a four-vector -/
noncomputable def boostOf (p : Fin 4 → ℝ) : M4 := boostEx (p 0) (p 1) (p 2) (p 3)

/-- `BoostMatrix(NegativeMomentum(p)).as_explicit()` of a four-vector -/
noncomputable def boostNegOf (p : Fin 4 → ℝ) : M4 := boostNegEx (p 0) (p 1) (p 2) (p 3)

/-- the guards of the C08 boost theorems: positive energy, non-zero three-momentum, time-like -/
def Timelike (p : Fin 4 → ℝ) : Prop :=
  0 < p 0 ∧ 0 < p 1 ^ 2 + p 2 ^ 2 + p 3 ^ 2 ∧ p 1 ^ 2 + p 2 ^ 2 + p 3 ^ 2 < p 0 ^ 2

/-- `compute_boost_chain`: `acc` is the product `B_k ⋯ B₁` applied so far to the whole pool;
returns the list of boosts in the order of the source (`[B_{k+1}, …, B_n]`). -/
noncomputable def boostChainFrom (acc : M4) : List (Fin 4 → ℝ) → List M4
  | [] => []
  | q :: rest =>
    let B := boostOf (acc *ᵥ q)
    B :: boostChainFrom (B * acc) rest

/-- every momentum the chain boosts with satisfies the guards -/
def AdmissibleFrom (acc : M4) : List (Fin 4 → ℝ) → Prop
  | [] => True
  | q :: rest => Timelike (acc *ᵥ q) ∧ AdmissibleFrom (boostOf (acc *ᵥ q) * acc) rest

/-- total transformation `B_n ⋯ B₁ · acc` after the chain -/
noncomputable def totalFrom (acc : M4) : List (Fin 4 → ℝ) → M4
  | [] => acc
  | q :: rest => totalFrom (boostOf (acc *ᵥ q) * acc) rest

/-- `compute_boost_chain(topology, momenta, i)` for the chain momenta `qs` (last one = `p_i`) -/
noncomputable def boostChain (qs : List (Fin 4 → ℝ)) : List M4 := boostChainFrom 1 qs

/-- `compute_wigner_rotation_matrix`: `MatrixMultiplication(B(−p), B₁, …, B_n)` -/
noncomputable def wignerMatrix (p : Fin 4 → ℝ) (qs : List (Fin 4 → ℝ)) : M4 :=
  (boostChain qs).foldl (· * ·) (boostNegOf p)

theorem metricEx_eq_eta : metricEx = eta := metric_eq

theorem boostOf_lorentz {p : Fin 4 → ℝ} (h : Timelike p) : IsLorentz (boostOf p) := by
  have := boost_lorentz (p 0) (p 1) (p 2) (p 3) h.1 h.2.1 h.2.2
  rwa [metricEx_eq_eta] at this

theorem boostOf_det {p : Fin 4 → ℝ} (h : Timelike p) : (boostOf p).det = 1 :=
  boost_det (p 0) (p 1) (p 2) (p 3) h.1 h.2.1 h.2.2

theorem absBoost_symm (g bx by' bz u : ℝ) : (absBoost g bx by' bz u)ᵀ = absBoost g bx by' bz u := by
  ext i j
  fin_cases i <;> fin_cases j <;> simp [absBoost] <;> ring

/-- the explicit boost matrix is symmetric -/
theorem boostOf_symm {p : Fin 4 → ℝ} (h : Timelike p) : (boostOf p)ᵀ = boostOf p := by
  unfold boostOf
  rw [boostEx_abs (p 0) (p 1) (p 2) (p 3) h.1 h.2.1 h.2.2, absBoost_symm]

theorem vec4_eta (p : Fin 4 → ℝ) : p = ![p 0, p 1, p 2, p 3] := by
  ext i; fin_cases i <;> rfl

/-- boosting `p` with its own boost gives `m · e₀`, `m > 0` -/
theorem boostOf_self {p : Fin 4 → ℝ} (h : Timelike p) :
    ∃ m : ℝ, 0 < m ∧ boostOf p *ᵥ p = m • e0 := by
  refine ⟨mass (p 0) (p 1) (p 2) (p 3), Real.sqrt_pos.mpr (by linarith [h.2.2]), ?_⟩
  have := boost_self (p 0) (p 1) (p 2) (p 3) h.1 h.2.1 h.2.2
  have hp4 : p = ![p 0, p 1, p 2, p 3] := vec4_eta p
  calc boostOf p *ᵥ p = boostEx (p 0) (p 1) (p 2) (p 3) *ᵥ ![p 0, p 1, p 2, p 3] :=
        congrArg (fun v => boostEx (p 0) (p 1) (p 2) (p 3) *ᵥ v) hp4
    _ = ![mass (p 0) (p 1) (p 2) (p 3), 0, 0, 0] := this
    _ = mass (p 0) (p 1) (p 2) (p 3) • e0 := by
        ext i; fin_cases i <;> simp [e0]

theorem boostNegOf_inverse {p : Fin 4 → ℝ} (h : Timelike p) : boostNegOf p * boostOf p = 1 :=
  boost_neg_inverse (p 0) (p 1) (p 2) (p 3) h.1 h.2.1 h.2.2

theorem neg_timelike {p : Fin 4 → ℝ} (h : Timelike p) : Timelike ![p 0, -p 1, -p 2, -p 3] := by
  obtain ⟨h1, h2, h3⟩ := h
  refine ⟨by simpa using h1, by simpa using h2, by simpa using h3⟩

theorem boostNegOf_eq (p : Fin 4 → ℝ) : boostNegOf p = boostOf ![p 0, -p 1, -p 2, -p 3] := by
  unfold boostNegOf boostOf
  rw [boostNeg_eq]; rfl

theorem boostNegOf_lorentz {p : Fin 4 → ℝ} (h : Timelike p) : IsLorentz (boostNegOf p) := by
  rw [boostNegOf_eq]; exact boostOf_lorentz (neg_timelike h)

theorem boostNegOf_det {p : Fin 4 → ℝ} (h : Timelike p) : (boostNegOf p).det = 1 := by
  rw [boostNegOf_eq]; exact boostOf_det (neg_timelike h)

theorem boostNegOf_symm {p : Fin 4 → ℝ} (h : Timelike p) : (boostNegOf p)ᵀ = boostNegOf p := by
  rw [boostNegOf_eq]; exact boostOf_symm (neg_timelike h)

/-- the inverse boost takes `m·e₀` back to `p` -/
theorem boostNegOf_e0 {p : Fin 4 → ℝ} (h : Timelike p) :
    ∃ m : ℝ, 0 < m ∧ boostNegOf p *ᵥ e0 = m⁻¹ • p := by
  obtain ⟨m, hm, hs⟩ := boostOf_self h
  refine ⟨m, hm, ?_⟩
  have : boostNegOf p *ᵥ (boostOf p *ᵥ p) = p := by
    rw [Matrix.mulVec_mulVec, boostNegOf_inverse h, Matrix.one_mulVec]
  rw [hs, Matrix.mulVec_smul] at this
  have hp' : p = m • (boostNegOf p *ᵥ e0) := this.symm
  conv_rhs => rw [hp']
  rw [smul_smul, inv_mul_cancel₀ hm.ne', one_smul]

/-! ### structure of the chain -/

/-- `B_n ⋯ B_{k+1}` (the chain in REVERSED order) -/
noncomputable def prodRev (acc : M4) : List (Fin 4 → ℝ) → M4
  | [] => 1
  | q :: rest => prodRev (boostOf (acc *ᵥ q) * acc) rest * boostOf (acc *ᵥ q)

/-- an admissible chain multiplied onto a proper Lorentz matrix `A` stays proper Lorentz, and
its transpose is the reversed chain times `Aᵀ` (every boost matrix is symmetric) -/
theorem chain_props (acc : M4) (qs : List (Fin 4 → ℝ)) (hadm : AdmissibleFrom acc qs) :
    ∀ A : M4, IsLorentz A → A.det = 1 →
      IsLorentz ((boostChainFrom acc qs).foldl (· * ·) A)
      ∧ ((boostChainFrom acc qs).foldl (· * ·) A).det = 1
      ∧ ((boostChainFrom acc qs).foldl (· * ·) A)ᵀ = prodRev acc qs * Aᵀ := by
  induction qs generalizing acc with
  | nil =>
    intro A hA hd
    simp [boostChainFrom, prodRev]
    exact ⟨hA, hd⟩
  | cons q rest ih =>
    intro A hA hd
    obtain ⟨hq, hrest⟩ := hadm
    have hBL := boostOf_lorentz hq
    have hBd := boostOf_det hq
    have hBs := boostOf_symm hq
    simp only [boostChainFrom, List.foldl_cons, prodRev]
    obtain ⟨h1, h2, h3⟩ := ih (boostOf (acc *ᵥ q) * acc) hrest (A * boostOf (acc *ᵥ q))
      (hA.mul hBL) (by rw [Matrix.det_mul, hd, hBd, one_mul])
    refine ⟨h1, h2, ?_⟩
    rw [h3, Matrix.transpose_mul, hBs, Matrix.mul_assoc]

/-- the reversed chain takes the LAST momentum of the chain to `m'·e₀` -/
theorem prodRev_last (acc : M4) (qs : List (Fin 4 → ℝ)) (p : Fin 4 → ℝ)
    (hadm : AdmissibleFrom acc qs) (hlast : qs.getLast? = some p) :
    ∃ m : ℝ, 0 < m ∧ (prodRev acc qs * acc) *ᵥ p = m • e0 := by
  induction qs generalizing acc with
  | nil => simp at hlast
  | cons q rest ih =>
    obtain ⟨hq, hrest⟩ := hadm
    cases rest with
    | nil =>
      have hqp : q = p := by simpa using hlast
      subst hqp
      obtain ⟨m, hm, hs⟩ := boostOf_self hq
      refine ⟨m, hm, ?_⟩
      simp only [prodRev, Matrix.one_mul]
      rw [← Matrix.mulVec_mulVec, hs]
    | cons q2 rest2 =>
      have hl : (q2 :: rest2).getLast? = some p := by
        simpa [List.getLast?_cons_cons] using hlast
      obtain ⟨m, hm, hs⟩ := ih (boostOf (acc *ᵥ q) * acc) hrest hl
      refine ⟨m, hm, ?_⟩
      simp only [prodRev] at hs ⊢
      rw [Matrix.mul_assoc]
      exact hs

theorem emb_transpose (R : Matrix (Fin 3) (Fin 3) ℝ) : (emb R)ᵀ = emb Rᵀ := by
  ext i j
  fin_cases i <;> fin_cases j <;> simp [emb]

/-- **The Wigner matrix of `compute_wigner_rotation_matrix` is a pure rotation.**
For every chain length: if `p` and every momentum met by the boost chain is time-like with
non-zero three-momentum and the chain ends at `p`, then `W = 1 ⊕ Rᵀ` for a proper rotation `R`
(namely `R = spat Wᵀ`). -/
theorem wigner_is_rotation (p : Fin 4 → ℝ) (qs : List (Fin 4 → ℝ)) (hp : Timelike p)
    (hadm : AdmissibleFrom 1 qs) (hlast : qs.getLast? = some p) :
    IsRot (spat (wignerMatrix p qs)ᵀ) ∧ wignerMatrix p qs = emb (spat (wignerMatrix p qs)ᵀ)ᵀ := by
  obtain ⟨hWL, hWd, hWT⟩ := chain_props 1 qs hadm (boostNegOf p) (boostNegOf_lorentz hp)
    (boostNegOf_det hp)
  change IsLorentz (wignerMatrix p qs) at hWL
  change (wignerMatrix p qs).det = 1 at hWd
  change (wignerMatrix p qs)ᵀ = _ at hWT
  set W := wignerMatrix p qs with hW
  -- Wᵀ e₀ = c e₀ with c > 0
  obtain ⟨m, hm, hneg⟩ := boostNegOf_e0 hp
  obtain ⟨m', hm', hlastv⟩ := prodRev_last 1 qs p hadm hlast
  have hcol : Wᵀ *ᵥ e0 = (m⁻¹ * m') • e0 := by
    rw [hWT, boostNegOf_symm hp, ← Matrix.mulVec_mulVec, hneg, Matrix.mulVec_smul]
    rw [Matrix.mul_one] at hlastv
    rw [hlastv, smul_smul]
  have hc : 0 < m⁻¹ * m' := mul_pos (inv_pos.mpr hm) hm'
  have hWTL : IsLorentz Wᵀ := hWL.transpose
  -- c² = 1 from the (0,0) entry of the Lorentz condition
  have k0 : Wᵀ 0 0 = m⁻¹ * m' := by
    have := congrFun hcol 0; simpa [e0, Matrix.mulVec, dotProduct, Fin.sum_univ_four] using this
  have k1 : Wᵀ 1 0 = 0 := by
    have := congrFun hcol 1; simpa [e0, Matrix.mulVec, dotProduct, Fin.sum_univ_four] using this
  have k2 : Wᵀ 2 0 = 0 := by
    have := congrFun hcol 2; simpa [e0, Matrix.mulVec, dotProduct, Fin.sum_univ_four] using this
  have k3 : Wᵀ 3 0 = 0 := by
    have := congrFun hcol 3; simpa [e0, Matrix.mulVec, dotProduct, Fin.sum_univ_four] using this
  have h00 := congrFun (congrFun hWTL 0) 0
  simp [eta, Matrix.mul_apply, Fin.sum_univ_four] at h00
  have hc1 : m⁻¹ * m' = 1 := by
    have e1 : W 0 0 = m⁻¹ * m' := by simpa using k0
    have e2 : W 0 1 = 0 := by simpa using k1
    have e3 : W 0 2 = 0 := by simpa using k2
    have e4 : W 0 3 = 0 := by simpa using k3
    rw [e1, e2, e3, e4] at h00
    nlinarith
  have hfix : Wᵀ *ᵥ e0 = e0 := by rw [hcol, hc1, one_smul]
  have hdetT : Wᵀ.det = 1 := by rw [Matrix.det_transpose]; exact hWd
  obtain ⟨hrot, hemb⟩ := lorentz_fix_e0 Wᵀ hWTL hdetT hfix
  refine ⟨hrot, ?_⟩
  have := congrArg Matrix.transpose hemb
  rw [Matrix.transpose_transpose, emb_transpose] at this
  exact this

end Ampverif.Lemmas.C04
