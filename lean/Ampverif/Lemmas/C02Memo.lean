/-
C02 — when is memoising node factors by `TwoBodyDecay` harmless?  Exactly when equal keys have equal
factors on the graphs at hand (`keyDeterminesFactor`); helper lemmas for `Props/C02.lean`.
-/
import Ampverif.Model.C02Memo

namespace Ampverif.Lemmas.C02Memo
open Ampverif.Model.C03 Ampverif.Model.C02

/-- every cache entry is the factor of some node of some graph of `gs`. -/
def CacheOK (cfg : Config) (sel : List DecayKey) (gs : List Transition) (c : NodeCache) : Prop :=
  ∀ k f, (k, f) ∈ c → ∃ g' ∈ gs, ∃ n' ∈ g'.nodes, k = g'.decayKey n' ∧ f = g'.nodeFactor cfg sel n'

theorem lookup_some {c : NodeCache} {k : DecayKey} {f : NodeFactor} (h : c.lookup k = some f) :
    (k, f) ∈ c := by
  unfold NodeCache.lookup at h
  split at h
  · rename_i p hp
    have hmem := List.mem_of_find?_eq_some hp
    have hk := List.find?_some hp
    simp only [decide_eq_true_eq] at hk
    cases h
    rcases p with ⟨k', f'⟩
    simp only at hk
    subst hk
    exact hmem
  · cases h

theorem key_factor {cfg : Config} {sel : List DecayKey} {gs : List Transition}
    (h : keyDeterminesFactor cfg sel gs = true) {g g' : Transition} (hg : g ∈ gs) (hg' : g' ∈ gs)
    {n n' : Nat} (hn : n ∈ g.nodes) (hn' : n' ∈ g'.nodes) (hk : g.decayKey n = g'.decayKey n') :
    g.nodeFactor cfg sel n = g'.nodeFactor cfg sel n' := by
  unfold keyDeterminesFactor at h
  have h1 := List.all_eq_true.mp h g hg
  have h2 := List.all_eq_true.mp h1 n hn
  have h3 := List.all_eq_true.mp h2 g' hg'
  have h4 := List.all_eq_true.mp h3 n' hn'
  simp only [Bool.or_eq_true, Bool.not_eq_true', decide_eq_false_iff_not, decide_eq_true_eq] at h4
  rcases h4 with h4 | h4
  · exact absurd hk h4
  · exact h4

theorem nodes_memo {cfg : Config} {sel : List DecayKey} {gs : List Transition}
    (h : keyDeterminesFactor cfg sel gs = true) {g : Transition} (hg : g ∈ gs) :
    ∀ (ns : List Nat) (c : NodeCache), (∀ n ∈ ns, n ∈ g.nodes) → CacheOK cfg sel gs c →
      (g.nodeFactorsMemo cfg sel ns c).1 = ns.map (g.nodeFactor cfg sel)
      ∧ CacheOK cfg sel gs (g.nodeFactorsMemo cfg sel ns c).2 := by
  intro ns
  induction ns with
  | nil => intro c _ hc; exact ⟨rfl, hc⟩
  | cons n ns ih =>
    intro c hsub hc
    have hn : n ∈ g.nodes := hsub n (List.mem_cons_self ..)
    have hsub' : ∀ x ∈ ns, x ∈ g.nodes := fun x hx => hsub x (List.mem_cons_of_mem _ hx)
    unfold Transition.nodeFactorsMemo
    split
    · rename_i f hf
      obtain ⟨g', hg', n', hn', hk, hfe⟩ := hc _ _ (lookup_some hf)
      have := key_factor h hg hg' hn hn' hk
      obtain ⟨ih1, ih2⟩ := ih c hsub' hc
      refine ⟨?_, ih2⟩
      simp only [List.map_cons, ih1, this, hfe]
    · have hc' : CacheOK cfg sel gs (c ++ [(g.decayKey n, g.nodeFactor cfg sel n)]) := by
        intro k f hm
        rcases List.mem_append.mp hm with hm | hm
        · exact hc k f hm
        · simp only [List.mem_singleton, Prod.mk.injEq] at hm
          exact ⟨g, hg, n, hn, hm.1, hm.2⟩
      obtain ⟨ih1, ih2⟩ := ih _ hsub' hc'
      refine ⟨?_, ih2⟩
      simp only [List.map_cons, ih1]

theorem terms_memo {v : Variant} {cfg : Config} {m : Mapping} {sel : List DecayKey} {gs : List Transition}
    (h : keyDeterminesFactor cfg sel gs = true) :
    ∀ (gs' : List Transition) (c : NodeCache), (∀ g ∈ gs', g ∈ gs) → CacheOK cfg sel gs c →
      termsMemo v cfg m sel gs' c = termsOwn v cfg m sel gs' := by
  intro gs'
  induction gs' with
  | nil => intro c _ _; rfl
  | cons g rest ih =>
    intro c hsub hc
    have hg : g ∈ gs := hsub g (List.mem_cons_self ..)
    obtain ⟨h1, h2⟩ := nodes_memo h hg g.nodes c (fun _ hn => hn) hc
    have ih' := ih (g.nodeFactorsMemo cfg sel g.nodes c).2 (fun x hx => hsub x (List.mem_cons_of_mem _ hx)) h2
    unfold termsMemo termsOwn
    simp only [List.map_cons]
    rw [ih', h1]
    rfl

end Ampverif.Lemmas.C02Memo
