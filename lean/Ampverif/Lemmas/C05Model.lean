/-
C05 — the specs the three alignments use satisfy the hypotheses of the norm theorem whenever the
helicity sets are complete and the Wigner factors are unitary on complete ranges.
-/
import Ampverif.Lemmas.C05Unitary
import Ampverif.Lemmas.C05Range

namespace Ampverif.Lemmas.C05Model
open Ampverif.Model.C05Align Ampverif.Model.C05Spin
open Ampverif.Lemmas.C05Wiring Ampverif.Lemmas.C05Unitary Ampverif.Lemmas.C05Range

/-- every Wigner factor, restricted to the complete range `-j..j`, has orthonormal columns and
orthonormal rows (it is a unitary `(2j+1)×(2j+1)` matrix), for the doubled spins `j2` with `ok j2` -/
def DUnitary (ok : ℕ → Prop) (D : ℕ → Angle → ℤ → ℤ → ℂ) : Prop :=
  ∀ j2 a, ok j2 → PoolIso (fullRange j2) (D j2 a) ∧ PoolIso (fullRange j2) (fun m m' => D j2 a m' m)

/-- the helicity set of an outer state is complete: all `2s+1` projections occur -/
def Complete (s : StateInfo) : Prop := s.observed = fullRange s.s2

/-- a massless particle of integer spin > 0 (its `create_spin_range(…, no_zero_spin=True)` pool
misses the projection 0) -/
def MasslessBoson (s : StateInfo) : Prop := s.massless = true ∧ s.s2 % 2 = 0 ∧ 0 < s.s2

theorem specRange_full (s2 : ℕ) (flag : Bool) (h : ¬ (flag = true ∧ s2 % 2 = 0 ∧ 0 < s2)) :
    specRange s2 flag = fullRange s2 := by
  unfold specRange
  split
  · rename_i hc
    simp only [Bool.and_eq_true, beq_iff_eq, decide_eq_true_eq] at hc
    exact absurd ⟨hc.1.1, hc.1.2, hc.2⟩ h
  · rfl

theorem linkMat_plain (D : ℕ → Angle → ℤ → ℤ → ℂ) (j2 : ℕ) (a : Angle) :
    linkMat D ⟨j2, a, false⟩ = D j2 a := by
  funext u l; simp [linkMat]

theorem linkMat_transposed (D : ℕ → Angle → ℤ → ℤ → ℂ) (j2 : ℕ) (a : Angle) :
    linkMat D ⟨j2, a, true⟩ = fun m m' => D j2 a m' m := by
  funext u l; simp [linkMat]

/-- one state of the axis-angle skeleton -/
theorem axisOne_iso (D : ℕ → Angle → ℤ → ℤ → ℂ) {ok : ℕ → Prop} (hD : DUnitary ok D) (v : Variant) (hv : v.sound)
    (t : Tree) (s : StateInfo) (hok : ok s.s2) (hc : Complete s) (hm : ¬ MasslessBoson s) (sp : Spec)
    (h : axisOne v t s = some sp) :
    sp.state = s.e ∧ specPool sp = s.observed ∧ SpecIso D sp := by
  unfold axisOne at h
  split at h
  · injection h with h; subst h
    exact ⟨rfl, rfl, trivial⟩
  · unfold axisChain at h
    split at h
    · exact absurd h (by simp)
    · rw [spinRange_sound v hv] at h
      simp only at h
      split at h
      · exact absurd h (by simp)
      · rename_i a opp more hrot
        injection h with h; subst h
        have hpool : specRange s.s2 s.massless = fullRange s.s2 := specRange_full _ _ hm
        refine ⟨rfl, ?_, ?_⟩
        · simp only [specPool]
          rw [hpool]
          exact hc.symm
        · refine ⟨by rw [hpool]; exact hc, by rw [hpool]; exact fullRange_nodup _,
            fun _ => by rw [hpool]; exact fullRange_neg _, ?_⟩
          rw [hpool]
          apply chain_iso D _ (fullRange_nodup _)
          · split <;> simp
          · intro l hl
            have hl' : ∃ ang, l = ⟨s.s2, ang, false⟩ := by
              split at hl
              · simp only [List.mem_append, List.mem_map, List.mem_singleton] at hl
                rcases hl with ⟨r, _, rfl⟩ | rfl
                · exact ⟨_, rfl⟩
                · exact ⟨_, rfl⟩
              · simp only [List.mem_map] at hl
                obtain ⟨r, _, rfl⟩ := hl
                exact ⟨_, rfl⟩
            obtain ⟨ang, rfl⟩ := hl'
            rw [linkMat_plain]
            exact (hD s.s2 ang hok).1

theorem axisSpecs_iso (D : ℕ → Angle → ℤ → ℤ → ℂ) {ok : ℕ → Prop} (hD : DUnitary ok D) (v : Variant) (hv : v.sound)
    (t : Tree) : ∀ (states : List StateInfo) (specs : List Spec),
    (∀ s ∈ states, ok s.s2 ∧ Complete s ∧ ¬ MasslessBoson s) → axisSpecs v t states = some specs →
    specs.map Spec.state = states.map StateInfo.e ∧ unaligned specs = noneSpecs states
      ∧ ∀ sp ∈ specs, SpecIso D sp := by
  intro states
  induction states with
  | nil =>
    intro specs _ h
    simp only [axisSpecs, Option.some.injEq] at h
    subst h
    simp [unaligned, noneSpecs]
  | cons s rest ih =>
    intro specs hst h
    simp only [axisSpecs] at h
    split at h
    · rename_i sp sps h1 h2
      injection h with h; subst h
      obtain ⟨e1, e2, e3⟩ := axisOne_iso D hD v hv t s (hst s (by simp)).1 (hst s (by simp)).2.1 (hst s (by simp)).2.2 sp h1
      obtain ⟨r1, r2, r3⟩ := ih sps (fun s' hs' => hst s' (List.mem_cons_of_mem _ hs')) h2
      refine ⟨by simp [e1, r1], ?_, ?_⟩
      · simp only [unaligned, noneSpecs, List.map_cons] at r2 ⊢
        rw [r2, e1, e2]
      · intro sp' hsp'
        rcases List.mem_cons.mp hsp' with rfl | hsp'
        · exact e3
        · exact r3 sp' hsp'
    · exact absurd h (by simp)

/-- one state of the DPD skeleton -/
theorem dpdOne_iso (D : ℕ → Angle → ℤ → ℤ → ℂ) {ok : ℕ → Prop} (hD : DUnitary ok D) (ref sp : ℤ) (t : Tree)
    (s : StateInfo) (hok : ok s.s2) (hc : Complete s) : SpecIso D (dpdOne ref sp t s) := by
  unfold dpdOne
  unfold Complete at hc
  split
  · rename_i h0
    refine ⟨rfl, (by rw [hc]; exact fullRange_nodup _), (fun h => absurd h (by simp)), ?_⟩
    rw [hc, h0]
    have hf : fullRange 0 = [0] := by decide
    rw [hf]
    intro l hl l' hl'
    simp only [List.mem_singleton] at hl hl'
    subst hl hl'
    simp [chainMat]
  · refine ⟨rfl, (by rw [hc]; exact fullRange_nodup _), (fun h => absurd h (by simp)), ?_⟩
    rw [hc]
    simp only [chainMat]
    cases hb : (s.e != t.id)
    · rw [linkMat_plain]; exact (hD _ _ hok).1
    · rw [linkMat_transposed]; exact (hD _ _ hok).2

theorem dpdSpecs_iso (D : ℕ → Angle → ℤ → ℤ → ℂ) {ok : ℕ → Prop} (hD : DUnitary ok D) (ref : ℤ) (t : Tree)
    (states : List StateInfo) (specs : List Spec) (hst : ∀ s ∈ states, ok s.s2 ∧ Complete s)
    (h : dpdSpecs ref t states = some specs) :
    specs.map Spec.state = states.map StateInfo.e ∧ unaligned specs = noneSpecs states
      ∧ ∀ sp ∈ specs, SpecIso D sp := by
  unfold dpdSpecs at h
  split at h
  · exact absurd h (by simp)
  · rename_i sp _
    injection h with h; subst h
    refine ⟨?_, ?_, ?_⟩
    · simp only [List.map_map]
      apply List.map_congr_left
      intro s _
      simp only [Function.comp, dpdOne]
      split <;> rfl
    · simp only [unaligned, noneSpecs, List.map_map]
      apply List.map_congr_left
      intro s _
      simp only [Function.comp, dpdOne]
      split <;> rfl
    · intro sp' hsp'
      simp only [List.mem_map] at hsp'
      obtain ⟨s, hs, rfl⟩ := hsp'
      exact dpdOne_iso D hD ref sp t s (hst s hs).1 (hst s hs).2

end Ampverif.Lemmas.C05Model
