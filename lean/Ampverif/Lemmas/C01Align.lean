/-
C01: the xor statement for all three alignments — abstract disjointness argument, symbols
contributed by the amplitude definitions, by AxisAngleAlignment and by DalitzPlotDecomposition.
-/
import Ampverif.Lemmas.C01Chains

namespace Ampverif.Model.C01

/-- the disjointness argument, independent of where the lists come from -/
theorem xor_abstract (chainP moved alignP adapter extra : List Name) (s : Name)
    (hP : ∀ n ∈ chainP, isParamName n = true)
    (hA : ∀ k ∈ adapter, isKinName k = true)
    (hE : ∀ k ∈ extra, isKinName k = true)
    (hME : ∀ k ∈ moved, k ∉ extra)
    (hAP : ∀ k ∈ alignP, k ∉ adapter.filter (fun k => k ∉ moved) ∧ k ∉ extra)
    (hs : s ∈ chainP ∨ s ∈ adapter ∨ s ∈ extra) :
    (s ∈ chainP ++ moved ++ alignP ∧ s ∉ adapter.filter (fun k => k ∉ moved) ++ extra)
    ∨ (s ∉ chainP ++ moved ++ alignP ∧ s ∈ adapter.filter (fun k => k ∉ moved) ++ extra) := by
  rcases hs with hs | hs | hs
  · left
    refine ⟨List.mem_append_left _ (List.mem_append_left _ hs), ?_⟩
    intro hc
    rcases List.mem_append.1 hc with hc | hc
    · exact classes_disjoint s ⟨hP s hs, hA s (List.mem_filter.1 hc).1⟩
    · exact classes_disjoint s ⟨hP s hs, hE s hc⟩
  · by_cases hm : s ∈ moved
    · left
      refine ⟨List.mem_append_left _ (List.mem_append_right _ hm), ?_⟩
      intro hc
      rcases List.mem_append.1 hc with hc | hc
      · have := (List.mem_filter.1 hc).2; simp [hm] at this
      · exact hME s hm hc
    · right
      have hf : s ∈ adapter.filter (fun k => k ∉ moved) := List.mem_filter.2 ⟨hs, by simp [hm]⟩
      refine ⟨?_, List.mem_append_left _ hf⟩
      intro hc
      simp only [List.mem_append] at hc
      rcases hc with (hc | hc) | hc
      · exact classes_disjoint s ⟨hP s hc, hA s hs⟩
      · exact hm hc
      · exact (hAP s hc).1 hf
  · right
    refine ⟨?_, List.mem_append_right _ hs⟩
    intro hc
    simp only [List.mem_append] at hc
    rcases hc with (hc | hc) | hc
    · exact classes_disjoint s ⟨hP s hc, hE s hs⟩
    · exact hME s hc hs
    · exact (hAP s hc).2 hs

/-- a free symbol that comes from an amplitude definition is a chain parameter or a registered adapter key -/
theorem free_amps_class (v : Variant) (hreg : v.regCombTopos = true) (r : Reaction) (cfg : Config)
    (hwf : ∀ t ∈ registeredTopos v r cfg, t.wf = true) (rf : List AmpKey) (s : Name)
    (hs : s ∈ rf.flatMap (fun k =>
      match dictGet? k (zeroDefsOf v r rf (registeredOf v r (transOuts v r cfg))) with
      | some a => a.free
      | none => [])) :
    s ∈ (transOuts v r cfg).flatMap TOut.params ∨ s ∈ adapterKeys v r cfg := by
  simp only [List.mem_flatMap] at hs
  obtain ⟨k, _, hs⟩ := hs
  split at hs
  case h_2 => cases hs
  rename_i a ha
  have hreg' : dictGet? k (registeredOf v r (transOuts v r cfg)) = some a := by
    unfold zeroDefsOf at ha
    split at ha
    · exact ha
    · rcases addMissing_get _ _ _ _ ha with h | h
      · exact h
      · rw [h] at hs; cases hs
    · rcases addMissing_get _ _ _ _ ha with h | h
      · exact h
      · rw [h] at hs; cases hs
  obtain ⟨o, ho, hso⟩ := registeredOf_freeFrom v r _ k a hreg' s hs
  obtain ⟨t, ht, hot⟩ := transOuts_mem v r cfg o ho
  have ht1 : o.1 = t := by rw [hot]
  rcases tout_free_class v r cfg o ho s hso with hp | ⟨ch, hch, ni, hni, hk⟩
  · left
    simp only [List.mem_flatMap]; exact ⟨_, ho, hp⟩
  · right
    have htree : r.tree ch.topo ∈ registeredTopos v r cfg := by
      simp only [registeredTopos, hreg, if_true, mem_dedup, List.mem_append, List.mem_map, List.mem_flatMap]
      right; exact ⟨t, ht, ch, ht1 ▸ hch, rfl⟩
    simp only [adapterKeys, List.mem_flatMap]
    exact ⟨_, htree, kinSyms_registered _ (hwf _ htree) ni hni s hk⟩

/-! ### grouping: the keys are keys of elements -/

theorem groupByKey_key {α κ} [DecidableEq κ] (key : α → κ) (xs : List α) :
    ∀ kv ∈ groupByKey key xs, ∃ x ∈ xs, kv.1 = key x := by
  induction xs with
  | nil => intro kv h; simp [groupByKey] at h
  | cons y ys ih =>
    intro kv hkv
    simp only [groupByKey] at hkv
    split at hkv
    · rcases List.mem_cons.1 hkv with h | h
      · exact ⟨y, by simp, by rw [h]⟩
      · obtain ⟨x, hx, hk⟩ := ih kv (List.mem_filter.1 h).1
        exact ⟨x, List.mem_cons_of_mem _ hx, hk⟩
    · rcases List.mem_cons.1 hkv with h | h
      · exact ⟨y, by simp, by rw [h]⟩
      · obtain ⟨x, hx, hk⟩ := ih kv h
        exact ⟨x, List.mem_cons_of_mem _ hx, hk⟩

theorem topoGroups_registered (v : Variant) (r : Reaction) (cfg : Config) :
    ∀ tg ∈ topoGroups r r.transitions, tg.1 ∈ registeredTopos v r cfg := by
  intro tg htg
  obtain ⟨t, ht, hk⟩ := groupByKey_key _ _ tg htg
  simp only [registeredTopos, mem_dedup, List.mem_append]
  left
  split
  · simp only [List.mem_append, List.mem_map]; left; exact ⟨t, ht, hk.symm⟩
  · simp only [List.mem_map]; exact ⟨t, ht, hk.symm⟩

/-! ### AxisAngleAlignment -/

/-- angle symbols on the path to a final state are helicity-child symbols of nodes of the tree -/
theorem pathAngles_sub (t : Tree) : ∀ (b : Bool) (anc : List Name) (e : Int) (a : List Name) (d : Nat),
    pathAngles t b anc e = some (a, d) →
    ∀ s ∈ a, ∃ ni ∈ nodeInfos t b anc, s = phiSym ni.c1 ni.anc ∨ s = thetaSym ni.c1 ni.anc := by
  induction t with
  | leaf e0 =>
    intro b anc e a d h s hs
    simp only [pathAngles] at h
    split at h
    · cases h; cases hs
    · cases h
  | node e0 n l r ihl ihr =>
    intro b anc e a d h s hs
    simp only [pathAngles] at h
    split at h
    · rename_i a' d' hl
      cases h
      rcases List.mem_append.1 hs with hs | hs
      · refine ⟨⟨n, .node e0 n l r, l, r, if b = true then [] else label (.node e0 n l r) :: anc⟩,
          by simp [nodeInfos], ?_⟩
        simp only [List.mem_cons, List.mem_nil_iff, or_false] at hs
        exact hs
      · obtain ⟨ni, hni, h⟩ := ihl _ _ _ _ _ hl s hs
        exact ⟨ni, by simp only [nodeInfos, List.mem_cons, List.mem_append]; right; left; exact hni, h⟩
    · split at h
      · rename_i a' d' hr
        cases h
        rcases List.mem_append.1 hs with hs | hs
        · refine ⟨⟨n, .node e0 n l r, l, r, if b = true then [] else label (.node e0 n l r) :: anc⟩,
            by simp [nodeInfos], ?_⟩
          simp only [List.mem_cons, List.mem_nil_iff, or_false] at hs
          exact hs
        · obtain ⟨ni, hni, h⟩ := ihr _ _ _ _ _ hr s hs
          exact ⟨ni, by simp only [nodeInfos, List.mem_cons, List.mem_append]; right; right; exact hni, h⟩
      · cases h

theorem wigner_isKin (t : Tree) (e : Int) : ∀ k ∈ wignerAngleNames t e, isKinName k = true := by
  intro k hk
  simp only [wignerAngleNames, List.mem_cons, List.mem_nil_iff, or_false] at hk
  rcases hk with rfl | rfl | rfl <;> simp [isKinName, helicitySuffix]

theorem wigner_first (t : Tree) (e : Int) : ∀ k ∈ wignerAngleNames t e, ∃ c rest, k = c :: rest ∧ (c = 97 ∨ c = 98 ∨ c = 103) := by
  intro k hk
  simp only [wignerAngleNames, List.mem_cons, List.mem_nil_iff, or_false] at hk
  rcases hk with rfl | rfl | rfl <;> simp

theorem axisKeys_isKin (r : Reaction) : ∀ k ∈ axisKeys r, isKinName k = true := by
  intro k hk
  simp only [axisKeys, List.mem_flatMap] at hk
  obtain ⟨tg, _, e, _, hk⟩ := hk
  split at hk
  · split at hk
    · exact wigner_isKin _ _ k hk
    · cases hk
  · cases hk

theorem axisKeys_first (r : Reaction) : ∀ k ∈ axisKeys r, ∃ c rest, k = c :: rest ∧ (c = 97 ∨ c = 98 ∨ c = 103) := by
  intro k hk
  simp only [axisKeys, List.mem_flatMap] at hk
  obtain ⟨tg, _, e, _, hk⟩ := hk
  split at hk
  · split at hk
    · exact wigner_first _ _ k hk
    · cases hk
  · cases hk

theorem moved_first (r : Reaction) (cfg : Config) : ∀ k ∈ movedMasses r cfg, ∃ rest, k = 109 :: 95 :: rest := by
  intro k hk
  simp only [movedMasses, stableMasses, scalarMass, List.mem_append] at hk
  rcases hk with hk | hk
  · split at hk
    · cases hk
    · simp only [List.mem_map] at hk
      obtain ⟨i, _, rfl⟩ := hk
      exact ⟨_, rfl⟩
  · split at hk
    · split at hk
      · cases hk
      · simp only [List.mem_singleton] at hk; exact ⟨_, hk⟩
    · cases hk

/-- free symbols added by AxisAngleAlignment are adapter keys (helicity angles) or Wigner-angle keys -/
theorem axisFree_class (v : Variant) (r : Reaction) (cfg : Config)
    (hwf : ∀ t ∈ registeredTopos v r cfg, t.wf = true) :
    ∀ s ∈ axisFree r, s ∈ adapterKeys v r cfg ∨ s ∈ axisKeys r := by
  intro s hs
  simp only [axisFree, List.mem_flatMap] at hs
  obtain ⟨tg, htg, e, he, hs⟩ := hs
  have hreg := topoGroups_registered v r cfg tg htg
  split at hs
  · rename_i a d hp
    rcases List.mem_append.1 hs with hs | hs
    · left
      obtain ⟨ni, hni, h⟩ := pathAngles_sub tg.1 true [] e a d hp s hs
      have hk : s ∈ ni.kinSyms := by
        simp only [NodeInfo.kinSyms, List.mem_cons, List.mem_nil_iff, or_false]
        rcases h with h | h <;> simp [h]
      simp only [adapterKeys, List.mem_flatMap]
      exact ⟨tg.1, hreg, kinSyms_registered _ (hwf _ hreg) ni hni s hk⟩
    · right
      split at hs
      · simp only [axisKeys, List.mem_flatMap]
        refine ⟨tg, htg, e, he, ?_⟩
        rw [hp]
        simp only
        rename_i hd
        simp [hd, hs]
      · cases hs
  · cases hs

end Ampverif.Model.C01

namespace Ampverif.Model.C01

/-! ### DalitzPlotDecomposition -/

/-- finite facts about the mass symbols of the zeta expressions (rotated state 0..3, subsystems 1..3) -/
theorem zetaMasses_facts :
    ∀ rot ∈ List.range 4, ∀ a ∈ [1, 2, 3], ∀ ref ∈ [1, 2, 3], ∀ m ∈ zetaMasses rot a ref,
      isKinName m = true ∧ m ≠ n!"m_123" ∧ (m = mN 0 ∨ m ∈ [mN 1, mN 2, mN 3] ∨ m ∈ pairMasses) := by
  decide

theorem zetaName_isKin (rot : Nat) (a : Int) (ref : Nat) : isKinName (zetaName rot a ref) = true := by
  simp [zetaName, isKinName]

theorem zetaName_first (rot : Nat) (a : Int) (ref : Nat) : ∃ rest, zetaName rot a ref = 92 :: rest := by
  simp [zetaName]

theorem spectator_range (t : Tree) (sp : Int) (h : spectator t = some sp) : sp = 1 ∨ sp = 2 ∨ sp = 3 := by
  unfold spectator at h
  split at h
  · have hm := List.mem_of_mem_head? h
    have := (List.mem_filter.1 hm).1
    simpa using this
  · cases h

/-- every zeta of the model is `zetaMasses rot a ref` with arguments in the finite range above -/
theorem dpdZetas_shape (r : Reaction) (ref : Nat) (href : ref = 1 ∨ ref = 2 ∨ ref = 3) :
    ∀ z ∈ dpdZetas r ref, (∃ rest, z.1 = 92 :: rest) ∧ isKinName z.1 = true ∧
      ∀ m ∈ z.2, isKinName m = true ∧ m ≠ n!"m_123" ∧ (m = mN 0 ∨ m ∈ [mN 1, mN 2, mN 3] ∨ m ∈ pairMasses) := by
  intro z hz
  unfold dpdZetas at hz
  split at hz
  · cases hz
  · simp only [List.mem_flatMap] at hz
    obtain ⟨tg, _, hz⟩ := hz
    split at hz
    · cases hz
    · rename_i sp hsp
      simp only [List.mem_map, List.mem_filter] at hz
      obtain ⟨i, ⟨hi, _⟩, rfl⟩ := hz
      refine ⟨zetaName_first _ _ _, zetaName_isKin _ _ _, ?_⟩
      have hspr := spectator_range _ _ hsp
      have ha : sp.toNat ∈ [1, 2, 3] := by rcases hspr with h | h | h <;> simp [h]
      have hr : ref ∈ [1, 2, 3] := by rcases href with h | h | h <;> simp [h]
      exact zetaMasses_facts i hi _ ha _ hr

theorem mN_cases_ne_moved_stable (i : Int) (hi : i = 1 ∨ i = 2 ∨ i = 3) : n!"m_" ++ intName i ≠ mN 0 := by
  rcases hi with h | h | h <;> subst h <;> decide

/-- what `errorOf = none` says about a DPD configuration -/
theorem dpd_ok_of_noerror (v : Variant) (r : Reaction) (cfg : Config) (h : errorOf v r cfg = none) (ref : Nat)
    (hal : cfg.align = .dpd ref) :
    outerIds r = [0, 1, 2, 3] ∧ (ref = 1 ∨ ref = 2 ∨ ref = 3) ∧
      (∀ ids, cfg.stable = some ids → ∀ i ∈ ids, i = 1 ∨ i = 2 ∨ i = 3) := by
  unfold errorOf at h
  split at h
  · cases h
  · rename_i t0 rest htr
    split at h
    · cases h
    · split at h
      · cases h
      · split at h
        · cases h
        · rename_i hdpd
          split at h
          · cases h
          · rename_i hst
            simp only [dpdBad, hal, Bool.or_eq_true, decide_eq_true_eq, Bool.not_eq_true', not_or] at hdpd
            have houter : outerIds r = [0, 1, 2, 3] := by
              have := hdpd.1.1
              simpa using this
            have href : ref = 1 ∨ ref = 2 ∨ ref = 3 := by
              have := hdpd.2
              by_cases h1 : ref = 1
              · left; exact h1
              · by_cases h2 : ref = 2
                · right; left; exact h2
                · by_cases h3 : ref = 3
                  · right; right; exact h3
                  · simp [h1, h2, h3] at this
            refine ⟨houter, href, ?_⟩
            intro ids hids i hi
            have hfin : finalIds r t0 = [1, 2, 3] := by
              simp only [outerIds, htr] at houter
              exact (List.cons.inj houter).2
            simp only [stableBad, hids, htr, List.any_eq_true, decide_eq_true_eq, not_exists, not_and, hfin] at hst
            have := hst i hi
            simp only [List.mem_cons, List.mem_nil_iff, or_false] at this
            exact Decidable.of_not_not this

end Ampverif.Model.C01
