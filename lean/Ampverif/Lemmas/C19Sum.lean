/-
θ_ij + θ_ji = π and the ζ sum rule for the regenerated definitions of `Gen/C19.lean`
(text produced once by a development script; fixed afterwards). The numerators `N` written
out here are compared with the regenerated definitions by `ring`.
-/
import Ampverif.Gen.C19
import Ampverif.Lemmas.C19SumRule
import Mathlib.Tactic.LinearCombination

set_option linter.unusedSimpArgs false

namespace Ampverif.Lemmas.C19
open Ampverif.Gen.C19

theorem kallen_symm_yz (x y z : ℝ) : Kallen x y z = Kallen x z y := by unfold Kallen; ring

section
variable {m_0 m_1 m_2 m_3 m_12 m_13 m_23 : ℝ}

/-- `cos θ_21 = −cos θ_12` modulo `σ₁+σ₂+σ₃ = Σ m²` -/
theorem cosTheta_2_1_eq_neg (hc : m_12 ^ 2 + m_13 ^ 2 + m_23 ^ 2 = m_0 ^ 2 + m_1 ^ 2 + m_2 ^ 2 + m_3 ^ 2) :
    cosTheta_2_1 m_0 m_1 m_2 m_3 m_12 m_13 m_23 = -cosTheta_1_2 m_0 m_1 m_2 m_3 m_12 m_13 m_23 := by
  unfold cosTheta_1_2 cosTheta_2_1
  rw [ratio_shape, ratio_shape, kallen_symm_yz (m_12 ^ 2) (m_2 ^ 2) (m_1 ^ 2), ← neg_div]
  congr 1
  linear_combination (((2 : ℝ) * (m_12 ^ 2))) * hc

theorem theta_1_2_add_theta_2_1 (hc : m_12 ^ 2 + m_13 ^ 2 + m_23 ^ 2 = m_0 ^ 2 + m_1 ^ 2 + m_2 ^ 2 + m_3 ^ 2) :
    theta_1_2 m_0 m_1 m_2 m_3 m_12 m_13 m_23 + theta_2_1 m_0 m_1 m_2 m_3 m_12 m_13 m_23 = Real.pi := by
  unfold theta_1_2 theta_2_1
  rw [cosTheta_2_1_eq_neg hc, Real.arccos_neg]
  ring

/-- `cos θ_31 = −cos θ_13` modulo `σ₁+σ₂+σ₃ = Σ m²` -/
theorem cosTheta_3_1_eq_neg (hc : m_12 ^ 2 + m_13 ^ 2 + m_23 ^ 2 = m_0 ^ 2 + m_1 ^ 2 + m_2 ^ 2 + m_3 ^ 2) :
    cosTheta_3_1 m_0 m_1 m_2 m_3 m_12 m_13 m_23 = -cosTheta_1_3 m_0 m_1 m_2 m_3 m_12 m_13 m_23 := by
  unfold cosTheta_1_3 cosTheta_3_1
  rw [ratio_shape, ratio_shape, kallen_symm_yz (m_13 ^ 2) (m_3 ^ 2) (m_1 ^ 2), ← neg_div]
  congr 1
  linear_combination (((2 : ℝ) * (m_13 ^ 2))) * hc

theorem theta_1_3_add_theta_3_1 (hc : m_12 ^ 2 + m_13 ^ 2 + m_23 ^ 2 = m_0 ^ 2 + m_1 ^ 2 + m_2 ^ 2 + m_3 ^ 2) :
    theta_1_3 m_0 m_1 m_2 m_3 m_12 m_13 m_23 + theta_3_1 m_0 m_1 m_2 m_3 m_12 m_13 m_23 = Real.pi := by
  unfold theta_1_3 theta_3_1
  rw [cosTheta_3_1_eq_neg hc, Real.arccos_neg]
  ring

/-- `cos θ_32 = −cos θ_23` modulo `σ₁+σ₂+σ₃ = Σ m²` -/
theorem cosTheta_3_2_eq_neg (hc : m_12 ^ 2 + m_13 ^ 2 + m_23 ^ 2 = m_0 ^ 2 + m_1 ^ 2 + m_2 ^ 2 + m_3 ^ 2) :
    cosTheta_3_2 m_0 m_1 m_2 m_3 m_12 m_13 m_23 = -cosTheta_2_3 m_0 m_1 m_2 m_3 m_12 m_13 m_23 := by
  unfold cosTheta_2_3 cosTheta_3_2
  rw [ratio_shape, ratio_shape, kallen_symm_yz (m_23 ^ 2) (m_3 ^ 2) (m_2 ^ 2), ← neg_div]
  congr 1
  linear_combination (((2 : ℝ) * (m_23 ^ 2))) * hc

theorem theta_2_3_add_theta_3_2 (hc : m_12 ^ 2 + m_13 ^ 2 + m_23 ^ 2 = m_0 ^ 2 + m_1 ^ 2 + m_2 ^ 2 + m_3 ^ 2) :
    theta_2_3 m_0 m_1 m_2 m_3 m_12 m_13 m_23 + theta_3_2 m_0 m_1 m_2 m_3 m_12 m_13 m_23 = Real.pi := by
  unfold theta_2_3 theta_3_2
  rw [cosTheta_3_2_eq_neg hc, Real.arccos_neg]
  ring

/-- `ζ^1_{2(3)} = ζ^1_{2(1)} + ζ^1_{1(3)}` where `Kibble ≤ 0` and the three Källén
factors seen from particle 1 are positive -/
theorem zeta_sum_rule_1 (hm : m_0 ≠ 0) (hc : m_12 ^ 2 + m_13 ^ 2 + m_23 ^ 2 = m_0 ^ 2 + m_1 ^ 2 + m_2 ^ 2 + m_3 ^ 2)
    (hK : Kibble (m_23 ^ 2) (m_13 ^ 2) (m_12 ^ 2) m_0 m_1 m_2 m_3 ≤ 0)
    (h0 : 0 < (Kallen (m_0 ^ 2) (m_1 ^ 2) (m_23 ^ 2))) (h2 : 0 < (Kallen (m_12 ^ 2) (m_1 ^ 2) (m_2 ^ 2)))
    (h3 : 0 < (Kallen (m_13 ^ 2) (m_1 ^ 2) (m_3 ^ 2))) :
    zeta_1_2_3 m_0 m_1 m_2 m_3 m_12 m_13 m_23 = zeta_1_2_1 m_0 m_1 m_2 m_3 m_12 m_13 m_23 + zeta_1_1_3 m_0 m_1 m_2 m_3 m_12 m_13 m_23 := by
  have e : m_12 ^ 2 = m_0 ^ 2 + m_1 ^ 2 + m_2 ^ 2 + m_3 ^ 2 - m_13 ^ 2 - m_23 ^ 2 := by linarith
  have h4 : (4 * m_0 ^ 2) ≠ 0 := by positivity
  have ec : cosZeta_1_2_3 m_0 m_1 m_2 m_3 m_12 m_13 m_23
      = ((((m_12 ^ 2) + ((-1 : ℝ) * (m_1 ^ 2)) + ((-1 : ℝ) * (m_2 ^ 2))) * ((m_13 ^ 2) + ((-1 : ℝ) * (m_1 ^ 2)) + ((-1 : ℝ) * (m_3 ^ 2)))) + ((2 : ℝ) * (m_1 ^ 2) * ((m_2 ^ 2) + (m_3 ^ 2) + ((-1 : ℝ) * (m_23 ^ 2))))) / (Real.sqrt (Kallen (m_12 ^ 2) (m_1 ^ 2) (m_2 ^ 2)) * Real.sqrt (Kallen (m_13 ^ 2) (m_1 ^ 2) (m_3 ^ 2))) := by
    unfold cosZeta_1_2_3; rw [kallen_symm_yz (m_13 ^ 2) (m_3 ^ 2) (m_1 ^ 2)]; ring
  have ea : cosZeta_1_2_1 m_0 m_1 m_2 m_3 m_12 m_13 m_23
      = ((((m_0 ^ 2) + (m_1 ^ 2) + ((-1 : ℝ) * (m_23 ^ 2))) * ((m_13 ^ 2) + ((-1 : ℝ) * (m_1 ^ 2)) + ((-1 : ℝ) * (m_3 ^ 2)))) + ((2 : ℝ) * (m_1 ^ 2) * ((m_12 ^ 2) + ((-1 : ℝ) * (m_0 ^ 2)) + ((-1 : ℝ) * (m_3 ^ 2))))) / (Real.sqrt (Kallen (m_0 ^ 2) (m_1 ^ 2) (m_23 ^ 2)) * Real.sqrt (Kallen (m_13 ^ 2) (m_1 ^ 2) (m_3 ^ 2))) := by
    unfold cosZeta_1_2_1; ring
  have eb : cosZeta_1_1_3 m_0 m_1 m_2 m_3 m_12 m_13 m_23
      = ((((m_0 ^ 2) + (m_1 ^ 2) + ((-1 : ℝ) * (m_23 ^ 2))) * ((m_12 ^ 2) + ((-1 : ℝ) * (m_1 ^ 2)) + ((-1 : ℝ) * (m_2 ^ 2)))) + ((2 : ℝ) * (m_1 ^ 2) * ((m_13 ^ 2) + ((-1 : ℝ) * (m_0 ^ 2)) + ((-1 : ℝ) * (m_2 ^ 2))))) / (Real.sqrt (Kallen (m_0 ^ 2) (m_1 ^ 2) (m_23 ^ 2)) * Real.sqrt (Kallen (m_12 ^ 2) (m_1 ^ 2) (m_2 ^ 2))) := by
    unfold cosZeta_1_1_3; ring
  unfold zeta_1_2_3 zeta_1_2_1 zeta_1_1_3
  rw [ec, ea, eb]
  refine sum_rule_abstract (G := (-(m_1 ^ 2 * Kibble (m_23 ^ 2) (m_13 ^ 2) (m_12 ^ 2) m_0 m_1 m_2 m_3) / (4 * m_0 ^ 2))) h0 h2 h3 ?_ ?_ ?_ ?_ ?_ ?_ ?_
  · apply div_nonneg _ (by positivity)
    nlinarith [sq_nonneg m_1, mul_nonneg (sq_nonneg m_1) (neg_nonneg.mpr hK)]
  all_goals first
    | (rw [eq_div_iff h4]; unfold Kibble Kallen; rw [e]; ring)
    | (unfold Kallen; rw [e]; ring)

/-- `ζ^2_{3(1)} = ζ^2_{3(2)} + ζ^2_{2(1)}` where `Kibble ≤ 0` and the three Källén
factors seen from particle 2 are positive -/
theorem zeta_sum_rule_2 (hm : m_0 ≠ 0) (hc : m_12 ^ 2 + m_13 ^ 2 + m_23 ^ 2 = m_0 ^ 2 + m_1 ^ 2 + m_2 ^ 2 + m_3 ^ 2)
    (hK : Kibble (m_23 ^ 2) (m_13 ^ 2) (m_12 ^ 2) m_0 m_1 m_2 m_3 ≤ 0)
    (h0 : 0 < (Kallen (m_0 ^ 2) (m_2 ^ 2) (m_13 ^ 2))) (h2 : 0 < (Kallen (m_23 ^ 2) (m_2 ^ 2) (m_3 ^ 2)))
    (h3 : 0 < (Kallen (m_12 ^ 2) (m_2 ^ 2) (m_1 ^ 2))) :
    zeta_2_3_1 m_0 m_1 m_2 m_3 m_12 m_13 m_23 = zeta_2_3_2 m_0 m_1 m_2 m_3 m_12 m_13 m_23 + zeta_2_2_1 m_0 m_1 m_2 m_3 m_12 m_13 m_23 := by
  have e : m_12 ^ 2 = m_0 ^ 2 + m_1 ^ 2 + m_2 ^ 2 + m_3 ^ 2 - m_13 ^ 2 - m_23 ^ 2 := by linarith
  have h4 : (4 * m_0 ^ 2) ≠ 0 := by positivity
  have ec : cosZeta_2_3_1 m_0 m_1 m_2 m_3 m_12 m_13 m_23
      = ((((m_12 ^ 2) + ((-1 : ℝ) * (m_1 ^ 2)) + ((-1 : ℝ) * (m_2 ^ 2))) * ((m_23 ^ 2) + ((-1 : ℝ) * (m_2 ^ 2)) + ((-1 : ℝ) * (m_3 ^ 2)))) + ((2 : ℝ) * (m_2 ^ 2) * ((m_1 ^ 2) + (m_3 ^ 2) + ((-1 : ℝ) * (m_13 ^ 2))))) / (Real.sqrt (Kallen (m_23 ^ 2) (m_2 ^ 2) (m_3 ^ 2)) * Real.sqrt (Kallen (m_12 ^ 2) (m_2 ^ 2) (m_1 ^ 2))) := by
    unfold cosZeta_2_3_1; rw [kallen_symm_yz (m_12 ^ 2) (m_1 ^ 2) (m_2 ^ 2)]; ring
  have ea : cosZeta_2_3_2 m_0 m_1 m_2 m_3 m_12 m_13 m_23
      = ((((m_0 ^ 2) + (m_2 ^ 2) + ((-1 : ℝ) * (m_13 ^ 2))) * ((m_12 ^ 2) + ((-1 : ℝ) * (m_1 ^ 2)) + ((-1 : ℝ) * (m_2 ^ 2)))) + ((2 : ℝ) * (m_2 ^ 2) * ((m_23 ^ 2) + ((-1 : ℝ) * (m_0 ^ 2)) + ((-1 : ℝ) * (m_1 ^ 2))))) / (Real.sqrt (Kallen (m_0 ^ 2) (m_2 ^ 2) (m_13 ^ 2)) * Real.sqrt (Kallen (m_12 ^ 2) (m_2 ^ 2) (m_1 ^ 2))) := by
    unfold cosZeta_2_3_2; ring
  have eb : cosZeta_2_2_1 m_0 m_1 m_2 m_3 m_12 m_13 m_23
      = ((((m_0 ^ 2) + (m_2 ^ 2) + ((-1 : ℝ) * (m_13 ^ 2))) * ((m_23 ^ 2) + ((-1 : ℝ) * (m_2 ^ 2)) + ((-1 : ℝ) * (m_3 ^ 2)))) + ((2 : ℝ) * (m_2 ^ 2) * ((m_12 ^ 2) + ((-1 : ℝ) * (m_0 ^ 2)) + ((-1 : ℝ) * (m_3 ^ 2))))) / (Real.sqrt (Kallen (m_0 ^ 2) (m_2 ^ 2) (m_13 ^ 2)) * Real.sqrt (Kallen (m_23 ^ 2) (m_2 ^ 2) (m_3 ^ 2))) := by
    unfold cosZeta_2_2_1; ring
  unfold zeta_2_3_1 zeta_2_3_2 zeta_2_2_1
  rw [ec, ea, eb]
  refine sum_rule_abstract (G := (-(m_2 ^ 2 * Kibble (m_23 ^ 2) (m_13 ^ 2) (m_12 ^ 2) m_0 m_1 m_2 m_3) / (4 * m_0 ^ 2))) h0 h2 h3 ?_ ?_ ?_ ?_ ?_ ?_ ?_
  · apply div_nonneg _ (by positivity)
    nlinarith [sq_nonneg m_2, mul_nonneg (sq_nonneg m_2) (neg_nonneg.mpr hK)]
  all_goals first
    | (rw [eq_div_iff h4]; unfold Kibble Kallen; rw [e]; ring)
    | (unfold Kallen; rw [e]; ring)

/-- `ζ^3_{1(2)} = ζ^3_{1(3)} + ζ^3_{3(2)}` where `Kibble ≤ 0` and the three Källén
factors seen from particle 3 are positive -/
theorem zeta_sum_rule_3 (hm : m_0 ≠ 0) (hc : m_12 ^ 2 + m_13 ^ 2 + m_23 ^ 2 = m_0 ^ 2 + m_1 ^ 2 + m_2 ^ 2 + m_3 ^ 2)
    (hK : Kibble (m_23 ^ 2) (m_13 ^ 2) (m_12 ^ 2) m_0 m_1 m_2 m_3 ≤ 0)
    (h0 : 0 < (Kallen (m_0 ^ 2) (m_3 ^ 2) (m_12 ^ 2))) (h2 : 0 < (Kallen (m_13 ^ 2) (m_3 ^ 2) (m_1 ^ 2)))
    (h3 : 0 < (Kallen (m_23 ^ 2) (m_3 ^ 2) (m_2 ^ 2))) :
    zeta_3_1_2 m_0 m_1 m_2 m_3 m_12 m_13 m_23 = zeta_3_1_3 m_0 m_1 m_2 m_3 m_12 m_13 m_23 + zeta_3_3_2 m_0 m_1 m_2 m_3 m_12 m_13 m_23 := by
  have e : m_12 ^ 2 = m_0 ^ 2 + m_1 ^ 2 + m_2 ^ 2 + m_3 ^ 2 - m_13 ^ 2 - m_23 ^ 2 := by linarith
  have h4 : (4 * m_0 ^ 2) ≠ 0 := by positivity
  have ec : cosZeta_3_1_2 m_0 m_1 m_2 m_3 m_12 m_13 m_23
      = ((((m_13 ^ 2) + ((-1 : ℝ) * (m_1 ^ 2)) + ((-1 : ℝ) * (m_3 ^ 2))) * ((m_23 ^ 2) + ((-1 : ℝ) * (m_2 ^ 2)) + ((-1 : ℝ) * (m_3 ^ 2)))) + ((2 : ℝ) * (m_3 ^ 2) * ((m_1 ^ 2) + (m_2 ^ 2) + ((-1 : ℝ) * (m_12 ^ 2))))) / (Real.sqrt (Kallen (m_13 ^ 2) (m_3 ^ 2) (m_1 ^ 2)) * Real.sqrt (Kallen (m_23 ^ 2) (m_3 ^ 2) (m_2 ^ 2))) := by
    unfold cosZeta_3_1_2; rw [kallen_symm_yz (m_23 ^ 2) (m_2 ^ 2) (m_3 ^ 2)]; ring
  have ea : cosZeta_3_1_3 m_0 m_1 m_2 m_3 m_12 m_13 m_23
      = ((((m_0 ^ 2) + (m_3 ^ 2) + ((-1 : ℝ) * (m_12 ^ 2))) * ((m_23 ^ 2) + ((-1 : ℝ) * (m_2 ^ 2)) + ((-1 : ℝ) * (m_3 ^ 2)))) + ((2 : ℝ) * (m_3 ^ 2) * ((m_13 ^ 2) + ((-1 : ℝ) * (m_0 ^ 2)) + ((-1 : ℝ) * (m_2 ^ 2))))) / (Real.sqrt (Kallen (m_0 ^ 2) (m_3 ^ 2) (m_12 ^ 2)) * Real.sqrt (Kallen (m_23 ^ 2) (m_3 ^ 2) (m_2 ^ 2))) := by
    unfold cosZeta_3_1_3; ring
  have eb : cosZeta_3_3_2 m_0 m_1 m_2 m_3 m_12 m_13 m_23
      = ((((m_0 ^ 2) + (m_3 ^ 2) + ((-1 : ℝ) * (m_12 ^ 2))) * ((m_13 ^ 2) + ((-1 : ℝ) * (m_1 ^ 2)) + ((-1 : ℝ) * (m_3 ^ 2)))) + ((2 : ℝ) * (m_3 ^ 2) * ((m_23 ^ 2) + ((-1 : ℝ) * (m_0 ^ 2)) + ((-1 : ℝ) * (m_1 ^ 2))))) / (Real.sqrt (Kallen (m_0 ^ 2) (m_3 ^ 2) (m_12 ^ 2)) * Real.sqrt (Kallen (m_13 ^ 2) (m_3 ^ 2) (m_1 ^ 2))) := by
    unfold cosZeta_3_3_2; ring
  unfold zeta_3_1_2 zeta_3_1_3 zeta_3_3_2
  rw [ec, ea, eb]
  refine sum_rule_abstract (G := (-(m_3 ^ 2 * Kibble (m_23 ^ 2) (m_13 ^ 2) (m_12 ^ 2) m_0 m_1 m_2 m_3) / (4 * m_0 ^ 2))) h0 h2 h3 ?_ ?_ ?_ ?_ ?_ ?_ ?_
  · apply div_nonneg _ (by positivity)
    nlinarith [sq_nonneg m_3, mul_nonneg (sq_nonneg m_3) (neg_nonneg.mpr hK)]
  all_goals first
    | (rw [eq_div_iff h4]; unfold Kibble Kallen; rw [e]; ring)
    | (unfold Kallen; rw [e]; ring)

end

end Ampverif.Lemmas.C19
