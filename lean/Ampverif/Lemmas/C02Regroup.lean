/-
C02 — the regrouping argument: the builder's (spin group × topology × own projection) cells,
written into a last-writer-wins dict and read back through the PoolSum, add up to the helicity
formula's "all graphs with these outer projections".
-/
import Ampverif.Lemmas.C02Denote

namespace Ampverif.Lemmas.C02Regroup
open Ampverif.Model.C03 Ampverif.Model.C02 Ampverif.Lemmas.C02Lists Ampverif.Lemmas.C02Denote

variable {R : Type} [CommRing R]

/-! ### small sum lemmas -/

theorem sum_filter_eq_ite {α : Type} (p : α → Bool) (f : α → R) :
    ∀ l : List α, ((l.filter p).map f).sum = (l.map fun x => if p x then f x else 0).sum
  | [] => by simp
  | x :: xs => by
    by_cases h : p x = true
    · simp [h, sum_filter_eq_ite p f xs]
    · simp [h, sum_filter_eq_ite p f xs]

theorem sum_flatMap {α β : Type} (f : α → List β) (g : β → R) :
    ∀ l : List α, ((l.flatMap f).map g).sum = (l.map fun x => ((f x).map g).sum).sum
  | [] => by simp
  | x :: xs => by
    simp [List.flatMap_cons, sum_flatMap f g xs]

/-! ### what `wellFormed` gives -/

structure WF (ts : List Transition) : Prop where
  isobar : ∀ t ∈ ts, ∀ g ∈ t.symmetrise, g.isobar = true
  base : ∀ a ∈ ts, ∀ b ∈ ts, (a.baseName = b.baseName ↔ a.topo = b.topo)
  key : ∀ a ∈ ts, ∀ b ∈ ts, a.spinKey ≠ b.spinKey →
    ∀ g ∈ a.symmetrise, ∀ g' ∈ b.symmetrise, g.outer ≠ g'.outer

theorem wf_of_check (ts : List Transition) (h : wellFormed ts = true) : WF ts := by
  unfold wellFormed at h
  simp only [Bool.and_eq_true, List.all_eq_true] at h
  obtain ⟨h1, h2⟩ := h
  refine ⟨fun t ht g hg => h1 t ht g hg, ?_, ?_⟩
  · intro a ha b hb
    have := (h2 a ha b hb).1
    by_cases e1 : a.baseName = b.baseName <;> by_cases e2 : a.topo = b.topo <;> simp_all
  · intro a ha b hb hne g hg g' hg'
    have := (h2 a ha b hb).2
    simp only [Bool.or_eq_true, decide_eq_true_eq, List.all_eq_true, Bool.not_eq_true',
      decide_eq_false_iff_not] at this
    rcases this with e | e
    · exact absurd e hne
    · exact e g hg g' hg'

/-! ### the value of a transition at an outer configuration -/

/-- coherent contribution of transition `t` (all its symmetrised graphs) to configuration `h`. -/
def gval (ι : Interp R) (v : Variant) (cfg : Config) (m : Mapping) (sel : List DecayKey) (h : List Int) (t : Transition) : R :=
  denTerms ι ((t.symmetrise.filter fun g => g.outer = h).map (Transition.term v cfg m sel))

theorem denTerms_graphs_filter (ι : Interp R) (v : Variant) (cfg : Config) (m : Mapping) (sel : List DecayKey) (h : List Int)
    (c : List Transition) :
    denTerms ι (((graphsOf c).filter fun g => g.outer = h).map (Transition.term v cfg m sel))
      = (c.map (gval ι v cfg m sel h)).sum := by
  unfold graphsOf gval denTerms
  rw [List.filter_flatMap, List.map_flatMap, sum_flatMap]

/-- reading the `byProjection` entries at `h` gives exactly the graphs with outer projections `h`. -/
theorem sum_byProjection (ι : Interp R) (v : Variant) (cfg : Config) (m : Mapping) (sel : List DecayKey) (h : List Int)
    (gs : List Transition) :
    ((byProjection v cfg m sel gs).map fun e => if e.1 = h then denTerms ι e.2 else 0).sum
      = denTerms ι ((gs.filter fun g => g.outer = h).map (Transition.term v cfg m sel)) := by
  unfold byProjection
  simp only [List.map_map, Function.comp_def]
  by_cases hm : h ∈ dedupFirst (gs.map Transition.outer)
  · have := sum_ite_eq_of_mem (dedupFirst (gs.map Transition.outer)) (nodup_dedupFirst _) h
      (denTerms ι ((gs.filter fun g => g.outer = h).map (Transition.term v cfg m sel))) hm
    rw [← this]
    congr 1
    apply List.map_congr_left
    intro h' _
    by_cases e : h' = h
    · subst e; simp
    · have e' : ¬ h = h' := fun x => e x.symm
      simp [e, e']
  · have hz : (gs.filter fun g => g.outer = h) = [] := by
      rw [List.filter_eq_nil_iff]
      intro g hg
      have : g.outer ∈ gs.map Transition.outer := List.mem_map_of_mem hg
      intro e
      simp only [decide_eq_true_eq] at e
      exact hm ((mem_dedupFirst _ _).mpr (e ▸ this))
    rw [hz]
    simp only [List.map_nil, denTerms, List.sum_nil]
    apply List.sum_eq_zero
    intro x hx
    obtain ⟨h', hh', rfl⟩ := List.mem_map.mp hx
    have : ¬ h' = h := fun e => hm (e ▸ hh')
    simp [this]

/-! ### reading the dict -/

def symOf (w : AmpDef) : String × List Int := (w.base, w.idx)

def pairOf (ι : Interp R) (w : AmpDef) : (String × List Int) × R := (symOf w, denTerms ι w.terms)

theorem lookup_eq (ι : Interp R) (ws : List AmpDef) (b : String) (h : List Int) :
    denTerms ι (lookupLast ws b h) = lookupR (ws.reverse.map (pairOf ι)) (b, h) := by
  unfold lookupLast
  generalize ws.reverse = L
  induction L with
  | nil => simp [lookupR, denTerms]
  | cons w L ih =>
    have hdef : lookupR ((w :: L).map (pairOf ι)) (b, h)
        = if symOf w = (b, h) then denTerms ι w.terms else lookupR (L.map (pairOf ι)) (b, h) := rfl
    rw [hdef]
    simp only [List.find?_cons]
    by_cases hp : w.base = b ∧ w.idx = h
    · have : symOf w = (b, h) := by simp [symOf, hp.1, hp.2]
      simp [hp, this]
    · have : ¬ symOf w = (b, h) := by
        intro e
        simp only [symOf, Prod.mk.injEq] at e
        exact hp e
      simp only [hp, decide_false, this, if_false]
      exact ih

/-- summing the looked-up amplitudes over the bases picks every write with index `h` once. -/
theorem sum_bases (ι : Interp R) (ws : List AmpDef) (bases : List String) (h : List Int)
    (hws : (ws.map symOf).Nodup) (hb : bases.Nodup) (hmem : ∀ w ∈ ws, w.base ∈ bases) :
    (bases.map fun b => denTerms ι (lookupLast ws b h)).sum
      = (ws.map fun w => if w.idx = h then denTerms ι w.terms else 0).sum := by
  have h1 : (bases.map fun b => denTerms ι (lookupLast ws b h))
      = (bases.map fun b => (b, h)).map (lookupR (ws.reverse.map (pairOf ι))) := by
    rw [List.map_map]
    apply List.map_congr_left
    intro b _
    exact lookup_eq ι ws b h
  have hq : (bases.map fun b => (b, h)).Nodup :=
    hb.map (fun a b e => by simpa using congrArg Prod.fst e)
  have hL : ((ws.reverse.map (pairOf ι)).map (·.1)).Nodup := by
    rw [List.map_map]
    have : ((fun x : (String × List Int) × R => x.1) ∘ pairOf ι) = symOf := rfl
    rw [this, List.map_reverse]
    exact List.nodup_reverse.mpr hws
  rw [h1, sum_lookupR _ hq _ hL, sum_filter_eq_ite, List.map_map, List.map_reverse, List.sum_reverse]
  congr 1
  apply List.map_congr_left
  intro w hw
  simp only [Function.comp, pairOf, symOf]
  by_cases e : w.idx = h
  · simp [e, hmem w hw]
  · have : (w.base, w.idx) ∉ bases.map fun b => (b, h) := by
      intro hm
      obtain ⟨b, _, hb'⟩ := List.mem_map.mp hm
      exact e (congrArg Prod.snd hb').symm
    simp [e, this]

/-! ### structure of the writes of the (repaired) builder -/

theorem head_filter {α κ : Type} [DecidableEq κ] [Inhabited α] (key : α → κ) (l : List α) (k : κ)
    (hk : k ∈ l.map key) :
    (l.filter fun x => key x = k).headD default ∈ l ∧ key ((l.filter fun x => key x = k).headD default) = k := by
  obtain ⟨x, hx, hkx⟩ := List.mem_map.mp hk
  have hmem : x ∈ l.filter fun y => key y = k := by simp [List.mem_filter, hx, hkx]
  cases hl : l.filter fun y => key y = k with
  | nil => rw [hl] at hmem; cases hmem
  | cons a as =>
    have ha : a ∈ l.filter fun y => key y = k := by rw [hl]; simp
    have := List.mem_filter.mp ha
    exact ⟨this.1, by simpa using this.2⟩

theorem mem_cellWrites (v : Variant) (cfg : Config) (m : Mapping) (sel : List DecayKey) (c : List Transition) (w : AmpDef)
    (hw : w ∈ cellWrites v true cfg m sel c) :
    w.base = (c.headD default).baseName ∧ ∃ t ∈ c, ∃ g ∈ t.symmetrise, w.idx = g.outer := by
  unfold cellWrites byProjection at hw
  simp only [if_true, List.map_map, List.mem_map, Function.comp] at hw
  obtain ⟨h', hh', rfl⟩ := hw
  refine ⟨rfl, ?_⟩
  have := (mem_dedupFirst _ _).mp hh'
  obtain ⟨g, hg, rfl⟩ := List.mem_map.mp this
  unfold graphsOf at hg
  obtain ⟨t, ht, hgt⟩ := List.mem_flatMap.mp hg
  exact ⟨t, ht, g, hgt, rfl⟩

theorem cellWrites_syms_nodup (v : Variant) (cfg : Config) (m : Mapping) (sel : List DecayKey) (c : List Transition) :
    ((cellWrites v true cfg m sel c).map symOf).Nodup := by
  unfold cellWrites byProjection
  simp only [if_true, List.map_map]
  apply (nodup_dedupFirst _).map
  intro a b e
  simpa [Function.comp, symOf] using e

/-- all writes of the repaired builder. -/
def writesOf (v : Variant) (cfg : Config) (m : Mapping) (sel : List DecayKey) (ts : List Transition) : List AmpDef :=
  (cellsOf ts).flatMap fun g => g.flatMap (cellWrites v true cfg m sel)

def basesOf (ts : List Transition) : List String :=
  (groupByFirst Transition.topo ts).map fun c => (c.headD default).baseName

/-- a cell of the builder: its members are transitions of `ts` with one spin key and one topology;
its head is a member. -/
theorem cell_facts (ts : List Transition) (g : List (List Transition)) (hg : g ∈ cellsOf ts)
    (c : List Transition) (hc : c ∈ g) :
    (∀ t ∈ c, t ∈ ts) ∧ c.headD default ∈ c
      ∧ (∀ t ∈ c, t.spinKey = (c.headD default).spinKey) ∧ (∀ t ∈ c, t.topo = (c.headD default).topo)
      ∧ ∃ G, G ∈ groupByFirst Transition.spinKey ts ∧ g = groupByFirst Transition.topo G := by
  unfold cellsOf at hg
  obtain ⟨G, hG, rfl⟩ := List.mem_map.mp hg
  have pG := cell_props Transition.spinKey ts G hG
  have pc := cell_props Transition.topo G c hc
  refine ⟨fun t ht => pG.2.1 t (pc.2.1 t ht), pc.2.2.2, ?_, pc.2.2.1, G, hG, rfl⟩
  intro t ht
  have h1 := pG.2.2.1 t (pc.2.1 t ht)
  have h2 := pG.2.2.1 _ (pc.2.1 _ pc.2.2.2)
  rw [h1, h2]

theorem basesOf_nodup (ts : List Transition) (wf : WF ts) : (basesOf ts).Nodup := by
  unfold basesOf groupByFirst
  rw [List.map_map]
  apply (nodup_dedupFirst _).map_on
  intro τ hτ τ' hτ' e
  have h1 := head_filter Transition.topo ts τ ((mem_dedupFirst _ _).mp hτ)
  have h2 := head_filter Transition.topo ts τ' ((mem_dedupFirst _ _).mp hτ')
  have := (wf.base _ h1.1 _ h2.1).mp e
  rw [h1.2, h2.2] at this
  exact this

theorem base_mem_basesOf (ts : List Transition) (wf : WF ts) (t : Transition) (ht : t ∈ ts) :
    t.baseName ∈ basesOf ts := by
  unfold basesOf groupByFirst
  rw [List.map_map]
  have hτ : t.topo ∈ ts.map Transition.topo := List.mem_map_of_mem ht
  have h1 := head_filter Transition.topo ts t.topo hτ
  refine List.mem_map.mpr ⟨t.topo, (mem_dedupFirst _ _).mpr hτ, ?_⟩
  exact (wf.base _ h1.1 _ ht).mpr h1.2

theorem writes_base_mem (v : Variant) (cfg : Config) (m : Mapping) (sel : List DecayKey) (ts : List Transition) (wf : WF ts)
    (w : AmpDef) (hw : w ∈ writesOf v cfg m sel ts) : w.base ∈ basesOf ts := by
  unfold writesOf at hw
  obtain ⟨g, hg, hw⟩ := List.mem_flatMap.mp hw
  obtain ⟨c, hc, hw⟩ := List.mem_flatMap.mp hw
  have cf := cell_facts ts g hg c hc
  rw [(mem_cellWrites v cfg m sel c w hw).1]
  exact base_mem_basesOf ts wf _ (cf.1 _ cf.2.1)

theorem writes_syms_nodup (v : Variant) (cfg : Config) (m : Mapping) (sel : List DecayKey) (ts : List Transition) (wf : WF ts) :
    ((writesOf v cfg m sel ts).map symOf).Nodup := by
  unfold writesOf
  rw [List.map_flatMap, List.nodup_flatMap]
  constructor
  · -- inside one spin group
    intro g hg
    rw [List.map_flatMap, List.nodup_flatMap]
    constructor
    · intro c _
      exact cellWrites_syms_nodup v cfg m sel c
    · obtain ⟨G, hG, rfl⟩ : ∃ G, G ∈ groupByFirst Transition.spinKey ts ∧ g = groupByFirst Transition.topo G := by
        unfold cellsOf at hg
        obtain ⟨G, hG, rfl⟩ := List.mem_map.mp hg
        exact ⟨G, hG, rfl⟩
      have pG := cell_props Transition.spinKey ts G hG
      unfold groupByFirst
      rw [List.pairwise_map]
      apply List.Pairwise.imp_of_mem _ (nodup_dedupFirst (G.map Transition.topo))
      intro τ τ' hτ hτ' hne
      have h1 := head_filter Transition.topo G τ ((mem_dedupFirst _ _).mp hτ)
      have h2 := head_filter Transition.topo G τ' ((mem_dedupFirst _ _).mp hτ')
      intro s hs hs'
      obtain ⟨w, hw, rfl⟩ := List.mem_map.mp hs
      obtain ⟨w', hw', e⟩ := List.mem_map.mp hs'
      have b1 := (mem_cellWrites v cfg m sel _ w hw).1
      have b2 := (mem_cellWrites v cfg m sel _ w' hw').1
      have : w'.base = w.base := congrArg Prod.fst e
      rw [b1, b2] at this
      have := (wf.base _ (pG.2.1 _ h2.1) _ (pG.2.1 _ h1.1)).mp this
      rw [h1.2, h2.2] at this
      exact hne this.symm
  · -- different spin groups
    unfold cellsOf groupByFirst
    rw [List.map_map, List.pairwise_map]
    apply List.Pairwise.imp_of_mem _ (nodup_dedupFirst (ts.map Transition.spinKey))
    intro k k' hk hk' hne
    intro s hs hs'
    simp only [Function.comp] at hs hs'
    obtain ⟨w, hw, rfl⟩ := List.mem_map.mp hs
    obtain ⟨w', hw', e⟩ := List.mem_map.mp hs'
    obtain ⟨c, hc, hwc⟩ := List.mem_flatMap.mp hw
    obtain ⟨c', hc', hwc'⟩ := List.mem_flatMap.mp hw'
    obtain ⟨τ, _, rfl⟩ := List.mem_map.mp hc
    obtain ⟨τ', _, rfl⟩ := List.mem_map.mp hc'
    obtain ⟨_, t, ht, gr, hgr, hi⟩ := mem_cellWrites v cfg m sel _ w hwc
    obtain ⟨_, t', ht', gr', hgr', hi'⟩ := mem_cellWrites v cfg m sel _ w' hwc'
    have m1 := List.mem_filter.mp (List.mem_filter.mp ht).1
    have m2 := List.mem_filter.mp (List.mem_filter.mp ht').1
    have k1 : t.spinKey = k := by simpa using m1.2
    have k2 : t'.spinKey = k' := by simpa using m2.2
    have : w'.idx = w.idx := congrArg Prod.snd e
    rw [hi, hi'] at this
    exact wf.key t m1.1 t' m2.1 (by rw [k1, k2]; exact hne) gr hgr gr' hgr' this.symm

/-! ### adding the writes up -/

theorem sum_cellWrites (ι : Interp R) (v : Variant) (cfg : Config) (m : Mapping) (sel : List DecayKey) (h : List Int)
    (c : List Transition) :
    ((cellWrites v true cfg m sel c).map fun w => if w.idx = h then denTerms ι w.terms else 0).sum
      = (c.map (gval ι v cfg m sel h)).sum := by
  unfold cellWrites
  simp only [if_true, List.map_map, Function.comp_def]
  rw [← denTerms_graphs_filter, ← sum_byProjection]

theorem sum_writes (ι : Interp R) (v : Variant) (cfg : Config) (m : Mapping) (sel : List DecayKey) (h : List Int)
    (ts : List Transition) :
    ((writesOf v cfg m sel ts).map fun w => if w.idx = h then denTerms ι w.terms else 0).sum
      = (ts.map (gval ι v cfg m sel h)).sum := by
  unfold writesOf
  rw [sum_flatMap]
  simp only [sum_flatMap, sum_cellWrites]
  unfold cellsOf
  rw [List.map_map]
  simp only [Function.comp_def, sum_groupByFirst]

/-! ### the spec side -/

theorem spec_graphs_at (ι : Interp R) (v : Variant) (cfg : Config) (m : Mapping) (h : List Int)
    (ts : List Transition) (wf : WF ts) :
    denTerms ι (((ts.flatMap fun t => t.symmetrise.map fun g => (g.outer, g.specTerm v cfg m)).filter
        fun g => g.1 = h).map (·.2))
      = (ts.map (gval ι v cfg m (selectorKeys ts) h)).sum := by
  unfold denTerms
  rw [List.filter_flatMap, List.map_flatMap, sum_flatMap]
  congr 1
  apply List.map_congr_left
  intro t ht
  unfold gval denTerms
  rw [List.filter_map, List.map_map, List.map_map, List.map_map]
  congr 1
  apply List.map_congr_left
  intro g hg
  have hg' : g ∈ t.symmetrise := (List.mem_filter.mp hg).1
  simp only [Function.comp]
  rw [term_eq_specTerm v cfg m (selectorKeys ts) g (wf.isobar t ht g hg')
    (fun n hn => mem_selectorKeys ts t ht g hg' n hn)]

/-! ### the main statement -/

theorem impl_eq_spec (ι : Interp R) (v : Variant) (cfg : Config) (ts : List Transition)
    (hwf : wellFormed ts = true) :
    denImpl ι (impl v true cfg ts) = denSpec ι (spec v cfg ts) := by
  have wf := wf_of_check ts hwf
  unfold denImpl denSpec
  have hc : (impl v true cfg ts).configs = (spec v cfg ts).configs := rfl
  rw [hc]
  congr 1
  apply List.map_congr_left
  intro h _
  congr 1
  have hw : (impl v true cfg ts).writes
      = writesOf v cfg (registerAll cfg.flags (ts.map Transition.chain)) (selectorKeys ts) ts := rfl
  have hb : (impl v true cfg ts).bases = basesOf ts := rfl
  rw [hw, hb, sum_bases ι _ _ h (writes_syms_nodup v cfg _ _ ts wf) (basesOf_nodup ts wf)
    (writes_base_mem v cfg _ _ ts wf), sum_writes]
  exact (spec_graphs_at ι v cfg _ h ts wf).symm

end Ampverif.Lemmas.C02Regroup
