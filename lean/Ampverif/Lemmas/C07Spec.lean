/-
C07: the specification of the helicity-angle symbols (written from the docstrings of
`get_boost_chain_suffix`, `is_opposite_helicity_state` and `compute_helicity_angles`, with no
lookup by edge id) and the proof that the model's id-addressed recursion produces exactly it.
-/
import Ampverif.Lemmas.C07Tree

set_option linter.unusedSimpArgs false
set_option linter.unusedVariables false

namespace Ampverif.Lemmas.C07
open Ampverif.Model.Topology

/-! ## The documented naming scheme

"The generated subscripts describe the decay sequence from the right to the left, separated by
commas. Resonance edge IDs are expressed as a sum of the final state IDs that lie below them. The
generated label does not state the top-most edge (the initial state)."

So the symbol of a state with final states `target`, seen in the helicity frame reached by
boosting successively into the subsystems `chain` (outermost first), is
`_{target}^{chain reversed, comma separated}`. -/

def renderName (target : List Int) (chain : List (List Int)) : List Char :=
  renderGroups (concatDigits target :: chain.reverse.map concatDigits)

/-- "state 0 is never an opposite helicity state; the sibling of an opposite helicity state is a
helicity state": the helicity child is the one whose sorted tuple of final-state ids is smaller -/
def helicityChild (a b : Tree) : Tree := if lexGt a.attached b.attached then b else a
def oppositeChild (a b : Tree) : Tree := if lexGt a.attached b.attached then a else b

/-- every decay node below (and including) the edge `s`, with the chain of subsystems its
helicity frame is reached through: the frame of the initial state is the frame the momenta are
given in (`chain = []`); the helicity frame of a decaying state is reached from the frame of its
parent by boosting into the state's own subsystem. -/
def nodesOf : List (List Int) → Tree → List (List (List Int) × Tree × Tree)
  | _, .leaf _ => []
  | chain, .node _ a b =>
    (chain, a, b) :: (nodesOf (chain ++ [a.attached]) a ++ nodesOf (chain ++ [b.attached]) b)

/-- DOCUMENTED meaning of the angle pair of a decay node `a b` seen through `chain`:
named after the helicity child, and "the angles of the helicity state" -/
def docWrite (n : List (List Int) × Tree × Tree) : Write :=
  ⟨renderName (helicityChild n.2.1 n.2.2).attached n.1,
   ⟨n.1, (helicityChild n.2.1 n.2.2).attached⟩⟩

/-- the documented helicity angles of a topology: one pair per decay node -/
def docAngles (chain : List (List Int)) (s : Tree) : List Write := (nodesOf chain s).map docWrite

/-! ## Structural form of the recursion (no lookups) -/

def specChild (v : Variant) (chain : List (List Int)) (c sib : Tree) (sub : List Write) :
    List Write :=
  match c with
  | .leaf _ => []
  | .node _ _ _ =>
    let h := if lexGt c.attached sib.attached then sib else c
    let target := match v.angleSource with
      | .decaying => c.attached
      | .helicityState => h.attached
    ⟨renderName h.attached chain, ⟨chain, target⟩⟩ :: sub

def specWrites (v : Variant) : List (List Int) → Tree → List Write
  | _, .leaf _ => []
  | chain, .node _ a b =>
    let c0 := if a.id ≤ b.id then a else b
    let c1 := if a.id ≤ b.id then b else a
    let first : List Write :=
      if a.isLeaf && b.isLeaf then
        let h := if lexGt c0.attached c1.attached then c1 else c0
        [⟨renderName h.attached chain, ⟨chain, h.attached⟩⟩]
      else []
    let wa := specChild v chain a b (specWrites v (chain ++ [a.attached]) a)
    let wb := specChild v chain b a (specWrites v (chain ++ [b.attached]) b)
    first ++ (if a.id ≤ b.id then wa ++ wb else wb ++ wa)

/-! ## Names computed by walking up the parent pointers = names rendered from the chain -/

def chainOf (p : List Tree) : List (List Int) := (p.drop 1).map Tree.attached

theorem chainOf_snoc {p : List Tree} (hp : p ≠ []) (a : Tree) :
    chainOf (p ++ [a]) = chainOf p ++ [a.attached] := by
  cases p with
  | nil => exact absurd rfl hp
  | cons r rest => simp [chainOf]

theorem At.anc_nodes {t s : Tree} {anc : List Tree} (h : At t anc s) :
    ∀ p ∈ anc, p.isLeaf = false := by
  induction h with
  | here t => intro p hp; cases hp
  | left _ ih => intro p hp; simp at hp; rcases hp with rfl | hp; rfl; exact ih p hp
  | right _ ih => intro p hp; simp at hp; rcases hp with rfl | hp; rfl; exact ih p hp

theorem sortInts_single (i : Int) : sortInts [i] = [i] := by simp [sortInts, insertSorted]

theorem labelOf_eq (s : Tree) : labelOf s = concatDigits s.attached := by
  cases s with
  | leaf i => simp [labelOf, Tree.attached, Tree.leaves, sortInts_single, concatDigits]
  | node i a b => simp [labelOf]

theorem suffix_child {t : Tree} {anc : List Tree} {p c : Tree} (hw : WF t)
    (h : At t (anc ++ [p]) c) : suffixE t c.id = renderName c.attached (chainOf (anc ++ [p])) := by
  have hp := pathTo_at hw h
  have hlab : labelOf = fun x => concatDigits x.attached := funext labelOf_eq
  cases anc with
  | nil =>
    simp [suffixE, boostChainSuffix, suffixGroups, hp, renderName, chainOf, labelOf_eq]
  | cons r rest =>
    simp [suffixE, boostChainSuffix, suffixGroups, hp, renderName, chainOf, hlab,
      List.map_reverse, Function.comp_def]

/-! ## The recursion equals its structural form -/

theorem childWrites_eq {v : Variant} {t : Tree} {anc : List Tree} {i : Int} {a b : Tree}
    (hw : WF t) (h : At t anc (.node i a b)) (sub : List Write) :
    childWrites v t (chainOf (anc ++ [.node i a b])) a sub
      = specChild v (chainOf (anc ++ [.node i a b])) a b sub ∧
    childWrites v t (chainOf (anc ++ [.node i a b])) b sub
      = specChild v (chainOf (anc ++ [.node i a b])) b a sub := by
  have hl := h.snoc_left
  have hr := h.snoc_right
  have sl := suffix_child hw hl
  have sr := suffix_child hw hr
  have ol := isOpposite_left hw h
  have orr := isOpposite_right hw h
  have al := attachedE_at hw hl
  have ar := attachedE_at hw hr
  have bl := sibling_left hw h
  have br := sibling_right hw h
  constructor
  · cases ha : a with
    | leaf j => simp [childWrites, specChild]
    | node j x y =>
      subst ha
      simp only [childWrites, specChild]
      rw [ol, bl, al]
      by_cases hgt : lexGt (Tree.node j x y).attached b.attached
      · rcases v with ⟨_ | _⟩ <;> simp [hgt, ar, sr]
      · rcases v with ⟨_ | _⟩ <;> simp [hgt, al, sl]
  · cases hb : b with
    | leaf j => simp [childWrites, specChild]
    | node j x y =>
      subst hb
      simp only [childWrites, specChild]
      rw [orr, br, ar]
      by_cases hgt : lexGt (Tree.node j x y).attached a.attached
      · rcases v with ⟨_ | _⟩ <;> simp [hgt, al, sl]
      · rcases v with ⟨_ | _⟩ <;> simp [hgt, ar, sr]

theorem recAngles_eq (v : Variant) {t : Tree} (hw : WF t) :
    ∀ (s : Tree) (anc : List Tree), At t anc s →
      recAngles v t (chainOf (anc ++ [s])) s = specWrites v (chainOf (anc ++ [s])) s := by
  intro s
  induction s with
  | leaf i => intro anc _; simp [recAngles, specWrites]
  | node i a b iha ihb =>
    intro anc h
    have hl := h.snoc_left
    have hr := h.snoc_right
    have al := attachedE_at hw hl
    have ar := attachedE_at hw hr
    have ca : chainOf (anc ++ [Tree.node i a b]) ++ [a.attached]
        = chainOf ((anc ++ [Tree.node i a b]) ++ [a]) := (chainOf_snoc (by simp) a).symm
    have cb : chainOf (anc ++ [Tree.node i a b]) ++ [b.attached]
        = chainOf ((anc ++ [Tree.node i a b]) ++ [b]) := (chainOf_snoc (by simp) b).symm
    have ra := iha _ hl
    have rb := ihb _ hr
    have cwa := fun sub => (childWrites_eq (v := v) hw h sub).1
    have cwb := fun sub => (childWrites_eq (v := v) hw h sub).2
    have sl := suffix_child hw hl
    have sr := suffix_child hw hr
    have ol := isOpposite_left hw h
    have orr := isOpposite_right hw h
    unfold recAngles specWrites
    simp only [al, ar, ca, cb, ra, rb, cwa, cwb]
    congr 1
    have fin : ∀ c : Tree, c.isLeaf = true → [c.id] = c.attached := by
      intro c hc; cases c <;> simp_all [Tree.isLeaf, Tree.attached, Tree.leaves, sortInts_single, Tree.id]
    by_cases hle : a.id ≤ b.id
    · simp only [hle, ↓reduceIte, ol]
      by_cases hgt : lexGt a.attached b.attached
      · simp only [hgt, ↓reduceIte, sr]
        by_cases hb : b.isLeaf = true
        · simp [hb, fin b hb, sl, sr]
        · simp [hb]
      · simp only [hgt, ↓reduceIte, sl]
        by_cases ha : a.isLeaf = true
        · simp [ha, fin a ha, sl, sr]
        · simp [ha]
    · simp only [hle, ↓reduceIte, orr]
      by_cases hgt : lexGt b.attached a.attached
      · simp only [hgt, ↓reduceIte, sl]
        by_cases ha : a.isLeaf = true
        · simp [ha, fin a ha, sl, sr]
        · simp [ha]
      · simp only [hgt, ↓reduceIte, sr]
        by_cases hb : b.isLeaf = true
        · simp [hb, fin b hb, sl, sr]
        · simp [hb]

/-- `compute_helicity_angles` (as modelled, addressing everything by edge id) makes exactly the
assignments of the structural form, in the same order -/
theorem angleWrites_eq_spec (v : Variant) {t : Tree} (hw : WF t) :
    angleWrites v t = specWrites v [] t := by
  have := recAngles_eq v hw t [] (.here t)
  simpa [angleWrites, chainOf] using this

end Ampverif.Lemmas.C07
