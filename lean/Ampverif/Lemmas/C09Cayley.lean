/-
C09 helper lemmas — the Cayley transform of a Hermitian matrix, for EVERY matrix size.

Everything is about `Matrix n n ℂ` for an arbitrary finite index type `n` (so in particular
`Fin n` for all `n`). No reference to generated definitions.
-/
import Mathlib.LinearAlgebra.Matrix.PosDef
import Mathlib.LinearAlgebra.Matrix.NonsingularInverse
import Mathlib.LinearAlgebra.Matrix.Hermitian
import Mathlib.LinearAlgebra.Matrix.Symmetric
import Mathlib.Analysis.Complex.Order
import Mathlib.Analysis.RCLike.Basic
import Mathlib.Analysis.Complex.Basic
import Mathlib.Tactic.NoncommRing
import Mathlib.Tactic.Ring

set_option linter.unusedSectionVars false

namespace Ampverif.Lemmas.C09
open Matrix Complex
open scoped ComplexOrder

variable {n : Type*} [Fintype n] [DecidableEq n]

/-- The matrix `1 − iK`. -/
noncomputable def D (K : Matrix n n ℂ) : Matrix n n ℂ := 1 - Complex.I • K

/-- The T-matrix `K (1 − iK)⁻¹`. -/
noncomputable def T (K : Matrix n n ℂ) : Matrix n n ℂ := K * (D K)⁻¹

/-- The S-matrix `1 + 2iT`. -/
noncomputable def S (K : Matrix n n ℂ) : Matrix n n ℂ := 1 + (2 * Complex.I) • T K

theorem D_conjTranspose {K : Matrix n n ℂ} (hK : K.IsHermitian) :
    (D K)ᴴ = 1 + Complex.I • K := by
  unfold D
  rw [conjTranspose_sub, conjTranspose_one, conjTranspose_smul, hK.eq]
  simp [sub_eq_add_neg]

/-- `(1 − iK)ᴴ (1 − iK) = 1 + KᴴK` for Hermitian `K`. -/
theorem D_gram {K : Matrix n n ℂ} (hK : K.IsHermitian) :
    (D K)ᴴ * D K = 1 + Kᴴ * K := by
  rw [D_conjTranspose hK, hK.eq]
  unfold D
  have h : (Complex.I • K) * (Complex.I • K) = -(K * K) := by
    rw [smul_mul_smul_comm, Complex.I_mul_I]; simp
  generalize Complex.I • K = J at h
  calc (1 + J) * (1 - J) = 1 - J * J := by noncomm_ring
    _ = 1 + K * K := by rw [h]; noncomm_ring

/-- For Hermitian `K` the matrix `1 − iK` is invertible (its Gram matrix `1 + KᴴK` is positive
definite). No hypothesis on the size or on the eigenvalues. -/
theorem isUnit_det_D {K : Matrix n n ℂ} (hK : K.IsHermitian) : IsUnit (D K).det := by
  have hpd : (1 + Kᴴ * K).PosDef :=
    Matrix.PosDef.one.add_posSemidef (posSemidef_conjTranspose_mul_self K)
  have hu : IsUnit ((D K)ᴴ * D K) := by rw [D_gram hK]; exact hpd.isUnit
  have hdet : IsUnit ((D K)ᴴ * D K).det := (Matrix.isUnit_iff_isUnit_det _).1 hu
  rw [det_mul] at hdet
  exact isUnit_of_mul_isUnit_right hdet

/-- `K` commutes with `(1 − iK)⁻¹`. -/
theorem K_comm_Dinv (K : Matrix n n ℂ) (h : IsUnit (D K).det) :
    K * (D K)⁻¹ = (D K)⁻¹ * K := by
  have hc : K * D K = D K * K := by unfold D; noncomm_ring
  calc K * (D K)⁻¹ = (D K)⁻¹ * (D K * K) * (D K)⁻¹ := by
        rw [← Matrix.mul_assoc, nonsing_inv_mul _ h, Matrix.one_mul]
    _ = (D K)⁻¹ * (K * D K) * (D K)⁻¹ := by rw [hc]
    _ = (D K)⁻¹ * K := by
        rw [Matrix.mul_assoc, Matrix.mul_assoc, mul_nonsing_inv _ h, Matrix.mul_one]

/-- A left solution of `X (1 − iK) = K` is `K (1 − iK)⁻¹`. -/
theorem eq_T_of_mul_D {E K : Matrix n n ℂ} (h : IsUnit (D K).det) (hE : E * D K = K) :
    E = T K := by
  unfold T
  calc E = E * (D K * (D K)⁻¹) := by rw [mul_nonsing_inv _ h, Matrix.mul_one]
    _ = (E * D K) * (D K)⁻¹ := by rw [Matrix.mul_assoc]
    _ = K * (D K)⁻¹ := by rw [hE]

/-- `S = (1 + iK)(1 − iK)⁻¹`. -/
theorem S_eq (K : Matrix n n ℂ) (h : IsUnit (D K).det) :
    S K = (1 + Complex.I • K) * (D K)⁻¹ := by
  unfold S T
  have h1 : (1 : Matrix n n ℂ) = D K * (D K)⁻¹ := (mul_nonsing_inv _ h).symm
  conv_lhs => rw [h1]
  rw [← Matrix.smul_mul, ← Matrix.add_mul]
  congr 1
  unfold D
  rw [mul_smul]
  module

/-- **Cayley transform, all sizes.** For Hermitian `K` with `1 − iK` invertible,
`S = 1 + 2i K(1−iK)⁻¹` is unitary. -/
theorem S_unitary_of_isUnit {K : Matrix n n ℂ} (hK : K.IsHermitian) (h : IsUnit (D K).det) :
    (S K)ᴴ * S K = 1 := by
  have hA : (1 + Complex.I • K) = (D K)ᴴ := (D_conjTranspose hK).symm
  have h' : IsUnit ((D K)ᴴ).det := by rw [det_conjTranspose]; exact h.star
  rw [S_eq K h, hA, conjTranspose_mul, conjTranspose_conjTranspose, conjTranspose_nonsing_inv]
  -- ((Dᴴ)⁻¹ * D) * (Dᴴ * D⁻¹), and D, Dᴴ commute
  have hcomm : D K * (D K)ᴴ = (D K)ᴴ * D K := by
    rw [D_conjTranspose hK]; unfold D
    generalize Complex.I • K = J
    noncomm_ring
  calc (D K)ᴴ⁻¹ * D K * ((D K)ᴴ * (D K)⁻¹)
      = (D K)ᴴ⁻¹ * (D K * (D K)ᴴ) * (D K)⁻¹ := by simp only [Matrix.mul_assoc]
    _ = (D K)ᴴ⁻¹ * ((D K)ᴴ * D K) * (D K)⁻¹ := by rw [hcomm]
    _ = ((D K)ᴴ⁻¹ * (D K)ᴴ) * (D K * (D K)⁻¹) := by simp only [Matrix.mul_assoc]
    _ = 1 := by rw [nonsing_inv_mul _ h', mul_nonsing_inv _ h, Matrix.one_mul]

/-- **Unitarity for every size**: Hermitian `K` ⇒ `S†S = 1` (invertibility is proved, not
assumed). -/
theorem S_unitary {K : Matrix n n ℂ} (hK : K.IsHermitian) : (S K)ᴴ * S K = 1 :=
  S_unitary_of_isUnit hK (isUnit_det_D hK)

/-- **Symmetry for every size**: `Kᵀ = K` ⇒ `Tᵀ = T` whenever `1 − iK` is invertible. -/
theorem T_symm_of_isUnit {K : Matrix n n ℂ} (hK : Kᵀ = K) (h : IsUnit (D K).det) :
    (T K)ᵀ = T K := by
  unfold T
  rw [transpose_mul, transpose_nonsing_inv]
  have : (D K)ᵀ = D K := by
    unfold D; rw [transpose_sub, transpose_one, transpose_smul, hK]
  rw [this, hK]
  exact (K_comm_Dinv K h).symm

/-- A real symmetric matrix (entries are casts of reals) is Hermitian. -/
theorem isHermitian_of_real_symm (k : n → n → ℝ) (hs : ∀ i j, k i j = k j i) :
    (Matrix.of fun i j => ((k i j : ℝ) : ℂ)).IsHermitian := by
  ext i j
  simp [conjTranspose_apply, hs j i]

theorem transpose_of_real_symm (k : n → n → ℝ) (hs : ∀ i j, k i j = k j i) :
    (Matrix.of fun i j => ((k i j : ℝ) : ℂ))ᵀ = Matrix.of fun i j => ((k i j : ℝ) : ℂ) := by
  ext i j
  simp [transpose_apply, hs j i]

/-! ### Relativistic form: phase-space factors as a positive diagonal matrix -/

/-- The relativistic `T̂ = K̂ (1 − iρK̂)⁻¹`. -/
noncomputable def That (ρ Kh : Matrix n n ℂ) : Matrix n n ℂ := Kh * (1 - Complex.I • (ρ * Kh))⁻¹

/-- `1 − iR²K̂` is invertible when `R` and `1 − i RK̂R` are (it is similar to the latter). -/
theorem isUnit_det_rel_of (R Kh : Matrix n n ℂ) (hR : IsUnit R.det)
    (h : IsUnit (D (R * Kh * R)).det) :
    IsUnit (1 - Complex.I • (R * R * Kh)).det := by
  set A : Matrix n n ℂ := 1 - Complex.I • (R * R * Kh) with hAdef
  set B : Matrix n n ℂ := D (R * Kh * R) with hBdef
  have hAB : A * R = R * B := by
    rw [hAdef, hBdef]; unfold D
    simp only [Matrix.sub_mul, Matrix.mul_sub, Matrix.one_mul, Matrix.mul_one,
      Matrix.smul_mul, Matrix.mul_smul, Matrix.mul_assoc]
  have h1 : A = R * B * R⁻¹ := by
    rw [← hAB, Matrix.mul_assoc, mul_nonsing_inv _ hR, Matrix.mul_one]
  rw [h1, det_mul, det_mul]
  exact (hR.mul h).mul ((Matrix.isUnit_nonsing_inv_det_iff).2 hR)

/-- A left solution of `X (1 − iρK̂) = K̂` is `K̂ (1 − iρK̂)⁻¹`. -/
theorem eq_That_of_mul {E ρ Kh : Matrix n n ℂ} (h : IsUnit (1 - Complex.I • (ρ * Kh)).det)
    (hE : E * (1 - Complex.I • (ρ * Kh)) = Kh) : E = That ρ Kh := by
  unfold That
  calc E = E * ((1 - Complex.I • (ρ * Kh)) * (1 - Complex.I • (ρ * Kh))⁻¹) := by
        rw [mul_nonsing_inv _ h, Matrix.mul_one]
    _ = (E * (1 - Complex.I • (ρ * Kh))) * (1 - Complex.I • (ρ * Kh))⁻¹ := by
        rw [Matrix.mul_assoc]
    _ = Kh * (1 - Complex.I • (ρ * Kh))⁻¹ := by rw [hE]

/-- `√ρ K̂ (1 − iρK̂)⁻¹ √ρ = K'(1 − iK')⁻¹` with `K' = √ρ K̂ √ρ`, for an invertible `R = √ρ`
(`ρ = R²`) and `1 − iK'` invertible. -/
theorem rel_reduction (R Kh : Matrix n n ℂ) (hR : IsUnit R.det)
    (h : IsUnit (D (R * Kh * R)).det) :
    R * That (R * R) Kh * R = T (R * Kh * R) := by
  have hA := isUnit_det_rel_of R Kh hR h
  unfold That T
  set A : Matrix n n ℂ := 1 - Complex.I • (R * R * Kh) with hAdef
  set B : Matrix n n ℂ := D (R * Kh * R) with hBdef
  have hAB : A * R = R * B := by
    rw [hAdef, hBdef]; unfold D
    simp only [Matrix.sub_mul, Matrix.mul_sub, Matrix.one_mul, Matrix.mul_one,
      Matrix.smul_mul, Matrix.mul_smul, Matrix.mul_assoc]
  have key : A⁻¹ * R = R * B⁻¹ := by
    calc A⁻¹ * R = A⁻¹ * (R * B) * B⁻¹ := by
          rw [Matrix.mul_assoc, Matrix.mul_assoc, mul_nonsing_inv _ h, Matrix.mul_one]
      _ = A⁻¹ * (A * R) * B⁻¹ := by rw [hAB]
      _ = R * B⁻¹ := by rw [← Matrix.mul_assoc A⁻¹, nonsing_inv_mul _ hA, Matrix.one_mul]
  calc R * (Kh * A⁻¹) * R = R * Kh * (A⁻¹ * R) := by simp only [Matrix.mul_assoc]
    _ = R * Kh * (R * B⁻¹) := by rw [key]
    _ = R * Kh * R * B⁻¹ := by simp only [Matrix.mul_assoc]

/-- Diagonal matrix of square roots of positive reals, as a complex matrix. -/
noncomputable def sqrtDiag (r : n → ℝ) : Matrix n n ℂ :=
  Matrix.diagonal fun i => ((Real.sqrt (r i) : ℝ) : ℂ)

theorem sqrtDiag_mul_self (r : n → ℝ) (hr : ∀ i, 0 ≤ r i) :
    sqrtDiag r * sqrtDiag r = Matrix.diagonal fun i => ((r i : ℝ) : ℂ) := by
  unfold sqrtDiag
  rw [diagonal_mul_diagonal]
  congr 1; funext i
  rw [← Complex.ofReal_mul, Real.mul_self_sqrt (hr i)]

theorem sqrtDiag_isHermitian (r : n → ℝ) : (sqrtDiag r).IsHermitian := by
  unfold sqrtDiag
  rw [Matrix.IsHermitian, diagonal_conjTranspose]
  congr 1; funext i; simp

theorem sqrtDiag_det_isUnit (r : n → ℝ) (hr : ∀ i, 0 < r i) : IsUnit (sqrtDiag r).det := by
  unfold sqrtDiag
  rw [det_diagonal, isUnit_iff_ne_zero]
  apply Finset.prod_ne_zero_iff.2
  intro i _
  exact_mod_cast (Real.sqrt_pos.2 (hr i)).ne'

/-- `K' = √ρ K̂ √ρ` is Hermitian when `K̂` is. -/
theorem conj_sqrtDiag_isHermitian (r : n → ℝ) {Kh : Matrix n n ℂ} (hK : Kh.IsHermitian) :
    (sqrtDiag r * Kh * sqrtDiag r).IsHermitian := by
  have := sqrtDiag_isHermitian r
  unfold Matrix.IsHermitian at *
  rw [conjTranspose_mul, conjTranspose_mul, this, hK, Matrix.mul_assoc]

/-- The relativistic T-matrix `T = √ρ T̂ √ρ` with `ρ = diag(r)`. -/
noncomputable def Trel (r : n → ℝ) (Kh : Matrix n n ℂ) : Matrix n n ℂ :=
  sqrtDiag r * That (Matrix.diagonal fun i => ((r i : ℝ) : ℂ)) Kh * sqrtDiag r

theorem Trel_eq (r : n → ℝ) (hr : ∀ i, 0 < r i) {Kh : Matrix n n ℂ} (hK : Kh.IsHermitian) :
    Trel r Kh = T (sqrtDiag r * Kh * sqrtDiag r) := by
  unfold Trel
  rw [← sqrtDiag_mul_self r (fun i => (hr i).le)]
  exact rel_reduction _ _ (sqrtDiag_det_isUnit r hr)
    (isUnit_det_D (conj_sqrtDiag_isHermitian r hK))

/-- `1 − iρK̂` is invertible for positive diagonal `ρ` and Hermitian `K̂`. -/
theorem isUnit_det_rel (r : n → ℝ) (hr : ∀ i, 0 < r i) {Kh : Matrix n n ℂ} (hK : Kh.IsHermitian) :
    IsUnit (1 - Complex.I • ((Matrix.diagonal fun i => ((r i : ℝ) : ℂ)) * Kh)).det := by
  rw [← sqrtDiag_mul_self r (fun i => (hr i).le)]
  exact isUnit_det_rel_of _ _ (sqrtDiag_det_isUnit r hr)
    (isUnit_det_D (conj_sqrtDiag_isHermitian r hK))

/-- **Relativistic unitarity, all sizes**: `ρ` positive diagonal, `K̂` Hermitian ⇒
`S = 1 + 2i √ρ K̂(1−iρK̂)⁻¹ √ρ` is unitary. -/
theorem Srel_unitary (r : n → ℝ) (hr : ∀ i, 0 < r i) {Kh : Matrix n n ℂ} (hK : Kh.IsHermitian) :
    (1 + (2 * Complex.I) • Trel r Kh)ᴴ * (1 + (2 * Complex.I) • Trel r Kh) = 1 := by
  rw [Trel_eq r hr hK]
  exact S_unitary (conj_sqrtDiag_isHermitian r hK)

/-- **Relativistic symmetry, all sizes**: `K̂ᵀ = K̂` Hermitian ⇒ `Tᵀ = T`. -/
theorem Trel_symm (r : n → ℝ) (hr : ∀ i, 0 < r i) {Kh : Matrix n n ℂ} (hK : Kh.IsHermitian)
    (hs : Khᵀ = Kh) : (Trel r Kh)ᵀ = Trel r Kh := by
  rw [Trel_eq r hr hK]
  apply T_symm_of_isUnit _ (isUnit_det_D (conj_sqrtDiag_isHermitian r hK))
  have hd : (sqrtDiag r)ᵀ = sqrtDiag r := by unfold sqrtDiag; exact diagonal_transpose _
  rw [transpose_mul, transpose_mul, hd, hs, Matrix.mul_assoc]

/-! ### Pole parametrisation, any number of poles -/

/-- `K_ij = Σ_R g_R,i g_R,j / (m_R² − s)` over any finite pole set. -/
noncomputable def poleK {ι : Type*} (poles : Finset ι) (g : ι → n → ℝ) (m : ι → ℝ) (s : ℝ)
    (i j : n) : ℝ :=
  ∑ R ∈ poles, g R i * g R j / (m R ^ 2 - s)

theorem poleK_symm {ι : Type*} (poles : Finset ι) (g : ι → n → ℝ) (m : ι → ℝ) (s : ℝ)
    (i j : n) : poleK poles g m s i j = poleK poles g m s j i := by
  unfold poleK
  apply Finset.sum_congr rfl
  intro R _
  rw [mul_comm]

/-- The pole K-matrix as a complex matrix. -/
noncomputable def poleKMatrix {ι : Type*} (poles : Finset ι) (g : ι → n → ℝ) (m : ι → ℝ)
    (s : ℝ) : Matrix n n ℂ :=
  Matrix.of fun i j => ((poleK poles g m s i j : ℝ) : ℂ)

end Ampverif.Lemmas.C09
