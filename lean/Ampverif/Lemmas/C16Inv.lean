/-
C16 — helper lemmas: the directory invariant of the fixed variant and its preservation by every
operation (call / step / crash) of every process.  Core Lean only.
-/
import Ampverif.Model.C16Cache

namespace Ampverif.Model.C16

/-- A file content is *honest* when, if it loads as a record `(e, x)`, then `x = doit e`.
Truncated records, garbage, empty files and old-format files are honest (they do not load as a
record); so is every complete record written by a call. -/
def Honest (w : World) (b : Bytes) : Prop := ∀ e x, load b = .pair e x → x = w.doit e

theorem honest_nil (w : World) : Honest w [] := by
  intro e x h; simp [load] at h

theorem load_serNew (e : Expr) (v : Val) : load (serNew e v) = .pair e v := rfl
theorem load_serOld (v : Val) : load (serOld v) = .bare v := rfl

/-- every strict prefix of a record fails to load -/
theorem load_take_serNew (e : Expr) (v : Val) (k : Nat) (hk : k < 4) :
    load ((serNew e v).take k) = .fail := by
  match k, hk with
  | 0, _ => rfl
  | 1, _ => rfl
  | 2, _ => rfl
  | 3, _ => rfl

theorem load_take_serOld (v : Val) (k : Nat) (hk : k < 3) :
    load ((serOld v).take k) = .fail := by
  match k, hk with
  | 0, _ => rfl
  | 1, _ => rfl
  | 2, _ => rfl

theorem honest_take (w : World) (e : Expr) (k : Nat) :
    Honest w ((serNew e (w.doit e)).take k) := by
  intro e' x h
  by_cases hk : k < 4
  · rw [load_take_serNew e _ k hk] at h; cases h
  · have : (serNew e (w.doit e)).take k = serNew e (w.doit e) := by
      apply List.take_of_length_le; simp [serNew]; omega
    rw [this, load_serNew] at h
    cases h; rfl

theorem writeAt_take (l : Bytes) (k : Nat) (t : Tok) (h : l[k]? = some t) :
    writeAt (l.take k) k t = l.take (k + 1) := by
  induction l generalizing k with
  | nil => simp at h
  | cons b bs ih =>
    cases k with
    | zero =>
      simp at h
      simp [writeAt, h]
    | succ k =>
      simp at h
      simp [writeAt, ih k h]

/-- states of a process in which it holds no obligation of the invariant -/
def PC.plain : PC → Prop
  | .writing .. => False
  | .willRename .. => False
  | _ => True

/-- The invariant of the fixed variant. -/
structure Inv (w : World) (s : State) : Prop where
  /-- every inode (reachable or not, final or temp) is honest -/
  honest : ∀ i, Honest w (s.fs.ino i)
  /-- no hard links -/
  inj : ∀ n1 n2 h, s.fs.dir n1 = some h → s.fs.dir n2 = some h → n1 = n2
  bound : ∀ n h, s.fs.dir n = some h → h < s.fs.next
  /-- a writer's inode is the one behind ITS temp name and holds a prefix of its record -/
  writer : ∀ p m e h k, s.pc p = .writing m e h k →
    s.fs.dir (.temp m (w.key m e) p) = some h ∧ s.fs.ino h = (serNew e (w.doit e)).take k
  /-- a process about to rename still has its temp file -/
  renamer : ∀ p m e, s.pc p = .willRename m e →
    ∃ h, s.fs.dir (.temp m (w.key m e) p) = some h

theorem Inv.setPc_plain {w : World} {s : State} (hi : Inv w s) (p : Nat) (c : PC)
    (hc : c.plain) : Inv w (setPc s p c) where
  honest := hi.honest
  inj := hi.inj
  bound := hi.bound
  writer := by
    intro q m e h k hq
    simp only [setPc] at hq
    by_cases hqp : q = p
    · simp [hqp] at hq; subst hq; exact absurd hc (by simp [PC.plain])
    · simp [hqp] at hq; exact hi.writer q m e h k hq
  renamer := by
    intro q m e hq
    simp only [setPc] at hq
    by_cases hqp : q = p
    · simp [hqp] at hq; subst hq; exact absurd hc (by simp [PC.plain])
    · simp [hqp] at hq; exact hi.renamer q m e hq

theorem temp_ne_of_ne {m m' : Mode} {a a' p q : Nat} (h : q ≠ p) :
    Name.temp m' a' q ≠ Name.temp m a p := by
  intro hh; injection hh with _ _ h3; exact h h3

/-! ### the four steps that change the file system or create an obligation -/

/-- `open(tmp, "wb")` -/
theorem Inv.openTrunc {w : World} {s : State} (hi : Inv w s) (p : Nat) (m : Mode) (e : Expr) :
    Inv w (setPc { s with fs := (openTrunc s.fs (.temp m (w.key m e) p)).1 } p
      (.writing m e (openTrunc s.fs (.temp m (w.key m e) p)).2 0)) := by
  unfold C16.openTrunc
  cases hd : s.fs.dir (.temp m (w.key m e) p) with
  | some h =>
    refine ⟨?_, hi.inj, hi.bound, ?_, ?_⟩
    · intro i
      by_cases hih : i = h
      · simp [setPc, updIno, hih]; exact honest_nil w
      · simp [setPc, updIno, hih]; exact hi.honest i
    · intro q m' e' h' k' hq
      by_cases hqp : q = p
      · subst hqp
        simp [setPc] at hq
        obtain ⟨rfl, rfl, rfl, rfl⟩ := hq
        exact ⟨hd, by simp [setPc, updIno]⟩
      · simp [setPc, hqp] at hq
        obtain ⟨h1, h2⟩ := hi.writer q m' e' h' k' hq
        have hne : h' ≠ h := by
          intro heq; subst heq
          exact temp_ne_of_ne hqp (hi.inj _ _ _ h1 hd)
        exact ⟨h1, by simp [setPc, updIno, hne]; exact h2⟩
    · intro q m' e' hq
      by_cases hqp : q = p
      · subst hqp; simp [setPc] at hq
      · simp [setPc, hqp] at hq
        exact hi.renamer q m' e' hq
  | none =>
    refine ⟨?_, ?_, ?_, ?_, ?_⟩
    · intro i
      by_cases hih : i = s.fs.next
      · simp [setPc, updIno, hih]; exact honest_nil w
      · simp [setPc, updIno, hih]; exact hi.honest i
    · intro n1 n2 h' h1 h2
      simp only [setPc, updDir] at h1 h2
      by_cases e1 : n1 = .temp m (w.key m e) p <;> by_cases e2 : n2 = .temp m (w.key m e) p
      · rw [e1, e2]
      · simp [e1] at h1; simp [e2] at h2; subst h1
        exact absurd (hi.bound _ _ h2) (Nat.lt_irrefl _)
      · simp [e1] at h1; simp [e2] at h2; subst h2
        exact absurd (hi.bound _ _ h1) (Nat.lt_irrefl _)
      · simp [e1] at h1; simp [e2] at h2
        exact hi.inj _ _ _ h1 h2
    · intro n h' h1
      simp only [setPc, updDir] at h1
      by_cases e1 : n = .temp m (w.key m e) p
      · simp [e1] at h1; subst h1; exact Nat.lt_succ_self _
      · simp [e1] at h1; exact Nat.lt_succ_of_lt (hi.bound _ _ h1)
    · intro q m' e' h' k' hq
      by_cases hqp : q = p
      · subst hqp
        simp [setPc] at hq
        obtain ⟨rfl, rfl, rfl, rfl⟩ := hq
        exact ⟨by simp [setPc, updDir], by simp [setPc, updIno]⟩
      · simp [setPc, hqp] at hq
        obtain ⟨h1, h2⟩ := hi.writer q m' e' h' k' hq
        have hne : h' ≠ s.fs.next := Nat.ne_of_lt (hi.bound _ _ h1)
        exact ⟨by simp [setPc, updDir, temp_ne_of_ne hqp]; exact h1, by simp [setPc, updIno, hne]; exact h2⟩
    · intro q m' e' hq
      by_cases hqp : q = p
      · subst hqp; simp [setPc] at hq
      · simp [setPc, hqp] at hq
        obtain ⟨h', h1⟩ := hi.renamer q m' e' hq
        exact ⟨h', by simp [setPc, updDir, temp_ne_of_ne hqp]; exact h1⟩

/-- `write` of token `k` of the record -/
theorem Inv.writeTok {w : World} {s : State} (hi : Inv w s) (p : Nat) (m : Mode) (e : Expr)
    (h k : Nat) (t : Tok) (hpc : s.pc p = .writing m e h k)
    (ht : (serNew e (w.doit e))[k]? = some t) :
    Inv w (setPc { s with fs := { s.fs with ino := updIno s.fs.ino h (writeAt (s.fs.ino h) k t) } }
      p (.writing m e h (k + 1))) := by
  obtain ⟨hdir, hino⟩ := hi.writer p m e h k hpc
  have hnew : writeAt (s.fs.ino h) k t = (serNew e (w.doit e)).take (k + 1) := by
    rw [hino]; exact writeAt_take _ _ _ ht
  refine ⟨?_, hi.inj, hi.bound, ?_, ?_⟩
  · intro i
    by_cases hih : i = h
    · simp [setPc, updIno, hih, hnew]; exact honest_take w e (k + 1)
    · simp [setPc, updIno, hih]; exact hi.honest i
  · intro q m' e' h' k' hq
    by_cases hqp : q = p
    · subst hqp
      simp [setPc] at hq
      obtain ⟨rfl, rfl, rfl, rfl⟩ := hq
      exact ⟨hdir, by simp [setPc, updIno, hnew]⟩
    · simp [setPc, hqp] at hq
      obtain ⟨h1, h2⟩ := hi.writer q m' e' h' k' hq
      have hne : h' ≠ h := by
        intro heq; subst heq
        exact temp_ne_of_ne hqp (hi.inj _ _ _ h1 hdir)
      exact ⟨h1, by simp [setPc, updIno, hne]; exact h2⟩
  · intro q m' e' hq
    by_cases hqp : q = p
    · subst hqp; simp [setPc] at hq
    · simp [setPc, hqp] at hq
      exact hi.renamer q m' e' hq

/-- `close` of the temp file: the process now owes the rename -/
theorem Inv.close {w : World} {s : State} (hi : Inv w s) (p : Nat) (m : Mode) (e : Expr)
    (h k : Nat) (hpc : s.pc p = .writing m e h k) :
    Inv w (setPc s p (.willRename m e)) := by
  obtain ⟨hdir, _⟩ := hi.writer p m e h k hpc
  refine ⟨hi.honest, hi.inj, hi.bound, ?_, ?_⟩
  · intro q m' e' h' k' hq
    by_cases hqp : q = p
    · subst hqp; simp [setPc] at hq
    · simp [setPc, hqp] at hq
      exact hi.writer q m' e' h' k' hq
  · intro q m' e' hq
    by_cases hqp : q = p
    · subst hqp
      simp [setPc] at hq
      obtain ⟨rfl, rfl⟩ := hq
      exact ⟨h, hdir⟩
    · simp [setPc, hqp] at hq
      exact hi.renamer q m' e' hq

/-- `os.replace(tmp, final)` -/
theorem Inv.replace {w : World} {s : State} (hi : Inv w s) (p : Nat) (m : Mode) (e : Expr)
    (h : Nat) (hdir : s.fs.dir (.temp m (w.key m e) p) = some h) :
    Inv w (setPc { s with fs := replace s.fs (.temp m (w.key m e) p) (finalName w m e) h }
      p .idle) := by
  have hft : ∀ q a, Name.temp m a q ≠ finalName w m e := by
    intro q a hh; simp [finalName] at hh
  refine ⟨hi.honest, ?_, ?_, ?_, ?_⟩
  · intro n1 n2 h' h1 h2
    simp only [setPc, C16.replace, updDir] at h1 h2
    by_cases f1 : n1 = finalName w m e <;> by_cases f2 : n2 = finalName w m e
    · rw [f1, f2]
    · simp [f1] at h1; simp [f2] at h2; subst h1
      by_cases t2 : n2 = .temp m (w.key m e) p
      · simp [t2] at h2
      · simp [t2] at h2; exact absurd (hi.inj _ _ _ h2 hdir) t2
    · simp [f1] at h1; simp [f2] at h2; subst h2
      by_cases t1 : n1 = .temp m (w.key m e) p
      · simp [t1] at h1
      · simp [t1] at h1; exact absurd (hi.inj _ _ _ h1 hdir) t1
    · simp [f1] at h1; simp [f2] at h2
      by_cases t1 : n1 = .temp m (w.key m e) p
      · simp [t1] at h1
      · by_cases t2 : n2 = .temp m (w.key m e) p
        · simp [t2] at h2
        · simp [t1] at h1; simp [t2] at h2; exact hi.inj _ _ _ h1 h2
  · intro n h' h1
    simp only [setPc, C16.replace, updDir] at h1
    by_cases f1 : n = finalName w m e
    · simp [f1] at h1; subst h1; exact hi.bound _ _ hdir
    · by_cases t1 : n = .temp m (w.key m e) p
      · rw [if_neg f1, if_pos t1] at h1; cases h1
      · rw [if_neg f1, if_neg t1] at h1; exact hi.bound _ _ h1
  · intro q m' e' h' k' hq
    by_cases hqp : q = p
    · subst hqp; simp [setPc] at hq
    · simp [setPc, hqp] at hq
      obtain ⟨h1, h2⟩ := hi.writer q m' e' h' k' hq
      refine ⟨?_, h2⟩
      have a1 : Name.temp m' (w.key m' e') q ≠ finalName w m e := by
        intro hh; simp [finalName] at hh
      simp [setPc, C16.replace, updDir, a1, temp_ne_of_ne hqp]; exact h1
  · intro q m' e' hq
    by_cases hqp : q = p
    · subst hqp; simp [setPc] at hq
    · simp [setPc, hqp] at hq
      obtain ⟨h', h1⟩ := hi.renamer q m' e' hq
      refine ⟨h', ?_⟩
      have a1 : Name.temp m' (w.key m' e') q ≠ finalName w m e := by
        intro hh; simp [finalName] at hh
      simp [setPc, C16.replace, updDir, a1, temp_ne_of_ne hqp]; exact h1

/-! ### one step / one operation of the fixed variant -/

theorem payload_fixed (w : World) (e : Expr) : payload w .fixed e = serNew e (w.doit e) := rfl
theorem tempName_fixed (w : World) (m : Mode) (e : Expr) (p : Nat) :
    tempName w .fixed m e p = .temp m (w.key m e) p := rfl
theorem target_fixed (w : World) (m : Mode) (e : Expr) (p : Nat) :
    target w .fixed m e p = .temp m (w.key m e) p := rfl

theorem afterLoad_fixed_inv {w : World} {s : State} (hi : Inv w s) (p : Nat) (m : Mode)
    (e : Expr) (l : Loaded) : Inv w (afterLoad w .fixed s p m e l).1 := by
  cases l with
  | pair e' x =>
    by_cases he : w.keyEq e' e = true
    · simp [afterLoad, Variant.fixed, he, ret]; exact hi.setPc_plain _ _ trivial
    · simp [afterLoad, Variant.fixed, he, goto]; exact hi.setPc_plain _ _ trivial
  | bare x => simp [afterLoad, Variant.fixed, goto]; exact hi.setPc_plain _ _ trivial
  | fail => simp [afterLoad, Variant.fixed, goto]; exact hi.setPc_plain _ _ trivial

theorem afterLoad_fixed_event {w : World} (hk : w.KeyOk) {s : State} (p : Nat) (m : Mode)
    (e : Expr) (b : Bytes) (hb : Honest w b) (ev : Event)
    (h : (afterLoad w .fixed s p m e (load b)).2 = some ev) :
    ev.out = .value (w.doit ev.e) := by
  cases hl : load b with
  | pair e' x =>
    rw [hl] at h
    by_cases he : w.keyEq e' e = true
    · simp [afterLoad, Variant.fixed, he, ret] at h
      subst h
      simp [hb e' x hl, hk e' e he]
    · simp [afterLoad, Variant.fixed, he, goto] at h
  | bare x => rw [hl] at h; simp [afterLoad, Variant.fixed, goto] at h
  | fail => rw [hl] at h; simp [afterLoad, Variant.fixed, goto] at h

theorem step_inv {w : World} {s : State} (hi : Inv w s) (p : Nat) :
    Inv w (stepProc w .fixed s p).1 := by
  cases hpc : s.pc p with
  | idle => simp only [stepProc, hpc]; exact hi
  | started m e =>
    simp only [stepProc, hpc]
    cases s.fs.dir (finalName w m e) <;> exact hi.setPc_plain _ _ trivial
  | willOpen m e =>
    simp only [stepProc, hpc]
    cases s.fs.dir (finalName w m e) with
    | some h => exact hi.setPc_plain _ _ trivial
    | none => simp [Variant.fixed, goto]; exact hi.setPc_plain _ _ trivial
  | willLoad m e h =>
    simp only [stepProc, hpc]
    exact afterLoad_fixed_inv hi p m e _
  | willCompute m e =>
    simp only [stepProc, hpc, target_fixed]
    exact hi.openTrunc p m e
  | writing m e h k =>
    simp only [stepProc, hpc, payload_fixed]
    cases ht : (serNew e (w.doit e))[k]? with
    | some t => exact hi.writeTok p m e h k t hpc ht
    | none => simp [Variant.fixed, goto]; exact hi.close p m e h k hpc
  | willRename m e =>
    simp only [stepProc, hpc, tempName_fixed]
    obtain ⟨h, hd⟩ := hi.renamer p m e hpc
    rw [hd]
    exact hi.replace p m e h hd

theorem step_event {w : World} (hk : w.KeyOk) {s : State} (hi : Inv w s) (p : Nat) (ev : Event)
    (h : (stepProc w .fixed s p).2 = some ev) : ev.out = .value (w.doit ev.e) := by
  cases hpc : s.pc p with
  | idle => simp [stepProc, hpc] at h
  | started m e =>
    simp only [stepProc, hpc] at h
    cases hd : s.fs.dir (finalName w m e) <;> simp [hd, goto] at h
  | willOpen m e =>
    simp only [stepProc, hpc] at h
    cases hd : s.fs.dir (finalName w m e) <;> simp [hd, goto, Variant.fixed] at h
  | willLoad m e hh =>
    simp only [stepProc, hpc] at h
    exact afterLoad_fixed_event hk p m e _ (hi.honest hh) ev h
  | willCompute m e => simp [stepProc, hpc] at h
  | writing m e hh k =>
    simp only [stepProc, hpc, payload_fixed] at h
    cases ht : (serNew e (w.doit e))[k]? <;> simp [ht, goto, Variant.fixed] at h
  | willRename m e =>
    simp only [stepProc, hpc, tempName_fixed] at h
    obtain ⟨hh, hd⟩ := hi.renamer p m e hpc
    rw [hd] at h
    simp [ret] at h
    subst h; rfl

theorem applyOp_inv {w : World} {s : State} (hi : Inv w s) (op : Op) :
    Inv w (applyOp w .fixed s op).1 := by
  cases op with
  | call p m e =>
    simp only [applyOp]
    cases s.pc p <;> first | exact hi | exact hi.setPc_plain _ _ trivial
  | step p => exact step_inv hi p
  | crash p => exact hi.setPc_plain _ _ trivial

theorem applyOp_event {w : World} (hk : w.KeyOk) {s : State} (hi : Inv w s) (op : Op) (ev : Event)
    (h : (applyOp w .fixed s op).2 = some ev) : ev.out = .value (w.doit ev.e) := by
  cases op with
  | call p m e =>
    simp only [applyOp] at h
    cases hpc : s.pc p <;> simp [hpc] at h
  | step p => exact step_event hk hi p ev h
  | crash p => simp [applyOp] at h

theorem run_events {w : World} (hk : w.KeyOk) (ops : List Op) : ∀ {s : State}, Inv w s →
    ∀ ev ∈ (run w .fixed s ops).2, ev.out = .value (w.doit ev.e) := by
  induction ops with
  | nil => intro s _ ev hev; simp [run] at hev
  | cons op ops ih =>
    intro s hi ev hev
    simp only [run, List.mem_append] at hev
    cases hev with
    | inl h1 =>
      cases h2 : (applyOp w .fixed s op).2 with
      | none => simp [h2] at h1
      | some ev' =>
        simp [h2] at h1; subst h1
        exact applyOp_event hk hi op _ h2
    | inr h1 => exact ih (applyOp_inv hi op) ev h1

theorem run_inv {w : World} (ops : List Op) : ∀ {s : State}, Inv w s →
    Inv w (run w .fixed s ops).1 := by
  induction ops with
  | nil => intro s hi; exact hi
  | cons op ops ih => intro s hi; exact ih (applyOp_inv hi op)

/-! ### what the directory may hold before, and the property as a decidable predicate -/

/-- Well-formed directory content: honest files, no hard links, inode counter ahead. -/
structure FS.WF (w : World) (fs : FS) : Prop where
  honest : ∀ i, Honest w (fs.ino i)
  inj : ∀ n1 n2 h, fs.dir n1 = some h → fs.dir n2 = some h → n1 = n2
  bound : ∀ n h, fs.dir n = some h → h < fs.next

/-- Admissible start: ANY well-formed directory (files under any names, also temp-like names,
holding truncated records, garbage, old-format pickles, records of other expressions), nobody
inside a call. -/
structure Initial (w : World) (s : State) : Prop where
  wf : s.fs.WF w
  idle : ∀ p, s.pc p = .idle

theorem Initial.inv {w : World} {s : State} (h : Initial w s) : Inv w s where
  honest := h.wf.honest
  inj := h.wf.inj
  bound := h.wf.bound
  writer := by intro p m e hh k hp; rw [h.idle p] at hp; cases hp
  renamer := by intro p m e hp; rw [h.idle p] at hp; cases hp

theorem emptyFS_wf (w : World) : emptyFS.WF w where
  honest := fun _ => honest_nil w
  inj := by intro n1 n2 h h1; simp [emptyFS] at h1
  bound := by intro n h h1; simp [emptyFS] at h1

theorem FS.WF.addFile {w : World} {fs : FS} (h : fs.WF w) (n : Name) (b : Bytes)
    (_hn : fs.dir n = none) (hb : Honest w b) : (fs.addFile n b).WF w where
  honest := by
    intro i
    by_cases hi : i = fs.next
    · simp [FS.addFile, updIno, hi]; exact hb
    · simp [FS.addFile, updIno, hi]; exact h.honest i
  inj := by
    intro n1 n2 h' h1 h2
    simp only [FS.addFile, updDir] at h1 h2
    by_cases e1 : n1 = n <;> by_cases e2 : n2 = n
    · rw [e1, e2]
    · simp [e1] at h1; simp [e2] at h2; subst h1
      exact absurd (h.bound _ _ h2) (Nat.lt_irrefl _)
    · simp [e1] at h1; simp [e2] at h2; subst h2
      exact absurd (h.bound _ _ h1) (Nat.lt_irrefl _)
    · simp [e1] at h1; simp [e2] at h2
      exact h.inj _ _ _ h1 h2
  bound := by
    intro n' h' h1
    simp only [FS.addFile, updDir] at h1
    by_cases e1 : n' = n
    · simp [e1] at h1; subst h1; exact Nat.lt_succ_self _
    · simp [e1] at h1; exact Nat.lt_succ_of_lt (h.bound _ _ h1)

theorem foldl_wf {w : World} (files : List (Name × Bytes)) :
    ∀ (fs : FS), fs.WF w → (∀ nb ∈ files, Honest w nb.2) →
    (files.foldl (fun fs nb => if (fs.dir nb.1).isSome then fs else fs.addFile nb.1 nb.2) fs).WF w := by
  induction files with
  | nil => intro fs h _; exact h
  | cons nb rest ih =>
    intro fs h hh
    simp only [List.foldl]
    apply ih
    · cases hd : fs.dir nb.1 with
      | some x => simp; exact h
      | none =>
        simp
        exact h.addFile nb.1 nb.2 hd (hh nb (List.mem_cons_self ..))
    · intro nb' hnb'; exact hh nb' (List.mem_cons_of_mem _ hnb')

/-- every list of honest files is an admissible start -/
theorem initState_initial (w : World) (files : List (Name × Bytes))
    (h : ∀ nb ∈ files, Honest w nb.2) : Initial w (initState files) where
  wf := foldl_wf files emptyFS (emptyFS_wf w) h
  idle := fun _ => rfl

theorem honest_of_not_pair (w : World) (b : Bytes) (h : ∀ e x, load b ≠ .pair e x) :
    Honest w b := by
  intro e x hl; exact absurd hl (h e x)

/-- The property on one history: every call that returned, returned `doit expr`
(in particular none returned a tuple and none raised). -/
def Safe (w : World) (v : Variant) (s : State) (ops : List Op) : Prop :=
  ∀ ev ∈ events w v s ops, ev.out = .value (w.doit ev.e)

instance (w : World) (v : Variant) (s : State) (ops : List Op) : Decidable (Safe w v s ops) :=
  inferInstanceAs (Decidable (∀ ev ∈ events w v s ops, ev.out = .value (w.doit ev.e)))

/-! ### termination measure of a call -/

def remaining : PC → Nat
  | .idle => 0
  | .started .. => 10
  | .willOpen .. => 9
  | .willLoad .. => 8
  | .willCompute .. => 7
  | .writing _ _ _ k => 2 + (4 - k)
  | .willRename .. => 1

theorem payload_length_le (w : World) (v : Variant) (e : Expr) : (payload w v e).length ≤ 4 := by
  unfold payload; cases v.storesKey <;> simp [serNew, serOld]

theorem remaining_eq_zero {c : PC} (h : remaining c = 0) : c = .idle := by
  cases c <;> simp [remaining] at h ⊢

theorem afterLoad_pc (w : World) (v : Variant) (s : State) (p : Nat) (m : Mode) (e : Expr) (l : Loaded) :
    (afterLoad w v s p m e l).1.pc p = .idle ∧ (∃ o, (afterLoad w v s p m e l).2 = some ⟨p, e, o⟩) ∨
    (afterLoad w v s p m e l).1.pc p = .willCompute m e := by
  cases l with
  | pair e' x =>
    simp only [afterLoad]
    cases v.storesKey <;> cases v.checksKey <;> simp [ret, goto, setPc]
    by_cases he : w.keyEq e' e = true <;> simp [he]
  | bare x =>
    simp only [afterLoad]
    cases v.storesKey <;> cases v.tolerant <;> simp [ret, goto, setPc]
  | fail =>
    simp only [afterLoad]
    cases v.tolerant <;> simp [ret, goto, setPc]

/-- every step of a process inside a call brings the call strictly closer to its end,
whatever the variant and whatever the directory holds -/
theorem step_decreases (w : World) (v : Variant) (s : State) (p : Nat) (h : s.pc p ≠ .idle) :
    remaining ((stepProc w v s p).1.pc p) < remaining (s.pc p) := by
  cases hpc : s.pc p with
  | idle => exact absurd hpc h
  | started m e =>
    simp only [stepProc, hpc]
    cases s.fs.dir (finalName w m e) <;> simp [goto, setPc, remaining]
  | willOpen m e =>
    simp only [stepProc, hpc]
    cases s.fs.dir (finalName w m e) <;> cases v.tolerant <;> simp [goto, ret, setPc, remaining]
  | willLoad m e hh =>
    simp only [stepProc, hpc]
    rcases afterLoad_pc w v s p m e (load (s.fs.ino hh)) with ⟨h1, _⟩ | h1 <;>
      simp [h1, remaining]
  | willCompute m e =>
    simp [stepProc, hpc, setPc, remaining]
  | writing m e hh k =>
    simp only [stepProc, hpc]
    cases ht : (payload w v e)[k]? with
    | some t =>
      have hk : k < (payload w v e).length := by
        rcases List.getElem?_eq_some_iff.mp ht with ⟨hk, _⟩; exact hk
      have := payload_length_le w v e
      simp [setPc, remaining]; omega
    | none =>
      cases v.atomic <;> simp [goto, ret, setPc, remaining] <;> omega
  | willRename m e =>
    simp only [stepProc, hpc]
    cases s.fs.dir (tempName w v m e p) <;> simp [ret, setPc, remaining]

/-- a step that ends a call reports it -/
theorem step_emits (w : World) (v : Variant) (s : State) (p : Nat) (h : s.pc p ≠ .idle)
    (hi : (stepProc w v s p).1.pc p = .idle) :
    ∃ ev, (stepProc w v s p).2 = some ev ∧ ev.p = p := by
  cases hpc : s.pc p with
  | idle => exact absurd hpc h
  | started m e =>
    simp only [stepProc, hpc] at hi
    cases hd : s.fs.dir (finalName w m e) <;> simp [hd, goto, setPc] at hi
  | willOpen m e =>
    simp only [stepProc, hpc] at hi ⊢
    cases hd : s.fs.dir (finalName w m e) <;> cases ht : v.tolerant <;>
      simp [hd, ht, goto, ret, setPc] at hi ⊢
  | willLoad m e hh =>
    simp only [stepProc, hpc] at hi ⊢
    rcases afterLoad_pc w v s p m e (load (s.fs.ino hh)) with ⟨_, o, h2⟩ | h1
    · exact ⟨_, h2, rfl⟩
    · rw [h1] at hi; cases hi
  | willCompute m e =>
    simp [stepProc, hpc, setPc] at hi
  | writing m e hh k =>
    simp only [stepProc, hpc] at hi ⊢
    cases ht : (payload w v e)[k]? with
    | some t => simp [ht, setPc] at hi
    | none =>
      cases ha : v.atomic <;> simp [ht, ha, goto, ret, setPc] at hi ⊢
  | willRename m e =>
    simp only [stepProc, hpc] at hi ⊢
    cases hd : s.fs.dir (tempName w v m e p) <;> simp [ret]

/-- A call that is not crashed returns (or raises) within `remaining ≤ 10` of its own steps. -/
theorem call_returns (w : World) (v : Variant) (p : Nat) : ∀ (n : Nat) (s : State),
    s.pc p ≠ .idle → remaining (s.pc p) ≤ n →
    ∃ ev ∈ events w v s (steps p n), ev.p = p := by
  intro n
  induction n with
  | zero =>
    intro s h hr
    exact absurd (remaining_eq_zero (Nat.le_zero.mp hr)) h
  | succ n ih =>
    intro s h hr
    have hdec := step_decreases w v s p h
    by_cases hidle : (stepProc w v s p).1.pc p = .idle
    · obtain ⟨ev, h1, h2⟩ := step_emits w v s p h hidle
      refine ⟨ev, ?_, h2⟩
      simp [events, steps, List.replicate_succ, run, applyOp, h1]
    · obtain ⟨ev, h1, h2⟩ := ih (stepProc w v s p).1 hidle (by omega)
      refine ⟨ev, ?_, h2⟩
      simp only [events, steps, List.replicate_succ, run, applyOp, List.mem_append]
      exact Or.inr h1

end Ampverif.Model.C16
