/-
C03 — generic lemmas about mirror-symmetric Clebsch–Gordan tables (T3 pattern: the theorems are
about ANY table that passes the decidable check; the regenerated table passes it by
`Lemmas/C03CGBlocks.lean`).
-/
import Ampverif.Model.C03CG
import Mathlib.Analysis.Real.Sqrt
import Mathlib.Data.Complex.Basic
import Mathlib.Tactic.Ring
import Mathlib.Data.Nat.Factorial.Basic

namespace Ampverif.Lemmas.C03CG
open Ampverif.Model.C03CG

theorem flip_flip (k : Key) : k.flip.flip = k := by
  cases k; simp [Key.flip]

theorem flip_expo (k : Key) : k.flip.expo = k.expo := rfl

theorem flip_j (k : Key) : (k.flip.j1, k.flip.j2) = (k.j1, k.j2) := rfl

theorem get?_mem : ∀ (b : Block) (k : Key) (v : Val), b.get? k = some v → (k, v) ∈ b
  | [], _, _, h => by simp [Block.get?] at h
  | (a, w) :: rest, k, v, h => by
    unfold Block.get? at h
    by_cases hk : a = k
    · simp [hk] at h; subst hk; subst h; simp
    · simp [hk] at h
      exact List.mem_cons_of_mem _ (get?_mem rest k v h)

/-- block level: the mirror entry carries the phase (in both directions). -/
theorem block_get_flip (b : Block) (hb : b.symmetric = true) (k : Key) :
    b.get? k.flip = (b.get? k).map (Val.scale (phase k.expo)) := by
  have hall : ∀ k v, (k, v) ∈ b → b.get? k.flip = some (v.scale (phase k.expo)) := by
    intro k v hm
    have := (List.all_eq_true.mp hb) (k, v) hm
    simp only [Bool.and_eq_true] at this
    exact of_decide_eq_true this.1.1.1
  cases h : b.get? k with
  | some v => simpa using hall k v (get?_mem b k v h)
  | none =>
    cases h' : b.get? k.flip with
    | none => rfl
    | some w =>
      have := hall k.flip w (get?_mem b k.flip w h')
      rw [flip_flip, h] at this
      cases this

theorem block?_symmetric : ∀ (t : Table) (p : Nat × Nat) (b : Block),
    t.symmetric = true → t.block? p = some b → b.symmetric = true
  | [], _, _, _, hb => by simp [Table.block?] at hb
  | (q, b') :: rest, p, b, ht, hb => by
    unfold Table.block? at hb
    unfold Table.symmetric at ht
    simp only [List.all_cons, Bool.and_eq_true] at ht
    by_cases hp : q = p
    · simp [hp] at hb; subst hb; exact ht.1.1
    · simp [hp] at hb
      exact block?_symmetric rest p b (by unfold Table.symmetric; exact ht.2) hb

theorem table_get_flip (t : Table) (ht : t.symmetric = true) (k : Key) :
    t.get k.flip = (t.get k).scale (phase k.expo) := by
  unfold Table.get
  rw [flip_j]
  cases hb : t.block? (k.j1, k.j2) with
  | none => simp [Val.scale, zero]
  | some b =>
    have hbs := block?_symmetric t _ b ht hb
    simp only []
    rw [block_get_flip b hbs k]
    cases b.get? k with
    | none => simp [Val.scale, zero]
    | some v => simp

/-! ### real values -/

/-- `sign · √(num/den)`. -/
noncomputable def _root_.Ampverif.Model.C03CG.Val.toReal (v : Val) : ℝ := (v.sign : ℝ) * Real.sqrt ((v.num : ℝ) / (v.den : ℝ))

theorem toReal_scale (s : Int) (v : Val) : (v.scale s).toReal = (s : ℝ) * v.toReal := by
  simp [Val.toReal, Val.scale, mul_assoc]

/-- the value of `⟨j₁ m₁; j₂ m₂ | J M⟩` read from a table (0 outside the table). -/
noncomputable def cg (t : Table) (j1 : Nat) (m1 : Int) (j2 : Nat) (m2 : Int) (J : Nat) (M : Int) : ℝ :=
  (t.get ⟨j1, m1, j2, m2, J, M⟩).toReal

/-- `⟨j₁ −m₁; j₂ −m₂ | J −M⟩ = (−1)^(j₁+j₂−J) ⟨j₁ m₁; j₂ m₂ | J M⟩` for every symmetric table. -/
theorem cg_flip (t : Table) (ht : t.symmetric = true) (j1 : Nat) (m1 : Int) (j2 : Nat) (m2 : Int)
    (J : Nat) (M : Int) :
    cg t j1 (-m1) j2 (-m2) J (-M)
      = (phase ((j1 : Int) + (j2 : Int) - (J : Int)) : ℝ) * cg t j1 m1 j2 m2 J M := by
  unfold cg
  have := table_get_flip t ht ⟨j1, m1, j2, m2, J, M⟩
  simp only [Key.flip, Key.expo] at this
  rw [this, toReal_scale]

theorem phase_sq (n : Int) : phase n * phase n = 1 := by
  unfold phase; split <;> simp

/-- `(−1)^(a/2) (−1)^(b/2) = (−1)^((a+b)/2)` for even `a`, `b`. -/
theorem phase_add (a b : Int) (ha : a % 2 = 0) (hb : b % 2 = 0) :
    phase a * phase b = phase (a + b) := by
  unfold phase
  have h4a : a % 4 = 0 ∨ a % 4 = 2 := by omega
  have h4b : b % 4 = 0 ∨ b % 4 = 2 := by omega
  rcases h4a with h1 | h1 <;> rcases h4b with h2 | h2
  · have : (a + b) % 4 = 0 := by omega
    simp [h1, h2, this]
  · have : (a + b) % 4 = 2 := by omega
    have h3 : ¬ (a + b) % 4 = 0 := by omega
    have h2' : ¬ b % 4 = 0 := by omega
    simp [h1, h2', h3]
  · have h3 : ¬ (a + b) % 4 = 0 := by omega
    have h1' : ¬ a % 4 = 0 := by omega
    simp [h1', h2, h3]
  · have : (a + b) % 4 = 0 := by omega
    have h1' : ¬ a % 4 = 0 := by omega
    have h2' : ¬ b % 4 = 0 := by omega
    simp [h1', h2', this]

/-! ### helicity couplings from LS couplings -/

/-- One `LS` term: doubled `L`, doubled `S`, coefficient. -/
structure LSTerm where
  L : Nat
  S : Nat
  a : ℂ

/-- `F_{λ₁λ₂} = Σ_{LS} a_{LS} ⟨L 0; S δ | J δ⟩ ⟨s₁ λ₁; s₂ −λ₂ | S δ⟩`, `δ = λ₁ − λ₂` — the expansion
ampform's canonical builder writes (`formulate_isobar_cg_coefficients`), everything doubled. -/
noncomputable def coupling (t : Table) (J s1 s2 : Nat) (terms : List LSTerm) (l1 l2 : Int) : ℂ :=
  (terms.map fun x =>
    x.a * ((cg t x.L 0 x.S (l1 - l2) J (l1 - l2) : ℝ) : ℂ)
        * ((cg t s1 l1 s2 (-l2) x.S (l1 - l2) : ℝ) : ℂ)).sum

/-- For a symmetric table, LS terms with `(−1)^L = PP` (`PP = P·P₁·P₂`; `L` integral) and integral
`L+S−J`, `s₁+s₂−S`: `F_{−λ₁,−λ₂} = PP·(−1)^(s₁+s₂−J) · F_{λ₁λ₂}` (all momenta doubled). -/
theorem coupling_flip (t : Table) (ht : t.symmetric = true) (J s1 s2 : Nat) (PP : Int)
    (terms : List LSTerm)
    (hL : ∀ x ∈ terms, phase (x.L : Int) = PP ∧ (x.L : Int) % 2 = 0
      ∧ ((x.L : Int) + (x.S : Int) - (J : Int)) % 2 = 0
      ∧ ((s1 : Int) + (s2 : Int) - (x.S : Int)) % 2 = 0)
    (l1 l2 : Int) :
    coupling t J s1 s2 terms (-l1) (-l2)
      = ((PP * phase ((s1 : Int) + (s2 : Int) - (J : Int)) : Int) : ℂ) * coupling t J s1 s2 terms l1 l2 := by
  unfold coupling
  induction terms with
  | nil => simp
  | cons x rest ih =>
    have hx := hL x (List.mem_cons_self)
    have hrest := ih (fun y hy => hL y (List.mem_cons_of_mem _ hy))
    simp only [List.map_cons, List.sum_cons]
    rw [hrest]
    have e1 : (-l1 - -l2 : Int) = -(l1 - l2) := by ring
    have c1 := cg_flip t ht x.L 0 x.S (l1 - l2) J (l1 - l2)
    have c2 := cg_flip t ht s1 l1 s2 (-l2) x.S (l1 - l2)
    simp only [neg_zero] at c1
    rw [e1, c1, c2]
    obtain ⟨hP, hLe, hA, hB⟩ := hx
    have hC : ((s1 : Int) + (s2 : Int) - (J : Int)) % 2 = 0 := by omega
    have hph : phase ((x.L : Int) + (x.S : Int) - (J : Int)) * phase ((s1 : Int) + (s2 : Int) - (x.S : Int))
        = PP * phase ((s1 : Int) + (s2 : Int) - (J : Int)) := by
      rw [phase_add _ _ hA hB, ← hP, phase_add _ _ hLe hC]
      congr 1; ring
    have hphR : ((phase ((x.L : Int) + (x.S : Int) - (J : Int)) : Int) : ℂ)
        * ((phase ((s1 : Int) + (s2 : Int) - (x.S : Int)) : Int) : ℂ)
        = ((PP * phase ((s1 : Int) + (s2 : Int) - (J : Int)) : Int) : ℂ) := by
      rw [← hph]; push_cast; ring
    rw [← hphR]
    push_cast
    ring

/-! ### Racah's closed formula (only used to STATE the unbounded symmetry; nothing is proved about it) -/

/-- `1/n!` for `n ≥ 0`, `0` for `n < 0` (argument doubled: `n = x/2`). -/
noncomputable def invFactHalf (x : Int) : ℝ :=
  if x < 0 ∨ x % 2 ≠ 0 then 0 else 1 / ((x / 2).toNat.factorial : ℝ)

noncomputable def factHalf (x : Int) : ℝ :=
  if x < 0 ∨ x % 2 ≠ 0 then 0 else ((x / 2).toNat.factorial : ℝ)

/-- Racah's formula for `⟨j₁ m₁; j₂ m₂ | J M⟩`, all arguments doubled. -/
noncomputable def racah (j1 : Nat) (m1 : Int) (j2 : Nat) (m2 : Int) (J : Nat) (M : Int) : ℝ :=
  let a : Int := j1; let b : Int := j2; let c : Int := J
  if M ≠ m1 + m2 then 0 else
  Real.sqrt (((c : ℝ) + 1) * factHalf (c + a - b) * factHalf (c - a + b) * factHalf (a + b - c)
      * invFactHalf (a + b + c + 2))
    * Real.sqrt (factHalf (c + M) * factHalf (c - M) * factHalf (a - m1) * factHalf (a + m1)
      * factHalf (b - m2) * factHalf (b + m2))
    * ((List.range (j1 + j2 + 1)).map fun k =>
        ((-1 : ℝ) ^ k) * invFactHalf (2 * k) * invFactHalf (a + b - c - 2 * k)
          * invFactHalf (a - m1 - 2 * k) * invFactHalf (b + m2 - 2 * k)
          * invFactHalf (c - b + m1 + 2 * k) * invFactHalf (c - a - m2 + 2 * k)).sum

end Ampverif.Lemmas.C03CG
