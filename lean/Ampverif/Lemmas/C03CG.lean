/-
C03 — generic lemmas about mirror-symmetric Clebsch–Gordan tables (T3 pattern: the theorems are
about ANY table that passes the decidable check; the regenerated table passes it by
`Lemmas/C03CGBlocks.lean`).
-/
import Ampverif.Model.C03CG
import Mathlib.Analysis.Real.Sqrt
import Mathlib.Data.Complex.Basic
import Mathlib.Tactic.Ring
import Mathlib.Data.Nat.Factorial.Basic
import Mathlib.Algebra.BigOperators.Intervals
import Mathlib.Tactic.Linarith

namespace Ampverif.Lemmas.C03CG
open Ampverif.Model.C03CG

theorem flip_flip (k : Key) : k.flip.flip = k := by
  cases k; simp [Key.flip]

theorem flip_expo (k : Key) : k.flip.expo = k.expo := rfl

theorem flip_j (k : Key) : (k.flip.j1, k.flip.j2) = (k.j1, k.j2) := rfl

theorem get?_mem : ∀ (b : Block) (k : Key) (v : Val), b.get? k = some v → (k, v) ∈ b
  | [], _, _, h => by simp [Block.get?] at h
  | (a, w) :: rest, k, v, h => by
    unfold Block.get? at h
    by_cases hk : a = k
    · simp [hk] at h; subst hk; subst h; simp
    · simp [hk] at h
      exact List.mem_cons_of_mem _ (get?_mem rest k v h)

/-- block level: the mirror entry carries the phase (in both directions). -/
theorem block_get_flip (b : Block) (hb : b.symmetric = true) (k : Key) :
    b.get? k.flip = (b.get? k).map (Val.scale (phase k.expo)) := by
  have hall : ∀ k v, (k, v) ∈ b → b.get? k.flip = some (v.scale (phase k.expo)) := by
    intro k v hm
    have := (List.all_eq_true.mp hb) (k, v) hm
    simp only [Bool.and_eq_true] at this
    exact of_decide_eq_true this.1.1.1
  cases h : b.get? k with
  | some v => simpa using hall k v (get?_mem b k v h)
  | none =>
    cases h' : b.get? k.flip with
    | none => rfl
    | some w =>
      have := hall k.flip w (get?_mem b k.flip w h')
      rw [flip_flip, h] at this
      cases this

theorem block?_symmetric : ∀ (t : Table) (p : Nat × Nat) (b : Block),
    t.symmetric = true → t.block? p = some b → b.symmetric = true
  | [], _, _, _, hb => by simp [Table.block?] at hb
  | (q, b') :: rest, p, b, ht, hb => by
    unfold Table.block? at hb
    unfold Table.symmetric at ht
    simp only [List.all_cons, Bool.and_eq_true] at ht
    by_cases hp : q = p
    · simp [hp] at hb; subst hb; exact ht.1.1
    · simp [hp] at hb
      exact block?_symmetric rest p b (by unfold Table.symmetric; exact ht.2) hb

theorem table_get_flip (t : Table) (ht : t.symmetric = true) (k : Key) :
    t.get k.flip = (t.get k).scale (phase k.expo) := by
  unfold Table.get
  rw [flip_j]
  cases hb : t.block? (k.j1, k.j2) with
  | none => simp [Val.scale, zero]
  | some b =>
    have hbs := block?_symmetric t _ b ht hb
    simp only []
    rw [block_get_flip b hbs k]
    cases b.get? k with
    | none => simp [Val.scale, zero]
    | some v => simp

/-! ### real values -/

/-- `sign · √(num/den)`. -/
noncomputable def _root_.Ampverif.Model.C03CG.Val.toReal (v : Val) : ℝ := (v.sign : ℝ) * Real.sqrt ((v.num : ℝ) / (v.den : ℝ))

theorem toReal_scale (s : Int) (v : Val) : (v.scale s).toReal = (s : ℝ) * v.toReal := by
  simp [Val.toReal, Val.scale, mul_assoc]

/-- the value of `⟨j₁ m₁; j₂ m₂ | J M⟩` read from a table (0 outside the table). -/
noncomputable def cg (t : Table) (j1 : Nat) (m1 : Int) (j2 : Nat) (m2 : Int) (J : Nat) (M : Int) : ℝ :=
  (t.get ⟨j1, m1, j2, m2, J, M⟩).toReal

/-- `⟨j₁ −m₁; j₂ −m₂ | J −M⟩ = (−1)^(j₁+j₂−J) ⟨j₁ m₁; j₂ m₂ | J M⟩` for every symmetric table. -/
theorem cg_flip (t : Table) (ht : t.symmetric = true) (j1 : Nat) (m1 : Int) (j2 : Nat) (m2 : Int)
    (J : Nat) (M : Int) :
    cg t j1 (-m1) j2 (-m2) J (-M)
      = (phase ((j1 : Int) + (j2 : Int) - (J : Int)) : ℝ) * cg t j1 m1 j2 m2 J M := by
  unfold cg
  have := table_get_flip t ht ⟨j1, m1, j2, m2, J, M⟩
  simp only [Key.flip, Key.expo] at this
  rw [this, toReal_scale]

theorem phase_sq (n : Int) : phase n * phase n = 1 := by
  unfold phase; split <;> simp

/-- `(−1)^(a/2) (−1)^(b/2) = (−1)^((a+b)/2)` for even `a`, `b`. -/
theorem phase_add (a b : Int) (ha : a % 2 = 0) (hb : b % 2 = 0) :
    phase a * phase b = phase (a + b) := by
  unfold phase
  have h4a : a % 4 = 0 ∨ a % 4 = 2 := by omega
  have h4b : b % 4 = 0 ∨ b % 4 = 2 := by omega
  rcases h4a with h1 | h1 <;> rcases h4b with h2 | h2
  · have : (a + b) % 4 = 0 := by omega
    simp [h1, h2, this]
  · have : (a + b) % 4 = 2 := by omega
    have h3 : ¬ (a + b) % 4 = 0 := by omega
    have h2' : ¬ b % 4 = 0 := by omega
    simp [h1, h2', h3]
  · have h3 : ¬ (a + b) % 4 = 0 := by omega
    have h1' : ¬ a % 4 = 0 := by omega
    simp [h1', h2, h3]
  · have : (a + b) % 4 = 0 := by omega
    have h1' : ¬ a % 4 = 0 := by omega
    have h2' : ¬ b % 4 = 0 := by omega
    simp [h1', h2', this]

/-! ### helicity couplings from LS couplings -/

/-- One `LS` term: doubled `L`, doubled `S`, coefficient. -/
structure LSTerm where
  L : Nat
  S : Nat
  a : ℂ

/-- `F_{λ₁λ₂} = Σ_{LS} a_{LS} ⟨L 0; S δ | J δ⟩ ⟨s₁ λ₁; s₂ −λ₂ | S δ⟩`, `δ = λ₁ − λ₂` — the expansion
ampform's canonical builder writes (`formulate_isobar_cg_coefficients`), everything doubled, for
an arbitrary Clebsch–Gordan function `f`. -/
noncomputable def couplingF (f : Nat → Int → Nat → Int → Nat → Int → ℝ) (J s1 s2 : Nat)
    (terms : List LSTerm) (l1 l2 : Int) : ℂ :=
  (terms.map fun x =>
    x.a * ((f x.L 0 x.S (l1 - l2) J (l1 - l2) : ℝ) : ℂ)
        * ((f s1 l1 s2 (-l2) x.S (l1 - l2) : ℝ) : ℂ)).sum

/-- the expansion with the values of a table. -/
noncomputable def coupling (t : Table) (J s1 s2 : Nat) (terms : List LSTerm) (l1 l2 : Int) : ℂ :=
  couplingF (cg t) J s1 s2 terms l1 l2

/-- For every mirror-symmetric CG function, LS terms with `(−1)^L = PP` (`PP = P·P₁·P₂`; `L`
integral) and integral `L+S−J`, `s₁+s₂−S`: `F_{−λ₁,−λ₂} = PP·(−1)^(s₁+s₂−J) · F_{λ₁λ₂}`
(all momenta doubled). -/
theorem couplingF_flip (f : Nat → Int → Nat → Int → Nat → Int → ℝ)
    (hf : ∀ j1 m1 j2 m2 J M, f j1 (-m1) j2 (-m2) J (-M)
      = (phase ((j1 : Int) + (j2 : Int) - (J : Int)) : ℝ) * f j1 m1 j2 m2 J M)
    (J s1 s2 : Nat) (PP : Int) (terms : List LSTerm)
    (hL : ∀ x ∈ terms, phase (x.L : Int) = PP ∧ (x.L : Int) % 2 = 0
      ∧ ((x.L : Int) + (x.S : Int) - (J : Int)) % 2 = 0
      ∧ ((s1 : Int) + (s2 : Int) - (x.S : Int)) % 2 = 0)
    (l1 l2 : Int) :
    couplingF f J s1 s2 terms (-l1) (-l2)
      = ((PP * phase ((s1 : Int) + (s2 : Int) - (J : Int)) : Int) : ℂ) * couplingF f J s1 s2 terms l1 l2 := by
  unfold couplingF
  induction terms with
  | nil => simp
  | cons x rest ih =>
    have hx := hL x (List.mem_cons_self)
    have hrest := ih (fun y hy => hL y (List.mem_cons_of_mem _ hy))
    simp only [List.map_cons, List.sum_cons]
    rw [hrest]
    have e1 : (-l1 - -l2 : Int) = -(l1 - l2) := by ring
    have c1 := hf x.L 0 x.S (l1 - l2) J (l1 - l2)
    have c2 := hf s1 l1 s2 (-l2) x.S (l1 - l2)
    simp only [neg_zero] at c1
    rw [e1, c1, c2]
    obtain ⟨hP, hLe, hA, hB⟩ := hx
    have hC : ((s1 : Int) + (s2 : Int) - (J : Int)) % 2 = 0 := by omega
    have hph : phase ((x.L : Int) + (x.S : Int) - (J : Int)) * phase ((s1 : Int) + (s2 : Int) - (x.S : Int))
        = PP * phase ((s1 : Int) + (s2 : Int) - (J : Int)) := by
      rw [phase_add _ _ hA hB, ← hP, phase_add _ _ hLe hC]
      congr 1; ring
    have hphR : ((phase ((x.L : Int) + (x.S : Int) - (J : Int)) : Int) : ℂ)
        * ((phase ((s1 : Int) + (s2 : Int) - (x.S : Int)) : Int) : ℂ)
        = ((PP * phase ((s1 : Int) + (s2 : Int) - (J : Int)) : Int) : ℂ) := by
      rw [← hph]; push_cast; ring
    rw [← hphR]
    push_cast
    ring

theorem coupling_flip (t : Table) (ht : t.symmetric = true) (J s1 s2 : Nat) (PP : Int)
    (terms : List LSTerm)
    (hL : ∀ x ∈ terms, phase (x.L : Int) = PP ∧ (x.L : Int) % 2 = 0
      ∧ ((x.L : Int) + (x.S : Int) - (J : Int)) % 2 = 0
      ∧ ((s1 : Int) + (s2 : Int) - (x.S : Int)) % 2 = 0)
    (l1 l2 : Int) :
    coupling t J s1 s2 terms (-l1) (-l2)
      = ((PP * phase ((s1 : Int) + (s2 : Int) - (J : Int)) : Int) : ℂ) * coupling t J s1 s2 terms l1 l2 :=
  couplingF_flip (cg t) (cg_flip t ht) J s1 s2 PP terms hL l1 l2

/-! ### Racah's closed formula and its mirror symmetry for ALL spins -/

section racah
open Finset

noncomputable def iF (x : Int) : ℝ := if x < 0 ∨ x % 2 ≠ 0 then 0 else 1 / ((x / 2).toNat.factorial : ℝ)

noncomputable def T (a b c m1 m2 : Int) (k : ℕ) : ℝ :=
  (-1) ^ k * iF (2 * k) * iF (a + b - c - 2 * k) * iF (a - m1 - 2 * k) * iF (b + m2 - 2 * k)
    * iF (c - b + m1 + 2 * k) * iF (c - a - m2 + 2 * k)

theorem iF_neg (x : Int) (h : x < 0) : iF x = 0 := by simp [iF, h]
theorem iF_odd (x : Int) (h : x % 2 ≠ 0) : iF x = 0 := by simp [iF, h]

theorem T_zero_of_bad (a b c m1 m2 : Int) (k : ℕ) (h : a + b - c < 0 ∨ (a + b - c) % 2 ≠ 0) :
    T a b c m1 m2 k = 0 := by
  have : iF (a + b - c - 2 * k) = 0 := by
    rcases h with h | h
    · apply iF_neg; omega
    · apply iF_odd; omega
  simp [T, this]

theorem T_zero_of_large (a b c m1 m2 : Int) (N k : ℕ) (h : a + b - c = 2 * N) (hk : N < k) :
    T a b c m1 m2 k = 0 := by
  have : iF (a + b - c - 2 * k) = 0 := by apply iF_neg; omega
  simp [T, this]

theorem neg_one_pow_sub (N k : ℕ) (hk : k ≤ N) : ((-1 : ℝ)) ^ (N - k) = (-1) ^ N * (-1) ^ k := by
  have h1 : ((-1 : ℝ)) ^ N = (-1) ^ (N - k) * (-1) ^ k := by rw [← pow_add, Nat.sub_add_cancel hk]
  have h2 : ((-1 : ℝ)) ^ k * (-1) ^ k = 1 := by rw [← mul_pow]; simp
  rw [h1, mul_assoc, h2, mul_one]

theorem T_reflect (a b c m1 m2 : Int) (N k : ℕ) (h : a + b - c = 2 * N) (hk : k ≤ N) :
    T a b c (-m1) (-m2) (N - k) = (-1) ^ N * T a b c m1 m2 k := by
  unfold T
  have hc : ((N - k : ℕ) : ℤ) = (N : ℤ) - k := Nat.cast_sub hk
  have e1 : (2 * ((N - k : ℕ) : ℤ)) = a + b - c - 2 * k := by rw [hc]; omega
  rw [e1, neg_one_pow_sub N k hk]
  have f2 : a + b - c - (a + b - c - 2 * (k : ℤ)) = 2 * k := by ring
  have f3 : a - -m1 - (a + b - c - 2 * (k : ℤ)) = c - b + m1 + 2 * k := by ring
  have f4 : b + -m2 - (a + b - c - 2 * (k : ℤ)) = c - a - m2 + 2 * k := by ring
  have f5 : c - b + -m1 + (a + b - c - 2 * (k : ℤ)) = a - m1 - 2 * k := by ring
  have f6 : c - a - -m2 + (a + b - c - 2 * (k : ℤ)) = b + m2 - 2 * k := by ring
  rw [f2, f3, f4, f5, f6]
  ring

theorem sum_reflect (a b c m1 m2 : Int) (n : ℕ) (hab : (n : ℤ) ≥ a + b - c) :
    ∑ k ∈ range (n + 1), T a b c (-m1) (-m2) k
      = (if (a + b - c) % 4 = 0 then (1 : ℝ) else -1) * ∑ k ∈ range (n + 1), T a b c m1 m2 k := by
  by_cases hbad : a + b - c < 0 ∨ (a + b - c) % 2 ≠ 0
  · simp [T_zero_of_bad _ _ _ _ _ _ hbad]
  · simp only [not_or, not_lt, ne_eq, not_not] at hbad
    obtain ⟨N, hN⟩ : ∃ N : ℕ, a + b - c = 2 * N := ⟨((a + b - c) / 2).toNat, by omega⟩
    have hNn : N ≤ n := by omega
    have cut : ∀ m1 m2 : Int, ∑ k ∈ range (n + 1), T a b c m1 m2 k = ∑ k ∈ range (N + 1), T a b c m1 m2 k := by
      intro m1 m2
      symm
      apply sum_subset (range_mono (by omega))
      intro k _ hk
      apply T_zero_of_large a b c m1 m2 N k hN
      simp only [mem_range] at hk; omega
    rw [cut, cut, ← sum_range_reflect (fun k => T a b c (-m1) (-m2) k) (N + 1), mul_sum]
    apply sum_congr rfl
    intro k hk
    simp only [mem_range] at hk
    have hk' : k ≤ N := by omega
    have : N + 1 - 1 - k = N - k := by omega
    rw [this, T_reflect a b c m1 m2 N k hN hk']
    congr 1
    have h4 : (a + b - c) % 4 = 0 ↔ N % 2 = 0 := by omega
    by_cases hev : N % 2 = 0
    · have : Even N := Nat.even_iff.mpr hev
      simp [h4.mpr hev, this.neg_one_pow]
    · have : Odd N := Nat.odd_iff.mpr (by omega)
      have h4' : ¬ (a + b - c) % 4 = 0 := fun e => hev (h4.mp e)
      simp [h4', this.neg_one_pow]

noncomputable def fH (x : Int) : ℝ := if x < 0 ∨ x % 2 ≠ 0 then 0 else ((x / 2).toNat.factorial : ℝ)

/-- the `m`-dependent square-root factor of Racah's formula. -/
noncomputable def racahB (a b c m1 m2 M : Int) : ℝ :=
  fH (c + M) * fH (c - M) * fH (a - m1) * fH (a + m1) * fH (b - m2) * fH (b + m2)

/-- Racah's formula for `⟨j₁ m₁; j₂ m₂ | J M⟩`, all arguments doubled:
`δ_{M,m₁+m₂} √[(2J+1)(J+j₁−j₂)!(J−j₁+j₂)!(j₁+j₂−J)!/(j₁+j₂+J+1)!] √[(J±M)!(j₁±m₁)!(j₂±m₂)!]
 Σ_k (−1)^k / [k!(j₁+j₂−J−k)!(j₁−m₁−k)!(j₂+m₂−k)!(J−j₂+m₁+k)!(J−j₁−m₂+k)!]`. -/
noncomputable def racah (j1 : Nat) (m1 : Int) (j2 : Nat) (m2 : Int) (J : Nat) (M : Int) : ℝ :=
  if M ≠ m1 + m2 then 0 else
  Real.sqrt ((((J : Int) : ℝ) + 1) * fH ((J : Int) + j1 - j2) * fH ((J : Int) - j1 + j2) * fH ((j1 : Int) + j2 - J)
      * iF ((j1 : Int) + j2 + J + 2))
    * Real.sqrt (racahB j1 j2 J m1 m2 M)
    * ∑ k ∈ range (j1 + j2 + 1), T j1 j2 J m1 m2 k

theorem racahB_neg (a b c m1 m2 M : Int) : racahB a b c (-m1) (-m2) (-M) = racahB a b c m1 m2 M := by
  unfold racahB
  simp only [sub_neg_eq_add, ← sub_eq_add_neg]
  ring

/-- `⟨j₁ −m₁; j₂ −m₂ | J −M⟩ = (−1)^(j₁+j₂−J) ⟨j₁ m₁; j₂ m₂ | J M⟩` for Racah's formula, ALL spins. -/
theorem racah_flip (j1 : Nat) (m1 : Int) (j2 : Nat) (m2 : Int) (J : Nat) (M : Int) :
    racah j1 (-m1) j2 (-m2) J (-M)
      = (phase ((j1 : Int) + (j2 : Int) - (J : Int)) : ℝ) * racah j1 m1 j2 m2 J M := by
  unfold racah
  by_cases hM : M = m1 + m2
  · have h1 : ¬ (-M ≠ -m1 + -m2) := by intro h; apply h; omega
    have h2 : ¬ (M ≠ m1 + m2) := fun h => h hM
    rw [if_neg h1, if_neg h2, racahB_neg]
    have hs := sum_reflect (j1 : Int) (j2 : Int) (J : Int) m1 m2 (j1 + j2) (by push_cast; omega)
    rw [hs]
    have hp : ((phase ((j1 : Int) + (j2 : Int) - (J : Int)) : Int) : ℝ)
        = if ((j1 : Int) + (j2 : Int) - (J : Int)) % 4 = 0 then (1 : ℝ) else -1 := by
      unfold phase; split <;> simp
    rw [hp]
    ring
  · have h1 : -M ≠ -m1 + -m2 := by intro h; apply hM; omega
    rw [if_pos h1, if_pos hM]
    simp

end racah

end Ampverif.Lemmas.C03CG
