/-
Helper lemmas for C06: the modelled natural sort is a linear order on names once ties are broken
by the name; merging pairwise-consistent maps is independent of the merge order.
-/
import Ampverif.Lemmas.C06Dict

set_option linter.unusedSectionVars false

namespace Ampverif.C06

/-! ## `tokLe`, `natKeyLe`, `nameLe` -/

theorem natLex_total : ∀ a b : List Nat, lexLe natLe a b = true ∨ lexLe natLe b a = true :=
  lexLe_total natLe_total
theorem natLex_anti : ∀ a b : List Nat, lexLe natLe a b = true → lexLe natLe b a = true → a = b :=
  lexLe_antisymm natLe_anti
theorem natLex_trans : ∀ a b c : List Nat,
    lexLe natLe a b = true → lexLe natLe b c = true → lexLe natLe a c = true :=
  lexLe_trans natLe_anti natLe_trans

theorem tokLe_total (a b : Tok) : tokLe a b = true ∨ tokLe b a = true := by
  cases a with
  | txt x =>
    cases b with
    | txt y => simpa [tokLe] using natLex_total x y
    | num j g => left; simp [tokLe]
  | num i f =>
    cases b with
    | txt y => right; simp [tokLe]
    | num j g =>
      by_cases h : i = j
      · subst h; simpa [tokLe] using natLex_total f g
      · have h' : ¬ j = i := fun e => h e.symm
        simpa [tokLe, h, h'] using natLe_total i j

theorem tokLe_anti (a b : Tok) : tokLe a b = true → tokLe b a = true → a = b := by
  intro h1 h2
  cases a with
  | txt x =>
    cases b with
    | txt y => simp only [tokLe] at h1 h2; rw [natLex_anti x y h1 h2]
    | num j g => simp [tokLe] at h2
  | num i f =>
    cases b with
    | txt y => simp [tokLe] at h1
    | num j g =>
      by_cases h : i = j
      · subst h
        simp only [tokLe, if_true] at h1 h2
        rw [natLex_anti f g h1 h2]
      · have h' : ¬ j = i := fun e => h e.symm
        simp only [tokLe, h, h', if_false] at h1 h2
        exact absurd (natLe_anti i j h1 h2) h

theorem tokLe_trans (a b c : Tok) : tokLe a b = true → tokLe b c = true → tokLe a c = true := by
  intro h1 h2
  cases a with
  | txt x =>
    cases b with
    | txt y =>
      cases c with
      | txt z => simp only [tokLe] at h1 h2 ⊢; exact natLex_trans x y z h1 h2
      | num k e => simp [tokLe]
    | num j g =>
      cases c with
      | txt z => simp [tokLe] at h2
      | num k e => simp [tokLe]
  | num i f =>
    cases b with
    | txt y => simp [tokLe] at h1
    | num j g =>
      cases c with
      | txt z => simp [tokLe] at h2
      | num k e =>
        by_cases hij : i = j
        · subst hij
          by_cases hik : i = k
          · subst hik
            simp only [tokLe, if_true] at h1 h2 ⊢
            exact natLex_trans f g e h1 h2
          · simp only [tokLe, if_true, hik, if_false] at h1 h2 ⊢
            exact h2
        · by_cases hjk : j = k
          · subst hjk
            simp only [tokLe, hij, if_false, if_true] at h1 h2 ⊢
            exact h1
          · simp only [tokLe, hij, hjk, if_false] at h1 h2
            by_cases hik : i = k
            · subst hik
              exact absurd (natLe_anti i j h1 h2) hij
            · simp only [tokLe, hik, if_false]
              exact natLe_trans i j k h1 h2

theorem natKeyLe_total : ∀ a b : List Tok, natKeyLe a b = true ∨ natKeyLe b a = true :=
  lexLe_total tokLe_total
theorem natKeyLe_anti : ∀ a b : List Tok, natKeyLe a b = true → natKeyLe b a = true → a = b :=
  lexLe_antisymm tokLe_anti
theorem natKeyLe_trans : ∀ a b c : List Tok, natKeyLe a b = true → natKeyLe b c = true → natKeyLe a c = true :=
  lexLe_trans tokLe_anti tokLe_trans

/-- the sort key `(natural_sorting(name), name)` orders names totally … -/
theorem nameLe_total (a b : List Nat) : nameLe a b = true ∨ nameLe b a = true := by
  unfold nameLe
  by_cases h : natKey a = natKey b
  · rw [if_pos h, if_pos h.symm]
    exact natLex_total a b
  · have h' : ¬ natKey b = natKey a := fun e => h e.symm
    rw [if_neg h, if_neg h']
    exact natKeyLe_total _ _

/-- … without ties … -/
theorem nameLe_anti (a b : List Nat) : nameLe a b = true → nameLe b a = true → a = b := by
  unfold nameLe
  by_cases h : natKey a = natKey b
  · rw [if_pos h, if_pos h.symm]
    exact natLex_anti a b
  · have h' : ¬ natKey b = natKey a := fun e => h e.symm
    rw [if_neg h, if_neg h']
    intro h1 h2
    exact absurd (natKeyLe_anti _ _ h1 h2) h

/-- … and transitively. -/
theorem nameLe_trans (a b c : List Nat) : nameLe a b = true → nameLe b c = true → nameLe a c = true := by
  unfold nameLe
  by_cases hab : natKey a = natKey b
  · by_cases hbc : natKey b = natKey c
    · rw [if_pos hab, if_pos hbc, if_pos (hab.trans hbc)]
      exact natLex_trans a b c
    · have hac : ¬ natKey a = natKey c := fun e => hbc (hab.symm.trans e)
      rw [if_pos hab, if_neg hbc, if_neg hac]
      intro _ h2
      rw [hab]; exact h2
  · by_cases hbc : natKey b = natKey c
    · have hac : ¬ natKey a = natKey c := fun e => hab (e.trans hbc.symm)
      rw [if_neg hab, if_pos hbc, if_neg hac]
      intro h1 _
      rw [← hbc]; exact h1
    · rw [if_neg hab, if_neg hbc]
      intro h1 h2
      by_cases hac : natKey a = natKey c
      · rw [← hac] at h2
        exact absurd (natKeyLe_anti _ _ h1 h2) hab
      · rw [if_neg hac]
        exact natKeyLe_trans _ _ _ h1 h2

/-! ## merge order -/

section Merge
variable {κ : Type} {β : Type} [DecidableEq κ]

theorem dget_foldl_dset_some (e : List (κ × β)) (d : List (κ × β)) (k : κ) (v : β)
    (h : dget (e.foldl (fun acc p => dset acc p.1 p.2) d) k = some v) :
    (k, v) ∈ e ∨ dget d k = some v := by
  induction e generalizing d with
  | nil => right; simpa using h
  | cons p t ih =>
    simp only [List.foldl_cons] at h
    rcases ih _ h with h1 | h1
    · left; exact List.mem_cons_of_mem _ h1
    · rw [dget_dset] at h1
      by_cases hk : p.1 = k
      · simp only [hk, if_true] at h1
        left
        have : p = (k, v) := by
          cases p; simp only at hk; subst hk; injection h1 with h1; subst h1; rfl
        rw [this]; exact List.mem_cons_self
      · simp only [hk, if_false] at h1
        right; exact h1

theorem dget_foldl_dset_isSome (e : List (κ × β)) (d : List (κ × β)) (k : κ)
    (h : (∃ v, (k, v) ∈ e) ∨ (dget d k).isSome = true) :
    (dget (e.foldl (fun acc p => dset acc p.1 p.2) d) k).isSome = true := by
  induction e generalizing d with
  | nil =>
    rcases h with ⟨v, hv⟩ | h
    · simp at hv
    · simpa using h
  | cons p t ih =>
    simp only [List.foldl_cons]
    apply ih
    rcases h with ⟨v, hv⟩ | h
    · rcases List.mem_cons.mp hv with h1 | h1
      · right; rw [dget_dset]; subst h1; simp
      · left; exact ⟨v, h1⟩
    · right; rw [dget_dset]
      by_cases hk : p.1 = k
      · simp [hk]
      · simpa [hk] using h

theorem dget_merge_some (ms : List (List (κ × β))) (d : List (κ × β)) (k : κ) (v : β)
    (h : dget (ms.foldl dupdate d) k = some v) :
    (∃ m ∈ ms, (k, v) ∈ m) ∨ dget d k = some v := by
  induction ms generalizing d with
  | nil => right; simpa using h
  | cons m t ih =>
    simp only [List.foldl_cons] at h
    rcases ih _ h with ⟨m', hm', hkv⟩ | h1
    · left; exact ⟨m', List.mem_cons_of_mem _ hm', hkv⟩
    · unfold dupdate at h1
      rcases dget_foldl_dset_some m d k v h1 with h2 | h2
      · left; exact ⟨m, List.mem_cons_self, h2⟩
      · right; exact h2

theorem dget_merge_isSome (ms : List (List (κ × β))) (d : List (κ × β)) (k : κ)
    (h : (∃ m ∈ ms, ∃ v, (k, v) ∈ m) ∨ (dget d k).isSome = true) :
    (dget (ms.foldl dupdate d) k).isSome = true := by
  induction ms generalizing d with
  | nil =>
    rcases h with ⟨m, hm, _⟩ | h
    · simp at hm
    · simpa using h
  | cons m t ih =>
    simp only [List.foldl_cons]
    apply ih
    rcases h with ⟨m', hm', v, hv⟩ | h
    · rcases List.mem_cons.mp hm' with h1 | h1
      · right; subst h1; unfold dupdate; exact dget_foldl_dset_isSome _ d k (Or.inl ⟨v, hv⟩)
      · left; exact ⟨m', h1, v, hv⟩
    · right; unfold dupdate; exact dget_foldl_dset_isSome m d k (Or.inr h)

/-- any two of the maps agree wherever both are defined (C07's no-collision premise) -/
def Consistent (ms : List (List (κ × β))) : Prop :=
  ∀ m₁ ∈ ms, ∀ m₂ ∈ ms, ∀ k v₁ v₂, (k, v₁) ∈ m₁ → (k, v₂) ∈ m₂ → v₁ = v₂

/-- the merged dict denotes the same finite map whatever the order of the `update` calls -/
theorem dmerge_dequiv_of_perm {ms ms' : List (List (κ × β))} (hc : Consistent ms)
    (hp : ms.Perm ms') : DEquiv (dmerge ms) (dmerge ms') := by
  intro k
  unfold dmerge
  cases h : dget (ms.foldl dupdate []) k with
  | none =>
    cases h' : dget (ms'.foldl dupdate []) k with
    | none => rfl
    | some v' =>
      rcases dget_merge_some ms' [] k v' h' with ⟨m, hm, hkv⟩ | h2
      · have := dget_merge_isSome ms [] k (Or.inl ⟨m, hp.mem_iff.mpr hm, v', hkv⟩)
        rw [h] at this; simp at this
      · simp [dget] at h2
  | some v =>
    rcases dget_merge_some ms [] k v h with ⟨m, hm, hkv⟩ | h2
    · cases h' : dget (ms'.foldl dupdate []) k with
      | none =>
        have := dget_merge_isSome ms' [] k (Or.inl ⟨m, hp.mem_iff.mp hm, v, hkv⟩)
        rw [h'] at this; simp at this
      | some v' =>
        rcases dget_merge_some ms' [] k v' h' with ⟨m', hm', hkv'⟩ | h3
        · rw [hc m hm m' (hp.mem_iff.mpr hm') k v v' hkv hkv']
        · simp [dget] at h3
    · simp [dget] at h2

theorem eq_of_mem_of_key_eq {d : List (κ × β)} (hn : NodupKeys d) {a b : κ × β}
    (ha : a ∈ d) (hb : b ∈ d) (h : a.1 = b.1) : a = b := by
  obtain ⟨ka, va⟩ := a
  obtain ⟨kb, vb⟩ := b
  simp only at h
  subst h
  have h1 := mem_dget_of_nodup hn ha
  have h2 := mem_dget_of_nodup hn hb
  rw [h1] at h2
  injection h2 with h2
  rw [h2]

/-- two dicts with the same content are sorted into the same list by a linear order on keys -/
theorem isort_eq_of_dequiv {keyLe : κ → κ → Bool}
    (total : ∀ a b, keyLe a b = true ∨ keyLe b a = true)
    (anti : ∀ a b, keyLe a b = true → keyLe b a = true → a = b)
    (trans : ∀ a b c, keyLe a b = true → keyLe b c = true → keyLe a c = true)
    {d d' : List (κ × β)} (hn : NodupKeys d) (hn' : NodupKeys d') (h : DEquiv d d') :
    isort (fun a b => keyLe a.1 b.1) d = isort (fun a b => keyLe a.1 b.1) d' := by
  refine isort_eq_of_perm (fun a b => total a.1 b.1) (fun a b c => trans a.1 b.1 c.1) ?_
    (perm_of_dequiv hn hn' h)
  intro a b ha hb h1 h2
  exact eq_of_mem_of_key_eq hn ha hb (anti _ _ h1 h2)

end Merge

end Ampverif.C06
