/-
Per-definition lemmas about the regenerated arccos arguments `cos…` of `Gen/C19.lean`
(text produced once by a development script from the case table; fixed afterwards):
* `…_range`: `|cos| ≤ 1` wherever `Kibble ≤ 0`, through the identity
  `4 m₀² (λ_a λ_b − N²) = −c · Kibble` (`c = σ_k`, `m₀²` or `m_i²`), which holds modulo
  `σ₁+σ₂+σ₃ = Σ m²`;
* `…_cov`: for ANY three four-vectors whose invariant masses are the seven symbols, the cosine
  is the covariant Gram-determinant ratio `covCos Q a b` (no frame, no physical-region
  assumption).
-/
import Ampverif.Gen.C19
import Ampverif.Lemmas.C19Vec

set_option linter.unusedSimpArgs false

namespace Ampverif.Lemmas.C19
open Ampverif.Gen.C19

theorem V4.covCos_comm (Q a b : V4) : V4.covCos Q a b = V4.covCos Q b a := by
  have : V4.dot a b = V4.dot b a := by unfold V4.dot; ring
  unfold V4.covCos
  rw [this, mul_comm (V4.dot Q a) (V4.dot Q b), mul_comm (Real.sqrt _) (Real.sqrt _)]

section
variable {m_0 m_1 m_2 m_3 m_12 m_13 m_23 : ℝ}

theorem cosTheta_1_2_range (hm : m_0 ≠ 0)
    (hc : m_12 ^ 2 + m_13 ^ 2 + m_23 ^ 2 = m_0 ^ 2 + m_1 ^ 2 + m_2 ^ 2 + m_3 ^ 2)
    (hK : Kibble (m_23 ^ 2) (m_13 ^ 2) (m_12 ^ 2) m_0 m_1 m_2 m_3 ≤ 0) :
    |cosTheta_1_2 m_0 m_1 m_2 m_3 m_12 m_13 m_23| ≤ 1 := by
  have e : m_12 ^ 2 = m_0 ^ 2 + m_1 ^ 2 + m_2 ^ 2 + m_3 ^ 2 - m_13 ^ 2 - m_23 ^ 2 := by linarith
  unfold cosTheta_1_2
  rw [ratio_shape]
  apply abs_ratio_le_one
  intro _ _
  apply sq_le_of_identity hm (c := m_12 ^ 2) (sq_nonneg _) hK
  unfold Kibble Kallen
  rw [e]
  ring

theorem cosTheta_1_2_cov {p1 p2 p3 : V4} (h : Masses p1 p2 p3 m_0 m_1 m_2 m_3 m_12 m_13 m_23) :
    cosTheta_1_2 m_0 m_1 m_2 m_3 m_12 m_13 m_23 = -V4.covCos (p1 + p2) p1 p3 := by
  unfold cosTheta_1_2
  rw [V4.covCos_comm]
  unfold V4.covCos
  rw [ratio_shape, ← neg_div]
  apply ratio_scale
  all_goals
    simp only [Kallen, h.h0, h.h1, h.h2, h.h3, h.h12, h.h13, h.h23, V4.dot, V4.add_E, V4.add_x,
      V4.add_y, V4.add_z]
    ring

theorem cosTheta_1_3_range (hm : m_0 ≠ 0)
    (hc : m_12 ^ 2 + m_13 ^ 2 + m_23 ^ 2 = m_0 ^ 2 + m_1 ^ 2 + m_2 ^ 2 + m_3 ^ 2)
    (hK : Kibble (m_23 ^ 2) (m_13 ^ 2) (m_12 ^ 2) m_0 m_1 m_2 m_3 ≤ 0) :
    |cosTheta_1_3 m_0 m_1 m_2 m_3 m_12 m_13 m_23| ≤ 1 := by
  have e : m_12 ^ 2 = m_0 ^ 2 + m_1 ^ 2 + m_2 ^ 2 + m_3 ^ 2 - m_13 ^ 2 - m_23 ^ 2 := by linarith
  unfold cosTheta_1_3
  rw [ratio_shape]
  apply abs_ratio_le_one
  intro _ _
  apply sq_le_of_identity hm (c := m_13 ^ 2) (sq_nonneg _) hK
  unfold Kibble Kallen
  rw [e]
  ring

theorem cosTheta_1_3_cov {p1 p2 p3 : V4} (h : Masses p1 p2 p3 m_0 m_1 m_2 m_3 m_12 m_13 m_23) :
    cosTheta_1_3 m_0 m_1 m_2 m_3 m_12 m_13 m_23 = -V4.covCos (p1 + p3) p1 p2 := by
  unfold cosTheta_1_3
  rw [V4.covCos_comm]
  unfold V4.covCos
  rw [ratio_shape, ← neg_div]
  apply ratio_scale
  all_goals
    simp only [Kallen, h.h0, h.h1, h.h2, h.h3, h.h12, h.h13, h.h23, V4.dot, V4.add_E, V4.add_x,
      V4.add_y, V4.add_z]
    ring

theorem cosTheta_2_1_range (hm : m_0 ≠ 0)
    (hc : m_12 ^ 2 + m_13 ^ 2 + m_23 ^ 2 = m_0 ^ 2 + m_1 ^ 2 + m_2 ^ 2 + m_3 ^ 2)
    (hK : Kibble (m_23 ^ 2) (m_13 ^ 2) (m_12 ^ 2) m_0 m_1 m_2 m_3 ≤ 0) :
    |cosTheta_2_1 m_0 m_1 m_2 m_3 m_12 m_13 m_23| ≤ 1 := by
  have e : m_12 ^ 2 = m_0 ^ 2 + m_1 ^ 2 + m_2 ^ 2 + m_3 ^ 2 - m_13 ^ 2 - m_23 ^ 2 := by linarith
  unfold cosTheta_2_1
  rw [ratio_shape]
  apply abs_ratio_le_one
  intro _ _
  apply sq_le_of_identity hm (c := m_12 ^ 2) (sq_nonneg _) hK
  unfold Kibble Kallen
  rw [e]
  ring

theorem cosTheta_2_1_cov {p1 p2 p3 : V4} (h : Masses p1 p2 p3 m_0 m_1 m_2 m_3 m_12 m_13 m_23) :
    cosTheta_2_1 m_0 m_1 m_2 m_3 m_12 m_13 m_23 = -V4.covCos (p2 + p1) p2 p3 := by
  unfold cosTheta_2_1
  rw [V4.covCos_comm]
  unfold V4.covCos
  rw [ratio_shape, ← neg_div]
  apply ratio_scale
  all_goals
    simp only [Kallen, h.h0, h.h1, h.h2, h.h3, h.h12, h.h13, h.h23, V4.dot, V4.add_E, V4.add_x,
      V4.add_y, V4.add_z]
    ring

theorem cosTheta_2_3_range (hm : m_0 ≠ 0)
    (hc : m_12 ^ 2 + m_13 ^ 2 + m_23 ^ 2 = m_0 ^ 2 + m_1 ^ 2 + m_2 ^ 2 + m_3 ^ 2)
    (hK : Kibble (m_23 ^ 2) (m_13 ^ 2) (m_12 ^ 2) m_0 m_1 m_2 m_3 ≤ 0) :
    |cosTheta_2_3 m_0 m_1 m_2 m_3 m_12 m_13 m_23| ≤ 1 := by
  have e : m_12 ^ 2 = m_0 ^ 2 + m_1 ^ 2 + m_2 ^ 2 + m_3 ^ 2 - m_13 ^ 2 - m_23 ^ 2 := by linarith
  unfold cosTheta_2_3
  rw [ratio_shape]
  apply abs_ratio_le_one
  intro _ _
  apply sq_le_of_identity hm (c := m_23 ^ 2) (sq_nonneg _) hK
  unfold Kibble Kallen
  rw [e]
  ring

theorem cosTheta_2_3_cov {p1 p2 p3 : V4} (h : Masses p1 p2 p3 m_0 m_1 m_2 m_3 m_12 m_13 m_23) :
    cosTheta_2_3 m_0 m_1 m_2 m_3 m_12 m_13 m_23 = -V4.covCos (p2 + p3) p2 p1 := by
  unfold cosTheta_2_3
  rw [V4.covCos_comm]
  unfold V4.covCos
  rw [ratio_shape, ← neg_div]
  apply ratio_scale
  all_goals
    simp only [Kallen, h.h0, h.h1, h.h2, h.h3, h.h12, h.h13, h.h23, V4.dot, V4.add_E, V4.add_x,
      V4.add_y, V4.add_z]
    ring

theorem cosTheta_3_1_range (hm : m_0 ≠ 0)
    (hc : m_12 ^ 2 + m_13 ^ 2 + m_23 ^ 2 = m_0 ^ 2 + m_1 ^ 2 + m_2 ^ 2 + m_3 ^ 2)
    (hK : Kibble (m_23 ^ 2) (m_13 ^ 2) (m_12 ^ 2) m_0 m_1 m_2 m_3 ≤ 0) :
    |cosTheta_3_1 m_0 m_1 m_2 m_3 m_12 m_13 m_23| ≤ 1 := by
  have e : m_12 ^ 2 = m_0 ^ 2 + m_1 ^ 2 + m_2 ^ 2 + m_3 ^ 2 - m_13 ^ 2 - m_23 ^ 2 := by linarith
  unfold cosTheta_3_1
  rw [ratio_shape]
  apply abs_ratio_le_one
  intro _ _
  apply sq_le_of_identity hm (c := m_13 ^ 2) (sq_nonneg _) hK
  unfold Kibble Kallen
  rw [e]
  ring

theorem cosTheta_3_1_cov {p1 p2 p3 : V4} (h : Masses p1 p2 p3 m_0 m_1 m_2 m_3 m_12 m_13 m_23) :
    cosTheta_3_1 m_0 m_1 m_2 m_3 m_12 m_13 m_23 = -V4.covCos (p3 + p1) p3 p2 := by
  unfold cosTheta_3_1
  rw [V4.covCos_comm]
  unfold V4.covCos
  rw [ratio_shape, ← neg_div]
  apply ratio_scale
  all_goals
    simp only [Kallen, h.h0, h.h1, h.h2, h.h3, h.h12, h.h13, h.h23, V4.dot, V4.add_E, V4.add_x,
      V4.add_y, V4.add_z]
    ring

theorem cosTheta_3_2_range (hm : m_0 ≠ 0)
    (hc : m_12 ^ 2 + m_13 ^ 2 + m_23 ^ 2 = m_0 ^ 2 + m_1 ^ 2 + m_2 ^ 2 + m_3 ^ 2)
    (hK : Kibble (m_23 ^ 2) (m_13 ^ 2) (m_12 ^ 2) m_0 m_1 m_2 m_3 ≤ 0) :
    |cosTheta_3_2 m_0 m_1 m_2 m_3 m_12 m_13 m_23| ≤ 1 := by
  have e : m_12 ^ 2 = m_0 ^ 2 + m_1 ^ 2 + m_2 ^ 2 + m_3 ^ 2 - m_13 ^ 2 - m_23 ^ 2 := by linarith
  unfold cosTheta_3_2
  rw [ratio_shape]
  apply abs_ratio_le_one
  intro _ _
  apply sq_le_of_identity hm (c := m_23 ^ 2) (sq_nonneg _) hK
  unfold Kibble Kallen
  rw [e]
  ring

theorem cosTheta_3_2_cov {p1 p2 p3 : V4} (h : Masses p1 p2 p3 m_0 m_1 m_2 m_3 m_12 m_13 m_23) :
    cosTheta_3_2 m_0 m_1 m_2 m_3 m_12 m_13 m_23 = -V4.covCos (p3 + p2) p3 p1 := by
  unfold cosTheta_3_2
  rw [V4.covCos_comm]
  unfold V4.covCos
  rw [ratio_shape, ← neg_div]
  apply ratio_scale
  all_goals
    simp only [Kallen, h.h0, h.h1, h.h2, h.h3, h.h12, h.h13, h.h23, V4.dot, V4.add_E, V4.add_x,
      V4.add_y, V4.add_z]
    ring

theorem cosThetaHat_1_2_range (hm : m_0 ≠ 0)
    (hc : m_12 ^ 2 + m_13 ^ 2 + m_23 ^ 2 = m_0 ^ 2 + m_1 ^ 2 + m_2 ^ 2 + m_3 ^ 2)
    (hK : Kibble (m_23 ^ 2) (m_13 ^ 2) (m_12 ^ 2) m_0 m_1 m_2 m_3 ≤ 0) :
    |cosThetaHat_1_2 m_0 m_1 m_2 m_3 m_12 m_13 m_23| ≤ 1 := by
  have e : m_12 ^ 2 = m_0 ^ 2 + m_1 ^ 2 + m_2 ^ 2 + m_3 ^ 2 - m_13 ^ 2 - m_23 ^ 2 := by linarith
  unfold cosThetaHat_1_2
  rw [ratio_shape]
  apply abs_ratio_le_one
  intro _ _
  apply sq_le_of_identity hm (c := m_0 ^ 2) (sq_nonneg _) hK
  unfold Kibble Kallen
  rw [e]
  ring

theorem cosThetaHat_1_2_cov {p1 p2 p3 : V4} (h : Masses p1 p2 p3 m_0 m_1 m_2 m_3 m_12 m_13 m_23) :
    cosThetaHat_1_2 m_0 m_1 m_2 m_3 m_12 m_13 m_23 = V4.covCos (p1 + p2 + p3) p1 p2 := by
  unfold cosThetaHat_1_2
  rw [V4.covCos_comm]
  unfold V4.covCos
  rw [ratio_shape]
  apply ratio_scale
  all_goals
    simp only [Kallen, h.h0, h.h1, h.h2, h.h3, h.h12, h.h13, h.h23, V4.dot, V4.add_E, V4.add_x,
      V4.add_y, V4.add_z]
    ring

theorem cosThetaHat_1_3_range (hm : m_0 ≠ 0)
    (hc : m_12 ^ 2 + m_13 ^ 2 + m_23 ^ 2 = m_0 ^ 2 + m_1 ^ 2 + m_2 ^ 2 + m_3 ^ 2)
    (hK : Kibble (m_23 ^ 2) (m_13 ^ 2) (m_12 ^ 2) m_0 m_1 m_2 m_3 ≤ 0) :
    |cosThetaHat_1_3 m_0 m_1 m_2 m_3 m_12 m_13 m_23| ≤ 1 := by
  have e : m_12 ^ 2 = m_0 ^ 2 + m_1 ^ 2 + m_2 ^ 2 + m_3 ^ 2 - m_13 ^ 2 - m_23 ^ 2 := by linarith
  unfold cosThetaHat_1_3
  rw [ratio_shape]
  apply abs_ratio_le_one
  intro _ _
  apply sq_le_of_identity hm (c := m_0 ^ 2) (sq_nonneg _) hK
  unfold Kibble Kallen
  rw [e]
  ring

theorem cosThetaHat_1_3_cov {p1 p2 p3 : V4} (h : Masses p1 p2 p3 m_0 m_1 m_2 m_3 m_12 m_13 m_23) :
    cosThetaHat_1_3 m_0 m_1 m_2 m_3 m_12 m_13 m_23 = V4.covCos (p1 + p2 + p3) p1 p3 := by
  unfold cosThetaHat_1_3
  unfold V4.covCos
  rw [ratio_shape]
  apply ratio_scale
  all_goals
    simp only [Kallen, h.h0, h.h1, h.h2, h.h3, h.h12, h.h13, h.h23, V4.dot, V4.add_E, V4.add_x,
      V4.add_y, V4.add_z]
    ring

theorem cosThetaHat_2_1_range (hm : m_0 ≠ 0)
    (hc : m_12 ^ 2 + m_13 ^ 2 + m_23 ^ 2 = m_0 ^ 2 + m_1 ^ 2 + m_2 ^ 2 + m_3 ^ 2)
    (hK : Kibble (m_23 ^ 2) (m_13 ^ 2) (m_12 ^ 2) m_0 m_1 m_2 m_3 ≤ 0) :
    |cosThetaHat_2_1 m_0 m_1 m_2 m_3 m_12 m_13 m_23| ≤ 1 := by
  have e : m_12 ^ 2 = m_0 ^ 2 + m_1 ^ 2 + m_2 ^ 2 + m_3 ^ 2 - m_13 ^ 2 - m_23 ^ 2 := by linarith
  unfold cosThetaHat_2_1
  rw [ratio_shape]
  apply abs_ratio_le_one
  intro _ _
  apply sq_le_of_identity hm (c := m_0 ^ 2) (sq_nonneg _) hK
  unfold Kibble Kallen
  rw [e]
  ring

theorem cosThetaHat_2_1_cov {p1 p2 p3 : V4} (h : Masses p1 p2 p3 m_0 m_1 m_2 m_3 m_12 m_13 m_23) :
    cosThetaHat_2_1 m_0 m_1 m_2 m_3 m_12 m_13 m_23 = V4.covCos (p1 + p2 + p3) p2 p1 := by
  unfold cosThetaHat_2_1
  unfold V4.covCos
  rw [ratio_shape]
  apply ratio_scale
  all_goals
    simp only [Kallen, h.h0, h.h1, h.h2, h.h3, h.h12, h.h13, h.h23, V4.dot, V4.add_E, V4.add_x,
      V4.add_y, V4.add_z]
    ring

theorem cosThetaHat_2_3_range (hm : m_0 ≠ 0)
    (hc : m_12 ^ 2 + m_13 ^ 2 + m_23 ^ 2 = m_0 ^ 2 + m_1 ^ 2 + m_2 ^ 2 + m_3 ^ 2)
    (hK : Kibble (m_23 ^ 2) (m_13 ^ 2) (m_12 ^ 2) m_0 m_1 m_2 m_3 ≤ 0) :
    |cosThetaHat_2_3 m_0 m_1 m_2 m_3 m_12 m_13 m_23| ≤ 1 := by
  have e : m_12 ^ 2 = m_0 ^ 2 + m_1 ^ 2 + m_2 ^ 2 + m_3 ^ 2 - m_13 ^ 2 - m_23 ^ 2 := by linarith
  unfold cosThetaHat_2_3
  rw [ratio_shape]
  apply abs_ratio_le_one
  intro _ _
  apply sq_le_of_identity hm (c := m_0 ^ 2) (sq_nonneg _) hK
  unfold Kibble Kallen
  rw [e]
  ring

theorem cosThetaHat_2_3_cov {p1 p2 p3 : V4} (h : Masses p1 p2 p3 m_0 m_1 m_2 m_3 m_12 m_13 m_23) :
    cosThetaHat_2_3 m_0 m_1 m_2 m_3 m_12 m_13 m_23 = V4.covCos (p1 + p2 + p3) p2 p3 := by
  unfold cosThetaHat_2_3
  unfold V4.covCos
  rw [ratio_shape]
  apply ratio_scale
  all_goals
    simp only [Kallen, h.h0, h.h1, h.h2, h.h3, h.h12, h.h13, h.h23, V4.dot, V4.add_E, V4.add_x,
      V4.add_y, V4.add_z]
    ring

theorem cosThetaHat_3_1_range (hm : m_0 ≠ 0)
    (hc : m_12 ^ 2 + m_13 ^ 2 + m_23 ^ 2 = m_0 ^ 2 + m_1 ^ 2 + m_2 ^ 2 + m_3 ^ 2)
    (hK : Kibble (m_23 ^ 2) (m_13 ^ 2) (m_12 ^ 2) m_0 m_1 m_2 m_3 ≤ 0) :
    |cosThetaHat_3_1 m_0 m_1 m_2 m_3 m_12 m_13 m_23| ≤ 1 := by
  have e : m_12 ^ 2 = m_0 ^ 2 + m_1 ^ 2 + m_2 ^ 2 + m_3 ^ 2 - m_13 ^ 2 - m_23 ^ 2 := by linarith
  unfold cosThetaHat_3_1
  rw [ratio_shape]
  apply abs_ratio_le_one
  intro _ _
  apply sq_le_of_identity hm (c := m_0 ^ 2) (sq_nonneg _) hK
  unfold Kibble Kallen
  rw [e]
  ring

theorem cosThetaHat_3_1_cov {p1 p2 p3 : V4} (h : Masses p1 p2 p3 m_0 m_1 m_2 m_3 m_12 m_13 m_23) :
    cosThetaHat_3_1 m_0 m_1 m_2 m_3 m_12 m_13 m_23 = V4.covCos (p1 + p2 + p3) p3 p1 := by
  unfold cosThetaHat_3_1
  rw [V4.covCos_comm]
  unfold V4.covCos
  rw [ratio_shape]
  apply ratio_scale
  all_goals
    simp only [Kallen, h.h0, h.h1, h.h2, h.h3, h.h12, h.h13, h.h23, V4.dot, V4.add_E, V4.add_x,
      V4.add_y, V4.add_z]
    ring

theorem cosThetaHat_3_2_range (hm : m_0 ≠ 0)
    (hc : m_12 ^ 2 + m_13 ^ 2 + m_23 ^ 2 = m_0 ^ 2 + m_1 ^ 2 + m_2 ^ 2 + m_3 ^ 2)
    (hK : Kibble (m_23 ^ 2) (m_13 ^ 2) (m_12 ^ 2) m_0 m_1 m_2 m_3 ≤ 0) :
    |cosThetaHat_3_2 m_0 m_1 m_2 m_3 m_12 m_13 m_23| ≤ 1 := by
  have e : m_12 ^ 2 = m_0 ^ 2 + m_1 ^ 2 + m_2 ^ 2 + m_3 ^ 2 - m_13 ^ 2 - m_23 ^ 2 := by linarith
  unfold cosThetaHat_3_2
  rw [ratio_shape]
  apply abs_ratio_le_one
  intro _ _
  apply sq_le_of_identity hm (c := m_0 ^ 2) (sq_nonneg _) hK
  unfold Kibble Kallen
  rw [e]
  ring

theorem cosThetaHat_3_2_cov {p1 p2 p3 : V4} (h : Masses p1 p2 p3 m_0 m_1 m_2 m_3 m_12 m_13 m_23) :
    cosThetaHat_3_2 m_0 m_1 m_2 m_3 m_12 m_13 m_23 = V4.covCos (p1 + p2 + p3) p3 p2 := by
  unfold cosThetaHat_3_2
  rw [V4.covCos_comm]
  unfold V4.covCos
  rw [ratio_shape]
  apply ratio_scale
  all_goals
    simp only [Kallen, h.h0, h.h1, h.h2, h.h3, h.h12, h.h13, h.h23, V4.dot, V4.add_E, V4.add_x,
      V4.add_y, V4.add_z]
    ring

theorem cosZeta_0_1_2_range (hm : m_0 ≠ 0)
    (hc : m_12 ^ 2 + m_13 ^ 2 + m_23 ^ 2 = m_0 ^ 2 + m_1 ^ 2 + m_2 ^ 2 + m_3 ^ 2)
    (hK : Kibble (m_23 ^ 2) (m_13 ^ 2) (m_12 ^ 2) m_0 m_1 m_2 m_3 ≤ 0) :
    |cosZeta_0_1_2 m_0 m_1 m_2 m_3 m_12 m_13 m_23| ≤ 1 := by
  have e : m_12 ^ 2 = m_0 ^ 2 + m_1 ^ 2 + m_2 ^ 2 + m_3 ^ 2 - m_13 ^ 2 - m_23 ^ 2 := by linarith
  unfold cosZeta_0_1_2
  rw [ratio_shape]
  apply abs_ratio_le_one
  intro _ _
  apply sq_le_of_identity hm (c := m_0 ^ 2) (sq_nonneg _) hK
  unfold Kibble Kallen
  rw [e]
  ring

theorem cosZeta_0_1_2_cov {p1 p2 p3 : V4} (h : Masses p1 p2 p3 m_0 m_1 m_2 m_3 m_12 m_13 m_23) :
    cosZeta_0_1_2 m_0 m_1 m_2 m_3 m_12 m_13 m_23 = V4.covCos (p1 + p2 + p3) p1 p2 := by
  unfold cosZeta_0_1_2
  rw [V4.covCos_comm]
  unfold V4.covCos
  rw [ratio_shape]
  apply ratio_scale
  all_goals
    simp only [Kallen, h.h0, h.h1, h.h2, h.h3, h.h12, h.h13, h.h23, V4.dot, V4.add_E, V4.add_x,
      V4.add_y, V4.add_z]
    ring

theorem cosZeta_0_1_3_range (hm : m_0 ≠ 0)
    (hc : m_12 ^ 2 + m_13 ^ 2 + m_23 ^ 2 = m_0 ^ 2 + m_1 ^ 2 + m_2 ^ 2 + m_3 ^ 2)
    (hK : Kibble (m_23 ^ 2) (m_13 ^ 2) (m_12 ^ 2) m_0 m_1 m_2 m_3 ≤ 0) :
    |cosZeta_0_1_3 m_0 m_1 m_2 m_3 m_12 m_13 m_23| ≤ 1 := by
  have e : m_12 ^ 2 = m_0 ^ 2 + m_1 ^ 2 + m_2 ^ 2 + m_3 ^ 2 - m_13 ^ 2 - m_23 ^ 2 := by linarith
  unfold cosZeta_0_1_3
  rw [ratio_shape]
  apply abs_ratio_le_one
  intro _ _
  apply sq_le_of_identity hm (c := m_0 ^ 2) (sq_nonneg _) hK
  unfold Kibble Kallen
  rw [e]
  ring

theorem cosZeta_0_1_3_cov {p1 p2 p3 : V4} (h : Masses p1 p2 p3 m_0 m_1 m_2 m_3 m_12 m_13 m_23) :
    cosZeta_0_1_3 m_0 m_1 m_2 m_3 m_12 m_13 m_23 = V4.covCos (p1 + p2 + p3) p1 p3 := by
  unfold cosZeta_0_1_3
  unfold V4.covCos
  rw [ratio_shape]
  apply ratio_scale
  all_goals
    simp only [Kallen, h.h0, h.h1, h.h2, h.h3, h.h12, h.h13, h.h23, V4.dot, V4.add_E, V4.add_x,
      V4.add_y, V4.add_z]
    ring

theorem cosZeta_0_2_1_range (hm : m_0 ≠ 0)
    (hc : m_12 ^ 2 + m_13 ^ 2 + m_23 ^ 2 = m_0 ^ 2 + m_1 ^ 2 + m_2 ^ 2 + m_3 ^ 2)
    (hK : Kibble (m_23 ^ 2) (m_13 ^ 2) (m_12 ^ 2) m_0 m_1 m_2 m_3 ≤ 0) :
    |cosZeta_0_2_1 m_0 m_1 m_2 m_3 m_12 m_13 m_23| ≤ 1 := by
  have e : m_12 ^ 2 = m_0 ^ 2 + m_1 ^ 2 + m_2 ^ 2 + m_3 ^ 2 - m_13 ^ 2 - m_23 ^ 2 := by linarith
  unfold cosZeta_0_2_1
  rw [ratio_shape]
  apply abs_ratio_le_one
  intro _ _
  apply sq_le_of_identity hm (c := m_0 ^ 2) (sq_nonneg _) hK
  unfold Kibble Kallen
  rw [e]
  ring

theorem cosZeta_0_2_1_cov {p1 p2 p3 : V4} (h : Masses p1 p2 p3 m_0 m_1 m_2 m_3 m_12 m_13 m_23) :
    cosZeta_0_2_1 m_0 m_1 m_2 m_3 m_12 m_13 m_23 = V4.covCos (p1 + p2 + p3) p2 p1 := by
  unfold cosZeta_0_2_1
  unfold V4.covCos
  rw [ratio_shape]
  apply ratio_scale
  all_goals
    simp only [Kallen, h.h0, h.h1, h.h2, h.h3, h.h12, h.h13, h.h23, V4.dot, V4.add_E, V4.add_x,
      V4.add_y, V4.add_z]
    ring

theorem cosZeta_0_2_3_range (hm : m_0 ≠ 0)
    (hc : m_12 ^ 2 + m_13 ^ 2 + m_23 ^ 2 = m_0 ^ 2 + m_1 ^ 2 + m_2 ^ 2 + m_3 ^ 2)
    (hK : Kibble (m_23 ^ 2) (m_13 ^ 2) (m_12 ^ 2) m_0 m_1 m_2 m_3 ≤ 0) :
    |cosZeta_0_2_3 m_0 m_1 m_2 m_3 m_12 m_13 m_23| ≤ 1 := by
  have e : m_12 ^ 2 = m_0 ^ 2 + m_1 ^ 2 + m_2 ^ 2 + m_3 ^ 2 - m_13 ^ 2 - m_23 ^ 2 := by linarith
  unfold cosZeta_0_2_3
  rw [ratio_shape]
  apply abs_ratio_le_one
  intro _ _
  apply sq_le_of_identity hm (c := m_0 ^ 2) (sq_nonneg _) hK
  unfold Kibble Kallen
  rw [e]
  ring

theorem cosZeta_0_2_3_cov {p1 p2 p3 : V4} (h : Masses p1 p2 p3 m_0 m_1 m_2 m_3 m_12 m_13 m_23) :
    cosZeta_0_2_3 m_0 m_1 m_2 m_3 m_12 m_13 m_23 = V4.covCos (p1 + p2 + p3) p2 p3 := by
  unfold cosZeta_0_2_3
  unfold V4.covCos
  rw [ratio_shape]
  apply ratio_scale
  all_goals
    simp only [Kallen, h.h0, h.h1, h.h2, h.h3, h.h12, h.h13, h.h23, V4.dot, V4.add_E, V4.add_x,
      V4.add_y, V4.add_z]
    ring

theorem cosZeta_0_3_1_range (hm : m_0 ≠ 0)
    (hc : m_12 ^ 2 + m_13 ^ 2 + m_23 ^ 2 = m_0 ^ 2 + m_1 ^ 2 + m_2 ^ 2 + m_3 ^ 2)
    (hK : Kibble (m_23 ^ 2) (m_13 ^ 2) (m_12 ^ 2) m_0 m_1 m_2 m_3 ≤ 0) :
    |cosZeta_0_3_1 m_0 m_1 m_2 m_3 m_12 m_13 m_23| ≤ 1 := by
  have e : m_12 ^ 2 = m_0 ^ 2 + m_1 ^ 2 + m_2 ^ 2 + m_3 ^ 2 - m_13 ^ 2 - m_23 ^ 2 := by linarith
  unfold cosZeta_0_3_1
  rw [ratio_shape]
  apply abs_ratio_le_one
  intro _ _
  apply sq_le_of_identity hm (c := m_0 ^ 2) (sq_nonneg _) hK
  unfold Kibble Kallen
  rw [e]
  ring

theorem cosZeta_0_3_1_cov {p1 p2 p3 : V4} (h : Masses p1 p2 p3 m_0 m_1 m_2 m_3 m_12 m_13 m_23) :
    cosZeta_0_3_1 m_0 m_1 m_2 m_3 m_12 m_13 m_23 = V4.covCos (p1 + p2 + p3) p3 p1 := by
  unfold cosZeta_0_3_1
  rw [V4.covCos_comm]
  unfold V4.covCos
  rw [ratio_shape]
  apply ratio_scale
  all_goals
    simp only [Kallen, h.h0, h.h1, h.h2, h.h3, h.h12, h.h13, h.h23, V4.dot, V4.add_E, V4.add_x,
      V4.add_y, V4.add_z]
    ring

theorem cosZeta_0_3_2_range (hm : m_0 ≠ 0)
    (hc : m_12 ^ 2 + m_13 ^ 2 + m_23 ^ 2 = m_0 ^ 2 + m_1 ^ 2 + m_2 ^ 2 + m_3 ^ 2)
    (hK : Kibble (m_23 ^ 2) (m_13 ^ 2) (m_12 ^ 2) m_0 m_1 m_2 m_3 ≤ 0) :
    |cosZeta_0_3_2 m_0 m_1 m_2 m_3 m_12 m_13 m_23| ≤ 1 := by
  have e : m_12 ^ 2 = m_0 ^ 2 + m_1 ^ 2 + m_2 ^ 2 + m_3 ^ 2 - m_13 ^ 2 - m_23 ^ 2 := by linarith
  unfold cosZeta_0_3_2
  rw [ratio_shape]
  apply abs_ratio_le_one
  intro _ _
  apply sq_le_of_identity hm (c := m_0 ^ 2) (sq_nonneg _) hK
  unfold Kibble Kallen
  rw [e]
  ring

theorem cosZeta_0_3_2_cov {p1 p2 p3 : V4} (h : Masses p1 p2 p3 m_0 m_1 m_2 m_3 m_12 m_13 m_23) :
    cosZeta_0_3_2 m_0 m_1 m_2 m_3 m_12 m_13 m_23 = V4.covCos (p1 + p2 + p3) p3 p2 := by
  unfold cosZeta_0_3_2
  rw [V4.covCos_comm]
  unfold V4.covCos
  rw [ratio_shape]
  apply ratio_scale
  all_goals
    simp only [Kallen, h.h0, h.h1, h.h2, h.h3, h.h12, h.h13, h.h23, V4.dot, V4.add_E, V4.add_x,
      V4.add_y, V4.add_z]
    ring

theorem cosZeta_1_1_2_range (hm : m_0 ≠ 0)
    (hc : m_12 ^ 2 + m_13 ^ 2 + m_23 ^ 2 = m_0 ^ 2 + m_1 ^ 2 + m_2 ^ 2 + m_3 ^ 2)
    (hK : Kibble (m_23 ^ 2) (m_13 ^ 2) (m_12 ^ 2) m_0 m_1 m_2 m_3 ≤ 0) :
    |cosZeta_1_1_2 m_0 m_1 m_2 m_3 m_12 m_13 m_23| ≤ 1 := by
  have e : m_12 ^ 2 = m_0 ^ 2 + m_1 ^ 2 + m_2 ^ 2 + m_3 ^ 2 - m_13 ^ 2 - m_23 ^ 2 := by linarith
  unfold cosZeta_1_1_2
  rw [ratio_shape]
  apply abs_ratio_le_one
  intro _ _
  apply sq_le_of_identity hm (c := m_1 ^ 2) (sq_nonneg _) hK
  unfold Kibble Kallen
  rw [e]
  ring

theorem cosZeta_1_1_2_cov {p1 p2 p3 : V4} (h : Masses p1 p2 p3 m_0 m_1 m_2 m_3 m_12 m_13 m_23) :
    cosZeta_1_1_2 m_0 m_1 m_2 m_3 m_12 m_13 m_23 = V4.covCos p1 (p1 + p2 + p3) p3 := by
  unfold cosZeta_1_1_2
  unfold V4.covCos
  rw [ratio_shape]
  apply ratio_scale
  all_goals
    simp only [Kallen, h.h0, h.h1, h.h2, h.h3, h.h12, h.h13, h.h23, V4.dot, V4.add_E, V4.add_x,
      V4.add_y, V4.add_z]
    ring

theorem cosZeta_1_1_3_range (hm : m_0 ≠ 0)
    (hc : m_12 ^ 2 + m_13 ^ 2 + m_23 ^ 2 = m_0 ^ 2 + m_1 ^ 2 + m_2 ^ 2 + m_3 ^ 2)
    (hK : Kibble (m_23 ^ 2) (m_13 ^ 2) (m_12 ^ 2) m_0 m_1 m_2 m_3 ≤ 0) :
    |cosZeta_1_1_3 m_0 m_1 m_2 m_3 m_12 m_13 m_23| ≤ 1 := by
  have e : m_12 ^ 2 = m_0 ^ 2 + m_1 ^ 2 + m_2 ^ 2 + m_3 ^ 2 - m_13 ^ 2 - m_23 ^ 2 := by linarith
  unfold cosZeta_1_1_3
  rw [ratio_shape]
  apply abs_ratio_le_one
  intro _ _
  apply sq_le_of_identity hm (c := m_1 ^ 2) (sq_nonneg _) hK
  unfold Kibble Kallen
  rw [e]
  ring

theorem cosZeta_1_1_3_cov {p1 p2 p3 : V4} (h : Masses p1 p2 p3 m_0 m_1 m_2 m_3 m_12 m_13 m_23) :
    cosZeta_1_1_3 m_0 m_1 m_2 m_3 m_12 m_13 m_23 = V4.covCos p1 (p1 + p2 + p3) p2 := by
  unfold cosZeta_1_1_3
  unfold V4.covCos
  rw [ratio_shape]
  apply ratio_scale
  all_goals
    simp only [Kallen, h.h0, h.h1, h.h2, h.h3, h.h12, h.h13, h.h23, V4.dot, V4.add_E, V4.add_x,
      V4.add_y, V4.add_z]
    ring

theorem cosZeta_1_2_0_range (hm : m_0 ≠ 0)
    (hc : m_12 ^ 2 + m_13 ^ 2 + m_23 ^ 2 = m_0 ^ 2 + m_1 ^ 2 + m_2 ^ 2 + m_3 ^ 2)
    (hK : Kibble (m_23 ^ 2) (m_13 ^ 2) (m_12 ^ 2) m_0 m_1 m_2 m_3 ≤ 0) :
    |cosZeta_1_2_0 m_0 m_1 m_2 m_3 m_12 m_13 m_23| ≤ 1 := by
  have e : m_12 ^ 2 = m_0 ^ 2 + m_1 ^ 2 + m_2 ^ 2 + m_3 ^ 2 - m_13 ^ 2 - m_23 ^ 2 := by linarith
  unfold cosZeta_1_2_0
  rw [ratio_shape]
  apply abs_ratio_le_one
  intro _ _
  apply sq_le_of_identity hm (c := m_1 ^ 2) (sq_nonneg _) hK
  unfold Kibble Kallen
  rw [e]
  ring

theorem cosZeta_1_2_0_cov {p1 p2 p3 : V4} (h : Masses p1 p2 p3 m_0 m_1 m_2 m_3 m_12 m_13 m_23) :
    cosZeta_1_2_0 m_0 m_1 m_2 m_3 m_12 m_13 m_23 = V4.covCos p1 p3 (p1 + p2 + p3) := by
  unfold cosZeta_1_2_0
  rw [V4.covCos_comm]
  unfold V4.covCos
  rw [ratio_shape]
  apply ratio_scale
  all_goals
    simp only [Kallen, h.h0, h.h1, h.h2, h.h3, h.h12, h.h13, h.h23, V4.dot, V4.add_E, V4.add_x,
      V4.add_y, V4.add_z]
    ring

theorem cosZeta_1_2_1_range (hm : m_0 ≠ 0)
    (hc : m_12 ^ 2 + m_13 ^ 2 + m_23 ^ 2 = m_0 ^ 2 + m_1 ^ 2 + m_2 ^ 2 + m_3 ^ 2)
    (hK : Kibble (m_23 ^ 2) (m_13 ^ 2) (m_12 ^ 2) m_0 m_1 m_2 m_3 ≤ 0) :
    |cosZeta_1_2_1 m_0 m_1 m_2 m_3 m_12 m_13 m_23| ≤ 1 := by
  have e : m_12 ^ 2 = m_0 ^ 2 + m_1 ^ 2 + m_2 ^ 2 + m_3 ^ 2 - m_13 ^ 2 - m_23 ^ 2 := by linarith
  unfold cosZeta_1_2_1
  rw [ratio_shape]
  apply abs_ratio_le_one
  intro _ _
  apply sq_le_of_identity hm (c := m_1 ^ 2) (sq_nonneg _) hK
  unfold Kibble Kallen
  rw [e]
  ring

theorem cosZeta_1_2_1_cov {p1 p2 p3 : V4} (h : Masses p1 p2 p3 m_0 m_1 m_2 m_3 m_12 m_13 m_23) :
    cosZeta_1_2_1 m_0 m_1 m_2 m_3 m_12 m_13 m_23 = V4.covCos p1 p3 (p1 + p2 + p3) := by
  unfold cosZeta_1_2_1
  rw [V4.covCos_comm]
  unfold V4.covCos
  rw [ratio_shape]
  apply ratio_scale
  all_goals
    simp only [Kallen, h.h0, h.h1, h.h2, h.h3, h.h12, h.h13, h.h23, V4.dot, V4.add_E, V4.add_x,
      V4.add_y, V4.add_z]
    ring

theorem cosZeta_1_2_3_range (hm : m_0 ≠ 0)
    (hc : m_12 ^ 2 + m_13 ^ 2 + m_23 ^ 2 = m_0 ^ 2 + m_1 ^ 2 + m_2 ^ 2 + m_3 ^ 2)
    (hK : Kibble (m_23 ^ 2) (m_13 ^ 2) (m_12 ^ 2) m_0 m_1 m_2 m_3 ≤ 0) :
    |cosZeta_1_2_3 m_0 m_1 m_2 m_3 m_12 m_13 m_23| ≤ 1 := by
  have e : m_12 ^ 2 = m_0 ^ 2 + m_1 ^ 2 + m_2 ^ 2 + m_3 ^ 2 - m_13 ^ 2 - m_23 ^ 2 := by linarith
  unfold cosZeta_1_2_3
  rw [ratio_shape]
  apply abs_ratio_le_one
  intro _ _
  apply sq_le_of_identity hm (c := m_1 ^ 2) (sq_nonneg _) hK
  unfold Kibble Kallen
  rw [e]
  ring

theorem cosZeta_1_2_3_cov {p1 p2 p3 : V4} (h : Masses p1 p2 p3 m_0 m_1 m_2 m_3 m_12 m_13 m_23) :
    cosZeta_1_2_3 m_0 m_1 m_2 m_3 m_12 m_13 m_23 = V4.covCos p1 p3 p2 := by
  unfold cosZeta_1_2_3
  rw [V4.covCos_comm]
  unfold V4.covCos
  rw [ratio_shape]
  apply ratio_scale
  all_goals
    simp only [Kallen, h.h0, h.h1, h.h2, h.h3, h.h12, h.h13, h.h23, V4.dot, V4.add_E, V4.add_x,
      V4.add_y, V4.add_z]
    ring

theorem cosZeta_1_3_0_range (hm : m_0 ≠ 0)
    (hc : m_12 ^ 2 + m_13 ^ 2 + m_23 ^ 2 = m_0 ^ 2 + m_1 ^ 2 + m_2 ^ 2 + m_3 ^ 2)
    (hK : Kibble (m_23 ^ 2) (m_13 ^ 2) (m_12 ^ 2) m_0 m_1 m_2 m_3 ≤ 0) :
    |cosZeta_1_3_0 m_0 m_1 m_2 m_3 m_12 m_13 m_23| ≤ 1 := by
  have e : m_12 ^ 2 = m_0 ^ 2 + m_1 ^ 2 + m_2 ^ 2 + m_3 ^ 2 - m_13 ^ 2 - m_23 ^ 2 := by linarith
  unfold cosZeta_1_3_0
  rw [ratio_shape]
  apply abs_ratio_le_one
  intro _ _
  apply sq_le_of_identity hm (c := m_1 ^ 2) (sq_nonneg _) hK
  unfold Kibble Kallen
  rw [e]
  ring

theorem cosZeta_1_3_0_cov {p1 p2 p3 : V4} (h : Masses p1 p2 p3 m_0 m_1 m_2 m_3 m_12 m_13 m_23) :
    cosZeta_1_3_0 m_0 m_1 m_2 m_3 m_12 m_13 m_23 = V4.covCos p1 p2 (p1 + p2 + p3) := by
  unfold cosZeta_1_3_0
  rw [V4.covCos_comm]
  unfold V4.covCos
  rw [ratio_shape]
  apply ratio_scale
  all_goals
    simp only [Kallen, h.h0, h.h1, h.h2, h.h3, h.h12, h.h13, h.h23, V4.dot, V4.add_E, V4.add_x,
      V4.add_y, V4.add_z]
    ring

theorem cosZeta_1_3_1_range (hm : m_0 ≠ 0)
    (hc : m_12 ^ 2 + m_13 ^ 2 + m_23 ^ 2 = m_0 ^ 2 + m_1 ^ 2 + m_2 ^ 2 + m_3 ^ 2)
    (hK : Kibble (m_23 ^ 2) (m_13 ^ 2) (m_12 ^ 2) m_0 m_1 m_2 m_3 ≤ 0) :
    |cosZeta_1_3_1 m_0 m_1 m_2 m_3 m_12 m_13 m_23| ≤ 1 := by
  have e : m_12 ^ 2 = m_0 ^ 2 + m_1 ^ 2 + m_2 ^ 2 + m_3 ^ 2 - m_13 ^ 2 - m_23 ^ 2 := by linarith
  unfold cosZeta_1_3_1
  rw [ratio_shape]
  apply abs_ratio_le_one
  intro _ _
  apply sq_le_of_identity hm (c := m_1 ^ 2) (sq_nonneg _) hK
  unfold Kibble Kallen
  rw [e]
  ring

theorem cosZeta_1_3_1_cov {p1 p2 p3 : V4} (h : Masses p1 p2 p3 m_0 m_1 m_2 m_3 m_12 m_13 m_23) :
    cosZeta_1_3_1 m_0 m_1 m_2 m_3 m_12 m_13 m_23 = V4.covCos p1 p2 (p1 + p2 + p3) := by
  unfold cosZeta_1_3_1
  rw [V4.covCos_comm]
  unfold V4.covCos
  rw [ratio_shape]
  apply ratio_scale
  all_goals
    simp only [Kallen, h.h0, h.h1, h.h2, h.h3, h.h12, h.h13, h.h23, V4.dot, V4.add_E, V4.add_x,
      V4.add_y, V4.add_z]
    ring

theorem cosZeta_1_3_2_range (hm : m_0 ≠ 0)
    (hc : m_12 ^ 2 + m_13 ^ 2 + m_23 ^ 2 = m_0 ^ 2 + m_1 ^ 2 + m_2 ^ 2 + m_3 ^ 2)
    (hK : Kibble (m_23 ^ 2) (m_13 ^ 2) (m_12 ^ 2) m_0 m_1 m_2 m_3 ≤ 0) :
    |cosZeta_1_3_2 m_0 m_1 m_2 m_3 m_12 m_13 m_23| ≤ 1 := by
  have e : m_12 ^ 2 = m_0 ^ 2 + m_1 ^ 2 + m_2 ^ 2 + m_3 ^ 2 - m_13 ^ 2 - m_23 ^ 2 := by linarith
  unfold cosZeta_1_3_2
  rw [ratio_shape]
  apply abs_ratio_le_one
  intro _ _
  apply sq_le_of_identity hm (c := m_1 ^ 2) (sq_nonneg _) hK
  unfold Kibble Kallen
  rw [e]
  ring

theorem cosZeta_1_3_2_cov {p1 p2 p3 : V4} (h : Masses p1 p2 p3 m_0 m_1 m_2 m_3 m_12 m_13 m_23) :
    cosZeta_1_3_2 m_0 m_1 m_2 m_3 m_12 m_13 m_23 = V4.covCos p1 p2 p3 := by
  unfold cosZeta_1_3_2
  unfold V4.covCos
  rw [ratio_shape]
  apply ratio_scale
  all_goals
    simp only [Kallen, h.h0, h.h1, h.h2, h.h3, h.h12, h.h13, h.h23, V4.dot, V4.add_E, V4.add_x,
      V4.add_y, V4.add_z]
    ring

theorem cosZeta_2_1_0_range (hm : m_0 ≠ 0)
    (hc : m_12 ^ 2 + m_13 ^ 2 + m_23 ^ 2 = m_0 ^ 2 + m_1 ^ 2 + m_2 ^ 2 + m_3 ^ 2)
    (hK : Kibble (m_23 ^ 2) (m_13 ^ 2) (m_12 ^ 2) m_0 m_1 m_2 m_3 ≤ 0) :
    |cosZeta_2_1_0 m_0 m_1 m_2 m_3 m_12 m_13 m_23| ≤ 1 := by
  have e : m_12 ^ 2 = m_0 ^ 2 + m_1 ^ 2 + m_2 ^ 2 + m_3 ^ 2 - m_13 ^ 2 - m_23 ^ 2 := by linarith
  unfold cosZeta_2_1_0
  rw [ratio_shape]
  apply abs_ratio_le_one
  intro _ _
  apply sq_le_of_identity hm (c := m_2 ^ 2) (sq_nonneg _) hK
  unfold Kibble Kallen
  rw [e]
  ring

theorem cosZeta_2_1_0_cov {p1 p2 p3 : V4} (h : Masses p1 p2 p3 m_0 m_1 m_2 m_3 m_12 m_13 m_23) :
    cosZeta_2_1_0 m_0 m_1 m_2 m_3 m_12 m_13 m_23 = V4.covCos p2 p3 (p1 + p2 + p3) := by
  unfold cosZeta_2_1_0
  rw [V4.covCos_comm]
  unfold V4.covCos
  rw [ratio_shape]
  apply ratio_scale
  all_goals
    simp only [Kallen, h.h0, h.h1, h.h2, h.h3, h.h12, h.h13, h.h23, V4.dot, V4.add_E, V4.add_x,
      V4.add_y, V4.add_z]
    ring

theorem cosZeta_2_1_2_range (hm : m_0 ≠ 0)
    (hc : m_12 ^ 2 + m_13 ^ 2 + m_23 ^ 2 = m_0 ^ 2 + m_1 ^ 2 + m_2 ^ 2 + m_3 ^ 2)
    (hK : Kibble (m_23 ^ 2) (m_13 ^ 2) (m_12 ^ 2) m_0 m_1 m_2 m_3 ≤ 0) :
    |cosZeta_2_1_2 m_0 m_1 m_2 m_3 m_12 m_13 m_23| ≤ 1 := by
  have e : m_12 ^ 2 = m_0 ^ 2 + m_1 ^ 2 + m_2 ^ 2 + m_3 ^ 2 - m_13 ^ 2 - m_23 ^ 2 := by linarith
  unfold cosZeta_2_1_2
  rw [ratio_shape]
  apply abs_ratio_le_one
  intro _ _
  apply sq_le_of_identity hm (c := m_2 ^ 2) (sq_nonneg _) hK
  unfold Kibble Kallen
  rw [e]
  ring

theorem cosZeta_2_1_2_cov {p1 p2 p3 : V4} (h : Masses p1 p2 p3 m_0 m_1 m_2 m_3 m_12 m_13 m_23) :
    cosZeta_2_1_2 m_0 m_1 m_2 m_3 m_12 m_13 m_23 = V4.covCos p2 p3 (p1 + p2 + p3) := by
  unfold cosZeta_2_1_2
  rw [V4.covCos_comm]
  unfold V4.covCos
  rw [ratio_shape]
  apply ratio_scale
  all_goals
    simp only [Kallen, h.h0, h.h1, h.h2, h.h3, h.h12, h.h13, h.h23, V4.dot, V4.add_E, V4.add_x,
      V4.add_y, V4.add_z]
    ring

theorem cosZeta_2_1_3_range (hm : m_0 ≠ 0)
    (hc : m_12 ^ 2 + m_13 ^ 2 + m_23 ^ 2 = m_0 ^ 2 + m_1 ^ 2 + m_2 ^ 2 + m_3 ^ 2)
    (hK : Kibble (m_23 ^ 2) (m_13 ^ 2) (m_12 ^ 2) m_0 m_1 m_2 m_3 ≤ 0) :
    |cosZeta_2_1_3 m_0 m_1 m_2 m_3 m_12 m_13 m_23| ≤ 1 := by
  have e : m_12 ^ 2 = m_0 ^ 2 + m_1 ^ 2 + m_2 ^ 2 + m_3 ^ 2 - m_13 ^ 2 - m_23 ^ 2 := by linarith
  unfold cosZeta_2_1_3
  rw [ratio_shape]
  apply abs_ratio_le_one
  intro _ _
  apply sq_le_of_identity hm (c := m_2 ^ 2) (sq_nonneg _) hK
  unfold Kibble Kallen
  rw [e]
  ring

theorem cosZeta_2_1_3_cov {p1 p2 p3 : V4} (h : Masses p1 p2 p3 m_0 m_1 m_2 m_3 m_12 m_13 m_23) :
    cosZeta_2_1_3 m_0 m_1 m_2 m_3 m_12 m_13 m_23 = V4.covCos p2 p3 p1 := by
  unfold cosZeta_2_1_3
  rw [V4.covCos_comm]
  unfold V4.covCos
  rw [ratio_shape]
  apply ratio_scale
  all_goals
    simp only [Kallen, h.h0, h.h1, h.h2, h.h3, h.h12, h.h13, h.h23, V4.dot, V4.add_E, V4.add_x,
      V4.add_y, V4.add_z]
    ring

theorem cosZeta_2_2_1_range (hm : m_0 ≠ 0)
    (hc : m_12 ^ 2 + m_13 ^ 2 + m_23 ^ 2 = m_0 ^ 2 + m_1 ^ 2 + m_2 ^ 2 + m_3 ^ 2)
    (hK : Kibble (m_23 ^ 2) (m_13 ^ 2) (m_12 ^ 2) m_0 m_1 m_2 m_3 ≤ 0) :
    |cosZeta_2_2_1 m_0 m_1 m_2 m_3 m_12 m_13 m_23| ≤ 1 := by
  have e : m_12 ^ 2 = m_0 ^ 2 + m_1 ^ 2 + m_2 ^ 2 + m_3 ^ 2 - m_13 ^ 2 - m_23 ^ 2 := by linarith
  unfold cosZeta_2_2_1
  rw [ratio_shape]
  apply abs_ratio_le_one
  intro _ _
  apply sq_le_of_identity hm (c := m_2 ^ 2) (sq_nonneg _) hK
  unfold Kibble Kallen
  rw [e]
  ring

theorem cosZeta_2_2_1_cov {p1 p2 p3 : V4} (h : Masses p1 p2 p3 m_0 m_1 m_2 m_3 m_12 m_13 m_23) :
    cosZeta_2_2_1 m_0 m_1 m_2 m_3 m_12 m_13 m_23 = V4.covCos p2 (p1 + p2 + p3) p3 := by
  unfold cosZeta_2_2_1
  unfold V4.covCos
  rw [ratio_shape]
  apply ratio_scale
  all_goals
    simp only [Kallen, h.h0, h.h1, h.h2, h.h3, h.h12, h.h13, h.h23, V4.dot, V4.add_E, V4.add_x,
      V4.add_y, V4.add_z]
    ring

theorem cosZeta_2_2_3_range (hm : m_0 ≠ 0)
    (hc : m_12 ^ 2 + m_13 ^ 2 + m_23 ^ 2 = m_0 ^ 2 + m_1 ^ 2 + m_2 ^ 2 + m_3 ^ 2)
    (hK : Kibble (m_23 ^ 2) (m_13 ^ 2) (m_12 ^ 2) m_0 m_1 m_2 m_3 ≤ 0) :
    |cosZeta_2_2_3 m_0 m_1 m_2 m_3 m_12 m_13 m_23| ≤ 1 := by
  have e : m_12 ^ 2 = m_0 ^ 2 + m_1 ^ 2 + m_2 ^ 2 + m_3 ^ 2 - m_13 ^ 2 - m_23 ^ 2 := by linarith
  unfold cosZeta_2_2_3
  rw [ratio_shape]
  apply abs_ratio_le_one
  intro _ _
  apply sq_le_of_identity hm (c := m_2 ^ 2) (sq_nonneg _) hK
  unfold Kibble Kallen
  rw [e]
  ring

theorem cosZeta_2_2_3_cov {p1 p2 p3 : V4} (h : Masses p1 p2 p3 m_0 m_1 m_2 m_3 m_12 m_13 m_23) :
    cosZeta_2_2_3 m_0 m_1 m_2 m_3 m_12 m_13 m_23 = V4.covCos p2 (p1 + p2 + p3) p1 := by
  unfold cosZeta_2_2_3
  unfold V4.covCos
  rw [ratio_shape]
  apply ratio_scale
  all_goals
    simp only [Kallen, h.h0, h.h1, h.h2, h.h3, h.h12, h.h13, h.h23, V4.dot, V4.add_E, V4.add_x,
      V4.add_y, V4.add_z]
    ring

theorem cosZeta_2_3_0_range (hm : m_0 ≠ 0)
    (hc : m_12 ^ 2 + m_13 ^ 2 + m_23 ^ 2 = m_0 ^ 2 + m_1 ^ 2 + m_2 ^ 2 + m_3 ^ 2)
    (hK : Kibble (m_23 ^ 2) (m_13 ^ 2) (m_12 ^ 2) m_0 m_1 m_2 m_3 ≤ 0) :
    |cosZeta_2_3_0 m_0 m_1 m_2 m_3 m_12 m_13 m_23| ≤ 1 := by
  have e : m_12 ^ 2 = m_0 ^ 2 + m_1 ^ 2 + m_2 ^ 2 + m_3 ^ 2 - m_13 ^ 2 - m_23 ^ 2 := by linarith
  unfold cosZeta_2_3_0
  rw [ratio_shape]
  apply abs_ratio_le_one
  intro _ _
  apply sq_le_of_identity hm (c := m_2 ^ 2) (sq_nonneg _) hK
  unfold Kibble Kallen
  rw [e]
  ring

theorem cosZeta_2_3_0_cov {p1 p2 p3 : V4} (h : Masses p1 p2 p3 m_0 m_1 m_2 m_3 m_12 m_13 m_23) :
    cosZeta_2_3_0 m_0 m_1 m_2 m_3 m_12 m_13 m_23 = V4.covCos p2 p1 (p1 + p2 + p3) := by
  unfold cosZeta_2_3_0
  rw [V4.covCos_comm]
  unfold V4.covCos
  rw [ratio_shape]
  apply ratio_scale
  all_goals
    simp only [Kallen, h.h0, h.h1, h.h2, h.h3, h.h12, h.h13, h.h23, V4.dot, V4.add_E, V4.add_x,
      V4.add_y, V4.add_z]
    ring

theorem cosZeta_2_3_1_range (hm : m_0 ≠ 0)
    (hc : m_12 ^ 2 + m_13 ^ 2 + m_23 ^ 2 = m_0 ^ 2 + m_1 ^ 2 + m_2 ^ 2 + m_3 ^ 2)
    (hK : Kibble (m_23 ^ 2) (m_13 ^ 2) (m_12 ^ 2) m_0 m_1 m_2 m_3 ≤ 0) :
    |cosZeta_2_3_1 m_0 m_1 m_2 m_3 m_12 m_13 m_23| ≤ 1 := by
  have e : m_12 ^ 2 = m_0 ^ 2 + m_1 ^ 2 + m_2 ^ 2 + m_3 ^ 2 - m_13 ^ 2 - m_23 ^ 2 := by linarith
  unfold cosZeta_2_3_1
  rw [ratio_shape]
  apply abs_ratio_le_one
  intro _ _
  apply sq_le_of_identity hm (c := m_2 ^ 2) (sq_nonneg _) hK
  unfold Kibble Kallen
  rw [e]
  ring

theorem cosZeta_2_3_1_cov {p1 p2 p3 : V4} (h : Masses p1 p2 p3 m_0 m_1 m_2 m_3 m_12 m_13 m_23) :
    cosZeta_2_3_1 m_0 m_1 m_2 m_3 m_12 m_13 m_23 = V4.covCos p2 p1 p3 := by
  unfold cosZeta_2_3_1
  unfold V4.covCos
  rw [ratio_shape]
  apply ratio_scale
  all_goals
    simp only [Kallen, h.h0, h.h1, h.h2, h.h3, h.h12, h.h13, h.h23, V4.dot, V4.add_E, V4.add_x,
      V4.add_y, V4.add_z]
    ring

theorem cosZeta_2_3_2_range (hm : m_0 ≠ 0)
    (hc : m_12 ^ 2 + m_13 ^ 2 + m_23 ^ 2 = m_0 ^ 2 + m_1 ^ 2 + m_2 ^ 2 + m_3 ^ 2)
    (hK : Kibble (m_23 ^ 2) (m_13 ^ 2) (m_12 ^ 2) m_0 m_1 m_2 m_3 ≤ 0) :
    |cosZeta_2_3_2 m_0 m_1 m_2 m_3 m_12 m_13 m_23| ≤ 1 := by
  have e : m_12 ^ 2 = m_0 ^ 2 + m_1 ^ 2 + m_2 ^ 2 + m_3 ^ 2 - m_13 ^ 2 - m_23 ^ 2 := by linarith
  unfold cosZeta_2_3_2
  rw [ratio_shape]
  apply abs_ratio_le_one
  intro _ _
  apply sq_le_of_identity hm (c := m_2 ^ 2) (sq_nonneg _) hK
  unfold Kibble Kallen
  rw [e]
  ring

theorem cosZeta_2_3_2_cov {p1 p2 p3 : V4} (h : Masses p1 p2 p3 m_0 m_1 m_2 m_3 m_12 m_13 m_23) :
    cosZeta_2_3_2 m_0 m_1 m_2 m_3 m_12 m_13 m_23 = V4.covCos p2 p1 (p1 + p2 + p3) := by
  unfold cosZeta_2_3_2
  rw [V4.covCos_comm]
  unfold V4.covCos
  rw [ratio_shape]
  apply ratio_scale
  all_goals
    simp only [Kallen, h.h0, h.h1, h.h2, h.h3, h.h12, h.h13, h.h23, V4.dot, V4.add_E, V4.add_x,
      V4.add_y, V4.add_z]
    ring

theorem cosZeta_3_1_0_range (hm : m_0 ≠ 0)
    (hc : m_12 ^ 2 + m_13 ^ 2 + m_23 ^ 2 = m_0 ^ 2 + m_1 ^ 2 + m_2 ^ 2 + m_3 ^ 2)
    (hK : Kibble (m_23 ^ 2) (m_13 ^ 2) (m_12 ^ 2) m_0 m_1 m_2 m_3 ≤ 0) :
    |cosZeta_3_1_0 m_0 m_1 m_2 m_3 m_12 m_13 m_23| ≤ 1 := by
  have e : m_12 ^ 2 = m_0 ^ 2 + m_1 ^ 2 + m_2 ^ 2 + m_3 ^ 2 - m_13 ^ 2 - m_23 ^ 2 := by linarith
  unfold cosZeta_3_1_0
  rw [ratio_shape]
  apply abs_ratio_le_one
  intro _ _
  apply sq_le_of_identity hm (c := m_3 ^ 2) (sq_nonneg _) hK
  unfold Kibble Kallen
  rw [e]
  ring

theorem cosZeta_3_1_0_cov {p1 p2 p3 : V4} (h : Masses p1 p2 p3 m_0 m_1 m_2 m_3 m_12 m_13 m_23) :
    cosZeta_3_1_0 m_0 m_1 m_2 m_3 m_12 m_13 m_23 = V4.covCos p3 p2 (p1 + p2 + p3) := by
  unfold cosZeta_3_1_0
  rw [V4.covCos_comm]
  unfold V4.covCos
  rw [ratio_shape]
  apply ratio_scale
  all_goals
    simp only [Kallen, h.h0, h.h1, h.h2, h.h3, h.h12, h.h13, h.h23, V4.dot, V4.add_E, V4.add_x,
      V4.add_y, V4.add_z]
    ring

theorem cosZeta_3_1_2_range (hm : m_0 ≠ 0)
    (hc : m_12 ^ 2 + m_13 ^ 2 + m_23 ^ 2 = m_0 ^ 2 + m_1 ^ 2 + m_2 ^ 2 + m_3 ^ 2)
    (hK : Kibble (m_23 ^ 2) (m_13 ^ 2) (m_12 ^ 2) m_0 m_1 m_2 m_3 ≤ 0) :
    |cosZeta_3_1_2 m_0 m_1 m_2 m_3 m_12 m_13 m_23| ≤ 1 := by
  have e : m_12 ^ 2 = m_0 ^ 2 + m_1 ^ 2 + m_2 ^ 2 + m_3 ^ 2 - m_13 ^ 2 - m_23 ^ 2 := by linarith
  unfold cosZeta_3_1_2
  rw [ratio_shape]
  apply abs_ratio_le_one
  intro _ _
  apply sq_le_of_identity hm (c := m_3 ^ 2) (sq_nonneg _) hK
  unfold Kibble Kallen
  rw [e]
  ring

theorem cosZeta_3_1_2_cov {p1 p2 p3 : V4} (h : Masses p1 p2 p3 m_0 m_1 m_2 m_3 m_12 m_13 m_23) :
    cosZeta_3_1_2 m_0 m_1 m_2 m_3 m_12 m_13 m_23 = V4.covCos p3 p2 p1 := by
  unfold cosZeta_3_1_2
  rw [V4.covCos_comm]
  unfold V4.covCos
  rw [ratio_shape]
  apply ratio_scale
  all_goals
    simp only [Kallen, h.h0, h.h1, h.h2, h.h3, h.h12, h.h13, h.h23, V4.dot, V4.add_E, V4.add_x,
      V4.add_y, V4.add_z]
    ring

theorem cosZeta_3_1_3_range (hm : m_0 ≠ 0)
    (hc : m_12 ^ 2 + m_13 ^ 2 + m_23 ^ 2 = m_0 ^ 2 + m_1 ^ 2 + m_2 ^ 2 + m_3 ^ 2)
    (hK : Kibble (m_23 ^ 2) (m_13 ^ 2) (m_12 ^ 2) m_0 m_1 m_2 m_3 ≤ 0) :
    |cosZeta_3_1_3 m_0 m_1 m_2 m_3 m_12 m_13 m_23| ≤ 1 := by
  have e : m_12 ^ 2 = m_0 ^ 2 + m_1 ^ 2 + m_2 ^ 2 + m_3 ^ 2 - m_13 ^ 2 - m_23 ^ 2 := by linarith
  unfold cosZeta_3_1_3
  rw [ratio_shape]
  apply abs_ratio_le_one
  intro _ _
  apply sq_le_of_identity hm (c := m_3 ^ 2) (sq_nonneg _) hK
  unfold Kibble Kallen
  rw [e]
  ring

theorem cosZeta_3_1_3_cov {p1 p2 p3 : V4} (h : Masses p1 p2 p3 m_0 m_1 m_2 m_3 m_12 m_13 m_23) :
    cosZeta_3_1_3 m_0 m_1 m_2 m_3 m_12 m_13 m_23 = V4.covCos p3 p2 (p1 + p2 + p3) := by
  unfold cosZeta_3_1_3
  rw [V4.covCos_comm]
  unfold V4.covCos
  rw [ratio_shape]
  apply ratio_scale
  all_goals
    simp only [Kallen, h.h0, h.h1, h.h2, h.h3, h.h12, h.h13, h.h23, V4.dot, V4.add_E, V4.add_x,
      V4.add_y, V4.add_z]
    ring

theorem cosZeta_3_2_0_range (hm : m_0 ≠ 0)
    (hc : m_12 ^ 2 + m_13 ^ 2 + m_23 ^ 2 = m_0 ^ 2 + m_1 ^ 2 + m_2 ^ 2 + m_3 ^ 2)
    (hK : Kibble (m_23 ^ 2) (m_13 ^ 2) (m_12 ^ 2) m_0 m_1 m_2 m_3 ≤ 0) :
    |cosZeta_3_2_0 m_0 m_1 m_2 m_3 m_12 m_13 m_23| ≤ 1 := by
  have e : m_12 ^ 2 = m_0 ^ 2 + m_1 ^ 2 + m_2 ^ 2 + m_3 ^ 2 - m_13 ^ 2 - m_23 ^ 2 := by linarith
  unfold cosZeta_3_2_0
  rw [ratio_shape]
  apply abs_ratio_le_one
  intro _ _
  apply sq_le_of_identity hm (c := m_3 ^ 2) (sq_nonneg _) hK
  unfold Kibble Kallen
  rw [e]
  ring

theorem cosZeta_3_2_0_cov {p1 p2 p3 : V4} (h : Masses p1 p2 p3 m_0 m_1 m_2 m_3 m_12 m_13 m_23) :
    cosZeta_3_2_0 m_0 m_1 m_2 m_3 m_12 m_13 m_23 = V4.covCos p3 p1 (p1 + p2 + p3) := by
  unfold cosZeta_3_2_0
  rw [V4.covCos_comm]
  unfold V4.covCos
  rw [ratio_shape]
  apply ratio_scale
  all_goals
    simp only [Kallen, h.h0, h.h1, h.h2, h.h3, h.h12, h.h13, h.h23, V4.dot, V4.add_E, V4.add_x,
      V4.add_y, V4.add_z]
    ring

theorem cosZeta_3_2_1_range (hm : m_0 ≠ 0)
    (hc : m_12 ^ 2 + m_13 ^ 2 + m_23 ^ 2 = m_0 ^ 2 + m_1 ^ 2 + m_2 ^ 2 + m_3 ^ 2)
    (hK : Kibble (m_23 ^ 2) (m_13 ^ 2) (m_12 ^ 2) m_0 m_1 m_2 m_3 ≤ 0) :
    |cosZeta_3_2_1 m_0 m_1 m_2 m_3 m_12 m_13 m_23| ≤ 1 := by
  have e : m_12 ^ 2 = m_0 ^ 2 + m_1 ^ 2 + m_2 ^ 2 + m_3 ^ 2 - m_13 ^ 2 - m_23 ^ 2 := by linarith
  unfold cosZeta_3_2_1
  rw [ratio_shape]
  apply abs_ratio_le_one
  intro _ _
  apply sq_le_of_identity hm (c := m_3 ^ 2) (sq_nonneg _) hK
  unfold Kibble Kallen
  rw [e]
  ring

theorem cosZeta_3_2_1_cov {p1 p2 p3 : V4} (h : Masses p1 p2 p3 m_0 m_1 m_2 m_3 m_12 m_13 m_23) :
    cosZeta_3_2_1 m_0 m_1 m_2 m_3 m_12 m_13 m_23 = V4.covCos p3 p1 p2 := by
  unfold cosZeta_3_2_1
  unfold V4.covCos
  rw [ratio_shape]
  apply ratio_scale
  all_goals
    simp only [Kallen, h.h0, h.h1, h.h2, h.h3, h.h12, h.h13, h.h23, V4.dot, V4.add_E, V4.add_x,
      V4.add_y, V4.add_z]
    ring

theorem cosZeta_3_2_3_range (hm : m_0 ≠ 0)
    (hc : m_12 ^ 2 + m_13 ^ 2 + m_23 ^ 2 = m_0 ^ 2 + m_1 ^ 2 + m_2 ^ 2 + m_3 ^ 2)
    (hK : Kibble (m_23 ^ 2) (m_13 ^ 2) (m_12 ^ 2) m_0 m_1 m_2 m_3 ≤ 0) :
    |cosZeta_3_2_3 m_0 m_1 m_2 m_3 m_12 m_13 m_23| ≤ 1 := by
  have e : m_12 ^ 2 = m_0 ^ 2 + m_1 ^ 2 + m_2 ^ 2 + m_3 ^ 2 - m_13 ^ 2 - m_23 ^ 2 := by linarith
  unfold cosZeta_3_2_3
  rw [ratio_shape]
  apply abs_ratio_le_one
  intro _ _
  apply sq_le_of_identity hm (c := m_3 ^ 2) (sq_nonneg _) hK
  unfold Kibble Kallen
  rw [e]
  ring

theorem cosZeta_3_2_3_cov {p1 p2 p3 : V4} (h : Masses p1 p2 p3 m_0 m_1 m_2 m_3 m_12 m_13 m_23) :
    cosZeta_3_2_3 m_0 m_1 m_2 m_3 m_12 m_13 m_23 = V4.covCos p3 p1 (p1 + p2 + p3) := by
  unfold cosZeta_3_2_3
  rw [V4.covCos_comm]
  unfold V4.covCos
  rw [ratio_shape]
  apply ratio_scale
  all_goals
    simp only [Kallen, h.h0, h.h1, h.h2, h.h3, h.h12, h.h13, h.h23, V4.dot, V4.add_E, V4.add_x,
      V4.add_y, V4.add_z]
    ring

theorem cosZeta_3_3_1_range (hm : m_0 ≠ 0)
    (hc : m_12 ^ 2 + m_13 ^ 2 + m_23 ^ 2 = m_0 ^ 2 + m_1 ^ 2 + m_2 ^ 2 + m_3 ^ 2)
    (hK : Kibble (m_23 ^ 2) (m_13 ^ 2) (m_12 ^ 2) m_0 m_1 m_2 m_3 ≤ 0) :
    |cosZeta_3_3_1 m_0 m_1 m_2 m_3 m_12 m_13 m_23| ≤ 1 := by
  have e : m_12 ^ 2 = m_0 ^ 2 + m_1 ^ 2 + m_2 ^ 2 + m_3 ^ 2 - m_13 ^ 2 - m_23 ^ 2 := by linarith
  unfold cosZeta_3_3_1
  rw [ratio_shape]
  apply abs_ratio_le_one
  intro _ _
  apply sq_le_of_identity hm (c := m_3 ^ 2) (sq_nonneg _) hK
  unfold Kibble Kallen
  rw [e]
  ring

theorem cosZeta_3_3_1_cov {p1 p2 p3 : V4} (h : Masses p1 p2 p3 m_0 m_1 m_2 m_3 m_12 m_13 m_23) :
    cosZeta_3_3_1 m_0 m_1 m_2 m_3 m_12 m_13 m_23 = V4.covCos p3 (p1 + p2 + p3) p2 := by
  unfold cosZeta_3_3_1
  unfold V4.covCos
  rw [ratio_shape]
  apply ratio_scale
  all_goals
    simp only [Kallen, h.h0, h.h1, h.h2, h.h3, h.h12, h.h13, h.h23, V4.dot, V4.add_E, V4.add_x,
      V4.add_y, V4.add_z]
    ring

theorem cosZeta_3_3_2_range (hm : m_0 ≠ 0)
    (hc : m_12 ^ 2 + m_13 ^ 2 + m_23 ^ 2 = m_0 ^ 2 + m_1 ^ 2 + m_2 ^ 2 + m_3 ^ 2)
    (hK : Kibble (m_23 ^ 2) (m_13 ^ 2) (m_12 ^ 2) m_0 m_1 m_2 m_3 ≤ 0) :
    |cosZeta_3_3_2 m_0 m_1 m_2 m_3 m_12 m_13 m_23| ≤ 1 := by
  have e : m_12 ^ 2 = m_0 ^ 2 + m_1 ^ 2 + m_2 ^ 2 + m_3 ^ 2 - m_13 ^ 2 - m_23 ^ 2 := by linarith
  unfold cosZeta_3_3_2
  rw [ratio_shape]
  apply abs_ratio_le_one
  intro _ _
  apply sq_le_of_identity hm (c := m_3 ^ 2) (sq_nonneg _) hK
  unfold Kibble Kallen
  rw [e]
  ring

theorem cosZeta_3_3_2_cov {p1 p2 p3 : V4} (h : Masses p1 p2 p3 m_0 m_1 m_2 m_3 m_12 m_13 m_23) :
    cosZeta_3_3_2 m_0 m_1 m_2 m_3 m_12 m_13 m_23 = V4.covCos p3 (p1 + p2 + p3) p1 := by
  unfold cosZeta_3_3_2
  unfold V4.covCos
  rw [ratio_shape]
  apply ratio_scale
  all_goals
    simp only [Kallen, h.h0, h.h1, h.h2, h.h3, h.h12, h.h13, h.h23, V4.dot, V4.add_E, V4.add_x,
      V4.add_y, V4.add_z]
    ring

end

end Ampverif.Lemmas.C19
