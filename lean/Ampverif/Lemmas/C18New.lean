/-
Helper lemmas for C18/C14: the constructor `PoolSum.__new__` (`Model/ExprNew.lean`) stores the values
it is given — for every kind of input iterable —, `func(*args)` is the identity, and `subs`/
`xreplace` performed THROUGH the constructor are the `subst1`/`xreplace` of the term model.
-/
import Ampverif.Lemmas.C18Depth
import Ampverif.Model.ExprNew

namespace Ampverif.Lemmas.C18
open Ampverif.Model

/-- no pool of the binder list is empty (what `__new__` enforces). -/
def poolsNonempty (ixs : List Binder) : Bool := ixs.all (fun p => !p.2.isEmpty)

theorem isEmpty_false_of_ne {α : Type} {l : List α} (h : l ≠ []) : l.isEmpty = false := by
  cases l with
  | nil => exact absurd rfl h
  | cons _ _ => rfl

/-- the loop of `__new__` (current source: one `tuple(values)` per pool, nothing dropped) returns
the index symbols with what iterating each pool object yields — same order, duplicates included —
whatever kind of iterable each pool is. -/
theorem convertIndices_ok (nv : NewVariant) (hd : nv.dropsRepeated = false) :
    ∀ ixs : List (Sym × Pool), (∀ p ∈ ixs, p.2.items ≠ []) →
      convertIndices nv ixs = .ok (ixs.map (fun p => (p.1, p.2.items)))
  | [], _ => by simp [convertIndices]
  | (i, p) :: rest, h => by
      have hp : p.items ≠ [] := h (i, p) (by simp)
      have ih := convertIndices_ok nv hd rest (fun q hq => h q (by simp [hq]))
      simp [convertIndices, hd, Pool.iterate, isEmpty_false_of_ne hp, ih]

/-- an empty pool (an exhausted iterator included) is rejected: the `ValueError`. -/
theorem convertIndices_error (nv : NewVariant) (hd : nv.dropsRepeated = false) :
    ∀ ixs : List (Sym × Pool), (∃ p ∈ ixs, p.2.items = []) →
      ∃ j, convertIndices nv ixs = .error j ∧ j ∈ names ixs
  | [], h => by obtain ⟨p, hp, _⟩ := h; simp at hp
  | (i, p) :: rest, h => by
      by_cases hp : p.items = []
      · exact ⟨i, by simp [convertIndices, hd, Pool.iterate, hp], by simp [names]⟩
      · have hr : ∃ q ∈ rest, q.2.items = [] := by
          obtain ⟨q, hq, hqe⟩ := h
          rcases List.mem_cons.mp hq with rfl | hq'
          · exact absurd hqe hp
          · exact ⟨q, hq', hqe⟩
        obtain ⟨j, hj, hjm⟩ := convertIndices_error nv hd rest hr
        exact ⟨j, by simp [convertIndices, hd, Pool.iterate, isEmpty_false_of_ne hp, hj],
          by simp only [names, List.map_cons, List.mem_cons]; exact Or.inr hjm⟩

theorem convertIndices_argPools (nv : NewVariant) (hd : nv.dropsRepeated = false) :
    ∀ ixs : List Binder, poolsNonempty ixs = true → convertIndices nv (argPools ixs) = .ok ixs := by
  intro ixs h
  have h' : ∀ p ∈ argPools ixs, p.2.items ≠ [] := by
    intro p hp
    simp only [argPools, List.mem_map] at hp
    obtain ⟨q, hq, rfl⟩ := hp
    have := (List.all_eq_true.mp h) q hq
    intro he
    simp [Pool.ofTuple] at he
    simp [he] at this
  rw [convertIndices_ok nv hd _ h']
  simp [argPools, Pool.ofTuple, List.map_map, Function.comp_def]

theorem psumNew_sound (v : Variant) (nv : NewVariant) (hn : nv.sound) (b : Expr)
    (ixs : List (Sym × Pool)) (ev : Bool) :
    psumNew v nv b ixs ev =
      match convertIndices nv ixs with
      | .error j => .noValues j
      | .ok c => if ev then .ok (evaluate v (.psum b c)) else .ok (.psum b c) := by
  unfold psumNew
  rw [hn.1]
  cases convertIndices nv ixs <;> simp

/-! ### substitution keeps the pool sizes (multiplicity) -/

theorem subst1List_length (v : Variant) (x : Sym) (a : Expr) (es : List Expr) :
    (subst1List v x a es).length = es.length := by
  rw [subst1List_eq_map]; simp

theorem subst1Binders_sizes (v : Variant) (x : Sym) (a : Expr) :
    ∀ ixs : List Binder,
      (subst1Binders v x a ixs).map (fun p => p.2.length) = ixs.map (fun p => p.2.length)
  | [] => by simp [subst1Binders]
  | (i, pool) :: rest => by
      simp [subst1Binders, subst1List_length, subst1Binders_sizes v x a rest]

theorem xreplaceList_length (v : Variant) (σ : List (Sym × Expr)) :
    ∀ es : List Expr, (xreplaceList v es σ).length = es.length
  | [] => by simp [xreplaceList]
  | e :: es => by simp [xreplaceList, xreplaceList_length v σ es]

theorem xreplaceBinders_sizes (v : Variant) (σ : List (Sym × Expr)) :
    ∀ ixs : List Binder,
      (xreplaceBinders v ixs σ).map (fun p => p.2.length) = ixs.map (fun p => p.2.length)
  | [] => by simp [xreplaceBinders]
  | (i, pool) :: rest => by
      simp [xreplaceBinders, xreplaceList_length, xreplaceBinders_sizes v σ rest]

theorem poolsNonempty_of_sizes {ixs jxs : List Binder}
    (h : jxs.map (fun p => p.2.length) = ixs.map (fun p => p.2.length))
    (hn : poolsNonempty ixs = true) : poolsNonempty jxs = true := by
  induction jxs generalizing ixs with
  | nil => simp [poolsNonempty]
  | cons q jxs ih =>
      cases ixs with
      | nil => simp at h
      | cons p ixs =>
          simp only [List.map_cons, List.cons.injEq] at h
          simp only [poolsNonempty, List.all_cons, Bool.and_eq_true] at hn ⊢
          refine ⟨?_, ih h.2 hn.2⟩
          have hp : p.2 ≠ [] := by
            intro he; simp [he] at hn
          have : q.2 ≠ [] := by
            intro he
            rw [he] at h
            exact hp (List.length_eq_zero_iff.mp h.1.symm)
          simp [isEmpty_false_of_ne this]

theorem poolsNonempty_of_wfSums {b : Expr} {ixs : List Binder} (hw : wfSums (.psum b ixs) = true) :
    poolsNonempty ixs = true := by
  obtain ⟨_, hne, _, _, _⟩ := wfSums_psum hw
  apply List.all_eq_true.mpr
  intro p hp
  simp [isEmpty_false_of_ne (hne p hp)]

end Ampverif.Lemmas.C18
