/-
C05 — from the regenerated small-d tables (Gen/C05Wigner.lean, j ≤ 5/2) to Wigner-D matrices that
are unitary on the complete range of spin projections.

`Dmat j2 α β γ m m' = e^{-i(m/2)α} · d^{j}_{m m'}(β) · e^{-i(m'/2)γ}` (doubled `m`, `m'`), which is
how SymPy evaluates `Rotation.D(j, m, mp, α, β, γ)` (the check compares the two symbolically on
every run). `Dmat_iso`, `Dmat_iso_transpose`: its columns and its rows are orthonormal on
`fullRange j2` for every real α, β, γ and every j2 ≤ 5.
-/
import Ampverif.Gen.C05Wigner
import Ampverif.Lemmas.C05Model
import Mathlib.Analysis.SpecialFunctions.Trigonometric.Basic
import Mathlib.LinearAlgebra.Matrix.NonsingularInverse
import Mathlib.Analysis.Real.Sqrt

namespace Ampverif.Lemmas.C05Wigner
open Ampverif.Gen.C05Wigner Ampverif.Model.C05Spin Ampverif.Model.C05Align
open Ampverif.Lemmas.C05Unitary Ampverif.Lemmas.C05Model Ampverif.Lemmas.C05Range
open scoped ComplexConjugate

/-- the table of `d^{j2/2}(β)` at a real angle -/
noncomputable def dAt (j2 : ℕ) (β : ℝ) : ℕ → ℕ → ℝ :=
  dtab j2 (Real.cos (β / 2)) (Real.sin (β / 2)) (Real.sqrt 2) (Real.sqrt 3) (Real.sqrt 5)

theorem dAt_row (j2 : ℕ) (hj : j2 ≤ 5) (β : ℝ) (a b : ℕ) (ha : a < j2 + 1) (hb : b < j2 + 1) :
    ∑ k ∈ Finset.range (j2 + 1), dAt j2 β a k * dAt j2 β b k = if a = b then 1 else 0 :=
  dtab_row_orth j2 hj _ _ _ _ _ (Real.cos_sq_add_sin_sq _)
    (Real.sq_sqrt (by norm_num)) (Real.sq_sqrt (by norm_num)) (Real.sq_sqrt (by norm_num)) a b ha hb

/-- `d dᵀ = 1` gives `dᵀ d = 1` (finite square matrices) -/
theorem dAt_col (j2 : ℕ) (hj : j2 ≤ 5) (β : ℝ) (a b : ℕ) (ha : a < j2 + 1) (hb : b < j2 + 1) :
    ∑ k ∈ Finset.range (j2 + 1), dAt j2 β k a * dAt j2 β k b = if a = b then 1 else 0 := by
  let M : Matrix (Fin (j2 + 1)) (Fin (j2 + 1)) ℝ := Matrix.of fun x y => dAt j2 β x y
  have h1 : M * M.transpose = 1 := by
    ext x y
    simp only [Matrix.mul_apply, Matrix.transpose_apply, M, Matrix.of_apply, Matrix.one_apply]
    rw [← Finset.sum_range (fun k => dAt j2 β x k * dAt j2 β y k), dAt_row j2 hj β x y x.2 y.2]
    simp [Fin.ext_iff]
  have h2 : M.transpose * M = 1 := mul_eq_one_comm.mp h1
  have h3 := congrFun (congrFun h2 ⟨a, ha⟩) ⟨b, hb⟩
  simp only [Matrix.mul_apply, Matrix.transpose_apply, M, Matrix.of_apply, Matrix.one_apply] at h3
  rw [← Finset.sum_range (fun k => dAt j2 β k a * dAt j2 β k b)] at h3
  rw [h3]
  simp [Fin.ext_iff]

/-- `e^{-i r}` -/
noncomputable def phase (r : ℝ) : ℂ := Complex.exp (-(r : ℂ) * Complex.I)

theorem phase_conj_mul (r : ℝ) : conj (phase r) * phase r = 1 := by
  unfold phase
  rw [← Complex.exp_conj, ← Complex.exp_add]
  simp

theorem term_alg (P Q Q' : ℂ) (x y : ℝ) (hP : conj P * P = 1) :
    conj (P * (x : ℂ) * Q) * (P * (y : ℂ) * Q') = ((x * y : ℝ) : ℂ) * (conj Q * Q') := by
  simp only [map_mul, Complex.conj_ofReal]
  push_cast
  linear_combination ((x : ℂ) * (y : ℂ) * (conj Q * Q')) * hP

theorem term_alg' (P Q Q' : ℂ) (x y : ℝ) (hP : conj P * P = 1) :
    conj (Q * (x : ℂ) * P) * (Q' * (y : ℂ) * P) = ((x * y : ℝ) : ℂ) * (conj Q * Q') := by
  simp only [map_mul, Complex.conj_ofReal]
  push_cast
  linear_combination ((x : ℂ) * (y : ℂ) * (conj Q * Q')) * hP

/-- position of the doubled projection `m` in `-j2, -j2+2, …, j2` -/
def idx (j2 : ℕ) (m : ℤ) : ℕ := ((m + j2) / 2).toNat

theorem idx_spec (j2 k : ℕ) : idx j2 (-(j2 : ℤ) + 2 * (k : ℤ)) = k := by
  unfold idx
  have : (-(j2 : ℤ) + 2 * (k : ℤ) + j2) / 2 = k := by omega
  rw [this]; simp

/-- Wigner `D^{j2/2}_{m/2, m'/2}(α, β, γ)` on doubled projections, from the regenerated d table -/
noncomputable def Dmat (j2 : ℕ) (α β γ : ℝ) (m m' : ℤ) : ℂ :=
  phase ((m : ℝ) / 2 * α) * ((dAt j2 β (idx j2 m) (idx j2 m') : ℝ) : ℂ) * phase ((m' : ℝ) / 2 * γ)

theorem sum_fullRange {M : Type*} [AddCommMonoid M] (j2 : ℕ) (f : ℤ → M) :
    ((fullRange j2).map f).sum = ∑ k ∈ Finset.range (j2 + 1), f (-(j2 : ℤ) + 2 * (k : ℤ)) := by
  unfold fullRange
  rw [List.map_map, ← List.toFinset_range, List.sum_toFinset _ (List.nodup_range)]
  rfl

theorem Dmat_iso (j2 : ℕ) (hj : j2 ≤ 5) (α β γ : ℝ) : PoolIso (fullRange j2) (Dmat j2 α β γ) := by
  intro l hl l' hl'
  obtain ⟨a, ha, rfl⟩ := (mem_fullRange j2 l).mp hl
  obtain ⟨b, hb, rfl⟩ := (mem_fullRange j2 l').mp hl'
  rw [sum_fullRange]
  simp only [Dmat, idx_spec]
  have hterm := fun k : ℕ => term_alg (phase (((-(j2 : ℤ) + 2 * (k : ℤ) : ℤ) : ℝ) / 2 * α))
    (phase (((-(j2 : ℤ) + 2 * (a : ℤ) : ℤ) : ℝ) / 2 * γ)) (phase (((-(j2 : ℤ) + 2 * (b : ℤ) : ℤ) : ℝ) / 2 * γ))
    (dAt j2 β k a) (dAt j2 β k b) (phase_conj_mul _)
  rw [Finset.sum_congr rfl (fun k _ => hterm k), ← Finset.sum_mul, ← Complex.ofReal_sum,
    dAt_col j2 hj β a b (by omega) (by omega)]
  by_cases hab : a = b
  · subst hab
    simp [phase_conj_mul]
  · have : (-(j2 : ℤ) + 2 * (a : ℤ)) ≠ (-(j2 : ℤ) + 2 * (b : ℤ)) := by omega
    simp [hab, this]

theorem Dmat_iso_transpose (j2 : ℕ) (hj : j2 ≤ 5) (α β γ : ℝ) :
    PoolIso (fullRange j2) (fun m m' => Dmat j2 α β γ m' m) := by
  intro l hl l' hl'
  obtain ⟨a, ha, rfl⟩ := (mem_fullRange j2 l).mp hl
  obtain ⟨b, hb, rfl⟩ := (mem_fullRange j2 l').mp hl'
  rw [sum_fullRange]
  simp only [Dmat, idx_spec]
  have hterm := fun k : ℕ => term_alg' (phase (((-(j2 : ℤ) + 2 * (k : ℤ) : ℤ) : ℝ) / 2 * γ))
    (phase (((-(j2 : ℤ) + 2 * (a : ℤ) : ℤ) : ℝ) / 2 * α)) (phase (((-(j2 : ℤ) + 2 * (b : ℤ) : ℤ) : ℝ) / 2 * α))
    (dAt j2 β a k) (dAt j2 β b k) (phase_conj_mul _)
  rw [Finset.sum_congr rfl (fun k _ => hterm k), ← Finset.sum_mul, ← Complex.ofReal_sum,
    dAt_row j2 hj β a b (by omega) (by omega)]
  by_cases hab : a = b
  · subst hab
    simp [phase_conj_mul]
  · have : (-(j2 : ℤ) + 2 * (a : ℤ)) ≠ (-(j2 : ℤ) + 2 * (b : ℤ)) := by omega
    simp [hab, this]

end Ampverif.Lemmas.C05Wigner
