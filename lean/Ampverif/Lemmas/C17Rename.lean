/-
C17 helper lemmas, part 2: expressions (`xreplace`, `syms`, `eval`), the symbol mapping of
`rename`, and the predicates used by the property theorems.
-/
import Ampverif.Lemmas.C17Order

namespace Ampverif.Model.C17

/-! ### expressions -/

mutual
theorem eval_xreplace {α : Type} (I : Interp α) (env : Sym → α) (σ : Sym → Sym) :
    ∀ e : Expr, (e.xreplace σ).eval I env = e.eval I (fun s => env (σ s))
  | .sym s => by simp [Expr.xreplace, Expr.eval]
  | .const c => by simp [Expr.xreplace, Expr.eval]
  | .app f as => by simp [Expr.xreplace, Expr.eval, evalL_xreplaceL I env σ as]
theorem evalL_xreplaceL {α : Type} (I : Interp α) (env : Sym → α) (σ : Sym → Sym) :
    ∀ as : List Expr, Expr.evalL I env (Expr.xreplaceL σ as) = Expr.evalL I (fun s => env (σ s)) as
  | [] => by simp [Expr.xreplaceL, Expr.evalL]
  | a :: as => by
    simp [Expr.xreplaceL, Expr.evalL, eval_xreplace I env σ a, evalL_xreplaceL I env σ as]
end

mutual
theorem eval_congr {α : Type} (I : Interp α) (env env' : Sym → α) :
    ∀ e : Expr, (∀ s, s ∈ e.syms → env s = env' s) → e.eval I env = e.eval I env'
  | .sym s => by intro h; simp [Expr.eval, h s (by simp [Expr.syms])]
  | .const c => by intro _; simp [Expr.eval]
  | .app f as => by
    intro h
    simp only [Expr.eval]
    rw [evalL_congr I env env' as (fun s hs => h s (by simpa [Expr.syms] using hs))]
theorem evalL_congr {α : Type} (I : Interp α) (env env' : Sym → α) :
    ∀ as : List Expr, (∀ s, s ∈ Expr.symsL as → env s = env' s) →
      Expr.evalL I env as = Expr.evalL I env' as
  | [] => by intro _; simp [Expr.evalL]
  | a :: as => by
    intro h
    simp only [Expr.evalL]
    rw [eval_congr I env env' a (fun s hs => h s (by simp [Expr.symsL, hs])),
        evalL_congr I env env' as (fun s hs => h s (by simp [Expr.symsL, hs]))]
end

mutual
theorem syms_xreplace (σ : Sym → Sym) : ∀ e : Expr, (e.xreplace σ).syms = e.syms.map σ
  | .sym s => by simp [Expr.xreplace, Expr.syms]
  | .const c => by simp [Expr.xreplace, Expr.syms]
  | .app f as => by simp [Expr.xreplace, Expr.syms, symsL_xreplaceL σ as]
theorem symsL_xreplaceL (σ : Sym → Sym) :
    ∀ as : List Expr, Expr.symsL (Expr.xreplaceL σ as) = (Expr.symsL as).map σ
  | [] => by simp [Expr.xreplaceL, Expr.symsL]
  | a :: as => by simp [Expr.xreplaceL, Expr.symsL, syms_xreplace σ a, symsL_xreplaceL σ as]
end

mutual
theorem xreplace_congr (σ τ : Sym → Sym) :
    ∀ e : Expr, (∀ s, s ∈ e.syms → σ s = τ s) → e.xreplace σ = e.xreplace τ
  | .sym s => by intro h; simp [Expr.xreplace, h s (by simp [Expr.syms])]
  | .const c => by intro _; simp [Expr.xreplace]
  | .app f as => by
    intro h
    simp only [Expr.xreplace]
    rw [xreplaceL_congr σ τ as (fun s hs => h s (by simpa [Expr.syms] using hs))]
theorem xreplaceL_congr (σ τ : Sym → Sym) :
    ∀ as : List Expr, (∀ s, s ∈ Expr.symsL as → σ s = τ s) →
      Expr.xreplaceL σ as = Expr.xreplaceL τ as
  | [] => by intro _; simp [Expr.xreplaceL]
  | a :: as => by
    intro h
    simp only [Expr.xreplaceL]
    rw [xreplace_congr σ τ a (fun s hs => h s (by simp [Expr.symsL, hs])),
        xreplaceL_congr σ τ as (fun s hs => h s (by simp [Expr.symsL, hs]))]
end

mutual
theorem xreplace_id : ∀ e : Expr, e.xreplace (fun s => s) = e
  | .sym s => by simp [Expr.xreplace]
  | .const c => by simp [Expr.xreplace]
  | .app f as => by simp [Expr.xreplace, xreplaceL_id as]
theorem xreplaceL_id : ∀ as : List Expr, Expr.xreplaceL (fun s => s) as = as
  | [] => by simp [Expr.xreplaceL]
  | a :: as => by simp [Expr.xreplaceL, xreplace_id a, xreplaceL_id as]
end

/-- a rule that fixes every symbol of `e` leaves `e` alone -/
theorem xreplace_fix (σ : Sym → Sym) (e : Expr) (h : ∀ s, s ∈ e.syms → σ s = s) :
    e.xreplace σ = e := by
  rw [xreplace_congr σ (fun s => s) e h, xreplace_id]

/-! ### the pieces of `rename` -/

/-- final name of a symbol called `n` -/
def nameMap (ρ : List (Name × Name)) (n : Name) : Name := (renameOf ρ n).getD n

/-- every symbol that any attribute of the model can mention -/
def Model.mentions (m : Model) (s : Sym) : Prop :=
  s ∈ m.expr.syms ∨ s ∈ m.kinKeys ∨ s ∈ m.paramKeys ∨ ∃ kv, kv ∈ m.kinvars ∧ s ∈ kv.2.syms

theorem mem_collect (v : Variant) (m : Model) (s : Sym) :
    s ∈ collect v m ↔
      s ∈ m.expr.syms ∨ s ∈ m.kinKeys ∨ (v.collectsParams = true ∧ s ∈ m.paramKeys) ∨
        ∃ kv, kv ∈ m.kinvars ∧ s ∈ kv.2.syms := by
  unfold collect
  rw [mem_dedup]
  cases hv : v.collectsParams <;>
    simp [Model.kinKeys, Model.paramKeys, List.mem_flatten]
  · constructor
    · rintro (h | h | ⟨l, ⟨a, b, hab, rfl⟩, hs⟩)
      · exact Or.inl h
      · exact Or.inr (Or.inl h)
      · exact Or.inr (Or.inr ⟨a, b, hab, hs⟩)
    · rintro (h | h | ⟨a, b, hab, hs⟩)
      · exact Or.inl h
      · exact Or.inr (Or.inl h)
      · exact Or.inr (Or.inr ⟨_, ⟨a, b, hab, rfl⟩, hs⟩)
  · constructor
    · rintro (h | h | h | ⟨l, ⟨a, b, hab, rfl⟩, hs⟩)
      · exact Or.inl h
      · exact Or.inr (Or.inl h)
      · exact Or.inr (Or.inr (Or.inl h))
      · exact Or.inr (Or.inr (Or.inr ⟨a, b, hab, hs⟩))
    · rintro (h | h | h | ⟨a, b, hab, hs⟩)
      · exact Or.inl h
      · exact Or.inr (Or.inl h)
      · exact Or.inr (Or.inr (Or.inl h))
      · exact Or.inr (Or.inr (Or.inr ⟨_, ⟨a, b, hab, rfl⟩, hs⟩))

/-- with `collectsParams` the collected symbols are exactly the symbols the model mentions -/
theorem mem_collect_of_collectsParams (v : Variant) (hv : v.collectsParams = true) (m : Model) (s : Sym) :
    s ∈ collect v m ↔ m.mentions s := by
  rw [mem_collect]; simp [Model.mentions, hv]

/-- the list that `rename` looks targets up in -/
def ordered (v : Variant) (m : Model) : List Sym := lookupOrder v (collect v m)

theorem mem_lookupOrder (v : Variant) (l : List Sym) (s : Sym) : s ∈ lookupOrder v l ↔ s ∈ l := by
  unfold lookupOrder
  cases v.oneSymbolPerNewName
  · simp
  · simp only [if_true]; exact mem_isort _ _ _

theorem mem_ordered (v : Variant) (m : Model) (s : Sym) : s ∈ ordered v m ↔ s ∈ collect v m :=
  mem_lookupOrder v _ s

theorem sigma_of_mem (v : Variant) (m : Model) (ρ : List (Name × Name)) (s : Sym)
    (h : s ∈ collect v m) : sigma v m ρ s = target v ρ (ordered v m) s := by
  simp [sigma, applyMap, symbolMapping, alookup_map_self, h, ordered]

theorem sigma_of_not_mem (v : Variant) (m : Model) (ρ : List (Name × Name)) (s : Sym)
    (h : s ∉ collect v m) : sigma v m ρ s = s := by
  simp [sigma, applyMap, symbolMapping, alookup_map_self, h]

theorem existingNamed_some {ρ : List (Name × Name)} {symbols : List Sym} {n : Name} {t : Sym}
    (h : existingNamed ρ symbols n = some t) :
    t ∈ symbols ∧ renameOf ρ t.name = none ∧ t.name = n := by
  unfold existingNamed at h
  have h1 := List.mem_of_find?_eq_some h
  have h2 := List.find?_some h
  simp at h2
  exact ⟨h1, h2.1, h2.2⟩

theorem existingNamed_none {ρ : List (Name × Name)} {symbols : List Sym} {n : Name}
    (h : existingNamed ρ symbols n = none) :
    ∀ t, t ∈ symbols → renameOf ρ t.name = none → t.name ≠ n := by
  unfold existingNamed at h
  rw [List.find?_eq_none] at h
  intro t ht hr hn
  subst hn
  have := h t ht
  simp [hr] at this

theorem existingNamed_eq_none {ρ : List (Name × Name)} {symbols : List Sym} {n : Name}
    (h : ∀ t, t ∈ symbols → renameOf ρ t.name = none → t.name ≠ n) : existingNamed ρ symbols n = none := by
  cases he : existingNamed ρ symbols n with
  | none => rfl
  | some t =>
    obtain ⟨ht, hr, hn⟩ := existingNamed_some he
    exact absurd hn (h t ht hr)

theorem existingNamed_unique {ρ : List (Name × Name)} {symbols : List Sym} {n : Name} {b : Sym}
    (hb : b ∈ symbols) (hr : renameOf ρ b.name = none) (hn : b.name = n)
    (huniq : ∀ t, t ∈ symbols → t.name = n → t = b) :
    existingNamed ρ symbols n = some b := by
  cases h : existingNamed ρ symbols n with
  | none => exact absurd hn (existingNamed_none h b hb hr)
  | some t =>
    obtain ⟨ht, _, htn⟩ := existingNamed_some h
    rw [huniq t ht htn]

theorem firstSource_some {ρ : List (Name × Name)} {symbols : List Sym} {n : Name} {t : Sym}
    (h : firstSource ρ symbols n = some t) : t ∈ symbols ∧ renameOf ρ t.name = some n := by
  unfold firstSource at h
  have h1 := List.mem_of_find?_eq_some h
  have h2 := List.find?_some h
  simp at h2
  exact ⟨h1, h2⟩

theorem firstSource_ne_none {ρ : List (Name × Name)} {symbols : List Sym} {n : Name} {s : Sym}
    (hs : s ∈ symbols) (h : renameOf ρ s.name = some n) : firstSource ρ symbols n ≠ none := by
  unfold firstSource
  intro hn
  rw [List.find?_eq_none] at hn
  have := hn s hs
  simp [h] at this

/-- the new symbol carries the assumptions of some source of that name (of `s` itself before c9b6eb9) -/
theorem freshTarget_spec {v : Variant} {ρ : List (Name × Name)} {symbols : List Sym} {s : Sym} {n' : Name}
    (hs : s ∈ symbols) (h : renameOf ρ s.name = some n') :
    ∃ a₀, a₀ ∈ symbols ∧ renameOf ρ a₀.name = some n' ∧ freshTarget v ρ symbols s n' = ⟨n', a₀.asm⟩ ∧
      (v.oneSymbolPerNewName = false → a₀ = s) ∧
      (v.oneSymbolPerNewName = true → firstSource ρ symbols n' = some a₀) := by
  unfold freshTarget
  cases hv : v.oneSymbolPerNewName
  · exact ⟨s, hs, h, by simp, fun _ => rfl, fun e => by cases e⟩
  · simp only [if_true]
    cases hf : firstSource ρ symbols n' with
    | none => exact absurd hf (firstSource_ne_none hs h)
    | some a₀ =>
      obtain ⟨h1, h2⟩ := firstSource_some hf
      refine ⟨a₀, h1, h2, ?_, ?_, ?_⟩ <;> simp

theorem freshTarget_name {v : Variant} {ρ : List (Name × Name)} {symbols : List Sym} {s : Sym} {n' : Name} :
    (freshTarget v ρ symbols s n').name = n' := by
  unfold freshTarget
  cases v.oneSymbolPerNewName
  · simp
  · simp only [if_true]; cases firstSource ρ symbols n' <;> rfl

theorem target_of_none {v : Variant} {ρ : List (Name × Name)} {symbols : List Sym} {s : Sym}
    (h : renameOf ρ s.name = none) : target v ρ symbols s = s := by
  simp [target, h]

theorem target_name {v : Variant} {ρ : List (Name × Name)} {symbols : List Sym} {s : Sym} {n' : Name}
    (h : renameOf ρ s.name = some n') : (target v ρ symbols s).name = n' := by
  unfold target
  rw [h]
  cases hv : v.reusesExisting
  · simp [freshTarget_name]
  · simp only [if_true]
    cases he : existingNamed ρ symbols n' with
    | none => exact freshTarget_name
    | some t => exact (existingNamed_some he).2.2

/-- no unrenamed symbol carries the new name: the image is the new symbol -/
theorem target_fresh {v : Variant} {ρ : List (Name × Name)} {symbols : List Sym} {s : Sym} {n' : Name}
    (h : renameOf ρ s.name = some n')
    (hf : ∀ t, t ∈ symbols → renameOf ρ t.name = none → t.name ≠ n') :
    target v ρ symbols s = freshTarget v ρ symbols s n' := by
  unfold target
  rw [h]
  cases hv : v.reusesExisting
  · simp
  · simp only [if_true]
    rw [existingNamed_eq_none hf]

/-- since c9b6eb9 the image of a renamed symbol depends on its NEW name only -/
theorem target_depends_on_new_name {v : Variant} (hv : v.oneSymbolPerNewName = true)
    {ρ : List (Name × Name)} {symbols : List Sym} {a b : Sym} {n' : Name} (has : a ∈ symbols)
    (ha : renameOf ρ a.name = some n') (hb : renameOf ρ b.name = some n') :
    target v ρ symbols a = target v ρ symbols b := by
  have hne := firstSource_ne_none has ha
  unfold target freshTarget
  rw [ha, hb]
  simp only [hv, if_true]
  cases hf : firstSource ρ symbols n' with
  | none => exact absurd hf hne
  | some a₀ => rfl

theorem target_nameMap {v : Variant} {ρ : List (Name × Name)} {symbols : List Sym} (s : Sym) :
    (target v ρ symbols s).name = nameMap ρ s.name := by
  cases h : renameOf ρ s.name with
  | none => simp [target_of_none h, nameMap, h]
  | some n' => simp [target_name h, nameMap, h]

/-! ### predicates of the property theorems -/

def InjOn (f : Sym → Sym) (l : List Sym) : Prop := ∀ s, s ∈ l → ∀ t, t ∈ l → f s = f t → s = t

/-- the map on names is injective on the names of the listed symbols -/
def InjOnNames (ρ : List (Name × Name)) (l : List Sym) : Prop :=
  ∀ s, s ∈ l → ∀ t, t ∈ l → nameMap ρ s.name = nameMap ρ t.name → s.name = t.name

/-- the two dictionaries have distinct keys (they are Python dicts) -/
def Model.WF (m : Model) : Prop := m.paramKeys.Nodup ∧ m.kinKeys.Nodup

/-- the converters would not reorder anything -/
def Model.Ordered (m : Model) : Prop :=
  SortedAdj (fun a b : AmpEntry => nameLt a.keyStr b.keyStr) m.amplitudes ∧
  SortedAdj (fun a b : Sym × Expr => nameLtTie a.1.name b.1.name) m.kinvars ∧
  SortedAdj (fun a b : Name × Expr => nameLt a.1 b.1) m.components

/-! ### inputs of the witness theorems and non-vacuity examples

`witnessModel` is mirrored on the real code by `tools/props/C17.py: witness_models()`:
parameters `a` (no assumptions), `d` (positive), `m_0` (non-negative, occurs only in
`parameter_defaults`), kinematic variable `x = InvariantMass(p0)`, amplitudes `a*x`, `d*x`. -/

namespace Witness

def nA : Name := [97]                          -- "a"
def nD : Name := [100]                         -- "d"
def nM0 : Name := [109, 95, 48]                -- "m_0"
def nMgamma : Name := [109, 103, 97, 109, 109, 97]  -- "mgamma"
def nX : Name := [120]                         -- "x"
def nP0 : Name := [112, 48]                    -- "p0"
def nK : Name := [107]                         -- "k"
def nTheta : Name := [116, 104, 101, 116, 97]  -- "theta"

/-! declarations (complete `assumptions0` dicts of `Symbol(…)`, `Symbol(…, positive=True)`, …; fact numbers
as in `Model/C17Rename.lean`: 2 commutative, 3 complex, …, 28 real, 30 zero) -/
def declNone : Nat := mkDecl [(2, true)]
def declPositive : Nat := mkDecl [(2, true), (3, true), (6, false), (7, true), (8, false), (9, true), (10, true),
  (11, true), (12, true), (13, true), (14, false), (15, false), (18, false), (20, true), (21, false), (22, true),
  (25, true), (28, true), (30, false)]
def declNonnegative : Nat := mkDecl [(2, true), (3, true), (6, false), (7, true), (11, true), (12, true), (13, true),
  (14, false), (15, false), (18, false), (20, true), (28, true)]
def declReal : Nat := mkDecl [(2, true), (3, true), (11, true), (12, true), (13, true), (14, false), (15, false), (28, true)]
def declComplex : Nat := mkDecl [(2, true), (3, true), (12, true), (15, false)]
def declRational : Nat := mkDecl [(0, true), (2, true), (3, true), (11, true), (12, true), (13, true), (14, false),
  (15, false), (17, false), (27, true), (28, true), (29, false)]
/-- `Symbol("g", zero=False)`: a complex, non-zero coupling — `assumptions0 = {commutative: True, zero: False}` -/
def declNonzero : Nat := mkDecl [(2, true), (30, false)]

def a : Sym := ⟨nA, declNone⟩
def d : Sym := ⟨nD, declPositive⟩
def m0 : Sym := ⟨nM0, declNonnegative⟩
def x : Sym := ⟨nX, declReal⟩
def p0 : Sym := ⟨nP0, declNone⟩
/-- label of the amplitude `IndexedBase("A", complex=True)` and the summation index `Symbol("m_A", rational=True)` -/
def ampBase : Sym := ⟨[65], declComplex⟩
def idx : Sym := ⟨[105], declRational⟩

def witnessModel : Model :=
  { expr := .app 0 [.app 2 [.app 1 [.sym a, .sym x]], .app 2 [.app 1 [.sym d, .sym x]]]
    intensity := .app 5 [.app 2 [.app 3 [.sym ampBase, .sym idx]], .sym idx]
    amplitudes := [⟨[65, 91, 48, 93], .app 3 [.sym ampBase, .const 0], .app 1 [.sym a, .sym x]⟩,
                   ⟨[65, 91, 49, 93], .app 3 [.sym ampBase, .const 1], .app 1 [.sym d, .sym x]⟩]
    params := [(a, 0), (d, 1), (m0, 2)]
    kinvars := [(x, .app 4 [.sym p0])]
    components := [([73], .app 1 [.sym a, .sym x])] }

/-- a second kinematic variable, to show what merging two of them does -/
def twoKinModel : Model :=
  { witnessModel with kinvars := [(⟨nTheta, declReal⟩, .app 6 [.sym p0]), (x, .app 4 [.sym p0])] }

/-- a second parameter with other assumptions than `a`, to merge with it under a fresh name -/
def g : Sym := ⟨[103], declNonnegative⟩

def mergeModel : Model :=
  { witnessModel with
    expr := .app 0 [.app 2 [.app 1 [.sym a, .sym x]], .app 2 [.app 1 [.sym g, .sym x, .sym a]]]
    amplitudes := [⟨[65, 91, 48, 93], .app 3 [.sym ampBase, .const 0], .app 1 [.sym a, .sym x]⟩,
                   ⟨[65, 91, 49, 93], .app 3 [.sym ampBase, .const 1], .app 1 [.sym g, .sym x, .sym a]⟩]
    params := [(a, 0), (g, 1)] }

/-- a complex coupling declared non-zero (`Symbol("g", zero=False)`: a False-valued fact that no True fact of
the symbol implies), as custom dynamics introduce them; mirrored by `tools/props/C17.py: witness_models()` -/
def gNonzero : Sym := ⟨[103], declNonzero⟩

def nonzeroModel : Model :=
  { witnessModel with
    expr := .app 0 [.app 2 [.app 1 [.sym a, .sym x]], .app 2 [.app 1 [.sym gNonzero, .sym x, .sym a]]]
    amplitudes := [⟨[65, 91, 48, 93], .app 3 [.sym ampBase, .const 0], .app 1 [.sym a, .sym x]⟩,
                   ⟨[65, 91, 49, 93], .app 3 [.sym ampBase, .const 1], .app 1 [.sym gNonzero, .sym x, .sym a]⟩]
    params := [(a, 0), (gNonzero, 1)] }

def unsoundNoParams : Variant := ⟨false, true, true⟩
/-- the tree before 137fbcb -/
def unsoundNoReuse : Variant := ⟨true, false, false⟩
/-- the tree between 137fbcb and c9b6eb9 -/
def unsoundManySymbols : Variant := ⟨true, true, false⟩

end Witness

end Ampverif.Model.C17
