/-
Helper lemmas for C11: continuity of ρ̂ and the bound `‖ρ_eq(s)‖ ≤ 2ρ̂(s)` near threshold.
-/
import Ampverif.Lemmas.C11Equal
import Mathlib.Topology.Algebra.Order.Field
import Mathlib.Analysis.SpecialFunctions.Sqrt
import Mathlib.Tactic.FunProp
import Mathlib.Analysis.Real.Pi.Bounds

namespace Ampverif.Lemmas.C11
open Ampverif.Gen.C11 Filter Topology

theorem rhoAbs_continuousAt (m s0 : ℝ) (hs0 : s0 ≠ 0) :
    ContinuousAt (fun s => PhaseSpaceFactorAbs s m m) s0 := by
  unfold PhaseSpaceFactorAbs BreakupMomentumSquared
  have h1 : Real.sqrt |s0| ≠ 0 := by
    rw [Real.sqrt_ne_zero']; exact abs_pos.mpr hs0
  fun_prop (disch := assumption)

theorem rhoAbs_nonneg (s m1 m2 : ℝ) : 0 ≤ PhaseSpaceFactorAbs s m1 m2 := by
  unfold PhaseSpaceFactorAbs; positivity

/-- `‖ρ_eq(s)‖ ≤ 2 ρ̂(s)` as soon as `s > 0` and `ρ̂(s) ≤ 1/2`. -/
theorem rho_eq_norm_le (s m1 m2 : ℝ) (hs : 0 < s) (hρ : PhaseSpaceFactorAbs s m1 m2 ≤ 1 / 2) :
    ‖EqualMassPhaseSpaceFactor s m1 m2‖ ≤ 2 * PhaseSpaceFactorAbs s m1 m2 := by
  have h0 := rhoAbs_nonneg s m1 m2
  have hpi : 3 < Real.pi := Real.pi_gt_three
  have hpiinv : Real.pi⁻¹ ≤ 1 / 3 := by
    rw [inv_le_comm₀ Real.pi_pos (by norm_num)]; simpa using hpi.le
  unfold EqualMassPhaseSpaceFactor
  rw [if_neg (not_lt.mpr hs.le)]
  set ρ := PhaseSpaceFactorAbs s m1 m2 with hρdef
  split_ifs with hthr
  · -- above threshold
    have hL : |Real.log (|((-1 : ℝ) + ρ)⁻¹ * ((1 : ℝ) + ρ)|)| ≤ 2 := by
      have hx : |((-1 : ℝ) + ρ)⁻¹ * ((1 : ℝ) + ρ)| = (1 + ρ) / (1 - ρ) := by
        have : ((-1 : ℝ) + ρ)⁻¹ * ((1 : ℝ) + ρ) = -((1 + ρ) / (1 - ρ)) := by
          have h1 : (-1 : ℝ) + ρ ≠ 0 := by linarith
          have h2 : (1 : ℝ) - ρ ≠ 0 := by linarith
          field_simp
          ring
        rw [this, abs_neg, abs_of_pos (by apply div_pos <;> linarith)]
      rw [hx]
      have hx1 : 1 ≤ (1 + ρ) / (1 - ρ) := by rw [le_div_iff₀ (by linarith)]; linarith
      have hx3 : (1 + ρ) / (1 - ρ) ≤ 3 := by rw [div_le_iff₀ (by linarith)]; linarith
      rw [abs_of_nonneg (Real.log_nonneg hx1)]
      have := Real.log_le_sub_one_of_pos (by linarith : 0 < (1 + ρ) / (1 - ρ))
      linarith
    calc ‖Complex.I * ((Real.pi⁻¹ : ℝ) : ℂ) * ((ρ : ℝ) : ℂ)
            * ((Real.log |((-1 : ℝ) + ρ)⁻¹ * ((1 : ℝ) + ρ)| : ℝ) : ℂ) + ((ρ : ℝ) : ℂ)‖
        ≤ ‖Complex.I * ((Real.pi⁻¹ : ℝ) : ℂ) * ((ρ : ℝ) : ℂ)
            * ((Real.log |((-1 : ℝ) + ρ)⁻¹ * ((1 : ℝ) + ρ)| : ℝ) : ℂ)‖ + ‖((ρ : ℝ) : ℂ)‖ := norm_add_le _ _
      _ = Real.pi⁻¹ * ρ * |Real.log (|((-1 : ℝ) + ρ)⁻¹ * ((1 : ℝ) + ρ)|)| + ρ := by
          simp only [norm_mul, Complex.norm_I, Complex.norm_real, Real.norm_eq_abs, one_mul,
            abs_of_nonneg h0, abs_of_pos (inv_pos.mpr Real.pi_pos)]
      _ ≤ 2 * ρ := by
          have : Real.pi⁻¹ * ρ * |Real.log (|((-1 : ℝ) + ρ)⁻¹ * ((1 : ℝ) + ρ)|)| ≤ (1 / 3) * ρ * 2 := by
            apply mul_le_mul _ hL (abs_nonneg _) (by positivity)
            exact mul_le_mul_of_nonneg_right hpiinv h0
          linarith
  · -- at or below threshold
    have hA : |Real.arctan ρ⁻¹| ≤ Real.pi / 2 :=
      abs_le.mpr ⟨(Real.neg_pi_div_two_lt_arctan _).le, (Real.arctan_lt_pi_div_two _).le⟩
    calc ‖((2 : ℝ) : ℂ) * Complex.I * ((Real.pi⁻¹ : ℝ) : ℂ) * ((ρ : ℝ) : ℂ) * ((Real.arctan ρ⁻¹ : ℝ) : ℂ)‖
        = 2 * Real.pi⁻¹ * ρ * |Real.arctan ρ⁻¹| := by
          simp only [norm_mul, Complex.norm_I, Complex.norm_real, Real.norm_eq_abs, mul_one,
            abs_of_nonneg h0, abs_of_pos (inv_pos.mpr Real.pi_pos), abs_two]
      _ ≤ 2 * Real.pi⁻¹ * ρ * (Real.pi / 2) := by
          apply mul_le_mul_of_nonneg_left hA (by positivity)
      _ = ρ := by field_simp
      _ ≤ 2 * ρ := by linarith

end Ampverif.Lemmas.C11
