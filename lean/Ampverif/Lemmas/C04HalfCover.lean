/-
C04, layer (I), J = 1/2, continued.
* the atan2 branch cut: `Phi = atan2(p_y, p_x)` jumps from φ (just above the negative x axis) to −φ
  (just below); the continuous continuation would be 2π − φ; D^{1/2} at these two values of the
  same direction differs by a SIGN (`branch_cut_sign_half`), D¹ does not (`branch_cut_no_sign_one`).
  This is the mechanism of the known finding "axis-angle alignment with half-integer spins".
* the covering SU(2) → SO(3) on the regenerated matrices (`adj_Dh`) and the homomorphism property of
  SymPy's D^{1/2} UP TO A SIGN (`Dh_mul_sign`).
-/
import Ampverif.Lemmas.C04Half
import Mathlib.LinearAlgebra.Matrix.Determinant.Basic

namespace Ampverif.Lemmas.C04
open Matrix Ampverif.Gen.C04

/-! ### the atan2 branch cut -/

theorem PhiOf_on_cut : PhiOf (-1) 0 = Real.pi := by
  unfold PhiOf
  have : (⟨-1, 0⟩ : ℂ) = -1 := by apply Complex.ext <;> simp
  rw [this, Complex.arg_neg_one]

theorem PhiOf_below_cut (y : ℝ) (hy : 0 < y) : PhiOf (-1) (-y) = -PhiOf (-1) y := by
  unfold PhiOf
  have hc : (⟨-1, -y⟩ : ℂ) = (starRingEnd ℂ) ⟨-1, y⟩ := by apply Complex.ext <;> simp
  have hne : Complex.arg ⟨-1, y⟩ ≠ Real.pi := by
    rw [Ne, Complex.arg_eq_pi_iff]
    simp only [not_and]
    intro _ h
    exact absurd h hy.ne'
  rw [hc, Complex.arg_conj, if_neg hne]

theorem PhiOf_above_cut (y : ℝ) (hy : 0 < y) : Real.pi / 2 < PhiOf (-1) y ∧ PhiOf (-1) y < Real.pi := by
  unfold PhiOf
  constructor
  · by_contra h
    rw [not_lt, Complex.arg_le_pi_div_two_iff] at h
    rcases h with h | h
    · simp at h; linarith
    · simp at h; linarith
  · apply lt_of_le_of_ne (Complex.arg_le_pi _)
    rw [Ne, Complex.arg_eq_pi_iff]
    simp only [not_and]
    intro _ h
    exact absurd h hy.ne'

/-- Crossing the cut: just above the negative x axis `atan2` gives φ (close to π), just below it
gives −φ, whereas the continuous continuation is 2π − φ. Both describe the same direction, but for
spin 1/2 the two choices differ by a SIGN … -/
theorem branch_cut_sign_half (φ β γ : ℝ) : Dh (-φ) β γ = -Dh (2 * Real.pi - φ) β γ := by
  rw [show 2 * Real.pi - φ = -φ + 2 * Real.pi by ring, Dh_two_pi, neg_neg]

/-- … and for spin 1 they do not. -/
theorem branch_cut_no_sign_one (φ β γ : ℝ) : D1 (-φ) β γ = D1 (2 * Real.pi - φ) β γ := by
  rw [show 2 * Real.pi - φ = -φ + 2 * Real.pi by ring, D1_two_pi]

/-- `v·σ` (Pauli matrices) -/
def pauli (v : Fin 3 → ℝ) : Matrix (Fin 2) (Fin 2) ℂ :=
  !![(v 2 : ℂ), (v 0 : ℂ) - Complex.I * (v 1 : ℂ); (v 0 : ℂ) + Complex.I * (v 1 : ℂ), -(v 2 : ℂ)]

theorem ce_eq (x : ℝ) : ce x = (Real.cos x : ℂ) + (Real.sin x : ℂ) * Complex.I := by
  rw [ce, Complex.exp_mul_I, Complex.ofReal_cos, Complex.ofReal_sin]

theorem ce_mul_neg (x : ℝ) : ce x * ce (-x) = 1 := by rw [ce_add, add_neg_cancel, ce_zero]

/-- `uz(a) (v·σ) uz(a)† = (Rz(a) v)·σ` -/
theorem adj_uz (a : ℝ) (v : Fin 3 → ℝ) : uz a * pauli v * (uz a)ᴴ = pauli (Rz3 a *ᵥ v) := by
  rw [uz_conjTranspose, Rz3_mulVec]
  have e1 : ce (-a / 2) * ce (-a / 2) = ce (-a) := by rw [ce_add]; congr 1; ring
  have e2 : ce (a / 2) * ce (a / 2) = ce a := by rw [ce_add]; congr 1; ring
  have e3 : ce (-a / 2) * ce (a / 2) = 1 := by rw [ce_add]; rw [show -a / 2 + a / 2 = 0 by ring, ce_zero]
  have h1 : ce (-a) = Complex.cos (a : ℂ) - Complex.sin (a : ℂ) * Complex.I := by
    rw [ce, Complex.exp_mul_I]; push_cast; rw [Complex.cos_neg, Complex.sin_neg]; ring
  have h2 : ce a = Complex.cos (a : ℂ) + Complex.sin (a : ℂ) * Complex.I := by
    rw [ce, Complex.exp_mul_I]
  have hI : Complex.I * Complex.I = -1 := Complex.I_mul_I
  ext i j
  fin_cases i <;> fin_cases j <;>
    simp [-mul_eq_mul_right_iff, -mul_eq_mul_left_iff, uz, pauli, Matrix.mul_apply, Fin.sum_univ_two]
  · linear_combination (v 2 : ℂ) * e3
  · linear_combination ((v 0 : ℂ) - Complex.I * (v 1 : ℂ)) * e1 + ((v 0 : ℂ) - Complex.I * (v 1 : ℂ)) * h1
      + (Complex.sin (a : ℂ) * (v 1 : ℂ)) * hI
  · linear_combination ((v 0 : ℂ) + Complex.I * (v 1 : ℂ)) * e2 + ((v 0 : ℂ) + Complex.I * (v 1 : ℂ)) * h2
      + (Complex.sin (a : ℂ) * (v 1 : ℂ)) * hI
  · linear_combination (v 2 : ℂ) * e3

/-- `uy(b) (v·σ) uy(b)† = (Ry(b) v)·σ` -/
theorem adj_uy (b : ℝ) (v : Fin 3 → ℝ) : uy b * pauli v * (uy b)ᴴ = pauli (Ry3 b *ᵥ v) := by
  rw [uy_conjTranspose]
  have hn : -b / 2 = -(b / 2) := by ring
  have hc : Real.cos b = Real.cos (b / 2) ^ 2 - Real.sin (b / 2) ^ 2 := by
    rw [show b = 2 * (b / 2) by ring, Real.cos_two_mul, show 2 * (b / 2) / 2 = b / 2 by ring]
    nlinarith [Real.sin_sq_add_cos_sq (b / 2)]
  have hs : Real.sin b = 2 * Real.sin (b / 2) * Real.cos (b / 2) := by
    rw [show b = 2 * (b / 2) by ring, Real.sin_two_mul, show 2 * (b / 2) / 2 = b / 2 by ring]
  have hsq : ((Real.cos (b / 2) : ℝ) : ℂ) ^ 2 + ((Real.sin (b / 2) : ℝ) : ℂ) ^ 2 = 1 := by
    rw [← Complex.ofReal_pow, ← Complex.ofReal_pow, ← Complex.ofReal_add]
    rw [show Real.cos (b / 2) ^ 2 + Real.sin (b / 2) ^ 2 = 1 by nlinarith [Real.sin_sq_add_cos_sq (b / 2)]]
    simp
  ext i j
  fin_cases i <;> fin_cases j <;>
    simp only [uy, pauli, Ry3, hn, hc, hs, Real.cos_neg, Real.sin_neg, Matrix.mul_apply, Fin.sum_univ_two,
      Matrix.mulVec, dotProduct, Fin.sum_univ_three] <;>
    simp [-mul_eq_mul_right_iff, -mul_eq_mul_left_iff] <;> ring_nf
  all_goals
    first
    | linear_combination (-(Complex.I * (v 1 : ℂ))) * Complex.cos_sq_add_sin_sq ((b : ℂ) * (1 / 2))
    | linear_combination (Complex.I * (v 1 : ℂ)) * Complex.cos_sq_add_sin_sq ((b : ℂ) * (1 / 2))


/-- the adjoint action of SymPy's D^{1/2}(α,β,γ) on `v·σ` is the Euler rotation `Rz(α)Ry(β)Rz(γ)`:
the two-to-one covering SU(2) → SO(3) on the regenerated matrices -/
theorem adj_Dh (α β γ : ℝ) (v : Fin 3 → ℝ) :
    Dh α β γ * pauli v * (Dh α β γ)ᴴ = pauli (euler α β γ *ᵥ v) := by
  rw [Dh_factor, Matrix.conjTranspose_mul, Matrix.conjTranspose_mul, euler, ← Matrix.mulVec_mulVec,
    ← Matrix.mulVec_mulVec, ← adj_uz, ← adj_uy, ← adj_uz]
  simp only [Matrix.mul_assoc]

theorem det_uz (a : ℝ) : (uz a).det = 1 := by
  rw [Matrix.det_fin_two]
  simp [uz]
  rw [ce_add, show -a / 2 + a / 2 = 0 by ring, ce_zero]

theorem det_uy (b : ℝ) : (uy b).det = 1 := by
  rw [Matrix.det_fin_two]
  simp only [uy, Matrix.of_apply, Matrix.cons_val', Matrix.cons_val_zero, Matrix.cons_val_one,
    Matrix.empty_val', Matrix.cons_val_fin_one]
  have := Real.sin_sq_add_cos_sq (b / 2)
  have h : ((Real.cos (b / 2) : ℝ) : ℂ) * (Real.cos (b / 2) : ℝ) + ((Real.sin (b / 2) : ℝ) : ℂ) * (Real.sin (b / 2) : ℝ) = 1 := by
    rw [← Complex.ofReal_mul, ← Complex.ofReal_mul, ← Complex.ofReal_add]
    rw [show Real.cos (b / 2) * Real.cos (b / 2) + Real.sin (b / 2) * Real.sin (b / 2) = 1 by nlinarith]
    simp
  linear_combination h

theorem det_Dh (α β γ : ℝ) : (Dh α β γ).det = 1 := by
  rw [Dh_factor, Matrix.det_mul, Matrix.det_mul, det_uz, det_uy, det_uz]; ring

/-- a 2×2 matrix commuting with every `v·σ` is a multiple of the identity -/
theorem scalar_of_commute (V : Matrix (Fin 2) (Fin 2) ℂ) (h : ∀ v, V * pauli v = pauli v * V) :
    V = V 0 0 • (1 : Matrix (Fin 2) (Fin 2) ℂ) := by
  have hz := h ![0, 0, 1]
  have hx := h ![1, 0, 0]
  have z01 := congrFun (congrFun hz 0) 1
  have z10 := congrFun (congrFun hz 1) 0
  have x01 := congrFun (congrFun hx 0) 1
  simp [pauli, Matrix.mul_apply, Fin.sum_univ_two] at z01 z10 x01
  have e01 : V 0 1 = 0 := by linear_combination (-(1 : ℂ) / 2) * z01
  have e10 : V 1 0 = 0 := by linear_combination ((1 : ℂ) / 2) * z10
  ext i j
  fin_cases i <;> fin_cases j <;> simp [e01, e10, x01]

/-- HOMOMORPHISM UP TO THE SU(2) SIGN: whenever the Euler rotations compose,
`Rz(α)Ry(β)Rz(γ) · Rz(α')Ry(β')Rz(γ') = Rz(α'')Ry(β'')Rz(γ'')`, SymPy's D^{1/2} matrices compose up
to a sign. -/
theorem Dh_mul_sign (α β γ α' β' γ' α'' β'' γ'' : ℝ)
    (h : euler α β γ * euler α' β' γ' = euler α'' β'' γ'') :
    Dh α β γ * Dh α' β' γ' = Dh α'' β'' γ'' ∨ Dh α β γ * Dh α' β' γ' = -Dh α'' β'' γ'' := by
  set U := Dh α β γ * Dh α' β' γ' with hU
  set W := Dh α'' β'' γ'' with hW
  have uU : Uᴴ * U = 1 := by
    rw [hU, Matrix.conjTranspose_mul]
    calc (Dh α' β' γ')ᴴ * (Dh α β γ)ᴴ * (Dh α β γ * Dh α' β' γ')
        = (Dh α' β' γ')ᴴ * ((Dh α β γ)ᴴ * Dh α β γ) * Dh α' β' γ' := by simp only [Matrix.mul_assoc]
      _ = 1 := by rw [Dh_unitary, Matrix.mul_one, Dh_unitary]
  have uW : Wᴴ * W = 1 := Dh_unitary _ _ _
  have uW' : W * Wᴴ = 1 := mul_eq_one_comm.mp uW
  have hadj : ∀ v, U * pauli v * Uᴴ = W * pauli v * Wᴴ := by
    intro v
    rw [hW, adj_Dh, ← h, ← Matrix.mulVec_mulVec, ← adj_Dh, ← adj_Dh, hU, Matrix.conjTranspose_mul]
    simp only [Matrix.mul_assoc]
  have hcomm : ∀ v, (Wᴴ * U) * pauli v = pauli v * (Wᴴ * U) := by
    intro v
    have : Wᴴ * (U * pauli v * Uᴴ) * U = Wᴴ * (W * pauli v * Wᴴ) * U := by rw [hadj v]
    calc Wᴴ * U * pauli v = Wᴴ * (U * pauli v * Uᴴ) * U := by
          simp only [Matrix.mul_assoc]; rw [uU, Matrix.mul_one]
      _ = Wᴴ * (W * pauli v * Wᴴ) * U := this
      _ = pauli v * (Wᴴ * U) := by
          simp only [← Matrix.mul_assoc]; rw [uW, Matrix.one_mul]
  have hs := scalar_of_commute _ hcomm
  set lam := (Wᴴ * U) 0 0 with hl
  have hdet : (Wᴴ * U).det = 1 := by
    have dW : W.det = 1 := det_Dh _ _ _
    have dU : U.det = 1 := by rw [hU, Matrix.det_mul, det_Dh, det_Dh, one_mul]
    rw [Matrix.det_mul, Matrix.det_conjTranspose, dW, dU]; simp
  have hl2 : lam * lam = 1 := by
    rw [hs, Matrix.det_smul, Matrix.det_one] at hdet
    simpa [pow_two] using hdet
  have hUW : U = lam • W := by
    calc U = W * (Wᴴ * U) := by rw [← Matrix.mul_assoc, uW', Matrix.one_mul]
      _ = lam • W := by rw [hs, Matrix.mul_smul, Matrix.mul_one]
  rcases mul_self_eq_one_iff.mp hl2 with h1 | h1
  · left; rw [hUW, h1, one_smul]
  · right; rw [hUW, h1, neg_one_smul]

end Ampverif.Lemmas.C04
