/-
C03 — Racah's closed formula equals the REGENERATED SymPy Clebsch–Gordan table on every admissible
key of the blocks `(2j₁, 2j₂) = (5, ·)` (kernel evaluation, exact rational arithmetic; generated
file layout: one module per `2j₁` so that the blocks build in parallel).
-/
import Ampverif.Lemmas.C03Racah
import Ampverif.Gen.C03CG

namespace Ampverif.Lemmas.C03RacahBlocks
open Ampverif.Model.C03CG Ampverif.Lemmas.C03CG Ampverif.Gen.C03CG

theorem racah_5_0 : blockIsRacah table 5 0 = true := by decide +kernel
theorem racah_5_1 : blockIsRacah table 5 1 = true := by decide +kernel
theorem racah_5_2 : blockIsRacah table 5 2 = true := by decide +kernel
theorem racah_5_3 : blockIsRacah table 5 3 = true := by decide +kernel
theorem racah_5_4 : blockIsRacah table 5 4 = true := by decide +kernel
theorem racah_5_5 : blockIsRacah table 5 5 = true := by decide +kernel
theorem racah_5_6 : blockIsRacah table 5 6 = true := by decide +kernel

end Ampverif.Lemmas.C03RacahBlocks
