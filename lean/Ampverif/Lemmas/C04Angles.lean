/-
C04, layer (K), part 3 — the REGENERATED `Phi`/`Theta` (`Gen.C04.PhiOf`, `Gen.C04.ThetaOf`) are
the polar angles of the vector: `hframe (phiOf v) (thetaOf v)` maps ẑ to `v/|v|`.
-/
import Ampverif.Lemmas.C04Frame

namespace Ampverif.Lemmas.C04
open Matrix Ampverif.Gen.C04

/-- euclidean norm of a 3-vector (the expression `three_momentum_norm` unfolds to) -/
noncomputable def nrm (v : Fin 3 → ℝ) : ℝ := Real.sqrt (v 0 ^ 2 + v 1 ^ 2 + v 2 ^ 2)

noncomputable def phiOf (v : Fin 3 → ℝ) : ℝ := PhiOf (v 0) (v 1)
noncomputable def thetaOf (v : Fin 3 → ℝ) : ℝ := ThetaOf (v 0) (v 1) (v 2)

theorem nrm_sq (v : Fin 3 → ℝ) : nrm v ^ 2 = v 0 ^ 2 + v 1 ^ 2 + v 2 ^ 2 :=
  Real.sq_sqrt (by positivity)

theorem cos_thetaOf (v : Fin 3 → ℝ) (h : 0 < nrm v) : Real.cos (thetaOf v) = v 2 / nrm v := by
  have hz : |v 2| ≤ nrm v := Real.abs_le_sqrt (by nlinarith [sq_nonneg (v 0), sq_nonneg (v 1)])
  have h1 : -1 ≤ (nrm v)⁻¹ * v 2 := by
    rw [inv_mul_eq_div, le_div_iff₀ h]; linarith [(abs_le.mp hz).1]
  have h2 : (nrm v)⁻¹ * v 2 ≤ 1 := by
    rw [inv_mul_eq_div, div_le_iff₀ h]; linarith [(abs_le.mp hz).2]
  unfold thetaOf ThetaOf
  rw [show Real.sqrt (v 0 ^ 2 + v 1 ^ 2 + v 2 ^ 2) = nrm v from rfl, Real.cos_arccos h1 h2,
    inv_mul_eq_div]

theorem sin_thetaOf (v : Fin 3 → ℝ) (h : 0 < nrm v) :
    Real.sin (thetaOf v) = Real.sqrt (v 0 ^ 2 + v 1 ^ 2) / nrm v := by
  unfold thetaOf ThetaOf
  rw [show Real.sqrt (v 0 ^ 2 + v 1 ^ 2 + v 2 ^ 2) = nrm v from rfl, Real.sin_arccos]
  have hn := nrm_sq v
  have : 1 - ((nrm v)⁻¹ * v 2) ^ 2 = (v 0 ^ 2 + v 1 ^ 2) / nrm v ^ 2 := by
    field_simp
    linarith
  rw [this, Real.sqrt_div (by positivity), Real.sqrt_sq h.le]

theorem rho_eq (x y : ℝ) : ‖(⟨x, y⟩ : ℂ)‖ = Real.sqrt (x ^ 2 + y ^ 2) := by
  rw [Complex.norm_def, Complex.normSq_mk]; congr 1; ring

theorem sin_theta_cos_phi (v : Fin 3 → ℝ) (h : 0 < nrm v) :
    Real.sin (thetaOf v) * Real.cos (phiOf v) = v 0 / nrm v := by
  rw [sin_thetaOf v h]
  by_cases h0 : (⟨v 0, v 1⟩ : ℂ) = 0
  · have hx : v 0 = 0 := by simpa using congrArg Complex.re h0
    have hy : v 1 = 0 := by simpa using congrArg Complex.im h0
    simp [hx, hy]
  · have hρ : 0 < Real.sqrt (v 0 ^ 2 + v 1 ^ 2) := by
      rw [← rho_eq]; exact norm_pos_iff.mpr h0
    unfold phiOf PhiOf
    rw [Complex.cos_arg h0, rho_eq]
    field_simp

theorem sin_theta_sin_phi (v : Fin 3 → ℝ) (h : 0 < nrm v) :
    Real.sin (thetaOf v) * Real.sin (phiOf v) = v 1 / nrm v := by
  rw [sin_thetaOf v h]
  by_cases h0 : (⟨v 0, v 1⟩ : ℂ) = 0
  · have hx : v 0 = 0 := by simpa using congrArg Complex.re h0
    have hy : v 1 = 0 := by simpa using congrArg Complex.im h0
    simp [hx, hy]
  · have hρ : 0 < Real.sqrt (v 0 ^ 2 + v 1 ^ 2) := by
      rw [← rho_eq]; exact norm_pos_iff.mpr h0
    unfold phiOf PhiOf
    rw [Complex.sin_arg, rho_eq]
    field_simp

/-- `h(v) := Rz(Phi v) · Ry(Theta v)` maps ẑ to `v/|v|` (every non-zero `v`). -/
theorem hframe_angles (v : Fin 3 → ℝ) (h : 0 < nrm v) :
    hframe (phiOf v) (thetaOf v) *ᵥ ez = (nrm v)⁻¹ • v := by
  rw [hframe_ez, sin_theta_cos_phi v h, sin_theta_sin_phi v h, cos_thetaOf v h]
  ext i
  fin_cases i <;> simp [div_eq_inv_mul]

/-- the inverse helicity rotation `Ry(−θ) Rz(−φ)` (the order used by
`compute_helicity_angles`) takes `v` to `|v|·ẑ`. -/
theorem hframe_inv_apply (v : Fin 3 → ℝ) (h : 0 < nrm v) :
    (Ry3 (-thetaOf v) * Rz3 (-phiOf v)) *ᵥ v = nrm v • ez := by
  have hT : Ry3 (-thetaOf v) * Rz3 (-phiOf v) = (hframe (phiOf v) (thetaOf v))ᵀ := by
    rw [hframe, Matrix.transpose_mul, Rz3_transpose, Ry3_transpose]
  have hrot := (hframe_isRot (phiOf v) (thetaOf v)).1
  have hv : v = nrm v • (hframe (phiOf v) (thetaOf v) *ᵥ ez) := by
    rw [hframe_angles v h, smul_smul, mul_inv_cancel₀ h.ne', one_smul]
  rw [hT]
  generalize hframe (phiOf v) (thetaOf v) = H at hv hrot ⊢
  calc Hᵀ *ᵥ v = Hᵀ *ᵥ (nrm v • (H *ᵥ ez)) := by rw [← hv]
    _ = nrm v • ez := by rw [Matrix.mulVec_smul, Matrix.mulVec_mulVec, hrot, Matrix.one_mulVec]

end Ampverif.Lemmas.C04
