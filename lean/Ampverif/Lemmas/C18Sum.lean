/-
Helper lemmas for C18: `PoolSum.evaluate` term by term (pool values are terms that are substituted
for the indices), `dict(self.indices)`, well-formedness of nested sums under substitution.
-/
import Ampverif.Lemmas.C18Subst

namespace Ampverif.Lemmas.C18
open Ampverif.Model

/-! ### `dict(self.indices)` -/

theorem names_append {α : Type} (a b : List (Sym × α)) : names (a ++ b) = names a ++ names b := by
  simp [names]

theorem dictInsert_fresh {α : Type} (d : List (Sym × α)) (b : Sym × α) (h : b.1 ∉ names d) :
    dictInsert d b = d ++ [b] := by
  simp [dictInsert, h]

theorem foldl_dictInsert_nodup {α : Type} (ixs : List (Sym × α)) :
    ∀ acc : List (Sym × α), (names (acc ++ ixs)).Nodup → ixs.foldl dictInsert acc = acc ++ ixs := by
  induction ixs with
  | nil => intro acc _; simp
  | cons b rest ih =>
    intro acc h
    have hb : b.1 ∉ names acc := by
      rw [names_append, names_cons] at h
      have := List.nodup_append.mp h
      intro hm
      exact this.2.2 _ hm _ (List.mem_cons_self) rfl
    simp only [List.foldl_cons]
    rw [dictInsert_fresh acc b hb, ih (acc ++ [b]) (by simpa using h)]
    simp

theorem dictOf_nodup {α : Type} (ixs : List (Sym × α)) (h : (names ixs).Nodup) : dictOf ixs = ixs := by
  have := foldl_dictInsert_nodup ixs [] (by simpa using h)
  simpa [dictOf] using this

/-! ### membership in pools -/

theorem noPsumList_mem : ∀ (es : List Expr) (a : Expr), noPsumList es = true → a ∈ es → noPsum a = true
  | [], a, _, h => by simp at h
  | e :: es, a, hn, h => by
      have hn' : noPsum e = true ∧ noPsumList es = true := by simpa [noPsumList] using hn
      rcases List.mem_cons.mp h with h | h
      · subst h; exact hn'.1
      · exact noPsumList_mem es a hn'.2 h

theorem symsList_mem : ∀ (es : List Expr) (a : Expr) (s : Sym), a ∈ es → s ∈ syms a → s ∈ symsList es
  | [], a, s, h, _ => by simp at h
  | e :: es, a, s, h, hs => by
      simp only [symsList, List.mem_append]
      rcases List.mem_cons.mp h with h | h
      · subst h; exact Or.inl hs
      · exact Or.inr (symsList_mem es a s h hs)

/-- every value that `itertools.product` hands to `subs` is a value of one of the pools. -/
theorem assignments_vals (ixs : List Binder) (hnp : noPsumBinders ixs = true) :
    ∀ c ∈ assignments ixs, ∀ p ∈ c, noPsum p.2 = true ∧ ∀ s ∈ syms p.2, s ∈ symsBinders ixs := by
  induction ixs with
  | nil => intro c hc p hp; simp [assignments] at hc; subst hc; simp at hp
  | cons b rest ih =>
    obtain ⟨i, pool⟩ := b
    have hn' : noPsumList pool = true ∧ noPsumBinders rest = true := by simpa [noPsumBinders] using hnp
    intro c hc p hp
    simp only [assignments, List.mem_flatMap, List.mem_map] at hc
    obtain ⟨a, ha, c', hc', rfl⟩ := hc
    rcases List.mem_cons.mp hp with h | h
    · subst h
      refine ⟨noPsumList_mem pool a hn'.1 ha, ?_⟩
      intro s hs
      simp only [symsBinders, List.mem_append]
      exact Or.inl (symsList_mem pool a s ha hs)
    · have := ih hn'.2 c' hc' p h
      refine ⟨this.1, ?_⟩
      intro s hs
      simp only [symsBinders, List.mem_append]
      exact Or.inr (this.2 s hs)

/-! ### substitution keeps the bound symbols and nested sums well-formed -/

theorem names_subst1Binders (v : Variant) (x : Sym) (a : Expr) :
    ∀ ixs : List (Sym × List Expr), names (subst1Binders v x a ixs) = names ixs
  | [] => by simp [subst1Binders]
  | (i, pool) :: rest => by
      simp only [subst1Binders]
      rw [names_cons, names_cons, names_subst1Binders v x a rest]

mutual
theorem bound_subst1 (v : Variant) (hv : v.sound) (x : Sym) (a : Expr) (ha : bound a = []) :
    ∀ e : Expr, bound (subst1 v x a e) = bound e
  | .sym s => by by_cases h : s = x <;> simp [subst1, bound, h, ha]
  | .rat r => by simp [subst1]
  | .add es => by simp only [subst1, bound]; exact boundList_subst1 v hv x a ha es
  | .mul es => by simp only [subst1, bound]; exact boundList_subst1 v hv x a ha es
  | .pow b n => by simp only [subst1, bound]; exact bound_subst1 v hv x a ha b
  | .app f es => by simp only [subst1, bound]; exact boundList_subst1 v hv x a ha es
  | .node c es t => by
      have hr : v.getArgsRecursive = false := hv.1
      simp only [subst1, hr, Bool.false_and, Bool.false_eq_true, if_false, bound]
      exact boundList_subst1 v hv x a ha es
  | .psum b ixs => by
      have hp : v.poolSumProtectsBound = true := hv.2
      by_cases hx : (names ixs).contains x = true
      · simp only [subst1, hp, hx, if_true]
      · simp only [subst1, hp, hx, if_true]
        simp only [Bool.false_eq_true, if_false, bound]
        rw [names_subst1Binders, boundBinders_subst1 v hv x a ha ixs, bound_subst1 v hv x a ha b]
  | .idx f es => by simp only [subst1, bound]; exact boundList_subst1 v hv x a ha es
theorem boundList_subst1 (v : Variant) (hv : v.sound) (x : Sym) (a : Expr) (ha : bound a = []) :
    ∀ es : List Expr, boundList (subst1List v x a es) = boundList es
  | [] => by simp [subst1List]
  | e :: es => by
      simp only [subst1List, boundList]
      rw [bound_subst1 v hv x a ha e, boundList_subst1 v hv x a ha es]
theorem boundBinders_subst1 (v : Variant) (hv : v.sound) (x : Sym) (a : Expr) (ha : bound a = []) :
    ∀ ixs : List (Sym × List Expr), boundBinders (subst1Binders v x a ixs) = boundBinders ixs
  | [] => by simp [subst1Binders]
  | (i, pool) :: rest => by
      simp only [subst1Binders, boundBinders]
      rw [boundList_subst1 v hv x a ha pool, boundBinders_subst1 v hv x a ha rest]
end

mutual
theorem noPsum_subst1 (v : Variant) (hv : v.sound) (x : Sym) (a : Expr) (ha : noPsum a = true) :
    ∀ e : Expr, noPsum e = true → noPsum (subst1 v x a e) = true
  | .sym s, _ => by by_cases h : s = x <;> simp [subst1, noPsum, h, ha]
  | .rat r, _ => by simp [subst1, noPsum]
  | .add es, h => by
      simp only [subst1, noPsum] at h ⊢; exact noPsumList_subst1 v hv x a ha es h
  | .mul es, h => by
      simp only [subst1, noPsum] at h ⊢; exact noPsumList_subst1 v hv x a ha es h
  | .pow b n, h => by
      simp only [subst1, noPsum] at h ⊢; exact noPsum_subst1 v hv x a ha b h
  | .app f es, h => by
      simp only [subst1, noPsum] at h ⊢; exact noPsumList_subst1 v hv x a ha es h
  | .node c es t, h => by
      have hr : v.getArgsRecursive = false := hv.1
      simp only [subst1, hr, Bool.false_and, Bool.false_eq_true, if_false, noPsum] at h ⊢
      exact noPsumList_subst1 v hv x a ha es h
  | .psum _ _, h => by simp [noPsum] at h
  | .idx f es, h => by
      simp only [subst1, noPsum] at h ⊢; exact noPsumList_subst1 v hv x a ha es h
theorem noPsumList_subst1 (v : Variant) (hv : v.sound) (x : Sym) (a : Expr) (ha : noPsum a = true) :
    ∀ es : List Expr, noPsumList es = true → noPsumList (subst1List v x a es) = true
  | [], _ => by simp [subst1List, noPsumList]
  | e :: es, h => by
      have h' : noPsum e = true ∧ noPsumList es = true := by simpa [noPsumList] using h
      simp [subst1List, noPsumList, noPsum_subst1 v hv x a ha e h'.1, noPsumList_subst1 v hv x a ha es h'.2]
end

theorem noPsumBinders_subst1 (v : Variant) (hv : v.sound) (x : Sym) (a : Expr) (ha : noPsum a = true) :
    ∀ ixs : List Binder, noPsumBinders ixs = true → noPsumBinders (subst1Binders v x a ixs) = true
  | [], _ => by simp [subst1Binders, noPsumBinders]
  | (i, pool) :: rest, h => by
      have h' : noPsumList pool = true ∧ noPsumBinders rest = true := by simpa [noPsumBinders] using h
      simp [subst1Binders, noPsumBinders, noPsumList_subst1 v hv x a ha pool h'.1,
        noPsumBinders_subst1 v hv x a ha rest h'.2]

theorem subst1List_isEmpty (v : Variant) (x : Sym) (a : Expr) :
    ∀ es : List Expr, (subst1List v x a es).isEmpty = es.isEmpty
  | [] => by simp [subst1List]
  | _ :: _ => by simp [subst1List]

theorem nonempty_subst1Binders (v : Variant) (x : Sym) (a : Expr) :
    ∀ ixs : List Binder, (∀ p ∈ ixs, p.2 ≠ []) → ∀ p ∈ subst1Binders v x a ixs, p.2 ≠ []
  | [], _, p, hp => by simp [subst1Binders] at hp
  | (i, pool) :: rest, h, p, hp => by
      simp only [subst1Binders, List.mem_cons] at hp
      rcases hp with hp | hp
      · subst hp
        have := h (i, pool) List.mem_cons_self
        cases pool with
        | nil => exact absurd rfl this
        | cons e es => simp [subst1List]
      · exact nonempty_subst1Binders v x a rest (fun q hq => h q (List.mem_cons_of_mem _ hq)) p hp

mutual
/-- symbols of a substituted pool-sum-free term come from the term or from the inserted term. -/
theorem syms_subst1_noPsum (v : Variant) (hv : v.sound) (x : Sym) (a : Expr) :
    ∀ (e : Expr) (s : Sym), noPsum e = true → s ∈ syms (subst1 v x a e) → s ∈ syms e ∨ s ∈ syms a
  | .sym t, s, _, hs => by
      by_cases h : t = x
      · simp [subst1, h] at hs; exact Or.inr hs
      · simp [subst1, h] at hs; exact Or.inl (by simpa [syms] using hs)
  | .rat r, s, _, hs => by simp [subst1, syms] at hs
  | .add es, s, hn, hs => by
      simp only [subst1, syms] at hs ⊢
      exact symsList_subst1_noPsum v hv x a es s (by simpa [noPsum] using hn) hs
  | .mul es, s, hn, hs => by
      simp only [subst1, syms] at hs ⊢
      exact symsList_subst1_noPsum v hv x a es s (by simpa [noPsum] using hn) hs
  | .pow b k, s, hn, hs => by
      simp only [subst1, syms] at hs ⊢
      exact syms_subst1_noPsum v hv x a b s (by simpa [noPsum] using hn) hs
  | .app f es, s, hn, hs => by
      simp only [subst1, syms] at hs ⊢
      exact symsList_subst1_noPsum v hv x a es s (by simpa [noPsum] using hn) hs
  | .node c es t, s, hn, hs => by
      have hr : v.getArgsRecursive = false := hv.1
      simp only [subst1, hr, Bool.false_and, Bool.false_eq_true, if_false, syms] at hs ⊢
      exact symsList_subst1_noPsum v hv x a es s (by simpa [noPsum] using hn) hs
  | .psum _ _, s, hn, _ => by simp [noPsum] at hn
  | .idx f es, s, hn, hs => by
      simp only [subst1, syms] at hs ⊢
      exact symsList_subst1_noPsum v hv x a es s (by simpa [noPsum] using hn) hs
theorem symsList_subst1_noPsum (v : Variant) (hv : v.sound) (x : Sym) (a : Expr) :
    ∀ (es : List Expr) (s : Sym), noPsumList es = true → s ∈ symsList (subst1List v x a es) →
      s ∈ symsList es ∨ s ∈ syms a
  | [], s, _, hs => by simp [subst1List, symsList] at hs
  | e :: es, s, hn, hs => by
      have hn' : noPsum e = true ∧ noPsumList es = true := by simpa [noPsumList] using hn
      simp only [subst1List, symsList, List.mem_append] at hs ⊢
      rcases hs with hs | hs
      · rcases syms_subst1_noPsum v hv x a e s hn'.1 hs with h | h
        · exact Or.inl (Or.inl h)
        · exact Or.inr h
      · rcases symsList_subst1_noPsum v hv x a es s hn'.2 hs with h | h
        · exact Or.inl (Or.inr h)
        · exact Or.inr h
end

theorem symsBinders_subst1 (v : Variant) (hv : v.sound) (x : Sym) (a : Expr) :
    ∀ (ixs : List Binder) (s : Sym), noPsumBinders ixs = true → s ∈ symsBinders (subst1Binders v x a ixs) →
      s ∈ symsBinders ixs ∨ s ∈ syms a
  | [], s, _, h => by simp [subst1Binders, symsBinders] at h
  | (i, pool) :: rest, s, hn, h => by
      have hn' : noPsumList pool = true ∧ noPsumBinders rest = true := by simpa [noPsumBinders] using hn
      simp only [subst1Binders, symsBinders, List.mem_append] at h ⊢
      rcases h with h | h
      · rcases symsList_subst1_noPsum v hv x a pool s hn'.1 h with h | h
        · exact Or.inl (Or.inl h)
        · exact Or.inr h
      · rcases symsBinders_subst1 v hv x a rest s hn'.2 h with h | h
        · exact Or.inl (Or.inr h)
        · exact Or.inr h

theorem wfSums_psum_intro {b : Expr} {ixs : List Binder}
    (h1 : (names ixs).Nodup) (h2 : ∀ p ∈ ixs, p.2 ≠ []) (h3 : noPsumBinders ixs = true)
    (h4 : ∀ s ∈ symsBinders ixs, s ∉ names ixs ∧ s ∉ bound b) (h5 : wfSums b = true) :
    wfSums (.psum b ixs) = true := by
  simp only [wfSums, Bool.and_eq_true, decide_eq_true_eq, List.all_eq_true]
  refine ⟨⟨⟨⟨h1, ?_⟩, h3⟩, ?_⟩, h5⟩
  · intro p hp
    have := h2 p hp
    cases hp2 : p.2 with
    | nil => exact absurd hp2 this
    | cons _ _ => simp
  · intro s hs
    have := h4 s hs
    simpa using this

mutual
/-- inserting a pool-sum-free term that mentions no bound symbol keeps nested sums well-formed. -/
theorem wfSums_subst1 (v : Variant) (hv : v.sound) (x : Sym) (a : Expr) (ha : noPsum a = true) :
    ∀ e : Expr, wfSums e = true → (∀ s ∈ syms a, s ∉ bound e) → wfSums (subst1 v x a e) = true
  | .sym s, _, _ => by
      by_cases h : s = x
      · simp [subst1, h, wfSums_of_noPsum a ha]
      · simp [subst1, wfSums, h]
  | .rat r, _, _ => by simp [subst1, wfSums]
  | .add es, hw, hc => by
      simp only [subst1, wfSums] at hw ⊢
      exact wfSumsList_subst1 v hv x a ha es hw (by simpa [bound] using hc)
  | .mul es, hw, hc => by
      simp only [subst1, wfSums] at hw ⊢
      exact wfSumsList_subst1 v hv x a ha es hw (by simpa [bound] using hc)
  | .pow b n, hw, hc => by
      simp only [subst1, wfSums] at hw ⊢
      exact wfSums_subst1 v hv x a ha b hw (by simpa [bound] using hc)
  | .app f es, hw, hc => by
      simp only [subst1, wfSums] at hw ⊢
      exact wfSumsList_subst1 v hv x a ha es hw (by simpa [bound] using hc)
  | .node c es t, hw, hc => by
      have hr : v.getArgsRecursive = false := hv.1
      simp only [subst1, hr, Bool.false_and, Bool.false_eq_true, if_false, wfSums] at hw ⊢
      exact wfSumsList_subst1 v hv x a ha es hw (by simpa [bound] using hc)
  | .psum b ixs, hw, hc => by
      have hp : v.poolSumProtectsBound = true := hv.2
      obtain ⟨hnd, hne, hnp, hown, hwb⟩ := wfSums_psum hw
      have hc' : ∀ s ∈ syms a, s ∉ names ixs ∧ s ∉ bound b := by
        intro s hs
        have := hc s hs
        simp only [bound, List.mem_append, not_or] at this
        exact ⟨this.1.1, this.2⟩
      by_cases hx : (names ixs).contains x = true
      · simp only [subst1, hp, hx, if_true]; exact hw
      · simp only [subst1, hp, hx, if_true]
        simp only [Bool.false_eq_true, if_false]
        apply wfSums_psum_intro
        · rw [names_subst1Binders]; exact hnd
        · exact nonempty_subst1Binders v x a ixs hne
        · exact noPsumBinders_subst1 v hv x a ha ixs hnp
        · intro s hs
          rw [names_subst1Binders, bound_subst1 v hv x a (bound_of_noPsum a ha)]
          rcases symsBinders_subst1 v hv x a ixs s hnp hs with h | h
          · exact hown s h
          · exact hc' s h
        · exact wfSums_subst1 v hv x a ha b hwb (fun s hs => (hc' s hs).2)
  | .idx f es, hw, hc => by
      simp only [subst1, wfSums] at hw ⊢
      exact wfSumsList_subst1 v hv x a ha es hw (by simpa [bound] using hc)
theorem wfSumsList_subst1 (v : Variant) (hv : v.sound) (x : Sym) (a : Expr) (ha : noPsum a = true) :
    ∀ es : List Expr, wfSumsList es = true → (∀ s ∈ syms a, s ∉ boundList es) →
      wfSumsList (subst1List v x a es) = true
  | [], _, _ => by simp [subst1List, wfSumsList]
  | e :: es, hw, hc => by
      have hw' : wfSums e = true ∧ wfSumsList es = true := by simpa [wfSumsList] using hw
      have hc' : ∀ s ∈ syms a, s ∉ bound e ∧ s ∉ boundList es := by
        intro s hs
        have := hc s hs
        simpa [boundList, not_or] using this
      simp only [subst1List, wfSumsList, Bool.and_eq_true]
      exact ⟨wfSums_subst1 v hv x a ha e hw'.1 (fun s hs => (hc' s hs).1),
        wfSumsList_subst1 v hv x a ha es hw'.2 (fun s hs => (hc' s hs).2)⟩
end

theorem substSeq_cons (v : Variant) (i : Sym) (a : Expr) (c : List (Sym × Expr)) (b : Expr) :
    substSeq v ((i, a) :: c) b = substSeq v c (subst1 v i a b) := rfl

theorem bound_substSeq (v : Variant) (hv : v.sound) (c : List (Sym × Expr)) :
    ∀ e : Expr, (∀ p ∈ c, noPsum p.2 = true) → bound (substSeq v c e) = bound e := by
  induction c with
  | nil => intro e _; rfl
  | cons p c ih =>
    intro e h
    obtain ⟨i, a⟩ := p
    rw [substSeq_cons, ih _ (fun p hp => h p (List.mem_cons_of_mem _ hp)),
      bound_subst1 v hv i a (bound_of_noPsum a (h (i, a) List.mem_cons_self))]

theorem wfSums_substSeq (v : Variant) (hv : v.sound) (c : List (Sym × Expr)) :
    ∀ e : Expr, wfSums e = true → (∀ p ∈ c, noPsum p.2 = true ∧ ∀ s ∈ syms p.2, s ∉ bound e) →
      wfSums (substSeq v c e) = true := by
  induction c with
  | nil => intro e hw _; exact hw
  | cons p c ih =>
    intro e hw h
    obtain ⟨i, a⟩ := p
    have ha := h (i, a) List.mem_cons_self
    rw [substSeq_cons]
    apply ih
    · exact wfSums_subst1 v hv i a ha.1 e hw ha.2
    · intro p hp
      have := h p (List.mem_cons_of_mem _ hp)
      refine ⟨this.1, ?_⟩
      rw [bound_subst1 v hv i a (bound_of_noPsum a ha.1)]
      exact this.2

theorem wfSumsList_map {α : Type} (l : List α) (f : α → Expr) (h : ∀ a ∈ l, wfSums (f a) = true) :
    wfSumsList (l.map f) = true := by
  induction l with
  | nil => simp [wfSumsList]
  | cons a l ih =>
    simp only [List.map_cons, wfSumsList, Bool.and_eq_true]
    exact ⟨h a List.mem_cons_self, ih (fun a ha => h a (List.mem_cons_of_mem _ ha))⟩

theorem wfSums_evaluate (v : Variant) (hv : v.sound) (b : Expr) (ixs : List Binder)
    (h : wfSums (.psum b ixs) = true) : wfSums (evaluate v (.psum b ixs)) = true := by
  obtain ⟨hnd, _, hnp, hown, hwb⟩ := wfSums_psum h
  simp only [evaluate, wfSums]
  rw [dictOf_nodup ixs hnd]
  apply wfSumsList_map
  intro c hc
  apply wfSums_substSeq v hv c b hwb
  intro p hp
  have := assignments_vals ixs hnp c hc p hp
  exact ⟨this.1, fun s hs => (hown s (this.2 s hs)).2⟩

/-! ### the summands of `evaluate` -/

theorem sum_map_flatMap {α β : Type} (l : List α) (f : α → List β) (g : β → Q) :
    ((l.flatMap f).map g).sum = (l.map (fun a => ((f a).map g).sum)).sum := by
  induction l with
  | nil => simp
  | cons a l ih => simp [List.flatMap_cons, List.map_append, List.sum_append, ih]

/-- every summand of `evaluate`, summed, is the nested finite sum of the summand over the pool
VALUES evaluated in the environment. -/
theorem sum_evaluate_terms (I : Interp) (v : Variant) (hv : v.sound) (ixs : List Binder) :
    ∀ (b : Expr) (ρ : Env), (names ixs).Nodup → noPsumBinders ixs = true →
      (∀ s ∈ symsBinders ixs, s ∉ names ixs ∧ s ∉ bound b) → wfSums b = true →
      ((assignments ixs).map (fun c => eval I (substSeq v c b) ρ)).sum
        = evalSum (evalBinders I ixs ρ) ρ (fun ρ' => eval I b ρ') := by
  induction ixs with
  | nil => intro b ρ _ _ _ _; simp [assignments, substSeq, evalSum, evalBinders]
  | cons p rest ih =>
    intro b ρ hnd hnp hown hwb
    obtain ⟨i, pool⟩ := p
    have hi : i ∉ names rest := by
      rw [names_cons] at hnd; exact (List.nodup_cons.mp hnd).1
    have hrest : (names rest).Nodup := by
      rw [names_cons] at hnd; exact (List.nodup_cons.mp hnd).2
    have hn' : noPsumList pool = true ∧ noPsumBinders rest = true := by simpa [noPsumBinders] using hnp
    have hpoolsyms : ∀ a ∈ pool, ∀ s ∈ syms a, s ≠ i ∧ s ∉ names rest ∧ s ∉ bound b := by
      intro a ha s hs
      have := hown s (by simp only [symsBinders, List.mem_append]; exact Or.inl (symsList_mem pool a s ha hs))
      rw [names_cons] at this
      simp only [List.mem_cons, not_or] at this
      exact ⟨this.1.1, this.1.2, this.2⟩
    have hrestsyms : ∀ s ∈ symsBinders rest, s ∉ names rest ∧ s ∉ bound b := by
      intro s hs
      have := hown s (by simp only [symsBinders, List.mem_append]; exact Or.inr hs)
      rw [names_cons] at this
      simp only [List.mem_cons, not_or] at this
      exact ⟨this.1.2, this.2⟩
    simp only [assignments, evalBinders, evalSum]
    rw [sum_map_flatMap, evalList_eq_map, List.map_map]
    congr 1
    apply List.map_congr_left
    intro a ha
    have hna : noPsum a = true := noPsumList_mem pool a hn'.1 ha
    have hba : bound a = [] := bound_of_noPsum a hna
    rw [List.map_map]
    have : ((fun c => eval I (substSeq v c b) ρ) ∘ fun c => (i, a) :: c)
        = fun c => eval I (substSeq v c (subst1 v i a b)) ρ := by
      funext c; simp [Function.comp, substSeq_cons]
    rw [this, ih (subst1 v i a b) ρ hrest hn'.2
      (by
        intro s hs
        rw [bound_subst1 v hv i a hba]
        exact hrestsyms s hs)
      (wfSums_subst1 v hv i a hna b hwb (fun s hs => (hpoolsyms a ha s hs).2.2))]
    simp only [Function.comp]
    rw [evalSum_upd_of_not_mem _ ρ _ i _ (by rw [names_evalBinders]; exact hi)]
    apply evalSum_congr_agree
    intro ρ' hρ'
    rw [eval_subst1 I v hv i a (wfSums_of_noPsum a hna) b ρ' hwb (fun s hs => (hpoolsyms a ha s hs).2.2)]
    have : eval I a ρ' = eval I a ρ := by
      apply eval_agree I a ρ' ρ (wfSums_of_noPsum a hna)
      intro s hs
      apply hρ' s
      rw [names_evalBinders]
      exact (hpoolsyms a ha s (mem_syms_of_mem_free a s hs)).2.1
    rw [this]

end Ampverif.Lemmas.C18
