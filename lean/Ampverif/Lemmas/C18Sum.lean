/-
Helper lemmas for C18: `PoolSum.evaluate` term by term, `dict(self.indices)`, well-formedness of
nested sums under substitution, coincidence lemma.
-/
import Ampverif.Lemmas.C18Subst

namespace Ampverif.Lemmas.C18
open Ampverif.Model

/-! ### `dict(self.indices)` -/

theorem names_append (a b : List Binder) : names (a ++ b) = names a ++ names b := by
  simp [names]

theorem dictInsert_fresh (d : List Binder) (b : Binder) (h : b.1 ∉ names d) :
    dictInsert d b = d ++ [b] := by
  simp [dictInsert, h]

theorem foldl_dictInsert_nodup (ixs : List Binder) :
    ∀ acc : List Binder, (names (acc ++ ixs)).Nodup → ixs.foldl dictInsert acc = acc ++ ixs := by
  induction ixs with
  | nil => intro acc _; simp
  | cons b rest ih =>
    intro acc h
    have hb : b.1 ∉ names acc := by
      rw [names_append, names_cons] at h
      have := List.nodup_append.mp h
      intro hm
      exact this.2.2 _ hm _ (List.mem_cons_self) rfl
    simp only [List.foldl_cons]
    rw [dictInsert_fresh acc b hb, ih (acc ++ [b]) (by simpa using h)]
    simp

theorem dictOf_nodup (ixs : List Binder) (h : (names ixs).Nodup) : dictOf ixs = ixs := by
  have := foldl_dictInsert_nodup ixs [] (by simpa using h)
  simpa [dictOf] using this

/-! ### the summands of `evaluate` -/

theorem sum_map_flatMap {α β : Type} (l : List α) (f : α → List β) (g : β → Q) :
    ((l.flatMap f).map g).sum = (l.map (fun a => ((f a).map g).sum)).sum := by
  induction l with
  | nil => simp
  | cons a l ih => simp [List.flatMap_cons, List.map_append, List.sum_append, ih]

theorem substSeq_litPairs_cons (v : Variant) (i : Sym) (q : Q) (c : List (Sym × Q)) (b : Expr) :
    substSeq v (litPairs ((i, q) :: c)) b = substSeq v (litPairs c) (subst1 v i (.rat q) b) := by
  simp [litPairs, substSeq]

/-- every summand of `evaluate`, summed, is the nested finite sum of the summand. -/
theorem sum_evaluate_terms (I : Interp) (v : Variant) (hv : v.sound) (ixs : List Binder) :
    ∀ (b : Expr) (ρ : Env), (names ixs).Nodup →
      ((assignments ixs).map (fun c => eval I (substSeq v (litPairs c) b) ρ)).sum
        = evalSum ixs ρ (fun ρ' => eval I b ρ') := by
  induction ixs with
  | nil => intro b ρ _; simp [assignments, litPairs, substSeq, evalSum]
  | cons p rest ih =>
    intro b ρ hnd
    obtain ⟨i, pool⟩ := p
    have hi : i ∉ names rest := by
      rw [names_cons] at hnd; exact (List.nodup_cons.mp hnd).1
    have hrest : (names rest).Nodup := by
      rw [names_cons] at hnd; exact (List.nodup_cons.mp hnd).2
    simp only [assignments, evalSum]
    rw [sum_map_flatMap]
    congr 1
    apply List.map_congr_left
    intro q _
    rw [List.map_map]
    have : ((fun c => eval I (substSeq v (litPairs c) b) ρ) ∘ fun c => (i, q) :: c)
        = fun c => eval I (substSeq v (litPairs c) (subst1 v i (.rat q) b)) ρ := by
      funext c; simp [Function.comp, substSeq_litPairs_cons]
    rw [this, ih (subst1 v i (.rat q) b) ρ hrest, evalSum_upd_of_not_mem rest ρ _ i q hi]
    apply evalSum_congr
    intro ρ'
    exact eval_subst1_lit I v hv i q b ρ'

/-! ### substitution keeps nested sums well-formed -/

mutual
theorem wfSums_subst1_lit (v : Variant) (hv : v.sound) (x : Sym) (q : Q) :
    ∀ e : Expr, wfSums (subst1 v x (.rat q) e) = wfSums e
  | .sym s => by by_cases h : s = x <;> simp [subst1, wfSums, h]
  | .rat r => by simp [subst1, wfSums]
  | .add es => by simp [subst1, wfSums, wfSumsList_subst1_lit v hv x q es]
  | .mul es => by simp [subst1, wfSums, wfSumsList_subst1_lit v hv x q es]
  | .pow b n => by simp [subst1, wfSums, wfSums_subst1_lit v hv x q b]
  | .app f es => by simp [subst1, wfSums, wfSumsList_subst1_lit v hv x q es]
  | .node c es t => by
      have hr : v.getArgsRecursive = false := hv.1
      simp [subst1, wfSums, hr, wfSumsList_subst1_lit v hv x q es]
  | .psum b ixs => by
      have hp : v.poolSumProtectsBound = true := hv.2
      by_cases hx : (names ixs).contains x = true
      · simp only [subst1, hp, hx, if_true]
      · simp only [subst1, hp, hx, if_true]
        simp only [wfSums, wfSums_subst1_lit v hv x q b, if_false, Bool.false_eq_true]
  | .idx f es => by simp [subst1, wfSums, wfSumsList_subst1_lit v hv x q es]
theorem wfSumsList_subst1_lit (v : Variant) (hv : v.sound) (x : Sym) (q : Q) :
    ∀ es : List Expr, wfSumsList (subst1List v x (.rat q) es) = wfSumsList es
  | [] => by simp [subst1List, wfSumsList]
  | e :: es => by
      simp [subst1List, wfSumsList, wfSums_subst1_lit v hv x q e, wfSumsList_subst1_lit v hv x q es]
end

theorem wfSums_substSeq_lit (v : Variant) (hv : v.sound) (c : List (Sym × Q)) :
    ∀ e : Expr, wfSums (substSeq v (litPairs c) e) = wfSums e := by
  induction c with
  | nil => intro e; simp [litPairs, substSeq]
  | cons p c ih =>
    intro e
    obtain ⟨i, q⟩ := p
    rw [substSeq_litPairs_cons, ih, wfSums_subst1_lit v hv]

theorem wfSumsList_map {α : Type} (l : List α) (f : α → Expr) (h : ∀ a ∈ l, wfSums (f a) = true) :
    wfSumsList (l.map f) = true := by
  induction l with
  | nil => simp [wfSumsList]
  | cons a l ih =>
    simp only [List.map_cons, wfSumsList, Bool.and_eq_true]
    exact ⟨h a List.mem_cons_self, ih (fun a ha => h a (List.mem_cons_of_mem _ ha))⟩

theorem wfSums_evaluate (v : Variant) (hv : v.sound) (b : Expr) (ixs : List Binder)
    (h : wfSums (.psum b ixs) = true) : wfSums (evaluate v (.psum b ixs)) = true := by
  have hb : wfSums b = true := by
    simp only [wfSums, Bool.and_eq_true] at h; exact h.2
  simp only [evaluate, wfSums]
  apply wfSumsList_map
  intro c _
  rw [wfSums_substSeq_lit v hv, hb]

/-! ### coincidence: the value depends on the free symbols only -/

theorem evalSum_agree (F : List Sym) (k : Env → Q)
    (hk : ∀ ρ1 ρ2 : Env, (∀ s ∈ F, ρ1 s = ρ2 s) → k ρ1 = k ρ2) (ixs : List Binder) :
    ∀ ρ ρ' : Env, (∀ s ∈ F, s ∉ names ixs → ρ s = ρ' s) → evalSum ixs ρ k = evalSum ixs ρ' k := by
  induction ixs with
  | nil =>
    intro ρ ρ' h
    simp only [evalSum]
    exact hk ρ ρ' (fun s hs => h s hs (by simp [names]))
  | cons p rest ih =>
    intro ρ ρ' h
    obtain ⟨i, pool⟩ := p
    simp only [evalSum]
    congr 1
    apply List.map_congr_left
    intro q _
    apply ih
    intro s hs hsr
    by_cases hsi : s = i
    · subst hsi; simp [upd]
    · rw [upd_other _ _ hsi, upd_other _ _ hsi]
      apply h s hs
      rw [names_cons]
      simp only [List.mem_cons, not_or]
      exact ⟨hsi, hsr⟩

mutual
theorem eval_agree (I : Interp) :
    ∀ (e : Expr) (ρ ρ' : Env), (∀ s ∈ free e, ρ s = ρ' s) → eval I e ρ = eval I e ρ'
  | .sym s, ρ, ρ', h => by simpa [eval] using h s (by simp [free])
  | .rat r, ρ, ρ', _ => by simp [eval]
  | .add es, ρ, ρ', h => by simp only [eval]; rw [evalList_agree I es ρ ρ' (by simpa [free] using h)]
  | .mul es, ρ, ρ', h => by simp only [eval]; rw [evalList_agree I es ρ ρ' (by simpa [free] using h)]
  | .pow b n, ρ, ρ', h => by simp only [eval]; rw [eval_agree I b ρ ρ' (by simpa [free] using h)]
  | .app f es, ρ, ρ', h => by simp only [eval]; rw [evalList_agree I es ρ ρ' (by simpa [free] using h)]
  | .node c es t, ρ, ρ', h => by simp only [eval]; rw [evalList_agree I es ρ ρ' (by simpa [free] using h)]
  | .psum b ixs, ρ, ρ', h => by
      simp only [eval]
      apply evalSum_agree (free b) _ (fun ρ1 ρ2 h12 => eval_agree I b ρ1 ρ2 h12) ixs ρ ρ'
      intro s hs hsn
      apply h s
      simp only [free, List.mem_filter]
      refine ⟨hs, ?_⟩
      simpa using hsn
  | .idx f es, ρ, ρ', h => by simp only [eval]; rw [evalList_agree I es ρ ρ' (by simpa [free] using h)]
theorem evalList_agree (I : Interp) :
    ∀ (es : List Expr) (ρ ρ' : Env), (∀ s ∈ freeList es, ρ s = ρ' s) → evalList I es ρ = evalList I es ρ'
  | [], _, _, _ => by simp [evalList]
  | e :: es, ρ, ρ', h => by
      simp only [evalList]
      rw [eval_agree I e ρ ρ' (fun s hs => h s (by simp [freeList, hs])),
          evalList_agree I es ρ ρ' (fun s hs => h s (by simp [freeList, hs]))]
end

end Ampverif.Lemmas.C18
