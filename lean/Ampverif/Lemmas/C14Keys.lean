/-
Helper lemmas for C14: `subs`/`xreplace` keyed by an arbitrary sub-term (`substT`, `xreplaceT`).
* with symbol keys they are the symbol-keyed `subst1`/`xreplace` (so every theorem about those
  transfers), pool sums with term-valued pools included;
* a key whose head (array symbol, applied function, indexed symbol, folded instance) does not occur
  in a class template is replaced inside the arguments only: substitution lemma for templates.
-/
import Ampverif.Lemmas.C14Unfold

namespace Ampverif.Lemmas.C14
open Ampverif.Model Ampverif.Lemmas.C18

/-! ### symbol keys -/

theorem eqv_sym_right (e : Expr) (x : Sym) :
    Expr.eqv e (.sym x) = (match e with | .sym s => decide (s = x) | _ => false) := by
  cases e <;> simp [Expr.eqv, Expr.eqvWith]

mutual
theorem substT_sym (v : Variant) (hv : v.sound) (x : Sym) (a : Expr) :
    ∀ e : Expr, substT v (.sym x) a e = subst1 v x a e
  | .sym s => by by_cases h : s = x <;> simp [substT, subst1, eqv_sym_right, h]
  | .rat q => by simp [substT, subst1, eqv_sym_right]
  | .add es => by simp [substT, subst1, eqv_sym_right, substTList_sym v hv x a es]
  | .mul es => by simp [substT, subst1, eqv_sym_right, substTList_sym v hv x a es]
  | .pow b n => by simp [substT, subst1, eqv_sym_right, substT_sym v hv x a b]
  | .app f es => by simp [substT, subst1, eqv_sym_right, substTList_sym v hv x a es]
  | .node c es t => by
      have hr : v.getArgsRecursive = false := hv.1
      simp [substT, subst1, eqv_sym_right, hr, substTList_sym v hv x a es]
  | .psum b ixs => by
      have hp : v.poolSumProtectsBound = true := hv.2
      by_cases hx : x ∈ names ixs
      · simp [substT, subst1, eqv_sym_right, hp, symKeyIn, hx]
      · simp [substT, subst1, eqv_sym_right, hp, symKeyIn, hx, substT_sym v hv x a b,
          substTBinders_sym v hv x a ixs]
  | .idx f es => by simp [substT, subst1, eqv_sym_right, substTList_sym v hv x a es]
theorem substTList_sym (v : Variant) (hv : v.sound) (x : Sym) (a : Expr) :
    ∀ es : List Expr, substTList v (.sym x) a es = subst1List v x a es
  | [] => by simp [substTList, subst1List]
  | e :: es => by simp [substTList, subst1List, substT_sym v hv x a e, substTList_sym v hv x a es]
theorem substTBinders_sym (v : Variant) (hv : v.sound) (x : Sym) (a : Expr) :
    ∀ ixs : List (Sym × List Expr), substTBinders v (.sym x) a ixs = subst1Binders v x a ixs
  | [] => by simp [substTBinders, subst1Binders]
  | (i, pool) :: rest => by
      simp [substTBinders, subst1Binders, substTList_sym v hv x a pool, substTBinders_sym v hv x a rest]
end

/-- a replacement map with symbol keys, as a map with term keys. -/
def symKeys (σ : List (Sym × Expr)) : List (Expr × Expr) := σ.map (fun p => (Expr.sym p.1, p.2))

theorem lookupT_symKeys_sym (σ : List (Sym × Expr)) (s : Sym) :
    lookupT (symKeys σ) (.sym s) = lookup σ s := by
  induction σ with
  | nil => simp [symKeys, lookupT, lookup]
  | cons p σ ih =>
    obtain ⟨k, a⟩ := p
    have ih' : lookupT (List.map (fun p => (Expr.sym p.1, p.2)) σ) (.sym s) = lookup σ s := by
      simpa [symKeys] using ih
    by_cases h : s = k <;> simp [symKeys, lookupT, lookup, eqv_sym_right, h, ih']

theorem lookupT_symKeys_other (σ : List (Sym × Expr)) (e : Expr) (he : ∀ s, e ≠ .sym s) :
    lookupT (symKeys σ) e = none := by
  induction σ with
  | nil => simp [symKeys, lookupT]
  | cons p σ ih =>
    obtain ⟨k, a⟩ := p
    have ih' : lookupT (List.map (fun p => (Expr.sym p.1, p.2)) σ) e = none := by simpa [symKeys] using ih
    have : Expr.eqv e (.sym k) = false := by
      rw [eqv_sym_right]
      cases e with
      | sym s => exact absurd rfl (he s)
      | _ => rfl
    simp [symKeys, lookupT, this, ih']

theorem dropBoundKeys_symKeys (ns : List Sym) (σ : List (Sym × Expr)) :
    dropBoundKeys ns (symKeys σ) = symKeys (σ.filter (fun p => !ns.contains p.1)) := by
  unfold dropBoundKeys symKeys
  rw [List.filter_map]
  congr 1

mutual
theorem xreplaceT_symKeys (v : Variant) (hv : v.sound) :
    ∀ (e : Expr) (σ : List (Sym × Expr)), xreplaceT v e (symKeys σ) = xreplace v e σ
  | .sym s, σ => by simp [xreplaceT, xreplace, lookupT_symKeys_sym]
  | .rat q, σ => by simp [xreplaceT, xreplace, lookupT_symKeys_other σ (.rat q) (by intro s h; cases h)]
  | .add es, σ => by
      simp [xreplaceT, xreplace, lookupT_symKeys_other σ (.add es) (by intro s h; cases h),
        xreplaceTList_symKeys v hv es σ]
  | .mul es, σ => by
      simp [xreplaceT, xreplace, lookupT_symKeys_other σ (.mul es) (by intro s h; cases h),
        xreplaceTList_symKeys v hv es σ]
  | .pow b n, σ => by
      simp [xreplaceT, xreplace, lookupT_symKeys_other σ (.pow b n) (by intro s h; cases h),
        xreplaceT_symKeys v hv b σ]
  | .app f es, σ => by
      simp [xreplaceT, xreplace, lookupT_symKeys_other σ (.app f es) (by intro s h; cases h),
        xreplaceTList_symKeys v hv es σ]
  | .node c es t, σ => by
      have hr : v.getArgsRecursive = false := hv.1
      simp [xreplaceT, xreplace, hr, lookupT_symKeys_other σ (.node c es t) (by intro s h; cases h),
        xreplaceTList_symKeys v hv es σ]
  | .psum b ixs, σ => by
      have hp : v.poolSumProtectsBound = true := hv.2
      simp only [xreplaceT, xreplace, hp, if_true, dropBoundKeys_symKeys]
      rw [lookupT_symKeys_other _ (.psum b ixs) (by intro s h; cases h), xreplaceT_symKeys v hv b,
        xreplaceTBinders_symKeys v hv ixs]
      rfl
  | .idx f es, σ => by
      simp [xreplaceT, xreplace, lookupT_symKeys_other σ (.idx f es) (by intro s h; cases h),
        xreplaceTList_symKeys v hv es σ]
theorem xreplaceTList_symKeys (v : Variant) (hv : v.sound) :
    ∀ (es : List Expr) (σ : List (Sym × Expr)), xreplaceTList v es (symKeys σ) = xreplaceList v es σ
  | [], σ => by simp [xreplaceTList, xreplaceList]
  | e :: es, σ => by
      simp [xreplaceTList, xreplaceList, xreplaceT_symKeys v hv e σ, xreplaceTList_symKeys v hv es σ]
theorem xreplaceTBinders_symKeys (v : Variant) (hv : v.sound) :
    ∀ (ixs : List (Sym × List Expr)) (σ : List (Sym × Expr)),
      xreplaceTBinders v ixs (symKeys σ) = xreplaceBinders v ixs σ
  | [], σ => by simp [xreplaceTBinders, xreplaceBinders]
  | (i, pool) :: rest, σ => by
      simp [xreplaceTBinders, xreplaceBinders, xreplaceTList_symKeys v hv pool σ,
        xreplaceTBinders_symKeys v hv rest σ]
end

/-! ### keys with a head: replaced inside the arguments of a template only -/

theorem headOf_of_eqv (e old : Expr) (h : String) (ho : headOf old = some h)
    (he : Expr.eqv e old = true) : headOf e = some h := by
  cases e <;> cases old <;> simp_all [Expr.eqv, Expr.eqvWith, headOf]

theorem eqv_false_of_headOf_none (e old : Expr) (h : String) (ho : headOf old = some h)
    (hn : headOf e = none) : Expr.eqv e old = false := by
  cases hq : Expr.eqv e old with
  | false => rfl
  | true => have := headOf_of_eqv e old h ho hq; rw [hn] at this; cases this

theorem eqv_false_of_head_ne (e old : Expr) (h g : String) (ho : headOf old = some h)
    (hg : headOf e = some g) (hne : g ≠ h) : Expr.eqv e old = false := by
  cases hq : Expr.eqv e old with
  | false => rfl
  | true =>
    have := headOf_of_eqv e old h ho hq
    rw [hg] at this
    exact absurd (Option.some.inj this) hne

theorem substTList_eq_map (v : Variant) (old new : Expr) (es : List Expr) :
    substTList v old new es = es.map (fun e => substT v old new e) := by
  induction es with
  | nil => simp [substTList]
  | cons e es ih => simp [substTList, ih]

mutual
/-- substitution lemma for class templates and term keys: a key whose head does not occur in the
template is replaced in the inserted arguments only. -/
theorem substT_xreplace_template (v : Variant) (hv : v.sound) (old new : Expr) (h : String)
    (ho : headOf old = some h) (π : List (Sym × Expr)) :
    ∀ T : Expr, noPsum T = true → h ∉ heads T →
      substT v old new (xreplace v T π) = xreplace v T (π.map (fun p => (p.1, substT v old new p.2)))
  | .sym s, _, _ => by
      simp only [xreplace]
      rw [lookup_map π (fun e => substT v old new e) s]
      cases lookup π s with
      | some a => simp
      | none => simp [substT, eqv_false_of_headOf_none (.sym s) old h ho rfl]
  | .rat q, _, _ => by simp [xreplace, substT, eqv_false_of_headOf_none (.rat q) old h ho rfl]
  | .add es, hn, hh => by
      simp only [xreplace, substT, eqv_false_of_headOf_none (.add _) old h ho rfl, Bool.false_eq_true, if_false]
      rw [substTList_xreplace_template v hv old new h ho π es (by simpa [noPsum] using hn) (by simpa [heads] using hh)]
  | .mul es, hn, hh => by
      simp only [xreplace, substT, eqv_false_of_headOf_none (.mul _) old h ho rfl, Bool.false_eq_true, if_false]
      rw [substTList_xreplace_template v hv old new h ho π es (by simpa [noPsum] using hn) (by simpa [heads] using hh)]
  | .pow b n, hn, hh => by
      simp only [xreplace, substT, eqv_false_of_headOf_none (.pow _ _) old h ho rfl, Bool.false_eq_true, if_false]
      rw [substT_xreplace_template v hv old new h ho π b (by simpa [noPsum] using hn) (by simpa [heads] using hh)]
  | .app f es, hn, hh => by
      have hh' : ("app:" ++ f) ≠ h ∧ h ∉ headsList es := by
        simp only [heads, List.mem_cons, not_or] at hh; exact ⟨fun e => hh.1 e.symm, hh.2⟩
      simp only [xreplace, substT, eqv_false_of_head_ne (.app f _) old h _ ho rfl hh'.1, Bool.false_eq_true, if_false]
      rw [substTList_xreplace_template v hv old new h ho π es (by simpa [noPsum] using hn) hh'.2]
  | .node c es t, hn, hh => by
      have hr : v.getArgsRecursive = false := hv.1
      have hh' : ("node:" ++ c) ≠ h ∧ h ∉ headsList es := by
        simp only [heads, List.mem_cons, not_or] at hh; exact ⟨fun e => hh.1 e.symm, hh.2⟩
      simp only [xreplace, hr, Bool.false_and, Bool.false_eq_true, if_false, substT,
        eqv_false_of_head_ne (.node c _ t) old h _ ho rfl hh'.1]
      rw [substTList_xreplace_template v hv old new h ho π es (by simpa [noPsum] using hn) hh'.2]
  | .psum b ixs, hn, _ => by simp [noPsum] at hn
  | .idx f es, hn, hh => by
      have hh' : ("idx:" ++ f) ≠ h ∧ h ∉ headsList es := by
        simp only [heads, List.mem_cons, not_or] at hh; exact ⟨fun e => hh.1 e.symm, hh.2⟩
      simp only [xreplace, substT, eqv_false_of_head_ne (.idx f _) old h _ ho rfl hh'.1, Bool.false_eq_true, if_false]
      rw [substTList_xreplace_template v hv old new h ho π es (by simpa [noPsum] using hn) hh'.2]
theorem substTList_xreplace_template (v : Variant) (hv : v.sound) (old new : Expr) (h : String)
    (ho : headOf old = some h) (π : List (Sym × Expr)) :
    ∀ Ts : List Expr, noPsumList Ts = true → h ∉ headsList Ts →
      substTList v old new (xreplaceList v Ts π)
        = xreplaceList v Ts (π.map (fun p => (p.1, substT v old new p.2)))
  | [], _, _ => by simp [xreplaceList, substTList]
  | T :: Ts, hn, hh => by
      have hn' : noPsum T = true ∧ noPsumList Ts = true := by simpa [noPsumList] using hn
      have hh' : h ∉ heads T ∧ h ∉ headsList Ts := by simpa [headsList, not_or] using hh
      simp only [xreplaceList, substTList]
      rw [substT_xreplace_template v hv old new h ho π T hn'.1 hh'.1,
          substTList_xreplace_template v hv old new h ho π Ts hn'.2 hh'.2]
end

end Ampverif.Lemmas.C14
