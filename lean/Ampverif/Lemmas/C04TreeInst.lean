/-
C04, layer (I) for trees — the `RepFamily` that provides the spins 0 and 1: J = 0 trivial, J = 1 the
matrix `U R U†` of `C04Inst.lean` (which IS SymPy's D¹, `sympy_D1_eq`) with integer-indexed entries.
It makes `intensity_rotated` unconditional for every tree whose spins are 0 or 1.
-/
import Ampverif.Lemmas.C04Tree
import Ampverif.Lemmas.C04Inst
namespace Ampverif.Lemmas.C04
open Matrix

theorem projs_two : projs 2 = {-2, 0, 2} := by
  ext m
  simp only [projs, Finset.mem_filter, Finset.mem_Icc, Finset.mem_insert, Finset.mem_singleton]
  constructor
  · rintro ⟨⟨h1, h2⟩, h3⟩
    have h1' : (-2 : ℤ) ≤ m := by simpa using h1
    have h2' : m ≤ 2 := by simpa using h2
    have h3' : (m + 2) % 2 = 0 := by simpa using h3
    omega
  · rintro (rfl | rfl | rfl) <;> simp

/-- doubled projection ↦ row/column of the J = 1 matrix (order m = +1, 0, −1) -/
def toIdx (m : ℤ) : Option (Fin 3) :=
  if m = 2 then some 0 else if m = 0 then some 1 else if m = -2 then some 2 else none

theorem toIdx_none {m : ℤ} (h : m ∉ projs 2) : toIdx m = none := by
  rw [projs_two] at h
  simp only [Finset.mem_insert, Finset.mem_singleton, not_or] at h
  simp [toIdx, h.1, h.2.1, h.2.2]

/-- integer-indexed entries of a 3×3 matrix -/
def ent (M : Matrix (Fin 3) (Fin 3) ℂ) (m m' : ℤ) : ℂ :=
  match toIdx m, toIdx m' with
  | some a, some b => M a b
  | _, _ => 0

theorem sum_projs_two (f : ℤ → ℂ) : ∑ k ∈ projs 2, f k = f (-2) + f 0 + f 2 := by
  rw [projs_two, Finset.sum_insert (by decide), Finset.sum_insert (by decide), Finset.sum_singleton]
  ring

theorem ent_mul (A B : Matrix (Fin 3) (Fin 3) ℂ) (m m' : ℤ) :
    ent (A * B) m m' = ∑ k ∈ projs 2, ent A m k * ent B k m' := by
  rw [sum_projs_two]
  unfold ent
  rcases hm : toIdx m with _ | a <;> rcases hm' : toIdx m' with _ | b <;>
    simp [toIdx, Matrix.mul_apply, Fin.sum_univ_three]
  ring


theorem ent_conjTranspose (M : Matrix (Fin 3) (Fin 3) ℂ) (m m' : ℤ) :
    ent Mᴴ m m' = star (ent M m' m) := by
  unfold ent
  rcases toIdx m with _ | a <;> rcases toIdx m' with _ | b <;> simp [Matrix.conjTranspose_apply]

theorem ent_one (m m' : ℤ) (hm : m ∈ projs 2) (hm' : m' ∈ projs 2) :
    ent (1 : Matrix (Fin 3) (Fin 3) ℂ) m m' = if m = m' then 1 else 0 := by
  rw [projs_two] at hm hm'
  simp only [Finset.mem_insert, Finset.mem_singleton] at hm hm'
  rcases hm with rfl | rfl | rfl <;> rcases hm' with rfl | rfl | rfl <;> simp [ent, toIdx]

theorem ent_none_left (M : Matrix (Fin 3) (Fin 3) ℂ) {m : ℤ} (h : m ∉ projs 2) (m' : ℤ) :
    ent M m m' = 0 := by
  unfold ent; rw [toIdx_none h]

theorem ent_none_right (M : Matrix (Fin 3) (Fin 3) ℂ) (m : ℤ) {m' : ℤ} (h : m' ∉ projs 2) :
    ent M m m' = 0 := by
  unfold ent; rw [toIdx_none h]; rcases toIdx m <;> rfl

theorem ent_diag (δ : ℝ) (m m' : ℤ) (hm : m ∈ projs 2) (hm' : m' ∈ projs 2) :
    ent (W1.D (Rz3 δ)) m m' = if m = m' then eI (-((m : ℝ) / 2 * δ)) else 0 := by
  rw [W1.diag]
  rw [projs_two] at hm hm'
  simp only [Finset.mem_insert, Finset.mem_singleton] at hm hm'
  rcases hm with rfl | rfl | rfl <;> rcases hm' with rfl | rfl | rfl <;>
    simp [ent, toIdx, eI, W1, wt1]

/-- entries of the family with spins 0 and 1 -/
noncomputable def D01 (j : ℕ) (R : Matrix (Fin 3) (Fin 3) ℝ) (m m' : ℤ) : ℂ :=
  if j = 0 then (if m = 0 ∧ m' = 0 then 1 else 0) else if j = 2 then ent (W1.D R) m m' else 0

theorem D01_two (R : Matrix (Fin 3) (Fin 3) ℝ) (m m' : ℤ) : D01 2 R m m' = ent (W1.D R) m m' := by
  simp [D01]

/-- the family providing J = 0 and J = 1 (J = 1 is `U R U†`, which IS SymPy's D¹) -/
noncomputable def F01 : RepFamily where
  ok j := j = 0 ∨ j = 2
  D := D01
  support := by
    intro j R m m' h
    unfold D01
    by_cases h0 : j = 0
    · subst h0
      rw [projs_zero] at h
      simp only [Finset.mem_singleton] at h
      simp only [if_true]
      rcases h with h | h <;> simp [h]
    · by_cases h2 : j = 2
      · subst h2
        simp only [h0, if_false, if_true]
        rcases h with h | h
        · exact ent_none_left _ h _
        · exact ent_none_right _ _ h
      · simp [h0, h2]
  mul := by
    rintro j (rfl | rfl) R S hR hS m m'
    · simp only [D01, if_true, projs_zero, Finset.sum_singleton]
      by_cases hm : m = 0 <;> by_cases hm' : m' = 0 <;> simp [hm, hm']
    · simp only [D01_two]
      rw [W1.mul R S hR hS, ent_mul]
  unitary := by
    rintro j (rfl | rfl) R hR m hm m' hm'
    · rw [projs_zero] at hm hm' ⊢
      simp only [Finset.mem_singleton] at hm hm'
      subst hm hm'
      simp [D01]
    · simp only [D01_two]
      have : ∀ k, star (ent (W1.D R) k m) * ent (W1.D R) k m' = ent (W1.D R)ᴴ m k * ent (W1.D R) k m' := by
        intro k; rw [ent_conjTranspose]
      rw [Finset.sum_congr rfl fun k _ => this k, ← ent_mul, W1.unitary R hR, ent_one m m' hm hm']
  diag := by
    rintro j (rfl | rfl) δ m hm m' hm'
    · rw [projs_zero] at hm hm'
      simp only [Finset.mem_singleton] at hm hm'
      subst hm hm'
      simp [D01, eI]
    · simp only [D01_two]
      exact ent_diag δ m m' hm hm'
  scalar := by intro R _; simp [D01]

end Ampverif.Lemmas.C04
