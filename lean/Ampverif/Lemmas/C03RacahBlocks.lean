/-
C03 — Racah's closed formula equals the REGENERATED SymPy Clebsch–Gordan table on every admissible
key with `2j₁, 2j₂ ≤ 6` (per-block kernel evaluations in `C03RacahBlocks<2j₁>.lean`). Keys that are
absent from the table read as 0 there, and Racah's formula gives 0 too. If SymPy's table or the
formula changes, these lemmas break.
-/
import Ampverif.Lemmas.C03RacahBlocks0
import Ampverif.Lemmas.C03RacahBlocks1
import Ampverif.Lemmas.C03RacahBlocks2
import Ampverif.Lemmas.C03RacahBlocks3
import Ampverif.Lemmas.C03RacahBlocks4
import Ampverif.Lemmas.C03RacahBlocks5
import Ampverif.Lemmas.C03RacahBlocks6
import Mathlib.Tactic.IntervalCases

namespace Ampverif.Lemmas.C03RacahBlocks
open Ampverif.Model.C03CG Ampverif.Lemmas.C03CG Ampverif.Gen.C03CG

theorem racah_all_blocks (j1 j2 : Nat) (h1 : j1 ≤ maxSpin2) (h2 : j2 ≤ maxSpin2) :
    blockIsRacah table j1 j2 = true := by
  unfold maxSpin2 at h1 h2
  interval_cases j1 <;> interval_cases j2
  · exact racah_0_0
  · exact racah_0_1
  · exact racah_0_2
  · exact racah_0_3
  · exact racah_0_4
  · exact racah_0_5
  · exact racah_0_6
  · exact racah_1_0
  · exact racah_1_1
  · exact racah_1_2
  · exact racah_1_3
  · exact racah_1_4
  · exact racah_1_5
  · exact racah_1_6
  · exact racah_2_0
  · exact racah_2_1
  · exact racah_2_2
  · exact racah_2_3
  · exact racah_2_4
  · exact racah_2_5
  · exact racah_2_6
  · exact racah_3_0
  · exact racah_3_1
  · exact racah_3_2
  · exact racah_3_3
  · exact racah_3_4
  · exact racah_3_5
  · exact racah_3_6
  · exact racah_4_0
  · exact racah_4_1
  · exact racah_4_2
  · exact racah_4_3
  · exact racah_4_4
  · exact racah_4_5
  · exact racah_4_6
  · exact racah_5_0
  · exact racah_5_1
  · exact racah_5_2
  · exact racah_5_3
  · exact racah_5_4
  · exact racah_5_5
  · exact racah_5_6
  · exact racah_6_0
  · exact racah_6_1
  · exact racah_6_2
  · exact racah_6_3
  · exact racah_6_4
  · exact racah_6_5
  · exact racah_6_6

/-- **Racah's formula = SymPy's table** on every admissible key within the table's spin bound:
`m₁ = 2a − j₁ (a ≤ j₁)`, `m₂ = 2b − j₂ (b ≤ j₂)`, `J = |j₁−j₂| + 2c (c ≤ min j₁ j₂)`, `M = m₁+m₂`
(all doubled). -/
theorem racah_eq_table (j1 j2 a b c : Nat) (h1 : j1 ≤ maxSpin2) (h2 : j2 ≤ maxSpin2)
    (ha : a ≤ j1) (hb : b ≤ j2) (hc : c ≤ min j1 j2) :
    racah j1 (2 * (a : Int) - j1) j2 (2 * (b : Int) - j2) ((max j1 j2 - min j1 j2) + 2 * c)
        ((2 * (a : Int) - j1) + (2 * (b : Int) - j2))
      = cg table j1 (2 * (a : Int) - j1) j2 (2 * (b : Int) - j2) ((max j1 j2 - min j1 j2) + 2 * c)
          ((2 * (a : Int) - j1) + (2 * (b : Int) - j2)) := by
  have hall := racah_all_blocks j1 j2 h1 h2
  unfold blockIsRacah at hall
  rw [List.all_eq_true] at hall
  have hmem : (⟨j1, 2 * (a : Int) - j1, j2, 2 * (b : Int) - j2, (max j1 j2 - min j1 j2) + 2 * c,
      (2 * (a : Int) - j1) + (2 * (b : Int) - j2)⟩ : Key) ∈ validKeys j1 j2 := by
    unfold validKeys
    exact List.mem_flatMap.mpr ⟨a, List.mem_range.mpr (Nat.lt_succ_of_le ha),
      List.mem_flatMap.mpr ⟨b, List.mem_range.mpr (Nat.lt_succ_of_le hb),
        List.mem_map.mpr ⟨c, List.mem_range.mpr (Nat.lt_succ_of_le hc), rfl⟩⟩⟩
  exact racah_eq_val _ _ (hall _ hmem)

end Ampverif.Lemmas.C03RacahBlocks
