/-
Lemmas for the C13 selector model: dictionary updates, one assignment step, the fold over a history,
consistency of last-writer-wins collections.
-/
import Ampverif.Model.C13Selector
import Ampverif.Lemmas.C01Lists

namespace Ampverif.Model.C13
open Ampverif.Model.C01

theorem dictGet?_dictSet_eq {κ ν} [DecidableEq κ] (k : κ) (v : ν) (d : List (κ × ν)) :
    dictGet? k (dictSet k v d) = some v := by
  induction d with
  | nil => simp [dictSet, dictGet?]
  | cons kv rest ih =>
    obtain ⟨k0, v0⟩ := kv
    simp only [dictSet]
    split
    · simp [dictGet?]
    · rename_i hne
      simp [dictGet?, hne, ih]

theorem dictGet?_dictSet_ne {κ ν} [DecidableEq κ] (k k' : κ) (v : ν) (d : List (κ × ν)) (h : k' ≠ k) :
    dictGet? k (dictSet k' v d) = dictGet? k d := by
  induction d with
  | nil => simp [dictSet, dictGet?, h]
  | cons kv rest ih =>
    obtain ⟨k0, v0⟩ := kv
    simp only [dictSet]
    split
    · rename_i hk
      subst hk
      simp [dictGet?, h]
    · simp only [dictGet?]
      split
      · rfl
      · exact ih

theorem choice_init (ds : List Decay) (d : Decay) :
    choice (init ds) d = if d ∈ ds then some nonDynamic else none := by
  unfold init choice
  suffices h : ∀ (m : Choices), dictGet? d (ds.foldl (fun m d => dictSet d nonDynamic m) m)
      = if d ∈ ds then some nonDynamic else dictGet? d m by
    simpa [dictGet?] using h []
  induction ds with
  | nil => intro m; simp
  | cons x xs ih =>
    intro m
    simp only [List.foldl_cons, List.mem_cons]
    rw [ih]
    by_cases hx : d ∈ xs
    · simp [hx]
    · by_cases hdx : d = x
      · subst hdx; simp [hx, dictGet?_dictSet_eq]
      · have : x ≠ d := fun h => hdx h.symm
        simp [hx, hdx, dictGet?_dictSet_ne _ _ _ _ this]

theorem dictGet?_setByName (ctx : Ctx) (s : Name) (b : BuilderId) (m : Choices) (d : Decay) :
    dictGet? d (setByName ctx s b m)
      = (dictGet? d m).map (fun cur => if ctx.pname d.1.pidx = s then b else cur) := by
  induction m with
  | nil => simp [setByName, dictGet?]
  | cons kv rest ih =>
    obtain ⟨k0, v0⟩ := kv
    simp only [setByName, List.map_cons] at ih ⊢
    by_cases hk : k0 = d
    · subst hk
      by_cases hn : ctx.pname k0.1.pidx = s <;> simp [dictGet?, hn]
    · by_cases hn : ctx.pname k0.1.pidx = s <;> simp [dictGet?, hn, hk, ih]

/-- one assignment, seen from a decay that is a key -/
theorem choice_assign_present (ctx : Ctx) (m : Choices) (op : Op) (d : Decay) (cur : BuilderId)
    (h : choice m d = some cur) :
    choice (assign ctx m op) d = some (if denotes ctx op.sel d then op.b else cur) := by
  unfold choice at *
  unfold assign denotes
  cases hsel : op.sel with
  | byName s => simp [dictGet?_setByName, h]
  | byParticle p => simp [dictGet?_setByName, h]
  | byDecay d' =>
    by_cases hd : d' = d
    · subst hd; simp [dictGet?_dictSet_eq]
    · simp [hd, dictGet?_dictSet_ne _ _ _ _ hd, h]
  | byNode t n =>
    simp only
    split
    · rename_i d' hda
      by_cases hd : d' = d
      · subst hd; simp [dictGet?_dictSet_eq, hda]
      · simp [hda, hd, dictGet?_dictSet_ne _ _ _ _ hd, h]
    · rename_i hda; simp [hda, h]
  | unsupported => simp [h]

/-- a decay that is not a key only becomes one by a direct selection -/
theorem choice_assign_absent (ctx : Ctx) (m : Choices) (op : Op) (d : Decay)
    (h : choice m d = none)
    (hdirect : ∀ d', (op.sel = .byDecay d' ∨ ∃ t n, op.sel = .byNode t n ∧ ctx.decayAt t n = some d') → d' ≠ d) :
    choice (assign ctx m op) d = none := by
  unfold choice at *
  unfold assign
  cases hsel : op.sel with
  | byName s => simp [dictGet?_setByName, h]
  | byParticle p => simp [dictGet?_setByName, h]
  | byDecay d' =>
    have hd := hdirect d' (Or.inl hsel)
    simp [dictGet?_dictSet_ne _ _ _ _ hd, h]
  | byNode t n =>
    simp only
    split
    · rename_i d' hda
      have hd := hdirect d' (Or.inr ⟨t, n, hsel, hda⟩)
      simp [dictGet?_dictSet_ne _ _ _ _ hd, h]
    · exact h
  | unsupported => simp [h]

theorem choice_fold_present (ctx : Ctx) (ops : List Op) (d : Decay) :
    ∀ (m : Choices) (cur : BuilderId), choice m d = some cur →
      choice (ops.foldl (assign ctx) m) d = some ((lastDenoting ctx ops d).getD cur) := by
  induction ops with
  | nil => intro m cur h; simpa [lastDenoting] using h
  | cons op rest ih =>
    intro m cur h
    simp only [List.foldl_cons]
    rw [ih _ _ (choice_assign_present ctx m op d cur h)]
    simp only [lastDenoting]
    cases lastDenoting ctx rest d with
    | some b => simp
    | none => by_cases hden : denotes ctx op.sel d = true <;> simp [hden]

/-! ### last writer wins -/

theorem collect_get_aux (ws : List (Name × Val)) :
    ∀ (d0 : List (Name × Val)) (k : Name) (v : Val),
      dictGet? k (ws.foldl (fun d kv => dictSet kv.1 kv.2 d) d0) = some v →
        (k, v) ∈ ws ∨ dictGet? k d0 = some v := by
  induction ws with
  | nil => intro d0 k v h; right; simpa using h
  | cons w ws ih =>
    intro d0 k v h
    simp only [List.foldl_cons] at h
    rcases ih _ _ _ h with h1 | h1
    · left; exact List.mem_cons_of_mem _ h1
    · by_cases hk : w.1 = k
      · subst hk
        rw [dictGet?_dictSet_eq] at h1
        cases h1
        left; simp
      · rw [dictGet?_dictSet_ne _ _ _ _ hk] at h1
        right; exact h1

theorem collect_has_aux (ws : List (Name × Val)) :
    ∀ (d0 : List (Name × Val)) (k : Name), (dictHas k d0 = true ∨ ∃ v, (k, v) ∈ ws) →
      dictHas k (ws.foldl (fun d kv => dictSet kv.1 kv.2 d) d0) = true := by
  induction ws with
  | nil =>
    intro d0 k h
    rcases h with h | ⟨v, h⟩
    · simpa using h
    · cases h
  | cons w ws ih =>
    intro d0 k h
    simp only [List.foldl_cons]
    apply ih
    rcases h with h | ⟨v, h⟩
    · left
      unfold dictHas at *
      by_cases hk : w.1 = k
      · subst hk; simp [dictGet?_dictSet_eq]
      · rw [dictGet?_dictSet_ne _ _ _ _ hk]; exact h
    · rcases List.mem_cons.1 h with h | h
      · left
        cases h
        unfold dictHas
        simp [dictGet?_dictSet_eq]
      · right; exact ⟨v, h⟩

/-- if equal names always come with equal values, the collected default of a name is the value of ANY of its writers -/
theorem collect_consistent (ws : List (Name × Val))
    (hcons : ∀ a ∈ ws, ∀ b ∈ ws, a.1 = b.1 → a.2 = b.2) :
    ∀ kv ∈ ws, dictGet? kv.1 (collect ws) = some kv.2 := by
  intro kv hkv
  have hhas := collect_has_aux ws [] kv.1 (Or.inr ⟨kv.2, hkv⟩)
  unfold collect
  unfold dictHas at hhas
  cases hget : dictGet? kv.1 (ws.foldl (fun d kv => dictSet kv.1 kv.2 d) []) with
  | none => simp [hget] at hhas
  | some v =>
    rcases collect_get_aux ws [] kv.1 v hget with h | h
    · have := hcons (kv.1, v) h kv hkv rfl
      simp only at this
      rw [this]
    · simp [dictGet?] at h

theorem chain_decay_mem (r : Reaction) (t : Transition) (ht : t ∈ r.transitions) (ch : Chain) (hch : ch ∈ t.chains)
    (ni : NodeInfo) (hni : ni ∈ (r.tree ch.topo).infos) :
    dkey ch.states t.inters ni ∈ initialDecays true r := by
  simp only [initialDecays, if_true, chainDecays, List.mem_flatMap, List.mem_map]
  exact ⟨t, ht, ch, hch, ni, hni, rfl⟩

theorem resName_inj (p q : Particle) :
    (resMass p = resMass q → p.ident = q.ident) ∧ (resWidth p = resWidth q → p.ident = q.ident) := by
  constructor
  · intro h
    simp only [resMass, List.cons_append, List.nil_append, List.cons.injEq, true_and] at h
    exact List.append_cancel_right h
  · intro h
    simp only [resWidth, List.cons_append, List.nil_append, List.cons.injEq, true_and] at h
    exact List.append_cancel_right h

theorem builderDefaults_shape (one : Val) (k : Kind) (p : Particle) (pi : PInfo) (a : Name × Val)
    (h : a ∈ builderDefaults one k p pi) :
    a = (resMass p, pi.mass) ∨ a = (resWidth p, pi.width) ∨ a = (resRadius p, one) ∨ a = (customPar p, one) := by
  cases k <;> simp [builderDefaults] at h
  · rcases h with h | h <;> simp [h]
  · rcases h with h | h | h <;> simp [h]
  · simp [h]
  · simp [h]

end Ampverif.Model.C13
