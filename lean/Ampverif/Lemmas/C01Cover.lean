/-
C01: name classes are disjoint; every kinematic symbol a chain uses is registered by the
adapter for that topology; classification of the symbols of a chain.
-/
import Ampverif.Lemmas.C01Lists

namespace Ampverif.Model.C01

/-! ### name classes -/

theorem classes_disjoint (n : Name) : ¬ (isParamName n = true ∧ isKinName n = true) := by
  intro ⟨h1, h2⟩
  unfold isParamName at h1
  unfold isKinName at h2
  split at h1 <;> split at h2 <;> simp_all [isDigit] <;> omega

theorem phiSym_isKin (c : Tree) (anc : List Name) : isKinName (phiSym c anc) = true := by
  simp [phiSym, suffixOf, isKinName]

theorem thetaSym_isKin (c : Tree) (anc : List Name) : isKinName (thetaSym c anc) = true := by
  simp [thetaSym, suffixOf, isKinName]

/-! ### trees -/

theorem leaves_ne_nil (t : Tree) : t.leaves ≠ [] := by
  induction t with
  | leaf e => simp [Tree.leaves]
  | node e n l r ihl _ => simp [Tree.leaves, ihl]

theorem leaves_nonneg (t : Tree) (h : t.wf = true) : ∀ i ∈ t.leaves, 0 ≤ i := by
  induction t with
  | leaf e => simp [Tree.leaves, Tree.wf] at *; exact h
  | node e n l r ihl ihr =>
    simp only [Tree.wf, Bool.and_eq_true] at h
    intro i hi
    simp only [Tree.leaves, List.mem_append] at hi
    rcases hi with hi | hi
    · exact ihl h.1.1 i hi
    · exact ihr h.1.2 i hi

theorem label_head (t : Tree) (h : t.wf = true) : ∃ c rest, label t = c :: rest ∧ isDigit c = true := by
  apply digitsOf_head
  · exact sortBy_ne_nil _ _ (leaves_ne_nil t)
  · intro i hi
    exact leaves_nonneg t h i ((mem_sortBy _ _ _).1 hi)

theorem massSym_isKin (t : Tree) (h : t.wf = true) : isKinName (massSym t) = true := by
  obtain ⟨c, rest, hc, hd⟩ := label_head t h
  simp [massSym, hc, isKinName, hd]

theorem subtrees_wf (t : Tree) (h : t.wf = true) : ∀ s ∈ t.subtrees, s.wf = true := by
  induction t with
  | leaf e => intro s hs; simp [Tree.subtrees] at hs; subst hs; exact h
  | node e n l r ihl ihr =>
    intro s hs
    simp only [Tree.subtrees, List.mem_cons, List.mem_append] at hs
    have h' := h
    simp only [Tree.wf, Bool.and_eq_true] at h'
    rcases hs with hs | hs | hs
    · subst hs; exact h
    · exact ihl h'.1.1 s hs
    · exact ihr h'.1.2 s hs

theorem self_mem_subtrees (t : Tree) : t ∈ t.subtrees := by
  cases t <;> simp [Tree.subtrees]

/-- structural facts about every node record of a tree -/
theorem nodeInfos_spec (t : Tree) (b : Bool) (anc : List Name) :
    ∀ ni ∈ nodeInfos t b anc,
      ni.self ∈ t.subtrees ∧ ni.l ∈ t.subtrees ∧ ni.r ∈ t.subtrees ∧
      ni.self = Tree.node ni.self.edge ni.nid ni.l ni.r := by
  induction t generalizing b anc with
  | leaf e => intro ni h; simp [nodeInfos] at h
  | node e n l r ihl ihr =>
    intro ni h
    simp only [nodeInfos, List.mem_cons, List.mem_append] at h
    rcases h with h | h | h
    · subst h
      refine ⟨by simp [Tree.subtrees], ?_, ?_, by simp [Tree.edge]⟩
      · simp only [Tree.subtrees, List.mem_cons, List.mem_append]; right; left; exact self_mem_subtrees l
      · simp only [Tree.subtrees, List.mem_cons, List.mem_append]; right; right; exact self_mem_subtrees r
    · obtain ⟨h1, h2, h3, h4⟩ := ihl _ _ ni h
      refine ⟨?_, ?_, ?_, h4⟩ <;> (simp only [Tree.subtrees, List.mem_cons, List.mem_append]; right; left; assumption)
    · obtain ⟨h1, h2, h3, h4⟩ := ihr _ _ ni h
      refine ⟨?_, ?_, ?_, h4⟩ <;> (simp only [Tree.subtrees, List.mem_cons, List.mem_append]; right; right; assumption)

theorem lexLtInt_trichotomy (a b : List Int) (h : a ≠ b) : lexLtInt a b = !lexLtInt b a := by
  induction a generalizing b with
  | nil =>
    cases b with
    | nil => exact absurd rfl h
    | cons y ys => simp [lexLtInt]
  | cons x xs ih =>
    cases b with
    | nil => simp [lexLtInt]
    | cons y ys =>
      simp only [lexLtInt]
      by_cases h1 : x < y
      · have : ¬ y < x := by omega
        simp [h1, this]
      · by_cases h2 : y < x
        · simp [h1, h2]
        · have hxy : x = y := by omega
          subst hxy
          simp only [h1, if_false]
          exact ih ys (by intro hc; exact h (by rw [hc]))

theorem infos_distinct (t : Tree) (h : t.wf = true) (ni : NodeInfo) (hni : ni ∈ t.infos) :
    attached ni.l ≠ attached ni.r := by
  obtain ⟨h1, _, _, h4⟩ := nodeInfos_spec t true [] ni hni
  have hw := subtrees_wf t h _ h1
  rw [h4] at hw
  simp only [Tree.wf, Bool.and_eq_true, decide_eq_true_eq] at hw
  exact hw.2

theorem c1_mem_walkStates (ni : NodeInfo) (h : attached ni.l ≠ attached ni.r) : ni.c1 ∈ ni.walkStates := by
  unfold NodeInfo.walkStates NodeInfo.c1
  by_cases hl : ni.l.isLeaf = true
  · by_cases hr : ni.r.isLeaf = true
    · simp [hl, hr]
    · have hopp : opposite ni.r ni.l = !opposite ni.l ni.r := by
        unfold opposite
        exact lexLtInt_trichotomy _ _ h
      simp only [hl, hr, Bool.and_false, Bool.false_eq_true, if_false, if_true, List.nil_append, List.append_nil,
        List.mem_singleton, hopp]
      cases opposite ni.l ni.r <;> simp
  · simp [hl]

theorem c1_cases (ni : NodeInfo) : ni.c1 = ni.l ∨ ni.c1 = ni.r := by
  unfold NodeInfo.c1; split <;> simp

theorem c2_cases (ni : NodeInfo) : ni.c2 = ni.l ∨ ni.c2 = ni.r := by
  unfold NodeInfo.c2; split <;> simp

/-- coverage: the adapter registers every kinematic symbol that a node of this tree uses -/
theorem kinSyms_registered (t : Tree) (h : t.wf = true) (ni : NodeInfo) (hni : ni ∈ t.infos) :
    ∀ s ∈ ni.kinSyms, s ∈ adapterKeysOf t := by
  have hd := infos_distinct t h ni hni
  have hw := c1_mem_walkStates ni hd
  obtain ⟨h1, h2, h3, _⟩ := nodeInfos_spec t true [] ni hni
  have hc1 : ni.c1 ∈ t.subtrees := by rcases c1_cases ni with e | e <;> rw [e] <;> assumption
  have hc2 : ni.c2 ∈ t.subtrees := by rcases c2_cases ni with e | e <;> rw [e] <;> assumption
  intro s hs
  simp only [NodeInfo.kinSyms, List.mem_cons, List.mem_nil_iff, or_false] at hs
  simp only [adapterKeysOf, List.mem_append]
  rcases hs with hs | hs | hs | hs | hs
  · left
    simp only [adapterAngles, List.mem_flatMap]
    exact ⟨ni, hni, ni.c1, hw, by simp [hs]⟩
  · left
    simp only [adapterAngles, List.mem_flatMap]
    exact ⟨ni, hni, ni.c1, hw, by simp [hs]⟩
  · right; simp only [adapterMasses, List.mem_map]; exact ⟨_, h1, hs.symm⟩
  · right; simp only [adapterMasses, List.mem_map]; exact ⟨_, hc1, hs.symm⟩
  · right; simp only [adapterMasses, List.mem_map]; exact ⟨_, hc2, hs.symm⟩

/-- every key the adapter produces for a well-formed tree is in the kinematic-variable name class -/
theorem adapterKeysOf_isKin (t : Tree) (h : t.wf = true) : ∀ k ∈ adapterKeysOf t, isKinName k = true := by
  intro k hk
  simp only [adapterKeysOf, List.mem_append, adapterAngles, adapterMasses, List.mem_flatMap, List.mem_map] at hk
  rcases hk with ⟨ni, _, s, _, hs⟩ | ⟨s, hs, rfl⟩
  · simp only [List.mem_cons, List.mem_nil_iff, or_false] at hs
    rcases hs with rfl | rfl
    · exact phiSym_isKin _ _
    · exact thetaSym_isKin _ _
  · exact massSym_isKin s (subtrees_wf t h s hs)

end Ampverif.Model.C01
