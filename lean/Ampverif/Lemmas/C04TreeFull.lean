/-
C04, layer (A), arbitrary trees with final states of any provided spin: `amp_rotated_phase` is the
transformation law with a unit phase per final-state helicity configuration, `intensity_rotated_single`
the single-topology intensity, `intensity_rotated_full` the full tree statement (several topologies
with spinless final states, or one topology with any final-state spins).
-/
import Ampverif.Lemmas.C04Tree
namespace Ampverif.Lemmas.C04
open Matrix

def Tree.isLeaf : Tree → Prop
  | .leaf _ _ => True
  | .node _ _ _ _ => False

theorem normSq_eI (x : ℝ) : Complex.normSq (eI x) = 1 := by
  rw [eI, Complex.normSq_eq_norm_sq, Complex.norm_exp_ofReal_mul_I]; norm_num

theorem Tree.ok_twoSpin (F : RepFamily) : ∀ t : Tree, t.spinsOk F → F.ok t.twoSpin
  | .leaf _ _, h => h
  | .node _ _ _ _, h => h.1

/-- transformation law with final-state spins: a unit phase per final-state helicity
configuration (`R` must be a rotation about z when the tree is a bare leaf). -/
theorem amp_rotated_phase (F : RepFamily) : ∀ (t : Tree), t.spinsOk F →
    ∀ (R : Matrix (Fin 3) (Fin 3) ℝ) (f f' : Frames), IsRot R → Rotated R f f' →
    (t.isLeaf → ∃ δ : ℝ, R = Rz3 δ) →
    ∃ Φ : ℂ, Complex.normSq Φ = 1 ∧ ∀ m ∈ projs t.twoSpin,
      amp F t f' m = Φ * ∑ m' ∈ projs t.twoSpin, star (F.D t.twoSpin R m m') * amp F t f m' := by
  intro t
  induction t with
  | leaf j l =>
    intro hok R f f' hR _ hz
    obtain ⟨δ, rfl⟩ := hz trivial
    simp only [Tree.spinsOk] at hok
    simp only [Tree.twoSpin, amp]
    by_cases hl : l ∈ projs j
    · refine ⟨eI (-((l : ℝ) / 2 * δ)), normSq_eI _, fun m hm => ?_⟩
      rw [Finset.sum_eq_single l]
      · rw [F.Rz_entry j hok δ m l hm hl]
        by_cases hml : m = l
        · subst hml
          simp only [if_true, mul_one, star_eI, neg_neg]
          rw [eI_add, neg_add_cancel, eI_zero]
        · simp [hml]
      · intro k _ hk; simp [hk]
      · intro h; exact absurd hl h
    · refine ⟨1, by simp, fun m hm => ?_⟩
      have hml : m ≠ l := fun h => hl (h ▸ hm)
      rw [if_neg hml, one_mul]
      symm
      apply Finset.sum_eq_zero
      intro k hk
      have : k ≠ l := fun h => hl (h ▸ hk)
      simp [this]
  | node j H c₁ c₂ ih₁ ih₂ =>
    intro hi R f f' hR hrot _
    obtain ⟨hj, hi₁, hi₂⟩ := hi
    cases hrot with
    | leaf => exact ⟨1, by simp, fun m _ => by simp [amp]⟩
    | node _ h f₁ f₂ f₁' f₂' δ hh hr₁ hr₂ =>
      obtain ⟨Φ₁, hΦ₁, e₁⟩ := ih₁ hi₁ (Rz3 δ) f₁ f₁' (Rz3_isRot δ) hr₁ (fun _ => ⟨δ, rfl⟩)
      obtain ⟨Φ₂, hΦ₂, e₂⟩ := ih₂ hi₂ (Rz3 (-δ)) f₂ f₂' (Rz3_isRot _) hr₂ (fun _ => ⟨-δ, rfl⟩)
      refine ⟨Φ₁ * Φ₂, by rw [Complex.normSq_mul, hΦ₁, hΦ₂, one_mul], fun m hm => ?_⟩
      simp only [Tree.twoSpin] at hm ⊢
      have he₁ := Tree.ok_twoSpin F c₁ hi₁
      have he₂ := Tree.ok_twoSpin F c₂ hi₂
      have hc₁ : ∀ l ∈ projs c₁.twoSpin, amp F c₁ f₁' l = Φ₁ * (eI ((l : ℝ) / 2 * δ) * amp F c₁ f₁ l) := by
        intro l hl
        rw [e₁ l hl, Finset.sum_eq_single l]
        · rw [F.Rz_entry _ he₁ δ l l hl hl, if_pos rfl, star_eI, neg_neg]
        · intro k hk hne
          rw [F.Rz_entry _ he₁ δ l k hl hk, if_neg (Ne.symm hne), star_zero, zero_mul]
        · intro h; exact absurd hl h
      have hc₂ : ∀ l ∈ projs c₂.twoSpin, amp F c₂ f₂' l = Φ₂ * (eI (-((l : ℝ) / 2 * δ)) * amp F c₂ f₂ l) := by
        intro l hl
        rw [e₂ l hl, Finset.sum_eq_single l]
        · rw [F.Rz_entry _ he₂ (-δ) l l hl hl, if_pos rfl, star_eI]
          congr 3; ring
        · intro k hk hne
          rw [F.Rz_entry _ he₂ (-δ) l k hl hk, if_neg (Ne.symm hne), star_zero, zero_mul]
        · intro h; exact absurd hl h
      have hD : ∀ μ : ℤ, F.D j (R * h * Rz3 (-δ)) m μ
          = (∑ m' ∈ projs j, F.D j R m m' * F.D j h m' μ) * eI ((μ : ℝ) / 2 * δ) := by
        intro μ
        rw [F.mul_Rz j hj (R * h) (hR.mul hh) (-δ) m μ, F.mul j hj R h hR hh]
        congr 2; ring
      simp only [amp]
      have key : ∀ l₁ ∈ projs c₁.twoSpin, ∀ l₂ ∈ projs c₂.twoSpin,
          star (F.D j (R * h * Rz3 (-δ)) m (l₁ - l₂)) * H l₁ l₂ * amp F c₁ f₁' l₁ * amp F c₂ f₂' l₂
          = ∑ m' ∈ projs j, (Φ₁ * Φ₂) * (star (F.D j R m m')
              * (star (F.D j h m' (l₁ - l₂)) * H l₁ l₂ * amp F c₁ f₁ l₁ * amp F c₂ f₂ l₂)) := by
        intro l₁ h₁ l₂ h₂
        rw [hD, hc₁ l₁ h₁, hc₂ l₂ h₂, star_mul', star_eI, star_sum]
        have hp : eI (-(((l₁ - l₂ : ℤ) : ℝ) / 2 * δ)) * eI ((l₁ : ℝ) / 2 * δ) * eI (-((l₂ : ℝ) / 2 * δ)) = 1 := by
          rw [eI_add, eI_add, ← eI_zero]; congr 1; push_cast; ring
        calc (∑ m' ∈ projs j, star (F.D j R m m' * F.D j h m' (l₁ - l₂))) * eI (-(((l₁ - l₂ : ℤ) : ℝ) / 2 * δ))
              * H l₁ l₂ * (Φ₁ * (eI ((l₁ : ℝ) / 2 * δ) * amp F c₁ f₁ l₁)) * (Φ₂ * (eI (-((l₂ : ℝ) / 2 * δ)) * amp F c₂ f₂ l₂))
            = (eI (-(((l₁ - l₂ : ℤ) : ℝ) / 2 * δ)) * eI ((l₁ : ℝ) / 2 * δ) * eI (-((l₂ : ℝ) / 2 * δ)))
              * ((∑ m' ∈ projs j, star (F.D j R m m' * F.D j h m' (l₁ - l₂)))
                  * ((Φ₁ * Φ₂) * (H l₁ l₂ * amp F c₁ f₁ l₁ * amp F c₂ f₂ l₂))) := by ring
          _ = _ := by
            rw [hp, one_mul, Finset.sum_mul]
            refine Finset.sum_congr rfl fun m' _ => ?_
            rw [star_mul']; ring
      rw [Finset.sum_congr rfl fun l₁ h₁ => Finset.sum_congr rfl fun l₂ h₂ => key l₁ h₁ l₂ h₂]
      simp_rw [Finset.mul_sum]
      conv_rhs => rw [Finset.sum_comm]
      refine Finset.sum_congr rfl fun l₁ _ => ?_
      exact Finset.sum_comm


/-- single topology, final states with ANY spin: the unpolarised intensity is invariant -/
theorem intensity_rotated_single (F : RepFamily) (t : Tree) (c : ℂ) (f f' : Frames)
    (R : Matrix (Fin 3) (Fin 3) ℝ) (hR : IsRot R) (hok : t.spinsOk F) (hrot : Rotated R f f') :
    ∑ m ∈ projs t.twoSpin, Complex.normSq (c * amp F t f' m)
      = ∑ m ∈ projs t.twoSpin, Complex.normSq (c * amp F t f m) := by
  cases t with
  | leaf j l => simp [amp]
  | node j H c₁ c₂ =>
    obtain ⟨Φ, hΦ, e⟩ := amp_rotated_phase F (.node j H c₁ c₂) hok R f f' hR hrot (fun h => h.elim)
    have hJ : F.ok j := hok.1
    simp only [Tree.twoSpin] at e ⊢
    have h1 := normSq_sum_unitary (projs j) (F.D j R) (F.unitary j hJ R hR)
      (fun m => c * Φ * amp F (.node j H c₁ c₂) f m) (fun m => c * amp F (.node j H c₁ c₂) f' m)
      (by
        intro m hm
        show c * amp F (.node j H c₁ c₂) f' m = _
        rw [e m hm, Finset.mul_sum, Finset.mul_sum]
        refine Finset.sum_congr rfl fun m' _ => ?_
        ring)
    rw [h1]
    refine Finset.sum_congr rfl fun m _ => ?_
    rw [Complex.normSq_mul, Complex.normSq_mul, hΦ, mul_one, Complex.normSq_mul]

/-- FULL STATEMENT on trees: any finite set of topologies with spinless final states, or a single
topology with final states of any (provided) spin. -/
theorem intensity_rotated_full (F : RepFamily) (T : Type) [Fintype T] (tree : T → Tree) (c : T → ℂ)
    (fr fr' : T → Frames) (R : Matrix (Fin 3) (Fin 3) ℝ) (twoJ : ℕ) (hJ : F.ok twoJ) (hR : IsRot R)
    (ht : ∀ t, (tree t).twoSpin = twoJ ∧ (tree t).spinsOk F)
    (hcase : (∀ t, (tree t).spinlessLeaves) ∨ Subsingleton T)
    (hrot : ∀ t, Rotated R (fr t) (fr' t)) :
    ∑ m ∈ projs twoJ, Complex.normSq (∑ t, c t * amp F (tree t) (fr' t) m)
      = ∑ m ∈ projs twoJ, Complex.normSq (∑ t, c t * amp F (tree t) (fr t) m) := by
  rcases hcase with hs | hsub
  · exact intensity_rotated F T tree c fr fr' R twoJ hJ hR (fun t => ⟨(ht t).1, (ht t).2, hs t⟩) hrot
  · rcases isEmpty_or_nonempty T with he | ⟨⟨t₀⟩⟩
    · simp
    · simp_rw [Fintype.sum_subsingleton _ t₀]
      rw [← (ht t₀).1]
      exact intensity_rotated_single F (tree t₀) (c t₀) (fr t₀) (fr' t₀) R hR (ht t₀).2 (hrot t₀)

end Ampverif.Lemmas.C04
