/-
Helper lemmas for C14: composition of simultaneous replacements (substitution lemma for class
templates), `subs` as a one-entry `xreplace`, the generated `__new__` on complete field values.
-/
import Ampverif.Lemmas.C14Eq
import Ampverif.Lemmas.C18Commute

namespace Ampverif.Lemmas.C14
open Ampverif.Model Ampverif.Lemmas.C18

/-! ### lookup -/

theorem lookup_map (π : List (Sym × Expr)) (g : Expr → Expr) (s : Sym) :
    lookup (π.map (fun p => (p.1, g p.2))) s = (lookup π s).map g := by
  induction π with
  | nil => simp [lookup]
  | cons p π ih =>
    obtain ⟨k, a⟩ := p
    by_cases h : s = k <;> simp [lookup, h, ih]

theorem lookup_zip_some (P : List Sym) :
    ∀ (es : List Expr) (s : Sym), s ∈ P → P.length ≤ es.length → ∃ a, lookup (P.zip es) s = some a := by
  induction P with
  | nil => intro es s h; simp at h
  | cons k P ih =>
    intro es s hs hl
    cases es with
    | nil => simp at hl
    | cons e es =>
      by_cases h : s = k
      · exact ⟨e, by simp [lookup, h]⟩
      · have hs' : s ∈ P := by
          rcases List.mem_cons.mp hs with h' | h'
          · exact absurd h' h
          · exact h'
        obtain ⟨a, ha⟩ := ih es s hs' (by simpa using hl)
        exact ⟨a, by simp [lookup, h, ha]⟩

theorem zip_map_snd (P : List Sym) (g : Expr → Expr) :
    ∀ es : List Expr, (P.zip es).map (fun p => (p.1, g p.2)) = P.zip (es.map g) := by
  induction P with
  | nil => intro es; simp
  | cons k P ih =>
    intro es
    cases es with
    | nil => simp
    | cons e es => simp [ih es]

theorem xreplaceList_eq_map (v : Variant) (es : List Expr) (σ : List (Sym × Expr)) :
    xreplaceList v es σ = es.map (fun e => xreplace v e σ) := by
  induction es with
  | nil => simp [xreplaceList]
  | cons e es ih => simp [xreplaceList, ih]

/-! ### composition of replacements on a pool-sum-free term -/

mutual
theorem xreplace_comp (v : Variant) (hv : v.sound) (π σ : List (Sym × Expr)) :
    ∀ T : Expr, noPsum T = true → (∀ s ∈ syms T, lookup π s = none → lookup σ s = none) →
      xreplace v (xreplace v T π) σ = xreplace v T (π.map (fun p => (p.1, xreplace v p.2 σ)))
  | .sym s, _, h => by
      simp only [xreplace]
      rw [lookup_map π (fun e => xreplace v e σ) s]
      cases hl : lookup π s with
      | some a => simp
      | none =>
        have := h s (by simp [syms]) hl
        simp [xreplace, this]
  | .rat q, _, _ => by simp [xreplace]
  | .add es, hn, h => by
      simp only [xreplace]
      rw [xreplaceList_comp v hv π σ es (by simpa [noPsum] using hn) (by simpa [syms] using h)]
  | .mul es, hn, h => by
      simp only [xreplace]
      rw [xreplaceList_comp v hv π σ es (by simpa [noPsum] using hn) (by simpa [syms] using h)]
  | .pow b n, hn, h => by
      simp only [xreplace]
      rw [xreplace_comp v hv π σ b (by simpa [noPsum] using hn) (by simpa [syms] using h)]
  | .app f es, hn, h => by
      simp only [xreplace]
      rw [xreplaceList_comp v hv π σ es (by simpa [noPsum] using hn) (by simpa [syms] using h)]
  | .node c es t, hn, h => by
      have hr : v.getArgsRecursive = false := hv.1
      simp only [xreplace, hr, Bool.false_and, Bool.false_eq_true, if_false]
      rw [xreplaceList_comp v hv π σ es (by simpa [noPsum] using hn) (by simpa [syms] using h)]
  | .psum b ixs, hn, _ => by simp [noPsum] at hn
  | .idx f es, hn, h => by
      simp only [xreplace]
      rw [xreplaceList_comp v hv π σ es (by simpa [noPsum] using hn) (by simpa [syms] using h)]
theorem xreplaceList_comp (v : Variant) (hv : v.sound) (π σ : List (Sym × Expr)) :
    ∀ Ts : List Expr, noPsumList Ts = true → (∀ s ∈ symsList Ts, lookup π s = none → lookup σ s = none) →
      xreplaceList v (xreplaceList v Ts π) σ = xreplaceList v Ts (π.map (fun p => (p.1, xreplace v p.2 σ)))
  | [], _, _ => by simp [xreplaceList]
  | T :: Ts, hn, h => by
      have hn' : noPsum T = true ∧ noPsumList Ts = true := by simpa [noPsumList] using hn
      simp only [xreplaceList]
      rw [xreplace_comp v hv π σ T hn'.1 (fun s hs => h s (by simp [symsList, hs])),
          xreplaceList_comp v hv π σ Ts hn'.2 (fun s hs => h s (by simp [symsList, hs]))]
end

/-! ### `subs(x, a)` is `xreplace({x: a})` on this term language -/

mutual
theorem subst1_eq_xreplace (v : Variant) (hv : v.sound) (x : Sym) (a : Expr) :
    ∀ e : Expr, subst1 v x a e = xreplace v e [(x, a)]
  | .sym s => by by_cases h : s = x <;> simp [subst1, xreplace, lookup, h]
  | .rat q => by simp [subst1, xreplace]
  | .add es => by simp [subst1, xreplace, subst1List_eq_xreplace v hv x a es]
  | .mul es => by simp [subst1, xreplace, subst1List_eq_xreplace v hv x a es]
  | .pow b n => by simp [subst1, xreplace, subst1_eq_xreplace v hv x a b]
  | .app f es => by simp [subst1, xreplace, subst1List_eq_xreplace v hv x a es]
  | .node c es t => by
      have hr : v.getArgsRecursive = false := hv.1
      simp [subst1, xreplace, hr, subst1List_eq_xreplace v hv x a es]
  | .psum b ixs => by
      have hp : v.poolSumProtectsBound = true := hv.2
      by_cases hx : x ∈ names ixs
      · rw [subst1_psum_mem v hv x a b ixs hx]
        simp [xreplace, hp, hx, xreplace_nil v hv b, xreplaceBinders_nil v hv ixs]
      · rw [subst1_psum_not_mem v hv x a b ixs hx]
        simp [xreplace, hp, hx, subst1_eq_xreplace v hv x a b, subst1Binders_eq_xreplace v hv x a ixs]
  | .idx f es => by simp [subst1, xreplace, subst1List_eq_xreplace v hv x a es]
theorem subst1List_eq_xreplace (v : Variant) (hv : v.sound) (x : Sym) (a : Expr) :
    ∀ es : List Expr, subst1List v x a es = xreplaceList v es [(x, a)]
  | [] => by simp [subst1List, xreplaceList]
  | e :: es => by
      simp [subst1List, xreplaceList, subst1_eq_xreplace v hv x a e, subst1List_eq_xreplace v hv x a es]
theorem subst1Binders_eq_xreplace (v : Variant) (hv : v.sound) (x : Sym) (a : Expr) :
    ∀ ixs : List (Sym × List Expr), subst1Binders v x a ixs = xreplaceBinders v ixs [(x, a)]
  | [] => by simp [subst1Binders, xreplaceBinders]
  | (i, pool) :: rest => by
      simp [subst1Binders, xreplaceBinders, subst1List_eq_xreplace v hv x a pool,
        subst1Binders_eq_xreplace v hv x a rest]
end

/-! ### the class table -/

theorem find_mem (tbl : ClassTable) (c : String) (ci : ClassInfo) (h : tbl.find c = some ci) :
    ci ∈ tbl ∧ ci.name = c := by
  unfold ClassTable.find at h
  have h1 := List.mem_of_find?_eq_some h
  have h2 := List.find?_some h
  exact ⟨h1, by simpa using h2⟩

theorem wfClass_of_find (tbl : ClassTable) (hw : wfTable tbl = true) (c : String) (ci : ClassInfo)
    (h : tbl.find c = some ci) : wfClass ci = true := by
  have hm := (find_mem tbl c ci h).1
  simp only [wfTable, Bool.and_eq_true, List.all_eq_true] at hw
  exact hw.1 ci hm

theorem templateFor_mem (ci : ClassInfo) (t : List Attr) (T : Expr) (h : templateFor ci t = some T) :
    (t, T) ∈ ci.templates := by
  unfold templateFor at h
  cases hf : ci.templates.find? (fun p => decide (p.1 = t)) with
  | none => simp [hf] at h
  | some p =>
    simp [hf] at h
    have h1 := List.mem_of_find?_eq_some hf
    have h2 := List.find?_some hf
    have : p.1 = t := by simpa using h2
    obtain ⟨p1, p2⟩ := p
    simp at this h
    subst this; subst h
    exact h1

/-! ### `__new__` on complete field values -/

theorem fillDefaults_full :
    ∀ (fs : List Field) (xs : List Arg), xs.length = fs.length → fillDefaults fs xs = some xs
  | [], [], _ => by simp [fillDefaults]
  | [], _ :: _, h => by simp at h
  | _ :: _, [], h => by simp at h
  | f :: fs, x :: xs, h => by
      have := fillDefaults_full fs xs (by simpa using h)
      simp [fillDefaults, this]

def nS (fs : List Field) : Nat := (fs.filter (fun f => f.sympify)).length
def nA (fs : List Field) : Nat := (fs.filter (fun f => !f.sympify)).length

theorem interleave_length :
    ∀ (fs : List Field) (es : List Expr) (t : List Attr), es.length = nS fs → t.length = nA fs →
      (interleave fs es t).length = fs.length
  | [], _, _, _, _ => by simp [interleave]
  | f :: fs, es, t, he, ht => by
      by_cases hf : f.sympify = true
      · cases es with
        | nil => simp [nS, List.filter_cons, hf] at he
        | cons e es =>
          simp only [interleave, hf, if_true, List.length_cons]
          rw [interleave_length fs es t (by simpa [nS, List.filter_cons, hf] using he)
            (by simpa [nA, List.filter_cons, hf] using ht)]
      · have hf' : f.sympify = false := by simpa using hf
        cases t with
        | nil => simp [nA, List.filter_cons, hf'] at ht
        | cons a t =>
          simp only [interleave, hf', Bool.false_eq_true, if_false, List.length_cons]
          rw [interleave_length fs es t (by simpa [nS, List.filter_cons, hf'] using he)
            (by simpa [nA, List.filter_cons, hf'] using ht)]

theorem splitArgs_interleave :
    ∀ (fs : List Field) (es : List Expr) (t : List Attr), es.length = nS fs → t.length = nA fs →
      splitArgs fs (interleave fs es t) = some (es, t)
  | [], es, t, he, ht => by
      have : es = [] := by simpa [nS] using he
      have h2 : t = [] := by simpa [nA] using ht
      subst this; subst h2
      simp [interleave, splitArgs]
  | f :: fs, es, t, he, ht => by
      by_cases hf : f.sympify = true
      · cases es with
        | nil => simp [nS, List.filter_cons, hf] at he
        | cons e es =>
          have := splitArgs_interleave fs es t (by simpa [nS, List.filter_cons, hf] using he)
            (by simpa [nA, List.filter_cons, hf] using ht)
          simp [interleave, hf, splitArgs, this]
      · have hf' : f.sympify = false := by simpa using hf
        cases t with
        | nil => simp [nA, List.filter_cons, hf'] at ht
        | cons a t =>
          have := splitArgs_interleave fs es t (by simpa [nS, List.filter_cons, hf'] using he)
            (by simpa [nA, List.filter_cons, hf'] using ht)
          simp [interleave, hf', splitArgs, this]

/-- `cls(*_get_arguments(instance))` rebuilds the instance. -/
theorem new_interleave (tbl : ClassTable) (c : String) (ci : ClassInfo) (hf : tbl.find c = some ci)
    (es : List Expr) (t : List Attr) (he : es.length = ci.nSympy) (ht : t.length = ci.nAttr) :
    new tbl c (interleave ci.fields es t) = some (.node c es t) := by
  have he' : es.length = nS ci.fields := he
  have ht' : t.length = nA ci.fields := ht
  simp [new, hf, fillDefaults_full ci.fields _ (interleave_length ci.fields es t he' ht'),
    splitArgs_interleave ci.fields es t he' ht']

theorem interleave_all_sympy :
    ∀ (fs : List Field) (es : List Expr), (∀ f ∈ fs, f.sympify = true) → es.length = fs.length →
      interleave fs es [] = es.map Arg.e
  | [], es, _, h => by
      have : es = [] := by simpa using h
      subst this; simp [interleave]
  | f :: fs, es, hall, h => by
      cases es with
      | nil => simp at h
      | cons e es =>
        have hf : f.sympify = true := hall f (by simp)
        have := interleave_all_sympy fs es (fun g hg => hall g (by simp [hg])) (by simpa using h)
        simp [interleave, hf, this]

theorem nS_all_sympy (fs : List Field) (h : ∀ f ∈ fs, f.sympify = true) : nS fs = fs.length ∧ nA fs = 0 := by
  induction fs with
  | nil => simp [nS, nA]
  | cons f fs ih =>
    have hf : f.sympify = true := h f (by simp)
    have := ih (fun g hg => h g (by simp [hg]))
    simp only [nS, nA] at this ⊢
    simp [List.filter_cons, hf, this.1, this.2]

/-! ### equality through `hashKey` -/

mutual
theorem eqvWith_mapAttrs (f : Attr → Attr) :
    ∀ a b : Expr, Expr.eqvWith f a b = Expr.eqvWith id (mapAttrs f a) (mapAttrs f b)
  | .sym s, b => by cases b <;> simp [Expr.eqvWith, mapAttrs]
  | .rat q, b => by cases b <;> simp [Expr.eqvWith, mapAttrs]
  | .add es, b => by cases b <;> simp [Expr.eqvWith, mapAttrs, eqvWithList_mapAttrs f es]
  | .mul es, b => by cases b <;> simp [Expr.eqvWith, mapAttrs, eqvWithList_mapAttrs f es]
  | .pow x n, b => by cases b <;> simp [Expr.eqvWith, mapAttrs, eqvWith_mapAttrs f x]
  | .app g es, b => by cases b <;> simp [Expr.eqvWith, mapAttrs, eqvWithList_mapAttrs f es]
  | .node c es t, b => by cases b <;> simp [Expr.eqvWith, mapAttrs, eqvWithList_mapAttrs f es]
  | .psum x ixs, b => by
      cases b <;> simp [Expr.eqvWith, mapAttrs, eqvWith_mapAttrs f x, eqvWithBinders_mapAttrs f ixs]
  | .idx g es, b => by cases b <;> simp [Expr.eqvWith, mapAttrs, eqvWithList_mapAttrs f es]
theorem eqvWithList_mapAttrs (f : Attr → Attr) :
    ∀ as bs : List Expr, Expr.eqvWithList f as bs = Expr.eqvWithList id (mapAttrsList f as) (mapAttrsList f bs)
  | [], bs => by cases bs <;> simp [Expr.eqvWithList, mapAttrsList]
  | a :: as, bs => by
      cases bs with
      | nil => simp [Expr.eqvWithList, mapAttrsList]
      | cons b bs => simp [Expr.eqvWithList, mapAttrsList, eqvWith_mapAttrs f a b, eqvWithList_mapAttrs f as bs]
theorem eqvWithBinders_mapAttrs (f : Attr → Attr) :
    ∀ as bs : List (Sym × List Expr),
      Expr.eqvWithBinders f as bs = Expr.eqvWithBinders id (mapAttrsBinders f as) (mapAttrsBinders f bs)
  | [], bs => by cases bs <;> simp [Expr.eqvWithBinders, mapAttrsBinders]
  | (i, p) :: as, bs => by
      cases bs with
      | nil => simp [Expr.eqvWithBinders, mapAttrsBinders]
      | cons b bs =>
        obtain ⟨j, q⟩ := b
        simp [Expr.eqvWithBinders, mapAttrsBinders, eqvWithList_mapAttrs f p q, eqvWithBinders_mapAttrs f as bs]
end

end Ampverif.Lemmas.C14
