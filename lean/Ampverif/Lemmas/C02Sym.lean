/-
C02 — the symmetrisation: every relabeling of identical final-state particles is represented,
each attachment (which id hangs on which node) exactly once.
-/
import Ampverif.Lemmas.C02Lists

namespace Ampverif.Lemmas.C02Sym
open Ampverif.Model.C02 Ampverif.Lemmas.C02Lists

abbrev Sig := List (Int × Option Nat)

theorem filterMap_find_attachment (all : List Transition) :
    ∀ (ss : List Sig), (∀ s ∈ ss, s ∈ all.map Transition.attachment) →
      ((ss.filterMap fun s => all.find? (·.attachment == s)).map Transition.attachment) = ss
  | [], _ => rfl
  | s :: ss, h => by
    have hs := h s List.mem_cons_self
    obtain ⟨x, hx, hxs⟩ := List.mem_map.mp hs
    have hsome : (all.find? (·.attachment == s)).isSome = true := by
      rw [List.find?_isSome]
      exact ⟨x, hx, by simp [hxs]⟩
    obtain ⟨g, hg⟩ := Option.isSome_iff_exists.mp hsome
    have hgs : g.attachment = s := by
      have := List.find?_some hg
      simpa using this
    rw [List.filterMap_cons, hg]
    simp only [List.map_cons, hgs]
    rw [filterMap_find_attachment all ss (fun s' hs' => h s' (List.mem_cons_of_mem _ hs'))]

theorem symmetrise_attachments (t : Transition) :
    t.symmetrise.map Transition.attachment
      = dedupFirst ((t.relabelings.map t.relabel).map Transition.attachment) := by
  unfold Transition.symmetrise
  simp only []
  apply filterMap_find_attachment
  intro s hs
  exact (mem_dedupFirst _ _).mp hs

/-- each attachment once. -/
theorem symmetrise_nodup (t : Transition) : (t.symmetrise.map Transition.attachment).Nodup := by
  rw [symmetrise_attachments]
  exact nodup_dedupFirst _

/-- every graph is a relabeling of the transition by a permutation of identical particles. -/
theorem symmetrise_sound (t : Transition) (g : Transition) (hg : g ∈ t.symmetrise) :
    ∃ σ ∈ t.relabelings, g = t.relabel σ := by
  unfold Transition.symmetrise at hg
  simp only [List.mem_filterMap] at hg
  obtain ⟨s, _, hf⟩ := hg
  have := List.mem_of_find?_eq_some hf
  obtain ⟨σ, hσ, rfl⟩ := List.mem_map.mp this
  exact ⟨σ, hσ, rfl⟩

/-- every relabeling is represented by a graph with the same attachment. -/
theorem symmetrise_complete (t : Transition) (σ : List (Int × Int)) (hσ : σ ∈ t.relabelings) :
    ∃ g ∈ t.symmetrise, g.attachment = (t.relabel σ).attachment := by
  have hm : (t.relabel σ).attachment ∈ t.symmetrise.map Transition.attachment := by
    rw [symmetrise_attachments, mem_dedupFirst]
    exact List.mem_map_of_mem (List.mem_map_of_mem hσ)
  obtain ⟨g, hg, e⟩ := List.mem_map.mp hm
  exact ⟨g, hg, e⟩

end Ampverif.Lemmas.C02Sym
