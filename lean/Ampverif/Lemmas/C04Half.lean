/-
C04, layer (I), J = 1/2 — SymPy's `Rotation.D(1/2, m, m', α, β, γ).doit()` (regenerated 2×2 matrix
`Gen.C04.Dh`): factorisation `uz α · uy β · uz γ`, unitarity, diagonal on z-rotations, additivity on
the Euler generators, and the SU(2) sign: `Dh (α + 2π) β γ = −Dh α β γ` although the rotation is the
same — so there is no `WignerRep` with weight 1/2.
-/
import Ampverif.Lemmas.C04Inst
import Ampverif.Lemmas.C04Covariance
namespace Ampverif.Lemmas.C04
open Matrix Ampverif.Gen.C04

/-- `e^{ix}` for real `x` -/
noncomputable def ce (x : ℝ) : ℂ := Complex.exp ((x : ℂ) * Complex.I)

theorem ce_add (x y : ℝ) : ce x * ce y = ce (x + y) := by
  rw [ce, ce, ce, ← Complex.exp_add]; congr 1; push_cast; ring
theorem ce_zero : ce 0 = 1 := by simp [ce]
theorem ce_conj (x : ℝ) : (starRingEnd ℂ) (ce x) = ce (-x) := by
  rw [ce, ce, ← Complex.exp_conj]; congr 1; simp [Complex.conj_ofReal]
theorem ce_pi : ce Real.pi = -1 := by rw [ce, Complex.exp_pi_mul_I]
theorem ce_neg_pi : ce (-Real.pi) = -1 := by
  rw [ce]; push_cast; rw [neg_mul, Complex.exp_neg, Complex.exp_pi_mul_I]; norm_num

theorem gexpn (a : ℝ) : Complex.exp (((-1 : ℂ) / 2) * Complex.I * (a : ℂ)) = ce (-a / 2) := by
  rw [ce]; congr 1; push_cast; ring
theorem gexpp (a : ℝ) : Complex.exp (((1 : ℂ) / 2) * Complex.I * (a : ℂ)) = ce (a / 2) := by
  rw [ce]; congr 1; push_cast; ring
theorem gcos (b : ℝ) : Complex.cos (((1 : ℂ) / 2) * (b : ℂ)) = ((Real.cos (b / 2) : ℝ) : ℂ) := by
  rw [Complex.ofReal_cos]; congr 1; push_cast; ring
theorem gsin (b : ℝ) : Complex.sin (((1 : ℂ) / 2) * (b : ℂ)) = ((Real.sin (b / 2) : ℝ) : ℂ) := by
  rw [Complex.ofReal_sin]; congr 1; push_cast; ring

/-- `diag(e^{-ia/2}, e^{ia/2})` -/
noncomputable def uz (a : ℝ) : Matrix (Fin 2) (Fin 2) ℂ := !![ce (-a / 2), 0; 0, ce (a / 2)]

/-- the real rotation by `b/2` -/
noncomputable def uy (b : ℝ) : Matrix (Fin 2) (Fin 2) ℂ :=
  !![((Real.cos (b / 2) : ℝ) : ℂ), -((Real.sin (b / 2) : ℝ) : ℂ);
     ((Real.sin (b / 2) : ℝ) : ℂ), ((Real.cos (b / 2) : ℝ) : ℂ)]

/-- SymPy's D^{1/2}(α,β,γ) factorises as `uz α · uy β · uz γ` -/
theorem Dh_factor (α β γ : ℝ) : Dh α β γ = uz α * uy β * uz γ := by
  ext i j
  fin_cases i <;> fin_cases j <;>
    simp only [Dh, Dh_p_p, Dh_p_m, Dh_m_p, Dh_m_m, gexpn, gexpp, gcos, gsin] <;>
    simp [-mul_eq_mul_right_iff, -mul_eq_mul_left_iff, uz, uy, Matrix.mul_apply, Fin.sum_univ_two] <;>
    ring_nf

theorem uz_add (a b : ℝ) : uz a * uz b = uz (a + b) := by
  ext i j
  fin_cases i <;> fin_cases j <;>
    simp [uz, Matrix.mul_apply, Fin.sum_univ_two, ce_add] <;> (congr 1; ring)

theorem uy_add (a b : ℝ) : uy a * uy b = uy (a + b) := by
  have h : (a + b) / 2 = a / 2 + b / 2 := by ring
  ext i j
  fin_cases i <;> fin_cases j <;>
    simp [uy, Matrix.mul_apply, Fin.sum_univ_two, h, Real.cos_add, Real.sin_add] <;> ring

theorem uz_zero : uz 0 = 1 := by
  ext i j
  fin_cases i <;> fin_cases j <;> simp [uz, ce_zero]

theorem uy_zero : uy 0 = 1 := by
  ext i j
  fin_cases i <;> fin_cases j <;> simp [uy]

theorem uz_conjTranspose (a : ℝ) : (uz a)ᴴ = uz (-a) := by
  ext i j
  fin_cases i <;> fin_cases j <;>
    simp [uz, Matrix.conjTranspose_apply, ce_conj] <;> (congr 1; ring)

theorem uy_conjTranspose (b : ℝ) : (uy b)ᴴ = uy (-b) := by
  have h : -b / 2 = -(b / 2) := by ring
  have hc : (starRingEnd ℂ) (Complex.cos ((b : ℂ) / 2)) = Complex.cos ((b : ℂ) / 2) := by
    rw [show ((b : ℂ) / 2) = ((b / 2 : ℝ) : ℂ) by push_cast; ring, ← Complex.ofReal_cos, Complex.conj_ofReal]
  have hs : (starRingEnd ℂ) (Complex.sin ((b : ℂ) / 2)) = Complex.sin ((b : ℂ) / 2) := by
    rw [show ((b : ℂ) / 2) = ((b / 2 : ℝ) : ℂ) by push_cast; ring, ← Complex.ofReal_sin, Complex.conj_ofReal]
  ext i j
  fin_cases i <;> fin_cases j <;>
    simp [uy, Matrix.conjTranspose_apply, h, hc, hs]

theorem uz_unitary (a : ℝ) : (uz a)ᴴ * uz a = 1 := by
  rw [uz_conjTranspose, uz_add, neg_add_cancel, uz_zero]

theorem uy_unitary (b : ℝ) : (uy b)ᴴ * uy b = 1 := by
  rw [uy_conjTranspose, uy_add, neg_add_cancel, uy_zero]

/-- SymPy's D^{1/2} is unitary for all angles -/
theorem Dh_unitary (α β γ : ℝ) : (Dh α β γ)ᴴ * Dh α β γ = 1 := by
  rw [Dh_factor, Matrix.conjTranspose_mul, Matrix.conjTranspose_mul]
  calc (uz γ)ᴴ * ((uy β)ᴴ * (uz α)ᴴ) * (uz α * uy β * uz γ)
      = (uz γ)ᴴ * ((uy β)ᴴ * ((uz α)ᴴ * uz α) * uy β) * uz γ := by simp only [Matrix.mul_assoc]
    _ = 1 := by rw [uz_unitary, Matrix.mul_one, uy_unitary, Matrix.mul_one, uz_unitary]

/-- diagonal `e^{∓iα/2}` on z-rotations -/
theorem Dh_z_diagonal (α : ℝ) : Dh α 0 0 = uz α := by
  rw [Dh_factor, uy_zero, uz_zero, Matrix.mul_one, Matrix.mul_one]

theorem Dh_z_additive (a b : ℝ) : Dh a 0 0 * Dh b 0 0 = Dh (a + b) 0 0 := by
  rw [Dh_z_diagonal, Dh_z_diagonal, Dh_z_diagonal, uz_add]

theorem Dh_y_additive (a b : ℝ) : Dh 0 a 0 * Dh 0 b 0 = Dh 0 (a + b) 0 := by
  simp only [Dh_factor, uz_zero, Matrix.one_mul, Matrix.mul_one, uy_add]

theorem Dh_euler (α β γ : ℝ) : Dh α β γ = Dh α 0 0 * Dh 0 β 0 * Dh γ 0 0 := by
  simp only [Dh_factor, uz_zero, uy_zero, Matrix.one_mul, Matrix.mul_one]

theorem uz_two_pi (a : ℝ) : uz (a + 2 * Real.pi) = -uz a := by
  rw [← uz_add]
  have : uz (2 * Real.pi) = -1 := by
    have e1 : -(2 * Real.pi) / 2 = -Real.pi := by ring
    have e2 : 2 * Real.pi / 2 = Real.pi := by ring
    ext i j
    fin_cases i <;> fin_cases j <;> simp [uz, e1, e2, ce_pi, ce_neg_pi]
  rw [this, Matrix.mul_neg, Matrix.mul_one]

/-- the SU(2) sign: one full turn multiplies D^{1/2} by −1 … -/
theorem Dh_two_pi (α β γ : ℝ) : Dh (α + 2 * Real.pi) β γ = -Dh α β γ := by
  rw [Dh_factor, Dh_factor, uz_two_pi, Matrix.neg_mul, Matrix.neg_mul]

/-- … although the rotation it belongs to is the same -/
theorem Rz3_two_pi (a : ℝ) : Rz3 (a + 2 * Real.pi) = Rz3 a := by
  apply Rz3_congr <;> simp

theorem euler_two_pi (α β γ : ℝ) : euler (α + 2 * Real.pi) β γ = euler α β γ := by
  rw [euler, euler, Rz3_two_pi]

/-- integer spin: no sign -/
theorem D1_two_pi (α β γ : ℝ) : D1 (α + 2 * Real.pi) β γ = D1 α β γ := by
  rw [sympy_D1_eq, sympy_D1_eq, euler_two_pi]

/-- Therefore no `WignerRep` (a representation of the rotation MATRICES) has weight 1/2. -/
theorem no_half_integer_WignerRep (W : WignerRep 2) (h0 : W.wt 0 = 1 / 2) : False := by
  have h1 := W.diag (0 + 2 * Real.pi)
  rw [Rz3_two_pi, W.diag 0] at h1
  have := congrFun (congrFun h1 0) 0
  simp only [Matrix.diagonal_apply_eq, h0] at this
  rw [show (-(↑((1 : ℝ) / 2 * 0) : ℂ) * Complex.I) = 0 by simp,
    show (-(↑((1 : ℝ) / 2 * (0 + 2 * Real.pi)) : ℂ) * Complex.I) = -(Real.pi * Complex.I) by push_cast; ring,
    Complex.exp_zero, Complex.exp_neg, Complex.exp_pi_mul_I] at this
  norm_num at this

end Ampverif.Lemmas.C04
