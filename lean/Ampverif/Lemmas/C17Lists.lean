/-
C17 helper lemmas, part 1: association lists with `dict` semantics, stable insertion sort, `dedup`
(all about definitions of `Ampverif.Model.C17Rename`; core Lean only).
-/
import Ampverif.Model.C17Rename

namespace Ampverif.Model.C17

variable {α κ β γ : Type}

/-! ### dedup -/

theorem mem_dedup [DecidableEq α] (a : α) (l : List α) : a ∈ dedup l ↔ a ∈ l := by
  induction l with
  | nil => simp [dedup]
  | cons b l ih =>
    by_cases h : a = b
    · simp [dedup, h]
    · simp [dedup, h, ih]

theorem nodup_map_of_injOn {f : α → γ} {l : List α}
    (h : ∀ a, a ∈ l → ∀ b, b ∈ l → f a = f b → a = b) (hnd : l.Nodup) : (l.map f).Nodup := by
  induction l with
  | nil => simp
  | cons a l ih =>
    rw [List.nodup_cons] at hnd
    rw [List.map_cons, List.nodup_cons]
    refine ⟨?_, ih (fun x hx y hy e => h x (List.mem_cons_of_mem _ hx) y (List.mem_cons_of_mem _ hy) e) hnd.2⟩
    intro hm
    obtain ⟨b, hb, e⟩ := List.mem_map.mp hm
    have := h b (List.mem_cons_of_mem _ hb) a List.mem_cons_self e
    exact hnd.1 (this ▸ hb)

/-! ### alookup -/

def keys (l : List (κ × β)) : List κ := l.map (·.1)

@[simp] theorem keys_nil : keys ([] : List (κ × β)) = [] := rfl
@[simp] theorem keys_cons (p : κ × β) (l : List (κ × β)) : keys (p :: l) = p.1 :: keys l := rfl

theorem alookup_eq_none_iff [DecidableEq κ] (k : κ) (l : List (κ × β)) :
    alookup k l = none ↔ k ∉ keys l := by
  induction l with
  | nil => simp [alookup]
  | cons p l ih =>
    obtain ⟨k', v⟩ := p
    by_cases h : k' = k
    · simp [alookup, h]
    · have h' : ¬ k = k' := fun e => h e.symm
      simp [alookup, h, h', ih]

theorem alookup_mem [DecidableEq κ] {k : κ} {v : β} {l : List (κ × β)} :
    alookup k l = some v → (k, v) ∈ l := by
  induction l with
  | nil => simp [alookup]
  | cons p l ih =>
    obtain ⟨k', v'⟩ := p
    by_cases h : k' = k
    · subst h; simp [alookup]; intro e; exact Or.inl e.symm
    · simp [alookup, h]; intro e; exact Or.inr (ih e)

theorem alookup_of_mem_nodup [DecidableEq κ] {k : κ} {v : β} {l : List (κ × β)}
    (hnd : (keys l).Nodup) (hm : (k, v) ∈ l) : alookup k l = some v := by
  induction l with
  | nil => cases hm
  | cons p l ih =>
    obtain ⟨k', v'⟩ := p
    simp only [keys_cons, List.nodup_cons] at hnd
    by_cases h : k' = k
    · subst h
      rcases List.mem_cons.mp hm with e | e
      · cases e; simp [alookup]
      · exact absurd (List.mem_map.mpr ⟨(k', v), e, rfl⟩) hnd.1
    · rcases List.mem_cons.mp hm with e | e
      · cases e; exact absurd rfl h
      · simp [alookup, h, ih hnd.2 e]

theorem alookup_eq_some_iff [DecidableEq κ] {k : κ} {v : β} {l : List (κ × β)}
    (hnd : (keys l).Nodup) : alookup k l = some v ↔ (k, v) ∈ l :=
  ⟨alookup_mem, alookup_of_mem_nodup hnd⟩

/-- with distinct keys a lookup does not depend on the order of the entries -/
theorem alookup_perm [DecidableEq κ] {l₁ l₂ : List (κ × β)} (hp : l₁.Perm l₂)
    (hnd : (keys l₁).Nodup) (k : κ) : alookup k l₁ = alookup k l₂ := by
  have hp' : (keys l₁).Perm (keys l₂) := hp.map _
  have hnd₂ : (keys l₂).Nodup := hp'.nodup_iff.mp hnd
  cases h₂ : alookup k l₂ with
  | none =>
    rw [alookup_eq_none_iff] at h₂ ⊢
    intro hk; exact h₂ (hp'.mem_iff.mp hk)
  | some v =>
    rw [alookup_eq_some_iff hnd₂] at h₂
    rw [alookup_eq_some_iff hnd]
    exact hp.mem_iff.mpr h₂

theorem alookup_map_self [DecidableEq κ] (f : κ → β) (l : List κ) (k : κ) :
    alookup k (l.map (fun s => (s, f s))) = if k ∈ l then some (f k) else none := by
  induction l with
  | nil => simp [alookup]
  | cons a l ih =>
    by_cases h : a = k
    · subst h; simp [alookup]
    · have h' : ¬ k = a := fun e => h e.symm
      simp [alookup, h, h', ih]

/-- looking up the image of `s` among the images of the keys, for `f` injective on the keys and `s` -/
theorem alookup_map_inj [DecidableEq κ] (f : κ → κ) (g : β → γ) (l : List (κ × β)) (s : κ)
    (hinj : ∀ k ∈ keys l, f k = f s → k = s) :
    alookup (f s) (l.map (fun kv => (f kv.1, g kv.2))) = (alookup s l).map g := by
  induction l with
  | nil => simp [alookup]
  | cons p l ih =>
    obtain ⟨k', v'⟩ := p
    have ih' := ih (fun k hk => hinj k (List.mem_cons_of_mem _ hk))
    by_cases h : k' = s
    · subst h; simp [alookup]
    · have hne : ¬ f k' = f s := fun e => h (hinj k' (by simp) e)
      simp [alookup, h, hne, ih']

/-! ### dictInsert / dictOfList -/

theorem keys_dictInsert [DecidableEq κ] (k : κ) (v : β) (d : List (κ × β)) :
    keys (dictInsert k v d) = if k ∈ keys d then keys d else keys d ++ [k] := by
  induction d with
  | nil => simp [dictInsert]
  | cons p d ih =>
    obtain ⟨k', v'⟩ := p
    by_cases h : k' = k
    · subst h; simp [dictInsert]
    · have h' : ¬ k = k' := fun e => h e.symm
      by_cases hk : k ∈ keys d
      · simp [dictInsert, h, h', ih, hk]
      · simp [dictInsert, h, h', ih, hk]

theorem mem_keys_dictInsert [DecidableEq κ] (k k' : κ) (v : β) (d : List (κ × β)) :
    k' ∈ keys (dictInsert k v d) ↔ k' = k ∨ k' ∈ keys d := by
  rw [keys_dictInsert]
  by_cases hk : k ∈ keys d
  · simp only [hk, if_true]
    constructor
    · exact Or.inr
    · rintro (e | e)
      · exact e ▸ hk
      · exact e
  · simp [hk, or_comm]

theorem nodup_keys_dictInsert [DecidableEq κ] (k : κ) (v : β) (d : List (κ × β))
    (h : (keys d).Nodup) : (keys (dictInsert k v d)).Nodup := by
  rw [keys_dictInsert]
  by_cases hk : k ∈ keys d
  · simpa [hk] using h
  · simp only [hk, if_false]
    rw [List.nodup_append]
    refine ⟨h, by simp, ?_⟩
    intro a ha b hb
    simp at hb
    subst hb
    intro e; exact hk (e ▸ ha)

theorem mem_dictInsert [DecidableEq κ] {k : κ} {v : β} {d : List (κ × β)} {p : κ × β} :
    p ∈ dictInsert k v d → p = (k, v) ∨ p ∈ d := by
  induction d with
  | nil => simp [dictInsert]
  | cons q d ih =>
    obtain ⟨k', v'⟩ := q
    by_cases h : k' = k
    · subst h
      simp only [dictInsert, if_true, List.mem_cons]
      rintro (e | e)
      · exact Or.inl e
      · exact Or.inr (Or.inr e)
    · simp only [dictInsert, h, if_false, List.mem_cons]
      rintro (e | e)
      · exact Or.inr (Or.inl e)
      · rcases ih e with e' | e'
        · exact Or.inl e'
        · exact Or.inr (Or.inr e')

theorem dictInsert_of_not_mem [DecidableEq κ] (k : κ) (v : β) (d : List (κ × β))
    (h : k ∉ keys d) : dictInsert k v d = d ++ [(k, v)] := by
  induction d with
  | nil => simp [dictInsert]
  | cons p d ih =>
    obtain ⟨k', v'⟩ := p
    simp only [keys_cons, List.mem_cons, not_or] at h
    have h' : ¬ k' = k := fun e => h.1 e.symm
    simp [dictInsert, h', ih h.2]

/-- `dictOfList` started from an arbitrary dict -/
def dictFold [DecidableEq κ] (d : List (κ × β)) (items : List (κ × β)) : List (κ × β) :=
  items.foldl (fun d kv => dictInsert kv.1 kv.2 d) d

theorem dictOfList_eq_dictFold [DecidableEq κ] (items : List (κ × β)) :
    dictOfList items = dictFold [] items := rfl

theorem mem_keys_dictFold [DecidableEq κ] (items d : List (κ × β)) (k : κ) :
    k ∈ keys (dictFold d items) ↔ k ∈ keys d ∨ k ∈ keys items := by
  induction items generalizing d with
  | nil => simp [dictFold]
  | cons p items ih =>
    have := ih (dictInsert p.1 p.2 d)
    simp only [dictFold, List.foldl_cons] at this ⊢
    rw [this, mem_keys_dictInsert]
    simp only [keys_cons, List.mem_cons]
    constructor
    · rintro ((e | e) | e)
      · exact Or.inr (Or.inl e)
      · exact Or.inl e
      · exact Or.inr (Or.inr e)
    · rintro (e | e | e)
      · exact Or.inl (Or.inr e)
      · exact Or.inl (Or.inl e)
      · exact Or.inr e

theorem mem_keys_dictOfList [DecidableEq κ] (items : List (κ × β)) (k : κ) :
    k ∈ keys (dictOfList items) ↔ k ∈ keys items := by
  rw [dictOfList_eq_dictFold, mem_keys_dictFold]; simp

theorem nodup_keys_dictFold [DecidableEq κ] (items d : List (κ × β)) (h : (keys d).Nodup) :
    (keys (dictFold d items)).Nodup := by
  induction items generalizing d with
  | nil => simpa [dictFold] using h
  | cons p items ih =>
    simp only [dictFold, List.foldl_cons]
    exact ih _ (nodup_keys_dictInsert _ _ _ h)

theorem nodup_keys_dictOfList [DecidableEq κ] (items : List (κ × β)) :
    (keys (dictOfList items)).Nodup :=
  nodup_keys_dictFold items [] (by simp)

theorem mem_dictFold [DecidableEq κ] {items d : List (κ × β)} {p : κ × β} :
    p ∈ dictFold d items → p ∈ d ∨ p ∈ items := by
  induction items generalizing d with
  | nil => simp [dictFold]
  | cons q items ih =>
    simp only [dictFold, List.foldl_cons]
    intro h
    rcases ih h with e | e
    · rcases mem_dictInsert e with e' | e'
      · exact Or.inr (by rw [e']; exact List.mem_cons_self)
      · exact Or.inl e'
    · exact Or.inr (List.mem_cons_of_mem _ e)

theorem mem_dictOfList [DecidableEq κ] {items : List (κ × β)} {p : κ × β} :
    p ∈ dictOfList items → p ∈ items := by
  intro h
  rcases mem_dictFold (d := []) h with e | e
  · cases e
  · exact e

theorem dictFold_of_nodup [DecidableEq κ] (items d : List (κ × β))
    (h : (keys (d ++ items)).Nodup) : dictFold d items = d ++ items := by
  induction items generalizing d with
  | nil => simp [dictFold]
  | cons p items ih =>
    simp only [dictFold, List.foldl_cons]
    have hk : p.1 ∉ keys d := by
      simp only [keys, List.map_append, List.map_cons] at h
      rw [List.nodup_append] at h
      intro hm
      exact h.2.2 _ hm _ (by simp) rfl
    rw [dictInsert_of_not_mem _ _ _ hk]
    have : (keys (d ++ [(p.1, p.2)] ++ items)).Nodup := by
      simpa [keys] using h
    have := ih (d ++ [(p.1, p.2)]) this
    simpa [dictFold] using this

/-- a list of pairs with distinct keys already is the dict built from it -/
theorem dictOfList_of_nodup [DecidableEq κ] (items : List (κ × β)) (h : (keys items).Nodup) :
    dictOfList items = items := by
  rw [dictOfList_eq_dictFold, dictFold_of_nodup _ _ (by simpa using h)]; simp

/-! ### stable insertion sort -/

theorem insertBy_perm (lt : α → α → Bool) (x : α) (l : List α) : (insertBy lt x l).Perm (x :: l) := by
  induction l with
  | nil => simp [insertBy]
  | cons y ys ih =>
    by_cases h : lt y x = true
    · simp only [insertBy, h, if_true]
      exact ((List.Perm.cons y ih).trans (List.Perm.swap x y ys))
    · simp [insertBy, h]

theorem isort_perm (lt : α → α → Bool) (l : List α) : (isort lt l).Perm l := by
  induction l with
  | nil => simp [isort]
  | cons x xs ih =>
    simp only [isort]
    exact (insertBy_perm lt x _).trans (List.Perm.cons x ih)

theorem mem_isort (lt : α → α → Bool) (l : List α) (a : α) : a ∈ isort lt l ↔ a ∈ l :=
  (isort_perm lt l).mem_iff

theorem length_isort (lt : α → α → Bool) (l : List α) : (isort lt l).length = l.length :=
  (isort_perm lt l).length_eq

/-- adjacent elements are in order (no later element is strictly smaller than its predecessor) -/
def SortedAdj (lt : α → α → Bool) : List α → Prop
  | [] => True
  | [_] => True
  | x :: y :: l => lt y x = false ∧ SortedAdj lt (y :: l)

theorem isort_of_sorted (lt : α → α → Bool) (l : List α) (h : SortedAdj lt l) : isort lt l = l := by
  induction l with
  | nil => rfl
  | cons x xs ih =>
    cases xs with
    | nil => simp [isort, insertBy]
    | cons y ys =>
      simp only [SortedAdj] at h
      have := ih h.2
      simp only [isort] at this ⊢
      rw [this]
      simp [insertBy, h.1]

end Ampverif.Model.C17
