/-
C04, layer (A) — algebra over ℂ for an ABSTRACT unitary representation of the rotation group.

`WignerRep n` is a structure of hypotheses (not axioms): a map from 3×3 real matrices to n×n complex
matrices that is multiplicative and unitary on proper rotations and diagonal `e^{-i m δ}` on
rotations about z. Everything here is proved for every such structure; `C04Inst.lean` constructs
the instances J = 0 and J = 1 (the latter from SymPy's D¹ entries).
-/
import Ampverif.Lemmas.C04Frame
import Mathlib.LinearAlgebra.Matrix.ConjTranspose
import Mathlib.Analysis.Complex.Basic
import Mathlib.Analysis.SpecialFunctions.Exp
import Mathlib.Analysis.SpecialFunctions.Trigonometric.Basic

namespace Ampverif.Lemmas.C04
open Matrix

/-- Abstract spin-J representation on `Fin n` (n = 2J+1) with weights `wt m` (the projections). -/
structure WignerRep (n : ℕ) where
  D : Matrix (Fin 3) (Fin 3) ℝ → Matrix (Fin n) (Fin n) ℂ
  wt : Fin n → ℝ
  mul : ∀ R S, IsRot R → IsRot S → D (R * S) = D R * D S
  unitary : ∀ R, IsRot R → (D R)ᴴ * D R = 1
  diag : ∀ δ : ℝ, D (Rz3 δ) = Matrix.diagonal fun m => Complex.exp (-(↑(wt m * δ) : ℂ) * Complex.I)

/-- squared norm `Σ_m |v_m|²` -/
noncomputable def nsq {n : ℕ} (v : Fin n → ℂ) : ℝ := ∑ m, Complex.normSq (v m)

theorem nsq_eq_dot {n : ℕ} (v : Fin n → ℂ) : ((nsq v : ℝ) : ℂ) = v ⬝ᵥ star v := by
  simp only [nsq, dotProduct, Complex.ofReal_sum, Pi.star_apply]
  refine Finset.sum_congr rfl fun m _ => ?_
  rw [Complex.star_def, Complex.mul_conj]

/-- `‖v V‖² = ‖v‖²` for unitary `V` -/
theorem nsq_vecMul_unitary {n : ℕ} (V : Matrix (Fin n) (Fin n) ℂ) (hV : V * Vᴴ = 1) (v : Fin n → ℂ) :
    nsq (v ᵥ* V) = nsq v := by
  have h : ((nsq (v ᵥ* V) : ℝ) : ℂ) = ((nsq v : ℝ) : ℂ) := by
    rw [nsq_eq_dot, nsq_eq_dot, Matrix.star_vecMul, Matrix.dotProduct_mulVec, Matrix.vecMul_vecMul,
      hV, Matrix.vecMul_one]
  exact_mod_cast h

theorem nsq_smul {n : ℕ} (c : ℂ) (v : Fin n → ℂ) : nsq (c • v) = Complex.normSq c * nsq v := by
  simp [nsq, Finset.mul_sum, Complex.normSq_mul]

/-- A vector that transforms as `A'_M = c · Σ_{M'} conj(U_{M M'}) A_{M'}` with `U` unitary and
`|c| = 1` keeps its squared norm. -/
theorem nsq_transform {n : ℕ} (U : Matrix (Fin n) (Fin n) ℂ) (hU : Uᴴ * U = 1) (c : ℂ)
    (hc : Complex.normSq c = 1) (A A' : Fin n → ℂ)
    (h : ∀ M, A' M = c * ∑ M', star (U M M') * A M') : nsq A' = nsq A := by
  have hA' : A' = c • (A ᵥ* Uᴴ) := by
    funext M
    rw [h M]
    simp only [Pi.smul_apply, smul_eq_mul, Matrix.vecMul, dotProduct, Matrix.conjTranspose_apply]
    congr 1
    exact Finset.sum_congr rfl fun M' _ => mul_comm _ _
  rw [hA', nsq_smul, hc, one_mul]
  apply nsq_vecMul_unitary
  rw [Matrix.conjTranspose_conjTranspose]; exact hU

namespace WignerRep
variable {n : ℕ} (W : WignerRep n)

/-- phase `e^{i m δ}` -/
noncomputable def ph (m δ : ℝ) : ℂ := Complex.exp ((↑(m * δ) : ℂ) * Complex.I)

theorem normSq_ph (m δ : ℝ) : Complex.normSq (ph m δ) = 1 := by
  rw [ph, Complex.normSq_eq_norm_sq, Complex.norm_exp_ofReal_mul_I]; norm_num

theorem star_ph (m δ : ℝ) : star (ph m δ) = ph m (-δ) := by
  rw [ph, ph, Complex.star_def, ← Complex.exp_conj]
  congr 1
  simp [Complex.conj_ofReal]

theorem ph_add (m m' δ : ℝ) : ph m δ * ph m' δ = ph (m + m') δ := by
  rw [ph, ph, ph, ← Complex.exp_add]; congr 1; push_cast; ring

theorem ph_zero (δ : ℝ) : ph 0 δ = 1 := by simp [ph]

theorem diag_apply (δ : ℝ) (m m' : Fin n) :
    W.D (Rz3 δ) m m' = if m = m' then ph (W.wt m) (-δ) else 0 := by
  rw [W.diag, Matrix.diagonal_apply, ph]
  split_ifs
  · congr 1; push_cast; ring
  · rfl

/-- `D(R · h · Rz(−δ))_{M μ} = Σ_{M'} D(R)_{M M'} D(h)_{M' μ} e^{+i μ δ}` -/
theorem frame_entry (R h : Matrix (Fin 3) (Fin 3) ℝ) (hR : IsRot R) (hh : IsRot h) (δ : ℝ)
    (M μ : Fin n) :
    W.D (R * h * Rz3 (-δ)) M μ = (∑ M', W.D R M M' * W.D h M' μ) * ph (W.wt μ) δ := by
  rw [W.mul _ _ (hR.mul hh) (Rz3_isRot _), W.mul _ _ hR hh, Matrix.mul_apply]
  simp only [diag_apply, neg_neg, mul_ite, mul_zero, Finset.sum_ite_eq', Finset.mem_univ, if_true]
  rw [Matrix.mul_apply]

/-- `D(Rz(δ) · h)_{λ ν} = e^{−i λ δ} D(h)_{λ ν}` -/
theorem child_entry (h : Matrix (Fin 3) (Fin 3) ℝ) (hh : IsRot h) (δ : ℝ) (l ν : Fin n) :
    W.D (Rz3 δ * h) l ν = ph (W.wt l) (-δ) * W.D h l ν := by
  rw [W.mul _ _ (Rz3_isRot _) hh, Matrix.mul_apply]
  simp only [diag_apply, ite_mul, zero_mul, Finset.sum_ite_eq, Finset.mem_univ, if_true]

end WignerRep

/-- Two-level chain amplitude with the source's shape
`Σ_{λ,ν} conj D^J_{M, ι λ}(h) · H_{λ ν} · conj D^j_{λ ν}(h₁)`: the decaying child (spin j,
representation `W'`) has helicity λ, `ι λ` is the index `λ − λ_spectator` of the parent's
D-function, `H` collects couplings and every deeper factor. -/
noncomputable def chain2 {n k : ℕ} (W : WignerRep n) (W' : WignerRep k) (ι : Fin k → Fin n)
    (H : Fin k → Fin k → ℂ) (h h₁ : Matrix (Fin 3) (Fin 3) ℝ) (M : Fin n) : ℂ :=
  ∑ l, ∑ ν, star (W.D h M (ι l)) * H l ν * star (W'.D h₁ l ν)

/-- Under a global rotation (`h' = R h Rz(−δ)`, child frame rotated by `Rz δ`) the chain amplitude
transforms as `A'_M = e^{i s δ} Σ_{M'} conj D^J_{M M'}(R) A_{M'}`, where `s` is the spectator's
helicity (`wt (ι λ) = wt' λ − s`). -/
theorem chain2_transform {n k : ℕ} (W : WignerRep n) (W' : WignerRep k) (ι : Fin k → Fin n) (s : ℝ)
    (hι : ∀ l, W.wt (ι l) = W'.wt l - s) (H : Fin k → Fin k → ℂ)
    (R h h₁ : Matrix (Fin 3) (Fin 3) ℝ) (hR : IsRot R) (hh : IsRot h) (hh₁ : IsRot h₁) (δ : ℝ)
    (M : Fin n) :
    chain2 W W' ι H (R * h * Rz3 (-δ)) (Rz3 δ * h₁) M
      = WignerRep.ph s δ * ∑ M', star (W.D R M M') * chain2 W W' ι H h h₁ M' := by
  unfold chain2
  have key : ∀ l ν, star (W.D (R * h * Rz3 (-δ)) M (ι l)) * H l ν * star (W'.D (Rz3 δ * h₁) l ν)
      = WignerRep.ph s δ * ∑ M', star (W.D R M M') * (star (W.D h M' (ι l)) * H l ν * star (W'.D h₁ l ν)) := by
    intro l ν
    rw [W.frame_entry R h hR hh, W'.child_entry h₁ hh₁, star_mul', star_mul', WignerRep.star_ph,
      WignerRep.star_ph, neg_neg, star_sum, hι l]
    have hp : WignerRep.ph (W'.wt l - s) (-δ) * WignerRep.ph (W'.wt l) δ = WignerRep.ph s δ := by
      rw [WignerRep.ph, WignerRep.ph, WignerRep.ph, ← Complex.exp_add]; congr 1; push_cast; ring
    calc (∑ M', star (W.D R M M' * W.D h M' (ι l))) * WignerRep.ph (W'.wt l - s) (-δ) * H l ν
          * (WignerRep.ph (W'.wt l) δ * star (W'.D h₁ l ν))
        = (WignerRep.ph (W'.wt l - s) (-δ) * WignerRep.ph (W'.wt l) δ)
          * ((∑ M', star (W.D R M M' * W.D h M' (ι l))) * (H l ν * star (W'.D h₁ l ν))) := by ring
      _ = WignerRep.ph s δ * ∑ M', star (W.D R M M') * (star (W.D h M' (ι l)) * H l ν * star (W'.D h₁ l ν)) := by
          rw [hp, Finset.sum_mul]
          congr 1
          refine Finset.sum_congr rfl fun M' _ => ?_
          rw [star_mul']; ring
  simp_rw [key, Finset.mul_sum]
  conv_rhs => rw [Finset.sum_comm]
  refine Finset.sum_congr rfl fun l _ => ?_
  exact Finset.sum_comm

/-- Single topology: `Σ_M |A_M|²` of the two-level chain is invariant. -/
theorem chain2_intensity {n k : ℕ} (W : WignerRep n) (W' : WignerRep k) (ι : Fin k → Fin n) (s : ℝ)
    (hι : ∀ l, W.wt (ι l) = W'.wt l - s) (H : Fin k → Fin k → ℂ)
    (R h h₁ : Matrix (Fin 3) (Fin 3) ℝ) (hR : IsRot R) (hh : IsRot h) (hh₁ : IsRot h₁) (δ : ℝ) :
    nsq (chain2 W W' ι H (R * h * Rz3 (-δ)) (Rz3 δ * h₁)) = nsq (chain2 W W' ι H h h₁) :=
  nsq_transform (W.D R) (W.unitary R hR) (WignerRep.ph s δ) (WignerRep.normSq_ph s δ) _ _
    (chain2_transform W W' ι s hι H R h h₁ hR hh hh₁ δ)

/-- Several topologies, all spectators spinless (`s = 0` everywhere): the amplitudes of all
topologies transform with the SAME matrix `conj D^J(R)`, hence so does any linear combination,
and the coherent sum keeps its squared norm. Each topology `t` has its own child representation,
index map, couplings, frames `(h t, h₁ t)` and its own angle `δ t`. -/
theorem multi_topology_intensity {n : ℕ} (W : WignerRep n) {T : Type} [Fintype T]
    (k : T → ℕ) (W' : ∀ t, WignerRep (k t)) (ι : ∀ t, Fin (k t) → Fin n)
    (hι : ∀ t l, W.wt (ι t l) = (W' t).wt l - 0)
    (H : ∀ t, Fin (k t) → Fin (k t) → ℂ) (c : T → ℂ)
    (R : Matrix (Fin 3) (Fin 3) ℝ) (hR : IsRot R)
    (h h₁ : T → Matrix (Fin 3) (Fin 3) ℝ) (hh : ∀ t, IsRot (h t)) (hh₁ : ∀ t, IsRot (h₁ t))
    (δ : T → ℝ) :
    nsq (fun M => ∑ t, c t * chain2 W (W' t) (ι t) (H t) (R * h t * Rz3 (-(δ t))) (Rz3 (δ t) * h₁ t) M)
      = nsq (fun M => ∑ t, c t * chain2 W (W' t) (ι t) (H t) (h t) (h₁ t) M) := by
  apply nsq_transform (W.D R) (W.unitary R hR) 1 (by simp)
  intro M
  rw [one_mul]
  simp_rw [chain2_transform W (W' _) (ι _) 0 (hι _) (H _) R (h _) (h₁ _) hR (hh _) (hh₁ _) (δ _) M,
    WignerRep.ph_zero, one_mul, Finset.mul_sum]
  rw [Finset.sum_comm]
  refine Finset.sum_congr rfl fun M' _ => Finset.sum_congr rfl fun t _ => ?_
  ring


/-! ### what the intensity of ONE topology really depends on -/

/-- the decaying child's own amplitude `c_λ = Σ_ν H_{λν} conj D^j_{λν}(h₁)` -/
noncomputable def childAmp {k : ℕ} (W' : WignerRep k) (H : Fin k → Fin k → ℂ)
    (h₁ : Matrix (Fin 3) (Fin 3) ℝ) (l : Fin k) : ℂ :=
  ∑ ν, H l ν * star (W'.D h₁ l ν)

/-- child amplitudes collected per index μ of the parent's D-function -/
noncomputable def collected {n k : ℕ} (ι : Fin k → Fin n) (c : Fin k → ℂ) (μ : Fin n) : ℂ :=
  ∑ l, if ι l = μ then c l else 0

theorem chain2_eq_vecMul {n k : ℕ} (W : WignerRep n) (W' : WignerRep k) (ι : Fin k → Fin n)
    (H : Fin k → Fin k → ℂ) (h h₁ : Matrix (Fin 3) (Fin 3) ℝ) :
    chain2 W W' ι H h h₁ = collected ι (childAmp W' H h₁) ᵥ* (W.D h)ᴴ := by
  funext M
  have hL : chain2 W W' ι H h h₁ M = ∑ l, childAmp W' H h₁ l * star (W.D h M (ι l)) := by
    unfold chain2 childAmp
    refine Finset.sum_congr rfl fun l _ => ?_
    rw [Finset.sum_mul]
    refine Finset.sum_congr rfl fun ν _ => ?_
    ring
  have hR : (collected ι (childAmp W' H h₁) ᵥ* (W.D h)ᴴ) M
      = ∑ l, ∑ μ, (if ι l = μ then childAmp W' H h₁ l * star (W.D h M μ) else 0) := by
    simp only [Matrix.vecMul, dotProduct, collected, Matrix.conjTranspose_apply, Finset.sum_mul]
    rw [Finset.sum_comm]
    refine Finset.sum_congr rfl fun l _ => Finset.sum_congr rfl fun μ _ => ?_
    split_ifs <;> simp
  rw [hL, hR]
  refine Finset.sum_congr rfl fun l _ => ?_
  rw [Finset.sum_ite_eq]
  simp

/-- By unitarity of `D^J(h)` the unpolarised intensity of one topology does not depend on the
production frame `h` at all: it is the squared norm of the collected child amplitudes. -/
theorem chain2_nsq {n k : ℕ} (W : WignerRep n) (W' : WignerRep k) (ι : Fin k → Fin n)
    (H : Fin k → Fin k → ℂ) (h h₁ : Matrix (Fin 3) (Fin 3) ℝ) (hh : IsRot h) :
    nsq (chain2 W W' ι H h h₁) = nsq (collected ι (childAmp W' H h₁)) := by
  rw [chain2_eq_vecMul]
  apply nsq_vecMul_unitary
  rw [Matrix.conjTranspose_conjTranspose]
  exact W.unitary h hh

theorem childAmp_Rz {k : ℕ} (W' : WignerRep k) (H : Fin k → Fin k → ℂ)
    (h₁ : Matrix (Fin 3) (Fin 3) ℝ) (hh₁ : IsRot h₁) (δ : ℝ) (l : Fin k) :
    childAmp W' H (Rz3 δ * h₁) l = WignerRep.ph (W'.wt l) δ * childAmp W' H h₁ l := by
  simp only [childAmp, Finset.mul_sum]
  refine Finset.sum_congr rfl fun ν _ => ?_
  rw [W'.child_entry h₁ hh₁, star_mul', WignerRep.star_ph, neg_neg]
  ring

/-- (W) Why every SINGLE topology is invariant whatever sign convention links the parent's
D-function index to the child's helicity: if different helicities of the decaying child feed
different indices μ (`ι` injective — always the case, μ = ±(λ − λ_spectator)), the intensity is
`Σ_λ |c_λ|²`, and a rotation only multiplies each `c_λ` by a unit phase. No relation between
`wt (ι λ)` and `wt' λ` is assumed, and the new production frame `h'` is arbitrary. -/
theorem single_topology_any_convention {n k : ℕ} (W : WignerRep n) (W' : WignerRep k)
    (ι : Fin k → Fin n) (hinj : Function.Injective ι) (H : Fin k → Fin k → ℂ)
    (h h' h₁ : Matrix (Fin 3) (Fin 3) ℝ) (hh : IsRot h) (hh' : IsRot h') (hh₁ : IsRot h₁) (δ : ℝ) :
    nsq (chain2 W W' ι H h' (Rz3 δ * h₁)) = nsq (chain2 W W' ι H h h₁) := by
  rw [chain2_nsq W W' ι H h' _ hh', chain2_nsq W W' ι H h _ hh]
  unfold nsq collected
  refine Finset.sum_congr rfl fun μ _ => ?_
  by_cases hex : ∃ l, ι l = μ
  · obtain ⟨l0, hl0⟩ := hex
    have hone : ∀ (c : Fin k → ℂ), (∑ l, if ι l = μ then c l else 0) = c l0 := by
      intro c
      rw [Finset.sum_eq_single l0]
      · simp [hl0]
      · intro b _ hb
        have : ι b ≠ μ := fun hbμ => hb (hinj (hbμ.trans hl0.symm))
        simp [this]
      · intro hn; exact absurd (Finset.mem_univ l0) hn
    rw [hone, hone, childAmp_Rz W' H h₁ hh₁, Complex.normSq_mul, WignerRep.normSq_ph, one_mul]
  · have hnone : ∀ (c : Fin k → ℂ), (∑ l, if ι l = μ then c l else 0) = 0 := by
      intro c
      apply Finset.sum_eq_zero
      intro l _
      have : ι l ≠ μ := fun hl => hex ⟨l, hl⟩
      simp [this]
    rw [hnone, hnone]

/-- (W) The source's convention for a DECAYING OPPOSITE-helicity child (`μ = λ_spectator − λ`,
i.e. `wt (ι λ) = s − wt' λ`, with the frames of that child): the rotated amplitude is the
correctly transformed amplitude of a model whose couplings carry the helicity-dependent phase
`e^{2 i λ δ}`. This phase cannot be absorbed in a common factor, which is what breaks the
coherent sum over several topologies. -/
theorem chain2_opposite_transform {n k : ℕ} (W : WignerRep n) (W' : WignerRep k) (ι : Fin k → Fin n)
    (s : ℝ) (hι : ∀ l, W.wt (ι l) = s - W'.wt l) (H : Fin k → Fin k → ℂ)
    (R h h₁ : Matrix (Fin 3) (Fin 3) ℝ) (hR : IsRot R) (hh : IsRot h) (hh₁ : IsRot h₁) (δ : ℝ)
    (M : Fin n) :
    chain2 W W' ι H (R * h * Rz3 (-δ)) (Rz3 δ * h₁) M
      = WignerRep.ph s (-δ) * ∑ M', star (W.D R M M')
          * chain2 W W' ι (fun l ν => WignerRep.ph (2 * W'.wt l) δ * H l ν) h h₁ M' := by
  unfold chain2
  have key : ∀ l ν, star (W.D (R * h * Rz3 (-δ)) M (ι l)) * H l ν * star (W'.D (Rz3 δ * h₁) l ν)
      = WignerRep.ph s (-δ) * ∑ M', star (W.D R M M')
          * (star (W.D h M' (ι l)) * (WignerRep.ph (2 * W'.wt l) δ * H l ν) * star (W'.D h₁ l ν)) := by
    intro l ν
    rw [W.frame_entry R h hR hh, W'.child_entry h₁ hh₁, star_mul', star_mul', WignerRep.star_ph,
      WignerRep.star_ph, neg_neg, star_sum, hι l]
    have hp : WignerRep.ph (s - W'.wt l) (-δ) * WignerRep.ph (W'.wt l) δ
        = WignerRep.ph s (-δ) * WignerRep.ph (2 * W'.wt l) δ := by
      rw [WignerRep.ph, WignerRep.ph, WignerRep.ph, WignerRep.ph, ← Complex.exp_add, ← Complex.exp_add]
      congr 1; push_cast; ring
    calc (∑ M', star (W.D R M M' * W.D h M' (ι l))) * WignerRep.ph (s - W'.wt l) (-δ) * H l ν
          * (WignerRep.ph (W'.wt l) δ * star (W'.D h₁ l ν))
        = (WignerRep.ph (s - W'.wt l) (-δ) * WignerRep.ph (W'.wt l) δ)
          * ((∑ M', star (W.D R M M' * W.D h M' (ι l))) * (H l ν * star (W'.D h₁ l ν))) := by ring
      _ = _ := by
          rw [hp, Finset.sum_mul, mul_assoc, Finset.mul_sum]
          congr 1
          refine Finset.sum_congr rfl fun M' _ => ?_
          rw [star_mul']; ring
  simp_rw [key, Finset.mul_sum]
  conv_rhs => rw [Finset.sum_comm]
  refine Finset.sum_congr rfl fun l _ => ?_
  exact Finset.sum_comm

end Ampverif.Lemmas.C04
