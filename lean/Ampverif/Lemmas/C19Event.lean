/-
Construction of a rest-frame event from its invariants (used for the converse
"every point of the Dalitz region comes from an event").
-/
import Ampverif.Lemmas.C19Vec
import Mathlib.Tactic.LinearCombination

namespace Ampverif.Lemmas.C19

/-- Planar event `p₁ = (E₁; q₁, 0, 0)`, `p₂ = (E₂; x, y, 0)`, `p₃ = −p₁ − p₂` (spatially) with
`E₃ = m₀ − E₁ − E₂`: it has the seven invariant masses as soon as the energies, `|p⃗₁|`, `|p⃗₂|` and
`p⃗₁·p⃗₂` have the values fixed by the invariants. -/
theorem masses_of_components {m_0 m_1 m_2 m_3 m_12 m_13 m_23 : ℝ} (E1 E2 q1 x y : ℝ)
    (hc : m_12 ^ 2 + m_13 ^ 2 + m_23 ^ 2 = m_0 ^ 2 + m_1 ^ 2 + m_2 ^ 2 + m_3 ^ 2)
    (hE1 : 2 * m_0 * E1 = m_0 ^ 2 + m_1 ^ 2 - m_23 ^ 2)
    (hE2 : 2 * m_0 * E2 = m_0 ^ 2 + m_2 ^ 2 - m_13 ^ 2)
    (hq : q1 ^ 2 = E1 ^ 2 - m_1 ^ 2) (hxy : x ^ 2 + y ^ 2 = E2 ^ 2 - m_2 ^ 2)
    (hd : q1 * x = E1 * E2 - (m_12 ^ 2 - m_1 ^ 2 - m_2 ^ 2) / 2) :
    Masses ⟨E1, q1, 0, 0⟩ ⟨E2, x, y, 0⟩ ⟨m_0 - E1 - E2, -q1 - x, -y, 0⟩
      m_0 m_1 m_2 m_3 m_12 m_13 m_23 := by
  constructor <;> simp only [V4.dot, V4.add_E, V4.add_x, V4.add_y, V4.add_z]
  · ring
  · linear_combination hq
  · linear_combination hxy
  · linear_combination hq + hxy + 2 * hd + hE1 + hE2 - hc
  · linear_combination hq + hxy + 2 * hd
  · linear_combination hxy + hE2
  · linear_combination hq + hE1

end Ampverif.Lemmas.C19
