/-
C05 — denotation of alignment skeletons and the wiring theorem.

`psum` is the meaning of `PoolSum` (every value of the pool is substituted for the index and the
results are added; the first index is the outermost sum). `amplitude` is the meaning of a flat
skeleton for ANY interpretation `D` of the Wigner factors and ANY amplitude tensor `A`.
`alignedS` is the "one matrix per outer state" reading: the amplitude tensor is contracted, state
by state, with the chain matrix of that state. `wiring` says they are the same function — for any
number of states and any chain lengths, over any commutative semiring.
-/
import Ampverif.Model.C05Align
import Mathlib.Algebra.BigOperators.Group.List.Basic
import Mathlib.Algebra.BigOperators.Ring.List
import Mathlib.Logic.Function.Basic
import Mathlib.Algebra.Ring.Int.Defs

namespace Ampverif.Lemmas.C05Wiring
open Ampverif.Model.C05Align

abbrev Env := Var → ℤ

variable {R : Type*} [CommSemiring R]

/-- meaning of `PoolSum(f, (x₁, pool₁), (x₂, pool₂), …)` -/
def psum : List (Var × List ℤ) → (Env → R) → Env → R
  | [], f, env => f env
  | (x, pool) :: rest, f, env => (pool.map fun v => psum rest f (Function.update env x v)).sum

def evalFactor (D : ℕ → Angle → ℤ → ℤ → R) (env : Env) (f : Factor) : R :=
  D f.j2 f.angle (env f.row) (env f.col)

def evalIdx (env : Env) (p : Bool × Var) : ℤ := if p.1 then -env p.2 else env p.2

def prodFactors (D : ℕ → Angle → ℤ → ℤ → R) (fs : List Factor) (env : Env) : R :=
  (fs.map (evalFactor D env)).prod

/-- the summand of the inner `PoolSum`: all Wigner factors times `A[…]` -/
def term (D : ℕ → Angle → ℤ → ℤ → R) (A : List ℤ → R) (sk : Skeleton) (env : Env) : R :=
  prodFactors D sk.factors env * A (sk.amp.map (evalIdx env))

/-- the aligned amplitude as a function of the outer spin projections (read from `env`) -/
def amplitude (D : ℕ → Angle → ℤ → ℤ → R) (A : List ℤ → R) (sk : Skeleton) (env : Env) : R :=
  psum sk.sums (term D A sk) env

/-! ## the structured reading -/

/-- matrix element `(upper, lower)` of one rotation -/
def linkMat (D : ℕ → Angle → ℤ → ℤ → R) (l : Link) (upper lower : ℤ) : R :=
  if l.transposed then D l.j2 l.angle lower upper else D l.j2 l.angle upper lower

/-- matrix element `(m, v)` of the product of a chain of rotations (innermost first):
`chainMat [l₀, l₁, …] = … · M(l₁) · M(l₀)`, sums over `pool`. The empty chain is the constant `1`. -/
def chainMat (D : ℕ → Angle → ℤ → ℤ → R) (pool : List ℤ) : List Link → ℤ → ℤ → R
  | [], _, _ => 1
  | [l], m, v => linkMat D l m v
  | l :: l' :: rest, m, v =>
    (pool.map fun w => linkMat D l w v * chainMat D pool (l' :: rest) m w).sum

def sgn (neg : Bool) (v : ℤ) : ℤ := if neg then -v else v

/-- contraction of the amplitude tensor with one matrix per state, state by state -/
def alignedS (D : ℕ → Angle → ℤ → ℤ → R) : List Spec → (List ℤ → R) → Env → R
  | [], A, _ => A []
  | .direct e _ :: r, A, env => alignedS D r (fun ls => A (env (.outer e) :: ls)) env
  | .chain e _ pool neg links :: r, A, env =>
    (pool.map fun l =>
      chainMat D pool links (env (.outer e)) l * alignedS D r (fun ls => A (sgn neg l :: ls)) env).sum

/-! ## generic facts about `psum` -/

theorem psum_append (xs ys : List (Var × List ℤ)) (f : Env → R) (env : Env) :
    psum (xs ++ ys) f env = psum xs (psum ys f) env := by
  induction xs generalizing env with
  | nil => rfl
  | cons x xs ih =>
    obtain ⟨x, pool⟩ := x
    simp only [List.cons_append, psum]
    congr 1
    apply List.map_congr_left
    intro v _
    exact ih _

/-- the summand only matters on environments that differ from `env` at the summed indices -/
theorem psum_congr (xs : List (Var × List ℤ)) (f g : Env → R) (env : Env)
    (h : ∀ env' : Env, (∀ y, y ∉ xs.map Prod.fst → env' y = env y) → f env' = g env') :
    psum xs f env = psum xs g env := by
  induction xs generalizing env with
  | nil => exact h env (fun _ _ => rfl)
  | cons x xs ih =>
    obtain ⟨x, pool⟩ := x
    simp only [psum]
    congr 1
    apply List.map_congr_left
    intro v _
    apply ih
    intro env' h'
    apply h
    intro y hy
    have hy1 : y ≠ x := fun e => hy (by simp [e])
    have hy2 : y ∉ xs.map Prod.fst := fun e => hy (by simp only [List.map_cons, List.mem_cons]; exact Or.inr e)
    rw [h' y hy2, Function.update_of_ne hy1]

theorem psum_mul_left (xs : List (Var × List ℤ)) (c : R) (f : Env → R) (env : Env) :
    psum xs (fun e => c * f e) env = c * psum xs f env := by
  induction xs generalizing env with
  | nil => rfl
  | cons x xs ih =>
    obtain ⟨x, pool⟩ := x
    simp only [psum]
    rw [← List.sum_map_mul_left]
    congr 1
    apply List.map_congr_left
    intro v _
    exact ih _

theorem psum_mul_right (xs : List (Var × List ℤ)) (c : R) (f : Env → R) (env : Env) :
    psum xs (fun e => f e * c) env = psum xs f env * c := by
  have : (fun e => f e * c) = fun e => c * f e := by funext e; exact mul_comm _ _
  rw [this, psum_mul_left, mul_comm]

/-! ## which variables a spec uses -/

/-- `x` is one of the index variables attached to state `e` -/
def Var.isOf (e : ℤ) : Var → Prop
  | .outer e' => e' = e
  | .inner _ e' => e' = e

theorem linkSums_vars (e : ℤ) (pool : List ℤ) (k : ℕ) (links : List Link) :
    ∀ x ∈ (linkSums e pool k links).map Prod.fst, ∃ k', k < k' ∧ x = Var.inner k' e := by
  induction links generalizing k with
  | nil => intro x hx; simp [linkSums] at hx
  | cons l rest ih =>
    cases rest with
    | nil => intro x hx; simp [linkSums] at hx
    | cons l' rest =>
      intro x hx
      simp only [linkSums, List.map_cons, List.mem_cons] at hx
      rcases hx with rfl | hx
      · exact ⟨k + 1, Nat.lt_succ_self k, rfl⟩
      · obtain ⟨k', hk, rfl⟩ := ih (k + 1) x hx
        exact ⟨k', by omega, rfl⟩

theorem spec_sums_vars (s : Spec) :
    ∀ x ∈ s.sums.map Prod.fst, ∃ k, x = Var.inner k s.state := by
  cases s with
  | direct e op => intro x hx; simp [Spec.sums] at hx
  | chain e op pool neg links =>
    intro x hx
    simp only [Spec.sums, List.map_cons, List.mem_cons] at hx
    rcases hx with rfl | hx
    · exact ⟨0, rfl⟩
    · obtain ⟨k', _, rfl⟩ := linkSums_vars e pool 0 links x hx
      exact ⟨k', rfl⟩

theorem flatten_sums_vars (specs : List Spec) :
    ∀ x ∈ (flatten specs).sums.map Prod.fst, ∃ k e, x = Var.inner k e ∧ e ∈ specs.map Spec.state := by
  induction specs with
  | nil => intro x hx; simp [flatten] at hx
  | cons s rest ih =>
    intro x hx
    simp only [flatten, List.map_append, List.mem_append] at hx
    rcases hx with hx | hx
    · obtain ⟨k, rfl⟩ := spec_sums_vars s x hx
      exact ⟨k, s.state, rfl, by simp⟩
    · obtain ⟨k, e, rfl, he⟩ := ih x hx
      exact ⟨k, e, rfl, by simp only [List.map_cons, List.mem_cons]; exact Or.inr he⟩

theorem linkFactors_vars (e : ℤ) (k : ℕ) (links : List Link) :
    ∀ f ∈ linkFactors e k links, Var.isOf e f.row ∧ Var.isOf e f.col := by
  induction links generalizing k with
  | nil => intro f hf; simp [linkFactors] at hf
  | cons l rest ih =>
    cases rest with
    | nil =>
      intro f hf
      simp only [linkFactors, List.mem_singleton] at hf
      subst hf
      unfold mkFactor
      split <;> simp [Var.isOf]
    | cons l' rest =>
      intro f hf
      simp only [linkFactors, List.mem_cons] at hf
      rcases hf with rfl | hf
      · unfold mkFactor
        split <;> simp [Var.isOf]
      · exact ih (k + 1) f (by simpa [List.mem_cons] using hf)

theorem spec_factors_vars (s : Spec) :
    ∀ f ∈ s.factors, Var.isOf s.state f.row ∧ Var.isOf s.state f.col := by
  cases s with
  | direct e op => intro f hf; simp [Spec.factors] at hf
  | chain e op pool neg links => exact linkFactors_vars e 0 links

theorem spec_amp_var (s : Spec) : Var.isOf s.state s.amp.2 := by
  cases s <;> simp [Spec.amp, Spec.state, Var.isOf]

/-- two environments that agree on the variables of state `e` give the same factors -/
theorem prodFactors_congr (D : ℕ → Angle → ℤ → ℤ → R) (e : ℤ) (fs : List Factor)
    (hfs : ∀ f ∈ fs, Var.isOf e f.row ∧ Var.isOf e f.col) (env env' : Env)
    (h : ∀ x, Var.isOf e x → env' x = env x) : prodFactors D fs env' = prodFactors D fs env := by
  unfold prodFactors
  congr 1
  apply List.map_congr_left
  intro f hf
  unfold evalFactor
  rw [h _ (hfs f hf).1, h _ (hfs f hf).2]

/-- `alignedS` reads the environment only at outer variables -/
theorem alignedS_congr (D : ℕ → Angle → ℤ → ℤ → R) (specs : List Spec) (A : List ℤ → R)
    (env env' : Env) (h : ∀ e, env' (.outer e) = env (.outer e)) :
    alignedS D specs A env' = alignedS D specs A env := by
  induction specs generalizing A with
  | nil => rfl
  | cons s rest ih =>
    cases s with
    | direct e op => simp only [alignedS, h e]; exact ih _
    | chain e op pool neg links =>
      simp only [alignedS, h e]
      congr 1
      apply List.map_congr_left
      intro l _
      rw [ih]

/-! ## the chain of one state -/

theorem chain_sum (D : ℕ → Angle → ℤ → ℤ → R) (e : ℤ) (pool : List ℤ) (links : List Link)
    (k : ℕ) (env : Env) :
    psum (linkSums e pool k links) (prodFactors D (linkFactors e k links)) env
      = chainMat D pool links (env (.outer e)) (env (.inner k e)) := by
  induction links generalizing k env with
  | nil => simp [linkSums, linkFactors, psum, prodFactors, chainMat]
  | cons l rest ih =>
    cases rest with
    | nil =>
      simp only [linkSums, linkFactors, psum, prodFactors, chainMat, List.map_cons, List.map_nil,
        List.prod_cons, List.prod_nil, mul_one]
      unfold evalFactor mkFactor linkMat
      split <;> rfl
    | cons l' rest =>
      simp only [linkSums, linkFactors, psum, chainMat]
      congr 1
      apply List.map_congr_left
      intro w _
      have hstep : psum (linkSums e pool (k + 1) (l' :: rest))
          (prodFactors D (mkFactor l (.inner (k + 1) e) (.inner k e) :: linkFactors e (k + 1) (l' :: rest)))
          (Function.update env (.inner (k + 1) e) w)
          = psum (linkSums e pool (k + 1) (l' :: rest))
            (fun env' => linkMat D l w (env (.inner k e)) * prodFactors D (linkFactors e (k + 1) (l' :: rest)) env')
            (Function.update env (.inner (k + 1) e) w) := by
        apply psum_congr
        intro env' h'
        have h1 : env' (.inner (k + 1) e) = w := by
          rw [h' _ ?_, Function.update_self]
          intro hmem
          obtain ⟨k', hk, heq⟩ := linkSums_vars e pool (k + 1) (l' :: rest) _ hmem
          injection heq with h1 h2
          omega
        have h2 : env' (.inner k e) = env (.inner k e) := by
          rw [h' _ ?_, Function.update_of_ne (by intro hh; injection hh with h1 h2; omega)]
          intro hmem
          obtain ⟨k', hk, heq⟩ := linkSums_vars e pool (k + 1) (l' :: rest) _ hmem
          injection heq with h1 h2
          omega
        simp only [prodFactors, List.map_cons, List.prod_cons]
        congr 1
        unfold evalFactor mkFactor linkMat
        split <;> simp [h1, h2]
      rw [hstep, psum_mul_left, ih (k + 1)]
      rw [Function.update_self, Function.update_of_ne (by intro hh; cases hh)]

/-! ## the wiring theorem -/

theorem term_cons (D : ℕ → Angle → ℤ → ℤ → R) (A : List ℤ → R) (s : Spec) (rest : List Spec) (env : Env) :
    term D A (flatten (s :: rest)) env
      = prodFactors D s.factors env
        * term D (fun ls => A (evalIdx env s.amp :: ls)) (flatten rest) env := by
  simp only [term, flatten, prodFactors, List.map_append, List.prod_append, List.map_cons, mul_assoc]

/-- For any number of outer states, any chain lengths, any interpretation of the Wigner factors and
any amplitude tensor: the flat skeleton (named indices, one big `PoolSum`) denotes the
state-by-state contraction of `A` with one chain matrix per state. -/
theorem wiring (D : ℕ → Angle → ℤ → ℤ → R) (specs : List Spec)
    (hnd : (specs.map Spec.state).Nodup) (A : List ℤ → R) (env : Env) :
    amplitude D A (flatten specs) env = alignedS D specs A env := by
  unfold amplitude
  induction specs generalizing A env with
  | nil => simp [flatten, psum, term, prodFactors, alignedS]
  | cons s rest ih =>
    have hs : s.state ∉ rest.map Spec.state := (List.nodup_cons.mp hnd).1
    have hrest : (rest.map Spec.state).Nodup := (List.nodup_cons.mp hnd).2
    -- variables of state `s` are untouched by the sums of the other states
    have hoff : ∀ (env₁ env' : Env),
        (∀ y, y ∉ (flatten rest).sums.map Prod.fst → env' y = env₁ y) →
        ∀ x, Var.isOf s.state x → env' x = env₁ x := by
      intro env₁ env' h' x hx
      apply h'
      intro hmem
      obtain ⟨k, e, rfl, he⟩ := flatten_sums_vars rest x hmem
      simp only [Var.isOf] at hx
      exact hs (hx ▸ he)
    -- step 1: sum over the indices of the other states
    have hinner : ∀ env₁ : Env, psum (flatten rest).sums (term D A (flatten (s :: rest))) env₁
        = prodFactors D s.factors env₁
          * alignedS D rest (fun ls => A (evalIdx env₁ s.amp :: ls)) env₁ := by
      intro env₁
      rw [← ih hrest, ← psum_mul_left]
      apply psum_congr
      intro env' h'
      rw [term_cons]
      have hx := hoff env₁ env' h'
      rw [prodFactors_congr D s.state s.factors (spec_factors_vars s) env₁ env' hx]
      have : evalIdx env' s.amp = evalIdx env₁ s.amp := by
        unfold evalIdx
        rw [hx _ (spec_amp_var s)]
      rw [this]
    have hsums : (flatten (s :: rest)).sums = s.sums ++ (flatten rest).sums := rfl
    rw [hsums, psum_append]
    have hfun : psum (flatten rest).sums (term D A (flatten (s :: rest)))
        = fun env₁ => prodFactors D s.factors env₁
          * alignedS D rest (fun ls => A (evalIdx env₁ s.amp :: ls)) env₁ := funext hinner
    rw [hfun]
    -- step 2: sum over the indices of state `s`
    cases s with
    | direct e op =>
      simp [Spec.sums, Spec.factors, Spec.amp, psum, prodFactors, alignedS, evalIdx]
    | chain e op pool neg links =>
      simp only [Spec.sums, Spec.factors, Spec.amp, psum, alignedS]
      congr 1
      apply List.map_congr_left
      intro l _
      have hstep : psum (linkSums e pool 0 links)
          (fun env₁ => prodFactors D (linkFactors e 0 links) env₁
            * alignedS D rest (fun ls => A (evalIdx env₁ (neg, Var.inner 0 e) :: ls)) env₁)
          (Function.update env (.inner 0 e) l)
          = psum (linkSums e pool 0 links)
            (fun env₁ => prodFactors D (linkFactors e 0 links) env₁
              * alignedS D rest (fun ls => A (sgn neg l :: ls)) env)
            (Function.update env (.inner 0 e) l) := by
        apply psum_congr
        intro env' h'
        have h0 : env' (.inner 0 e) = l := by
          rw [h' _ ?_, Function.update_self]
          intro hmem
          obtain ⟨k', hk, heq⟩ := linkSums_vars e pool 0 links _ hmem
          injection heq with h1 h2
          omega
        have hout : ∀ e', env' (.outer e') = env (.outer e') := by
          intro e'
          rw [h' _ ?_, Function.update_of_ne (by intro hh; cases hh)]
          intro hmem
          obtain ⟨k', hk, heq⟩ := linkSums_vars e pool 0 links _ hmem
          cases heq
        have hi : evalIdx env' (neg, Var.inner 0 e) = sgn neg l := by
          simp only [evalIdx, sgn, h0]
        rw [hi, alignedS_congr D rest _ env env' hout]
      rw [hstep, psum_mul_right, chain_sum]
      rw [Function.update_self, Function.update_of_ne (by intro hh; cases hh)]

end Ampverif.Lemmas.C05Wiring
