/-
Helper lemmas for C18: environments, the nested finite sum `evalSum`, pool-sum-free terms,
the coincidence lemma (the value depends on the free symbols only) and the substitution lemma
(`subs` = update of the environment) for terms whose pool values are terms themselves.
-/
import Ampverif.Model.Expr
import Mathlib.Algebra.Ring.Rat
import Mathlib.Algebra.BigOperators.Group.List.Basic
import Mathlib.Algebra.BigOperators.Ring.List
import Mathlib.Tactic.Ring

namespace Ampverif.Lemmas.C18
open Ampverif.Model

/-! ### environments -/

theorem upd_same (ρ : Env) (x : Sym) (q : Q) : upd ρ x q x = q := by simp [upd]

theorem upd_other (ρ : Env) {x s : Sym} (q : Q) (h : s ≠ x) : upd ρ x q s = ρ s := by simp [upd, h]

theorem upd_comm (ρ : Env) {x y : Sym} (a b : Q) (h : x ≠ y) :
    upd (upd ρ x a) y b = upd (upd ρ y b) x a := by
  funext s
  by_cases h1 : s = y <;> by_cases h2 : s = x <;> simp_all [upd]

theorem upd_upd (ρ : Env) (x : Sym) (a b : Q) : upd (upd ρ x a) x b = upd ρ x b := by
  funext s
  by_cases h1 : s = x <;> simp [upd, h1]

/-! ### `evalSum` -/

theorem evalSum_congr (ixs : List QBinder) (ρ : Env) (k k' : Env → Q) (h : ∀ ρ, k ρ = k' ρ) :
    evalSum ixs ρ k = evalSum ixs ρ k' := by
  have : k = k' := funext h
  rw [this]

theorem names_cons {α : Type} (p : Sym × α) (rest : List (Sym × α)) :
    names (p :: rest) = p.1 :: names rest := rfl

theorem evalSum_upd_of_not_mem (ixs : List QBinder) :
    ∀ (ρ : Env) (k : Env → Q) (x : Sym) (q : Q), x ∉ names ixs →
      evalSum ixs (upd ρ x q) k = evalSum ixs ρ (fun ρ' => k (upd ρ' x q)) := by
  induction ixs with
  | nil => intro ρ k x q _; rfl
  | cons p rest ih =>
    intro ρ k x q hx
    obtain ⟨i, pool⟩ := p
    have hxi : x ≠ i := by
      intro h; apply hx; simp [names, h]
    have hxr : x ∉ names rest := by
      intro h; apply hx; simp only [names, List.map_cons, List.mem_cons]; right; exact h
    simp only [evalSum]
    congr 1
    apply List.map_congr_left
    intro v _
    rw [upd_comm ρ q v hxi, ih _ _ _ _ hxr]

theorem evalSum_upd_of_mem (ixs : List QBinder) :
    ∀ (ρ : Env) (k : Env → Q) (x : Sym) (q : Q), x ∈ names ixs →
      evalSum ixs (upd ρ x q) k = evalSum ixs ρ k := by
  induction ixs with
  | nil => intro ρ k x q h; simp [names] at h
  | cons p rest ih =>
    intro ρ k x q hx
    obtain ⟨i, pool⟩ := p
    simp only [evalSum]
    congr 1
    apply List.map_congr_left
    intro v _
    by_cases hxi : x = i
    · subst hxi; rw [upd_upd]
    · have hxr : x ∈ names rest := by
        simp only [names, List.map_cons, List.mem_cons] at hx
        rcases hx with h | h
        · exact absurd h hxi
        · exact h
      rw [upd_comm ρ q v hxi, ih _ _ _ _ hxr]

/-- the continuation only matters on environments that differ from `ρ` on the indices. -/
theorem evalSum_congr_agree (ixs : List QBinder) :
    ∀ (ρ : Env) (k k' : Env → Q),
      (∀ ρ' : Env, (∀ s, s ∉ names ixs → ρ' s = ρ s) → k ρ' = k' ρ') →
      evalSum ixs ρ k = evalSum ixs ρ k' := by
  induction ixs with
  | nil => intro ρ k k' h; simp only [evalSum]; exact h ρ (fun _ _ => rfl)
  | cons p rest ih =>
    intro ρ k k' h
    obtain ⟨i, pool⟩ := p
    simp only [evalSum]
    congr 1
    apply List.map_congr_left
    intro v _
    apply ih
    intro ρ' hρ'
    apply h
    intro s hs
    have hsi : s ≠ i := by
      intro e; apply hs; rw [names_cons]; simp [e]
    have hsr : s ∉ names rest := by
      intro e; apply hs; rw [names_cons]; exact List.mem_cons_of_mem _ e
    rw [hρ' s hsr, upd_other _ _ hsi]

/-- `evalSum` is the flat sum over the cartesian product of the pools (in `itertools.product` order). -/
theorem evalSum_flat (ixs : List QBinder) :
    ∀ (ρ : Env) (k : Env → Q),
      evalSum ixs ρ k = ((assignments ixs).map (fun c => k (updAll ρ c))).sum := by
  induction ixs with
  | nil => intro ρ k; simp [evalSum, assignments, updAll]
  | cons p rest ih =>
    intro ρ k
    obtain ⟨i, pool⟩ := p
    simp only [evalSum, assignments]
    induction pool with
    | nil => simp
    | cons v vs ihp =>
      simp only [List.map_cons, List.sum_cons, List.flatMap_cons, List.map_append, List.sum_append]
      rw [ihp, ih]
      simp [List.map_map, Function.comp_def, updAll]

theorem evalList_eq_map (I : Interp) (es : List Expr) (ρ : Env) :
    evalList I es ρ = es.map (fun e => eval I e ρ) := by
  induction es with
  | nil => simp [evalList]
  | cons e es ih => simp [evalList, ih]

theorem names_evalBinders (I : Interp) :
    ∀ (ixs : List Binder) (ρ : Env), names (evalBinders I ixs ρ) = names ixs
  | [], _ => by simp [evalBinders, names]
  | (i, pool) :: rest, ρ => by
      simp only [evalBinders]
      rw [names_cons, names_cons, names_evalBinders I rest ρ]

/-! ### pool-sum-free terms (pool values) -/

mutual
theorem bound_of_noPsum : ∀ e : Expr, noPsum e = true → bound e = []
  | .sym _, _ => by simp [bound]
  | .rat _, _ => by simp [bound]
  | .add es, h => by simp only [bound]; exact boundList_of_noPsum es (by simpa [noPsum] using h)
  | .mul es, h => by simp only [bound]; exact boundList_of_noPsum es (by simpa [noPsum] using h)
  | .pow b _, h => by simp only [bound]; exact bound_of_noPsum b (by simpa [noPsum] using h)
  | .app _ es, h => by simp only [bound]; exact boundList_of_noPsum es (by simpa [noPsum] using h)
  | .node _ es _, h => by simp only [bound]; exact boundList_of_noPsum es (by simpa [noPsum] using h)
  | .psum _ _, h => by simp [noPsum] at h
  | .idx _ es, h => by simp only [bound]; exact boundList_of_noPsum es (by simpa [noPsum] using h)
theorem boundList_of_noPsum : ∀ es : List Expr, noPsumList es = true → boundList es = []
  | [], _ => by simp [boundList]
  | e :: es, h => by
      have h' : noPsum e = true ∧ noPsumList es = true := by simpa [noPsumList] using h
      simp [boundList, bound_of_noPsum e h'.1, boundList_of_noPsum es h'.2]
end

mutual
theorem wfSums_of_noPsum : ∀ e : Expr, noPsum e = true → wfSums e = true
  | .sym _, _ => by simp [wfSums]
  | .rat _, _ => by simp [wfSums]
  | .add es, h => by simp only [wfSums]; exact wfSumsList_of_noPsum es (by simpa [noPsum] using h)
  | .mul es, h => by simp only [wfSums]; exact wfSumsList_of_noPsum es (by simpa [noPsum] using h)
  | .pow b _, h => by simp only [wfSums]; exact wfSums_of_noPsum b (by simpa [noPsum] using h)
  | .app _ es, h => by simp only [wfSums]; exact wfSumsList_of_noPsum es (by simpa [noPsum] using h)
  | .node _ es _, h => by simp only [wfSums]; exact wfSumsList_of_noPsum es (by simpa [noPsum] using h)
  | .psum _ _, h => by simp [noPsum] at h
  | .idx _ es, h => by simp only [wfSums]; exact wfSumsList_of_noPsum es (by simpa [noPsum] using h)
theorem wfSumsList_of_noPsum : ∀ es : List Expr, noPsumList es = true → wfSumsList es = true
  | [], _ => by simp [wfSumsList]
  | e :: es, h => by
      have h' : noPsum e = true ∧ noPsumList es = true := by simpa [noPsumList] using h
      simp [wfSumsList, wfSums_of_noPsum e h'.1, wfSumsList_of_noPsum es h'.2]
end

/-- what `wfSums` says about one pool sum. -/
theorem wfSums_psum {b : Expr} {ixs : List Binder} (h : wfSums (.psum b ixs) = true) :
    (names ixs).Nodup ∧ (∀ p ∈ ixs, p.2 ≠ []) ∧ noPsumBinders ixs = true ∧
      (∀ s ∈ symsBinders ixs, s ∉ names ixs ∧ s ∉ bound b) ∧ wfSums b = true := by
  simp only [wfSums, Bool.and_eq_true, decide_eq_true_eq, List.all_eq_true] at h
  obtain ⟨⟨⟨⟨h1, h2⟩, h3⟩, h4⟩, h5⟩ := h
  refine ⟨h1, ?_, h3, ?_, h5⟩
  · intro p hp he
    have := h2 p hp
    simp [he] at this
  · intro s hs
    have := h4 s hs
    simpa using this

/-! ### free symbols are symbols -/

mutual
theorem mem_syms_of_mem_free : ∀ (e : Expr) (s : Sym), s ∈ free e → s ∈ syms e
  | .sym _, s, h => by simpa [free, syms] using h
  | .rat _, s, h => by simp [free] at h
  | .add es, s, h => by simp only [free, syms] at h ⊢; exact mem_symsList_of_mem_freeList es s h
  | .mul es, s, h => by simp only [free, syms] at h ⊢; exact mem_symsList_of_mem_freeList es s h
  | .pow b _, s, h => by simp only [free, syms] at h ⊢; exact mem_syms_of_mem_free b s h
  | .app _ es, s, h => by simp only [free, syms] at h ⊢; exact mem_symsList_of_mem_freeList es s h
  | .node _ es _, s, h => by simp only [free, syms] at h ⊢; exact mem_symsList_of_mem_freeList es s h
  | .psum b ixs, s, h => by
      simp only [free, List.mem_filter, List.mem_append] at h
      simp only [syms, List.mem_append]
      rcases h.1 with h1 | h1
      · exact Or.inr (mem_syms_of_mem_free b s h1)
      · exact Or.inl (Or.inr (mem_symsBinders_of_mem_freeBinders ixs s h1))
  | .idx _ es, s, h => by simp only [free, syms] at h ⊢; exact mem_symsList_of_mem_freeList es s h
theorem mem_symsList_of_mem_freeList : ∀ (es : List Expr) (s : Sym), s ∈ freeList es → s ∈ symsList es
  | [], s, h => by simp [freeList] at h
  | e :: es, s, h => by
      simp only [freeList, symsList, List.mem_append] at h ⊢
      rcases h with h | h
      · exact Or.inl (mem_syms_of_mem_free e s h)
      · exact Or.inr (mem_symsList_of_mem_freeList es s h)
theorem mem_symsBinders_of_mem_freeBinders :
    ∀ (ixs : List (Sym × List Expr)) (s : Sym), s ∈ freeBinders ixs → s ∈ symsBinders ixs
  | [], s, h => by simp [freeBinders] at h
  | (_, pool) :: rest, s, h => by
      simp only [freeBinders, symsBinders, List.mem_append] at h ⊢
      rcases h with h | h
      · exact Or.inl (mem_symsList_of_mem_freeList pool s h)
      · exact Or.inr (mem_symsBinders_of_mem_freeBinders rest s h)
end

/-! ### coincidence: the value depends on the free symbols only -/

theorem evalSum_agree (F : List Sym) (k : Env → Q)
    (hk : ∀ ρ1 ρ2 : Env, (∀ s ∈ F, ρ1 s = ρ2 s) → k ρ1 = k ρ2) (ixs : List QBinder) :
    ∀ ρ ρ' : Env, (∀ s ∈ F, s ∉ names ixs → ρ s = ρ' s) → evalSum ixs ρ k = evalSum ixs ρ' k := by
  induction ixs with
  | nil =>
    intro ρ ρ' h
    simp only [evalSum]
    exact hk ρ ρ' (fun s hs => h s hs (by simp [names]))
  | cons p rest ih =>
    intro ρ ρ' h
    obtain ⟨i, pool⟩ := p
    simp only [evalSum]
    congr 1
    apply List.map_congr_left
    intro q _
    apply ih
    intro s hs hsr
    by_cases hsi : s = i
    · subst hsi; simp [upd]
    · rw [upd_other _ _ hsi, upd_other _ _ hsi]
      apply h s hs
      rw [names_cons]
      simp only [List.mem_cons, not_or]
      exact ⟨hsi, hsr⟩

mutual
theorem eval_agree (I : Interp) :
    ∀ (e : Expr) (ρ ρ' : Env), wfSums e = true → (∀ s ∈ free e, ρ s = ρ' s) → eval I e ρ = eval I e ρ'
  | .sym s, ρ, ρ', _, h => by simpa [eval] using h s (by simp [free])
  | .rat r, ρ, ρ', _, _ => by simp [eval]
  | .add es, ρ, ρ', hw, h => by
      simp only [eval]; rw [evalList_agree I es ρ ρ' (by simpa [wfSums] using hw) (by simpa [free] using h)]
  | .mul es, ρ, ρ', hw, h => by
      simp only [eval]; rw [evalList_agree I es ρ ρ' (by simpa [wfSums] using hw) (by simpa [free] using h)]
  | .pow b n, ρ, ρ', hw, h => by
      simp only [eval]; rw [eval_agree I b ρ ρ' (by simpa [wfSums] using hw) (by simpa [free] using h)]
  | .app f es, ρ, ρ', hw, h => by
      simp only [eval]; rw [evalList_agree I es ρ ρ' (by simpa [wfSums] using hw) (by simpa [free] using h)]
  | .node c es t, ρ, ρ', hw, h => by
      simp only [eval]; rw [evalList_agree I es ρ ρ' (by simpa [wfSums] using hw) (by simpa [free] using h)]
  | .psum b ixs, ρ, ρ', hw, h => by
      obtain ⟨_, _, hnp, hown, hwb⟩ := wfSums_psum hw
      simp only [eval]
      have hpools : evalBinders I ixs ρ = evalBinders I ixs ρ' := by
        apply evalBinders_agree I ixs ρ ρ' hnp
        intro s hs
        apply h s
        simp only [free, List.mem_filter, List.mem_append]
        refine ⟨Or.inr hs, ?_⟩
        have := (hown s (mem_symsBinders_of_mem_freeBinders ixs s hs)).1
        simpa using this
      rw [hpools]
      apply evalSum_agree (free b) _ (fun ρ1 ρ2 h12 => eval_agree I b ρ1 ρ2 hwb h12) _ ρ ρ'
      intro s hs hsn
      apply h s
      simp only [free, List.mem_filter, List.mem_append]
      refine ⟨Or.inl hs, ?_⟩
      rw [names_evalBinders] at hsn
      simpa using hsn
  | .idx f es, ρ, ρ', hw, h => by
      simp only [eval]; rw [evalList_agree I es ρ ρ' (by simpa [wfSums] using hw) (by simpa [free] using h)]
theorem evalList_agree (I : Interp) :
    ∀ (es : List Expr) (ρ ρ' : Env), wfSumsList es = true → (∀ s ∈ freeList es, ρ s = ρ' s) →
      evalList I es ρ = evalList I es ρ'
  | [], _, _, _, _ => by simp [evalList]
  | e :: es, ρ, ρ', hw, h => by
      have hw' : wfSums e = true ∧ wfSumsList es = true := by simpa [wfSumsList] using hw
      simp only [evalList]
      rw [eval_agree I e ρ ρ' hw'.1 (fun s hs => h s (by simp [freeList, hs])),
          evalList_agree I es ρ ρ' hw'.2 (fun s hs => h s (by simp [freeList, hs]))]
theorem evalBinders_agree (I : Interp) :
    ∀ (ixs : List (Sym × List Expr)) (ρ ρ' : Env), noPsumBinders ixs = true →
      (∀ s ∈ freeBinders ixs, ρ s = ρ' s) → evalBinders I ixs ρ = evalBinders I ixs ρ'
  | [], _, _, _, _ => by simp [evalBinders]
  | (i, pool) :: rest, ρ, ρ', hn, h => by
      have hn' : noPsumList pool = true ∧ noPsumBinders rest = true := by simpa [noPsumBinders] using hn
      simp only [evalBinders]
      rw [evalList_agree I pool ρ ρ' (wfSumsList_of_noPsum pool hn'.1) (fun s hs => h s (by simp [freeBinders, hs])),
          evalBinders_agree I rest ρ ρ' hn'.2 (fun s hs => h s (by simp [freeBinders, hs]))]
end

/-! ### the substitution lemma: `subs` is an update of the environment

for every term (nested pool sums, symbolic pools), provided the inserted term mentions no symbol
that is bound somewhere in the term (no capture). -/

mutual
theorem eval_subst1 (I : Interp) (v : Variant) (hv : v.sound) (x : Sym) (a : Expr)
    (ha : wfSums a = true) :
    ∀ (e : Expr) (ρ : Env), wfSums e = true → (∀ s ∈ syms a, s ∉ bound e) →
      eval I (subst1 v x a e) ρ = eval I e (upd ρ x (eval I a ρ))
  | .sym s, ρ, _, _ => by
      by_cases h : s = x
      · subst h; simp [subst1, eval, upd]
      · simp [subst1, eval, upd, h]
  | .rat r, ρ, _, _ => by simp [subst1, eval]
  | .add es, ρ, hw, hc => by
      simp only [subst1, eval]
      rw [evalList_subst1 I v hv x a ha es ρ (by simpa [wfSums] using hw) (by simpa [bound] using hc)]
  | .mul es, ρ, hw, hc => by
      simp only [subst1, eval]
      rw [evalList_subst1 I v hv x a ha es ρ (by simpa [wfSums] using hw) (by simpa [bound] using hc)]
  | .pow b n, ρ, hw, hc => by
      simp only [subst1, eval]
      rw [eval_subst1 I v hv x a ha b ρ (by simpa [wfSums] using hw) (by simpa [bound] using hc)]
  | .app f es, ρ, hw, hc => by
      simp only [subst1, eval]
      rw [evalList_subst1 I v hv x a ha es ρ (by simpa [wfSums] using hw) (by simpa [bound] using hc)]
  | .node c es t, ρ, hw, hc => by
      have hr : v.getArgsRecursive = false := hv.1
      simp only [subst1, hr, Bool.false_and, Bool.false_eq_true, if_false, eval]
      rw [evalList_subst1 I v hv x a ha es ρ (by simpa [wfSums] using hw) (by simpa [bound] using hc)]
  | .psum b ixs, ρ, hw, hc => by
      have hp : v.poolSumProtectsBound = true := hv.2
      obtain ⟨_, _, hnp, hown, hwb⟩ := wfSums_psum hw
      have hc' : ∀ s ∈ syms a, s ∉ names ixs ∧ s ∉ bound b := by
        intro s hs
        have := hc s hs
        simp only [bound, List.mem_append, not_or] at this
        exact ⟨this.1.1, this.2⟩
      by_cases hx : (names ixs).contains x = true
      · have hx' : x ∈ names ixs := by simpa using hx
        simp only [subst1, hp, hx, if_true, eval]
        have hpools : evalBinders I ixs (upd ρ x (eval I a ρ)) = evalBinders I ixs ρ := by
          apply evalBinders_agree I ixs _ _ hnp
          intro s hs
          have hsx : s ≠ x := by
            intro e
            exact (hown s (mem_symsBinders_of_mem_freeBinders ixs s hs)).1 (e ▸ hx')
          exact upd_other _ _ hsx
        rw [hpools, evalSum_upd_of_mem _ ρ _ x _ (by rw [names_evalBinders]; exact hx')]
      · have hx' : x ∉ names ixs := by simpa using hx
        simp only [subst1, hp, hx, if_true]
        simp only [Bool.false_eq_true, if_false, eval]
        rw [evalBinders_subst1 I v hv x a ha ixs ρ hnp,
          evalSum_upd_of_not_mem _ ρ _ x _ (by rw [names_evalBinders]; exact hx')]
        apply evalSum_congr_agree
        intro ρ' hρ'
        rw [eval_subst1 I v hv x a ha b ρ' hwb (fun s hs => (hc' s hs).2)]
        have : eval I a ρ' = eval I a ρ := by
          apply eval_agree I a ρ' ρ
          · exact ha
          · intro s hs
            apply hρ' s
            rw [names_evalBinders]
            exact (hc' s (mem_syms_of_mem_free a s hs)).1
        rw [this]
  | .idx f es, ρ, hw, hc => by
      simp only [subst1, eval]
      rw [evalList_subst1 I v hv x a ha es ρ (by simpa [wfSums] using hw) (by simpa [bound] using hc)]
theorem evalList_subst1 (I : Interp) (v : Variant) (hv : v.sound) (x : Sym) (a : Expr)
    (ha : wfSums a = true) :
    ∀ (es : List Expr) (ρ : Env), wfSumsList es = true → (∀ s ∈ syms a, s ∉ boundList es) →
      evalList I (subst1List v x a es) ρ = evalList I es (upd ρ x (eval I a ρ))
  | [], ρ, _, _ => by simp [subst1List, evalList]
  | e :: es, ρ, hw, hc => by
      have hw' : wfSums e = true ∧ wfSumsList es = true := by simpa [wfSumsList] using hw
      have hc' : ∀ s ∈ syms a, s ∉ bound e ∧ s ∉ boundList es := by
        intro s hs
        have := hc s hs
        simpa [boundList, not_or] using this
      simp only [subst1List, evalList]
      rw [eval_subst1 I v hv x a ha e ρ hw'.1 (fun s hs => (hc' s hs).1),
          evalList_subst1 I v hv x a ha es ρ hw'.2 (fun s hs => (hc' s hs).2)]
theorem evalBinders_subst1 (I : Interp) (v : Variant) (hv : v.sound) (x : Sym) (a : Expr)
    (ha : wfSums a = true) :
    ∀ (ixs : List (Sym × List Expr)) (ρ : Env), noPsumBinders ixs = true →
      evalBinders I (subst1Binders v x a ixs) ρ = evalBinders I ixs (upd ρ x (eval I a ρ))
  | [], ρ, _ => by simp [subst1Binders, evalBinders]
  | (i, pool) :: rest, ρ, hn => by
      have hn' : noPsumList pool = true ∧ noPsumBinders rest = true := by simpa [noPsumBinders] using hn
      simp only [subst1Binders, evalBinders]
      rw [evalList_subst1 I v hv x a ha pool ρ (wfSumsList_of_noPsum pool hn'.1)
            (by rw [boundList_of_noPsum pool hn'.1]; simp),
          evalBinders_subst1 I v hv x a ha rest ρ hn'.2]
end

end Ampverif.Lemmas.C18
