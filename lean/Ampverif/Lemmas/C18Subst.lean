/-
Helper lemmas for C18: environments, the nested finite sum `evalSum`, the substitution lemma for
rational literals, and the coincidence lemma (the value depends on the free symbols only).
-/
import Ampverif.Model.Expr
import Mathlib.Algebra.Ring.Rat
import Mathlib.Algebra.BigOperators.Group.List.Basic
import Mathlib.Algebra.BigOperators.Ring.List
import Mathlib.Tactic.Ring

namespace Ampverif.Lemmas.C18
open Ampverif.Model

/-! ### environments -/

theorem upd_same (ρ : Env) (x : Sym) (q : Q) : upd ρ x q x = q := by simp [upd]

theorem upd_other (ρ : Env) {x s : Sym} (q : Q) (h : s ≠ x) : upd ρ x q s = ρ s := by simp [upd, h]

theorem upd_comm (ρ : Env) {x y : Sym} (a b : Q) (h : x ≠ y) :
    upd (upd ρ x a) y b = upd (upd ρ y b) x a := by
  funext s
  by_cases h1 : s = y <;> by_cases h2 : s = x <;> simp_all [upd]

theorem upd_upd (ρ : Env) (x : Sym) (a b : Q) : upd (upd ρ x a) x b = upd ρ x b := by
  funext s
  by_cases h1 : s = x <;> simp [upd, h1]

/-! ### `evalSum` -/

theorem evalSum_congr (ixs : List Binder) (ρ : Env) (k k' : Env → Q) (h : ∀ ρ, k ρ = k' ρ) :
    evalSum ixs ρ k = evalSum ixs ρ k' := by
  have : k = k' := funext h
  rw [this]

theorem names_cons (p : Binder) (rest : List Binder) : names (p :: rest) = p.1 :: names rest := rfl

theorem evalSum_upd_of_not_mem (ixs : List Binder) :
    ∀ (ρ : Env) (k : Env → Q) (x : Sym) (q : Q), x ∉ names ixs →
      evalSum ixs (upd ρ x q) k = evalSum ixs ρ (fun ρ' => k (upd ρ' x q)) := by
  induction ixs with
  | nil => intro ρ k x q _; rfl
  | cons p rest ih =>
    intro ρ k x q hx
    obtain ⟨i, pool⟩ := p
    have hxi : x ≠ i := by
      intro h; apply hx; simp [names, h]
    have hxr : x ∉ names rest := by
      intro h; apply hx; simp only [names, List.map_cons, List.mem_cons]; right; exact h
    simp only [evalSum]
    congr 1
    apply List.map_congr_left
    intro v _
    rw [upd_comm ρ q v hxi, ih _ _ _ _ hxr]

theorem evalSum_upd_of_mem (ixs : List Binder) :
    ∀ (ρ : Env) (k : Env → Q) (x : Sym) (q : Q), x ∈ names ixs →
      evalSum ixs (upd ρ x q) k = evalSum ixs ρ k := by
  induction ixs with
  | nil => intro ρ k x q h; simp [names] at h
  | cons p rest ih =>
    intro ρ k x q hx
    obtain ⟨i, pool⟩ := p
    simp only [evalSum]
    congr 1
    apply List.map_congr_left
    intro v _
    by_cases hxi : x = i
    · subst hxi; rw [upd_upd]
    · have hxr : x ∈ names rest := by
        simp only [names, List.map_cons, List.mem_cons] at hx
        rcases hx with h | h
        · exact absurd h hxi
        · exact h
      rw [upd_comm ρ q v hxi, ih _ _ _ _ hxr]

/-- `evalSum` is the flat sum over the cartesian product of the pools (in `itertools.product` order). -/
theorem evalSum_flat (ixs : List Binder) :
    ∀ (ρ : Env) (k : Env → Q),
      evalSum ixs ρ k = ((assignments ixs).map (fun c => k (updAll ρ c))).sum := by
  induction ixs with
  | nil => intro ρ k; simp [evalSum, assignments, updAll]
  | cons p rest ih =>
    intro ρ k
    obtain ⟨i, pool⟩ := p
    simp only [evalSum, assignments]
    induction pool with
    | nil => simp
    | cons v vs ihp =>
      simp only [List.map_cons, List.sum_cons, List.flatMap_cons, List.map_append, List.sum_append]
      rw [ihp, ih]
      simp [List.map_map, Function.comp_def, updAll]

theorem evalList_eq_map (I : Interp) (es : List Expr) (ρ : Env) :
    evalList I es ρ = es.map (fun e => eval I e ρ) := by
  induction es with
  | nil => simp [evalList]
  | cons e es ih => simp [evalList, ih]

/-! ### substitution of a rational literal -/

mutual
theorem eval_subst1_lit (I : Interp) (v : Variant) (hv : v.sound) (x : Sym) (q : Q) :
    ∀ (e : Expr) (ρ : Env), eval I (subst1 v x (.rat q) e) ρ = eval I e (upd ρ x q)
  | .sym s, ρ => by
      by_cases h : s = x
      · subst h; simp [subst1, eval, upd]
      · simp [subst1, eval, upd, h]
  | .rat r, ρ => by simp [subst1, eval]
  | .add es, ρ => by simp [subst1, eval, evalList_subst1_lit I v hv x q es ρ]
  | .mul es, ρ => by simp [subst1, eval, evalList_subst1_lit I v hv x q es ρ]
  | .pow b n, ρ => by simp [subst1, eval, eval_subst1_lit I v hv x q b ρ]
  | .app f es, ρ => by simp [subst1, eval, evalList_subst1_lit I v hv x q es ρ]
  | .node c es t, ρ => by
      have hr : v.getArgsRecursive = false := hv.1
      simp [subst1, eval, hr, evalList_subst1_lit I v hv x q es ρ]
  | .psum b ixs, ρ => by
      have hp : v.poolSumProtectsBound = true := hv.2
      by_cases hx : (names ixs).contains x = true
      · have hx' : x ∈ names ixs := by simpa using hx
        simp only [subst1, hp, hx, if_true, eval]
        rw [evalSum_upd_of_mem ixs ρ _ x q hx']
      · have hx' : x ∉ names ixs := by simpa using hx
        simp only [subst1, hp, hx, if_true, eval]
        rw [evalSum_upd_of_not_mem ixs ρ _ x q hx']
        apply evalSum_congr
        intro ρ'
        exact eval_subst1_lit I v hv x q b ρ'
  | .idx f es, ρ => by simp [subst1, eval, evalList_subst1_lit I v hv x q es ρ]
theorem evalList_subst1_lit (I : Interp) (v : Variant) (hv : v.sound) (x : Sym) (q : Q) :
    ∀ (es : List Expr) (ρ : Env), evalList I (subst1List v x (.rat q) es) ρ = evalList I es (upd ρ x q)
  | [], ρ => by simp [subst1List, evalList]
  | e :: es, ρ => by
      simp [subst1List, evalList, eval_subst1_lit I v hv x q e ρ, evalList_subst1_lit I v hv x q es ρ]
end

end Ampverif.Lemmas.C18
