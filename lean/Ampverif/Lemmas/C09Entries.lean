/-
C09/C10 helper lemmas for the explicit 1×1 and 2×2 cases: powers of `i`, determinants of
`1 − iK` and `1 − iρK̂` in coordinates. Nothing here refers to generated definitions.
-/
import Ampverif.Lemmas.C09Cayley
import Ampverif.Lemmas.C09Real
import Mathlib.LinearAlgebra.Matrix.Notation
import Mathlib.LinearAlgebra.Matrix.Determinant.Basic
import Mathlib.Tactic.FieldSimp
import Mathlib.Tactic.LinearCombination
import Mathlib.Tactic.FinCases

namespace Ampverif.Lemmas.C09
open Matrix

theorem I_pow3 : Complex.I ^ 3 = -Complex.I := by rw [pow_succ, Complex.I_sq]; ring
theorem I_pow4 : Complex.I ^ 4 = 1 := Complex.I_pow_four
theorem I_pow5 : Complex.I ^ 5 = Complex.I := by rw [pow_succ, I_pow4]; ring
theorem I_pow6 : Complex.I ^ 6 = -1 := by rw [pow_succ, I_pow5, ← sq, Complex.I_sq]
theorem I_pow7 : Complex.I ^ 7 = -Complex.I := by rw [pow_succ, I_pow6]; ring
theorem I_pow8 : Complex.I ^ 8 = 1 := by rw [pow_succ, I_pow7]; ring_nf; rw [Complex.I_sq]; ring

/-- Polynomial identities over ℂ modulo `i² = −1`. -/
macro "ipow" : tactic =>
  `(tactic| (ring_nf; try simp only [Complex.I_sq, I_pow3, I_pow4, I_pow5, I_pow6, I_pow7, I_pow8]; try ring_nf))

theorem det_D1 (K : Matrix (Fin 1) (Fin 1) ℂ) : (D K).det = 1 - Complex.I * K 0 0 := by
  unfold D
  rw [Matrix.det_fin_one]
  simp [Matrix.sub_apply, Matrix.smul_apply]

theorem det_D2 (K : Matrix (Fin 2) (Fin 2) ℂ) :
    (D K).det
      = 1 - Complex.I * K 0 0 - Complex.I * K 1 1 - K 0 0 * K 1 1 + K 0 1 * K 1 0 := by
  unfold D
  rw [Matrix.det_fin_two]
  simp [Matrix.sub_apply, Matrix.smul_apply]
  ipow

theorem det_rel1 (ρ : Fin 1 → ℂ) (K : Matrix (Fin 1) (Fin 1) ℂ) :
    (1 - Complex.I • (Matrix.diagonal ρ * K)).det = 1 - Complex.I * ρ 0 * K 0 0 := by
  rw [Matrix.det_fin_one]
  simp [Matrix.sub_apply, Matrix.smul_apply, Matrix.diagonal_mul]
  ring

theorem det_rel2 (ρ : Fin 2 → ℂ) (K : Matrix (Fin 2) (Fin 2) ℂ) :
    (1 - Complex.I • (Matrix.diagonal ρ * K)).det
      = 1 - Complex.I * ρ 0 * K 0 0 - Complex.I * ρ 1 * K 1 1 - ρ 0 * ρ 1 * K 0 0 * K 1 1
        + ρ 0 * ρ 1 * K 0 1 * K 1 0 := by
  rw [Matrix.det_fin_two]
  simp [Matrix.sub_apply, Matrix.smul_apply, Matrix.diagonal_mul]
  ipow

/-- A 1×1 matrix with a real entry is Hermitian (and trivially symmetric). -/
theorem herm1 {a : ℂ} (ha : IsRe a) :
    (!![a] : Matrix (Fin 1) (Fin 1) ℂ).IsHermitian
      ∧ (!![a] : Matrix (Fin 1) (Fin 1) ℂ)ᵀ = !![a] := by
  constructor
  · ext i j
    fin_cases i; fin_cases j
    simp [Matrix.conjTranspose_apply, ha.conj_eq]
  · ext i j
    fin_cases i; fin_cases j
    simp [Matrix.transpose_apply]

/-- A 2×2 matrix with real entries and equal off-diagonal entries is Hermitian and symmetric. -/
theorem herm2 {a b c d : ℂ} (ha : IsRe a) (hb : IsRe b) (hd : IsRe d) (hbc : b = c) :
    (!![a, b; c, d] : Matrix (Fin 2) (Fin 2) ℂ).IsHermitian
      ∧ (!![a, b; c, d] : Matrix (Fin 2) (Fin 2) ℂ)ᵀ = !![a, b; c, d] := by
  subst hbc
  constructor
  · ext i j
    fin_cases i <;> fin_cases j <;>
      simp [Matrix.conjTranspose_apply, ha.conj_eq, hb.conj_eq, hd.conj_eq]
  · ext i j
    fin_cases i <;> fin_cases j <;> simp [Matrix.transpose_apply]

end Ampverif.Lemmas.C09
