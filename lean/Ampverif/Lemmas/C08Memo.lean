/-
Helper lemmas for `Props/C08Memo.lean`: the memo invariant of `Model/C08Memo.lean` and one call with
a key that is injective on the expressions in use (import-free).
-/
import Ampverif.Model.C08Memo

namespace Ampverif.Lemmas.C08Memo
open Ampverif.C08Memo

/-- `key` separates the expressions of `S`. -/
def InjOn {κ : Type} (key : MExpr → κ) (S : MExpr → Prop) : Prop :=
  ∀ a b, S a → S b → key a = key b → a = b

/-- Every memo entry was stored by a call on an expression of `S`, under that expression's key. -/
def MemoOk {κ : Type} (key : MExpr → κ) (S : MExpr → Prop) (m : List (κ × Impl)) : Prop :=
  ∀ kv ∈ m, ∃ e, S e ∧ kv.1 = key e ∧ kv.2 = build e

theorem memoOk_nil {κ : Type} (key : MExpr → κ) (S : MExpr → Prop) :
    MemoOk key S ([] : List (κ × Impl)) := by
  intro kv h
  cases h

theorem lookup_some {κ : Type} [DecidableEq κ] (key : MExpr → κ) (S : MExpr → Prop)
    (m : List (κ × Impl)) (hm : MemoOk key S m) (k : κ) (v : Impl) (h : lookup k m = some v) :
    ∃ e, S e ∧ k = key e ∧ v = build e := by
  induction m with
  | nil => simp [lookup] at h
  | cons kv rest ih =>
    unfold lookup at h
    by_cases hk : kv.1 = k
    · rw [if_pos hk] at h
      have hv : kv.2 = v := Option.some.inj h
      rcases hm kv (List.mem_cons_self ..) with ⟨e, hS, h1, h2⟩
      exact ⟨e, hS, by rw [← hk, h1], by rw [← hv, h2]⟩
    · rw [if_neg hk] at h
      exact ih (fun kv' h' => hm kv' (List.mem_cons_of_mem _ h')) h

/-- One call with a key injective on `S`: the fresh result, and the memo stays consistent. -/
theorem call_pure {κ : Type} [DecidableEq κ] (key : MExpr → κ) (S : MExpr → Prop)
    (hinj : InjOn key S) (m : List (κ × Impl)) (hm : MemoOk key S m) (e : MExpr) (he : S e) :
    (call key m e).1 = build e ∧ MemoOk key S (call key m e).2 := by
  unfold call
  cases hl : lookup (key e) m with
  | none =>
    refine ⟨rfl, ?_⟩
    intro kv hkv
    cases hkv with
    | head => exact ⟨e, he, rfl, rfl⟩
    | tail _ h => exact hm kv h
  | some v =>
    rcases lookup_some key S m hm (key e) v hl with ⟨e', hS', hk, hv⟩
    have : e = e' := hinj e e' he hS' hk
    refine ⟨?_, hm⟩
    show v = build e
    rw [hv, this]

theorem build_injective (a b : MExpr) (h : build a = build b) : a = b := by
  cases a
  cases b
  simp only [build, Impl.mk.injEq] at h
  rcases h with ⟨h1, h2, h3, h4⟩
  subst h1 h2 h3 h4
  rfl

/-- Two calls on different expressions with the same key: the second returns the first's object. -/
theorem run_collision {κ : Type} [DecidableEq κ] (key : MExpr → κ) (a b : MExpr)
    (hk : key a = key b) : (run key [] [a, b]).1 = [build a, build a] := by
  simp [run, call, lookup, hk]

end Ampverif.Lemmas.C08Memo
