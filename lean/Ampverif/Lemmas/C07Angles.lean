/-
C07: what the assignments of the helicity-angle recursion are, node by node
(for both variants of `angleSource`), sorting facts and dictionary facts.
-/
import Ampverif.Lemmas.C07Names

set_option linter.unusedSimpArgs false
set_option linter.unusedVariables false

namespace Ampverif.Lemmas.C07
open Ampverif.Model.Topology

/-! ### tuple comparison -/

theorem lexGt_asymm : ∀ (x y : List Int), lexGt x y = true → lexGt y x = false := by
  intro x
  induction x with
  | nil => intro y h; simp [lexGt] at h
  | cons a xs ih =>
    intro y h
    cases y with
    | nil => simp [lexGt]
    | cons b ys =>
      simp only [lexGt] at h ⊢
      by_cases h1 : a > b
      · have : ¬ b > a := by omega
        have : b < a := by omega
        simp [*]
      · by_cases h2 : a < b
        · simp [h1, h2] at h
        · have e : a = b := by omega
          subst e
          simp at h ⊢
          exact ih ys h

theorem lexGt_total : ∀ (x y : List Int), x ≠ y → lexGt x y = false → lexGt y x = true := by
  intro x
  induction x with
  | nil =>
    intro y hne _
    cases y with
    | nil => exact absurd rfl hne
    | cons b ys => simp [lexGt]
  | cons a xs ih =>
    intro y hne h
    cases y with
    | nil => simp [lexGt] at h
    | cons b ys =>
      simp only [lexGt] at h ⊢
      by_cases h1 : a > b
      · simp [h1] at h
      · by_cases h2 : a < b
        · have : b > a := by omega
          simp [this]
        · have e : a = b := by omega
          subst e
          simp at h ⊢
          exact ih ys (fun hh => hne (by rw [hh])) h

/-! ### sorting -/

theorem insertSorted_perm (x : Int) : ∀ l : List Int, (insertSorted x l).Perm (x :: l) := by
  intro l
  induction l with
  | nil => simp [insertSorted]
  | cons y ys ih =>
    simp only [insertSorted]
    by_cases h : x ≤ y
    · simp [h]
    · simp only [h, if_false]
      exact ((List.perm_cons y).2 ih).trans (List.Perm.swap x y ys)

theorem sortInts_perm : ∀ l : List Int, (sortInts l).Perm l := by
  intro l
  induction l with
  | nil => simp [sortInts]
  | cons x xs ih =>
    simp only [sortInts]
    exact (insertSorted_perm x _).trans ((List.perm_cons x).2 ih)

theorem insertSorted_sorted (x : Int) : ∀ l : List Int, l.Pairwise (· ≤ ·) →
    (insertSorted x l).Pairwise (· ≤ ·) := by
  intro l
  induction l with
  | nil => intro _; simp [insertSorted]
  | cons y ys ih =>
    intro h
    simp only [insertSorted]
    by_cases hxy : x ≤ y
    · simp only [hxy, if_true]
      rw [List.pairwise_cons] at h ⊢
      refine ⟨?_, List.pairwise_cons.2 h⟩
      intro z hz
      simp at hz
      rcases hz with rfl | hz
      · exact hxy
      · exact Int.le_trans hxy (h.1 z hz)
    · simp only [hxy, if_false]
      rw [List.pairwise_cons] at h ⊢
      refine ⟨?_, ih h.2⟩
      intro z hz
      have := (insertSorted_perm x ys).mem_iff.1 hz
      simp at this
      rcases this with rfl | hz'
      · omega
      · exact h.1 z hz'

theorem sortInts_sorted : ∀ l : List Int, (sortInts l).Pairwise (· ≤ ·) := by
  intro l
  induction l with
  | nil => simp [sortInts]
  | cons x xs ih => exact insertSorted_sorted x _ ih

theorem mem_sortInts {a : Int} {l : List Int} : a ∈ sortInts l ↔ a ∈ l :=
  (sortInts_perm l).mem_iff

theorem sorted_perm_eq {l l' : List Int} (h : l.Pairwise (· ≤ ·)) (h' : l'.Pairwise (· ≤ ·))
    (p : l.Perm l') : l = l' :=
  List.Perm.eq_of_pairwise (fun a b _ _ hab hba => Int.le_antisymm hab hba) h h' p

/-! ### leaves -/

theorem leaves_ne_nil (t : Tree) : t.leaves ≠ [] := by
  induction t with
  | leaf i => simp [Tree.leaves]
  | node i a b iha _ => simp [Tree.leaves, iha]

theorem leaf_mem_ids {t : Tree} {x : Int} (h : x ∈ t.leaves) : x ∈ t.ids := by
  induction t with
  | leaf i => simpa [Tree.leaves, Tree.ids] using h
  | node i a b iha ihb =>
    simp [Tree.leaves] at h
    simp [Tree.ids]
    rcases h with h | h
    · exact Or.inr (Or.inl (iha h))
    · exact Or.inr (Or.inr (ihb h))

theorem leaves_nodup {t : Tree} (hw : WF t) : t.leaves.Nodup := by
  induction t with
  | leaf i => simp [Tree.leaves]
  | node i a b iha ihb =>
    obtain ⟨_, _, hwa, hwb, hdis⟩ := hw.node_inv
    simp only [Tree.leaves, List.nodup_append]
    refine ⟨iha hwa, ihb hwb, ?_⟩
    intro x hx y hy hxy
    subst hxy
    exact hdis x (leaf_mem_ids hx) (leaf_mem_ids hy)

theorem attached_perm (t : Tree) : t.attached.Perm t.leaves := sortInts_perm _
theorem attached_sorted (t : Tree) : t.attached.Pairwise (· ≤ ·) := sortInts_sorted _

theorem attached_length_leaf {t : Tree} (h : t.isLeaf = true) : t.attached.length = 1 := by
  cases t with
  | leaf i => simp [Tree.attached, Tree.leaves, sortInts_single]
  | node _ _ _ => simp [Tree.isLeaf] at h

theorem attached_length_node {t : Tree} (h : t.isLeaf = false) : 2 ≤ t.attached.length := by
  cases t with
  | leaf i => simp [Tree.isLeaf] at h
  | node i a b =>
    rw [(attached_perm _).length_eq]
    simp only [Tree.leaves, List.length_append]
    have ha := List.length_pos_iff.2 (leaves_ne_nil a)
    have hb := List.length_pos_iff.2 (leaves_ne_nil b)
    omega

/-- the two children of every decay node have different final states -/
def DistinctKids : Tree → Prop
  | .leaf _ => True
  | .node _ a b => a.attached ≠ b.attached ∧ DistinctKids a ∧ DistinctKids b

theorem distinctKids_of_wf {t : Tree} (hw : WF t) : DistinctKids t := by
  induction t with
  | leaf i => trivial
  | node i a b iha ihb =>
    obtain ⟨_, _, hwa, hwb, hdis⟩ := hw.node_inv
    refine ⟨?_, iha hwa, ihb hwb⟩
    intro e
    obtain ⟨x, hx⟩ := List.exists_mem_of_ne_nil _ (leaves_ne_nil a)
    have h1 : x ∈ a.attached := mem_sortInts.2 hx
    rw [e] at h1
    have h2 : x ∈ b.leaves := mem_sortInts.1 h1
    exact hdis x (leaf_mem_ids hx) (leaf_mem_ids h2)

theorem helicityChild_swap {a b : Tree} (hne : a.attached ≠ b.attached) :
    helicityChild b a = helicityChild a b ∧ oppositeChild b a = oppositeChild a b := by
  unfold helicityChild oppositeChild
  by_cases h : lexGt a.attached b.attached = true
  · have := lexGt_asymm _ _ h
    simp [h, this]
  · have h' : lexGt a.attached b.attached = false := by simpa using h
    have := lexGt_total _ _ hne h'
    simp [h', this]

/-! ### the writes, node by node -/

abbrev NodeCtx := List (List Int) × Tree × Tree

def NodeCtx.hel (n : NodeCtx) : Tree := helicityChild n.2.1 n.2.2
def NodeCtx.opp (n : NodeCtx) : Tree := oppositeChild n.2.1 n.2.2

/-- what an assignment made for the decay node `n` looks like: it is named after the helicity
child in the node's chain of frames, carries that chain, and measures either the helicity child
(always so when the angles are sourced from the helicity state; in the pinned source only when
that child decays itself or the opposite-helicity child is a final state) or — pinned source
only — the DECAYING opposite-helicity child. -/
def WriteOf (v : Variant) (n : NodeCtx) (w : Write) : Prop :=
  w.suffix = renderName n.hel.attached n.1 ∧ w.desc.chain = n.1 ∧
  ((w.desc.target = n.hel.attached ∧
      (v.angleSource = .helicityState ∨ n.opp.isLeaf = true ∨ n.hel.isLeaf = false)) ∨
   (v.angleSource = .decaying ∧ w.desc.target = n.opp.attached ∧ n.opp.isLeaf = false))

theorem specChild_sound {v : Variant} {chain : List (List Int)} {i : Int} {a b : Tree}
    (hne : a.attached ≠ b.attached) (sub : List Write) :
    (∀ w ∈ specChild v chain a b sub, w ∈ sub ∨ WriteOf v (chain, a, b) w) ∧
    (∀ w ∈ specChild v chain b a sub, w ∈ sub ∨ WriteOf v (chain, a, b) w) := by
  have _ := i
  constructor
  · intro w hw
    cases ha : a with
    | leaf j => subst ha; simp [specChild] at hw
    | node j x y =>
      rw [ha] at hw
      simp only [specChild, List.mem_cons] at hw
      rcases hw with rfl | hw
      · right
        have hleaf : a.isLeaf = false := by rw [ha]; rfl
        rw [← ha]
        by_cases hgt : lexGt a.attached b.attached = true
        · -- a is the opposite-helicity child and decays
          have hh : helicityChild a b = b := by simp [helicityChild, hgt]
          have ho : oppositeChild a b = a := by simp [oppositeChild, hgt]
          rcases v with ⟨_ | _⟩
          · refine ⟨by simp [NodeCtx.hel, hh, hgt], rfl, Or.inr ⟨rfl, ?_, ?_⟩⟩
            · simp [NodeCtx.opp, ho]
            · simp [NodeCtx.opp, ho, hleaf]
          · refine ⟨by simp [NodeCtx.hel, hh, hgt], rfl, Or.inl ⟨?_, Or.inl rfl⟩⟩
            simp [NodeCtx.hel, hh, hgt]
        · have hgt' : lexGt a.attached b.attached = false := by simpa using hgt
          have hh : helicityChild a b = a := by simp [helicityChild, hgt']
          rcases v with ⟨_ | _⟩
          · refine ⟨by simp [NodeCtx.hel, hh, hgt'], rfl, Or.inl ⟨?_, Or.inr (Or.inr ?_)⟩⟩
            · simp [NodeCtx.hel, hh]
            · simp [NodeCtx.hel, hh, hleaf]
          · refine ⟨by simp [NodeCtx.hel, hh, hgt'], rfl, Or.inl ⟨?_, Or.inl rfl⟩⟩
            simp [NodeCtx.hel, hh, hgt']
      · exact Or.inl hw
  · intro w hw
    obtain ⟨sw1, sw2⟩ := helicityChild_swap hne
    cases hb : b with
    | leaf j => subst hb; simp [specChild] at hw
    | node j x y =>
      rw [hb] at hw
      simp only [specChild, List.mem_cons] at hw
      rcases hw with rfl | hw
      · right
        have hleaf : b.isLeaf = false := by rw [hb]; rfl
        rw [← hb]
        by_cases hgt : lexGt b.attached a.attached = true
        · have hh : helicityChild b a = a := by simp [helicityChild, hgt]
          have ho : oppositeChild b a = b := by simp [oppositeChild, hgt]
          rw [sw1] at hh; rw [sw2] at ho
          rcases v with ⟨_ | _⟩
          · refine ⟨by simp [NodeCtx.hel, hh, hgt], rfl, Or.inr ⟨rfl, ?_, ?_⟩⟩
            · simp [NodeCtx.opp, ho]
            · simp [NodeCtx.opp, ho, hleaf]
          · refine ⟨by simp [NodeCtx.hel, hh, hgt], rfl, Or.inl ⟨?_, Or.inl rfl⟩⟩
            simp [NodeCtx.hel, hh, hgt]
        · have hgt' : lexGt b.attached a.attached = false := by simpa using hgt
          have hh : helicityChild b a = b := by simp [helicityChild, hgt']
          rw [sw1] at hh
          rcases v with ⟨_ | _⟩
          · refine ⟨by simp [NodeCtx.hel, hh, hgt'], rfl, Or.inl ⟨?_, Or.inr (Or.inr ?_)⟩⟩
            · simp [NodeCtx.hel, hh]
            · simp [NodeCtx.hel, hh, hleaf]
          · refine ⟨by simp [NodeCtx.hel, hh, hgt'], rfl, Or.inl ⟨?_, Or.inl rfl⟩⟩
            simp [NodeCtx.hel, hh, hgt']
      · exact Or.inl hw

/-- every assignment of the recursion belongs to a decay node and has the shape `WriteOf` -/
theorem spec_sound (v : Variant) : ∀ (s : Tree) (chain : List (List Int)), DistinctKids s →
    ∀ w ∈ specWrites v chain s, ∃ n ∈ nodesOf chain s, WriteOf v n w := by
  intro s
  induction s with
  | leaf i => intro chain _ w hw; simp [specWrites] at hw
  | node i a b iha ihb =>
    intro chain hd w hw
    obtain ⟨hne, hda, hdb⟩ := hd
    obtain ⟨sw1, sw2⟩ := helicityChild_swap hne
    obtain ⟨sca, scb⟩ := specChild_sound (v := v) (chain := chain) (i := i) hne
      (specWrites v (chain ++ [a.attached]) a) |>.1,
      specChild_sound (v := v) (chain := chain) (i := i) hne (specWrites v (chain ++ [b.attached]) b) |>.2
    have fromA : ∀ w ∈ specWrites v (chain ++ [a.attached]) a, ∃ n ∈ nodesOf chain (.node i a b), WriteOf v n w := by
      intro w hw
      obtain ⟨n, hn, hwn⟩ := iha _ hda w hw
      exact ⟨n, by simp [nodesOf, hn], hwn⟩
    have fromB : ∀ w ∈ specWrites v (chain ++ [b.attached]) b, ∃ n ∈ nodesOf chain (.node i a b), WriteOf v n w := by
      intro w hw
      obtain ⟨n, hn, hwn⟩ := ihb _ hdb w hw
      exact ⟨n, by simp [nodesOf, hn], hwn⟩
    have here : ∀ w, WriteOf v (chain, a, b) w → ∃ n ∈ nodesOf chain (.node i a b), WriteOf v n w :=
      fun w hwn => ⟨(chain, a, b), by simp [nodesOf], hwn⟩
    simp only [specWrites, List.mem_append] at hw
    rcases hw with hw | hw
    · -- both children are final states
      by_cases hl : (a.isLeaf && b.isLeaf) = true
      · simp only [hl, if_true, List.mem_singleton] at hw
        apply here
        have hla : a.isLeaf = true := by simp at hl; exact hl.1
        have hlb : b.isLeaf = true := by simp at hl; exact hl.2
        subst hw
        by_cases hle : a.id ≤ b.id
        · simp only [hle, if_true]
          refine ⟨rfl, rfl, Or.inl ⟨rfl, Or.inr (Or.inl ?_)⟩⟩
          unfold NodeCtx.opp oppositeChild
          by_cases hgt : lexGt a.attached b.attached = true <;> simp [hgt, hla, hlb]
        · simp only [hle, if_false]
          have e : (if lexGt b.attached a.attached = true then a else b) = helicityChild a b := by
            rw [← sw1]; rfl
          simp only [e]
          refine ⟨rfl, rfl, Or.inl ⟨rfl, Or.inr (Or.inl ?_)⟩⟩
          unfold NodeCtx.opp oppositeChild
          by_cases hgt : lexGt a.attached b.attached = true <;> simp [hgt, hla, hlb]
      · simp [hl] at hw
    · have cases2 : w ∈ specChild v chain a b (specWrites v (chain ++ [a.attached]) a) ∨
          w ∈ specChild v chain b a (specWrites v (chain ++ [b.attached]) b) := by
        by_cases hle : a.id ≤ b.id
        · simp only [hle, if_true, List.mem_append] at hw; exact hw
        · simp only [hle, if_false, List.mem_append] at hw; exact hw.symm
      rcases cases2 with h | h
      · rcases sca w h with h | h
        · exact fromA w h
        · exact here w h
      · rcases scb w h with h | h
        · exact fromB w h
        · exact here w h

/-- every decay node gets at least one assignment; when the angles are sourced from the helicity
state it is the documented one -/
theorem spec_complete (v : Variant) : ∀ (s : Tree) (chain : List (List Int)), DistinctKids s →
    ∀ n ∈ nodesOf chain s, ∃ w ∈ specWrites v chain s, WriteOf v n w ∧
      (v.angleSource = .helicityState → w = docWrite n) := by
  intro s
  induction s with
  | leaf i => intro chain _ n hn; simp [nodesOf] at hn
  | node i a b iha ihb =>
    intro chain hd n hn
    obtain ⟨hne, hda, hdb⟩ := hd
    simp only [nodesOf, List.mem_cons, List.mem_append] at hn
    have memA : ∀ w ∈ specChild v chain a b (specWrites v (chain ++ [a.attached]) a),
        w ∈ specWrites v chain (.node i a b) := by
      intro w hw
      simp only [specWrites, List.mem_append]
      right
      by_cases hle : a.id ≤ b.id
      · simp only [hle, if_true, List.mem_append]; exact Or.inl hw
      · simp only [hle, if_false, List.mem_append]; exact Or.inr hw
    have memB : ∀ w ∈ specChild v chain b a (specWrites v (chain ++ [b.attached]) b),
        w ∈ specWrites v chain (.node i a b) := by
      intro w hw
      simp only [specWrites, List.mem_append]
      right
      by_cases hle : a.id ≤ b.id
      · simp only [hle, if_true, List.mem_append]; exact Or.inr hw
      · simp only [hle, if_false, List.mem_append]; exact Or.inl hw
    rcases hn with rfl | hn | hn
    · -- the node itself: pick a write that exists
      have doc_of : ∀ w, WriteOf v (chain, a, b) w → (v.angleSource = .helicityState → w = docWrite (chain, a, b)) := by
        intro w hw hv
        obtain ⟨h1, h2, h3⟩ := hw
        rcases h3 with ⟨h3, _⟩ | ⟨h3, _⟩
        · cases w with | mk sfx d => cases d with | mk c t =>
          simp only at h1 h2 h3
          simp [docWrite, h1, h2, h3, NodeCtx.hel]
        · rw [hv] at h3; cases h3
      cases ha : a with
      | node j x y =>
        have hmem : (specChild v chain a b (specWrites v (chain ++ [a.attached]) a)).head? ≠ none := by
          rw [ha]; simp [specChild]
        obtain ⟨w, hw⟩ := Option.ne_none_iff_exists'.1 hmem
        have hwm : w ∈ specChild v chain a b (specWrites v (chain ++ [a.attached]) a) :=
          List.mem_of_mem_head? hw
        have hso := (specChild_sound (v := v) (chain := chain) (i := i) hne
          (specWrites v (chain ++ [a.attached]) a)).1 w hwm
        have hwo : WriteOf v (chain, a, b) w := by
          rw [ha] at hw
          simp only [specChild, List.head?_cons, Option.some.injEq] at hw
          have := (specChild_sound (v := v) (chain := chain) (i := i) hne ([] : List Write)).1 w
            (by rw [ha]; simp only [specChild, List.mem_cons]; exact Or.inl hw.symm)
          rcases this with h | h
          · cases h
          · exact h
        rw [← ha]
        exact ⟨w, memA w hwm, hwo, doc_of w hwo⟩
      | leaf j =>
        cases hb : b with
        | node k x y =>
          have hmem : (specChild v chain b a (specWrites v (chain ++ [b.attached]) b)).head? ≠ none := by
            rw [hb]; simp [specChild]
          obtain ⟨w, hw⟩ := Option.ne_none_iff_exists'.1 hmem
          have hwm : w ∈ specChild v chain b a (specWrites v (chain ++ [b.attached]) b) :=
            List.mem_of_mem_head? hw
          have hwo : WriteOf v (chain, a, b) w := by
            rw [hb] at hw
            simp only [specChild, List.head?_cons, Option.some.injEq] at hw
            have := (specChild_sound (v := v) (chain := chain) (i := i) hne ([] : List Write)).2 w
              (by rw [hb]; simp only [specChild, List.mem_cons]; exact Or.inl hw.symm)
            rcases this with h | h
            · cases h
            · exact h
          rw [← ha, ← hb]
          exact ⟨w, memB w hwm, hwo, doc_of w hwo⟩
        | leaf k =>
          -- both final: the first assignment
          rw [← ha, ← hb]
          have hla : a.isLeaf = true := by rw [ha]; rfl
          have hlb : b.isLeaf = true := by rw [hb]; rfl
          obtain ⟨sw1, _⟩ := helicityChild_swap hne
          let w : Write := ⟨renderName (helicityChild a b).attached chain, ⟨chain, (helicityChild a b).attached⟩⟩
          have hwo : WriteOf v (chain, a, b) w := by
            refine ⟨rfl, rfl, Or.inl ⟨rfl, Or.inr (Or.inl ?_)⟩⟩
            unfold NodeCtx.opp oppositeChild
            by_cases hgt : lexGt a.attached b.attached = true <;> simp [hgt, hla, hlb]
          refine ⟨w, ?_, hwo, doc_of w hwo⟩
          simp only [specWrites, List.mem_append]
          left
          simp only [hla, hlb, Bool.and_self, if_true, List.mem_singleton]
          by_cases hle : a.id ≤ b.id
          · simp only [hle, if_true]; rfl
          · simp only [hle, if_false]
            have e : (if lexGt b.attached a.attached = true then a else b) = helicityChild a b := by
              rw [← sw1]; rfl
            simp only [e]; rfl
    · obtain ⟨w, hw, hwo⟩ := iha _ hda n hn
      cases ha : a with
      | leaf j => rw [ha] at hn; simp [nodesOf] at hn
      | node j x y =>
        rw [← ha]
        refine ⟨w, memA w ?_, hwo⟩
        rw [ha]; rw [ha] at hw
        simp only [specChild, List.mem_cons]; exact Or.inr hw
    · obtain ⟨w, hw, hwo⟩ := ihb _ hdb n hn
      cases hb : b with
      | leaf j => rw [hb] at hn; simp [nodesOf] at hn
      | node j x y =>
        rw [← hb]
        refine ⟨w, memB w ?_, hwo⟩
        rw [hb]; rw [hb] at hw
        simp only [specChild, List.mem_cons]; exact Or.inr hw

/-! ### facts about the nodes of a tree -/

theorem subtree_leaves_subset {t s : Tree} (h : s ∈ t.subtrees) : ∀ x ∈ s.leaves, x ∈ t.leaves := by
  induction t with
  | leaf i => simp [Tree.subtrees] at h; subst h; intro x hx; exact hx
  | node i a b iha ihb =>
    simp [Tree.subtrees] at h
    rcases h with rfl | h | h
    · intro x hx; exact hx
    · intro x hx; simp [Tree.leaves]; exact Or.inl (iha h x hx)
    · intro x hx; simp [Tree.leaves]; exact Or.inr (ihb h x hx)

theorem digitIds_attached {t : Tree} (h : DigitIds t.leaves) : DigitIds t.attached :=
  fun i hi => h i (mem_sortInts.1 hi)

/-- chains and children of the nodes only mention final states of the tree -/
theorem nodesOf_digits : ∀ (s : Tree) (chain : List (List Int)), DigitIds s.leaves →
    (∀ S ∈ chain, DigitIds S) → ∀ n ∈ nodesOf chain s,
      (∀ S ∈ n.1, DigitIds S) ∧ DigitIds n.2.1.leaves ∧ DigitIds n.2.2.leaves := by
  intro s
  induction s with
  | leaf i => intro chain _ _ n hn; simp [nodesOf] at hn
  | node i a b iha ihb =>
    intro chain hd hc n hn
    have hda : DigitIds a.leaves := fun x hx => hd x (by simp [Tree.leaves, hx])
    have hdb : DigitIds b.leaves := fun x hx => hd x (by simp [Tree.leaves, hx])
    simp only [nodesOf, List.mem_cons, List.mem_append] at hn
    rcases hn with rfl | hn | hn
    · exact ⟨hc, hda, hdb⟩
    · refine iha _ hda ?_ n hn
      intro S hS; simp at hS
      rcases hS with hS | rfl
      · exact hc S hS
      · exact digitIds_attached hda
    · refine ihb _ hdb ?_ n hn
      intro S hS; simp at hS
      rcases hS with hS | rfl
      · exact hc S hS
      · exact digitIds_attached hdb

theorem hel_opp_digits {n : NodeCtx} (ha : DigitIds n.2.1.leaves) (hb : DigitIds n.2.2.leaves) :
    DigitIds n.hel.attached ∧ DigitIds n.opp.attached := by
  unfold NodeCtx.hel NodeCtx.opp helicityChild oppositeChild
  by_cases h : lexGt n.2.1.attached n.2.2.attached = true <;>
    simp [h, digitIds_attached ha, digitIds_attached hb]

/-- the subsystem a node decays in is the last element of its chain (or all final states) -/
theorem nodesOf_frame : ∀ (s : Tree) (chain : List (List Int)), ∀ n ∈ nodesOf chain s,
    ∃ rest, n.1 = chain ++ rest ∧
      sortInts (n.2.1.leaves ++ n.2.2.leaves) = rest.getLast?.getD s.attached := by
  intro s
  induction s with
  | leaf i => intro chain n hn; simp [nodesOf] at hn
  | node i a b iha ihb =>
    intro chain n hn
    simp only [nodesOf, List.mem_cons, List.mem_append] at hn
    rcases hn with rfl | hn | hn
    · exact ⟨[], by simp, by simp [Tree.attached, Tree.leaves]⟩
    · obtain ⟨rest, h1, h2⟩ := iha _ n hn
      refine ⟨a.attached :: rest, by simp [h1], ?_⟩
      rw [h2, List.getLast?_cons]; rfl
    · obtain ⟨rest, h1, h2⟩ := ihb _ n hn
      refine ⟨b.attached :: rest, by simp [h1], ?_⟩
      rw [h2, List.getLast?_cons]; rfl

/-- no decay node has two decaying children -/
def NoDoubleDecay : Tree → Prop
  | .leaf _ => True
  | .node _ a b => (a.isLeaf = true ∨ b.isLeaf = true) ∧ NoDoubleDecay a ∧ NoDoubleDecay b

def decNoDoubleDecay : (t : Tree) → Decidable (NoDoubleDecay t)
  | .leaf _ => isTrue trivial
  | .node _ a b =>
    match decNoDoubleDecay a, decNoDoubleDecay b with
    | isTrue ha, isTrue hb =>
      if h : a.isLeaf = true ∨ b.isLeaf = true then isTrue ⟨h, ha, hb⟩
      else isFalse (fun hh => h hh.1)
    | isFalse ha, _ => isFalse (fun hh => ha hh.2.1)
    | _, isFalse hb => isFalse (fun hh => hb hh.2.2)

instance (t : Tree) : Decidable (NoDoubleDecay t) := decNoDoubleDecay t

theorem nodesOf_noDouble : ∀ (s : Tree) (chain : List (List Int)), NoDoubleDecay s →
    ∀ n ∈ nodesOf chain s, n.2.1.isLeaf = true ∨ n.2.2.isLeaf = true := by
  intro s
  induction s with
  | leaf i => intro chain _ n hn; simp [nodesOf] at hn
  | node i a b iha ihb =>
    intro chain hnd n hn
    simp only [nodesOf, List.mem_cons, List.mem_append] at hn
    rcases hn with rfl | hn | hn
    · exact hnd.1
    · exact iha _ hnd.2.1 n hn
    · exact ihb _ hnd.2.2 n hn

theorem nodesOf_distinct : ∀ (s : Tree) (chain : List (List Int)), DistinctKids s →
    ∀ n ∈ nodesOf chain s, n.2.1.attached ≠ n.2.2.attached := by
  intro s
  induction s with
  | leaf i => intro chain _ n hn; simp [nodesOf] at hn
  | node i a b iha ihb =>
    intro chain hd n hn
    simp only [nodesOf, List.mem_cons, List.mem_append] at hn
    rcases hn with rfl | hn | hn
    · exact hd.1
    · exact iha _ hd.2.1 n hn
    · exact ihb _ hd.2.2 n hn

/-- helicity and opposite child together are the two children -/
theorem hel_opp_perm (n : NodeCtx) :
    (n.hel.attached ++ n.opp.attached).Perm (sortInts (n.2.1.leaves ++ n.2.2.leaves)) := by
  have pa := attached_perm n.2.1
  have pb := attached_perm n.2.2
  have base : (n.2.1.attached ++ n.2.2.attached).Perm (sortInts (n.2.1.leaves ++ n.2.2.leaves)) :=
    (List.Perm.append pa pb).trans (sortInts_perm _).symm
  unfold NodeCtx.hel NodeCtx.opp helicityChild oppositeChild
  by_cases h : lexGt n.2.1.attached n.2.2.attached = true
  · simp only [h, if_true]
    exact List.perm_append_comm.trans base
  · simp only [h]
    exact base

theorem hel_opp_leaf_cases (n : NodeCtx) (h : n.2.1.isLeaf = true ∨ n.2.2.isLeaf = true) :
    n.hel.isLeaf = true ∨ n.opp.isLeaf = true := by
  unfold NodeCtx.hel NodeCtx.opp helicityChild oppositeChild
  by_cases hg : lexGt n.2.1.attached n.2.2.attached = true
  · simp only [hg, if_true]; exact h.symm
  · simp only [hg]; exact h

/-! ### dictionaries -/

theorem mem_dictSet {β : Type} (d : List (List Char × β)) (k : List Char) (x : β) :
    ∀ kv ∈ dictSet d k x, kv ∈ d ∨ kv = (k, x) := by
  induction d with
  | nil => intro kv h; simp [dictSet] at h; exact Or.inr h
  | cons hd tl ih =>
    intro kv h
    obtain ⟨k', y⟩ := hd
    simp only [dictSet] at h
    by_cases hk : k' = k
    · simp only [hk, if_true, List.mem_cons] at h
      rcases h with h | h
      · exact Or.inr h
      · exact Or.inl (by simp [h])
    · simp only [hk, if_false, List.mem_cons] at h
      rcases h with h | h
      · exact Or.inl (by simp [h])
      · rcases ih kv h with h | h
        · exact Or.inl (by simp [h])
        · exact Or.inr h

/-- every entry of a dictionary built by assignments is one of the assignments -/
theorem mem_dictUpdate {β : Type} (ws : List (List Char × β)) : ∀ (d : List (List Char × β)),
    ∀ kv ∈ dictUpdate d ws, kv ∈ d ∨ kv ∈ ws := by
  induction ws with
  | nil => intro d kv h; simp [dictUpdate] at h; exact Or.inl h
  | cons w rest ih =>
    intro d kv h
    simp only [dictUpdate, List.foldl_cons] at h
    have := ih (dictSet d w.1 w.2) kv (by simpa [dictUpdate] using h)
    rcases this with h | h
    · rcases mem_dictSet d w.1 w.2 kv h with h | h
      · exact Or.inl h
      · exact Or.inr (by simp [h])
    · exact Or.inr (by simp [h])

theorem mem_createExpressions (v : Variant) : ∀ (tops : List (Tree × List Int))
    (acc : List (List Char × Def)),
    ∀ kv ∈ tops.foldl (fun acc t => dictUpdate acc (topologyWrites v t.1 t.2)) acc,
      kv ∈ acc ∨ ∃ t ∈ tops, kv ∈ topologyWrites v t.1 t.2 := by
  intro tops
  induction tops with
  | nil => intro acc kv h; exact Or.inl (by simpa using h)
  | cons t rest ih =>
    intro acc kv h
    simp only [List.foldl_cons] at h
    rcases ih _ kv h with h | ⟨t', ht', h⟩
    · rcases mem_dictUpdate _ _ kv h with h | h
      · exact Or.inl h
      · exact Or.inr ⟨t, by simp, h⟩
    · exact Or.inr ⟨t', by simp [ht'], h⟩

/-! ### lookups return subtrees -/

theorem pathTo_mem_subtrees : ∀ (t : Tree) (e : Int) (p : List Tree), pathTo t e = some p →
    ∀ s ∈ p, s ∈ t.subtrees := by
  intro t
  induction t with
  | leaf i =>
    intro e p h s hs
    simp only [pathTo] at h
    by_cases hie : i = e
    · simp only [hie, if_true, Option.some.injEq] at h; subst h
      simp only [List.mem_singleton] at hs; subst hs; simp [Tree.subtrees, hie]
    · simp [hie] at h
  | node i a b iha ihb =>
    intro e p h s hs
    simp only [pathTo] at h
    by_cases hie : i = e
    · simp only [hie, if_true, Option.some.injEq] at h; subst h
      simp only [List.mem_singleton] at hs; subst hs; simp [Tree.subtrees, hie]
    · simp only [hie, if_false] at h
      cases hpa : pathTo a e with
      | some pa =>
        simp [hpa] at h; subst h
        simp at hs
        rcases hs with rfl | hs
        · simp [Tree.subtrees]
        · simp [Tree.subtrees]; exact Or.inr (Or.inl (iha e pa hpa s hs))
      | none =>
        cases hpb : pathTo b e with
        | some pb =>
          simp [hpa, hpb] at h; subst h
          simp at hs
          rcases hs with rfl | hs
          · simp [Tree.subtrees]
          · simp [Tree.subtrees]; exact Or.inr (Or.inr (ihb e pb hpb s hs))
        | none => simp [hpa, hpb] at h

theorem find_mem_subtrees {t s : Tree} {e : Int} (h : find? t e = some s) : s ∈ t.subtrees := by
  unfold find? at h
  cases hp : pathTo t e with
  | none => simp [hp] at h
  | some p =>
    simp [hp] at h
    exact pathTo_mem_subtrees t e p hp s (List.mem_of_getLast? h)

theorem sortInts_attached (s : Tree) : sortInts s.attached = s.attached :=
  sorted_perm_eq (sortInts_sorted _) (attached_sorted s) (sortInts_perm _)

theorem writeOf_documented {v : Variant} (hv : v.angleSource = .helicityState) {n : NodeCtx}
    {w : Write} (h : WriteOf v n w) : w = docWrite n := by
  obtain ⟨h1, h2, h3⟩ := h
  rcases h3 with ⟨h3, _⟩ | ⟨h3, _⟩
  · cases w with | mk sfx d => cases d with | mk c t =>
    simp only at h1 h2 h3
    simp [docWrite, h1, h2, h3, NodeCtx.hel]
  · rw [hv] at h3; cases h3

/-- the two nodes behind two equally named assignments -/
theorem same_name_nodes {v : Variant} {t1 t2 : Tree} (h1 : WF t1) (h2 : WF t2)
    (d1 : DigitIds t1.leaves) (d2 : DigitIds t2.leaves)
    {w1 w2 : Write} (m1 : w1 ∈ angleWrites v t1) (m2 : w2 ∈ angleWrites v t2)
    (e : w1.suffix = w2.suffix) :
    ∃ n1 ∈ nodesOf [] t1, ∃ n2 ∈ nodesOf [] t2, WriteOf v n1 w1 ∧ WriteOf v n2 w2 ∧
      (NodeCtx.hel n1).attached = (NodeCtx.hel n2).attached ∧ n1.1 = n2.1 := by
  rw [angleWrites_eq_spec v h1] at m1
  rw [angleWrites_eq_spec v h2] at m2
  obtain ⟨n1, hn1, o1⟩ := spec_sound v t1 [] (distinctKids_of_wf h1) w1 m1
  obtain ⟨n2, hn2, o2⟩ := spec_sound v t2 [] (distinctKids_of_wf h2) w2 m2
  obtain ⟨c1, a1, b1⟩ := nodesOf_digits t1 [] d1 (by simp) n1 hn1
  obtain ⟨c2, a2, b2⟩ := nodesOf_digits t2 [] d2 (by simp) n2 hn2
  have e' : renderName (NodeCtx.hel n1).attached n1.1 = renderName (NodeCtx.hel n2).attached n2.1 := by
    rw [← o1.1, ← o2.1, e]
  obtain ⟨k1, k2⟩ := renderName_inj (hel_opp_digits a1 b1).1 (hel_opp_digits a2 b2).1 c1 c2 e'
  exact ⟨n1, hn1, n2, hn2, o1, o2, k1, k2⟩


end Ampverif.Lemmas.C07
