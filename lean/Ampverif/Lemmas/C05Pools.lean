/-
C05 — the pools of the DPD-aligned amplitude are the helicity sets of the reaction.

`_formulate_aligned_amplitude` sums the primed helicity of every outer state over the helicities
collected from the reaction's transitions (`_collect_outer_state_helicities`). Consequence: the
aligned amplitude is NOT a function of topology, particles and reference subsystem alone — two
reactions whose helicity sets differ never have the same aligned amplitude, so whatever
remembers an aligned amplitude (the `functools.cache` on `_formulate_aligned_amplitude`) has to
tell them apart. The correspondence run drives the real code through histories of such reactions.
-/
import Ampverif.Model.C05Align

namespace Ampverif.Lemmas.C05Pools
open Ampverif.Model.C05Align

/-- the state an index variable belongs to -/
def varState : Var → Int
  | .outer e => e
  | .inner _ e => e

theorem dpdOne_sums (ref sp : Int) (t : Tree) (s : StateInfo) :
    (dpdOne ref sp t s).sums = [(Var.inner 0 s.e, s.observed)] := by
  unfold dpdOne
  split <;> simp [Spec.sums, linkSums]

theorem dpdOne_outer (ref sp : Int) (t : Tree) (s : StateInfo) :
    (dpdOne ref sp t s).outer = (Var.outer s.e, s.observed) := by
  unfold dpdOne
  split <;> simp [Spec.outer]

theorem flatten_map_dpdOne_sums (ref sp : Int) (t : Tree) (states : List StateInfo) :
    (flatten (states.map (dpdOne ref sp t))).sums
      = states.map fun s => (Var.inner 0 s.e, s.observed) := by
  induction states with
  | nil => rfl
  | cons s rest ih => simp [flatten, dpdOne_sums, ih]

theorem flatten_map_dpdOne_outer (ref sp : Int) (t : Tree) (states : List StateInfo) :
    (flatten (states.map (dpdOne ref sp t))).outer
      = states.map fun s => (Var.outer s.e, s.observed) := by
  induction states with
  | nil => rfl
  | cons s rest ih => simp [flatten, dpdOne_outer, ih]

/-- summed pools of the DPD skeleton: per outer state, in order, its amplitude index over the
state's observed helicities — whatever the topology, the spins and the reference subsystem -/
theorem dpd_sums (ref : Int) (t : Tree) (states : List StateInfo) (specs : List Spec)
    (h : dpdSpecs ref t states = some specs) :
    (flatten specs).sums = states.map fun s => (Var.inner 0 s.e, s.observed) := by
  unfold dpdSpecs at h
  split at h
  · cases h
  · cases h
    exact flatten_map_dpdOne_sums ref _ t states

theorem dpd_outer (ref : Int) (t : Tree) (states : List StateInfo) (specs : List Spec)
    (h : dpdSpecs ref t states = some specs) :
    (flatten specs).outer = states.map fun s => (Var.outer s.e, s.observed) := by
  unfold dpdSpecs at h
  split at h
  · cases h
  · cases h
    exact flatten_map_dpdOne_outer ref _ t states

/-- equal DPD skeletons (even of different topologies / reference subsystems / spins) ⇒ equal
helicity sets, state by state -/
theorem dpd_skeleton_determines_helicity_sets (ref ref' : Int) (t t' : Tree)
    (states states' : List StateInfo) (specs specs' : List Spec)
    (h : dpdSpecs ref t states = some specs) (h' : dpdSpecs ref' t' states' = some specs')
    (heq : (flatten specs).sums = (flatten specs').sums) :
    states.map (fun s => (s.e, s.observed)) = states'.map (fun s => (s.e, s.observed)) := by
  rw [dpd_sums ref t states specs h, dpd_sums ref' t' states' specs' h'] at heq
  have := congrArg (List.map fun p : Var × List Int => (varState p.1, p.2)) heq
  simpa [List.map_map, Function.comp_def, varState] using this

end Ampverif.Lemmas.C05Pools
