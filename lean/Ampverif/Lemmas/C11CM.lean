/-
Helper lemmas for C11: the Chew–Mandelstam S-wave function above threshold.
-/
import Ampverif.Lemmas.C11Defs

namespace Ampverif.Lemmas.C11
open Ampverif.Gen.C11

theorem swave_eq_neg_I_mul_cm (s m1 m2 : ℝ) :
    PhaseSpaceFactorSWave s m1 m2 = -Complex.I * chewMandelstamSWave s m1 m2 := by
  unfold PhaseSpaceFactorSWave chewMandelstamSWave
  push_cast
  ring

/-- argument of the logarithm above threshold, as a real number -/
noncomputable def cmArgAbove (s m1 m2 : ℝ) : ℝ :=
  (1 / 2) * m1⁻¹ * m2⁻¹ *
    (m1 ^ 2 + m2 ^ 2 - s + 2 * Real.sqrt s * Real.sqrt (BreakupMomentumSquared s m1 m2))

/-- the "right term" of the Chew–Mandelstam function (real for positive masses) -/
noncomputable def cmRight (s m1 m2 : ℝ) : ℝ :=
  (m1 ^ 2 - m2 ^ 2) * (s⁻¹ - ((m1 + m2) ^ 2)⁻¹) * Real.log (m1 * m2⁻¹)

theorem sqrt_s_q2_sq {s m1 m2 : ℝ} (hs : 0 < s) (hq : 0 ≤ BreakupMomentumSquared s m1 m2) :
    (2 * Real.sqrt s * Real.sqrt (BreakupMomentumSquared s m1 m2)) ^ 2
      = (s - (m1 + m2) ^ 2) * (s - (m1 - m2) ^ 2) := by
  rw [← four_s_q2 hs.ne']
  have e1 := Real.sq_sqrt hs.le
  have e2 := Real.sq_sqrt hq
  calc (2 * Real.sqrt s * Real.sqrt (BreakupMomentumSquared s m1 m2)) ^ 2
      = 4 * Real.sqrt s ^ 2 * Real.sqrt (BreakupMomentumSquared s m1 m2) ^ 2 := by ring
    _ = 4 * s * BreakupMomentumSquared s m1 m2 := by rw [e1, e2]

theorem cmArgAbove_neg {s m1 m2 : ℝ} (h1 : 0 < m1) (h2 : 0 < m2) (h : (m1 + m2) ^ 2 < s) :
    cmArgAbove s m1 m2 < 0 := by
  obtain ⟨hs, hq⟩ := above_pos h1.le h2.le h
  have hB := sqrt_s_q2_sq (m1 := m1) (m2 := m2) hs hq.le
  set B := 2 * Real.sqrt s * Real.sqrt (BreakupMomentumSquared s m1 m2) with hBdef
  have hB0 : 0 ≤ B := by positivity
  have hA : m1 ^ 2 + m2 ^ 2 - s < 0 := by nlinarith [mul_pos h1 h2]
  have hAB : m1 ^ 2 + m2 ^ 2 - s + B < 0 := by
    by_contra hcon
    rw [not_lt] at hcon
    have h12 : 0 < m1 * m2 := mul_pos h1 h2
    have : (s - (m1 ^ 2 + m2 ^ 2)) ^ 2 ≤ B ^ 2 := by
      apply pow_le_pow_left₀ (by linarith) (by linarith)
    nlinarith [mul_pos h12 h12]
  unfold cmArgAbove
  have hpos : 0 < (1 / 2 : ℝ) * m1⁻¹ * m2⁻¹ := by positivity
  exact mul_neg_of_pos_of_neg hpos hAB

/-- Chew–Mandelstam function above threshold with the logarithm of the negative real argument
resolved: `log w = log(-w) + iπ`. -/
theorem cm_above {s m1 m2 : ℝ} (h1 : 0 < m1) (h2 : 0 < m2) (h : (m1 + m2) ^ 2 < s) :
    chewMandelstamSWave s m1 m2
      = ((Real.pi⁻¹ : ℝ) : ℂ) *
          (((2 * (Real.sqrt s)⁻¹ * Real.sqrt (BreakupMomentumSquared s m1 m2) : ℝ) : ℂ)
              * (((Real.log (-cmArgAbove s m1 m2) : ℝ) : ℂ) + (Real.pi : ℂ) * Complex.I)
            - ((cmRight s m1 m2 : ℝ) : ℂ)) := by
  obtain ⟨hs, hq⟩ := above_pos h1.le h2.le h
  have hw := cmArgAbove_neg h1 h2 h
  have hr : 0 < m1 * m2⁻¹ := by positivity
  unfold chewMandelstamSWave
  rw [csqrt_ofReal_of_nonneg hs.le, ComplexSqrt_of_nonneg hq.le, clog_ofReal_of_pos hr]
  have harg : ((((1 : ℝ) / 2 : ℝ) : ℂ) * (((m1)⁻¹ : ℝ) : ℂ) * (((m2)⁻¹ : ℝ) : ℂ) *
      ((((m1 ^ 2) : ℝ) : ℂ) + (((m2 ^ 2) : ℝ) : ℂ) + ((((-1 : ℝ) * s) : ℝ) : ℂ) +
        ((((2 : ℝ) : ℝ) : ℂ) * ((Real.sqrt s : ℝ) : ℂ) *
          ((Real.sqrt (BreakupMomentumSquared s m1 m2) : ℝ) : ℂ))))
      = ((cmArgAbove s m1 m2 : ℝ) : ℂ) := by
    unfold cmArgAbove; push_cast; ring
  rw [harg, clog_ofReal_of_neg hw]
  unfold cmRight
  push_cast
  ring

end Ampverif.Lemmas.C11
