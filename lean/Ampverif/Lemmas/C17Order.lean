/-
C17 helper lemmas, part 3: the sort key of c9b6eb9 is a linear order, the insertion sort sorts, and
the first match in a sorted list is the least match — so it depends only on the SET of symbols.
-/
import Ampverif.Lemmas.C17Lists

namespace Ampverif.Model.C17

/-! ### `natListCmp`, `natCmp`, `symCmp` are linear orders -/

theorem natListCmp_swap : ∀ a b : List Nat, natListCmp b a = (natListCmp a b).swap
  | [], [] => rfl
  | [], _ :: _ => rfl
  | _ :: _, [] => rfl
  | x :: xs, y :: ys => by
    simp only [natListCmp]
    by_cases h1 : x < y
    · have h2 : ¬ y < x := by omega
      simp [h1, h2]
    · by_cases h2 : y < x
      · simp [h1, h2]
      · simp [h1, h2, natListCmp_swap xs ys]

theorem natListCmp_eq : ∀ a b : List Nat, natListCmp a b = .eq → a = b
  | [], [], _ => rfl
  | [], _ :: _, h => by simp [natListCmp] at h
  | _ :: _, [], h => by simp [natListCmp] at h
  | x :: xs, y :: ys, h => by
    simp only [natListCmp] at h
    by_cases h1 : x < y
    · simp [h1] at h
    · by_cases h2 : y < x
      · simp [h1, h2] at h
      · simp only [h1, h2, if_false] at h
        have : x = y := by omega
        rw [this, natListCmp_eq xs ys h]

theorem natListCmp_refl : ∀ a : List Nat, natListCmp a a = .eq
  | [] => rfl
  | x :: xs => by simp [natListCmp, natListCmp_refl xs]

theorem natListCmp_lt_trans : ∀ a b c : List Nat,
    natListCmp a b = .lt → natListCmp b c = .lt → natListCmp a c = .lt
  | [], [], _, h, _ => by simp [natListCmp] at h
  | [], _ :: _, [], _, h => by simp [natListCmp] at h
  | [], _ :: _, _ :: _, _, _ => rfl
  | _ :: _, [], _, h, _ => by simp [natListCmp] at h
  | _ :: _, _ :: _, [], _, h => by simp [natListCmp] at h
  | x :: xs, y :: ys, z :: zs, h1, h2 => by
    simp only [natListCmp] at h1 h2 ⊢
    by_cases a1 : x < y
    · by_cases b1 : y < z
      · have : x < z := by omega
        simp [this]
      · by_cases b2 : z < y
        · simp [b1, b2] at h2
        · have : x < z := by omega
          simp [this]
    · by_cases a2 : y < x
      · simp [a1, a2] at h1
      · simp only [a1, a2, if_false] at h1
        by_cases b1 : y < z
        · have : x < z := by omega
          simp [this]
        · by_cases b2 : z < y
          · simp [b1, b2] at h2
          · simp only [b1, b2, if_false] at h2
            have e1 : ¬ x < z := by omega
            have e2 : ¬ z < x := by omega
            simp only [e1, e2, if_false]
            exact natListCmp_lt_trans xs ys zs h1 h2

theorem symCmp_swap (a b : Sym) : symCmp b a = (symCmp a b).swap := by
  unfold symCmp
  rw [natListCmp_swap a.name b.name]
  cases h : natListCmp a.name b.name <;> simp [Ordering.swap]
  unfold natCmp
  by_cases h1 : a.asm < b.asm
  · have h2 : ¬ b.asm < a.asm := by omega
    simp [h1, h2]
  · by_cases h2 : b.asm < a.asm <;> simp [h1, h2]

theorem symCmp_eq (a b : Sym) (h : symCmp a b = .eq) : a = b := by
  unfold symCmp at h
  cases hn : natListCmp a.name b.name <;> rw [hn] at h <;> simp at h
  have e1 := natListCmp_eq _ _ hn
  unfold natCmp at h
  by_cases h1 : a.asm < b.asm
  · simp [h1] at h
  · by_cases h2 : b.asm < a.asm
    · simp [h1, h2] at h
    · have : a.asm = b.asm := by omega
      cases a; cases b; simp_all

theorem symCmp_lt_trans (a b c : Sym) (h1 : symCmp a b = .lt) (h2 : symCmp b c = .lt) :
    symCmp a c = .lt := by
  unfold symCmp at h1 h2 ⊢
  cases hab : natListCmp a.name b.name <;> rw [hab] at h1 <;> simp at h1
  · -- names a < b
    cases hbc : natListCmp b.name c.name <;> rw [hbc] at h2 <;> simp at h2
    · rw [natListCmp_lt_trans _ _ _ hab hbc]
    · rw [← natListCmp_eq _ _ hbc, hab]
  · -- names equal
    have e := natListCmp_eq _ _ hab
    cases hbc : natListCmp b.name c.name <;> rw [hbc] at h2 <;> simp at h2
    · rw [e, hbc]
    · rw [e, hbc]
      simp only
      unfold natCmp at h1 h2 ⊢
      have x1 : a.asm < b.asm := by
        by_cases t : a.asm < b.asm
        · exact t
        · by_cases t2 : b.asm < a.asm <;> simp [t, t2] at h1
      have x2 : b.asm < c.asm := by
        by_cases t : b.asm < c.asm
        · exact t
        · by_cases t2 : c.asm < b.asm <;> simp [t, t2] at h2
      have : a.asm < c.asm := by omega
      simp [this]

/-- `≤` is transitive -/
theorem symCmp_le_trans (a b c : Sym) (h1 : symCmp a b ≠ .gt) (h2 : symCmp b c ≠ .gt) :
    symCmp a c ≠ .gt := by
  cases hab : symCmp a b with
  | gt => exact absurd hab h1
  | eq => rw [symCmp_eq a b hab]; exact h2
  | lt =>
    cases hbc : symCmp b c with
    | gt => exact absurd hbc h2
    | eq => rw [← symCmp_eq b c hbc, hab]; simp
    | lt => rw [symCmp_lt_trans a b c hab hbc]; simp

theorem symCmp_antisymm (a b : Sym) (h1 : symCmp a b ≠ .gt) (h2 : symCmp b a ≠ .gt) : a = b := by
  rw [symCmp_swap a b] at h2
  cases hab : symCmp a b with
  | gt => exact absurd hab h1
  | eq => exact symCmp_eq a b hab
  | lt => rw [hab] at h2; simp [Ordering.swap] at h2

/-! ### the insertion sort by `symLt` sorts -/

theorem insertBy_symLt_pairwise (x : Sym) (l : List Sym)
    (h : l.Pairwise (fun a b => symCmp a b ≠ .gt)) :
    (insertBy symLt x l).Pairwise (fun a b => symCmp a b ≠ .gt) := by
  induction l with
  | nil => simp [insertBy]
  | cons y ys ih =>
    rw [List.pairwise_cons] at h
    by_cases hlt : symLt y x = true
    · simp only [insertBy, hlt, if_true]
      rw [List.pairwise_cons]
      refine ⟨?_, ih h.2⟩
      intro z hz
      rcases List.mem_cons.mp ((insertBy_perm symLt x ys).mem_iff.mp hz) with e | e
      · have : symCmp y x = .lt := by simpa [symLt] using hlt
        rw [e, this]; simp
      · exact h.1 z e
    · have hf : symLt y x = false := by simpa using hlt
      simp only [insertBy, hf, Bool.false_eq_true, if_false]
      have hyx : symCmp y x ≠ .lt := by simpa [symLt] using hlt
      have hxy : symCmp x y ≠ .gt := by
        rw [symCmp_swap y x]
        cases hc : symCmp y x <;> simp [Ordering.swap] <;> exact absurd hc hyx
      rw [List.pairwise_cons]
      refine ⟨?_, List.pairwise_cons.mpr h⟩
      intro z hz
      rcases List.mem_cons.mp hz with e | e
      · rw [e]; exact hxy
      · exact symCmp_le_trans x y z hxy (h.1 z e)

theorem isort_symLt_pairwise (l : List Sym) :
    (isort symLt l).Pairwise (fun a b => symCmp a b ≠ .gt) := by
  induction l with
  | nil => simp [isort]
  | cons x xs ih => exact insertBy_symLt_pairwise x _ ih

/-- the first match in a sorted list is a least match -/
theorem find?_least {l : List Sym} (hs : l.Pairwise (fun a b => symCmp a b ≠ .gt)) (p : Sym → Bool)
    {x : Sym} (h : l.find? p = some x) : x ∈ l ∧ p x = true ∧ ∀ y, y ∈ l → p y = true → symCmp x y ≠ .gt := by
  induction l with
  | nil => simp at h
  | cons a as ih =>
    rw [List.pairwise_cons] at hs
    by_cases hp : p a = true
    · simp [List.find?, hp] at h
      subst h
      refine ⟨by simp, hp, ?_⟩
      intro y hy _
      rcases List.mem_cons.mp hy with e | e
      · rw [e]; cases hc : symCmp a a with
        | gt => have := symCmp_swap a a; rw [hc] at this; simp [Ordering.swap] at this
        | _ => simp
      · exact hs.1 y e
    · have hp' : p a = false := by simpa using hp
      simp only [List.find?, hp'] at h
      obtain ⟨h1, h2, h3⟩ := ih hs.2 h
      refine ⟨List.mem_cons_of_mem _ h1, h2, ?_⟩
      intro y hy hpy
      rcases List.mem_cons.mp hy with e | e
      · rw [e] at hpy; rw [hpy] at hp'; cases hp'
      · exact h3 y e hpy

/-- … hence it depends only on the members of the list that was sorted (set semantics: the iteration
order of the Python `set`, i.e. the hash seed, cannot matter) -/
theorem find?_isort_set_invariant (l₁ l₂ : List Sym) (hm : ∀ s, s ∈ l₁ ↔ s ∈ l₂) (p : Sym → Bool) :
    (isort symLt l₁).find? p = (isort symLt l₂).find? p := by
  have key : ∀ (a b : List Sym), (∀ s, s ∈ a ↔ s ∈ b) → ∀ x, (isort symLt a).find? p = some x →
      (isort symLt b).find? p = some x := by
    intro a b hab x hx
    obtain ⟨hxa, hpx, hmin⟩ := find?_least (isort_symLt_pairwise a) p hx
    cases hy : (isort symLt b).find? p with
    | none =>
      rw [List.find?_eq_none] at hy
      have := hy x ((mem_isort symLt b x).mpr ((hab x).mp ((mem_isort symLt a x).mp hxa)))
      simp [hpx] at this
    | some y =>
      obtain ⟨hyb, hpy, hminy⟩ := find?_least (isort_symLt_pairwise b) p hy
      have hya : y ∈ isort symLt a := (mem_isort symLt a y).mpr ((hab y).mpr ((mem_isort symLt b y).mp hyb))
      have hxb : x ∈ isort symLt b := (mem_isort symLt b x).mpr ((hab x).mp ((mem_isort symLt a x).mp hxa))
      rw [symCmp_antisymm x y (hmin y hya hpy) (hminy x hxb hpx)]
  cases h1 : (isort symLt l₁).find? p with
  | some x => exact (key l₁ l₂ hm x h1).symm
  | none =>
    cases h2 : (isort symLt l₂).find? p with
    | none => rfl
    | some y =>
      have := key l₂ l₁ (fun s => (hm s).symm) y h2
      rw [h1] at this; cases this

end Ampverif.Model.C17
