/-
Helper lemmas for C06: `core` depends on the merged kinematic-variable dict only as a finite map;
the heap invariant "every cache entry is the pure value of its key" and its preservation.
-/
import Ampverif.Lemmas.C06Order

set_option linter.unusedSectionVars false

namespace Ampverif.C06

/-! ## `core` sees `kin0` only as a finite map -/

/-- same finite map, both proper dicts -/
def KEq (d d' : SymDict) : Prop := DEquiv d d' ∧ NodupKeys d ∧ NodupKeys d'

theorem KEq.dset {d d' : SymDict} (h : KEq d d') (k : Sym) (v : Expr) : KEq (dset d k v) (dset d' k v) :=
  ⟨h.1.dset k v, h.2.1.dset k v, h.2.2.dset k v⟩

theorem KEq.ddel {d d' : SymDict} (h : KEq d d') (k : Sym) : KEq (ddel d k) (ddel d' k) :=
  ⟨h.1.ddel k, h.2.1.ddel k, h.2.2.ddel k⟩

theorem KEq.dupdate {d d' : SymDict} (h : KEq d d') (e : SymDict) : KEq (dupdate d e) (dupdate d' e) :=
  ⟨h.1.dupdate e, h.2.1.dupdate e, h.2.2.dupdate e⟩

theorem xreplace_congr {d d' : SymDict} (h : DEquiv d d') (e : Expr) : xreplace d e = xreplace d' e := by
  induction e with
  | nil => rfl
  | cons a t ih =>
    simp only [xreplace, List.flatMap_cons] at ih ⊢
    rw [ih]
    cases a with
    | sym s => simp only []; rw [h s]
    | invMass _ => rfl
    | other _ => rfl

theorem massStep_congr (w : World) (r : Nat) (cfg : Cfg) (st st' : Ingr × SymDict)
    (h1 : st.1 = st'.1) (h2 : KEq st.2 st'.2) (ids : List Nat) :
    (massStep w r cfg st ids).1 = (massStep w r cfg st' ids).1 ∧
      KEq (massStep w r cfg st ids).2 (massStep w r cfg st' ids).2 := by
  obtain ⟨ing, kin⟩ := st
  obtain ⟨ing', kin'⟩ := st'
  simp only at h1 h2
  subst h1
  unfold massStep
  simp only []
  repeat' split
  all_goals first | exact ⟨rfl, h2⟩ | exact ⟨rfl, h2.dset _ _⟩

theorem massFold_congr (w : World) (r : Nat) (cfg : Cfg) (l : List (List Nat)) :
    ∀ (st st' : Ingr × SymDict), st.1 = st'.1 → KEq st.2 st'.2 →
      (l.foldl (massStep w r cfg) st).1 = (l.foldl (massStep w r cfg) st').1 ∧
        KEq (l.foldl (massStep w r cfg) st).2 (l.foldl (massStep w r cfg) st').2 := by
  induction l with
  | nil => intro st st' h1 h2; exact ⟨h1, h2⟩
  | cons a t ih =>
    intro st st' h1 h2
    simp only [List.foldl_cons]
    have := massStep_congr w r cfg st st' h1 h2 a
    exact ih _ _ this.1 this.2

def LRel (a b : LoopState) : Prop := a.ing = b.ing ∧ a.syms = b.syms ∧ KEq a.kin b.kin

theorem alignStep_congr (w : World) (r : Nat) (cfg : Cfg) {a b : LoopState} (h : LRel a b)
    (entry : Sym × Expr) : LRel (alignStep w r cfg a entry) (alignStep w r cfg b entry) := by
  obtain ⟨hi, hs, hk⟩ := h
  unfold alignStep
  simp only []
  have e1 : xreplace a.kin entry.2 = xreplace b.kin entry.2 := xreplace_congr hk.1 _
  rw [e1]
  have hf := massFold_congr w r cfg (massSymsOf (xreplace b.kin entry.2)) (a.ing, a.kin) (b.ing, b.kin) hi hk
  refine ⟨hf.1, ?_, hf.2⟩
  simp only []
  rw [hs, xreplace_congr hf.2.1]

theorem alignFold_congr (w : World) (r : Nat) (cfg : Cfg) (l : SymDict) :
    ∀ {a b : LoopState}, LRel a b → LRel (l.foldl (alignStep w r cfg) a) (l.foldl (alignStep w r cfg) b) := by
  induction l with
  | nil => intro a b h; exact h
  | cons e t ih => intro a b h; simp only [List.foldl_cons]; exact ih (alignStep_congr w r cfg h e)

def SymNameInjective (w : World) : Prop := ∀ s t : Sym, w.symName s = w.symName t → s = t

theorem sortKin_congr (w : World) (hinj : SymNameInjective w) {d d' : SymDict} (h : KEq d d') :
    isort (symLe true w) d = isort (symLe true w) d' := by
  have e : symLe true w = fun a b => (fun x y => nameLe (w.symName x) (w.symName y)) a.1 b.1 := by
    funext a b; simp [symLe]
  rw [e]
  exact isort_eq_of_dequiv (keyLe := fun x y => nameLe (w.symName x) (w.symName y))
    (fun a b => nameLe_total _ _)
    (fun a b h1 h2 => hinj a b (nameLe_anti _ _ h1 h2))
    (fun a b c => nameLe_trans _ _ _) h.2.1 h.2.2 h.1

theorem coreTail_congr (w : World) (hinj : SymNameInjective w) (r : Nat) (cfg : Cfg) (amp : List Nat)
    (obs : List (List Nat)) (ing3 : Ingr) (syms : SymDict) {kin kin' : SymDict} (h : KEq kin kin') :
    coreTail true w r cfg amp obs ing3 syms kin = coreTail true w r cfg amp obs ing3 syms kin' := by
  unfold coreTail
  have hl : LRel (syms.foldl (alignStep w r cfg) { ing := ing3, kin := kin, syms := syms })
      (syms.foldl (alignStep w r cfg) { ing := ing3, kin := kin', syms := syms }) :=
    alignFold_congr w r cfg syms ⟨rfl, rfl, h⟩
  obtain ⟨hi, hs, hk⟩ := hl
  simp only []
  rw [hi, hs, sortKin_congr w hinj (hk.dupdate _)]

theorem foldl_ddel_KEq (l : List Nat) : ∀ {d d' : SymDict}, KEq d d' →
    KEq (l.foldl (fun k i => ddel k (massSym [i])) d) (l.foldl (fun k i => ddel k (massSym [i])) d') := by
  induction l with
  | nil => intro d d' h; exact h
  | cons a t ih => intro d d' h; simp only [List.foldl_cons]; exact ih (h.ddel _)

theorem core_congr (w : World) (hinj : SymNameInjective w) (r : Nat) (cfg : Cfg) (ing0 : Ingr)
    (amp : List Nat) (obs : List (List Nat)) (zo : List (List Nat)) (syms : SymDict)
    {kin kin' : SymDict} (h : KEq kin kin') :
    core true w r cfg ing0 amp obs zo syms kin = core true w r cfg ing0 amp obs zo syms kin' := by
  unfold core
  simp only []
  have e1 : (fun i => (dget kin (massSym [i])).isNone) = (fun i => (dget kin' (massSym [i])).isNone) := by
    funext i; rw [h.1]
  have hk1 := foldl_ddel_KEq (cfg.stable.getD []) h
  rw [e1, hk1.1 (massSym (w.finalIds r))]
  split
  · rfl
  · split
    · rfl
    · split
      · rfl
      · apply coreTail_congr w hinj
        split
        · exact hk1.ddel _
        · exact hk1

end Ampverif.C06
