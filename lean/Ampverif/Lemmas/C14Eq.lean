/-
Helper lemmas for C14: correctness of the executable equality tests.
`eqvWith f` (equality after mapping `f` over the non-SymPy attributes) is reflexive, and it
implies equality of the terms whenever `f` is injective on the attributes that occur.
-/
import Ampverif.Model.Expr

namespace Ampverif.Lemmas.C14
open Ampverif.Model

theorem map_injOn {P : Attr → Prop} (f : Attr → Attr)
    (hinj : ∀ x y, P x → P y → f x = f y → x = y) :
    ∀ (t u : List Attr), (∀ x ∈ t, P x) → (∀ y ∈ u, P y) → t.map f = u.map f → t = u
  | [], [], _, _, _ => rfl
  | [], _ :: _, _, _, h => by simp at h
  | _ :: _, [], _, _, h => by simp at h
  | a :: t, b :: u, ht, hu, h => by
      simp only [List.map_cons, List.cons.injEq] at h
      have hab : a = b := hinj a b (ht a (by simp)) (hu b (by simp)) h.1
      have := map_injOn f hinj t u (fun x hx => ht x (by simp [hx])) (fun y hy => hu y (by simp [hy])) h.2
      rw [hab, this]

mutual
theorem eqvWith_refl (f : Attr → Attr) : ∀ a : Expr, Expr.eqvWith f a a = true
  | .sym s => by simp [Expr.eqvWith]
  | .rat q => by simp [Expr.eqvWith]
  | .add es => by simp [Expr.eqvWith, eqvWithList_refl f es]
  | .mul es => by simp [Expr.eqvWith, eqvWithList_refl f es]
  | .pow b n => by simp [Expr.eqvWith, eqvWith_refl f b]
  | .app g es => by simp [Expr.eqvWith, eqvWithList_refl f es]
  | .node c es t => by simp [Expr.eqvWith, eqvWithList_refl f es]
  | .psum b ixs => by simp [Expr.eqvWith, eqvWith_refl f b, eqvWithBinders_refl f ixs]
  | .idx g es => by simp [Expr.eqvWith, eqvWithList_refl f es]
theorem eqvWithList_refl (f : Attr → Attr) : ∀ as : List Expr, Expr.eqvWithList f as as = true
  | [] => by simp [Expr.eqvWithList]
  | a :: as => by simp [Expr.eqvWithList, eqvWith_refl f a, eqvWithList_refl f as]
theorem eqvWithBinders_refl (f : Attr → Attr) :
    ∀ bs : List (Sym × List Expr), Expr.eqvWithBinders f bs bs = true
  | [] => by simp [Expr.eqvWithBinders]
  | (i, pool) :: rest => by
      simp [Expr.eqvWithBinders, eqvWithList_refl f pool, eqvWithBinders_refl f rest]
end

mutual
theorem eqvWith_eq {P : Attr → Prop} (f : Attr → Attr)
    (hinj : ∀ x y, P x → P y → f x = f y → x = y) :
    ∀ (a b : Expr), (∀ x ∈ attrsOf a, P x) → (∀ y ∈ attrsOf b, P y) →
      Expr.eqvWith f a b = true → a = b
  | .sym s, b, _, _, h => by cases b <;> simp_all [Expr.eqvWith]
  | .rat q, b, _, _, h => by cases b <;> simp_all [Expr.eqvWith]
  | .add es, b, ha, hb, h => by
      cases b with
      | add fs =>
        simp only [Expr.eqvWith] at h
        rw [eqvWithList_eq f hinj es fs (by simpa [attrsOf] using ha) (by simpa [attrsOf] using hb) h]
      | _ => simp [Expr.eqvWith] at h
  | .mul es, b, ha, hb, h => by
      cases b with
      | mul fs =>
        simp only [Expr.eqvWith] at h
        rw [eqvWithList_eq f hinj es fs (by simpa [attrsOf] using ha) (by simpa [attrsOf] using hb) h]
      | _ => simp [Expr.eqvWith] at h
  | .pow x n, b, ha, hb, h => by
      cases b with
      | pow y m =>
        simp only [Expr.eqvWith, Bool.and_eq_true, decide_eq_true_eq] at h
        rw [eqvWith_eq f hinj x y (by simpa [attrsOf] using ha) (by simpa [attrsOf] using hb) h.1, h.2]
      | _ => simp [Expr.eqvWith] at h
  | .app g es, b, ha, hb, h => by
      cases b with
      | app g' fs =>
        simp only [Expr.eqvWith, Bool.and_eq_true, decide_eq_true_eq] at h
        rw [eqvWithList_eq f hinj es fs (by simpa [attrsOf] using ha) (by simpa [attrsOf] using hb) h.2, h.1]
      | _ => simp [Expr.eqvWith] at h
  | .node c es t, b, ha, hb, h => by
      cases b with
      | node d fs u =>
        simp only [Expr.eqvWith, Bool.and_eq_true, decide_eq_true_eq] at h
        have ha' : (∀ x ∈ t, P x) ∧ (∀ x ∈ attrsOfList es, P x) := by
          constructor
          · intro x hx; exact ha x (by simp [attrsOf, hx])
          · intro x hx; exact ha x (by simp [attrsOf, hx])
        have hb' : (∀ x ∈ u, P x) ∧ (∀ x ∈ attrsOfList fs, P x) := by
          constructor
          · intro x hx; exact hb x (by simp [attrsOf, hx])
          · intro x hx; exact hb x (by simp [attrsOf, hx])
        rw [eqvWithList_eq f hinj es fs ha'.2 hb'.2 h.1.2, h.1.1, map_injOn f hinj t u ha'.1 hb'.1 h.2]
      | _ => simp [Expr.eqvWith] at h
  | .psum x ixs, b, ha, hb, h => by
      cases b with
      | psum y jxs =>
        simp only [Expr.eqvWith, Bool.and_eq_true] at h
        have ha' : (∀ z ∈ attrsOf x, P z) ∧ (∀ z ∈ attrsOfBinders ixs, P z) := by
          constructor
          · intro z hz; exact ha z (by simp [attrsOf, hz])
          · intro z hz; exact ha z (by simp [attrsOf, hz])
        have hb' : (∀ z ∈ attrsOf y, P z) ∧ (∀ z ∈ attrsOfBinders jxs, P z) := by
          constructor
          · intro z hz; exact hb z (by simp [attrsOf, hz])
          · intro z hz; exact hb z (by simp [attrsOf, hz])
        rw [eqvWith_eq f hinj x y ha'.1 hb'.1 h.1, eqvWithBinders_eq f hinj ixs jxs ha'.2 hb'.2 h.2]
      | _ => simp [Expr.eqvWith] at h
  | .idx g es, b, ha, hb, h => by
      cases b with
      | idx g' fs =>
        simp only [Expr.eqvWith, Bool.and_eq_true, decide_eq_true_eq] at h
        rw [eqvWithList_eq f hinj es fs (by simpa [attrsOf] using ha) (by simpa [attrsOf] using hb) h.2, h.1]
      | _ => simp [Expr.eqvWith] at h
theorem eqvWithList_eq {P : Attr → Prop} (f : Attr → Attr)
    (hinj : ∀ x y, P x → P y → f x = f y → x = y) :
    ∀ (as bs : List Expr), (∀ x ∈ attrsOfList as, P x) → (∀ y ∈ attrsOfList bs, P y) →
      Expr.eqvWithList f as bs = true → as = bs
  | [], [], _, _, _ => rfl
  | [], _ :: _, _, _, h => by simp [Expr.eqvWithList] at h
  | _ :: _, [], _, _, h => by simp [Expr.eqvWithList] at h
  | a :: as, b :: bs, ha, hb, h => by
      simp only [Expr.eqvWithList, Bool.and_eq_true] at h
      rw [eqvWith_eq f hinj a b (fun x hx => ha x (by simp [attrsOfList, hx])) (fun y hy => hb y (by simp [attrsOfList, hy])) h.1,
          eqvWithList_eq f hinj as bs (fun x hx => ha x (by simp [attrsOfList, hx])) (fun y hy => hb y (by simp [attrsOfList, hy])) h.2]
theorem eqvWithBinders_eq {P : Attr → Prop} (f : Attr → Attr)
    (hinj : ∀ x y, P x → P y → f x = f y → x = y) :
    ∀ (as bs : List (Sym × List Expr)), (∀ x ∈ attrsOfBinders as, P x) → (∀ y ∈ attrsOfBinders bs, P y) →
      Expr.eqvWithBinders f as bs = true → as = bs
  | [], [], _, _, _ => rfl
  | [], _ :: _, _, _, h => by simp [Expr.eqvWithBinders] at h
  | _ :: _, [], _, _, h => by simp [Expr.eqvWithBinders] at h
  | (i, p) :: as, (j, q) :: bs, ha, hb, h => by
      simp only [Expr.eqvWithBinders, Bool.and_eq_true, decide_eq_true_eq] at h
      rw [h.1.1, eqvWithList_eq f hinj p q (fun x hx => ha x (by simp [attrsOfBinders, hx])) (fun y hy => hb y (by simp [attrsOfBinders, hy])) h.1.2,
          eqvWithBinders_eq f hinj as bs (fun x hx => ha x (by simp [attrsOfBinders, hx])) (fun y hy => hb y (by simp [attrsOfBinders, hy])) h.2]
end

/-- the executable structural equality decides equality. -/
theorem beq_iff (a b : Expr) : Expr.beq a b = true ↔ a = b := by
  constructor
  · intro h
    exact eqvWith_eq (P := fun _ => True) id (fun x y _ _ h => h) a b (fun _ _ => trivial) (fun _ _ => trivial) h
  · intro h; subst h; exact eqvWith_refl id a

instance : DecidableEq Expr := fun a b =>
  if h : Expr.beq a b = true then isTrue ((beq_iff a b).mp h)
  else isFalse (fun e => h ((beq_iff a b).mpr e))

end Ampverif.Lemmas.C14
