/-
Helper lemmas for C18: `doit` with enough fuel leaves no pool sum (nesting depth 0).
-/
import Ampverif.Lemmas.C18Commute

namespace Ampverif.Lemmas.C18
open Ampverif.Model

mutual
theorem psumDepth_of_noPsum : ∀ e : Expr, noPsum e = true → psumDepth e = 0
  | .sym _, _ => by simp [psumDepth]
  | .rat _, _ => by simp [psumDepth]
  | .add es, h => by simp only [psumDepth]; exact psumDepthList_of_noPsum es (by simpa [noPsum] using h)
  | .mul es, h => by simp only [psumDepth]; exact psumDepthList_of_noPsum es (by simpa [noPsum] using h)
  | .pow b _, h => by simp only [psumDepth]; exact psumDepth_of_noPsum b (by simpa [noPsum] using h)
  | .app _ es, h => by simp only [psumDepth]; exact psumDepthList_of_noPsum es (by simpa [noPsum] using h)
  | .node _ es _, h => by simp only [psumDepth]; exact psumDepthList_of_noPsum es (by simpa [noPsum] using h)
  | .psum _ _, h => by simp [noPsum] at h
  | .idx _ es, h => by simp only [psumDepth]; exact psumDepthList_of_noPsum es (by simpa [noPsum] using h)
theorem psumDepthList_of_noPsum : ∀ es : List Expr, noPsumList es = true → psumDepthList es = 0
  | [], _ => by simp [psumDepthList]
  | e :: es, h => by
      have h' : noPsum e = true ∧ noPsumList es = true := by simpa [noPsumList] using h
      simp [psumDepthList, psumDepth_of_noPsum e h'.1, psumDepthList_of_noPsum es h'.2]
end

/-- the nesting depth (pool values included) is 0 exactly for pool-sum-free terms. -/
theorem noPsum_of_psumDepth_zero : ∀ e : Expr, psumDepth e = 0 → noPsum e = true := by
  have key : ∀ n : Nat, (∀ e : Expr, sizeOf e ≤ n → psumDepth e = 0 → noPsum e = true) ∧
      (∀ es : List Expr, sizeOf es ≤ n → psumDepthList es = 0 → noPsumList es = true) := by
    intro n
    induction n with
    | zero =>
      constructor
      · intro e h; cases e <;> simp at h <;> omega
      · intro es h; cases es <;> simp at h <;> omega
    | succ n ih =>
      constructor
      · intro e hsz hd
        cases e with
        | sym s => simp [noPsum]
        | rat r => simp [noPsum]
        | add es => simp only [psumDepth, noPsum] at hd ⊢; exact ih.2 es (by simp at hsz; omega) hd
        | mul es => simp only [psumDepth, noPsum] at hd ⊢; exact ih.2 es (by simp at hsz; omega) hd
        | pow b k => simp only [psumDepth, noPsum] at hd ⊢; exact ih.1 b (by simp at hsz; omega) hd
        | app f es => simp only [psumDepth, noPsum] at hd ⊢; exact ih.2 es (by simp at hsz; omega) hd
        | node c es t => simp only [psumDepth, noPsum] at hd ⊢; exact ih.2 es (by simp at hsz; omega) hd
        | psum b ixs => simp [psumDepth] at hd
        | idx f es => simp only [psumDepth, noPsum] at hd ⊢; exact ih.2 es (by simp at hsz; omega) hd
      · intro es hsz hd
        cases es with
        | nil => simp [noPsumList]
        | cons e es =>
          simp only [psumDepthList] at hd
          have l1 : psumDepth e ≤ Nat.max (psumDepth e) (psumDepthList es) := Nat.le_max_left _ _
          have l2 : psumDepthList es ≤ Nat.max (psumDepth e) (psumDepthList es) := Nat.le_max_right _ _
          have h1 : psumDepth e = 0 := by omega
          have h2 : psumDepthList es = 0 := by omega
          simp only [noPsumList, Bool.and_eq_true]
          exact ⟨ih.1 e (by simp at hsz; omega) h1, ih.2 es (by simp at hsz; omega) h2⟩
  intro e hd
  exact (key (sizeOf e)).1 e (Nat.le_refl _) hd

theorem psumDepthBinders_of_noPsum : ∀ ixs : List Binder, noPsumBinders ixs = true → psumDepthBinders ixs = 0
  | [], _ => by simp [psumDepthBinders]
  | (i, pool) :: rest, h => by
      have h' : noPsumList pool = true ∧ noPsumBinders rest = true := by simpa [noPsumBinders] using h
      simp [psumDepthBinders, psumDepthList_of_noPsum pool h'.1, psumDepthBinders_of_noPsum rest h'.2]

mutual
theorem psumDepth_subst1 (v : Variant) (hv : v.sound) (x : Sym) (a : Expr) (ha : psumDepth a = 0) :
    ∀ e : Expr, psumDepth (subst1 v x a e) = psumDepth e
  | .sym s => by by_cases h : s = x <;> simp [subst1, psumDepth, h, ha]
  | .rat r => by simp [subst1, psumDepth]
  | .add es => by simp [subst1, psumDepth, psumDepthList_subst1 v hv x a ha es]
  | .mul es => by simp [subst1, psumDepth, psumDepthList_subst1 v hv x a ha es]
  | .pow b n => by simp [subst1, psumDepth, psumDepth_subst1 v hv x a ha b]
  | .app f es => by simp [subst1, psumDepth, psumDepthList_subst1 v hv x a ha es]
  | .node c es t => by
      have hr : v.getArgsRecursive = false := hv.1
      simp [subst1, psumDepth, hr, psumDepthList_subst1 v hv x a ha es]
  | .psum b ixs => by
      by_cases hx : x ∈ names ixs
      · rw [subst1_psum_mem v hv x _ b ixs hx]
      · rw [subst1_psum_not_mem v hv x _ b ixs hx]
        simp [psumDepth, psumDepth_subst1 v hv x a ha b, psumDepthBinders_subst1 v hv x a ha ixs]
  | .idx f es => by simp [subst1, psumDepth, psumDepthList_subst1 v hv x a ha es]
theorem psumDepthList_subst1 (v : Variant) (hv : v.sound) (x : Sym) (a : Expr) (ha : psumDepth a = 0) :
    ∀ es : List Expr, psumDepthList (subst1List v x a es) = psumDepthList es
  | [] => by simp [subst1List, psumDepthList]
  | e :: es => by
      simp [subst1List, psumDepthList, psumDepth_subst1 v hv x a ha e, psumDepthList_subst1 v hv x a ha es]
theorem psumDepthBinders_subst1 (v : Variant) (hv : v.sound) (x : Sym) (a : Expr) (ha : psumDepth a = 0) :
    ∀ ixs : List (Sym × List Expr), psumDepthBinders (subst1Binders v x a ixs) = psumDepthBinders ixs
  | [] => by simp [subst1Binders, psumDepthBinders]
  | (i, pool) :: rest => by
      simp [subst1Binders, psumDepthBinders, psumDepthList_subst1 v hv x a ha pool,
        psumDepthBinders_subst1 v hv x a ha rest]
end

theorem psumDepth_substSeq (v : Variant) (hv : v.sound) (c : List (Sym × Expr)) :
    ∀ e : Expr, (∀ p ∈ c, noPsum p.2 = true) → psumDepth (substSeq v c e) = psumDepth e := by
  induction c with
  | nil => intro e _; simp [substSeq]
  | cons p c ih =>
    intro e h
    obtain ⟨i, a⟩ := p
    rw [substSeq_cons, ih _ (fun p hp => h p (List.mem_cons_of_mem _ hp)),
      psumDepth_subst1 v hv i a (psumDepth_of_noPsum a (h (i, a) List.mem_cons_self))]

theorem psumDepthList_map_le {α : Type} (l : List α) (f : α → Expr) (m : Nat)
    (h : ∀ a ∈ l, psumDepth (f a) ≤ m) : psumDepthList (l.map f) ≤ m := by
  induction l with
  | nil => simp [psumDepthList]
  | cons a l ih =>
    have h1 := h a List.mem_cons_self
    have h2 := ih (fun a ha => h a (List.mem_cons_of_mem _ ha))
    simp only [List.map_cons, psumDepthList]
    exact Nat.max_le.mpr ⟨h1, h2⟩

theorem psumDepth_evaluate_le (v : Variant) (hv : v.sound) (b : Expr) (ixs : List Binder)
    (hw : wfSums (.psum b ixs) = true) :
    psumDepth (evaluate v (.psum b ixs)) ≤ psumDepth b := by
  obtain ⟨hnd, _, hnp, _, _⟩ := wfSums_psum hw
  simp only [evaluate, psumDepth]
  rw [dictOf_nodup ixs hnd]
  apply psumDepthList_map_le
  intro c hc
  rw [psumDepth_substSeq v hv c b (fun p hp => (assignments_vals ixs hnp c hc p hp).1)]

mutual
theorem psumDepth_doitPass (v : Variant) (hv : v.sound) (k : Expr → Expr) (m : Nat)
    (hk : ∀ e : Expr, wfSums e = true → psumDepth e ≤ m → psumDepth (k e) = 0) :
    ∀ e : Expr, wfSums e = true → psumDepth e ≤ m + 1 → psumDepth (doitPass v k e) = 0
  | .sym s, _, _ => by simp [doitPass, psumDepth]
  | .rat q, _, _ => by simp [doitPass, psumDepth]
  | .add es, hw, h => by
      simp only [doitPass, psumDepth, wfSums] at hw h ⊢; exact psumDepthList_doitPass v hv k m hk es hw h
  | .mul es, hw, h => by
      simp only [doitPass, psumDepth, wfSums] at hw h ⊢; exact psumDepthList_doitPass v hv k m hk es hw h
  | .pow b n, hw, h => by
      simp only [doitPass, psumDepth, wfSums] at hw h ⊢; exact psumDepth_doitPass v hv k m hk b hw h
  | .app f es, hw, h => by
      simp only [doitPass, psumDepth, wfSums] at hw h ⊢; exact psumDepthList_doitPass v hv k m hk es hw h
  | .node c es t, hw, h => by
      simp only [doitPass, psumDepth, wfSums] at hw h ⊢; exact psumDepthList_doitPass v hv k m hk es hw h
  | .psum b ixs, hw, h => by
      simp only [doitPass]
      apply hk _ (wfSums_evaluate v hv b ixs hw)
      have hb : psumDepth b ≤ m := by
        simp only [psumDepth] at h
        have l1 : psumDepth b ≤ Nat.max (psumDepth b) (psumDepthBinders ixs) := Nat.le_max_left _ _
        omega
      exact Nat.le_trans (psumDepth_evaluate_le v hv b ixs hw) hb
  | .idx f es, hw, h => by
      simp only [doitPass, psumDepth, wfSums] at hw h ⊢; exact psumDepthList_doitPass v hv k m hk es hw h
theorem psumDepthList_doitPass (v : Variant) (hv : v.sound) (k : Expr → Expr) (m : Nat)
    (hk : ∀ e : Expr, wfSums e = true → psumDepth e ≤ m → psumDepth (k e) = 0) :
    ∀ es : List Expr, wfSumsList es = true → psumDepthList es ≤ m + 1 →
      psumDepthList (doitPassList v k es) = 0
  | [], _, _ => by simp [doitPassList, psumDepthList]
  | e :: es, hw, h => by
      have hw' : wfSums e = true ∧ wfSumsList es = true := by simpa [wfSumsList] using hw
      simp only [psumDepthList] at h
      have h' := Nat.max_le.mp h
      simp only [doitPassList, psumDepthList, psumDepth_doitPass v hv k m hk e hw'.1 h'.1,
        psumDepthList_doitPass v hv k m hk es hw'.2 h'.2]
      rfl
end

end Ampverif.Lemmas.C18
