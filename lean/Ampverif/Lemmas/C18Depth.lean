/-
Helper lemmas for C18: `doit` with enough fuel leaves no pool sum (nesting depth 0).
-/
import Ampverif.Lemmas.C18Commute

namespace Ampverif.Lemmas.C18
open Ampverif.Model

mutual
theorem psumDepth_subst1_lit (v : Variant) (hv : v.sound) (x : Sym) (q : Q) :
    ∀ e : Expr, psumDepth (subst1 v x (.rat q) e) = psumDepth e
  | .sym s => by by_cases h : s = x <;> simp [subst1, psumDepth, h]
  | .rat r => by simp [subst1, psumDepth]
  | .add es => by simp [subst1, psumDepth, psumDepthList_subst1_lit v hv x q es]
  | .mul es => by simp [subst1, psumDepth, psumDepthList_subst1_lit v hv x q es]
  | .pow b n => by simp [subst1, psumDepth, psumDepth_subst1_lit v hv x q b]
  | .app f es => by simp [subst1, psumDepth, psumDepthList_subst1_lit v hv x q es]
  | .node c es t => by
      have hr : v.getArgsRecursive = false := hv.1
      simp [subst1, psumDepth, hr, psumDepthList_subst1_lit v hv x q es]
  | .psum b ixs => by
      by_cases hx : x ∈ names ixs
      · rw [subst1_psum_mem v hv x _ b ixs hx]
      · rw [subst1_psum_not_mem v hv x _ b ixs hx]
        simp [psumDepth, psumDepth_subst1_lit v hv x q b]
  | .idx f es => by simp [subst1, psumDepth, psumDepthList_subst1_lit v hv x q es]
theorem psumDepthList_subst1_lit (v : Variant) (hv : v.sound) (x : Sym) (q : Q) :
    ∀ es : List Expr, psumDepthList (subst1List v x (.rat q) es) = psumDepthList es
  | [] => by simp [subst1List, psumDepthList]
  | e :: es => by
      simp [subst1List, psumDepthList, psumDepth_subst1_lit v hv x q e, psumDepthList_subst1_lit v hv x q es]
end

theorem psumDepth_substSeq_lit (v : Variant) (hv : v.sound) (c : List (Sym × Q)) :
    ∀ e : Expr, psumDepth (substSeq v (litPairs c) e) = psumDepth e := by
  induction c with
  | nil => intro e; simp [litPairs, substSeq]
  | cons p c ih =>
    intro e
    obtain ⟨i, q⟩ := p
    rw [substSeq_litPairs_cons, ih, psumDepth_subst1_lit v hv]

theorem psumDepthList_map_le {α : Type} (l : List α) (f : α → Expr) (m : Nat)
    (h : ∀ a ∈ l, psumDepth (f a) ≤ m) : psumDepthList (l.map f) ≤ m := by
  induction l with
  | nil => simp [psumDepthList]
  | cons a l ih =>
    have h1 := h a List.mem_cons_self
    have h2 := ih (fun a ha => h a (List.mem_cons_of_mem _ ha))
    simp only [List.map_cons, psumDepthList]
    exact Nat.max_le.mpr ⟨h1, h2⟩

theorem psumDepth_evaluate_le (v : Variant) (hv : v.sound) (b : Expr) (ixs : List Binder) :
    psumDepth (evaluate v (.psum b ixs)) ≤ psumDepth b := by
  simp only [evaluate, psumDepth]
  apply psumDepthList_map_le
  intro c _
  rw [psumDepth_substSeq_lit v hv]

mutual
theorem psumDepth_doitPass (v : Variant) (hv : v.sound) (k : Expr → Expr) (m : Nat)
    (hk : ∀ e : Expr, psumDepth e ≤ m → psumDepth (k e) = 0) :
    ∀ e : Expr, psumDepth e ≤ m + 1 → psumDepth (doitPass v k e) = 0
  | .sym s, _ => by simp [doitPass, psumDepth]
  | .rat q, _ => by simp [doitPass, psumDepth]
  | .add es, h => by
      simp only [doitPass, psumDepth] at h ⊢; exact psumDepthList_doitPass v hv k m hk es h
  | .mul es, h => by
      simp only [doitPass, psumDepth] at h ⊢; exact psumDepthList_doitPass v hv k m hk es h
  | .pow b n, h => by
      simp only [doitPass, psumDepth] at h ⊢; exact psumDepth_doitPass v hv k m hk b h
  | .app f es, h => by
      simp only [doitPass, psumDepth] at h ⊢; exact psumDepthList_doitPass v hv k m hk es h
  | .node c es t, h => by
      simp only [doitPass, psumDepth] at h ⊢; exact psumDepthList_doitPass v hv k m hk es h
  | .psum b ixs, h => by
      simp only [doitPass]
      apply hk
      have hb : psumDepth b ≤ m := by simp only [psumDepth] at h; omega
      exact Nat.le_trans (psumDepth_evaluate_le v hv b ixs) hb
  | .idx f es, h => by
      simp only [doitPass, psumDepth] at h ⊢; exact psumDepthList_doitPass v hv k m hk es h
theorem psumDepthList_doitPass (v : Variant) (hv : v.sound) (k : Expr → Expr) (m : Nat)
    (hk : ∀ e : Expr, psumDepth e ≤ m → psumDepth (k e) = 0) :
    ∀ es : List Expr, psumDepthList es ≤ m + 1 → psumDepthList (doitPassList v k es) = 0
  | [], _ => by simp [doitPassList, psumDepthList]
  | e :: es, h => by
      simp only [psumDepthList] at h
      have h' := Nat.max_le.mp h
      simp only [doitPassList, psumDepthList, psumDepth_doitPass v hv k m hk e h'.1,
        psumDepthList_doitPass v hv k m hk es h'.2]
      rfl
end

end Ampverif.Lemmas.C18
