/-
Helper lemmas for `Props/C10History.lean`: the cache invariant of `Model/C10History.lean` and one call
with an injective key (import-free).
-/
import Ampverif.Model.C10History

namespace Ampverif.Lemmas.C10History
open Ampverif.C10History

/-- Every entry of the cache was stored under the key of the factor it carries. -/
def CacheOk {α : Type} (κ : Factor → α) (c : List (Entry α)) : Prop :=
  ∀ e ∈ c, e.key = κ e.stored

theorem cacheOk_nil {α : Type} (κ : Factor → α) : CacheOk κ ([] : List (Entry α)) := by
  intro e he
  cases he

theorem lookup_key {α : Type} [DecidableEq α] (κ : Factor → α) (c : List (Entry α)) (hc : CacheOk κ c)
    (l d : Nat) (k : α) (g : Factor) (h : lookup c l d k = some g) : κ g = k := by
  induction c with
  | nil => simp [lookup] at h
  | cons e rest ih =>
    unfold lookup at h
    by_cases hk : e.angMom = l ∧ e.radius = d ∧ e.key = k
    · rw [if_pos hk] at h
      have hg : e.stored = g := Option.some.inj h
      have he := hc e (List.mem_cons_self ..)
      rw [← hg, ← he]
      exact hk.2.2
    · rw [if_neg hk] at h
      exact ih (fun e' he' => hc e' (List.mem_cons_of_mem _ he')) h

/-- One call with an injective key: the fresh result, and the cache stays consistent. -/
theorem call_pure {α : Type} [DecidableEq α] (κ : Factor → α) (hκ : ∀ f g, κ f = κ g → f = g)
    (c : List (Entry α)) (hc : CacheOk κ c) (a : Args) :
    (call κ c a).1 = freshOut a ∧ CacheOk κ (call κ c a).2 := by
  unfold call
  by_cases hr : (a.cls.relativistic && a.parametrize) = true
  · rw [if_pos hr]
    cases hl : lookup c a.angMom a.radius (κ a.phsp) with
    | none =>
      refine ⟨rfl, ?_⟩
      intro e he
      cases he with
      | head => rfl
      | tail _ h => exact hc e h
    | some g =>
      have hg : g = a.phsp := hκ _ _ (lookup_key κ c hc _ _ _ g hl)
      refine ⟨?_, hc⟩
      show out a g = freshOut a
      rw [hg]
      rfl
  · rw [if_neg hr]
    exact ⟨rfl, hc⟩

end Ampverif.Lemmas.C10History
