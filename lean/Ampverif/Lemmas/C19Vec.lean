/-
Four-vectors by components, Minkowski product, and the covariant form of "cosine of the angle
between `a` and `b` seen in the rest frame of `Q`" (a ratio of Gram determinants).
-/
import Ampverif.Lemmas.C19Basic

namespace Ampverif.Lemmas.C19

/-- a four-vector `(E; x, y, z)` -/
structure V4 where
  E : ℝ
  x : ℝ
  y : ℝ
  z : ℝ

namespace V4

instance : Add V4 := ⟨fun a b => ⟨a.E + b.E, a.x + b.x, a.y + b.y, a.z + b.z⟩⟩

@[simp] theorem add_E (a b : V4) : (a + b).E = a.E + b.E := rfl
@[simp] theorem add_x (a b : V4) : (a + b).x = a.x + b.x := rfl
@[simp] theorem add_y (a b : V4) : (a + b).y = a.y + b.y := rfl
@[simp] theorem add_z (a b : V4) : (a + b).z = a.z + b.z := rfl

/-- Minkowski product, signature (+,−,−,−) -/
def dot (a b : V4) : ℝ := a.E * b.E - a.x * b.x - a.y * b.y - a.z * b.z

/-- Euclidean product of the three-momenta -/
def dot3 (a b : V4) : ℝ := a.x * b.x + a.y * b.y + a.z * b.z

/-- Lorentz-invariant expression that equals `â·b̂` (three-vectors) in the rest frame of `Q`:
`[(Q·a)(Q·b) − Q²(a·b)] / (√((Q·a)² − Q²a²) √((Q·b)² − Q²b²))`. -/
noncomputable def covCos (Q a b : V4) : ℝ :=
  (dot Q a * dot Q b - dot Q Q * dot a b)
    / (Real.sqrt (dot Q a ^ 2 - dot Q Q * dot a a) * Real.sqrt (dot Q b ^ 2 - dot Q Q * dot b b))

/-- In the rest frame of `Q` the covariant expression is the cosine of the angle between the
three-momenta of `a` and `b`. -/
theorem covCos_rest (Q a b : V4) (hx : Q.x = 0) (hy : Q.y = 0) (hz : Q.z = 0) (hE : Q.E ≠ 0) :
    covCos Q a b = dot3 a b / (Real.sqrt (dot3 a a) * Real.sqrt (dot3 b b)) := by
  have hpos : 0 < Q.E ^ 2 := by positivity
  have hs : Real.sqrt (Q.E ^ 2) ^ 2 = Q.E ^ 2 := Real.sq_sqrt hpos.le
  have hne : Real.sqrt (Q.E ^ 2) ≠ 0 := (Real.sqrt_pos.mpr hpos).ne'
  have e1 : dot Q a * dot Q b - dot Q Q * dot a b = Q.E ^ 2 * dot3 a b := by
    simp only [dot, dot3, hx, hy, hz]; ring
  have e2 : dot Q a ^ 2 - dot Q Q * dot a a = Q.E ^ 2 * dot3 a a := by
    simp only [dot, dot3, hx, hy, hz]; ring
  have e3 : dot Q b ^ 2 - dot Q Q * dot b b = Q.E ^ 2 * dot3 b b := by
    simp only [dot, dot3, hx, hy, hz]; ring
  unfold covCos
  rw [e1, e2, e3, Real.sqrt_mul hpos.le, Real.sqrt_mul hpos.le]
  generalize Real.sqrt (Q.E ^ 2) = r at *
  rw [← hs]
  rw [div_eq_mul_inv, div_eq_mul_inv, mul_inv, mul_inv, mul_inv]
  field_simp

end V4

/-- The library's seven mass symbols are the invariant masses of the event `p₁, p₂, p₃`. -/
structure Masses (p1 p2 p3 : V4) (m_0 m_1 m_2 m_3 m_12 m_13 m_23 : ℝ) : Prop where
  h0 : m_0 ^ 2 = V4.dot (p1 + p2 + p3) (p1 + p2 + p3)
  h1 : m_1 ^ 2 = V4.dot p1 p1
  h2 : m_2 ^ 2 = V4.dot p2 p2
  h3 : m_3 ^ 2 = V4.dot p3 p3
  h12 : m_12 ^ 2 = V4.dot (p1 + p2) (p1 + p2)
  h13 : m_13 ^ 2 = V4.dot (p1 + p3) (p1 + p3)
  h23 : m_23 ^ 2 = V4.dot (p2 + p3) (p2 + p3)

/-- `σ₁ + σ₂ + σ₃ = m₀² + m₁² + m₂² + m₃²` holds for every event. -/
theorem Masses.constraint {p1 p2 p3 : V4} {m_0 m_1 m_2 m_3 m_12 m_13 m_23 : ℝ}
    (h : Masses p1 p2 p3 m_0 m_1 m_2 m_3 m_12 m_13 m_23) :
    m_12 ^ 2 + m_13 ^ 2 + m_23 ^ 2 = m_0 ^ 2 + m_1 ^ 2 + m_2 ^ 2 + m_3 ^ 2 := by
  rw [h.h0, h.h1, h.h2, h.h3, h.h12, h.h13, h.h23]
  simp only [V4.dot, V4.add_E, V4.add_x, V4.add_y, V4.add_z]
  ring

end Ampverif.Lemmas.C19
