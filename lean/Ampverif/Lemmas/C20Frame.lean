/-
Helper lemmas for C20: reversed Cauchy–Schwarz for a time-like vector, in components.
`H P u v := ⟨P,u⟩⟨P,v⟩ − ⟨P,P⟩⟨u,v⟩` is a positive semi-definite bilinear form when `P` is
time-like, hence satisfies the Cauchy–Schwarz inequality.
-/
import Mathlib.Data.Real.Basic
import Mathlib.Algebra.QuadraticDiscriminant
import Mathlib.Tactic.Ring
import Mathlib.Tactic.Linarith
import Mathlib.Tactic.Positivity

namespace Ampverif.Lemmas.C20Frame

/-- A four-vector by components. -/
structure V4 where
  t : ℝ
  x : ℝ
  y : ℝ
  z : ℝ

namespace V4
def add (a b : V4) : V4 := ⟨a.t + b.t, a.x + b.x, a.y + b.y, a.z + b.z⟩
def smul (c : ℝ) (a : V4) : V4 := ⟨c * a.t, c * a.x, c * a.y, c * a.z⟩
instance : Add V4 := ⟨add⟩
/-- Minkowski product (+,−,−,−). -/
def dot (a b : V4) : ℝ := a.t * b.t - a.x * b.x - a.y * b.y - a.z * b.z
/-- Minkowski square. -/
def sq (a : V4) : ℝ := dot a a
@[simp] theorem add_t (a b : V4) : (a + b).t = a.t + b.t := rfl
@[simp] theorem add_x (a b : V4) : (a + b).x = a.x + b.x := rfl
@[simp] theorem add_y (a b : V4) : (a + b).y = a.y + b.y := rfl
@[simp] theorem add_z (a b : V4) : (a + b).z = a.z + b.z := rfl
end V4

open V4

/-- `H P u v = ⟨P,u⟩⟨P,v⟩ − ⟨P,P⟩⟨u,v⟩`. -/
def H (P u v : V4) : ℝ := dot P u * dot P v - dot P P * dot u v

theorem H_symm (P u v : V4) : H P u v = H P v u := by
  unfold H dot; ring

/-- `P₀² · H(u,u) = ⟨P,P⟩ |w|² + (P⃗·w)²` with `w = P₀ u⃗ − u₀ P⃗`. -/
theorem H_self_identity (P u : V4) :
    P.t ^ 2 * H P u u
      = dot P P * ((P.t * u.x - u.t * P.x) ^ 2 + (P.t * u.y - u.t * P.y) ^ 2
          + (P.t * u.z - u.t * P.z) ^ 2)
        + (P.x * (P.t * u.x - u.t * P.x) + P.y * (P.t * u.y - u.t * P.y)
          + P.z * (P.t * u.z - u.t * P.z)) ^ 2 := by
  unfold H dot; ring

theorem time_ne_zero (P : V4) (hP : 0 < dot P P) : 0 < P.t ^ 2 := by
  unfold dot at hP
  nlinarith [sq_nonneg P.x, sq_nonneg P.y, sq_nonneg P.z, sq_nonneg P.t]

/-- Reversed Cauchy–Schwarz: `⟨P,u⟩² ≥ ⟨P,P⟩⟨u,u⟩` for time-like `P`. -/
theorem H_self_nonneg (P u : V4) (hP : 0 < dot P P) : 0 ≤ H P u u := by
  have h1 := H_self_identity P u
  have h2 := time_ne_zero P hP
  have h3 : 0 ≤ P.t ^ 2 * H P u u := by
    rw [h1]; positivity
  by_contra hneg
  push Not at hneg
  have := mul_neg_of_pos_of_neg h2 hneg
  linarith

theorem H_add_smul (P u v : V4) (c : ℝ) :
    H P (u + smul c v) (u + smul c v) = H P v v * c * c + 2 * H P u v * c + H P u u := by
  show H P (add u (smul c v)) (add u (smul c v)) = _
  unfold H dot add smul; ring

/-- Cauchy–Schwarz for the form `H P`. -/
theorem H_cauchy_schwarz (P u v : V4) (hP : 0 < dot P P) :
    H P u v ^ 2 ≤ H P u u * H P v v := by
  have h : ∀ c : ℝ, 0 ≤ H P v v * (c * c) + 2 * H P u v * c + H P u u := by
    intro c
    have := H_self_nonneg P (u + smul c v) hP
    rw [H_add_smul] at this
    linarith
  have := discrim_le_zero h
  unfold discrim at this
  nlinarith

end Ampverif.Lemmas.C20Frame
