/-
C04, layer (K), part 4 — what a global rotation does to the helicity frames.

`helframe P = BoostZ(|p|/E) · RotY(−Theta P) · RotZ(−Phi P)` is exactly the
`ArrayMultiplication(BoostZMatrix(beta), RotationYMatrix(-theta), RotationZMatrix(-phi), ·)` chain
of `compute_helicity_angles`, on the regenerated matrices.

* `frame_covariance`: `h(R v) = R · h(v) · Rz(−δ)` for some δ;
* `helframe_covariance`: the child-frame momenta of the rotated event are `RotZ δ` times those of
  the original event (same δ for every momentum);
* `thetaOf_Rz3`, `Rz3_phiOf_Rz3`: under `Rz(δ)` the polar angle is unchanged and the azimuth
  shifts by δ; `helframe_Rz`: the frames of the NEXT level coincide, so every deeper momentum
  (and angle) is identical.
-/
import Ampverif.Lemmas.C04Angles

namespace Ampverif.Lemmas.C04
open Matrix Ampverif.Gen.C04

theorem nrm_eq_sqrt_dot (v : Fin 3 → ℝ) : nrm v = Real.sqrt (v ⬝ᵥ v) := by
  unfold nrm
  congr 1
  simp [dotProduct, Fin.sum_univ_three]
  ring

theorem dot_rot {R : Matrix (Fin 3) (Fin 3) ℝ} (hR : IsRot R) (v : Fin 3 → ℝ) :
    (R *ᵥ v) ⬝ᵥ (R *ᵥ v) = v ⬝ᵥ v := by
  have h1 : R *ᵥ v = v ᵥ* Rᵀ := (Matrix.vecMul_transpose R v).symm
  conv_lhs => lhs; rw [h1]
  rw [← Matrix.dotProduct_mulVec, Matrix.mulVec_mulVec, hR.1, Matrix.one_mulVec]

theorem nrm_rot {R : Matrix (Fin 3) (Fin 3) ℝ} (hR : IsRot R) (v : Fin 3 → ℝ) :
    nrm (R *ᵥ v) = nrm v := by
  rw [nrm_eq_sqrt_dot, nrm_eq_sqrt_dot, dot_rot hR]

/-- For a proper rotation `R` and `v ≠ 0`: `h(R v) = R · h(v) · Rz(−δ)` for some δ. -/
theorem frame_covariance {R : Matrix (Fin 3) (Fin 3) ℝ} (hR : IsRot R) (v : Fin 3 → ℝ)
    (hv : 0 < nrm v) :
    ∃ δ : ℝ, hframe (phiOf (R *ᵥ v)) (thetaOf (R *ᵥ v))
        = R * hframe (phiOf v) (thetaOf v) * Rz3 (-δ) := by
  have hv' : 0 < nrm (R *ᵥ v) := by rw [nrm_rot hR]; exact hv
  have e1 := hframe_angles v hv
  have e2 := hframe_angles (R *ᵥ v) hv'
  rw [nrm_rot hR] at e2
  have r1 := hframe_isRot (phiOf v) (thetaOf v)
  have r2 := hframe_isRot (phiOf (R *ᵥ v)) (thetaOf (R *ᵥ v))
  generalize hframe (phiOf v) (thetaOf v) = H at e1 r1 ⊢
  generalize hframe (phiOf (R *ᵥ v)) (thetaOf (R *ᵥ v)) = H' at e2 r2 ⊢
  have hM : IsRot (H'ᵀ * R * H) := (r2.transpose.mul hR).mul r1
  have hfix : (H'ᵀ * R * H) *ᵥ ez = ez := by
    rw [← Matrix.mulVec_mulVec, e1, Matrix.mulVec_smul, ← Matrix.mulVec_mulVec, ← Matrix.mulVec_smul,
      ← e2, Matrix.mulVec_mulVec, r2.1, Matrix.one_mulVec]
  obtain ⟨δ, hδ⟩ := rot_fix_ez_is_Rz3 hM hfix
  refine ⟨δ, ?_⟩
  have h3 : H' * Rz3 δ = R * H := by
    rw [← hδ, ← Matrix.mul_assoc, ← Matrix.mul_assoc, r2.mul_transpose, Matrix.one_mul]
  rw [← h3, Matrix.mul_assoc, Rz3_add, add_neg_cancel, Rz3_zero, Matrix.mul_one]

/-- spatial part of a four-vector `(E, x, y, z)` -/
def sp (p : Fin 4 → ℝ) : Fin 3 → ℝ := ![p 1, p 2, p 3]

theorem emb_mulVec (R : Matrix (Fin 3) (Fin 3) ℝ) (p : Fin 4 → ℝ) :
    emb R *ᵥ p = ![p 0, (R *ᵥ sp p) 0, (R *ᵥ sp p) 1, (R *ᵥ sp p) 2] := by
  ext i
  fin_cases i <;>
    simp [emb, sp, Matrix.mulVec, dotProduct, Fin.sum_univ_four, Fin.sum_univ_three]

theorem sp_emb_mulVec (R : Matrix (Fin 3) (Fin 3) ℝ) (p : Fin 4 → ℝ) :
    sp (emb R *ᵥ p) = R *ᵥ sp p := by
  rw [emb_mulVec]
  ext i
  fin_cases i <;> simp [sp]

theorem energy_emb_mulVec (R : Matrix (Fin 3) (Fin 3) ℝ) (p : Fin 4 → ℝ) :
    (emb R *ᵥ p) 0 = p 0 := by
  rw [emb_mulVec]; rfl

/-- the source's helicity-frame transformation for the subsystem momentum `P` -/
noncomputable def helframe (P : Fin 4 → ℝ) : Matrix (Fin 4) (Fin 4) ℝ :=
  BoostZ (nrm (sp P) / P 0) * RotY (-thetaOf (sp P)) * RotZ (-phiOf (sp P))

theorem helframe_eq (P : Fin 4 → ℝ) :
    helframe P = BoostZ (nrm (sp P) / P 0) * emb ((hframe (phiOf (sp P)) (thetaOf (sp P)))ᵀ) := by
  rw [helframe, RotY_eq, RotZ_eq, Matrix.mul_assoc, ← emb_mul, hframe, Matrix.transpose_mul,
    Rz3_transpose, Ry3_transpose]

/-- Both effects of a global rotation `R` on the frames attached to a subsystem `P`, with ONE
angle δ: the production frame becomes `R · h(P) · Rz(−δ)` and every momentum seen from the
subsystem's helicity frame is rotated by `RotZ δ`. -/
theorem frames_covariance {R : Matrix (Fin 3) (Fin 3) ℝ} (hR : IsRot R) (P : Fin 4 → ℝ)
    (hP : 0 < nrm (sp P)) :
    ∃ δ : ℝ,
      hframe (phiOf (sp (emb R *ᵥ P))) (thetaOf (sp (emb R *ᵥ P)))
          = R * hframe (phiOf (sp P)) (thetaOf (sp P)) * Rz3 (-δ) ∧
      ∀ q : Fin 4 → ℝ, helframe (emb R *ᵥ P) *ᵥ (emb R *ᵥ q) = RotZ δ *ᵥ (helframe P *ᵥ q) := by
  obtain ⟨δ, hδ⟩ := frame_covariance hR (sp P) hP
  refine ⟨δ, by rw [sp_emb_mulVec]; exact hδ, fun q => ?_⟩
  rw [helframe_eq, helframe_eq, sp_emb_mulVec, energy_emb_mulVec, nrm_rot hR, hδ]
  have r1 := hframe_isRot (phiOf (sp P)) (thetaOf (sp P))
  generalize hframe (phiOf (sp P)) (thetaOf (sp P)) = H at r1 ⊢
  have hT : (R * H * Rz3 (-δ))ᵀ * R = Rz3 δ * Hᵀ := by
    rw [Matrix.transpose_mul, Matrix.transpose_mul, Rz3_transpose, neg_neg, Matrix.mul_assoc,
      Matrix.mul_assoc, hR.1, Matrix.mul_one]
  rw [Matrix.mulVec_mulVec, Matrix.mulVec_mulVec, Matrix.mul_assoc, ← emb_mul, hT, emb_mul,
    ← Matrix.mul_assoc, ← RotZ_eq, BoostZ_comm_RotZ, Matrix.mul_assoc]

/-- Child-frame momenta of the globally rotated event are `RotZ δ` times those of the original
event; δ depends on the rotation and on the subsystem momentum `P` only. -/
theorem helframe_covariance {R : Matrix (Fin 3) (Fin 3) ℝ} (hR : IsRot R) (P : Fin 4 → ℝ)
    (hP : 0 < nrm (sp P)) :
    ∃ δ : ℝ, ∀ q : Fin 4 → ℝ,
      helframe (emb R *ᵥ P) *ᵥ (emb R *ᵥ q) = RotZ δ *ᵥ (helframe P *ᵥ q) := by
  obtain ⟨δ, _, h⟩ := frames_covariance hR P hP
  exact ⟨δ, h⟩

/-! ### one level deeper: the rotation seen by the child frame is `Rz δ` -/

set_option linter.unnecessarySeqFocus false in
theorem Rz3_mulVec (δ : ℝ) (v : Fin 3 → ℝ) :
    Rz3 δ *ᵥ v = ![Real.cos δ * v 0 - Real.sin δ * v 1, Real.sin δ * v 0 + Real.cos δ * v 1, v 2] := by
  ext i
  fin_cases i <;> simp [Rz3, Matrix.mulVec, dotProduct, Fin.sum_univ_three] <;> ring

theorem Rz3_congr {a b : ℝ} (hc : Real.cos a = Real.cos b) (hs : Real.sin a = Real.sin b) :
    Rz3 a = Rz3 b := by
  unfold Rz3; rw [hc, hs]

/-- polar angle unchanged under a rotation about z -/
theorem thetaOf_Rz3 (δ : ℝ) (v : Fin 3 → ℝ) : thetaOf (Rz3 δ *ᵥ v) = thetaOf v := by
  have hn := nrm_rot (Rz3_isRot δ) v
  unfold thetaOf ThetaOf
  rw [show Real.sqrt ((Rz3 δ *ᵥ v) 0 ^ 2 + (Rz3 δ *ᵥ v) 1 ^ 2 + (Rz3 δ *ᵥ v) 2 ^ 2) = nrm (Rz3 δ *ᵥ v) from rfl,
    show Real.sqrt (v 0 ^ 2 + v 1 ^ 2 + v 2 ^ 2) = nrm v from rfl, hn, Rz3_mulVec]
  simp

/-- the azimuth shifts by δ (stated on the rotation matrices, i.e. modulo 2π) -/
theorem Rz3_phiOf_Rz3 (δ : ℝ) (v : Fin 3 → ℝ) (hxy : 0 < v 0 ^ 2 + v 1 ^ 2) :
    Rz3 (phiOf (Rz3 δ *ᵥ v)) = Rz3 (phiOf v + δ) := by
  have h0 : (⟨v 0, v 1⟩ : ℂ) ≠ 0 := by
    intro h
    have hx : v 0 = 0 := by simpa using congrArg Complex.re h
    have hy : v 1 = 0 := by simpa using congrArg Complex.im h
    rw [hx, hy] at hxy; simp at hxy
  set x := v 0 with hx
  set y := v 1 with hy
  set c := Real.cos δ
  set s := Real.sin δ
  have hcs : c ^ 2 + s ^ 2 = 1 := by
    have := Real.sin_sq_add_cos_sq δ; nlinarith
  have hρ' : (c * x - s * y) ^ 2 + (s * x + c * y) ^ 2 = x ^ 2 + y ^ 2 := by nlinarith
  have h0' : (⟨c * x - s * y, s * x + c * y⟩ : ℂ) ≠ 0 := by
    intro h
    have h1 : c * x - s * y = 0 := by simpa using congrArg Complex.re h
    have h2 : s * x + c * y = 0 := by simpa using congrArg Complex.im h
    rw [h1, h2] at hρ'; nlinarith
  have hρ : 0 < Real.sqrt (x ^ 2 + y ^ 2) := Real.sqrt_pos.mpr hxy
  have hc' : Real.cos (phiOf (Rz3 δ *ᵥ v)) = (c * x - s * y) / Real.sqrt (x ^ 2 + y ^ 2) := by
    unfold phiOf PhiOf
    rw [Rz3_mulVec]
    simp only [Matrix.cons_val_zero, Matrix.cons_val_one]
    rw [Complex.cos_arg h0', rho_eq, hρ']
  have hs' : Real.sin (phiOf (Rz3 δ *ᵥ v)) = (s * x + c * y) / Real.sqrt (x ^ 2 + y ^ 2) := by
    unfold phiOf PhiOf
    rw [Rz3_mulVec]
    simp only [Matrix.cons_val_zero, Matrix.cons_val_one]
    rw [Complex.sin_arg, rho_eq, hρ']
  have hc0 : Real.cos (phiOf v) = x / Real.sqrt (x ^ 2 + y ^ 2) := by
    unfold phiOf PhiOf; rw [Complex.cos_arg h0, rho_eq]
  have hs0 : Real.sin (phiOf v) = y / Real.sqrt (x ^ 2 + y ^ 2) := by
    unfold phiOf PhiOf; rw [Complex.sin_arg, rho_eq]
  have hcos : Real.cos (phiOf (Rz3 δ *ᵥ v)) = Real.cos (phiOf v + δ) := by
    rw [Real.cos_add, hc', hc0, hs0]; field_simp; ring
  have hsin : Real.sin (phiOf (Rz3 δ *ᵥ v)) = Real.sin (phiOf v + δ) := by
    rw [Real.sin_add, hs', hc0, hs0]; field_simp; ring
  exact Rz3_congr hcos hsin

/-- `h(Rz(δ) v) = Rz(δ) · h(v)` for `v` off the z axis -/
theorem hframe_Rz3 (δ : ℝ) (v : Fin 3 → ℝ) (hxy : 0 < v 0 ^ 2 + v 1 ^ 2) :
    hframe (phiOf (Rz3 δ *ᵥ v)) (thetaOf (Rz3 δ *ᵥ v)) = Rz3 δ * hframe (phiOf v) (thetaOf v) := by
  rw [hframe, hframe, thetaOf_Rz3, Rz3_phiOf_Rz3 δ v hxy, ← Matrix.mul_assoc, Rz3_add, add_comm]

/-- Deeper frames coincide: if all momenta of a frame are rotated by `RotZ δ`, the helicity-frame
transformation of any subsystem `S` (off the z axis) absorbs the rotation, so the momenta of the
next level — and with them every deeper momentum and angle — are unchanged. -/
theorem helframe_Rz (δ : ℝ) (S : Fin 4 → ℝ) (hxy : 0 < (sp S) 0 ^ 2 + (sp S) 1 ^ 2) (q : Fin 4 → ℝ) :
    helframe (RotZ δ *ᵥ S) *ᵥ (RotZ δ *ᵥ q) = helframe S *ᵥ q := by
  rw [RotZ_eq, helframe_eq, helframe_eq, sp_emb_mulVec, energy_emb_mulVec, nrm_rot (Rz3_isRot δ),
    hframe_Rz3 δ (sp S) hxy, Matrix.mulVec_mulVec, Matrix.mul_assoc, ← emb_mul, Matrix.transpose_mul,
    Matrix.mul_assoc, (Rz3_isRot δ).1, Matrix.mul_one]

end Ampverif.Lemmas.C04
