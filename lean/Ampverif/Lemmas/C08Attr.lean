/-
Simp sets used to unfold the regenerated C08 definitions. `Gen/C08.lean` tags every matrix / vector
entry, every assembled matrix and every shared subterm (`<family>_s<i>`) with `@[c08_entries]`, and the
components of every named intermediate vector (`<family>_v<k>_<i>`: the result of a matrix-times-vector
einsum in the generated code, resp. of an `ArrayMultiplication` in an explicit matrix) with
`@[c08_vectors]`; radicand definitions are NOT tagged. Needs core Lean only.
-/
import Lean.Meta.Tactic.Simp.RegisterCommand

register_simp_attr c08_entries
register_simp_attr c08_vectors
