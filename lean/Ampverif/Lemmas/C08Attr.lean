/-
Simp set used to unfold the regenerated C08 entry definitions (`Gen/C08.lean` tags every matrix /
vector entry and every assembled matrix with `@[c08_entries]`; radicand definitions are NOT
tagged). Needs core Lean only.
-/
import Lean.Meta.Tactic.Simp.RegisterCommand

register_simp_attr c08_entries
