/-
C07 (Dalitz link): pure algebra behind "the library's chain `Bz(β)·Ry(−θ)·Rz(−φ)` lands in the rest
frame of the subsystem with the z axis along its flight direction, so that in a three-body decay
given in the rest frame of the decaying particle the cosine of the polar angle of a decay product
is minus the covariant cosine between that product and the spectator".

Nothing here mentions generated definitions: the matrix entries are variables constrained by the
equations the regenerated entries are shown to satisfy (`Props/C07Dalitz.lean`).
-/
import Ampverif.Lemmas.C19Vec
import Mathlib.Analysis.Real.Sqrt
import Mathlib.Tactic.Ring
import Mathlib.Tactic.Linarith
import Mathlib.Tactic.LinearCombination
import Mathlib.Tactic.Positivity
import Mathlib.Tactic.FieldSimp

namespace Ampverif.Lemmas.C07
open Ampverif.Lemmas.C19

/-- The frame vector `(E; X, Y, Z)` with `n = |(X,Y,Z)| > 0`, `pt = |(X,Y)| > 0`,
`m = √(E²−n²) > 0`; the rotation entries `cφ sφ cθ sθ` and boost entries `γ gb` as constrained;
`(Ei; x, y, z)` the momentum that is transformed, `(qx, qy, qz)` the result, `v2z` the z component
after the two rotations. -/
structure ChainData (E X Y Z Ei x y z cφ sφ cθ sθ γ gb n pt m qx qy qz v2z : ℝ) : Prop where
  hn : n ^ 2 = X ^ 2 + Y ^ 2 + Z ^ 2
  hn0 : 0 < n
  hpt : pt ^ 2 = X ^ 2 + Y ^ 2
  hpt0 : 0 < pt
  h1 : cφ * pt = X
  h2 : sφ * pt = -Y
  h3 : cθ * n = Z
  h4 : sθ * n = -pt
  hm : m ^ 2 = E ^ 2 - n ^ 2
  hm0 : 0 < m
  hγ : γ * m = E
  hgb : gb * m = n
  hqx : qx = cθ * (cφ * x + -sφ * y) + sθ * z
  hqy : qy = sφ * x + cφ * y
  hv2z : v2z = -sθ * (cφ * x + -sφ * y) + cθ * z
  hqz : qz = -gb * Ei + γ * v2z

namespace ChainData
variable {E X Y Z Ei x y z cφ sφ cθ sθ γ gb n pt m qx qy qz v2z : ℝ}

theorem rotZ_unit (d : ChainData E X Y Z Ei x y z cφ sφ cθ sθ γ gb n pt m qx qy qz v2z) :
    cφ ^ 2 + sφ ^ 2 = 1 := by
  have e : (cφ ^ 2 + sφ ^ 2 - 1) * pt ^ 2 = 0 := by
    linear_combination (cφ * pt + X) * d.h1 + (sφ * pt - Y) * d.h2 - d.hpt
  have hp : pt ^ 2 ≠ 0 := pow_ne_zero 2 d.hpt0.ne'
  have := (mul_eq_zero.1 e).resolve_right hp
  linarith

theorem rotY_unit (d : ChainData E X Y Z Ei x y z cφ sφ cθ sθ γ gb n pt m qx qy qz v2z) :
    cθ ^ 2 + sθ ^ 2 = 1 := by
  have e : (cθ ^ 2 + sθ ^ 2 - 1) * n ^ 2 = 0 := by
    linear_combination (cθ * n + Z) * d.h3 + (sθ * n - pt) * d.h4 - d.hn + d.hpt
  have hp : n ^ 2 ≠ 0 := pow_ne_zero 2 d.hn0.ne'
  have := (mul_eq_zero.1 e).resolve_right hp
  linarith

/-- after the two rotations the z component is the projection on the frame's flight direction -/
theorem proj (d : ChainData E X Y Z Ei x y z cφ sφ cθ sθ γ gb n pt m qx qy qz v2z) :
    n * v2z = X * x + Y * y + Z * z := by
  rw [d.hv2z]
  linear_combination (-(cφ * x - sφ * y)) * d.h4 + z * d.h3 + x * d.h1 - y * d.h2

/-- the rotations preserve the length of the three-momentum -/
theorem rot_norm (d : ChainData E X Y Z Ei x y z cφ sφ cθ sθ γ gb n pt m qx qy qz v2z) :
    qx ^ 2 + qy ^ 2 + v2z ^ 2 = x ^ 2 + y ^ 2 + z ^ 2 := by
  rw [d.hqx, d.hqy, d.hv2z]
  linear_combination ((cφ * x - sφ * y) ^ 2 + z ^ 2) * d.rotY_unit + (x ^ 2 + y ^ 2) * d.rotZ_unit

/-- the boost: `m·q_z = E·v₂z − n·E_i` -/
theorem boost_z (d : ChainData E X Y Z Ei x y z cφ sφ cθ sθ γ gb n pt m qx qy qz v2z) :
    m * qz = E * v2z - n * Ei := by
  rw [d.hqz]
  linear_combination (-Ei) * d.hgb + v2z * d.hγ

/-- the transformed three-momentum has the length the Gram determinant says:
`m²|q⃗|² = (F·p)² − F²·p²` -/
theorem gram (d : ChainData E X Y Z Ei x y z cφ sφ cθ sθ γ gb n pt m qx qy qz v2z) :
    m ^ 2 * (qx ^ 2 + qy ^ 2 + qz ^ 2)
      = (E * Ei - (X * x + Y * y + Z * z)) ^ 2 - m ^ 2 * (Ei ^ 2 - (x ^ 2 + y ^ 2 + z ^ 2)) := by
  rw [← d.proj, ← d.rot_norm]
  linear_combination (m * qz + (E * v2z - n * Ei)) * d.boost_z + (Ei ^ 2 - v2z ^ 2) * d.hm

/-- **The chain measures the helicity angle.** With the spectator `(Ek; −X, −Y, −Z)` (the event is
given in the rest frame of the decaying particle) and positive total energy, the cosine of the
polar angle of the transformed momentum is minus the covariant cosine between the decay product
and the spectator, seen from the subsystem. -/
theorem cos_eq_neg_covCos (d : ChainData E X Y Z Ei x y z cφ sφ cθ sθ γ gb n pt m qx qy qz v2z)
    {Ek : ℝ} (hM : 0 < E + Ek) :
    (Real.sqrt (qx ^ 2 + qy ^ 2 + qz ^ 2))⁻¹ * qz
      = -V4.covCos ⟨E, X, Y, Z⟩ ⟨Ei, x, y, z⟩ ⟨Ek, -X, -Y, -Z⟩ := by
  set S := qx ^ 2 + qy ^ 2 + qz ^ 2 with hS
  have hS0 : 0 ≤ S := by positivity
  have hFF : V4.dot ⟨E, X, Y, Z⟩ ⟨E, X, Y, Z⟩ = m ^ 2 := by
    simp only [V4.dot]; linear_combination d.hn - d.hm
  have hDi : V4.dot ⟨E, X, Y, Z⟩ ⟨Ei, x, y, z⟩ ^ 2
      - V4.dot ⟨E, X, Y, Z⟩ ⟨E, X, Y, Z⟩ * V4.dot ⟨Ei, x, y, z⟩ ⟨Ei, x, y, z⟩ = m ^ 2 * S := by
    rw [hFF, d.gram]; simp only [V4.dot]; ring
  have hDk : V4.dot ⟨E, X, Y, Z⟩ ⟨Ek, -X, -Y, -Z⟩ ^ 2
      - V4.dot ⟨E, X, Y, Z⟩ ⟨E, X, Y, Z⟩ * V4.dot ⟨Ek, -X, -Y, -Z⟩ ⟨Ek, -X, -Y, -Z⟩
      = ((E + Ek) * n) ^ 2 := by
    rw [hFF]; simp only [V4.dot]
    linear_combination (-(2 * E * Ek + (X ^ 2 + Y ^ 2 + Z ^ 2) + n ^ 2 + m ^ 2)) * d.hn
      + (-(Ek ^ 2 - n ^ 2)) * d.hm
  have hN : V4.dot ⟨E, X, Y, Z⟩ ⟨Ei, x, y, z⟩ * V4.dot ⟨E, X, Y, Z⟩ ⟨Ek, -X, -Y, -Z⟩
      - V4.dot ⟨E, X, Y, Z⟩ ⟨E, X, Y, Z⟩ * V4.dot ⟨Ei, x, y, z⟩ ⟨Ek, -X, -Y, -Z⟩
      = ((E + Ek) * n * m) * (-qz) := by
    rw [hFF]; simp only [V4.dot]
    have hp := d.proj
    have hb := d.boost_z
    linear_combination (E * Ek + (X ^ 2 + Y ^ 2 + Z ^ 2) + m ^ 2) * hp - (E * Ei - n * v2z) * d.hn
      - (Ei * Ek + n * v2z) * d.hm + ((E + Ek) * n) * hb
  have hc : (E + Ek) * n * m ≠ 0 := (mul_pos (mul_pos hM d.hn0) d.hm0).ne'
  have hpos : 0 ≤ (E + Ek) * n := (mul_pos hM d.hn0).le
  unfold V4.covCos
  rw [hN, hDi, hDk, Real.sqrt_mul (sq_nonneg m) S, Real.sqrt_sq d.hm0.le, Real.sqrt_sq hpos]
  have hden : m * Real.sqrt S * ((E + Ek) * n) = ((E + Ek) * n * m) * Real.sqrt S := by ring
  rw [hden, mul_div_mul_left _ _ hc, neg_div, neg_neg, div_eq_inv_mul]

/-- the chain applied to the subsystem's own momentum: it comes to rest -/
theorem frame_to_rest (d : ChainData E X Y Z E X Y Z cφ sφ cθ sθ γ gb n pt m qx qy qz v2z) :
    qx = 0 ∧ qy = 0 ∧ qz = 0 ∧ v2z = n := by
  have hv : v2z = n := by
    have h := d.proj
    have : n * v2z = n * n := by rw [h]; linear_combination -d.hn
    exact mul_left_cancel₀ d.hn0.ne' this
  have hz : qz = 0 := by
    have h := d.boost_z
    rw [hv] at h
    have : m * qz = m * 0 := by rw [h]; ring
    exact mul_left_cancel₀ d.hm0.ne' this
  have hy : qy = 0 := by
    have : pt * qy = pt * 0 := by rw [d.hqy]; linear_combination X * d.h2 + Y * d.h1
    exact mul_left_cancel₀ d.hpt0.ne' this
  have hx : qx = 0 := by
    have h := d.rot_norm
    rw [hy, hv] at h
    have : qx ^ 2 = 0 := by linear_combination h - d.hn
    exact pow_eq_zero_iff (by norm_num) |>.1 this
  exact ⟨hx, hy, hz, hv⟩

end ChainData
end Ampverif.Lemmas.C07
