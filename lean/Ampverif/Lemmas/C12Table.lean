/-
C12 — generic theorems about a table of normalised Blatt–Weisskopf factors.

An entry `(L, c, [a₀, …, a_L])` denotes `B(z) = c·z^L / (a₀ + a₁ z + … + a_L z^L)`. The table
itself is REGENERATED from `ampform.dynamics.form_factor` (`Gen/C12.lean`: `bwTable`); here are
the table-independent theorems: every well-formed entry is 1 at `z = 1`, is `z^L·(c/P(z))` with
`P(0) > 0`, and stays in `[0, c]` for `z ≥ 0`. Well-formedness is a decidable check.
-/
import Mathlib.Data.Real.Basic
import Mathlib.Data.Rat.Cast.Order
import Mathlib.Algebra.Order.Field.Basic
import Mathlib.Tactic.Ring
import Mathlib.Tactic.Linarith
import Mathlib.Tactic.Positivity
import Mathlib.Tactic.FieldSimp
import Mathlib.Tactic.NormNum

namespace Ampverif.Lemmas.C12

structure BWEntry where
  L : ℕ
  c : ℚ
  den : List ℚ

/-- Horner evaluation of ascending coefficients. -/
noncomputable def polyEval : List ℚ → ℝ → ℝ
  | [], _ => 0
  | a :: as, z => (a : ℝ) + z * polyEval as z

noncomputable def BWEntry.eval (e : BWEntry) (z : ℝ) : ℝ :=
  (e.c : ℝ) * z ^ e.L / polyEval e.den z

/-- Decidable well-formedness: positive constant, `L+1` non-negative coefficients, positive
constant term, monic, and normalised (`Σ aₖ = c`, i.e. `B(1) = 1`). -/
def BWEntry.wf (e : BWEntry) : Bool :=
  decide (0 < e.c) && decide (e.den.length = e.L + 1) && e.den.all (fun a => decide (0 ≤ a))
    && decide (0 < e.den.headD 0) && decide (e.den.getLastD 0 = 1) && decide (e.den.sum = e.c)

structure BWEntry.WF (e : BWEntry) : Prop where
  c_pos : 0 < e.c
  len : e.den.length = e.L + 1
  nonneg : ∀ a ∈ e.den, 0 ≤ a
  head_pos : 0 < e.den.headD 0
  monic : e.den.getLastD 0 = 1
  norm : e.den.sum = e.c

theorem BWEntry.wf_iff (e : BWEntry) : e.wf = true ↔ e.WF := by
  unfold BWEntry.wf
  simp only [Bool.and_eq_true, decide_eq_true_eq, List.all_eq_true]
  constructor
  · rintro ⟨⟨⟨⟨⟨h1, h2⟩, h3⟩, h4⟩, h5⟩, h6⟩
    exact ⟨h1, h2, h3, h4, h5, h6⟩
  · rintro ⟨h1, h2, h3, h4, h5, h6⟩
    exact ⟨⟨⟨⟨⟨h1, h2⟩, h3⟩, h4⟩, h5⟩, h6⟩

theorem polyEval_one (l : List ℚ) : polyEval l 1 = ((l.sum : ℚ) : ℝ) := by
  induction l with
  | nil => simp [polyEval]
  | cons a as ih => simp [polyEval, ih]

theorem polyEval_zero (l : List ℚ) : polyEval l 0 = ((l.headD 0 : ℚ) : ℝ) := by
  cases l <;> simp [polyEval]

theorem polyEval_nonneg (l : List ℚ) (h : ∀ a ∈ l, 0 ≤ a) {z : ℝ} (hz : 0 ≤ z) :
    0 ≤ polyEval l z := by
  induction l with
  | nil => simp [polyEval]
  | cons a as ih =>
    have ha : (0 : ℝ) ≤ (a : ℝ) := by exact_mod_cast h a (by simp)
    have := ih (fun b hb => h b (by simp [hb]))
    simp only [polyEval]
    positivity

theorem polyEval_ge_head (l : List ℚ) (h : ∀ a ∈ l, 0 ≤ a) {z : ℝ} (hz : 0 ≤ z) :
    ((l.headD 0 : ℚ) : ℝ) ≤ polyEval l z := by
  cases l with
  | nil => simp [polyEval]
  | cons a as =>
    have := polyEval_nonneg as (fun b hb => h b (by simp [hb])) hz
    simp only [polyEval, List.headD_cons]
    nlinarith

theorem polyEval_ge_lead (l : List ℚ) (h : ∀ a ∈ l, 0 ≤ a) {z : ℝ} (hz : 0 ≤ z) :
    ((l.getLastD 0 : ℚ) : ℝ) * z ^ (l.length - 1) ≤ polyEval l z := by
  induction l with
  | nil => simp [polyEval]
  | cons a as ih =>
    have ha : (0 : ℝ) ≤ (a : ℝ) := by exact_mod_cast h a (by simp)
    have has : ∀ b ∈ as, 0 ≤ b := fun b hb => h b (by simp [hb])
    cases as with
    | nil => simp [polyEval]
    | cons b bs =>
      have ih' := ih has
      simp only [List.length_cons, Nat.add_sub_cancel] at ih' ⊢
      have hl : (a :: b :: bs).getLastD 0 = (b :: bs).getLastD 0 := by simp [List.getLastD]
      rw [hl]
      have : polyEval (a :: b :: bs) z = (a : ℝ) + z * polyEval (b :: bs) z := rfl
      rw [this, pow_succ]
      nlinarith [mul_le_mul_of_nonneg_left ih' hz]

namespace BWEntry
variable {e : BWEntry}

theorem den_pos (h : e.WF) {z : ℝ} (hz : 0 ≤ z) : 0 < polyEval e.den z := by
  have h0 : (0 : ℝ) < ((e.den.headD 0 : ℚ) : ℝ) := by exact_mod_cast h.head_pos
  exact lt_of_lt_of_le h0 (polyEval_ge_head _ h.nonneg hz)

/-- `P(0) > 0`: the constant term of the denominator. -/
theorem den_zero_pos (h : e.WF) : 0 < polyEval e.den 0 := den_pos h le_rfl

/-- `B(1) = 1`. -/
theorem eval_one (h : e.WF) : e.eval 1 = 1 := by
  have hc : (0 : ℝ) < (e.c : ℝ) := by exact_mod_cast h.c_pos
  unfold BWEntry.eval
  rw [polyEval_one, h.norm, one_pow, mul_one]
  exact div_self hc.ne'

/-- Threshold behaviour: `B(z) = z^L · (c / P(z))` with `c > 0`, `P(0) > 0`. -/
theorem eval_threshold (e : BWEntry) (z : ℝ) : e.eval z = z ^ e.L * ((e.c : ℝ) / polyEval e.den z) := by
  unfold BWEntry.eval; ring

theorem eval_nonneg (h : e.WF) {z : ℝ} (hz : 0 ≤ z) : 0 ≤ e.eval z := by
  have hc : (0 : ℝ) < (e.c : ℝ) := by exact_mod_cast h.c_pos
  have := den_pos h hz
  unfold BWEntry.eval
  positivity

/-- Boundedness: `B(z) ≤ c` for `z ≥ 0` (the denominator is monic with non-negative coefficients). -/
theorem eval_le (h : e.WF) {z : ℝ} (hz : 0 ≤ z) : e.eval z ≤ (e.c : ℝ) := by
  have hc : (0 : ℝ) < (e.c : ℝ) := by exact_mod_cast h.c_pos
  have hd := den_pos h hz
  have hl := polyEval_ge_lead e.den h.nonneg hz
  rw [h.monic, h.len] at hl
  simp only [Nat.add_sub_cancel, Rat.cast_one, one_mul] at hl
  unfold BWEntry.eval
  rw [div_le_iff₀ hd]
  exact mul_le_mul_of_nonneg_left hl hc.le

end BWEntry

end Ampverif.Lemmas.C12
