/-
Helper lemmas for C12, one pair per angular momentum L = 0..10 (written from one template):
* `bw_L_eq_table`  — the syntactically translated polynomial path `BlattWeisskopfSquared_L`
                     equals the regenerated table entry `bwEntry_L` (c·z^L / Σ aₖ zᵏ);
* `hankel_norm_L`  — `|h_L(x)|² = P_L(x²)/x^(2L+2)` for the regenerated spherical Hankel function
                     `SphericalHankel1_L` (P_L = denominator polynomial of the table entry).
`hankel_eq_of_norm` turns the second into "Hankel definition = polynomial path".
-/
import Ampverif.Gen.C12
import Mathlib.Tactic.Ring
import Mathlib.Tactic.FieldSimp
import Mathlib.Tactic.NormNum
import Mathlib.Tactic.Positivity
import Mathlib.Analysis.SpecialFunctions.Pow.Real

namespace Ampverif.Lemmas.C12
open Ampverif.Gen.C12
set_option linter.unusedSimpArgs false
set_option linter.unusedTactic false
set_option linter.unusedVariables false
set_option linter.unreachableTactic false

/-- If `|h(x)|² = P(x²)/x^(2L+2)` for the denominator polynomial of a well-formed entry, then the
Hankel form `|h(1)|²/(|h(√z)|² z)` is the entry's rational function. -/
theorem hankel_eq_of_norm (e : BWEntry) (hwf : e.WF) (h : ℝ → ℂ)
    (hn : ∀ x : ℝ, 0 < x → ‖h x‖ ^ 2 = polyEval e.den (x ^ 2) / x ^ (2 * e.L + 2))
    (z : ℝ) (hz : 0 < z) :
    z⁻¹ * ‖h 1‖ ^ 2 * (‖h (Real.sqrt z)‖ ^ 2)⁻¹ = e.eval z := by
  have hs : 0 < Real.sqrt z := Real.sqrt_pos.mpr hz
  have hsq : Real.sqrt z ^ 2 = z := Real.sq_sqrt hz.le
  have hc : (0 : ℝ) < (e.c : ℝ) := by exact_mod_cast hwf.c_pos
  have hd := BWEntry.den_pos hwf hz.le
  rw [hn 1 one_pos, hn _ hs, hsq]
  have hpow : Real.sqrt z ^ (2 * e.L + 2) = z ^ (e.L + 1) := by
    rw [show 2 * e.L + 2 = 2 * (e.L + 1) by ring, pow_mul, hsq]
  rw [hpow, one_pow, one_pow, div_one, polyEval_one, hwf.norm]
  unfold BWEntry.eval
  field_simp
  ring

theorem exists_sqrt {z : ℝ} (hz : 0 < z) : ∃ x : ℝ, 0 < x ∧ z = x ^ 2 ∧ Real.sqrt z = x :=
  ⟨Real.sqrt z, Real.sqrt_pos.mpr hz, (Real.sq_sqrt hz.le).symm, rfl⟩

theorem bw_0_eq_table (z : ℝ) : BlattWeisskopfSquared_0 z = bwEntry_0.eval z := by
  unfold BlattWeisskopfSquared_0 bwEntry_0 BWEntry.eval
  simp only [polyEval]
  rw [div_eq_mul_inv]
  push_cast
  ring

theorem hankel_norm_0 (x : ℝ) (hx : 0 < x) :
    ‖SphericalHankel1_0 x‖ ^ 2 = polyEval bwEntry_0.den (x ^ 2) / x ^ (2 * bwEntry_0.L + 2) := by
  unfold SphericalHankel1_0 bwEntry_0
  simp only [polyEval, norm_mul, mul_pow, Complex.norm_exp, Complex.norm_I, norm_neg, norm_one,
    Complex.norm_real, Real.norm_eq_abs, sq_abs, Complex.sq_norm, Complex.normSq_apply]
  simp only [Complex.add_re, Complex.add_im, Complex.mul_re, Complex.mul_im, Complex.ofReal_re,
    Complex.ofReal_im, Complex.I_re, Complex.I_im, Complex.neg_re, Complex.neg_im, Complex.one_re,
    Complex.one_im]
  try simp
  all_goals first
    | (field_simp; ring)
    | field_simp

theorem bw_1_eq_table (z : ℝ) : BlattWeisskopfSquared_1 z = bwEntry_1.eval z := by
  unfold BlattWeisskopfSquared_1 bwEntry_1 BWEntry.eval
  simp only [polyEval]
  rw [div_eq_mul_inv]
  push_cast
  ring

theorem hankel_norm_1 (x : ℝ) (hx : 0 < x) :
    ‖SphericalHankel1_1 x‖ ^ 2 = polyEval bwEntry_1.den (x ^ 2) / x ^ (2 * bwEntry_1.L + 2) := by
  unfold SphericalHankel1_1 bwEntry_1
  simp only [polyEval, norm_mul, mul_pow, Complex.norm_exp, Complex.norm_I, norm_neg, norm_one,
    Complex.norm_real, Real.norm_eq_abs, sq_abs, Complex.sq_norm, Complex.normSq_apply]
  simp only [Complex.add_re, Complex.add_im, Complex.mul_re, Complex.mul_im, Complex.ofReal_re,
    Complex.ofReal_im, Complex.I_re, Complex.I_im, Complex.neg_re, Complex.neg_im, Complex.one_re,
    Complex.one_im]
  try simp
  all_goals first
    | (field_simp; ring)
    | field_simp

theorem bw_2_eq_table (z : ℝ) : BlattWeisskopfSquared_2 z = bwEntry_2.eval z := by
  unfold BlattWeisskopfSquared_2 bwEntry_2 BWEntry.eval
  simp only [polyEval]
  rw [div_eq_mul_inv]
  push_cast
  ring

theorem hankel_norm_2 (x : ℝ) (hx : 0 < x) :
    ‖SphericalHankel1_2 x‖ ^ 2 = polyEval bwEntry_2.den (x ^ 2) / x ^ (2 * bwEntry_2.L + 2) := by
  unfold SphericalHankel1_2 bwEntry_2
  simp only [polyEval, norm_mul, mul_pow, Complex.norm_exp, Complex.norm_I, norm_neg, norm_one,
    Complex.norm_real, Real.norm_eq_abs, sq_abs, Complex.sq_norm, Complex.normSq_apply]
  simp only [Complex.add_re, Complex.add_im, Complex.mul_re, Complex.mul_im, Complex.ofReal_re,
    Complex.ofReal_im, Complex.I_re, Complex.I_im, Complex.neg_re, Complex.neg_im, Complex.one_re,
    Complex.one_im]
  try simp
  all_goals first
    | (field_simp; ring)
    | field_simp

theorem bw_3_eq_table (z : ℝ) : BlattWeisskopfSquared_3 z = bwEntry_3.eval z := by
  unfold BlattWeisskopfSquared_3 bwEntry_3 BWEntry.eval
  simp only [polyEval]
  rw [div_eq_mul_inv]
  push_cast
  ring

theorem hankel_norm_3 (x : ℝ) (hx : 0 < x) :
    ‖SphericalHankel1_3 x‖ ^ 2 = polyEval bwEntry_3.den (x ^ 2) / x ^ (2 * bwEntry_3.L + 2) := by
  unfold SphericalHankel1_3 bwEntry_3
  simp only [polyEval, norm_mul, mul_pow, Complex.norm_exp, Complex.norm_I, norm_neg, norm_one,
    Complex.norm_real, Real.norm_eq_abs, sq_abs, Complex.sq_norm, Complex.normSq_apply]
  simp only [Complex.add_re, Complex.add_im, Complex.mul_re, Complex.mul_im, Complex.ofReal_re,
    Complex.ofReal_im, Complex.I_re, Complex.I_im, Complex.neg_re, Complex.neg_im, Complex.one_re,
    Complex.one_im]
  try simp
  all_goals first
    | (field_simp; ring)
    | field_simp

theorem bw_4_eq_table (z : ℝ) : BlattWeisskopfSquared_4 z = bwEntry_4.eval z := by
  unfold BlattWeisskopfSquared_4 bwEntry_4 BWEntry.eval
  simp only [polyEval]
  rw [div_eq_mul_inv]
  push_cast
  ring

theorem hankel_norm_4 (x : ℝ) (hx : 0 < x) :
    ‖SphericalHankel1_4 x‖ ^ 2 = polyEval bwEntry_4.den (x ^ 2) / x ^ (2 * bwEntry_4.L + 2) := by
  unfold SphericalHankel1_4 bwEntry_4
  simp only [polyEval, norm_mul, mul_pow, Complex.norm_exp, Complex.norm_I, norm_neg, norm_one,
    Complex.norm_real, Real.norm_eq_abs, sq_abs, Complex.sq_norm, Complex.normSq_apply]
  simp only [Complex.add_re, Complex.add_im, Complex.mul_re, Complex.mul_im, Complex.ofReal_re,
    Complex.ofReal_im, Complex.I_re, Complex.I_im, Complex.neg_re, Complex.neg_im, Complex.one_re,
    Complex.one_im]
  try simp
  all_goals first
    | (field_simp; ring)
    | field_simp

theorem bw_5_eq_table (z : ℝ) : BlattWeisskopfSquared_5 z = bwEntry_5.eval z := by
  unfold BlattWeisskopfSquared_5 bwEntry_5 BWEntry.eval
  simp only [polyEval]
  rw [div_eq_mul_inv]
  push_cast
  ring

theorem hankel_norm_5 (x : ℝ) (hx : 0 < x) :
    ‖SphericalHankel1_5 x‖ ^ 2 = polyEval bwEntry_5.den (x ^ 2) / x ^ (2 * bwEntry_5.L + 2) := by
  unfold SphericalHankel1_5 bwEntry_5
  simp only [polyEval, norm_mul, mul_pow, Complex.norm_exp, Complex.norm_I, norm_neg, norm_one,
    Complex.norm_real, Real.norm_eq_abs, sq_abs, Complex.sq_norm, Complex.normSq_apply]
  simp only [Complex.add_re, Complex.add_im, Complex.mul_re, Complex.mul_im, Complex.ofReal_re,
    Complex.ofReal_im, Complex.I_re, Complex.I_im, Complex.neg_re, Complex.neg_im, Complex.one_re,
    Complex.one_im]
  try simp
  all_goals first
    | (field_simp; ring)
    | field_simp

theorem bw_6_eq_table (z : ℝ) : BlattWeisskopfSquared_6 z = bwEntry_6.eval z := by
  unfold BlattWeisskopfSquared_6 bwEntry_6 BWEntry.eval
  simp only [polyEval]
  rw [div_eq_mul_inv]
  push_cast
  ring

theorem hankel_norm_6 (x : ℝ) (hx : 0 < x) :
    ‖SphericalHankel1_6 x‖ ^ 2 = polyEval bwEntry_6.den (x ^ 2) / x ^ (2 * bwEntry_6.L + 2) := by
  unfold SphericalHankel1_6 bwEntry_6
  simp only [polyEval, norm_mul, mul_pow, Complex.norm_exp, Complex.norm_I, norm_neg, norm_one,
    Complex.norm_real, Real.norm_eq_abs, sq_abs, Complex.sq_norm, Complex.normSq_apply]
  simp only [Complex.add_re, Complex.add_im, Complex.mul_re, Complex.mul_im, Complex.ofReal_re,
    Complex.ofReal_im, Complex.I_re, Complex.I_im, Complex.neg_re, Complex.neg_im, Complex.one_re,
    Complex.one_im]
  try simp
  all_goals first
    | (field_simp; ring)
    | field_simp

theorem bw_7_eq_table (z : ℝ) : BlattWeisskopfSquared_7 z = bwEntry_7.eval z := by
  unfold BlattWeisskopfSquared_7 bwEntry_7 BWEntry.eval
  simp only [polyEval]
  rw [div_eq_mul_inv]
  push_cast
  ring

theorem hankel_norm_7 (x : ℝ) (hx : 0 < x) :
    ‖SphericalHankel1_7 x‖ ^ 2 = polyEval bwEntry_7.den (x ^ 2) / x ^ (2 * bwEntry_7.L + 2) := by
  unfold SphericalHankel1_7 bwEntry_7
  simp only [polyEval, norm_mul, mul_pow, Complex.norm_exp, Complex.norm_I, norm_neg, norm_one,
    Complex.norm_real, Real.norm_eq_abs, sq_abs, Complex.sq_norm, Complex.normSq_apply]
  simp only [Complex.add_re, Complex.add_im, Complex.mul_re, Complex.mul_im, Complex.ofReal_re,
    Complex.ofReal_im, Complex.I_re, Complex.I_im, Complex.neg_re, Complex.neg_im, Complex.one_re,
    Complex.one_im]
  try simp
  all_goals first
    | (field_simp; ring)
    | field_simp

theorem bw_8_eq_table (z : ℝ) : BlattWeisskopfSquared_8 z = bwEntry_8.eval z := by
  unfold BlattWeisskopfSquared_8 bwEntry_8 BWEntry.eval
  simp only [polyEval]
  rw [div_eq_mul_inv]
  push_cast
  ring

theorem hankel_norm_8 (x : ℝ) (hx : 0 < x) :
    ‖SphericalHankel1_8 x‖ ^ 2 = polyEval bwEntry_8.den (x ^ 2) / x ^ (2 * bwEntry_8.L + 2) := by
  unfold SphericalHankel1_8 bwEntry_8
  simp only [polyEval, norm_mul, mul_pow, Complex.norm_exp, Complex.norm_I, norm_neg, norm_one,
    Complex.norm_real, Real.norm_eq_abs, sq_abs, Complex.sq_norm, Complex.normSq_apply]
  simp only [Complex.add_re, Complex.add_im, Complex.mul_re, Complex.mul_im, Complex.ofReal_re,
    Complex.ofReal_im, Complex.I_re, Complex.I_im, Complex.neg_re, Complex.neg_im, Complex.one_re,
    Complex.one_im]
  try simp
  all_goals first
    | (field_simp; ring)
    | field_simp

theorem bw_9_eq_table (z : ℝ) : BlattWeisskopfSquared_9 z = bwEntry_9.eval z := by
  unfold BlattWeisskopfSquared_9 bwEntry_9 BWEntry.eval
  simp only [polyEval]
  rw [div_eq_mul_inv]
  push_cast
  ring

theorem hankel_norm_9 (x : ℝ) (hx : 0 < x) :
    ‖SphericalHankel1_9 x‖ ^ 2 = polyEval bwEntry_9.den (x ^ 2) / x ^ (2 * bwEntry_9.L + 2) := by
  unfold SphericalHankel1_9 bwEntry_9
  simp only [polyEval, norm_mul, mul_pow, Complex.norm_exp, Complex.norm_I, norm_neg, norm_one,
    Complex.norm_real, Real.norm_eq_abs, sq_abs, Complex.sq_norm, Complex.normSq_apply]
  simp only [Complex.add_re, Complex.add_im, Complex.mul_re, Complex.mul_im, Complex.ofReal_re,
    Complex.ofReal_im, Complex.I_re, Complex.I_im, Complex.neg_re, Complex.neg_im, Complex.one_re,
    Complex.one_im]
  try simp
  all_goals first
    | (field_simp; ring)
    | field_simp

theorem bw_10_eq_table (z : ℝ) : BlattWeisskopfSquared_10 z = bwEntry_10.eval z := by
  unfold BlattWeisskopfSquared_10 bwEntry_10 BWEntry.eval
  simp only [polyEval]
  rw [div_eq_mul_inv]
  push_cast
  ring

theorem hankel_norm_10 (x : ℝ) (hx : 0 < x) :
    ‖SphericalHankel1_10 x‖ ^ 2 = polyEval bwEntry_10.den (x ^ 2) / x ^ (2 * bwEntry_10.L + 2) := by
  unfold SphericalHankel1_10 bwEntry_10
  simp only [polyEval, norm_mul, mul_pow, Complex.norm_exp, Complex.norm_I, norm_neg, norm_one,
    Complex.norm_real, Real.norm_eq_abs, sq_abs, Complex.sq_norm, Complex.normSq_apply]
  simp only [Complex.add_re, Complex.add_im, Complex.mul_re, Complex.mul_im, Complex.ofReal_re,
    Complex.ofReal_im, Complex.I_re, Complex.I_im, Complex.neg_re, Complex.neg_im, Complex.one_re,
    Complex.one_im]
  try simp
  all_goals first
    | (field_simp; ring)
    | field_simp

end Ampverif.Lemmas.C12
