/-
Helper lemmas for C19 (pure real analysis, nothing about the generated definitions):
shape of `N/(√A √B)`, the bound from a Gram-type identity, `arccos x + arccos y`.
-/
import Mathlib.Analysis.Real.Sqrt
import Mathlib.Analysis.SpecialFunctions.Trigonometric.Inverse
import Mathlib.Tactic.Ring
import Mathlib.Tactic.Linarith
import Mathlib.Tactic.FieldSimp
import Mathlib.Tactic.Positivity

namespace Ampverif.Lemmas.C19

/-- the library's cosines are printed by SymPy as `(√A)⁻¹ * (√B)⁻¹ * N` -/
theorem ratio_shape (N A B : ℝ) :
    (Real.sqrt A)⁻¹ * (Real.sqrt B)⁻¹ * N = N / (Real.sqrt A * Real.sqrt B) := by
  rw [div_eq_mul_inv, mul_inv]; ring

/-- `N² ≤ A B` (for `A, B ≥ 0`) bounds the ratio; when `A < 0` or `B < 0` the real square root
is `0` and the quotient is `0` by Lean's convention. -/
theorem abs_ratio_le_one {N A B : ℝ} (h : 0 ≤ A → 0 ≤ B → N ^ 2 ≤ A * B) :
    |N / (Real.sqrt A * Real.sqrt B)| ≤ 1 := by
  by_cases hA : 0 ≤ A
  · by_cases hB : 0 ≤ B
    · have hN : |N| ≤ Real.sqrt A * Real.sqrt B := by
        rw [← Real.sqrt_mul hA, ← Real.sqrt_sq_eq_abs]
        exact Real.sqrt_le_sqrt (h hA hB)
      have hD : 0 ≤ Real.sqrt A * Real.sqrt B := by positivity
      rw [abs_div, abs_of_nonneg hD]
      exact div_le_one_of_le₀ hN hD
    · have : Real.sqrt B = 0 := Real.sqrt_eq_zero_of_nonpos (le_of_not_ge hB)
      simp [this]
  · have : Real.sqrt A = 0 := Real.sqrt_eq_zero_of_nonpos (le_of_not_ge hA)
    simp [this]

/-- A Gram-type identity `4 m₀² (A B − N²) = −c·K` with `c ≥ 0`, `K ≤ 0` gives `N² ≤ A B`. -/
theorem sq_le_of_identity {m0 c K A B N : ℝ} (hm0 : m0 ≠ 0) (hc : 0 ≤ c) (hK : K ≤ 0)
    (hid : 4 * m0 ^ 2 * (A * B - N ^ 2) = -(c * K)) : N ^ 2 ≤ A * B := by
  have h1 : 0 ≤ 4 * m0 ^ 2 * (A * B - N ^ 2) := by
    rw [hid]; nlinarith [mul_nonneg hc (neg_nonneg.mpr hK)]
  have h2 : 0 < 4 * m0 ^ 2 := by positivity
  have h3 : 0 ≤ A * B - N ^ 2 := by
    by_contra hneg
    push Not at hneg
    nlinarith [mul_neg_of_pos_of_neg h2 hneg]
  linarith

/-- rescaling numerator and both radicands by 4 (the Källén functions are 4 × Gram determinants) -/
theorem ratio_scale {N A B n a b : ℝ} (hN : N = 4 * n) (hA : A = 4 * a) (hB : B = 4 * b) :
    N / (Real.sqrt A * Real.sqrt B) = n / (Real.sqrt a * Real.sqrt b) := by
  have h4 : Real.sqrt 4 = 2 := by
    rw [show (4 : ℝ) = 2 ^ 2 by norm_num]; exact Real.sqrt_sq (by norm_num)
  rw [hN, hA, hB, Real.sqrt_mul (by norm_num : (0 : ℝ) ≤ 4), Real.sqrt_mul (by norm_num : (0 : ℝ) ≤ 4), h4]
  rw [div_eq_mul_inv, div_eq_mul_inv, mul_inv, mul_inv, mul_inv, mul_inv]
  ring

/-- `arccos x + arccos y = arccos (x y − √(1−x²) √(1−y²))` when the sum stays in `[0, π]`,
i.e. `x + y ≥ 0`. -/
theorem arccos_add_arccos {x y : ℝ} (hx1 : -1 ≤ x) (hx2 : x ≤ 1) (hy1 : -1 ≤ y) (hy2 : y ≤ 1)
    (hxy : 0 ≤ x + y) :
    Real.arccos x + Real.arccos y
      = Real.arccos (x * y - Real.sqrt (1 - x ^ 2) * Real.sqrt (1 - y ^ 2)) := by
  have ha0 := Real.arccos_nonneg x
  have hb0 := Real.arccos_nonneg y
  have hbpi := Real.arccos_le_pi y
  -- arccos x ≤ π − arccos y = arccos (−y) because −y ≤ x
  have hle : Real.arccos x ≤ Real.pi - Real.arccos y := by
    rw [← Real.arccos_neg]
    exact Real.arccos_le_arccos (by linarith)
  have hcos : Real.cos (Real.arccos x + Real.arccos y)
      = x * y - Real.sqrt (1 - x ^ 2) * Real.sqrt (1 - y ^ 2) := by
    rw [Real.cos_add, Real.cos_arccos hx1 hx2, Real.cos_arccos hy1 hy2, Real.sin_arccos,
      Real.sin_arccos]
  rw [← hcos, Real.arccos_cos (by linarith) (by linarith)]

end Ampverif.Lemmas.C19
