/-
C05 — the tensor (Kronecker) product of unitary matrices over ANY finite family of finite index
types is unitary, and therefore preserves the sum of squared moduli of an amplitude tensor.
Stated with Mathlib matrices over the dependent product index type `∀ i, d i`.
-/
import Mathlib.LinearAlgebra.UnitaryGroup
import Mathlib.Data.Complex.BigOperators
import Mathlib.Data.Fintype.BigOperators
import Mathlib.Algebra.BigOperators.Pi

namespace Ampverif.Lemmas.C05Tensor
open Matrix

variable {ι : Type*} [Fintype ι] [DecidableEq ι] {d : ι → Type*}
  [∀ i, Fintype (d i)] [∀ i, DecidableEq (d i)]

/-- `(⊗ᵢ Uᵢ)(m, λ) = Πᵢ Uᵢ(mᵢ, λᵢ)` -/
def tensor (U : ∀ i, Matrix (d i) (d i) ℂ) : Matrix (∀ i, d i) (∀ i, d i) ℂ :=
  Matrix.of fun m l => ∏ i, U i (m i) (l i)

theorem tensor_mul_conjTranspose (U : ∀ i, Matrix (d i) (d i) ℂ) (hU : ∀ i, U i * (U i)ᴴ = 1) :
    tensor U * (tensor U)ᴴ = 1 := by
  ext m m'
  simp only [Matrix.mul_apply, Matrix.conjTranspose_apply, tensor, Matrix.of_apply, star_prod]
  have h1 : ∀ l : (∀ i, d i), (∏ i, U i (m i) (l i)) * ∏ i, star (U i (m' i) (l i))
      = ∏ i, (U i (m i) (l i) * star (U i (m' i) (l i))) := fun l => Finset.prod_mul_distrib.symm
  simp only [h1]
  have h2 := (Finset.prod_univ_sum (fun _ : ι => Finset.univ)
    (fun i (j : d i) => U i (m i) j * star (U i (m' i) j))).symm
  rw [Fintype.piFinset_univ] at h2
  rw [h2]
  have h3 : ∀ i, ∑ j, U i (m i) j * star (U i (m' i) j) = (1 : Matrix (d i) (d i) ℂ) (m i) (m' i) := by
    intro i
    rw [← hU i]
    simp [Matrix.mul_apply, Matrix.conjTranspose_apply]
  simp only [h3, Matrix.one_apply]
  rw [Finset.prod_ite_zero]
  simp only [Finset.mem_univ, forall_const, Finset.prod_const_one]
  congr 1
  exact propext (funext_iff.symm)

theorem tensor_mem_unitary (U : ∀ i, Matrix (d i) (d i) ℂ) (hU : ∀ i, U i ∈ Matrix.unitaryGroup (d i) ℂ) :
    tensor U ∈ Matrix.unitaryGroup (∀ i, d i) ℂ := by
  rw [Matrix.mem_unitaryGroup_iff]
  exact tensor_mul_conjTranspose U (fun i => Matrix.mem_unitaryGroup_iff.mp (hU i))

/-- a unitary matrix preserves `Σ |·|²` -/
theorem unitary_normSq {n : Type*} [Fintype n] [DecidableEq n] (K : Matrix n n ℂ)
    (hK : K ∈ Matrix.unitaryGroup n ℂ) (A : n → ℂ) :
    ∑ m, Complex.normSq ((K *ᵥ A) m) = ∑ l, Complex.normSq (A l) := by
  have hK' : Kᴴ * K = 1 := Matrix.mem_unitaryGroup_iff'.mp hK
  apply Complex.ofReal_injective
  push_cast
  simp only [Complex.normSq_eq_conj_mul_self]
  have e1 : ∑ m, (starRingEnd ℂ) ((K *ᵥ A) m) * (K *ᵥ A) m = star (K *ᵥ A) ⬝ᵥ (K *ᵥ A) := by
    simp [dotProduct]
  have e2 : ∑ l, (starRingEnd ℂ) (A l) * A l = star A ⬝ᵥ A := by simp [dotProduct]
  rw [e1, e2, Matrix.star_mulVec, Matrix.dotProduct_mulVec, Matrix.vecMul_vecMul, hK', Matrix.vecMul_one]

/-- **`Σ_m |Σ_λ Πᵢ Uᵢ(mᵢ,λᵢ) A_λ|² = Σ_λ |A_λ|²`** for unitary `Uᵢ`, any finite number of states
and any dimensions (complete pools: the sums run over the whole index types). -/
theorem unitary_product (U : ∀ i, Matrix (d i) (d i) ℂ) (hU : ∀ i, U i ∈ Matrix.unitaryGroup (d i) ℂ)
    (A : (∀ i, d i) → ℂ) :
    ∑ m : (∀ i, d i), Complex.normSq (∑ l : (∀ i, d i), (∏ i, U i (m i) (l i)) * A l)
      = ∑ l : (∀ i, d i), Complex.normSq (A l) := by
  have h := unitary_normSq (tensor U) (tensor_mem_unitary U hU) A
  simpa [Matrix.mulVec, dotProduct, tensor] using h

end Ampverif.Lemmas.C05Tensor
