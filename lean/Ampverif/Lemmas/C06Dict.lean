/-
Helper lemmas for C06: insertion-ordered dictionaries, stable insertion sort, lexicographic order.
Core Lean only.
-/
import Ampverif.Model.C06Purity

set_option linter.unusedSectionVars false

namespace Ampverif.C06

/-! ## dictionaries -/

section Dict
variable {κ : Type} {β : Type} [DecidableEq κ]

theorem dget_dset (d : List (κ × β)) (k k' : κ) (v : β) :
    dget (dset d k v) k' = if k = k' then some v else dget d k' := by
  induction d with
  | nil => simp [dset, dget]
  | cons p t ih =>
    obtain ⟨k0, v0⟩ := p
    by_cases h : k0 = k
    · subst h
      by_cases h' : k0 = k' <;> simp [dset, dget, h']
    · by_cases h' : k0 = k'
      · subst h'
        have : ¬ k = k0 := fun e => h e.symm
        simp [dset, dget, h, this]
      · simp [dset, dget, h, h', ih]

theorem dget_ddel (d : List (κ × β)) (k k' : κ) :
    dget (ddel d k) k' = if k = k' then none else dget d k' := by
  induction d with
  | nil => simp [ddel, dget]
  | cons p t ih =>
    obtain ⟨k0, v0⟩ := p
    by_cases h : k0 = k
    · subst h
      have e : ddel ((k0, v0) :: t) k0 = ddel t k0 := by simp [ddel]
      rw [e, ih]
      by_cases h' : k0 = k' <;> simp [dget, h']
    · by_cases h' : k0 = k'
      · subst h'
        have : ¬ k = k0 := fun e => h e.symm
        simp [ddel, dget, h, this]
      · simp [ddel, dget, h, h', ih]

/-- same finite map -/
def DEquiv (d d' : List (κ × β)) : Prop := ∀ k, dget d k = dget d' k

theorem DEquiv.refl (d : List (κ × β)) : DEquiv d d := fun _ => rfl

theorem DEquiv.dset {d d' : List (κ × β)} (h : DEquiv d d') (k : κ) (v : β) :
    DEquiv (dset d k v) (dset d' k v) := by
  intro k'; rw [dget_dset, dget_dset, h k']

theorem DEquiv.ddel {d d' : List (κ × β)} (h : DEquiv d d') (k : κ) :
    DEquiv (ddel d k) (ddel d' k) := by
  intro k'; rw [dget_ddel, dget_ddel, h k']

theorem DEquiv.dupdate {d d' : List (κ × β)} (h : DEquiv d d') (e : List (κ × β)) :
    DEquiv (dupdate d e) (dupdate d' e) := by
  unfold Ampverif.C06.dupdate
  induction e generalizing d d' with
  | nil => simpa using h
  | cons p t ih => simp only [List.foldl_cons]; exact ih (h.dset p.1 p.2)

def NodupKeys (d : List (κ × β)) : Prop := (dkeys d).Nodup

theorem dkeys_dset_mem (d : List (κ × β)) (k : κ) (v : β) (x : κ) :
    x ∈ dkeys (dset d k v) ↔ x ∈ dkeys d ∨ x = k := by
  induction d with
  | nil => simp [dset, dkeys]
  | cons p t ih =>
    obtain ⟨k0, v0⟩ := p
    by_cases h : k0 = k
    · subst h
      simp only [dset, if_true, dkeys, List.map_cons, List.mem_cons]
      constructor
      · intro hx; exact Or.inl hx
      · intro hx
        rcases hx with hx | hx
        · exact hx
        · exact Or.inl hx
    · simp only [dset, h, if_false, dkeys, List.map_cons, List.mem_cons] at ih ⊢
      rw [ih]; simp [or_assoc]

theorem NodupKeys.dset {d : List (κ × β)} (h : NodupKeys d) (k : κ) (v : β) :
    NodupKeys (dset d k v) := by
  induction d with
  | nil => simp [Ampverif.C06.dset, NodupKeys, dkeys]
  | cons p t ih =>
    obtain ⟨k0, v0⟩ := p
    have ht : NodupKeys t := (List.nodup_cons.mp h).2
    have hk0 : k0 ∉ dkeys t := (List.nodup_cons.mp h).1
    by_cases hk : k0 = k
    · subst hk
      simpa [Ampverif.C06.dset, NodupKeys, dkeys] using h
    · have := ih ht
      simp only [Ampverif.C06.dset, hk, if_false, NodupKeys, dkeys, List.map_cons, List.nodup_cons]
      refine ⟨?_, this⟩
      intro hm
      have := (dkeys_dset_mem t k v k0).mp hm
      cases this with
      | inl h1 => exact hk0 h1
      | inr h1 => exact hk h1

theorem dkeys_ddel_sub (d : List (κ × β)) (k : κ) (x : κ) :
    x ∈ dkeys (ddel d k) → x ∈ dkeys d := by
  induction d with
  | nil => simp [ddel, dkeys]
  | cons p t ih =>
    obtain ⟨k0, v0⟩ := p
    by_cases h : k0 = k
    · simp only [ddel, h, if_true, dkeys, List.map_cons, List.mem_cons]
      intro hx; exact Or.inr (ih (by simpa [dkeys] using hx))
    · simp only [ddel, h, if_false, dkeys, List.map_cons, List.mem_cons]
      intro hx
      cases hx with
      | inl h1 => exact Or.inl h1
      | inr h1 => exact Or.inr (ih (by simpa [dkeys] using h1))

theorem NodupKeys.ddel {d : List (κ × β)} (h : NodupKeys d) (k : κ) : NodupKeys (ddel d k) := by
  induction d with
  | nil => simp [Ampverif.C06.ddel, NodupKeys, dkeys]
  | cons p t ih =>
    obtain ⟨k0, v0⟩ := p
    have ht : NodupKeys t := (List.nodup_cons.mp h).2
    have hk0 : k0 ∉ dkeys t := (List.nodup_cons.mp h).1
    by_cases hk : k0 = k
    · simpa [Ampverif.C06.ddel, hk] using ih ht
    · simp only [Ampverif.C06.ddel, hk, if_false, NodupKeys, dkeys, List.map_cons, List.nodup_cons]
      exact ⟨fun hm => hk0 (dkeys_ddel_sub t k k0 hm), ih ht⟩

theorem NodupKeys.dupdate {d : List (κ × β)} (h : NodupKeys d) (e : List (κ × β)) :
    NodupKeys (dupdate d e) := by
  unfold Ampverif.C06.dupdate
  induction e generalizing d with
  | nil => simpa using h
  | cons p t ih => simp only [List.foldl_cons]; exact ih (h.dset p.1 p.2)

theorem NodupKeys.nil : NodupKeys ([] : List (κ × β)) := by simp [NodupKeys, dkeys]

theorem NodupKeys.dmerge (ms : List (List (κ × β))) : NodupKeys (dmerge ms) := by
  unfold Ampverif.C06.dmerge
  suffices ∀ (d : List (κ × β)), NodupKeys d → NodupKeys (ms.foldl Ampverif.C06.dupdate d) from this [] NodupKeys.nil
  induction ms with
  | nil => intro d h; simpa using h
  | cons m t ih => intro d h; simp only [List.foldl_cons]; exact ih _ (h.dupdate m)

theorem dget_some_mem {d : List (κ × β)} {k : κ} {v : β} (h : dget d k = some v) : (k, v) ∈ d := by
  induction d with
  | nil => simp [dget] at h
  | cons p t ih =>
    obtain ⟨k0, v0⟩ := p
    by_cases hk : k0 = k
    · subst hk; simp [dget] at h; subst h; simp
    · simp [dget, hk] at h; exact List.mem_cons_of_mem _ (ih h)

theorem dget_none_not_mem {d : List (κ × β)} {k : κ} (h : dget d k = none) : k ∉ dkeys d := by
  induction d with
  | nil => simp [dkeys]
  | cons p t ih =>
    obtain ⟨k0, v0⟩ := p
    by_cases hk : k0 = k
    · subst hk; simp [dget] at h
    · simp [dget, hk] at h
      simp only [dkeys, List.map_cons, List.mem_cons, not_or]
      exact ⟨fun e => hk e.symm, by simpa [dkeys] using ih h⟩

theorem mem_dget_of_nodup {d : List (κ × β)} (hn : NodupKeys d) {k : κ} {v : β} (h : (k, v) ∈ d) :
    dget d k = some v := by
  induction d with
  | nil => simp at h
  | cons p t ih =>
    obtain ⟨k0, v0⟩ := p
    have ht : NodupKeys t := (List.nodup_cons.mp hn).2
    have hk0 : k0 ∉ dkeys t := (List.nodup_cons.mp hn).1
    rcases List.mem_cons.mp h with h1 | h1
    · injection h1 with h2 h3; subst h2; subst h3; simp [dget]
    · have hne : ¬ k0 = k := by
        intro e; subst e
        exact hk0 (List.mem_map.mpr ⟨(k0, v), h1, rfl⟩)
      simp [dget, hne, ih ht h1]

theorem nodup_of_nodupKeys {d : List (κ × β)} (hn : NodupKeys d) : d.Nodup := by
  induction d with
  | nil => simp
  | cons p t ih =>
    have ht : NodupKeys t := (List.nodup_cons.mp hn).2
    have hk0 : p.1 ∉ dkeys t := (List.nodup_cons.mp hn).1
    refine List.nodup_cons.mpr ⟨?_, ih ht⟩
    intro hm
    exact hk0 (List.mem_map.mpr ⟨p, hm, rfl⟩)

/-- two dicts that denote the same finite map are permutations of each other -/
theorem perm_of_dequiv {d d' : List (κ × β)} (hn : NodupKeys d) (hn' : NodupKeys d')
    (h : DEquiv d d') : d.Perm d' := by
  refine (List.perm_ext_iff_of_nodup (nodup_of_nodupKeys hn) (nodup_of_nodupKeys hn')).mpr ?_
  intro ⟨k, v⟩
  constructor
  · intro hm
    have := mem_dget_of_nodup hn hm
    rw [h k] at this
    exact dget_some_mem this
  · intro hm
    have := mem_dget_of_nodup hn' hm
    rw [← h k] at this
    exact dget_some_mem this

end Dict

/-! ## stable insertion sort -/

section Sorting
variable {α : Type}

theorem insertBy_perm (le : α → α → Bool) (a : α) (l : List α) : (insertBy le a l).Perm (a :: l) := by
  induction l with
  | nil => simp [insertBy]
  | cons b t ih =>
    by_cases h : le a b = true
    · simp [insertBy, h]
    · simp only [insertBy, h]
      exact (List.Perm.cons b ih).trans (List.Perm.swap a b t)

theorem isort_perm (le : α → α → Bool) (l : List α) : (isort le l).Perm l := by
  induction l with
  | nil => simp [isort]
  | cons a t ih => exact (insertBy_perm le a _).trans (List.Perm.cons a ih)

def Sorted (le : α → α → Bool) (l : List α) : Prop := l.Pairwise (fun a b => le a b = true)

theorem insertBy_sorted {le : α → α → Bool}
    (total : ∀ a b, le a b = true ∨ le b a = true)
    (trans : ∀ a b c, le a b = true → le b c = true → le a c = true)
    (a : α) {l : List α} (h : Sorted le l) : Sorted le (insertBy le a l) := by
  induction l with
  | nil => simp [insertBy, Sorted]
  | cons b t ih =>
    have hb : ∀ x ∈ t, le b x = true := (List.pairwise_cons.mp h).1
    have ht : Sorted le t := (List.pairwise_cons.mp h).2
    by_cases hab : le a b = true
    · simp only [insertBy, hab, if_true]
      refine List.pairwise_cons.mpr ⟨?_, h⟩
      intro x hx
      rcases List.mem_cons.mp hx with h1 | h1
      · subst h1; exact hab
      · exact trans a b x hab (hb x h1)
    · simp only [insertBy, hab]
      have hba : le b a = true := by
        cases total a b with
        | inl h1 => exact absurd h1 hab
        | inr h1 => exact h1
      refine List.pairwise_cons.mpr ⟨?_, ih ht⟩
      intro x hx
      have := (insertBy_perm le a t).mem_iff.mp hx
      rcases List.mem_cons.mp this with h1 | h1
      · subst h1; exact hba
      · exact hb x h1

theorem isort_sorted {le : α → α → Bool}
    (total : ∀ a b, le a b = true ∨ le b a = true)
    (trans : ∀ a b c, le a b = true → le b c = true → le a c = true)
    (l : List α) : Sorted le (isort le l) := by
  induction l with
  | nil => simp [isort, Sorted]
  | cons a t ih => exact insertBy_sorted total trans a ih

/-- a sorted list is determined by its elements when `le` is antisymmetric on them -/
theorem eq_of_perm_of_sorted {le : α → α → Bool} {l₁ l₂ : List α}
    (anti : ∀ a b, a ∈ l₁ → b ∈ l₁ → le a b = true → le b a = true → a = b)
    (hp : l₁.Perm l₂) (h₁ : Sorted le l₁) (h₂ : Sorted le l₂) : l₁ = l₂ := by
  induction l₁ generalizing l₂ with
  | nil => exact (List.Perm.nil_eq hp)
  | cons a t ih =>
    cases l₂ with
    | nil => exact absurd hp.symm (by simp)
    | cons b u =>
      have ha : ∀ x ∈ t, le a x = true := (List.pairwise_cons.mp h₁).1
      have hb : ∀ x ∈ u, le b x = true := (List.pairwise_cons.mp h₂).1
      have hab : a = b := by
        have hbmem : b ∈ a :: t := hp.mem_iff.mpr (List.mem_cons_self)
        have hamem : a ∈ b :: u := hp.mem_iff.mp (List.mem_cons_self)
        rcases List.mem_cons.mp hbmem with h1 | h1
        · exact h1.symm
        · rcases List.mem_cons.mp hamem with h2 | h2
          · exact h2
          · exact anti a b (List.mem_cons_self) hbmem (ha b h1) (hb a h2)
      subst hab
      have hp' : t.Perm u := List.Perm.cons_inv hp
      have := ih (fun x y hx hy => anti x y (List.mem_cons_of_mem _ hx) (List.mem_cons_of_mem _ hy))
        hp' (List.pairwise_cons.mp h₁).2 (List.pairwise_cons.mp h₂).2
      rw [this]

theorem isort_eq_of_perm {le : α → α → Bool}
    (total : ∀ a b, le a b = true ∨ le b a = true)
    (trans : ∀ a b c, le a b = true → le b c = true → le a c = true)
    {l₁ l₂ : List α}
    (anti : ∀ a b, a ∈ l₁ → b ∈ l₁ → le a b = true → le b a = true → a = b)
    (hp : l₁.Perm l₂) : isort le l₁ = isort le l₂ := by
  refine eq_of_perm_of_sorted ?_ ?_ (isort_sorted total trans l₁) (isort_sorted total trans l₂)
  · intro a b ha hb
    exact anti a b ((isort_perm le l₁).mem_iff.mp ha) ((isort_perm le l₁).mem_iff.mp hb)
  · exact (isort_perm le l₁).trans (hp.trans (isort_perm le l₂).symm)

end Sorting

/-! ## lexicographic order over a linear order -/

section Lex
variable {α : Type} [DecidableEq α]

theorem lexLe_refl (le : α → α → Bool) (l : List α) : lexLe le l l = true := by
  induction l with
  | nil => simp [lexLe]
  | cons a t ih => simp [lexLe, ih]

theorem lexLe_total {le : α → α → Bool} (total : ∀ a b, le a b = true ∨ le b a = true) :
    ∀ l₁ l₂ : List α, lexLe le l₁ l₂ = true ∨ lexLe le l₂ l₁ = true := by
  intro l₁
  induction l₁ with
  | nil => intro l₂; left; simp [lexLe]
  | cons a t ih =>
    intro l₂
    cases l₂ with
    | nil => right; simp [lexLe]
    | cons b u =>
      by_cases h : a = b
      · subst h; simpa [lexLe] using ih u
      · have h' : ¬ b = a := fun e => h e.symm
        simpa [lexLe, h, h'] using total a b

theorem lexLe_antisymm {le : α → α → Bool}
    (anti : ∀ a b, le a b = true → le b a = true → a = b) :
    ∀ l₁ l₂ : List α, lexLe le l₁ l₂ = true → lexLe le l₂ l₁ = true → l₁ = l₂ := by
  intro l₁
  induction l₁ with
  | nil => intro l₂ _ h2; cases l₂ with
    | nil => rfl
    | cons b u => simp [lexLe] at h2
  | cons a t ih =>
    intro l₂ h1 h2
    cases l₂ with
    | nil => simp [lexLe] at h1
    | cons b u =>
      by_cases h : a = b
      · subst h
        simp [lexLe] at h1 h2
        rw [ih u h1 h2]
      · have h' : ¬ b = a := fun e => h e.symm
        simp [lexLe, h, h'] at h1 h2
        exact absurd (anti a b h1 h2) h

theorem lexLe_trans {le : α → α → Bool}
    (anti : ∀ a b, le a b = true → le b a = true → a = b)
    (trans : ∀ a b c, le a b = true → le b c = true → le a c = true) :
    ∀ l₁ l₂ l₃ : List α, lexLe le l₁ l₂ = true → lexLe le l₂ l₃ = true → lexLe le l₁ l₃ = true := by
  intro l₁
  induction l₁ with
  | nil => intro l₂ l₃ _ _; simp [lexLe]
  | cons a t ih =>
    intro l₂ l₃ h1 h2
    cases l₂ with
    | nil => simp [lexLe] at h1
    | cons b u =>
      cases l₃ with
      | nil => simp [lexLe] at h2
      | cons c s =>
        by_cases hab : a = b
        · subst hab
          by_cases hac : a = c
          · subst hac
            simp [lexLe] at h1 h2 ⊢
            exact ih u s h1 h2
          · simp [lexLe, hac] at h1 h2 ⊢
            exact h2
        · by_cases hbc : b = c
          · subst hbc
            simp [lexLe, hab] at h1 h2 ⊢
            exact h1
          · simp [lexLe, hab, hbc] at h1 h2
            by_cases hac : a = c
            · subst hac
              exact absurd (anti a b h1 h2) hab
            · simp [lexLe, hac]
              exact trans a b c h1 h2

theorem natLe_total (a b : Nat) : natLe a b = true ∨ natLe b a = true := by
  simp only [natLe, Nat.ble_eq]; omega

theorem natLe_anti (a b : Nat) : natLe a b = true → natLe b a = true → a = b := by
  simp only [natLe, Nat.ble_eq]; omega

theorem natLe_trans (a b c : Nat) : natLe a b = true → natLe b c = true → natLe a c = true := by
  simp only [natLe, Nat.ble_eq]; omega

end Lex

end Ampverif.C06
