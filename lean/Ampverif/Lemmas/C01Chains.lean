/-
C01: classification of the parameters / free symbols that chains, transitions and registered
amplitude definitions contribute.
-/
import Ampverif.Lemmas.C01Cover

namespace Ampverif.Model.C01

theorem foldl_append_params {α} (f : α → SymOut) (xs : List α) (init : SymOut) :
    (xs.foldl (fun acc x => acc.append (f x)) init).params
      = init.params ++ xs.flatMap (fun x => (f x).params) := by
  induction xs generalizing init with
  | nil => simp
  | cons x xs ih =>
    simp only [List.foldl_cons, List.flatMap_cons]
    rw [ih]
    simp [SymOut.append, List.append_assoc]

theorem foldl_append_free {α} (f : α → SymOut) (xs : List α) (init : SymOut) :
    (xs.foldl (fun acc x => acc.append (f x)) init).free
      = init.free ++ xs.flatMap (fun x => (f x).free) := by
  induction xs generalizing init with
  | nil => simp
  | cons x xs ih =>
    simp only [List.foldl_cons, List.flatMap_cons]
    rw [ih]
    simp [SymOut.append, List.append_assoc]

theorem kind_params_class (k : Kind) (p : Particle) : ∀ n ∈ k.params p, isParamName n = true := by
  intro n hn
  cases k <;> simp [Kind.params, resMass, resWidth, resRadius, customPar] at hn
  · rcases hn with rfl | rfl <;> simp [isParamName]
  · rcases hn with rfl | rfl | rfl <;> simp [isParamName]
  · subst hn; simp [isParamName]
  · subst hn; simp [isParamName]

/-- contract of the library's builders (and of the custom builder used by the harness): the
expression only mentions its own parameters and symbols of the node's variable set -/
theorem kind_vars_contract (k : Kind) (vs : VarSet) :
    ∀ s ∈ k.vars vs, s ∈ [vs.inv, vs.m1, vs.m2, vs.phi, vs.theta] := by
  intro s hs
  cases k <;> simp [Kind.vars] at hs ⊢ <;> (try rcases hs with h | h | h | h | h) <;> simp_all

theorem nodeOut_params_class (v : Variant) (c : NameCtx) (keys) (ss : List State) (is : List Inter) (ni : NodeInfo) :
    ∀ n ∈ (nodeOut v c keys ss is ni).params, isParamName n = true := by
  intro n hn
  simp only [nodeOut, List.mem_append] at hn
  rcases hn with hn | hn
  · split at hn
    · simp only [List.mem_singleton] at hn; subst hn; simp [couplingName, isParamName]
    · cases hn
  · exact kind_params_class _ _ n hn

theorem nodeOut_free_class (v : Variant) (c : NameCtx) (keys) (ss : List State) (is : List Inter) (ni : NodeInfo) :
    ∀ s ∈ (nodeOut v c keys ss is ni).free, s ∈ (nodeOut v c keys ss is ni).params ∨ s ∈ ni.kinSyms := by
  intro s hs
  simp only [nodeOut, List.mem_append] at hs ⊢
  rcases hs with ((hs | hs) | hs) | hs
  · left; left; exact hs
  · right
    simp only [NodeInfo.kinSyms]
    simp only [List.mem_cons, List.mem_nil_iff, or_false] at hs ⊢
    rcases hs with h | h <;> simp [h]
  · left; right; exact hs
  · right
    have := kind_vars_contract _ _ s hs
    simp only [varSet, NodeInfo.kinSyms, List.mem_cons, List.mem_nil_iff, or_false] at this ⊢
    rcases this with h | h | h | h | h <;> simp [h]

theorem chainOut_params_class (v : Variant) (c : NameCtx) (m keys) (is : List Inter) (ch : Chain) :
    ∀ n ∈ (chainOut v c m keys is ch).params, isParamName n = true := by
  intro n hn
  simp only [chainOut, foldl_append_params, SymOut.empty, List.nil_append, List.mem_append, List.mem_flatMap] at hn
  rcases hn with hn | ⟨ni, _, hn⟩
  · split at hn
    · cases hn
    · simp only [List.mem_singleton] at hn; subst hn; simp [coefficientName, isParamName]
  · exact nodeOut_params_class _ _ _ _ _ _ n hn

theorem chainOut_free_class (v : Variant) (c : NameCtx) (m keys) (is : List Inter) (ch : Chain) :
    ∀ s ∈ (chainOut v c m keys is ch).free,
      s ∈ (chainOut v c m keys is ch).params ∨ ∃ ni ∈ (c.r.tree ch.topo).infos, s ∈ ni.kinSyms := by
  intro s hs
  simp only [chainOut, foldl_append_params, foldl_append_free, SymOut.empty, List.nil_append, List.mem_append,
    List.mem_flatMap] at hs ⊢
  rcases hs with hs | ⟨ni, hni, hs⟩
  · left; left; exact hs
  · rcases nodeOut_free_class _ _ _ _ _ _ s hs with h | h
    · left; right; exact ⟨ni, hni, h⟩
    · right
      exact ⟨ni, (mem_sortBy _ _ _).1 hni, h⟩

/-! ### grouping keeps the elements; registered definitions only mention symbols of some transition -/

theorem dictGet?_mem {κ ν} [DecidableEq κ] (k : κ) (d : List (κ × ν)) (a : ν) (h : dictGet? k d = some a) :
    (k, a) ∈ d := by
  induction d with
  | nil => cases h
  | cons kv rest ih =>
    obtain ⟨k0, v0⟩ := kv
    simp only [dictGet?] at h
    split at h
    · rename_i hk; cases h; subst hk; simp
    · exact List.mem_cons_of_mem _ (ih h)

theorem groupByKey_mem {α κ} [DecidableEq κ] (key : α → κ) (xs : List α) :
    ∀ kv ∈ groupByKey key xs, ∀ x ∈ kv.2, x ∈ xs := by
  induction xs with
  | nil => intro kv h; simp [groupByKey] at h
  | cons y ys ih =>
    intro kv hkv x hx
    simp only [groupByKey] at hkv
    split at hkv
    · rename_i g hg
      rcases List.mem_cons.1 hkv with h | h
      · subst h
        rcases List.mem_cons.1 hx with h | h
        · simp [h]
        · exact List.mem_cons_of_mem _ (ih _ (dictGet?_mem _ _ _ hg) x h)
      · exact List.mem_cons_of_mem _ (ih kv (List.mem_filter.1 h).1 x hx)
    · rcases List.mem_cons.1 hkv with h | h
      · subst h
        simp only [List.mem_singleton] at hx
        simp [hx]
      · exact List.mem_cons_of_mem _ (ih kv h x hx)

/-- every free symbol of a registered amplitude definition is a free symbol of some chain of some transition -/
def FreeFrom (outs : List TOut) (a : AmpDef) : Prop := ∀ s ∈ a.free, ∃ o ∈ outs, s ∈ o.free

theorem foldl_inv {α β} (P : β → Prop) (f : β → α → β) (xs : List α) (init : β)
    (h0 : P init) (hstep : ∀ b x, x ∈ xs → P b → P (f b x)) : P (xs.foldl f init) := by
  induction xs generalizing init with
  | nil => exact h0
  | cons x xs ih =>
    simp only [List.foldl_cons]
    apply ih
    · exact hstep _ _ (by simp) h0
    · intro b y hy hb; exact hstep b y (List.mem_cons_of_mem _ hy) hb

theorem getD_of_inv {κ} [DecidableEq κ] (P : List Name → Prop) (hnil : P []) (k : κ) (d : List (κ × List Name))
    (h : ∀ k v, dictGet? k d = some v → P v) : P ((dictGet? k d).getD []) := by
  cases hg : dictGet? k d with
  | none => simpa using hnil
  | some v => simpa using h k v hg

theorem dictSet_entries {κ ν} [DecidableEq κ] (k : κ) (v : ν) (d : List (κ × ν)) :
    ∀ e ∈ dictSet k v d, e = (k, v) ∨ e ∈ d := by
  induction d with
  | nil => intro e he; simp [dictSet] at he; left; exact he
  | cons kv rest ih =>
    obtain ⟨k0, v0⟩ := kv
    intro e he
    simp only [dictSet] at he
    split at he
    · rcases List.mem_cons.1 he with h | h
      · left; exact h
      · right; exact List.mem_cons_of_mem _ h
    · rcases List.mem_cons.1 he with h | h
      · right; rw [h]; simp
      · rcases ih e h with h | h
        · left; exact h
        · right; exact List.mem_cons_of_mem _ h

theorem dictGet?_entries_inv {κ} [DecidableEq κ] (P : List Name → Prop) (d : List (κ × List Name))
    (h : ∀ e ∈ d, P e.2) : ∀ k v, dictGet? k d = some v → P v := by
  intro k v hg
  exact h (k, v) (dictGet?_mem k d v hg)

/-- same invariant, stated on the ENTRIES of the accumulated dictionary -/
theorem topoExpressions_entries (r : Reaction) (ts : List TOut) :
    ∀ e ∈ topoExpressions r ts, ∀ s ∈ e.2, ∃ o ∈ ts, s ∈ o.free := by
  unfold topoExpressions
  apply foldl_inv (P := fun (d : List (List Int × List Name)) => ∀ e ∈ d, ∀ s ∈ e.2, ∃ o ∈ ts, s ∈ o.free)
  · intro e he; cases he
  · intro d o ho hd
    apply foldl_inv (P := fun (d : List (List Int × List Name)) => ∀ e ∈ d, ∀ s ∈ e.2, ∃ o ∈ ts, s ∈ o.free)
    · exact hd
    · intro d2 co hco hd2 e he s hs
      rcases dictSet_entries _ _ _ e he with h | h
      · subst h
        rcases List.mem_append.1 hs with hs | hs
        · have := getD_of_inv (P := fun v => ∀ s ∈ v, ∃ o ∈ ts, s ∈ o.free) (by intro s hs; cases hs)
            (chainHel r co.1) d2 (dictGet?_entries_inv _ d2 hd2)
          exact this s hs
        · refine ⟨o, ho, ?_⟩
          simp only [TOut.free, List.mem_flatMap]
          exact ⟨co, hco, hs⟩
      · exact hd2 e h s hs

theorem registeredOf_freeFrom (v : Variant) (r : Reaction) (outs : List TOut) :
    ∀ k a, dictGet? k (registeredOf v r outs) = some a → FreeFrom outs a := by
  unfold registeredOf
  apply foldl_inv (P := fun d => ∀ k a, dictGet? k d = some a → FreeFrom outs a)
  · intro k a h; cases h
  · intro acc g hg hacc
    apply foldl_inv (P := fun d => ∀ k a, dictGet? k d = some a → FreeFrom outs a)
    · exact hacc
    · intro acc2 tg htg hacc2
      -- elements of the topology group are elements of `outs`
      have hsub : ∀ o ∈ tg.2, o ∈ outs := by
        intro o ho
        have h1 : o ∈ g := groupByKey_mem _ g tg htg o ho
        simp only [List.mem_map] at hg
        obtain ⟨kv, hkv, rfl⟩ := hg
        exact groupByKey_mem _ outs kv hkv o h1
      split
      · exact hacc2
      · rename_i first rest heq
        split
        · -- one symbol per distinct projection tuple of the chains
          apply foldl_inv (P := fun d => ∀ k a, dictGet? k d = some a → FreeFrom outs a)
          · exact hacc2
          · intro acc3 e he hacc3 k a h
            rcases dictGet?_dictSet _ _ _ _ _ h with h | h
            · subst h
              intro s hs
              obtain ⟨o, ho, hso⟩ := topoExpressions_entries r tg.2 e he s hs
              exact ⟨o, hsub o ho, hso⟩
            · exact hacc3 k a h
        · intro k a h
          rcases dictGet?_dictSet _ _ _ _ _ h with h | h
          · subst h
            intro s hs
            simp only [List.mem_flatMap] at hs
            obtain ⟨o, ho, hs⟩ := hs
            exact ⟨o, hsub o ho, hs⟩
          · exact hacc2 k a h

theorem transOuts_mem (v : Variant) (r : Reaction) (cfg : Config) (o : TOut) (h : o ∈ transOuts v r cfg) :
    ∃ t ∈ r.transitions, o = (t, t.chains.map (fun ch =>
      (ch, chainOut v ⟨r, cfg⟩ (parityMapping ⟨r, cfg⟩) (selectorKeys v r) t.inters ch))) := by
  simp only [transOuts, List.mem_map] at h
  obtain ⟨t, ht, rfl⟩ := h
  exact ⟨t, ht, rfl⟩

/-- parameter names of all chains are in the parameter name class -/
theorem chainParams_class (v : Variant) (r : Reaction) (cfg : Config) :
    ∀ n ∈ (transOuts v r cfg).flatMap TOut.params, isParamName n = true := by
  intro n hn
  simp only [List.mem_flatMap] at hn
  obtain ⟨o, ho, hn⟩ := hn
  obtain ⟨t, _, rfl⟩ := transOuts_mem v r cfg o ho
  simp only [TOut.params, List.mem_flatMap, List.mem_map] at hn
  obtain ⟨co, ⟨ch, _, rfl⟩, hn⟩ := hn
  exact chainOut_params_class _ _ _ _ _ _ n hn

/-- a free symbol of a transition's chains is one of its parameters or a kinematic symbol of a node of a chain -/
theorem tout_free_class (v : Variant) (r : Reaction) (cfg : Config) (o : TOut) (ho : o ∈ transOuts v r cfg) :
    ∀ s ∈ o.free, s ∈ o.params ∨ ∃ ch ∈ o.1.chains, ∃ ni ∈ (r.tree ch.topo).infos, s ∈ ni.kinSyms := by
  obtain ⟨t, _, rfl⟩ := transOuts_mem v r cfg o ho
  intro s hs
  simp only [TOut.free, TOut.params, List.mem_flatMap, List.mem_map] at hs ⊢
  obtain ⟨co, ⟨ch, hch, rfl⟩, hs⟩ := hs
  rcases chainOut_free_class _ _ _ _ _ _ s hs with h | h
  · left; exact ⟨_, ⟨ch, hch, rfl⟩, h⟩
  · right; exact ⟨ch, hch, h⟩

/-- keys of the adapter are in the kinematic-variable name class -/
theorem adapterKeys_class (v : Variant) (r : Reaction) (cfg : Config) (hwf : ∀ t ∈ registeredTopos v r cfg, t.wf = true) :
    ∀ k ∈ adapterKeys v r cfg, isKinName k = true := by
  intro k hk
  simp only [adapterKeys, List.mem_flatMap] at hk
  obtain ⟨t, ht, hk⟩ := hk
  exact adapterKeysOf_isKin t (hwf t ht) k hk

end Ampverif.Model.C01
