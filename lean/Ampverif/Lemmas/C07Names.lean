/-
C07: the naming scheme is injective when every final-state id is a single decimal digit
(the names concatenate the decimal digits of the ids; with ids ≥ 10 `m_112` is ambiguous).
-/
import Ampverif.Lemmas.C07Spec

namespace Ampverif.Lemmas.C07
open Ampverif.Model.Topology

/-- all ids are single decimal digits -/
def DigitIds (l : List Int) : Prop := ∀ i ∈ l, 0 ≤ i ∧ i < 10

instance (l : List Int) : Decidable (DigitIds l) :=
  inferInstanceAs (Decidable (∀ i ∈ l, 0 ≤ i ∧ i < 10))

def charVal (c : Char) : Int := (c.toNat : Int) - 48

def digitChar (n : Nat) : Char := Char.ofNat (48 + n)

theorem digitsOf_fin : ∀ d : Fin 10, digitsOf (d.val : Int) = [digitChar d.val] ∧
    charVal (digitChar d.val) = d.val ∧ digitChar d.val ≠ ',' ∧ digitChar d.val ≠ '^' := by decide

theorem digitsOf_digit {i : Int} (h : 0 ≤ i ∧ i < 10) :
    ∃ c : Char, digitsOf i = [c] ∧ charVal c = i ∧ c ≠ ',' ∧ c ≠ '^' := by
  obtain ⟨h0, h1⟩ := h
  have hi : i = ((⟨i.toNat, by omega⟩ : Fin 10).val : Int) := by simp; omega
  have := digitsOf_fin ⟨i.toNat, by omega⟩
  rw [← hi] at this
  exact ⟨_, this⟩

/-- a group of digits: no separator characters, and the ids can be read back -/
theorem concatDigits_props {l : List Int} (h : DigitIds l) :
    (concatDigits l).map charVal = l ∧ (∀ c ∈ concatDigits l, c ≠ ',' ∧ c ≠ '^') := by
  induction l with
  | nil => simp [concatDigits]
  | cons i rest ih =>
    have hi := h i (by simp)
    have hr : DigitIds rest := fun j hj => h j (by simp [hj])
    obtain ⟨c, hc, hv, h1, h2⟩ := digitsOf_digit hi
    obtain ⟨ih1, ih2⟩ := ih hr
    have e : concatDigits (i :: rest) = c :: concatDigits rest := by
      simp [concatDigits, hc]
    rw [e]
    refine ⟨by simp [hv, ih1], ?_⟩
    intro c' hc'
    simp at hc'
    rcases hc' with rfl | hc'
    · exact ⟨h1, h2⟩
    · exact ih2 c' hc'

theorem concatDigits_inj {l l' : List Int} (h : DigitIds l) (h' : DigitIds l')
    (e : concatDigits l = concatDigits l') : l = l' := by
  have a := (concatDigits_props h).1
  have b := (concatDigits_props h').1
  rw [← a, ← b, e]

/-! ### splitting at a separator -/

theorem append_sep_inj {sep : Char} : ∀ (g g' r r' : List Char), sep ∉ g → sep ∉ g' →
    g ++ sep :: r = g' ++ sep :: r' → g = g' ∧ r = r' := by
  intro g
  induction g with
  | nil =>
    intro g' r r' _ h' e
    cases g' with
    | nil => simpa using e
    | cons c g'' =>
      simp at e
      exact absurd (by simp [e.1]) h'
  | cons c g1 ih =>
    intro g' r r' h h' e
    cases g' with
    | nil =>
      simp at e
      exact absurd (by simp [e.1]) h
    | cons c' g1' =>
      simp at e
      obtain ⟨e1, e2⟩ := e
      have := ih g1' r r' (fun hh => h (by simp [hh])) (fun hh => h' (by simp [hh])) e2
      exact ⟨by rw [e1, this.1], this.2⟩

theorem no_sep_of_eq_append {sep : Char} {g g' r : List Char} (h : sep ∉ g)
    (e : g = g' ++ sep :: r) : False := by
  apply h; rw [e]; simp

theorem intercalate_cons2 (g h : List Char) (t : List (List Char)) :
    intercalateChars [','] (g :: h :: t) = g ++ ',' :: intercalateChars [','] (h :: t) := by
  simp [intercalateChars]

theorem intercalate_inj : ∀ (gs gs' : List (List Char)), gs ≠ [] → gs' ≠ [] →
    (∀ g ∈ gs, ',' ∉ g) → (∀ g ∈ gs', ',' ∉ g) →
    intercalateChars [','] gs = intercalateChars [','] gs' → gs = gs' := by
  intro gs
  induction gs with
  | nil => intro _ h; exact absurd rfl h
  | cons g t ih =>
    intro gs' _ hne' hs hs' e
    cases gs' with
    | nil => exact absurd rfl hne'
    | cons g' t' =>
      have hg := hs g (by simp)
      have hg' := hs' g' (by simp)
      cases t with
      | nil =>
        cases t' with
        | nil => simp [intercalateChars] at e; rw [e]
        | cons h' u' =>
          rw [intercalate_cons2] at e
          simp [intercalateChars] at e
          exact (no_sep_of_eq_append hg e).elim
      | cons h u =>
        cases t' with
        | nil =>
          rw [intercalate_cons2] at e
          simp [intercalateChars] at e
          exact (no_sep_of_eq_append hg' e.symm).elim
        | cons h' u' =>
          rw [intercalate_cons2, intercalate_cons2] at e
          obtain ⟨e1, e2⟩ := append_sep_inj _ _ _ _ hg hg' e
          have := ih (h' :: u') (by simp) (by simp) (fun x hx => hs x (by simp [hx]))
            (fun x hx => hs' x (by simp [hx])) e2
          rw [e1, this]

theorem renderGroups_inj : ∀ (gs gs' : List (List Char)), gs ≠ [] → gs' ≠ [] →
    (∀ g ∈ gs, ',' ∉ g ∧ '^' ∉ g) → (∀ g ∈ gs', ',' ∉ g ∧ '^' ∉ g) →
    renderGroups gs = renderGroups gs' → gs = gs' := by
  intro gs gs' hne hne' hs hs' e
  cases gs with
  | nil => exact absurd rfl hne
  | cons g t =>
    cases gs' with
    | nil => exact absurd rfl hne'
    | cons g' t' =>
      have hg := (hs g (by simp)).2
      have hg' := (hs' g' (by simp)).2
      cases t with
      | nil =>
        cases t' with
        | nil => simp [renderGroups] at e; rw [e]
        | cons h' u' =>
          simp [renderGroups] at e
          exact (no_sep_of_eq_append hg e).elim
      | cons h u =>
        cases t' with
        | nil =>
          simp [renderGroups] at e
          exact (no_sep_of_eq_append hg' e.symm).elim
        | cons h' u' =>
          simp only [renderGroups] at e
          obtain ⟨e1, e2⟩ := append_sep_inj ('_' :: g) ('_' :: g') _ _
            (by simp [hg]) (by simp [hg']) e
          simp only [List.cons.injEq, true_and] at e1
          have := intercalate_inj (h :: u) (h' :: u') (by simp) (by simp)
            (fun x hx => (hs x (by simp [hx])).1) (fun x hx => (hs' x (by simp [hx])).1) e2
          rw [e1, this]

theorem map_concatDigits_inj : ∀ (c c' : List (List Int)), (∀ s ∈ c, DigitIds s) →
    (∀ s ∈ c', DigitIds s) → c.map concatDigits = c'.map concatDigits → c = c' := by
  intro c
  induction c with
  | nil => intro c' _ _ e; cases c' with
    | nil => rfl
    | cons _ _ => simp at e
  | cons s t ih =>
    intro c' h h' e
    cases c' with
    | nil => simp at e
    | cons s' t' =>
      simp at e
      have e1 := concatDigits_inj (h s (by simp)) (h' s' (by simp)) e.1
      have e2 := ih t' (fun x hx => h x (by simp [hx])) (fun x hx => h' x (by simp [hx])) e.2
      rw [e1, e2]

/-- The name of an angle pair determines the state it is named after and the chain of frames. -/
theorem renderName_inj {t t' : List Int} {c c' : List (List Int)}
    (ht : DigitIds t) (ht' : DigitIds t') (hc : ∀ s ∈ c, DigitIds s) (hc' : ∀ s ∈ c', DigitIds s)
    (e : renderName t c = renderName t' c') : t = t' ∧ c = c' := by
  unfold renderName at e
  have sepfree : ∀ {l : List Int}, DigitIds l → ',' ∉ concatDigits l ∧ '^' ∉ concatDigits l := by
    intro l hl
    have := (concatDigits_props hl).2
    exact ⟨fun hh => (this _ hh).1 rfl, fun hh => (this _ hh).2 rfl⟩
  have key := renderGroups_inj _ _ (by simp) (by simp)
    (by
      intro g hg
      simp at hg
      rcases hg with rfl | ⟨s, hs, rfl⟩
      · exact sepfree ht
      · exact sepfree (hc s hs))
    (by
      intro g hg
      simp at hg
      rcases hg with rfl | ⟨s, hs, rfl⟩
      · exact sepfree ht'
      · exact sepfree (hc' s hs)) e
  simp only [List.cons.injEq] at key
  obtain ⟨k1, k2⟩ := key
  have r := map_concatDigits_inj c.reverse c'.reverse (fun s hs => hc s (by simpa using hs))
    (fun s hs => hc' s (by simpa using hs)) k2
  exact ⟨concatDigits_inj ht ht' k1, by simpa using r⟩

/-- mass names: `m_` followed by the digits of the sorted ids -/
def massNameOf (ids : List Int) : List Char := ['m', '_'] ++ concatDigits (sortInts ids)

/-- reading the ids back from a mass name -/
def parseMassName (nm : List Char) : List Int := (nm.drop 2).map charVal

theorem parse_massName {ids : List Int} (h : DigitIds (sortInts ids)) :
    parseMassName (massNameOf ids) = sortInts ids := by
  simp [parseMassName, massNameOf, (concatDigits_props h).1]

end Ampverif.Lemmas.C07
