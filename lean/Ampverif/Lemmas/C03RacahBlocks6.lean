/-
C03 — Racah's closed formula equals the REGENERATED SymPy Clebsch–Gordan table on every admissible
key of the blocks `(2j₁, 2j₂) = (6, ·)` (kernel evaluation, exact rational arithmetic; generated
file layout: one module per `2j₁` so that the blocks build in parallel).
-/
import Ampverif.Lemmas.C03Racah
import Ampverif.Gen.C03CG

namespace Ampverif.Lemmas.C03RacahBlocks
open Ampverif.Model.C03CG Ampverif.Lemmas.C03CG Ampverif.Gen.C03CG

theorem racah_6_0 : blockIsRacah table 6 0 = true := by decide +kernel
theorem racah_6_1 : blockIsRacah table 6 1 = true := by decide +kernel
theorem racah_6_2 : blockIsRacah table 6 2 = true := by decide +kernel
theorem racah_6_3 : blockIsRacah table 6 3 = true := by decide +kernel
theorem racah_6_4 : blockIsRacah table 6 4 = true := by decide +kernel
theorem racah_6_5 : blockIsRacah table 6 5 = true := by decide +kernel
theorem racah_6_6 : blockIsRacah table 6 6 = true := by decide +kernel

end Ampverif.Lemmas.C03RacahBlocks
