/-
C04, layer (K), part 5 — the helicity-frame transformation takes the subsystem to rest:
`helframe P · P = (m, 0, 0, 0)` with `m = √(E² − |p|²)`, and a momentum along `p` stays on the z axis.
-/
import Ampverif.Lemmas.C04Covariance

namespace Ampverif.Lemmas.C04
open Matrix Ampverif.Gen.C04

theorem hframeT_sp (P : Fin 4 → ℝ) (hP : 0 < nrm (sp P)) :
    (hframe (phiOf (sp P)) (thetaOf (sp P)))ᵀ *ᵥ sp P = nrm (sp P) • ez := by
  have := hframe_inv_apply (sp P) hP
  rwa [hframe, Matrix.transpose_mul, Rz3_transpose, Ry3_transpose]

/-- after the two rotations the subsystem momentum is `(E, 0, 0, |p|)` -/
theorem rotated_subsystem (P : Fin 4 → ℝ) (hP : 0 < nrm (sp P)) :
    emb ((hframe (phiOf (sp P)) (thetaOf (sp P)))ᵀ) *ᵥ P = ![P 0, 0, 0, nrm (sp P)] := by
  rw [emb_mulVec, hframeT_sp P hP]
  ext i
  fin_cases i <;> simp [ez]

theorem helframe_self (P : Fin 4 → ℝ) (hP : 0 < nrm (sp P)) (hE : P 0 ≠ 0) :
    helframe P *ᵥ P
      = ![gam (nrm (sp P) / P 0) * (P 0 - nrm (sp P) / P 0 * nrm (sp P)), 0, 0, 0] := by
  rw [helframe_eq, ← Matrix.mulVec_mulVec, rotated_subsystem P hP, BoostZ_eq]
  ext i
  fin_cases i <;> simp [Matrix.mulVec, dotProduct, Fin.sum_univ_four]
  · ring
  · field_simp
    ring

/-- for a time-like subsystem the energy in its helicity frame is the invariant mass -/
theorem helframe_self_mass (P : Fin 4 → ℝ) (hP : 0 < nrm (sp P)) (hE : nrm (sp P) < P 0) :
    helframe P *ᵥ P = ![Real.sqrt (P 0 ^ 2 - nrm (sp P) ^ 2), 0, 0, 0] := by
  have hE0 : 0 < P 0 := lt_trans hP hE
  rw [helframe_self P hP hE0.ne']
  have hm : 0 < P 0 ^ 2 - nrm (sp P) ^ 2 := by nlinarith
  have hs : 0 < Real.sqrt (P 0 ^ 2 - nrm (sp P) ^ 2) := Real.sqrt_pos.mpr hm
  have h1 : 1 - (nrm (sp P) / P 0) ^ 2 = (P 0 ^ 2 - nrm (sp P) ^ 2) / P 0 ^ 2 := by
    field_simp
  have hg : gam (nrm (sp P) / P 0) = P 0 / Real.sqrt (P 0 ^ 2 - nrm (sp P) ^ 2) := by
    rw [gam_eq, h1, Real.sqrt_div hm.le, Real.sqrt_sq hE0.le, inv_div]
  have key : gam (nrm (sp P) / P 0) * (P 0 - nrm (sp P) / P 0 * nrm (sp P))
      = Real.sqrt (P 0 ^ 2 - nrm (sp P) ^ 2) := by
    rw [hg]
    have hsq : Real.sqrt (P 0 ^ 2 - nrm (sp P) ^ 2) ^ 2 = P 0 ^ 2 - nrm (sp P) ^ 2 :=
      Real.sq_sqrt hm.le
    field_simp
    nlinarith
  rw [key]

end Ampverif.Lemmas.C04
