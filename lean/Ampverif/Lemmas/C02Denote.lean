/-
C02 — denotation of skeletons under an arbitrary interpretation, and the term-level lemma
(impl term = spec term for isobar graphs).
-/
import Ampverif.Lemmas.C02Lists

namespace Ampverif.Lemmas.C02Denote
open Ampverif.Model.C03 Ampverif.Model.C02 Ampverif.Lemmas.C02Lists

/-- An interpretation of everything the skeleton leaves open: the (conjugated) Wigner D-function of
a node, the Clebsch–Gordan coefficients, the parameters (coefficients / couplings) and the squared
modulus. Nothing is assumed about them. -/
structure Interp (R : Type) where
  D : DArgs → R
  CG : CGArgs → R
  par : String → R
  /-- the lineshape: any function of the builder id, the particle and the variable set. -/
  dyn : DynArgs → R
  nsq : R → R

variable {R : Type} [CommRing R]

def denOpt (ι : Interp R) : Option String → R
  | some c => ι.par c
  | none => 1

def denDyn (ι : Interp R) : Option DynArgs → R
  | some a => ι.dyn a
  | none => 1

def denNode (ι : Interp R) (n : NodeFactor) : R :=
  ι.D n.d * (n.cg.map ι.CG).prod * denOpt ι n.coupling * denDyn ι n.dyn

def denTerm (ι : Interp R) (t : Term) : R :=
  (t.prefactor : R) * denOpt ι t.coeff * (t.nodes.map (denNode ι)).prod

def denTerms (ι : Interp R) (l : List Term) : R := (l.map (denTerm ι)).sum

/-- `PoolSum(|Σ_bases A^base[h]|², pools)` with the amplitude definitions looked up (last writer
wins, undefined = 0). -/
def denImpl (ι : Interp R) (s : Skeleton) : R :=
  (s.configs.map fun h => ι.nsq ((s.bases.map fun b => denTerms ι (lookupLast s.writes b h)).sum)).sum

/-- the helicity formula: incoherent over outer projection tuples, coherent over all graphs with
those projections. -/
def denSpec (ι : Interp R) (p : Spec) : R :=
  (p.configs.map fun h => ι.nsq (denTerms ι ((p.graphs.filter fun g => g.1 = h).map (·.2)))).sum

/-- a named intensity component: incoherent sum of coherent sums. -/
def denIncoherent (ι : Interp R) (ls : List (List Term)) : R := (ls.map fun l => ι.nsq (denTerms ι l)).sum

theorem denTerms_append (ι : Interp R) (a b : List Term) :
    denTerms ι (a ++ b) = denTerms ι a + denTerms ι b := by
  simp [denTerms]

theorem denTerms_flatMap {β : Type} (ι : Interp R) (f : β → List Term) :
    ∀ l : List β, denTerms ι (l.flatMap f) = (l.map fun x => denTerms ι (f x)).sum
  | [] => by simp [denTerms]
  | x :: xs => by
    simp only [List.flatMap_cons, denTerms_append, List.map_cons, List.sum_cons]
    rw [denTerms_flatMap ι f xs]

/-! ### impl node = spec node -/

theorem sortBy_pair {α : Type} (lt : α → α → Bool) (a b : α) :
    sortBy lt [a, b] = if lt b a then [b, a] else [a, b] := by
  simp [sortBy, insertSorted]

theorem nodeFactor_eq_specNode (cfg : Config) (sel : List DecayKey) (t : Transition) (n : Nat)
    (h : (t.outEdges n).length = 2) (hk : t.decayKey n ∈ sel) :
    t.nodeFactor cfg sel n = t.specNode cfg n := by
  match hoe : t.outEdges n, h with
  | [a, b], _ =>
    unfold Transition.nodeFactor Transition.specNode Transition.dynFactor Transition.dynArgs
    rw [if_pos hk]
    unfold Transition.decay
    simp only [hoe, sortBy_pair, Transition.isOpposite]
    by_cases hlt : lexLt (t.attached b) (t.attached a) = true
    · simp [hlt]
    · simp [hlt]

theorem term_eq_specTerm (v : Variant) (cfg : Config) (m : Mapping) (sel : List DecayKey) (t : Transition)
    (h : t.isobar = true) (hk : ∀ n ∈ t.nodes, t.decayKey n ∈ sel) :
    t.term v cfg m sel = t.specTerm v cfg m := by
  unfold Transition.term Transition.specTerm
  congr 1
  apply List.map_congr_left
  intro n hn
  apply nodeFactor_eq_specNode _ _ _ _ _ (hk n hn)
  unfold Transition.isobar at h
  have := (List.all_eq_true.mp h) n hn
  simpa using this

/-- every node of every symmetrised graph of a transition of the reaction is a key of the selector. -/
theorem mem_selectorKeys (ts : List Transition) (t : Transition) (ht : t ∈ ts) (g : Transition)
    (hg : g ∈ t.symmetrise) (n : Nat) (hn : n ∈ g.nodes) : g.decayKey n ∈ selectorKeys ts := by
  unfold selectorKeys
  exact List.mem_flatMap.mpr ⟨t, ht, List.mem_flatMap.mpr ⟨g, hg, List.mem_map_of_mem hn⟩⟩

end Ampverif.Lemmas.C02Denote
