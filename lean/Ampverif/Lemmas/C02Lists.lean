/-
C02 — generic list lemmas: first-appearance de-duplication, grouping, sums over a partition,
last-writer-wins lookup over pairwise distinct keys.
-/
import Ampverif.Model.C02Skeleton
import Mathlib.Algebra.BigOperators.Group.List.Basic
import Mathlib.Algebra.Ring.Basic
import Mathlib.Data.List.Nodup
import Mathlib.Tactic.Ring

namespace Ampverif.Lemmas.C02Lists
open Ampverif.Model.C02

variable {α κ : Type} [DecidableEq α] [DecidableEq κ]

theorem mem_dedupFirst : ∀ (l : List α) (x : α), x ∈ dedupFirst l ↔ x ∈ l
  | [], x => by simp [dedupFirst]
  | y :: ys, x => by
    unfold dedupFirst
    simp only [List.mem_cons, List.mem_filter, decide_eq_true_eq]
    rw [mem_dedupFirst ys x]
    constructor
    · rintro (h | ⟨h, _⟩)
      · exact Or.inl h
      · exact Or.inr h
    · rintro (h | h)
      · exact Or.inl h
      · by_cases hxy : x = y
        · exact Or.inl hxy
        · exact Or.inr ⟨h, hxy⟩

theorem nodup_dedupFirst : ∀ (l : List α), (dedupFirst l).Nodup
  | [] => by simp [dedupFirst]
  | y :: ys => by
    unfold dedupFirst
    rw [List.nodup_cons]
    constructor
    · simp [List.mem_filter]
    · exact (nodup_dedupFirst ys).filter _

section sums
variable {R : Type} [CommRing R]

/-- `Σ_{k ∈ ks} [a = k] c = c` when `a` occurs in the duplicate-free list `ks`. -/
theorem sum_ite_eq_of_mem (ks : List κ) (hks : ks.Nodup) (a : κ) (c : R) (ha : a ∈ ks) :
    (ks.map fun k => if a = k then c else 0).sum = c := by
  induction ks with
  | nil => cases ha
  | cons k ks ih =>
    rw [List.nodup_cons] at hks
    simp only [List.map_cons, List.sum_cons]
    rcases List.mem_cons.mp ha with h | h
    · subst h
      have : (ks.map fun k => if a = k then c else 0).sum = 0 := by
        apply List.sum_eq_zero
        intro x hx
        obtain ⟨k', hk', rfl⟩ := List.mem_map.mp hx
        have : a ≠ k' := fun e => hks.1 (e ▸ hk')
        simp [this]
      simp [this]
    · have hne : a ≠ k := fun e => hks.1 (e ▸ h)
      simp [hne, ih hks.2 h]

theorem sum_ite_eq_of_not_mem (ks : List κ) (a : κ) (c : R) (ha : a ∉ ks) :
    (ks.map fun k => if a = k then c else 0).sum = 0 := by
  apply List.sum_eq_zero
  intro x hx
  obtain ⟨k', hk', rfl⟩ := List.mem_map.mp hx
  have : a ≠ k' := fun e => ha (e ▸ hk')
  simp [this]

/-- sums over the classes of a key add up to the sum over the list. -/
theorem sum_partition (key : α → κ) (f : α → R) (ks : List κ) (hks : ks.Nodup) :
    ∀ (l : List α), (∀ x ∈ l, key x ∈ ks) →
      (ks.map fun k => ((l.filter fun x => key x = k).map f).sum).sum = (l.map f).sum
  | [], _ => by simp
  | x :: xs, h => by
    have ih := sum_partition key f ks hks xs (fun y hy => h y (List.mem_cons_of_mem _ hy))
    have hx := h x List.mem_cons_self
    have step : ∀ k, (((x :: xs).filter fun y => key y = k).map f).sum
        = (if key x = k then f x else 0) + ((xs.filter fun y => key y = k).map f).sum := by
      intro k
      by_cases hk : key x = k
      · simp [hk]
      · simp [hk]
    simp only [step]
    rw [List.sum_map_add, ih, sum_ite_eq_of_mem ks hks (key x) (f x) hx]
    simp

theorem sum_groupByFirst (key : α → κ) (f : α → R) (l : List α) :
    ((groupByFirst key l).map fun c => (c.map f).sum).sum = (l.map f).sum := by
  unfold groupByFirst
  have := sum_partition key f (dedupFirst (l.map key)) (nodup_dedupFirst _) l
    (fun x hx => (mem_dedupFirst _ _).mpr (List.mem_map_of_mem hx))
  simp only [List.map_map, Function.comp_def]
  exact this

end sums

/-! ### cells of `groupByFirst` -/

theorem mem_groupByFirst (key : α → κ) (l : List α) (c : List α) (hc : c ∈ groupByFirst key l) :
    ∃ k, k ∈ l.map key ∧ c = l.filter fun x => key x = k := by
  unfold groupByFirst at hc
  obtain ⟨k, hk, rfl⟩ := List.mem_map.mp hc
  exact ⟨k, (mem_dedupFirst _ _).mp hk, rfl⟩

theorem cell_props (key : α → κ) (l : List α) (c : List α) (hc : c ∈ groupByFirst key l) [Inhabited α] :
    c ≠ [] ∧ (∀ x ∈ c, x ∈ l) ∧ (∀ x ∈ c, key x = key (c.headD default)) ∧ c.headD default ∈ c := by
  obtain ⟨k, hk, rfl⟩ := mem_groupByFirst key l c hc
  obtain ⟨x, hx, hkx⟩ := List.mem_map.mp hk
  have hmem : x ∈ l.filter fun y => key y = k := by simp [List.mem_filter, hx, hkx]
  have hne : (l.filter fun y => key y = k) ≠ [] := List.ne_nil_of_mem hmem
  have hhead : (l.filter fun y => key y = k).headD default ∈ l.filter fun y => key y = k := by
    cases hl : l.filter fun y => key y = k with
    | nil => exact absurd hl hne
    | cons a as => simp
  refine ⟨hne, ?_, ?_, hhead⟩
  · intro y hy; exact (List.mem_filter.mp hy).1
  · intro y hy
    have h1 : key y = k := by simpa using (List.mem_filter.mp hy).2
    have h2 : key ((l.filter fun y => key y = k).headD default) = k := by
      simpa using (List.mem_filter.mp hhead).2
    rw [h1, h2]

/-! ### lookup (first match) over pairwise distinct keys -/

section lookup
variable {σ R : Type} [DecidableEq σ] [CommRing R]

/-- value of the first entry with key `q`, `0` if there is none. -/
def lookupR : List (σ × R) → σ → R
  | [], _ => 0
  | (s, v) :: rest, q => if s = q then v else lookupR rest q

theorem lookupR_not_mem (w : List (σ × R)) (q : σ) (h : q ∉ w.map (·.1)) : lookupR w q = 0 := by
  induction w with
  | nil => rfl
  | cons sv rest ih =>
    obtain ⟨s, v⟩ := sv
    simp only [List.map_cons, List.mem_cons, not_or] at h
    have hdef : lookupR ((s, v) :: rest) q = if s = q then v else lookupR rest q := rfl
    have : ¬ s = q := fun e => h.1 e.symm
    rw [hdef]
    simp [this, ih h.2]

/-- for pairwise distinct entry keys and a duplicate-free query list:
`Σ_q lookup q = Σ_{entries whose key is queried} value`. -/
theorem sum_lookupR (qs : List σ) (hqs : qs.Nodup) :
    ∀ (w : List (σ × R)), (w.map (·.1)).Nodup →
      (qs.map (lookupR w)).sum = ((w.filter fun sv => sv.1 ∈ qs).map (·.2)).sum
  | [], _ => by
    simp only [List.filter_nil, List.map_nil, List.sum_nil]
    apply List.sum_eq_zero
    intro x hx
    obtain ⟨q, _, rfl⟩ := List.mem_map.mp hx
    rfl
  | (s, v) :: rest, hw => by
    simp only [List.map_cons, List.nodup_cons] at hw
    have ih := sum_lookupR qs hqs rest hw.2
    have step : ∀ q, lookupR ((s, v) :: rest) q = (if s = q then v else 0) + lookupR rest q := by
      intro q
      have hdef : lookupR ((s, v) :: rest) q = if s = q then v else lookupR rest q := rfl
      rw [hdef]
      by_cases e : s = q
      · subst e
        simp [lookupR_not_mem rest s hw.1]
      · simp [e]
    have : (qs.map (lookupR ((s, v) :: rest))) = qs.map fun q => (if s = q then v else 0) + lookupR rest q :=
      List.map_congr_left (fun q _ => step q)
    rw [this, List.sum_map_add, ih]
    by_cases hs : s ∈ qs
    · rw [sum_ite_eq_of_mem qs hqs s v hs]
      simp [hs]
    · rw [sum_ite_eq_of_not_mem qs s v hs]
      simp [hs]

end lookup

end Ampverif.Lemmas.C02Lists
