/-
Helper lemmas for C18: simultaneous replacement (`xreplace` = simultaneous update of the
environment, for nested pool sums with symbolic pools), `PoolSum.cleanup`.
-/
import Ampverif.Lemmas.C18Sum

namespace Ampverif.Lemmas.C18
open Ampverif.Model

/-! ### `xreplace` with a map to rational literals -/

def lookupQ (c : List (Sym × Q)) (s : Sym) : Option Q :=
  match c with
  | [] => none
  | (k, q) :: rest => if s = k then some q else lookupQ rest s

/-- the environment after the simultaneous assignment `c` (first entry of a key wins). -/
def qEnv (c : List (Sym × Q)) (ρ : Env) : Env := fun s =>
  match lookupQ c s with
  | some q => q
  | none => ρ s

theorem lookup_litPairs (c : List (Sym × Q)) (s : Sym) :
    lookup (litPairs c) s = (lookupQ c s).map Expr.rat := by
  induction c with
  | nil => simp [litPairs, lookup, lookupQ]
  | cons p c ih =>
    obtain ⟨k, q⟩ := p
    by_cases h : s = k
    · simp [litPairs, lookup, lookupQ, h]
    · have ih' : lookup (List.map (fun p => (p.1, Expr.rat p.2)) c) s = (lookupQ c s).map Expr.rat := by
        simpa [litPairs] using ih
      simp [litPairs, lookup, lookupQ, h, ih']

theorem litPairs_filter (c : List (Sym × Q)) (f : Sym → Bool) :
    (litPairs c).filter (fun p => f p.1) = litPairs (c.filter (fun p => f p.1)) := by
  induction c with
  | nil => simp [litPairs]
  | cons p c ih =>
    have ih' : List.filter (fun p => f p.1) (List.map (fun p => (p.1, Expr.rat p.2)) c)
        = List.map (fun p => (p.1, Expr.rat p.2)) (List.filter (fun p => f p.1) c) := by
      simpa [litPairs] using ih
    by_cases h : f p.1 = true <;> simp [litPairs, List.filter_cons, h, ih']

theorem lookupQ_filter (c : List (Sym × Q)) (f : Sym → Bool) (s : Sym) :
    lookupQ (c.filter (fun p => f p.1)) s = if f s = true then lookupQ c s else none := by
  induction c with
  | nil => simp [lookupQ]
  | cons p c ih =>
    obtain ⟨k, q⟩ := p
    by_cases hk : f k = true
    · by_cases hs : s = k
      · subst hs; simp [List.filter_cons, hk, lookupQ]
      · simp [List.filter_cons, hk, lookupQ, hs, ih]
    · by_cases hs : s = k
      · subst hs; simp [List.filter_cons, hk, lookupQ, ih]
      · simp [List.filter_cons, hk, lookupQ, hs, ih]

theorem upd_qEnv (c : List (Sym × Q)) (ρ : Env) (i : Sym) (v : Q) :
    upd (qEnv c ρ) i v = qEnv (c.filter (fun p => !decide (p.1 = i))) (upd ρ i v) := by
  funext s
  have := lookupQ_filter c (fun k => !decide (k = i)) s
  by_cases h : s = i
  · subst h
    simp [upd, qEnv, this]
  · simp [upd, qEnv, this, h]

theorem filter_filter_names (c : List (Sym × Q)) (i : Sym) (rest : List Sym) :
    (c.filter (fun p => !decide (p.1 = i))).filter (fun p => !rest.contains p.1)
      = c.filter (fun p => !(i :: rest).contains p.1) := by
  rw [List.filter_filter]
  congr 1
  funext p
  by_cases h : p.1 = i <;> simp [h, List.contains_cons, Bool.and_comm]

theorem evalSum_qEnv (ixs : List QBinder) :
    ∀ (c : List (Sym × Q)) (ρ : Env) (k : Env → Q),
      evalSum ixs (qEnv c ρ) k
        = evalSum ixs ρ (fun ρ' => k (qEnv (c.filter (fun p => !(names ixs).contains p.1)) ρ')) := by
  induction ixs with
  | nil => intro c ρ k; simp [evalSum, names]
  | cons p rest ih =>
    intro c ρ k
    obtain ⟨i, pool⟩ := p
    simp only [evalSum]
    congr 1
    apply List.map_congr_left
    intro v _
    rw [upd_qEnv, ih, filter_filter_names, names_cons]

/-- the values of a replacement map in an environment. -/
def evalPairs (I : Interp) (σ : List (Sym × Expr)) (ρ : Env) : List (Sym × Q) :=
  σ.map (fun p => (p.1, eval I p.2 ρ))

theorem lookupQ_evalPairs (I : Interp) (σ : List (Sym × Expr)) (ρ : Env) (s : Sym) :
    lookupQ (evalPairs I σ ρ) s = (lookup σ s).map (fun a => eval I a ρ) := by
  induction σ with
  | nil => simp [evalPairs, lookup, lookupQ]
  | cons p σ ih =>
    obtain ⟨k, a⟩ := p
    have ih' : lookupQ (List.map (fun p => (p.1, eval I p.2 ρ)) σ) s = (lookup σ s).map (fun a => eval I a ρ) := by
      simpa [evalPairs] using ih
    by_cases h : s = k
    · simp [evalPairs, lookup, lookupQ, h]
    · simp [evalPairs, lookup, lookupQ, h, ih']

theorem evalPairs_filter (I : Interp) (σ : List (Sym × Expr)) (ρ : Env) (f : Sym → Bool) :
    (evalPairs I σ ρ).filter (fun p => f p.1) = evalPairs I (σ.filter (fun p => f p.1)) ρ := by
  induction σ with
  | nil => simp [evalPairs]
  | cons p σ ih =>
    have ih' : List.filter (fun p => f p.1) (List.map (fun p => (p.1, eval I p.2 ρ)) σ)
        = List.map (fun p => (p.1, eval I p.2 ρ)) (List.filter (fun p => f p.1) σ) := by
      simpa [evalPairs] using ih
    by_cases h : f p.1 = true <;> simp [evalPairs, List.filter_cons, h, ih']

theorem evalPairs_congr (I : Interp) (σ : List (Sym × Expr)) (ρ ρ' : Env)
    (h : ∀ p ∈ σ, eval I p.2 ρ' = eval I p.2 ρ) : evalPairs I σ ρ' = evalPairs I σ ρ := by
  unfold evalPairs
  apply List.map_congr_left
  intro p hp
  rw [h p hp]

theorem evalPairs_reverse (I : Interp) (σ : List (Sym × Expr)) (ρ : Env) :
    (evalPairs I σ ρ).reverse = evalPairs I σ.reverse ρ := by
  simp [evalPairs, List.map_reverse]

theorem qEnv_filter_of_not_mem (c : List (Sym × Q)) (ρ : Env) (ns : List Sym) (s : Sym) (h : s ∉ ns) :
    qEnv (c.filter (fun p => !ns.contains p.1)) ρ s = qEnv c ρ s := by
  have := lookupQ_filter c (fun k => !ns.contains k) s
  simp only [qEnv, this]
  simp [h]

mutual
/-- `xreplace` is the simultaneous update of the environment by the values of the map — for every
term (nested pool sums, symbolic pools), provided the inserted terms mention no bound symbol. -/
theorem eval_xreplace (I : Interp) (v : Variant) (hv : v.sound) :
    ∀ (e : Expr) (σ : List (Sym × Expr)) (ρ : Env), wfSums e = true →
      (∀ p ∈ σ, wfSums p.2 = true ∧ ∀ s ∈ syms p.2, s ∉ bound e) →
      eval I (xreplace v e σ) ρ = eval I e (qEnv (evalPairs I σ ρ) ρ)
  | .sym s, σ, ρ, _, _ => by
      simp only [xreplace, eval, qEnv, lookupQ_evalPairs]
      cases lookup σ s <;> simp [eval]
  | .rat r, σ, ρ, _, _ => by simp [xreplace, eval]
  | .add es, σ, ρ, hw, hc => by
      simp only [xreplace, eval]
      rw [evalList_xreplace I v hv es σ ρ (by simpa [wfSums] using hw) (by simpa [bound] using hc)]
  | .mul es, σ, ρ, hw, hc => by
      simp only [xreplace, eval]
      rw [evalList_xreplace I v hv es σ ρ (by simpa [wfSums] using hw) (by simpa [bound] using hc)]
  | .pow b n, σ, ρ, hw, hc => by
      simp only [xreplace, eval]
      rw [eval_xreplace I v hv b σ ρ (by simpa [wfSums] using hw) (by simpa [bound] using hc)]
  | .app f es, σ, ρ, hw, hc => by
      simp only [xreplace, eval]
      rw [evalList_xreplace I v hv es σ ρ (by simpa [wfSums] using hw) (by simpa [bound] using hc)]
  | .node cl es t, σ, ρ, hw, hc => by
      have hr : v.getArgsRecursive = false := hv.1
      simp only [xreplace, hr, Bool.false_and, Bool.false_eq_true, if_false, eval]
      rw [evalList_xreplace I v hv es σ ρ (by simpa [wfSums] using hw) (by simpa [bound] using hc)]
  | .psum b ixs, σ, ρ, hw, hc => by
      have hp : v.poolSumProtectsBound = true := hv.2
      obtain ⟨_, _, hnp, hown, hwb⟩ := wfSums_psum hw
      have hc' : ∀ p ∈ σ, wfSums p.2 = true ∧ ∀ s ∈ syms p.2, s ∉ names ixs ∧ s ∉ bound b := by
        intro p hp'
        refine ⟨(hc p hp').1, ?_⟩
        intro s hs
        have := (hc p hp').2 s hs
        simp only [bound, List.mem_append, not_or] at this
        exact ⟨this.1.1, this.2⟩
      have hsub : ∀ p ∈ σ.filter (fun p => !(names ixs).contains p.1), p ∈ σ :=
        fun p hp' => (List.mem_filter.mp hp').1
      simp only [xreplace, hp, if_true, eval]
      have hpools : evalBinders I (xreplaceBinders v ixs (σ.filter (fun p => !(names ixs).contains p.1))) ρ
          = evalBinders I ixs (qEnv (evalPairs I σ ρ) ρ) := by
        rw [evalBinders_xreplace I v hv ixs _ ρ hnp (fun p hp' => (hc' p (hsub p hp')).1)]
        apply evalBinders_agree I ixs _ _ hnp
        intro s hs
        have hsn : s ∉ names ixs := (hown s (mem_symsBinders_of_mem_freeBinders ixs s hs)).1
        rw [← evalPairs_filter I σ ρ (fun k => !(names ixs).contains k)]
        exact qEnv_filter_of_not_mem _ ρ (names ixs) s hsn
      rw [hpools, evalSum_qEnv, names_evalBinders]
      apply evalSum_congr_agree
      intro ρ' hρ'
      rw [eval_xreplace I v hv b _ ρ' hwb (fun p hp' =>
        ⟨(hc' p (hsub p hp')).1, fun s hs => ((hc' p (hsub p hp')).2 s hs).2⟩)]
      rw [evalPairs_filter I σ ρ (fun k => !(names ixs).contains k)]
      rw [evalPairs_congr I _ ρ ρ']
      intro p hp'
      have hps := hc' p (hsub p hp')
      apply eval_agree I p.2 ρ' ρ hps.1
      intro s hs
      apply hρ' s
      rw [names_evalBinders]
      exact (hps.2 s (mem_syms_of_mem_free p.2 s hs)).1
  | .idx f es, σ, ρ, hw, hc => by
      simp only [xreplace, eval]
      rw [evalList_xreplace I v hv es σ ρ (by simpa [wfSums] using hw) (by simpa [bound] using hc)]
theorem evalList_xreplace (I : Interp) (v : Variant) (hv : v.sound) :
    ∀ (es : List Expr) (σ : List (Sym × Expr)) (ρ : Env), wfSumsList es = true →
      (∀ p ∈ σ, wfSums p.2 = true ∧ ∀ s ∈ syms p.2, s ∉ boundList es) →
      evalList I (xreplaceList v es σ) ρ = evalList I es (qEnv (evalPairs I σ ρ) ρ)
  | [], σ, ρ, _, _ => by simp [xreplaceList, evalList]
  | e :: es, σ, ρ, hw, hc => by
      have hw' : wfSums e = true ∧ wfSumsList es = true := by simpa [wfSumsList] using hw
      have hc' : ∀ p ∈ σ, wfSums p.2 = true ∧ ∀ s ∈ syms p.2, s ∉ bound e ∧ s ∉ boundList es := by
        intro p hp
        refine ⟨(hc p hp).1, ?_⟩
        intro s hs
        have := (hc p hp).2 s hs
        simpa [boundList, not_or] using this
      simp only [xreplaceList, evalList]
      rw [eval_xreplace I v hv e σ ρ hw'.1 (fun p hp => ⟨(hc' p hp).1, fun s hs => ((hc' p hp).2 s hs).1⟩),
          evalList_xreplace I v hv es σ ρ hw'.2 (fun p hp => ⟨(hc' p hp).1, fun s hs => ((hc' p hp).2 s hs).2⟩)]
theorem evalBinders_xreplace (I : Interp) (v : Variant) (hv : v.sound) :
    ∀ (ixs : List (Sym × List Expr)) (σ : List (Sym × Expr)) (ρ : Env), noPsumBinders ixs = true →
      (∀ p ∈ σ, wfSums p.2 = true) →
      evalBinders I (xreplaceBinders v ixs σ) ρ = evalBinders I ixs (qEnv (evalPairs I σ ρ) ρ)
  | [], σ, ρ, _, _ => by simp [xreplaceBinders, evalBinders]
  | (i, pool) :: rest, σ, ρ, hn, hσ => by
      have hn' : noPsumList pool = true ∧ noPsumBinders rest = true := by simpa [noPsumBinders] using hn
      simp only [xreplaceBinders, evalBinders]
      rw [evalList_xreplace I v hv pool σ ρ (wfSumsList_of_noPsum pool hn'.1)
            (fun p hp => ⟨hσ p hp, by rw [boundList_of_noPsum pool hn'.1]; simp⟩),
          evalBinders_xreplace I v hv rest σ ρ hn'.2 hσ]
end

theorem lookupQ_append_single (c : List (Sym × Q)) (i : Sym) (q : Q) (s : Sym) :
    lookupQ (c ++ [(i, q)]) s = match lookupQ c s with
      | some r => some r
      | none => if s = i then some q else none := by
  induction c with
  | nil => simp [lookupQ]
  | cons p c ih =>
    obtain ⟨k, r⟩ := p
    by_cases h : s = k <;> simp [lookupQ, h, ih]

theorem qEnv_append_single (c : List (Sym × Q)) (i : Sym) (q : Q) (ρ : Env) :
    qEnv (c ++ [(i, q)]) ρ = qEnv c (upd ρ i q) := by
  funext s
  simp only [qEnv, lookupQ_append_single]
  cases lookupQ c s with
  | some r => rfl
  | none => by_cases h : s = i <;> simp [upd, h]

/-! ### `cleanup` -/

theorem qEnv_nil (ρ : Env) : qEnv [] ρ = ρ := by
  funext s; simp [qEnv, lookupQ]

theorem sum_map_const {α : Type} (l : List α) (c : Q) : (l.map (fun _ => c)).sum = (l.length : Q) * c := by
  induction l with
  | nil => simp
  | cons a l ih => simp [ih]; ring

theorem names_filter_subset {α : Type} (ixs : List (Sym × α)) (f : Sym × α → Bool) (i : Sym)
    (h : i ∉ names ixs) : i ∉ names (ixs.filter f) := by
  intro hm
  apply h
  simp only [names, List.mem_map] at hm ⊢
  obtain ⟨p, hp, rfl⟩ := hm
  exact ⟨p, (List.mem_filter.mp hp).1, rfl⟩

theorem not_mem_names_kept {α : Type} (fb : List Sym) (ixs : List (Sym × List α)) (i : Sym) (h : i ∉ names ixs) :
    i ∉ names (cleanupKept fb ixs) := by
  unfold cleanupKept cleanupUsed
  exact names_filter_subset _ _ i (names_filter_subset _ _ i h)

/-- the value of a pool sum, expressed through what `cleanup` keeps. -/
theorem evalSum_cleanup (fb : List Sym) (k : Env → Q)
    (hk : ∀ ρ1 ρ2 : Env, (∀ s ∈ fb, ρ1 s = ρ2 s) → k ρ1 = k ρ2) (ixs : List QBinder) :
    ∀ ρ : Env, (names ixs).Nodup → (∀ p ∈ ixs, p.2 ≠ []) →
      evalSum ixs ρ k
        = (cleanupMult fb ixs : Q) *
          evalSum (cleanupKept fb ixs) ρ (fun ρ' => k (qEnv (cleanupSingles fb ixs).reverse ρ')) := by
  induction ixs with
  | nil =>
    intro ρ _ _
    simp [evalSum, cleanupMult, cleanupKept, cleanupUsed, cleanupSingles, qEnv_nil]
  | cons p rest ih =>
    intro ρ hnd hne
    obtain ⟨i, pool⟩ := p
    have hi : i ∉ names rest := by
      rw [names_cons] at hnd; exact (List.nodup_cons.mp hnd).1
    have hrest : (names rest).Nodup := by
      rw [names_cons] at hnd; exact (List.nodup_cons.mp hnd).2
    have hne' : ∀ p ∈ rest, p.2 ≠ [] := fun p hp => hne p (List.mem_cons_of_mem _ hp)
    have hpool : pool ≠ [] := hne (i, pool) List.mem_cons_self
    by_cases hu : fb.contains i = true
    · -- the index occurs in the summand
      have hu : i ∈ fb := by simpa using hu
      match pool, hpool with
      | [q], _ =>
        have e1 : cleanupMult fb ((i, [q]) :: rest) = cleanupMult fb rest := by
          simp [cleanupMult, List.filter_cons, hu]
        have e2 : cleanupKept fb ((i, [q]) :: rest) = cleanupKept fb rest := by
          simp [cleanupKept, cleanupUsed, List.filter_cons, hu]
        have e3 : cleanupSingles fb ((i, [q]) :: rest) = (i, q) :: cleanupSingles fb rest := by
          simp [cleanupSingles, cleanupUsed, List.filter_cons, hu]
        rw [e1, e2, e3, List.reverse_cons]
        simp only [evalSum, List.map_cons, List.map_nil, List.sum_cons, List.sum_nil, add_zero]
        rw [ih (upd ρ i q) hrest hne', evalSum_upd_of_not_mem _ _ _ i q (not_mem_names_kept fb rest i hi)]
        congr 1
        apply evalSum_congr
        intro ρ'
        rw [qEnv_append_single]
      | q1 :: q2 :: tl, _ =>
        have e1 : cleanupMult fb ((i, q1 :: q2 :: tl) :: rest) = cleanupMult fb rest := by
          simp [cleanupMult, List.filter_cons, hu]
        have e2 : cleanupKept fb ((i, q1 :: q2 :: tl) :: rest) = (i, q1 :: q2 :: tl) :: cleanupKept fb rest := by
          simp [cleanupKept, cleanupUsed, List.filter_cons, hu]
        have e3 : cleanupSingles fb ((i, q1 :: q2 :: tl) :: rest) = cleanupSingles fb rest := by
          simp [cleanupSingles, cleanupUsed, List.filter_cons, hu]
        rw [e1, e2, e3]
        generalize q1 :: q2 :: tl = pl
        simp only [evalSum]
        rw [← List.sum_map_mul_left]
        congr 1
        apply List.map_congr_left
        intro q _
        exact ih (upd ρ i q) hrest hne'
    · -- the index does not occur in the summand: `cleanup` skips it
      have hif : i ∉ fb := by simpa using hu
      have hu' : i ∉ fb := hif
      have e1 : cleanupMult fb ((i, pool) :: rest) = pool.length * cleanupMult fb rest := by
        simp [cleanupMult, List.filter_cons, hu']
      have e2 : cleanupKept fb ((i, pool) :: rest) = cleanupKept fb rest := by
        simp [cleanupKept, cleanupUsed, List.filter_cons, hu']
      have e3 : cleanupSingles fb ((i, pool) :: rest) = cleanupSingles fb rest := by
        simp [cleanupSingles, cleanupUsed, List.filter_cons, hu']
      rw [e1, e2, e3]
      simp only [evalSum]
      have hconst : ∀ q : Q, evalSum rest (upd ρ i q) k = evalSum rest ρ k := by
        intro q
        apply evalSum_agree fb k hk rest
        intro s hs _
        have : s ≠ i := fun h => hif (h ▸ hs)
        exact upd_other _ _ this
      rw [List.map_congr_left (fun q _ => hconst q), sum_map_const, ih ρ hrest hne']
      push_cast
      ring

theorem cleanupMult_eq_one {α : Type} (fb : List Sym) (ixs : List (Sym × List α))
    (h : ∀ p ∈ ixs, p.1 ∉ fb → p.2.length = 1) : cleanupMult fb ixs = 1 := by
  induction ixs with
  | nil => simp [cleanupMult]
  | cons p rest ih =>
    have ihr := ih (fun p hp => h p (List.mem_cons_of_mem _ hp))
    unfold cleanupMult at ihr ⊢
    by_cases hu : p.1 ∈ fb
    · simp [List.filter_cons, hu] at ihr ⊢; exact ihr
    · have := h p List.mem_cons_self hu
      simp [List.filter_cons, hu, this] at ihr ⊢; exact ihr

/-! ### `cleanup` looks at the index symbols and the pool SIZES only: it commutes with evaluating the pools -/

theorem evalList_length (I : Interp) (es : List Expr) (ρ : Env) : (evalList I es ρ).length = es.length := by
  rw [evalList_eq_map]; simp

theorem cleanupMult_evalBinders (I : Interp) (fb : List Sym) (ρ : Env) :
    ∀ ixs : List Binder, cleanupMult fb (evalBinders I ixs ρ) = cleanupMult fb ixs
  | [] => by simp [evalBinders, cleanupMult]
  | (i, pool) :: rest => by
      have ih := cleanupMult_evalBinders I fb ρ rest
      unfold cleanupMult at ih ⊢
      simp only [evalBinders]
      by_cases hu : i ∈ fb
      · simp only [List.filter_cons, hu, List.contains_eq_mem, decide_true, Bool.not_true,
          Bool.false_eq_true, if_false]
        simpa using ih
      · simp only [List.filter_cons, hu, List.contains_eq_mem, decide_false, Bool.not_false,
          if_true, List.map_cons, List.foldr_cons, evalList_length]
        simp only [List.contains_eq_mem] at ih
        rw [ih]

theorem cleanupKept_evalBinders (I : Interp) (fb : List Sym) (ρ : Env) :
    ∀ ixs : List Binder, cleanupKept fb (evalBinders I ixs ρ) = evalBinders I (cleanupKept fb ixs) ρ
  | [] => by simp [evalBinders, cleanupKept, cleanupUsed]
  | (i, pool) :: rest => by
      have ih := cleanupKept_evalBinders I fb ρ rest
      unfold cleanupKept cleanupUsed at ih ⊢
      simp only [evalBinders]
      by_cases hu : fb.contains i = true
      · by_cases hl : (pool.length != 0 && pool.length != 1) = true
        · simp only [List.filter_cons, hu, if_true, evalList_length, hl, evalBinders]
          rw [ih]
        · simp only [List.filter_cons, hu, if_true, evalList_length, hl, Bool.false_eq_true, if_false]
          exact ih
      · simp only [List.filter_cons, hu, Bool.false_eq_true, if_false]
        exact ih

theorem cleanupSingles_evalBinders (I : Interp) (fb : List Sym) (ρ : Env) :
    ∀ ixs : List Binder, cleanupSingles fb (evalBinders I ixs ρ) = evalPairs I (cleanupSingles fb ixs) ρ
  | [] => by simp [evalBinders, cleanupSingles, cleanupUsed, evalPairs]
  | (i, pool) :: rest => by
      have ih := cleanupSingles_evalBinders I fb ρ rest
      unfold cleanupSingles cleanupUsed evalPairs at ih ⊢
      simp only [evalBinders]
      by_cases hu : fb.contains i = true
      · simp only [List.filter_cons, hu, if_true, List.filterMap_cons]
        match pool with
        | [] => simpa [evalList] using ih
        | [a] => simpa [evalList] using ih
        | a :: a' :: tl => simpa [evalList] using ih
      · simp only [List.filter_cons, hu, Bool.false_eq_true, if_false]
        exact ih

theorem evalBinders_nonempty (I : Interp) (ρ : Env) :
    ∀ ixs : List Binder, (∀ p ∈ ixs, p.2 ≠ []) → ∀ p ∈ evalBinders I ixs ρ, p.2 ≠ []
  | [], _, p, hp => by simp [evalBinders] at hp
  | (i, pool) :: rest, h, p, hp => by
      simp only [evalBinders, List.mem_cons] at hp
      rcases hp with hp | hp
      · subst hp
        have := h (i, pool) List.mem_cons_self
        cases pool with
        | nil => exact absurd rfl this
        | cons e es => simp [evalList]
      · exact evalBinders_nonempty I ρ rest (fun q hq => h q (List.mem_cons_of_mem _ hq)) p hp

/-- the values `cleanup` inserts are pool values. -/
theorem cleanupSingles_vals (fb : List Sym) :
    ∀ ixs : List Binder, noPsumBinders ixs = true →
      ∀ p ∈ cleanupSingles fb ixs, noPsum p.2 = true ∧ ∀ s ∈ syms p.2, s ∈ symsBinders ixs
  | [], _, p, hp => by simp [cleanupSingles, cleanupUsed] at hp
  | (i, pool) :: rest, hn, p, hp => by
      have hn' : noPsumList pool = true ∧ noPsumBinders rest = true := by simpa [noPsumBinders] using hn
      have ih := cleanupSingles_vals fb rest hn'.2 p
      unfold cleanupSingles cleanupUsed at ih hp
      by_cases hu : fb.contains i = true
      · simp only [List.filter_cons, hu, if_true, List.filterMap_cons] at hp
        match pool, hn'.1, hp with
        | [], _, hp =>
          have := ih (by simpa using hp)
          exact ⟨this.1, fun s hs => by simp only [symsBinders, List.mem_append]; exact Or.inr (this.2 s hs)⟩
        | [a], hna, hp =>
          simp only [List.mem_cons] at hp
          rcases hp with hp | hp
          · subst hp
            refine ⟨by simpa [noPsumList] using hna, ?_⟩
            intro s hs
            simp only [symsBinders, symsList, List.mem_append]
            exact Or.inl (Or.inl hs)
          · have := ih hp
            exact ⟨this.1, fun s hs => by simp only [symsBinders, List.mem_append]; exact Or.inr (this.2 s hs)⟩
        | _ :: _ :: _, _, hp =>
          have := ih (by simpa using hp)
          exact ⟨this.1, fun s hs => by simp only [symsBinders, List.mem_append]; exact Or.inr (this.2 s hs)⟩
      · simp only [List.filter_cons, hu, Bool.false_eq_true, if_false] at hp
        have := ih hp
        exact ⟨this.1, fun s hs => by simp only [symsBinders, List.mem_append]; exact Or.inr (this.2 s hs)⟩

end Ampverif.Lemmas.C18
