/-
Helper lemmas for C18: simultaneous replacement by rational literals, `PoolSum.cleanup`.
-/
import Ampverif.Lemmas.C18Sum

namespace Ampverif.Lemmas.C18
open Ampverif.Model

/-! ### `xreplace` with a map to rational literals -/

def lookupQ (c : List (Sym × Q)) (s : Sym) : Option Q :=
  match c with
  | [] => none
  | (k, q) :: rest => if s = k then some q else lookupQ rest s

/-- the environment after the simultaneous assignment `c` (first entry of a key wins). -/
def qEnv (c : List (Sym × Q)) (ρ : Env) : Env := fun s =>
  match lookupQ c s with
  | some q => q
  | none => ρ s

theorem lookup_litPairs (c : List (Sym × Q)) (s : Sym) :
    lookup (litPairs c) s = (lookupQ c s).map Expr.rat := by
  induction c with
  | nil => simp [litPairs, lookup, lookupQ]
  | cons p c ih =>
    obtain ⟨k, q⟩ := p
    by_cases h : s = k
    · simp [litPairs, lookup, lookupQ, h]
    · have ih' : lookup (List.map (fun p => (p.1, Expr.rat p.2)) c) s = (lookupQ c s).map Expr.rat := by
        simpa [litPairs] using ih
      simp [litPairs, lookup, lookupQ, h, ih']

theorem litPairs_filter (c : List (Sym × Q)) (f : Sym → Bool) :
    (litPairs c).filter (fun p => f p.1) = litPairs (c.filter (fun p => f p.1)) := by
  induction c with
  | nil => simp [litPairs]
  | cons p c ih =>
    have ih' : List.filter (fun p => f p.1) (List.map (fun p => (p.1, Expr.rat p.2)) c)
        = List.map (fun p => (p.1, Expr.rat p.2)) (List.filter (fun p => f p.1) c) := by
      simpa [litPairs] using ih
    by_cases h : f p.1 = true <;> simp [litPairs, List.filter_cons, h, ih']

theorem lookupQ_filter (c : List (Sym × Q)) (f : Sym → Bool) (s : Sym) :
    lookupQ (c.filter (fun p => f p.1)) s = if f s = true then lookupQ c s else none := by
  induction c with
  | nil => simp [lookupQ]
  | cons p c ih =>
    obtain ⟨k, q⟩ := p
    by_cases hk : f k = true
    · by_cases hs : s = k
      · subst hs; simp [List.filter_cons, hk, lookupQ]
      · simp [List.filter_cons, hk, lookupQ, hs, ih]
    · by_cases hs : s = k
      · subst hs; simp [List.filter_cons, hk, lookupQ, ih]
      · simp [List.filter_cons, hk, lookupQ, hs, ih]

theorem upd_qEnv (c : List (Sym × Q)) (ρ : Env) (i : Sym) (v : Q) :
    upd (qEnv c ρ) i v = qEnv (c.filter (fun p => !decide (p.1 = i))) (upd ρ i v) := by
  funext s
  have := lookupQ_filter c (fun k => !decide (k = i)) s
  by_cases h : s = i
  · subst h
    simp [upd, qEnv, this]
  · simp [upd, qEnv, this, h]

theorem filter_filter_names (c : List (Sym × Q)) (i : Sym) (rest : List Sym) :
    (c.filter (fun p => !decide (p.1 = i))).filter (fun p => !rest.contains p.1)
      = c.filter (fun p => !(i :: rest).contains p.1) := by
  rw [List.filter_filter]
  congr 1
  funext p
  by_cases h : p.1 = i <;> simp [h, List.contains_cons, Bool.and_comm]

theorem evalSum_qEnv (ixs : List Binder) :
    ∀ (c : List (Sym × Q)) (ρ : Env) (k : Env → Q),
      evalSum ixs (qEnv c ρ) k
        = evalSum ixs ρ (fun ρ' => k (qEnv (c.filter (fun p => !(names ixs).contains p.1)) ρ')) := by
  induction ixs with
  | nil => intro c ρ k; simp [evalSum, names]
  | cons p rest ih =>
    intro c ρ k
    obtain ⟨i, pool⟩ := p
    simp only [evalSum]
    congr 1
    apply List.map_congr_left
    intro v _
    rw [upd_qEnv, ih, filter_filter_names, names_cons]

mutual
theorem eval_xreplace_lit (I : Interp) (v : Variant) (hv : v.sound) :
    ∀ (e : Expr) (c : List (Sym × Q)) (ρ : Env),
      eval I (xreplace v e (litPairs c)) ρ = eval I e (qEnv c ρ)
  | .sym s, c, ρ => by
      simp only [xreplace, lookup_litPairs, eval, qEnv]
      cases lookupQ c s <;> simp [eval]
  | .rat r, c, ρ => by simp [xreplace, eval]
  | .add es, c, ρ => by simp [xreplace, eval, evalList_xreplace_lit I v hv es c ρ]
  | .mul es, c, ρ => by simp [xreplace, eval, evalList_xreplace_lit I v hv es c ρ]
  | .pow b n, c, ρ => by simp [xreplace, eval, eval_xreplace_lit I v hv b c ρ]
  | .app f es, c, ρ => by simp [xreplace, eval, evalList_xreplace_lit I v hv es c ρ]
  | .node cl es t, c, ρ => by
      have hr : v.getArgsRecursive = false := hv.1
      simp [xreplace, eval, hr, evalList_xreplace_lit I v hv es c ρ]
  | .psum b ixs, c, ρ => by
      have hp : v.poolSumProtectsBound = true := hv.2
      simp only [xreplace, hp, if_true, eval]
      rw [evalSum_qEnv, litPairs_filter c (fun s => !(names ixs).contains s)]
      apply evalSum_congr
      intro ρ'
      exact eval_xreplace_lit I v hv b _ ρ'
  | .idx f es, c, ρ => by simp [xreplace, eval, evalList_xreplace_lit I v hv es c ρ]
theorem evalList_xreplace_lit (I : Interp) (v : Variant) (hv : v.sound) :
    ∀ (es : List Expr) (c : List (Sym × Q)) (ρ : Env),
      evalList I (xreplaceList v es (litPairs c)) ρ = evalList I es (qEnv c ρ)
  | [], c, ρ => by simp [xreplaceList, evalList]
  | e :: es, c, ρ => by
      simp [xreplaceList, evalList, eval_xreplace_lit I v hv e c ρ, evalList_xreplace_lit I v hv es c ρ]
end

theorem lookupQ_append_single (c : List (Sym × Q)) (i : Sym) (q : Q) (s : Sym) :
    lookupQ (c ++ [(i, q)]) s = match lookupQ c s with
      | some r => some r
      | none => if s = i then some q else none := by
  induction c with
  | nil => simp [lookupQ]
  | cons p c ih =>
    obtain ⟨k, r⟩ := p
    by_cases h : s = k <;> simp [lookupQ, h, ih]

theorem qEnv_append_single (c : List (Sym × Q)) (i : Sym) (q : Q) (ρ : Env) :
    qEnv (c ++ [(i, q)]) ρ = qEnv c (upd ρ i q) := by
  funext s
  simp only [qEnv, lookupQ_append_single]
  cases lookupQ c s with
  | some r => rfl
  | none => by_cases h : s = i <;> simp [upd, h]

/-! ### `cleanup` -/

theorem qEnv_nil (ρ : Env) : qEnv [] ρ = ρ := by
  funext s; simp [qEnv, lookupQ]

theorem sum_map_const {α : Type} (l : List α) (c : Q) : (l.map (fun _ => c)).sum = (l.length : Q) * c := by
  induction l with
  | nil => simp
  | cons a l ih => simp [ih]; ring

theorem names_filter_subset (ixs : List Binder) (f : Binder → Bool) (i : Sym)
    (h : i ∉ names ixs) : i ∉ names (ixs.filter f) := by
  intro hm
  apply h
  simp only [names, List.mem_map] at hm ⊢
  obtain ⟨p, hp, rfl⟩ := hm
  exact ⟨p, (List.mem_filter.mp hp).1, rfl⟩

theorem not_mem_names_kept (fb : List Sym) (ixs : List Binder) (i : Sym) (h : i ∉ names ixs) :
    i ∉ names (cleanupKept fb ixs) := by
  unfold cleanupKept cleanupUsed
  exact names_filter_subset _ _ i (names_filter_subset _ _ i h)

/-- the value of a pool sum, expressed through what `cleanup` keeps. -/
theorem evalSum_cleanup (fb : List Sym) (k : Env → Q)
    (hk : ∀ ρ1 ρ2 : Env, (∀ s ∈ fb, ρ1 s = ρ2 s) → k ρ1 = k ρ2) (ixs : List Binder) :
    ∀ ρ : Env, (names ixs).Nodup → (∀ p ∈ ixs, p.2 ≠ []) →
      evalSum ixs ρ k
        = (cleanupMult fb ixs : Q) *
          evalSum (cleanupKept fb ixs) ρ (fun ρ' => k (qEnv (cleanupSingles fb ixs).reverse ρ')) := by
  induction ixs with
  | nil =>
    intro ρ _ _
    simp [evalSum, cleanupMult, cleanupKept, cleanupUsed, cleanupSingles, qEnv_nil]
  | cons p rest ih =>
    intro ρ hnd hne
    obtain ⟨i, pool⟩ := p
    have hi : i ∉ names rest := by
      rw [names_cons] at hnd; exact (List.nodup_cons.mp hnd).1
    have hrest : (names rest).Nodup := by
      rw [names_cons] at hnd; exact (List.nodup_cons.mp hnd).2
    have hne' : ∀ p ∈ rest, p.2 ≠ [] := fun p hp => hne p (List.mem_cons_of_mem _ hp)
    have hpool : pool ≠ [] := hne (i, pool) List.mem_cons_self
    by_cases hu : fb.contains i = true
    · -- the index occurs in the summand
      have hu : i ∈ fb := by simpa using hu
      match pool, hpool with
      | [q], _ =>
        have e1 : cleanupMult fb ((i, [q]) :: rest) = cleanupMult fb rest := by
          simp [cleanupMult, List.filter_cons, hu]
        have e2 : cleanupKept fb ((i, [q]) :: rest) = cleanupKept fb rest := by
          simp [cleanupKept, cleanupUsed, List.filter_cons, hu]
        have e3 : cleanupSingles fb ((i, [q]) :: rest) = (i, q) :: cleanupSingles fb rest := by
          simp [cleanupSingles, cleanupUsed, List.filter_cons, hu]
        rw [e1, e2, e3, List.reverse_cons]
        simp only [evalSum, List.map_cons, List.map_nil, List.sum_cons, List.sum_nil, add_zero]
        rw [ih (upd ρ i q) hrest hne', evalSum_upd_of_not_mem _ _ _ i q (not_mem_names_kept fb rest i hi)]
        congr 1
        apply evalSum_congr
        intro ρ'
        rw [qEnv_append_single]
      | q1 :: q2 :: tl, _ =>
        have e1 : cleanupMult fb ((i, q1 :: q2 :: tl) :: rest) = cleanupMult fb rest := by
          simp [cleanupMult, List.filter_cons, hu]
        have e2 : cleanupKept fb ((i, q1 :: q2 :: tl) :: rest) = (i, q1 :: q2 :: tl) :: cleanupKept fb rest := by
          simp [cleanupKept, cleanupUsed, List.filter_cons, hu]
        have e3 : cleanupSingles fb ((i, q1 :: q2 :: tl) :: rest) = cleanupSingles fb rest := by
          simp [cleanupSingles, cleanupUsed, List.filter_cons, hu]
        rw [e1, e2, e3]
        generalize q1 :: q2 :: tl = pl
        simp only [evalSum]
        rw [← List.sum_map_mul_left]
        congr 1
        apply List.map_congr_left
        intro q _
        exact ih (upd ρ i q) hrest hne'
    · -- the index does not occur in the summand: `cleanup` skips it
      have hif : i ∉ fb := by simpa using hu
      have hu' : i ∉ fb := hif
      have e1 : cleanupMult fb ((i, pool) :: rest) = pool.length * cleanupMult fb rest := by
        simp [cleanupMult, List.filter_cons, hu']
      have e2 : cleanupKept fb ((i, pool) :: rest) = cleanupKept fb rest := by
        simp [cleanupKept, cleanupUsed, List.filter_cons, hu']
      have e3 : cleanupSingles fb ((i, pool) :: rest) = cleanupSingles fb rest := by
        simp [cleanupSingles, cleanupUsed, List.filter_cons, hu']
      rw [e1, e2, e3]
      simp only [evalSum]
      have hconst : ∀ q : Q, evalSum rest (upd ρ i q) k = evalSum rest ρ k := by
        intro q
        apply evalSum_agree fb k hk rest
        intro s hs _
        have : s ≠ i := fun h => hif (h ▸ hs)
        exact upd_other _ _ this
      rw [List.map_congr_left (fun q _ => hconst q), sum_map_const, ih ρ hrest hne']
      push_cast
      ring

theorem cleanupMult_eq_one (fb : List Sym) (ixs : List Binder)
    (h : ∀ p ∈ ixs, p.1 ∉ fb → p.2.length = 1) : cleanupMult fb ixs = 1 := by
  induction ixs with
  | nil => simp [cleanupMult]
  | cons p rest ih =>
    have ihr := ih (fun p hp => h p (List.mem_cons_of_mem _ hp))
    unfold cleanupMult at ihr ⊢
    by_cases hu : p.1 ∈ fb
    · simp [List.filter_cons, hu] at ihr ⊢; exact ihr
    · have := h p List.mem_cons_self hu
      simp [List.filter_cons, hu, this] at ihr ⊢; exact ihr

end Ampverif.Lemmas.C18
