/-
C03 — lemmas about the three-switch prefactor rule of `Model/C03ParityRule.lean`: under the sound
rule the factor is a product over the NODES of the chain (a list homomorphism: multiplicities count).
-/
import Ampverif.Lemmas.C03Parity
import Ampverif.Model.C03ParityRule
import Mathlib.Tactic.Ring

namespace Ampverif.Lemmas.C03Parity
open Ampverif.Model.C03

/-- with `perNode = true` the three-switch rule is the two-switch rule of `Model/C03Parity.lean`. -/
theorem prefactorR_perNode (r : Rule) (h : r.perNode = true) (f : Flags) (m : Mapping) (c : Chain) :
    prefactorR r f m c = prefactor r.v f m c := by
  unfold prefactorR
  simp [h]

theorem prefactorValR_sound (r : Rule) (hs : r.sound) (f : Flags) (m : Mapping) (c : Chain) :
    prefactorValR r f m c = flippedProduct f m c := by
  obtain ⟨hv, hp⟩ := hs
  unfold prefactorValR
  rw [prefactorR_perNode r hp]
  exact prefactorVal_sound r.v hv f m c

/-- the factor one node contributes. -/
def nodeFactor (f : Flags) (m : Mapping) (n : Node) : Int := if isFlipped f m n then etaVal n else 1

theorem flippedProduct_cons (f : Flags) (m : Mapping) (n : Node) (c : Chain) :
    flippedProduct f m (n :: c) = nodeFactor f m n * flippedProduct f m c := rfl

/-- the product is over the list of nodes: it is multiplicative under concatenation. -/
theorem flippedProduct_append (f : Flags) (m : Mapping) :
    ∀ c₁ c₂ : Chain, flippedProduct f m (c₁ ++ c₂) = flippedProduct f m c₁ * flippedProduct f m c₂
  | [], c₂ => by simp [flippedProduct]
  | n :: rest, c₂ => by
    rw [List.cons_append, flippedProduct_cons, flippedProduct_cons, flippedProduct_append f m rest c₂]
    ring

/-- a node that occurs `k` times contributes its factor `k` times. -/
theorem flippedProduct_replicate (f : Flags) (m : Mapping) (n : Node) :
    ∀ k : Nat, flippedProduct f m (List.replicate k n) = nodeFactor f m n ^ k
  | 0 => by simp [flippedProduct]
  | k + 1 => by
    rw [List.replicate_succ, flippedProduct_cons, flippedProduct_replicate f m n k]
    ring

end Ampverif.Lemmas.C03Parity
