/-
C04, layer (K), part 6 — the second child of a node. In the parent's rest frame the two children
are back to back; the source builds the frames of a decaying second (opposite-helicity) child from
ITS OWN direction `−v`. `hframe_neg`: `h(−v) = h(v)·Ry(π)·Rz(π)`; `second_child_angle`: if the first
child's frame turns by `Rz(−δ)` under a global rotation, the second child's turns by `Rz(+δ)`.
-/
import Ampverif.Lemmas.C04Rest
namespace Ampverif.Lemmas.C04
open Matrix Ampverif.Gen.C04

theorem nrm_neg (v : Fin 3 → ℝ) : nrm (-v) = nrm v := by
  unfold nrm; simp

theorem thetaOf_neg (v : Fin 3 → ℝ) : thetaOf (-v) = Real.pi - thetaOf v := by
  have hn : Real.sqrt ((-v) 0 ^ 2 + (-v) 1 ^ 2 + (-v) 2 ^ 2) = Real.sqrt (v 0 ^ 2 + v 1 ^ 2 + v 2 ^ 2) := by
    simp
  unfold thetaOf ThetaOf
  rw [hn, ← Real.arccos_neg]
  simp

theorem Rz3_phiOf_neg (v : Fin 3 → ℝ) (hxy : 0 < v 0 ^ 2 + v 1 ^ 2) :
    Rz3 (phiOf (-v)) = Rz3 (phiOf v + Real.pi) := by
  have h0 : (⟨v 0, v 1⟩ : ℂ) ≠ 0 := by
    intro h
    have hx : v 0 = 0 := by simpa using congrArg Complex.re h
    have hy : v 1 = 0 := by simpa using congrArg Complex.im h
    rw [hx, hy] at hxy; simp at hxy
  have h0' : (⟨-v 0, -v 1⟩ : ℂ) ≠ 0 := by
    intro h
    have hx : -v 0 = 0 := by simpa using congrArg Complex.re h
    have hy : -v 1 = 0 := by simpa using congrArg Complex.im h
    apply h0
    rw [show v 0 = 0 by linarith, show v 1 = 0 by linarith]; rfl
  have hρ : Real.sqrt ((-v 0) ^ 2 + (-v 1) ^ 2) = Real.sqrt (v 0 ^ 2 + v 1 ^ 2) := by simp
  apply Rz3_congr
  · rw [Real.cos_add, Real.cos_pi, Real.sin_pi]
    unfold phiOf PhiOf
    simp only [Pi.neg_apply]
    rw [Complex.cos_arg h0', Complex.cos_arg h0, rho_eq, rho_eq, hρ]
    ring
  · rw [Real.sin_add, Real.cos_pi, Real.sin_pi]
    unfold phiOf PhiOf
    simp only [Pi.neg_apply]
    rw [Complex.sin_arg, Complex.sin_arg, rho_eq, rho_eq, hρ]
    ring

theorem Rz_pi_Ry (θ : ℝ) : Rz3 Real.pi * Ry3 (Real.pi - θ) = Ry3 (θ + Real.pi) * Rz3 Real.pi := by
  ext i j
  fin_cases i <;> fin_cases j <;>
    simp [Rz3, Ry3, Matrix.mul_apply, Fin.sum_univ_three, Real.cos_pi_sub, Real.sin_pi_sub,
      Real.cos_add, Real.sin_add]

/-- the frame of the opposite direction: `h(−v) = h(v) · Ry(π) · Rz(π)` (v off the z axis) -/
theorem hframe_neg (v : Fin 3 → ℝ) (hxy : 0 < v 0 ^ 2 + v 1 ^ 2) :
    hframe (phiOf (-v)) (thetaOf (-v)) = hframe (phiOf v) (thetaOf v) * Ry3 Real.pi * Rz3 Real.pi := by
  rw [hframe, hframe, thetaOf_neg, Rz3_phiOf_neg v hxy, ← Rz3_add, Matrix.mul_assoc, Rz_pi_Ry,
    ← Ry3_add]
  simp only [Matrix.mul_assoc]

/-- Two back-to-back subsystems (the two children of a node in the parent's rest frame): if the
frame of the first turns by `Rz(−δ)` under a global rotation, the frame of the second turns by
`Rz(+δ)`, i.e. its subtree sees the rotation `Rz(−δ)`. -/
theorem second_child_angle {R : Matrix (Fin 3) (Fin 3) ℝ} (hR : IsRot R) (v : Fin 3 → ℝ)
    (hxy : 0 < v 0 ^ 2 + v 1 ^ 2) (hxy' : 0 < (R *ᵥ v) 0 ^ 2 + (R *ᵥ v) 1 ^ 2) (δ δ₂ : ℝ)
    (h1 : hframe (phiOf (R *ᵥ v)) (thetaOf (R *ᵥ v)) = R * hframe (phiOf v) (thetaOf v) * Rz3 (-δ))
    (h2 : hframe (phiOf (R *ᵥ (-v))) (thetaOf (R *ᵥ (-v)))
        = R * hframe (phiOf (-v)) (thetaOf (-v)) * Rz3 (-δ₂)) :
    Rz3 δ₂ = Rz3 (-δ) := by
  rw [Matrix.mulVec_neg, hframe_neg (R *ᵥ v) hxy', hframe_neg v hxy, h1] at h2
  have r := hframe_isRot (phiOf v) (thetaOf v)
  generalize hframe (phiOf v) (thetaOf v) = H at h2 r
  -- cancel R and H on the left
  have cancel : ∀ (Q : Matrix (Fin 3) (Fin 3) ℝ), IsRot Q → ∀ X Y : Matrix (Fin 3) (Fin 3) ℝ,
      Q * X = Q * Y → X = Y := by
    intro Q hQ X Y h
    have := congrArg (fun Z => Qᵀ * Z) h
    simpa [← Matrix.mul_assoc, hQ.1] using this
  have hcancel : Rz3 (-δ) * Ry3 Real.pi * Rz3 Real.pi = Ry3 Real.pi * Rz3 Real.pi * Rz3 (-δ₂) := by
    simp only [Matrix.mul_assoc] at h2
    have h3 := cancel H r _ _ (cancel R hR _ _ h2)
    simpa only [Matrix.mul_assoc] using h3
  -- Ry(π) Rz(a) = Rz(−a) Ry(π)
  have hflip : ∀ a : ℝ, Ry3 Real.pi * Rz3 a = Rz3 (-a) * Ry3 Real.pi := by
    intro a
    ext i j
    fin_cases i <;> fin_cases j <;>
      simp [Rz3, Ry3, Matrix.mul_apply, Fin.sum_univ_three]
  have e : Ry3 Real.pi * (Rz3 (δ + Real.pi)) = Ry3 Real.pi * Rz3 (Real.pi - δ₂) := by
    have l : Rz3 (-δ) * Ry3 Real.pi * Rz3 Real.pi = Ry3 Real.pi * Rz3 (δ + Real.pi) := by
      rw [← Rz3_add, ← Matrix.mul_assoc, hflip δ]
    have rr : Ry3 Real.pi * Rz3 Real.pi * Rz3 (-δ₂) = Ry3 Real.pi * Rz3 (Real.pi - δ₂) := by
      rw [Matrix.mul_assoc, Rz3_add, sub_eq_add_neg]
    rw [← l, ← rr, hcancel]
  have e2 : Rz3 (δ + Real.pi) = Rz3 (Real.pi - δ₂) := by
    have := congrArg (fun X => (Ry3 Real.pi)ᵀ * X) e
    simpa [← Matrix.mul_assoc, (Ry3_isRot Real.pi).1] using this
  have : Rz3 (-δ) * Rz3 (δ + Real.pi) * Rz3 (δ₂ - Real.pi) = Rz3 (-δ) * Rz3 (Real.pi - δ₂) * Rz3 (δ₂ - Real.pi) := by
    rw [e2]
  rw [Rz3_add, Rz3_add, Rz3_add, Rz3_add] at this
  rw [show -δ + (δ + Real.pi) + (δ₂ - Real.pi) = δ₂ by ring,
    show -δ + (Real.pi - δ₂) + (δ₂ - Real.pi) = -δ by ring] at this
  exact this
end Ampverif.Lemmas.C04
