/-
C04, layer (A), arbitrary decay trees. Spins and projections are doubled integers
(`twoJ : ℕ`, projections `∈ projs twoJ = {−twoJ, −twoJ+2, …, twoJ}`); a `RepFamily` is an abstract
family of representations of the proper rotations with integer-indexed entries, for the spins it
declares `ok` (hypotheses, not axioms; an SO(3) family can only provide integer spins). `amp` is the
helicity amplitude of the source for a tree with fixed final-state helicities, `Rotated R` is what a
global rotation does to the helicity frames (layer (K): `frames_covariance`, `hframe_Rz3`,
`second_child_angle`). `amp_rotated`: transformation law at every depth; `intensity_rotated`: the
unpolarised intensity of a coherent sum over any finite set of topologies is invariant.
-/
import Ampverif.Lemmas.C04Rep
import Mathlib.Algebra.BigOperators.Intervals

namespace Ampverif.Lemmas.C04
open Matrix

/-- doubled projections of a doubled spin -/
noncomputable def projs (twoJ : ℕ) : Finset ℤ := (Finset.Icc (-(twoJ : ℤ)) twoJ).filter fun m => (m + twoJ) % 2 = 0

theorem projs_zero : projs 0 = {0} := by
  ext m
  simp only [projs, Finset.mem_filter, Finset.mem_Icc, Finset.mem_singleton]
  constructor
  · rintro ⟨⟨h1, h2⟩, _⟩
    have h1' : (0 : ℤ) ≤ m := by simpa using h1
    have h2' : m ≤ 0 := by simpa using h2
    omega
  · rintro rfl; simp

/-- `e^{i x}` -/
noncomputable def eI (x : ℝ) : ℂ := Complex.exp ((x : ℂ) * Complex.I)

theorem eI_add (x y : ℝ) : eI x * eI y = eI (x + y) := by
  rw [eI, eI, eI, ← Complex.exp_add]; congr 1; push_cast; ring

theorem eI_zero : eI 0 = 1 := by simp [eI]

theorem star_eI (x : ℝ) : star (eI x) = eI (-x) := by
  rw [eI, eI, Complex.star_def, ← Complex.exp_conj]
  congr 1
  simp [Complex.conj_ofReal]

/-- abstract family of integer-spin representations with integer-indexed entries -/
structure RepFamily where
  /-- the (doubled) spins the family provides -/
  ok : ℕ → Prop
  D : ℕ → Matrix (Fin 3) (Fin 3) ℝ → ℤ → ℤ → ℂ
  support : ∀ j R m m', (m ∉ projs j ∨ m' ∉ projs j) → D j R m m' = 0
  mul : ∀ j, ok j → ∀ R S, IsRot R → IsRot S → ∀ m m',
    D j (R * S) m m' = ∑ k ∈ projs j, D j R m k * D j S k m'
  unitary : ∀ j, ok j → ∀ R, IsRot R → ∀ m ∈ projs j, ∀ m' ∈ projs j,
    ∑ k ∈ projs j, star (D j R k m) * D j R k m' = if m = m' then 1 else 0
  diag : ∀ j, ok j → ∀ (δ : ℝ), ∀ m ∈ projs j, ∀ m' ∈ projs j,
    D j (Rz3 δ) m m' = if m = m' then eI (-((m : ℝ) / 2 * δ)) else 0
  scalar : ∀ R, IsRot R → D 0 R 0 0 = 1

namespace RepFamily
variable (F : RepFamily)

theorem mul_Rz (j : ℕ) (hj : F.ok j) (S : Matrix (Fin 3) (Fin 3) ℝ) (hS : IsRot S) (a : ℝ) (m μ : ℤ) :
    F.D j (S * Rz3 a) m μ = F.D j S m μ * eI (-((μ : ℝ) / 2 * a)) := by
  rw [F.mul j hj S (Rz3 a) hS (Rz3_isRot a)]
  by_cases hμ : μ ∈ projs j
  · rw [Finset.sum_eq_single μ]
    · rw [F.diag j hj a μ hμ μ hμ, if_pos rfl]
    · intro k hk hne
      rw [F.diag j hj a k hk μ hμ, if_neg hne, mul_zero]
    · intro h; exact absurd hμ h
  · rw [F.support j S m μ (Or.inr hμ), zero_mul]
    apply Finset.sum_eq_zero
    intro k _
    rw [F.support j (Rz3 a) k μ (Or.inr hμ), mul_zero]

theorem Rz_entry (j : ℕ) (hj : F.ok j) (a : ℝ) (l k : ℤ) (hl : l ∈ projs j) (hk : k ∈ projs j) :
    F.D j (Rz3 a) l k = if l = k then eI (-((l : ℝ) / 2 * a)) else 0 := F.diag j hj a l hl k hk

end RepFamily

/-- decay tree with fixed final-state helicities; `H` collects couplings and dynamics -/
inductive Tree where
  | leaf (twoJ : ℕ) (twoLam : ℤ)
  | node (twoJ : ℕ) (H : ℤ → ℤ → ℂ) (c₁ c₂ : Tree)

/-- the helicity frames of an event, one per decay node (relative to the parent's frame) -/
inductive Frames where
  | leaf
  | node (h : Matrix (Fin 3) (Fin 3) ℝ) (f₁ f₂ : Frames)

def Tree.twoSpin : Tree → ℕ
  | .leaf j _ => j
  | .node j _ _ _ => j

def Tree.spinlessLeaves : Tree → Prop
  | .leaf j _ => j = 0
  | .node _ _ c₁ c₂ => c₁.spinlessLeaves ∧ c₂.spinlessLeaves

/-- every spin of the tree is provided by the family -/
def Tree.spinsOk (F : RepFamily) : Tree → Prop
  | .leaf j _ => F.ok j
  | .node j _ c₁ c₂ => F.ok j ∧ c₁.spinsOk F ∧ c₂.spinsOk F

/-- the helicity amplitude of the source: `Σ conj D^J_{m, λ₁−λ₂}(h) · H · A¹_{λ₁} · A²_{λ₂}` -/
noncomputable def amp (F : RepFamily) : Tree → Frames → ℤ → ℂ
  | .leaf _ l, _, m => if m = l then 1 else 0
  | .node j H c₁ c₂, .node h f₁ f₂, m =>
      ∑ l₁ ∈ projs c₁.twoSpin, ∑ l₂ ∈ projs c₂.twoSpin,
        star (F.D j h m (l₁ - l₂)) * H l₁ l₂ * amp F c₁ f₁ l₁ * amp F c₂ f₂ l₂
  | .node _ _ _ _, .leaf, _ => 0

inductive Rotated : Matrix (Fin 3) (Fin 3) ℝ → Frames → Frames → Prop where
  | leaf (R) : Rotated R .leaf .leaf
  | node (R h) (f₁ f₂ f₁' f₂' : Frames) (δ : ℝ) : IsRot h → Rotated (Rz3 δ) f₁ f₁' →
      Rotated (Rz3 (-δ)) f₂ f₂' → Rotated R (.node h f₁ f₂) (.node (R * h * Rz3 (-δ)) f₁' f₂')

/-- the transformation law, all depths -/
theorem amp_rotated (F : RepFamily) : ∀ (t : Tree), t.spinsOk F → t.spinlessLeaves →
    ∀ (R : Matrix (Fin 3) (Fin 3) ℝ) (f f' : Frames), IsRot R → Rotated R f f' →
    ∀ m ∈ projs t.twoSpin,
      amp F t f' m = ∑ m' ∈ projs t.twoSpin, star (F.D t.twoSpin R m m') * amp F t f m' := by
  intro t
  induction t with
  | leaf j l =>
    intro _ hs R f f' hR _ m hm
    simp only [Tree.spinlessLeaves] at hs
    subst hs
    simp only [Tree.twoSpin, projs_zero, Finset.mem_singleton] at hm ⊢
    subst hm
    by_cases hl : l = 0
    · subst hl; simp [amp, F.scalar R hR]
    · simp [amp, hl, Ne.symm hl]
  | node j H c₁ c₂ ih₁ ih₂ =>
    intro hi hs R f f' hR hrot m hm
    obtain ⟨hj, hi₁, hi₂⟩ := hi
    obtain ⟨hs₁, hs₂⟩ := hs
    cases hrot with
    | leaf => simp [amp]
    | node _ h f₁ f₂ f₁' f₂' δ hh hr₁ hr₂ =>
      simp only [Tree.twoSpin] at hm ⊢
      -- children: only a phase
      have hc₁ : ∀ l ∈ projs c₁.twoSpin, amp F c₁ f₁' l = eI ((l : ℝ) / 2 * δ) * amp F c₁ f₁ l := by
        intro l hl
        rw [ih₁ hi₁ hs₁ (Rz3 δ) f₁ f₁' (Rz3_isRot δ) hr₁ l hl, Finset.sum_eq_single l]
        · have he : F.ok c₁.twoSpin := by cases c₁ <;> simp_all [Tree.spinsOk, Tree.twoSpin]
          rw [F.Rz_entry _ he δ l l hl hl, if_pos rfl, star_eI, neg_neg]
        · intro k hk hne
          have he : F.ok c₁.twoSpin := by cases c₁ <;> simp_all [Tree.spinsOk, Tree.twoSpin]
          rw [F.Rz_entry _ he δ l k hl hk, if_neg (Ne.symm hne), star_zero, zero_mul]
        · intro h; exact absurd hl h
      have hc₂ : ∀ l ∈ projs c₂.twoSpin, amp F c₂ f₂' l = eI (-((l : ℝ) / 2 * δ)) * amp F c₂ f₂ l := by
        intro l hl
        rw [ih₂ hi₂ hs₂ (Rz3 (-δ)) f₂ f₂' (Rz3_isRot _) hr₂ l hl, Finset.sum_eq_single l]
        · have he : F.ok c₂.twoSpin := by cases c₂ <;> simp_all [Tree.spinsOk, Tree.twoSpin]
          rw [F.Rz_entry _ he (-δ) l l hl hl, if_pos rfl, star_eI]
          congr 2; ring
        · intro k hk hne
          have he : F.ok c₂.twoSpin := by cases c₂ <;> simp_all [Tree.spinsOk, Tree.twoSpin]
          rw [F.Rz_entry _ he (-δ) l k hl hk, if_neg (Ne.symm hne), star_zero, zero_mul]
        · intro h; exact absurd hl h
      -- the node's own D-function
      have hD : ∀ μ : ℤ, F.D j (R * h * Rz3 (-δ)) m μ
          = (∑ m' ∈ projs j, F.D j R m m' * F.D j h m' μ) * eI ((μ : ℝ) / 2 * δ) := by
        intro μ
        rw [F.mul_Rz j hj (R * h) (hR.mul hh) (-δ) m μ, F.mul j hj R h hR hh]
        congr 2; ring
      simp only [amp]
      have key : ∀ l₁ ∈ projs c₁.twoSpin, ∀ l₂ ∈ projs c₂.twoSpin,
          star (F.D j (R * h * Rz3 (-δ)) m (l₁ - l₂)) * H l₁ l₂ * amp F c₁ f₁' l₁ * amp F c₂ f₂' l₂
          = ∑ m' ∈ projs j, star (F.D j R m m')
              * (star (F.D j h m' (l₁ - l₂)) * H l₁ l₂ * amp F c₁ f₁ l₁ * amp F c₂ f₂ l₂) := by
        intro l₁ h₁ l₂ h₂
        rw [hD, hc₁ l₁ h₁, hc₂ l₂ h₂, star_mul', star_eI, star_sum]
        have hp : eI (-(((l₁ - l₂ : ℤ) : ℝ) / 2 * δ)) * eI ((l₁ : ℝ) / 2 * δ) * eI (-((l₂ : ℝ) / 2 * δ)) = 1 := by
          rw [eI_add, eI_add, ← eI_zero]; congr 1; push_cast; ring
        calc (∑ m' ∈ projs j, star (F.D j R m m' * F.D j h m' (l₁ - l₂))) * eI (-(((l₁ - l₂ : ℤ) : ℝ) / 2 * δ))
              * H l₁ l₂ * (eI ((l₁ : ℝ) / 2 * δ) * amp F c₁ f₁ l₁) * (eI (-((l₂ : ℝ) / 2 * δ)) * amp F c₂ f₂ l₂)
            = (eI (-(((l₁ - l₂ : ℤ) : ℝ) / 2 * δ)) * eI ((l₁ : ℝ) / 2 * δ) * eI (-((l₂ : ℝ) / 2 * δ)))
              * ((∑ m' ∈ projs j, star (F.D j R m m' * F.D j h m' (l₁ - l₂)))
                  * (H l₁ l₂ * amp F c₁ f₁ l₁ * amp F c₂ f₂ l₂)) := by ring
          _ = _ := by
            rw [hp, one_mul, Finset.sum_mul]
            refine Finset.sum_congr rfl fun m' _ => ?_
            rw [star_mul']; ring
      rw [Finset.sum_congr rfl fun l₁ h₁ => Finset.sum_congr rfl fun l₂ h₂ => key l₁ h₁ l₂ h₂]
      simp_rw [Finset.mul_sum]
      conv_rhs => rw [Finset.sum_comm]
      refine Finset.sum_congr rfl fun l₁ _ => ?_
      exact Finset.sum_comm


/-- unitary change of a finitely supported vector keeps `Σ |a_m|²` (index set a `Finset ℤ`) -/
theorem normSq_sum_unitary (S : Finset ℤ) (U : ℤ → ℤ → ℂ)
    (hU : ∀ m ∈ S, ∀ m' ∈ S, ∑ k ∈ S, star (U k m) * U k m' = if m = m' then 1 else 0)
    (a a' : ℤ → ℂ) (h : ∀ m ∈ S, a' m = ∑ m' ∈ S, star (U m m') * a m') :
    ∑ m ∈ S, Complex.normSq (a' m) = ∑ m ∈ S, Complex.normSq (a m) := by
  have cast : ∀ b : ℤ → ℂ, ((∑ m ∈ S, Complex.normSq (b m) : ℝ) : ℂ) = ∑ m ∈ S, star (b m) * b m := by
    intro b
    rw [Complex.ofReal_sum]
    refine Finset.sum_congr rfl fun m _ => ?_
    rw [Complex.star_def, mul_comm, Complex.mul_conj]
  have hC : ((∑ m ∈ S, Complex.normSq (a' m) : ℝ) : ℂ) = ((∑ m ∈ S, Complex.normSq (a m) : ℝ) : ℂ) := by
    rw [cast, cast]
    have e1 : ∀ m ∈ S, star (a' m) * a' m
        = ∑ m' ∈ S, ∑ m'' ∈ S, (star (U m m'') * U m m') * (star (a m') * a m'') := by
      intro m hm
      rw [h m hm, star_sum, Finset.sum_mul_sum]
      refine Finset.sum_congr rfl fun m' _ => Finset.sum_congr rfl fun m'' _ => ?_
      rw [star_mul', star_star]; ring
    rw [Finset.sum_congr rfl e1, Finset.sum_comm]
    refine Finset.sum_congr rfl fun m' hm' => ?_
    rw [Finset.sum_comm]
    have e2 : ∀ m'' ∈ S, ∑ m ∈ S, (star (U m m'') * U m m') * (star (a m') * a m'')
        = (if m'' = m' then 1 else 0) * (star (a m') * a m'') := by
      intro m'' hm''
      rw [← Finset.sum_mul, hU m'' hm'' m' hm']
    rw [Finset.sum_congr rfl e2]
    simp only [ite_mul, one_mul, zero_mul]
    rw [Finset.sum_ite_eq' S m']
    simp [hm']
  exact_mod_cast hC

/-- FULL STATEMENT, integer spins, spinless final states, any finite set of topologies with
arbitrary trees: the unpolarised intensity of the coherent sum is rotation invariant. -/
theorem intensity_rotated (F : RepFamily) (T : Type) [Fintype T] (tree : T → Tree) (c : T → ℂ)
    (fr fr' : T → Frames) (R : Matrix (Fin 3) (Fin 3) ℝ) (twoJ : ℕ) (hJ : F.ok twoJ) (hR : IsRot R)
    (ht : ∀ t, (tree t).twoSpin = twoJ ∧ (tree t).spinsOk F ∧ (tree t).spinlessLeaves)
    (hrot : ∀ t, Rotated R (fr t) (fr' t)) :
    ∑ m ∈ projs twoJ, Complex.normSq (∑ t, c t * amp F (tree t) (fr' t) m)
      = ∑ m ∈ projs twoJ, Complex.normSq (∑ t, c t * amp F (tree t) (fr t) m) := by
  apply normSq_sum_unitary (projs twoJ) (F.D twoJ R) (F.unitary twoJ hJ R hR)
  intro m hm
  have e : ∀ t, amp F (tree t) (fr' t) m
      = ∑ m' ∈ projs twoJ, star (F.D twoJ R m m') * amp F (tree t) (fr t) m' := by
    intro t
    obtain ⟨h1, h2, h3⟩ := ht t
    have := amp_rotated F (tree t) h2 h3 R (fr t) (fr' t) hR (hrot t) m (by rw [h1]; exact hm)
    rw [h1] at this
    exact this
  simp_rw [e, Finset.mul_sum]
  rw [Finset.sum_comm]
  refine Finset.sum_congr rfl fun m' _ => Finset.sum_congr rfl fun t _ => ?_
  ring

end Ampverif.Lemmas.C04
