/-
C04 — the kinematic lemmas packaged over momentum trees.

`MTree` is an isobar tree whose leaves carry the final-state four-momenta of an event;
`framesOf L t` follows `compute_helicity_angles` (sound convention: the angles of a node are
those of its FIRST child, the helicity state): with all momenta of the subtree `t` read in the
frame `L`, the node's production frame is `h(L·P₁)`, and the children's subtrees are read in
`helframe(L·P₁)·L` resp. `helframe(L·P₂)·L` — exactly the `ArrayMultiplication(BoostZ, RotY, RotZ, ·)`
pools of the source (`Model/C04Frames.lean` descriptors `amul (Bz (beta S)) (Ry …) (Rz …)`).

`rotated_event_frames`: for EVERY tree and event, ALL helicity frames (hence all helicity angles)
of the globally rotated event are those of the original event, except
  * the root frame, `h ↦ R·h·Rz(−δ)`, and
  * the first frame below the root in each child subtree, `h₁ ↦ Rz(δ)·h₁` resp. `h₂ ↦ Rz(−δ)·h₂`
    (polar angle unchanged, azimuth shifted by ±δ);
every deeper frame is IDENTICAL (`Frames.shift` changes the top frame only).
`rotated_of_event`: this is the relation `Rotated R` of the algebraic layer.
-/
import Ampverif.Lemmas.C04Opposite
import Ampverif.Lemmas.C04Tree

namespace Ampverif.Lemmas.C04
open Matrix Ampverif.Gen.C04

/-- isobar tree with the final-state four-momenta at the leaves -/
inductive MTree where
  | leaf (p : Fin 4 → ℝ)
  | node (c₁ c₂ : MTree)

/-- total four-momentum of a subtree -/
def MTree.mom : MTree → Fin 4 → ℝ
  | .leaf p => p
  | .node c₁ c₂ => c₁.mom + c₂.mom

/-- a 3-vector is off the z axis -/
def offAxis (v : Fin 3 → ℝ) : Prop := 0 < v 0 ^ 2 + v 1 ^ 2

/-- the helicity frames of the event `t` whose momenta are read in the frame `L` -/
noncomputable def framesOf (L : Matrix (Fin 4) (Fin 4) ℝ) : MTree → Frames
  | .leaf _ => .leaf
  | .node c₁ c₂ =>
      .node (hframe (phiOf (sp (L *ᵥ c₁.mom))) (thetaOf (sp (L *ᵥ c₁.mom))))
        (framesOf (helframe (L *ᵥ c₁.mom) * L) c₁)
        (framesOf (helframe (L *ᵥ c₂.mom) * L) c₂)

/-- rotate the top frame of a subtree by `Rz δ`, leave everything below untouched -/
noncomputable def Frames.shift (δ : ℝ) : Frames → Frames
  | .leaf => .leaf
  | .node h f₁ f₂ => .node (Rz3 δ * h) f₁ f₂

/-- the subsystems of the two children of the top node of `c` (read in `L`) are off the z axis -/
def topOffAxis (L : Matrix (Fin 4) (Fin 4) ℝ) : MTree → Prop
  | .leaf _ => True
  | .node d₁ d₂ => offAxis (sp (L *ᵥ d₁.mom)) ∧ offAxis (sp (L *ᵥ d₂.mom))

/-- matrix form of `helframe_Rz` -/
theorem helframe_Rz_mat (δ : ℝ) (S : Fin 4 → ℝ) (hxy : offAxis (sp S)) :
    helframe (RotZ δ *ᵥ S) * RotZ δ = helframe S := by
  rw [Matrix.ext_iff_mulVec]
  intro q
  rw [← Matrix.mulVec_mulVec]
  exact helframe_Rz δ S hxy q

/-- matrix form of `frames_covariance` -/
theorem frames_covariance_mat {R : Matrix (Fin 3) (Fin 3) ℝ} (hR : IsRot R) (P : Fin 4 → ℝ)
    (hP : 0 < nrm (sp P)) :
    ∃ δ : ℝ,
      hframe (phiOf (sp (emb R *ᵥ P))) (thetaOf (sp (emb R *ᵥ P)))
          = R * hframe (phiOf (sp P)) (thetaOf (sp P)) * Rz3 (-δ) ∧
      helframe (emb R *ᵥ P) * emb R = RotZ δ * helframe P := by
  obtain ⟨δ, h1, h2⟩ := frames_covariance hR P hP
  refine ⟨δ, h1, ?_⟩
  rw [Matrix.ext_iff_mulVec]
  intro q
  rw [← Matrix.mulVec_mulVec, ← Matrix.mulVec_mulVec]
  exact h2 q

/-- one level below a rotation about z: the top frame turns, everything deeper is identical -/
theorem framesOf_Rz (δ : ℝ) (L : Matrix (Fin 4) (Fin 4) ℝ) (c : MTree) (hc : topOffAxis L c) :
    framesOf (RotZ δ * L) c = (framesOf L c).shift δ := by
  cases c with
  | leaf p => rfl
  | node d₁ d₂ =>
    obtain ⟨h1, h2⟩ := hc
    simp only [framesOf, Frames.shift]
    have e1 : (RotZ δ * L) *ᵥ d₁.mom = RotZ δ *ᵥ (L *ᵥ d₁.mom) := (Matrix.mulVec_mulVec _ _ _).symm
    have e2 : (RotZ δ * L) *ᵥ d₂.mom = RotZ δ *ᵥ (L *ᵥ d₂.mom) := (Matrix.mulVec_mulVec _ _ _).symm
    rw [e1, e2, ← Matrix.mul_assoc, ← Matrix.mul_assoc, helframe_Rz_mat δ _ h1, helframe_Rz_mat δ _ h2]
    congr 1
    rw [RotZ_eq, sp_emb_mulVec]
    exact hframe_Rz3 δ _ h1

/-- ALL helicity frames of the rotated event in terms of those of the original event.
`L` is the frame in which the node is at rest (`hrest`: the children are back to back); for the
initial state `L = 1`. Guards: non-zero child momenta, the first child's direction off the z axis
before and after the rotation, the grandchildren's subsystems off the z axis of their frames. -/
theorem rotated_event_frames {R : Matrix (Fin 3) (Fin 3) ℝ} (hR : IsRot R)
    (L : Matrix (Fin 4) (Fin 4) ℝ) (c₁ c₂ : MTree)
    (hP : 0 < nrm (sp (L *ᵥ c₁.mom)))
    (hrest : sp (L *ᵥ c₂.mom) = -sp (L *ᵥ c₁.mom))
    (hoff : offAxis (sp (L *ᵥ c₁.mom))) (hoff' : offAxis (R *ᵥ sp (L *ᵥ c₁.mom)))
    (h1 : topOffAxis (helframe (L *ᵥ c₁.mom) * L) c₁)
    (h2 : topOffAxis (helframe (L *ᵥ c₂.mom) * L) c₂) :
    ∃ δ : ℝ, framesOf (emb R * L) (.node c₁ c₂)
      = .node (R * hframe (phiOf (sp (L *ᵥ c₁.mom))) (thetaOf (sp (L *ᵥ c₁.mom))) * Rz3 (-δ))
          ((framesOf (helframe (L *ᵥ c₁.mom) * L) c₁).shift δ)
          ((framesOf (helframe (L *ᵥ c₂.mom) * L) c₂).shift (-δ)) := by
  have hP2 : 0 < nrm (sp (L *ᵥ c₂.mom)) := by rw [hrest, nrm_neg]; exact hP
  obtain ⟨δ, hδ, hm⟩ := frames_covariance_mat hR (L *ᵥ c₁.mom) hP
  obtain ⟨δ₂, hδ₂, hm₂⟩ := frames_covariance_mat hR (L *ᵥ c₂.mom) hP2
  -- the second child's frame turns the other way
  have hsign : Rz3 δ₂ = Rz3 (-δ) := by
    have a1 := hδ
    have a2 := hδ₂
    rw [sp_emb_mulVec] at a1 a2
    rw [hrest] at a2
    exact second_child_angle hR _ hoff hoff' δ δ₂ a1 a2
  refine ⟨δ, ?_⟩
  have e1 : (emb R * L) *ᵥ c₁.mom = emb R *ᵥ (L *ᵥ c₁.mom) := (Matrix.mulVec_mulVec _ _ _).symm
  have e2 : (emb R * L) *ᵥ c₂.mom = emb R *ᵥ (L *ᵥ c₂.mom) := (Matrix.mulVec_mulVec _ _ _).symm
  have q1 : helframe (emb R *ᵥ (L *ᵥ c₁.mom)) * (emb R * L) = RotZ δ * (helframe (L *ᵥ c₁.mom) * L) := by
    rw [← Matrix.mul_assoc, hm, Matrix.mul_assoc]
  have q2 : helframe (emb R *ᵥ (L *ᵥ c₂.mom)) * (emb R * L) = RotZ (-δ) * (helframe (L *ᵥ c₂.mom) * L) := by
    rw [← Matrix.mul_assoc, hm₂, RotZ_eq δ₂, hsign, ← RotZ_eq, Matrix.mul_assoc]
  simp only [framesOf]
  rw [e1, e2, hδ, q1, q2, framesOf_Rz δ _ c₁ h1, framesOf_Rz (-δ) _ c₂ h2]

/-! ### this is the relation `Rotated` of the algebraic layer -/

/-- every frame of the collection is a proper rotation -/
def Frames.wf : Frames → Prop
  | .leaf => True
  | .node h f₁ f₂ => IsRot h ∧ f₁.wf ∧ f₂.wf

theorem framesOf_wf : ∀ (t : MTree) (L : Matrix (Fin 4) (Fin 4) ℝ), (framesOf L t).wf
  | .leaf _, _ => trivial
  | .node c₁ c₂, _ => ⟨hframe_isRot _ _, framesOf_wf c₁ _, framesOf_wf c₂ _⟩

theorem Rotated.refl_zero : ∀ f : Frames, f.wf → Rotated (Rz3 0) f f
  | .leaf, _ => Rotated.leaf _
  | .node h f₁ f₂, ⟨hh, w1, w2⟩ => by
    have := Rotated.node (Rz3 0) h f₁ f₂ f₁ f₂ 0 hh (Rotated.refl_zero f₁ w1)
      (by rw [neg_zero]; exact Rotated.refl_zero f₂ w2)
    have e : Rz3 0 * h * Rz3 (-0) = h := by rw [neg_zero, Rz3_zero, Matrix.one_mul, Matrix.mul_one]
    rw [e] at this
    exact this

theorem rotated_shift (δ : ℝ) : ∀ f : Frames, f.wf → Rotated (Rz3 δ) f (f.shift δ)
  | .leaf, _ => Rotated.leaf _
  | .node h f₁ f₂, ⟨hh, w1, w2⟩ => by
    have := Rotated.node (Rz3 δ) h f₁ f₂ f₁ f₂ 0 hh (Rotated.refl_zero f₁ w1)
      (by rw [neg_zero]; exact Rotated.refl_zero f₂ w2)
    have e : Rz3 δ * h * Rz3 (-0) = Rz3 δ * h := by rw [neg_zero, Rz3_zero, Matrix.mul_one]
    rw [e] at this
    exact this

/-- the frames of the rotated event stand in the relation `Rotated R` to those of the event -/
theorem rotated_of_event {R : Matrix (Fin 3) (Fin 3) ℝ} (hR : IsRot R)
    (L : Matrix (Fin 4) (Fin 4) ℝ) (c₁ c₂ : MTree)
    (hP : 0 < nrm (sp (L *ᵥ c₁.mom)))
    (hrest : sp (L *ᵥ c₂.mom) = -sp (L *ᵥ c₁.mom))
    (hoff : offAxis (sp (L *ᵥ c₁.mom))) (hoff' : offAxis (R *ᵥ sp (L *ᵥ c₁.mom)))
    (h1 : topOffAxis (helframe (L *ᵥ c₁.mom) * L) c₁)
    (h2 : topOffAxis (helframe (L *ᵥ c₂.mom) * L) c₂) :
    Rotated R (framesOf L (.node c₁ c₂)) (framesOf (emb R * L) (.node c₁ c₂)) := by
  obtain ⟨δ, hδ⟩ := rotated_event_frames hR L c₁ c₂ hP hrest hoff hoff' h1 h2
  rw [hδ]
  exact Rotated.node R _ _ _ _ _ δ (hframe_isRot _ _) (rotated_shift δ _ (framesOf_wf _ _))
    (rotated_shift (-δ) _ (framesOf_wf _ _))

/-- guards of the event theorems for an event given in the rest frame of the decaying state:
children back to back with non-zero momentum, the first child's direction off the z axis before
and after the rotation, and in each child's helicity frame the grandchildren's subsystems off the
z axis (the sets where `Phi` is discontinuous). -/
def EventOK (R : Matrix (Fin 3) (Fin 3) ℝ) (c₁ c₂ : MTree) : Prop :=
  0 < nrm (sp c₁.mom) ∧ sp c₂.mom = -sp c₁.mom ∧ offAxis (sp c₁.mom) ∧ offAxis (R *ᵥ sp c₁.mom) ∧
    topOffAxis (helframe c₁.mom) c₁ ∧ topOffAxis (helframe c₂.mom) c₂

theorem rotated_of_event_at_rest {R : Matrix (Fin 3) (Fin 3) ℝ} (hR : IsRot R) (c₁ c₂ : MTree)
    (h : EventOK R c₁ c₂) :
    Rotated R (framesOf 1 (.node c₁ c₂)) (framesOf (emb R) (.node c₁ c₂)) := by
  obtain ⟨a, b, c, d, e, f⟩ := h
  have := rotated_of_event hR 1 c₁ c₂ (by simpa using a) (by simpa using b) (by simpa using c)
    (by simpa using d) (by simpa using e) (by simpa using f)
  simpa using this

end Ampverif.Lemmas.C04
