/-
Helper lemmas for C11, equal masses `m1 = m2 = m`: the Chew–Mandelstam function in the regions
`s > 4m²` and `s < 0` expressed through `ρ̂ = PhaseSpaceFactorAbs s m m`, and the pure algebra
behind the identities `ρ_eq = ρ_CM`.
-/
import Ampverif.Lemmas.C11CM
import Mathlib.Tactic.LinearCombination
import Mathlib.Analysis.SpecialFunctions.Trigonometric.Arctan

namespace Ampverif.Lemmas.C11
open Ampverif.Gen.C11

theorem q2_equal {s : ℝ} (hs : s ≠ 0) (m : ℝ) :
    BreakupMomentumSquared s m m = (s - 4 * m ^ 2) / 4 := by
  rw [q2_eq]; field_simp; ring

/-- pure algebra behind the region `s > 4m²` (`a = √s`, `b = √q²`) -/
theorem key_above {a b m : ℝ} (ha : 0 < a) (hb : 0 < b) (hm : 0 < m)
    (hrel : 4 * b ^ 2 = a ^ 2 - 4 * m ^ 2) :
    2 * a⁻¹ * b < 1 ∧
      (1 / 2) * m⁻¹ * m⁻¹ * (m ^ 2 + m ^ 2 - a ^ 2 + 2 * a * b)
        = -((1 - 2 * a⁻¹ * b) / (1 + 2 * a⁻¹ * b)) := by
  have h2 : 2 * b < a := by nlinarith [sq_nonneg (a - 2 * b), mul_pos hm hm]
  constructor
  · rw [mul_assoc, mul_comm a⁻¹, ← div_eq_mul_inv, mul_div_assoc']
    rw [div_lt_one ha]; exact h2
  · have h3 : 1 + 2 * a⁻¹ * b ≠ 0 := by positivity
    field_simp
    linear_combination (a) * hrel

/-- pure algebra behind the region `s < 0` (`a = √(-s)`, `b = √(-q²)`) -/
theorem key_neg {a b m : ℝ} (ha : 0 < a) (hb : 0 < b) (hm : 0 < m)
    (hrel : 4 * b ^ 2 = a ^ 2 + 4 * m ^ 2) :
    1 < 2 * a⁻¹ * b ∧
      (1 / 2) * m⁻¹ * m⁻¹ * (m ^ 2 + m ^ 2 + a ^ 2 - 2 * a * b)
        = (2 * a⁻¹ * b - 1) / (2 * a⁻¹ * b + 1) := by
  have h2 : a < 2 * b := by nlinarith [sq_nonneg (a - 2 * b), mul_pos hm hm]
  constructor
  · rw [mul_assoc, mul_comm a⁻¹, ← div_eq_mul_inv, mul_div_assoc']
    rw [one_lt_div ha]; exact h2
  · have h3 : 2 * a⁻¹ * b + 1 ≠ 0 := by positivity
    field_simp
    linear_combination (-a) * hrel

/-- `ρ̂ ∈ (0,1)` and the Chew–Mandelstam function for `s > 4m²`, equal masses. -/
theorem cm_equal_above {s m : ℝ} (hm : 0 < m) (h : 4 * m ^ 2 < s) :
    0 < PhaseSpaceFactorAbs s m m ∧ PhaseSpaceFactorAbs s m m < 1 ∧
    chewMandelstamSWave s m m
      = ((Real.pi⁻¹ : ℝ) : ℂ) * (((PhaseSpaceFactorAbs s m m : ℝ) : ℂ)
          * (((Real.log ((1 - PhaseSpaceFactorAbs s m m) / (1 + PhaseSpaceFactorAbs s m m)) : ℝ) : ℂ)
              + (Real.pi : ℂ) * Complex.I)) := by
  have hthr : (m + m) ^ 2 < s := by nlinarith
  obtain ⟨hs, hq⟩ := above_pos hm.le hm.le hthr
  have ha : 0 < Real.sqrt s := Real.sqrt_pos.mpr hs
  have hb : 0 < Real.sqrt (BreakupMomentumSquared s m m) := Real.sqrt_pos.mpr hq
  have hrel : 4 * Real.sqrt (BreakupMomentumSquared s m m) ^ 2 = Real.sqrt s ^ 2 - 4 * m ^ 2 := by
    rw [Real.sq_sqrt hq.le, Real.sq_sqrt hs.le, q2_equal hs.ne']; ring
  obtain ⟨hlt, hkey⟩ := key_above ha hb hm hrel
  have hrho : PhaseSpaceFactorAbs s m m
      = 2 * (Real.sqrt s)⁻¹ * Real.sqrt (BreakupMomentumSquared s m m) := by
    unfold PhaseSpaceFactorAbs; rw [abs_of_pos hs, abs_of_pos hq]
  have hw : cmArgAbove s m m
      = -((1 - PhaseSpaceFactorAbs s m m) / (1 + PhaseSpaceFactorAbs s m m)) := by
    rw [hrho, ← hkey]; unfold cmArgAbove; rw [Real.sq_sqrt hs.le]
  have hright : cmRight s m m = 0 := by unfold cmRight; ring
  refine ⟨by rw [hrho]; positivity, by rw [hrho]; exact hlt, ?_⟩
  rw [cm_above hm hm hthr, hw, hright, ← hrho, neg_neg]
  push_cast; ring

/-- `ρ̂ > 1` and the Chew–Mandelstam function for `s < 0`, equal masses: both roots are
`i·√(-·)`, the argument of the logarithm is the positive real `(ρ̂-1)/(ρ̂+1)`. -/
theorem cm_equal_neg {s m : ℝ} (hm : 0 < m) (hs : s < 0) :
    1 < PhaseSpaceFactorAbs s m m ∧
    chewMandelstamSWave s m m
      = ((Real.pi⁻¹ : ℝ) : ℂ) * (((PhaseSpaceFactorAbs s m m : ℝ) : ℂ)
          * ((Real.log ((PhaseSpaceFactorAbs s m m - 1) / (PhaseSpaceFactorAbs s m m + 1)) : ℝ) : ℂ)) := by
  have hq : BreakupMomentumSquared s m m < 0 := by
    rw [q2_equal hs.ne]; nlinarith [mul_pos hm hm]
  have hs' : (0 : ℝ) ≤ -s := by linarith
  have hq' : (0 : ℝ) ≤ -BreakupMomentumSquared s m m := by linarith
  have ha : 0 < Real.sqrt (-s) := Real.sqrt_pos.mpr (by linarith)
  have hb : 0 < Real.sqrt (-BreakupMomentumSquared s m m) := Real.sqrt_pos.mpr (by linarith)
  have hrel : 4 * Real.sqrt (-BreakupMomentumSquared s m m) ^ 2 = Real.sqrt (-s) ^ 2 + 4 * m ^ 2 := by
    rw [Real.sq_sqrt hq', Real.sq_sqrt hs', q2_equal hs.ne]; ring
  obtain ⟨hgt, hkey⟩ := key_neg ha hb hm hrel
  have hrho : PhaseSpaceFactorAbs s m m
      = 2 * (Real.sqrt (-s))⁻¹ * Real.sqrt (-BreakupMomentumSquared s m m) := by
    unfold PhaseSpaceFactorAbs; rw [abs_of_neg hs, abs_of_neg hq]
  refine ⟨by rw [hrho]; exact hgt, ?_⟩
  rw [hrho, ← hkey]
  have hwpos : 0 < (1 / 2) * m⁻¹ * m⁻¹ * (m ^ 2 + m ^ 2 + Real.sqrt (-s) ^ 2
      - 2 * Real.sqrt (-s) * Real.sqrt (-BreakupMomentumSquared s m m)) := by
    rw [hkey]; apply div_pos <;> linarith
  rw [← clog_ofReal_of_pos hwpos]
  unfold chewMandelstamSWave
  rw [csqrt_ofReal_of_neg hs, ComplexSqrt_of_neg hq]
  have hI : Complex.I ≠ 0 := Complex.I_ne_zero
  have ha' : ((Real.sqrt (-s) : ℝ) : ℂ) ≠ 0 := by exact_mod_cast ha.ne'
  have hzero : ((((m ^ 2) + ((-1 : ℝ) * (m ^ 2))) : ℝ) : ℂ) = 0 := by push_cast; ring
  rw [hzero, Real.sq_sqrt hs']
  have harg : ((((1 : ℝ) / 2 : ℝ) : ℂ) * (((m)⁻¹ : ℝ) : ℂ) * (((m)⁻¹ : ℝ) : ℂ) *
      ((((m ^ 2) : ℝ) : ℂ) + (((m ^ 2) : ℝ) : ℂ) + ((((-1 : ℝ) * s) : ℝ) : ℂ) +
        ((((2 : ℝ) : ℝ) : ℂ) * (Complex.I * ((Real.sqrt (-s) : ℝ) : ℂ)) *
          (Complex.I * ((Real.sqrt (-BreakupMomentumSquared s m m) : ℝ) : ℂ)))))
      = (((1 / 2) * m⁻¹ * m⁻¹ * (m ^ 2 + m ^ 2 + -s
          - 2 * Real.sqrt (-s) * Real.sqrt (-BreakupMomentumSquared s m m)) : ℝ) : ℂ) := by
    push_cast
    linear_combination ((1 / 2 : ℂ) * (m : ℂ)⁻¹ * (m : ℂ)⁻¹ * 2 * ((Real.sqrt (-s) : ℝ) : ℂ)
      * ((Real.sqrt (-BreakupMomentumSquared s m m) : ℝ) : ℂ)) * Complex.I_sq
  rw [harg]
  push_cast
  field_simp
  ring

/-- `sin(2·arctan t) = 2t/(1+t²)`, `cos(2·arctan t) = 2/(1+t²) - 1` -/
theorem sin_two_arctan (t : ℝ) : Real.sin (2 * Real.arctan t) = 2 * t / (1 + t ^ 2) := by
  have hpos : 0 < 1 + t ^ 2 := by positivity
  rw [Real.sin_two_mul, Real.sin_arctan, Real.cos_arctan]
  have h : Real.sqrt (1 + t ^ 2) * Real.sqrt (1 + t ^ 2) = 1 + t ^ 2 := Real.mul_self_sqrt hpos.le
  have hne : Real.sqrt (1 + t ^ 2) ≠ 0 := (Real.sqrt_pos.mpr hpos).ne'
  field_simp
  rw [Real.sq_sqrt hpos.le]

theorem cos_two_arctan (t : ℝ) : Real.cos (2 * Real.arctan t) = 2 / (1 + t ^ 2) - 1 := by
  rw [Real.cos_two_mul, Real.cos_sq_arctan]; ring

/-- pure algebra/trigonometry behind the region `0 < s < 4m²` (`a = √s`, `b = √(-q²)`):
the argument of the Chew–Mandelstam logarithm is the unit complex number `exp(2i·arctan(1/ρ̂))`. -/
theorem key_sub {a b m : ℝ} (ha : 0 < a) (hb : 0 < b) (hm : 0 < m)
    (hrel : 4 * b ^ 2 = 4 * m ^ 2 - a ^ 2) :
    (((1 / 2) * m⁻¹ * m⁻¹ * (m ^ 2 + m ^ 2 - a ^ 2) : ℝ) : ℂ)
        + (((1 / 2) * m⁻¹ * m⁻¹ * (2 * a * b) : ℝ) : ℂ) * Complex.I
      = Complex.exp (((2 * Real.arctan (2 * a⁻¹ * b)⁻¹ : ℝ) : ℂ) * Complex.I) := by
  have ht : (2 * a⁻¹ * b)⁻¹ = a / (2 * b) := by field_simp
  have h1 : 1 + (a / (2 * b)) ^ 2 = m ^ 2 / b ^ 2 := by
    field_simp
    linear_combination hrel
  apply Complex.ext
  · rw [Complex.exp_ofReal_mul_I_re, cos_two_arctan, ht, h1, Complex.add_re, Complex.ofReal_re,
      Complex.re_ofReal_mul, Complex.I_re, mul_zero, add_zero]
    field_simp
    linear_combination (-1 : ℝ) * hrel
  · rw [Complex.exp_ofReal_mul_I_im, sin_two_arctan, ht, h1, Complex.add_im, Complex.ofReal_im,
      Complex.im_ofReal_mul, Complex.I_im, mul_one, zero_add]
    field_simp

/-- `ρ̂ > 0` and the Chew–Mandelstam function for `0 < s < 4m²`, equal masses. -/
theorem cm_equal_sub {s m : ℝ} (hm : 0 < m) (hs : 0 < s) (h : s < 4 * m ^ 2) :
    0 < PhaseSpaceFactorAbs s m m ∧
    chewMandelstamSWave s m m
      = ((Real.pi⁻¹ : ℝ) : ℂ) * ((Complex.I * ((PhaseSpaceFactorAbs s m m : ℝ) : ℂ))
          * (((2 * Real.arctan (PhaseSpaceFactorAbs s m m)⁻¹ : ℝ) : ℂ) * Complex.I)) := by
  have hq : BreakupMomentumSquared s m m < 0 := by rw [q2_equal hs.ne']; linarith
  have hq' : (0 : ℝ) ≤ -BreakupMomentumSquared s m m := by linarith
  have ha : 0 < Real.sqrt s := Real.sqrt_pos.mpr hs
  have hb : 0 < Real.sqrt (-BreakupMomentumSquared s m m) := Real.sqrt_pos.mpr (by linarith)
  have hrel : 4 * Real.sqrt (-BreakupMomentumSquared s m m) ^ 2 = 4 * m ^ 2 - Real.sqrt s ^ 2 := by
    rw [Real.sq_sqrt hq', Real.sq_sqrt hs.le, q2_equal hs.ne']; ring
  have hkey := key_sub ha hb hm hrel
  have hrho : PhaseSpaceFactorAbs s m m
      = 2 * (Real.sqrt s)⁻¹ * Real.sqrt (-BreakupMomentumSquared s m m) := by
    unfold PhaseSpaceFactorAbs; rw [abs_of_pos hs, abs_of_neg hq]
  refine ⟨by rw [hrho]; positivity, ?_⟩
  have hα0 : 0 < Real.arctan (2 * (Real.sqrt s)⁻¹ * Real.sqrt (-BreakupMomentumSquared s m m))⁻¹ :=
    Real.arctan_pos.mpr (by positivity)
  have hα1 := Real.arctan_lt_pi_div_two (2 * (Real.sqrt s)⁻¹ * Real.sqrt (-BreakupMomentumSquared s m m))⁻¹
  rw [hrho]
  set α := Real.arctan (2 * (Real.sqrt s)⁻¹ * Real.sqrt (-BreakupMomentumSquared s m m))⁻¹ with hα
  have hlog : Complex.log (Complex.exp (((2 * α : ℝ) : ℂ) * Complex.I)) = ((2 * α : ℝ) : ℂ) * Complex.I := by
    apply Complex.log_exp
    · rw [Complex.im_ofReal_mul, Complex.I_im]; linarith [Real.pi_pos]
    · rw [Complex.im_ofReal_mul, Complex.I_im]; linarith
  rw [← hlog, ← hkey]
  unfold chewMandelstamSWave
  rw [csqrt_ofReal_of_nonneg hs.le, ComplexSqrt_of_neg hq]
  have hzero : ((((m ^ 2) + ((-1 : ℝ) * (m ^ 2))) : ℝ) : ℂ) = 0 := by push_cast; ring
  rw [hzero, Real.sq_sqrt hs.le]
  have harg : ((((1 : ℝ) / 2 : ℝ) : ℂ) * (((m)⁻¹ : ℝ) : ℂ) * (((m)⁻¹ : ℝ) : ℂ) *
      ((((m ^ 2) : ℝ) : ℂ) + (((m ^ 2) : ℝ) : ℂ) + ((((-1 : ℝ) * s) : ℝ) : ℂ) +
        ((((2 : ℝ) : ℝ) : ℂ) * ((Real.sqrt s : ℝ) : ℂ) *
          (Complex.I * ((Real.sqrt (-BreakupMomentumSquared s m m) : ℝ) : ℂ)))))
      = (((1 / 2) * m⁻¹ * m⁻¹ * (m ^ 2 + m ^ 2 - s) : ℝ) : ℂ)
        + (((1 / 2) * m⁻¹ * m⁻¹ * (2 * Real.sqrt s * Real.sqrt (-BreakupMomentumSquared s m m)) : ℝ) : ℂ)
            * Complex.I := by
    push_cast; ring
  rw [harg]
  push_cast
  ring


end Ampverif.Lemmas.C11
