/-
C03 — lemmas about the parity-partner registration loop and the prefactor rule of
`Model/C03Parity.lean`.
-/
import Ampverif.Model.C03Parity
import Mathlib.Tactic.Ring

namespace Ampverif.Lemmas.C03Parity
open Ampverif.Model.C03

/-! ### dict lemmas -/

theorem get?_set (m : Mapping) (k v q : String) :
    (m.set k v).get? q = if k = q then some v else m.get? q := by
  induction m with
  | nil =>
    simp [Mapping.set, Mapping.get?]
  | cons ab rest ih =>
    obtain ⟨a, b⟩ := ab
    unfold Mapping.set
    by_cases hak : a = k
    · subst hak
      simp only [if_true]
      unfold Mapping.get?
      by_cases haq : a = q <;> simp [haq]
    · simp only [hak, if_false]
      unfold Mapping.get?
      by_cases haq : a = q
      · have : ¬ k = q := fun h => hak (h ▸ haq)
        simp [haq, this]
      · simp only [haq, if_false]
        exact ih

theorem has_iff (m : Mapping) (k : String) : m.has k = true ↔ ∃ v, m.get? k = some v := by
  unfold Mapping.has
  cases m.get? k <;> simp

theorem mapped_ne (m : Mapping) (k : String) (h : m.mapped k ≠ k) :
    m.get? k = some (m.mapped k) := by
  unfold Mapping.mapped at *
  cases hg : m.get? k with
  | none => simp [hg] at h
  | some v => simp

/-! ### the invariant of the registration loop -/

/-- Well-formedness of the names of a reaction (decidable: `partnerInjective`). -/
def WF (f : Flags) (nodes : List Node) : Prop :=
  (∀ a ∈ nodes, ∀ b ∈ nodes, ppSuffix a = ppSuffix b →
      (∃ c ∈ nodes, rawSuffix f c = ppSuffix a) → rawSuffix f a = rawSuffix f b)
  ∧ (∀ a ∈ nodes, ∀ b ∈ nodes, rawSuffix f a = ppSuffix b → ppSuffix a = rawSuffix f b)

theorem wf_of_check (f : Flags) (nodes : List Node) (h : partnerInjective f nodes = true) :
    WF f nodes := by
  unfold partnerInjective at h
  rw [List.all_eq_true] at h
  constructor
  · intro a ha b hb hpp hc
    have := (List.all_eq_true.mp (h a ha)) b hb
    simp only [Bool.and_eq_true, Bool.or_eq_true, Bool.not_eq_true', beq_iff_eq] at this
    rcases this.1 with (h1 | h1) | h1
    · simp [hpp] at h1
    · obtain ⟨c, hcm, hcr⟩ := hc
      have : (nodes.any fun c => rawSuffix f c == ppSuffix a) = true :=
        List.any_eq_true.mpr ⟨c, hcm, by simp [hcr]⟩
      rw [this] at h1; cases h1
    · exact h1
  · intro a ha b hb hr
    have := (List.all_eq_true.mp (h a ha)) b hb
    simp only [Bool.and_eq_true, Bool.or_eq_true, Bool.not_eq_true', beq_iff_eq] at this
    rcases this.2 with h1 | h1
    · simp [hr] at h1
    · exact h1

/-- keys are own suffixes of nodes; every non-trivial entry maps a node's own suffix to that
node's partner suffix. -/
def Inv (f : Flags) (nodes : List Node) (m : Mapping) : Prop :=
  (∀ k v, m.get? k = some v → ∃ n ∈ nodes, rawSuffix f n = k)
  ∧ (∀ k v, m.get? k = some v → k ≠ v →
      ∃ n ∈ nodes, rawSuffix f n = k ∧ ppSuffix n = v ∧ ∃ n' ∈ nodes, rawSuffix f n' = v)

theorem inv_nil (f : Flags) (nodes : List Node) : Inv f nodes [] := by
  constructor <;> intro k v h <;> simp [Mapping.get?] at h

theorem inv_registerNode (f : Flags) (nodes : List Node) (hwf : WF f nodes) (m : Mapping)
    (hm : Inv f nodes m) (n : Node) (hn : n ∈ nodes) : Inv f nodes (registerNode f m n) := by
  unfold registerNode
  simp only []
  by_cases h0 : n.eta.isNone = true
  · simp [h0]; exact hm
  · simp only [h0]
    by_cases h1 : m.has (rawSuffix f n) = true
    · simp [h1]; exact hm
    · simp only [h1]
      by_cases h2 : m.has (ppSuffix n) = true
      · simp only [h2]
        by_cases h3 : ppSuffix n = prioritySuffix f n
        · simp only [h3, if_true, Bool.false_eq_true, if_false]
          rw [← h3]
          obtain ⟨w, hw⟩ := (has_iff m (ppSuffix n)).mp h2
          obtain ⟨n', hn', hraw'⟩ := hm.1 _ _ hw
          constructor
          · intro k v hk
            rw [get?_set] at hk
            by_cases hq : rawSuffix f n = k
            · exact ⟨n, hn, hq⟩
            · simp only [hq, if_false] at hk; exact hm.1 k v hk
          · intro k v hk hne
            rw [get?_set] at hk
            by_cases hq : rawSuffix f n = k
            · simp only [hq, if_true] at hk
              injection hk with hk
              exact ⟨n, hn, hq, hk, n', hn', hraw'.trans hk⟩
            · simp only [hq, if_false] at hk; exact hm.2 k v hk hne
        · simp only [h3, if_false, if_true, Bool.false_eq_true]
          obtain ⟨w, hw⟩ := (has_iff m (ppSuffix n)).mp h2
          obtain ⟨n', hn', hraw'⟩ := hm.1 _ _ hw
          have hpp' : ppSuffix n' = rawSuffix f n := hwf.2 n' hn' n hn hraw'
          constructor
          · intro k v hk
            rw [get?_set, get?_set] at hk
            by_cases hq : rawSuffix f n = k
            · exact ⟨n, hn, hq⟩
            · simp only [hq, if_false] at hk
              by_cases hq2 : ppSuffix n = k
              · exact ⟨n', hn', hraw'.trans hq2⟩
              · simp only [hq2, if_false] at hk; exact hm.1 k v hk
          · intro k v hk hne
            rw [get?_set, get?_set] at hk
            by_cases hq : rawSuffix f n = k
            · simp only [hq, if_true] at hk
              injection hk with hk
              exact absurd hk hne
            · simp only [hq, if_false] at hk
              by_cases hq2 : ppSuffix n = k
              · simp only [hq2, if_true] at hk
                injection hk with hk
                exact ⟨n', hn', hraw'.trans hq2, hpp'.trans hk, n, hn, hk⟩
              · simp only [hq2, if_false] at hk; exact hm.2 k v hk hne
      · simp only [h2, Bool.false_eq_true, if_false]
        constructor
        · intro k v hk
          rw [get?_set] at hk
          by_cases hq : rawSuffix f n = k
          · exact ⟨n, hn, hq⟩
          · simp only [hq, if_false] at hk; exact hm.1 k v hk
        · intro k v hk hne
          rw [get?_set] at hk
          by_cases hq : rawSuffix f n = k
          · simp only [hq, if_true] at hk
            injection hk with hk
            exact absurd hk hne
          · simp only [hq, if_false] at hk; exact hm.2 k v hk hne

theorem inv_registerChain (f : Flags) (nodes : List Node) (hwf : WF f nodes) :
    ∀ (c : Chain) (m : Mapping), Inv f nodes m → (∀ n ∈ c, n ∈ nodes) →
      Inv f nodes (registerChain f m c)
  | [], m, hm, _ => hm
  | n :: rest, m, hm, hc => by
    unfold registerChain
    simp only [List.foldl_cons]
    exact inv_registerChain f nodes hwf rest _
      (inv_registerNode f nodes hwf m hm n (hc n List.mem_cons_self))
      (fun x hx => hc x (List.mem_cons_of_mem _ hx))

theorem inv_foldl (f : Flags) (nodes : List Node) (hwf : WF f nodes) :
    ∀ (ts : List Chain) (m : Mapping), Inv f nodes m → (∀ c ∈ ts, ∀ n ∈ c, n ∈ nodes) →
      Inv f nodes (ts.foldl (registerChain f) m)
  | [], m, hm, _ => hm
  | c :: rest, m, hm, hts => by
    simp only [List.foldl_cons]
    exact inv_foldl f nodes hwf rest _
      (inv_registerChain f nodes hwf c m hm (hts c List.mem_cons_self))
      (fun x hx => hts x (List.mem_cons_of_mem _ hx))

theorem inv_registerAll (f : Flags) (ts : List Chain) (hwf : WF f ts.flatten) :
    Inv f ts.flatten (registerAll f ts) := by
  unfold registerAll
  apply inv_foldl f _ hwf ts [] (inv_nil f _)
  intro c hc n hn
  exact List.mem_flatten.mpr ⟨c, hc, hn⟩

/-- a suffix has at most one non-trivially mapped partner. -/
def UniquePartner (m : Mapping) : Prop :=
  ∀ k₁ k₂, m.mapped k₁ = m.mapped k₂ → m.mapped k₁ ≠ k₁ → m.mapped k₂ ≠ k₂ → k₁ = k₂

theorem unique_of_inv (f : Flags) (nodes : List Node) (hwf : WF f nodes) (m : Mapping)
    (hm : Inv f nodes m) : UniquePartner m := by
  intro k₁ k₂ he h1 h2
  have g1 := mapped_ne m k₁ h1
  have g2 := mapped_ne m k₂ h2
  obtain ⟨n₁, hn₁, r1, p1, n', hn', r'⟩ := hm.2 k₁ _ g1 (fun h => h1 h.symm)
  obtain ⟨n₂, hn₂, r2, p2, _⟩ := hm.2 k₂ _ g2 (fun h => h2 h.symm)
  have : rawSuffix f n₁ = rawSuffix f n₂ :=
    hwf.1 n₁ hn₁ n₂ hn₂ (by rw [p1, p2, he]) ⟨n', hn', by rw [r', p1]⟩
  rw [← r1, ← r2, this]

/-! ### the prefactor -/

theorem flippedProduct_none (f : Flags) (m : Mapping) :
    ∀ c : Chain, anyFlipped f m c = false → flippedProduct f m c = 1
  | [], _ => rfl
  | n :: rest, h => by
    unfold anyFlipped at h
    simp only [List.any_cons, Bool.or_eq_false_iff] at h
    unfold flippedProduct
    rw [flippedProduct_none f m rest (by unfold anyFlipped; exact h.2)]
    simp [h.1]

/-- under the sound rule the factor of a chain is the product of `η` over its mapped nodes. -/
theorem prefactorVal_sound (v : Variant) (hs : v.sound) (f : Flags) (m : Mapping) (c : Chain) :
    prefactorVal v f m c = flippedProduct f m c := by
  obtain ⟨h1, h2⟩ := hs
  unfold prefactorVal prefactor
  simp only [h1, h2, if_true]
  by_cases ha : anyFlipped f m c = true
  · by_cases hp : flippedProduct f m c = 1
    · simp [ha, hp]
    · simp [ha, hp]
  · have ha' : anyFlipped f m c = false := by simpa using ha
    simp [ha', flippedProduct_none f m c ha']

theorem ratio_aux (f : Flags) (m : Mapping) (hu : UniquePartner m) :
    ∀ c₁ c₂ : Chain, compatible c₁ c₂ = true → mappedSuffixes f m c₁ = mappedSuffixes f m c₂ →
      flippedProduct f m c₁ = flippedProduct f m c₂ * differingProduct f c₁ c₂
  | [], [], _, _ => by simp [flippedProduct, differingProduct]
  | [], _ :: _, hc, _ => by simp [compatible] at hc
  | _ :: _, [], hc, _ => by simp [compatible] at hc
  | n₁ :: r₁, n₂ :: r₂, hc, hs => by
    unfold compatible at hc
    simp only [Bool.and_eq_true, Bool.or_eq_true, beq_iff_eq] at hc
    obtain ⟨⟨he, hpm⟩, hcr⟩ := hc
    unfold mappedSuffixes at hs
    simp only [List.map_cons, List.cons.injEq] at hs
    obtain ⟨hs0, hsr⟩ := hs
    have ih := ratio_aux f m hu r₁ r₂ hcr hsr
    unfold flippedProduct differingProduct
    rw [ih]
    have key : (if isFlipped f m n₁ = true then etaVal n₁ else 1)
        = (if isFlipped f m n₂ = true then etaVal n₂ else 1)
          * (if (rawSuffix f n₁ != rawSuffix f n₂) = true then etaVal n₁ else 1) := by
      unfold isFlipped
      by_cases hr : rawSuffix f n₁ = rawSuffix f n₂
      · simp [hr, he]
      · have hr' : (rawSuffix f n₁ != rawSuffix f n₂) = true := by simpa using hr
        simp only [hr', if_true]
        by_cases f1 : m.mapped (rawSuffix f n₁) = rawSuffix f n₁
        · by_cases f2 : m.mapped (rawSuffix f n₂) = rawSuffix f n₂
          · exact absurd (f1.symm.trans (hs0.trans f2)) hr
          · have f2' : (m.mapped (rawSuffix f n₂) != rawSuffix f n₂) = true := by simpa using f2
            simp only [f1, bne_self_eq_false, Bool.false_eq_true, if_false, f2', if_true, ← he]
            rcases hpm with h | h <;> simp [h]
        · have f1' : (m.mapped (rawSuffix f n₁) != rawSuffix f n₁) = true := by simpa using f1
          by_cases f2 : m.mapped (rawSuffix f n₂) = rawSuffix f n₂
          · simp [f1', f2]
          · exact absurd (hu _ _ hs0 f1 f2) hr
    rw [key]
    ring

/-- the ratio statement for an arbitrary mapping with unique partners. -/
theorem ratio_of_unique (v : Variant) (hs : v.sound) (f : Flags) (m : Mapping)
    (hu : UniquePartner m) (c₁ c₂ : Chain) (hc : compatible c₁ c₂ = true)
    (hsame : sameCoefficient f m c₁ c₂ = true) :
    prefactorVal v f m c₁ = prefactorVal v f m c₂ * differingProduct f c₁ c₂ := by
  rw [prefactorVal_sound v hs, prefactorVal_sound v hs]
  apply ratio_aux f m hu c₁ c₂ hc
  unfold sameCoefficient at hsame
  exact eq_of_beq hsame

/-- `differingProduct` is `±1` for compatible chains. -/
theorem differingProduct_sq (f : Flags) :
    ∀ c₁ c₂ : Chain, compatible c₁ c₂ = true →
      differingProduct f c₁ c₂ * differingProduct f c₁ c₂ = 1
  | [], [], _ => by simp [differingProduct]
  | [], _ :: _, hc => by simp [compatible] at hc
  | _ :: _, [], hc => by simp [compatible] at hc
  | n₁ :: r₁, n₂ :: r₂, hc => by
    unfold compatible at hc
    simp only [Bool.and_eq_true, Bool.or_eq_true, beq_iff_eq] at hc
    obtain ⟨⟨_, hpm⟩, hcr⟩ := hc
    have ih := differingProduct_sq f r₁ r₂ hcr
    unfold differingProduct
    have : ∀ a b : Int, a * a = 1 → b * b = 1 → (a * b) * (a * b) = 1 := by
      intro a b ha hb
      calc (a * b) * (a * b) = (a * a) * (b * b) := by ring
        _ = 1 := by rw [ha, hb]; rfl
    apply this _ _ _ ih
    split
    · rcases hpm with h | h <;> simp [h]
    · rfl

/-- the flipped product of the second of two compatible chains is `±1`. -/
theorem flippedProduct_sq_right (f : Flags) (m : Mapping) :
    ∀ c₁ c₂ : Chain, compatible c₁ c₂ = true →
      flippedProduct f m c₂ * flippedProduct f m c₂ = 1
  | [], [], _ => by simp [flippedProduct]
  | [], _ :: _, hc => by simp [compatible] at hc
  | _ :: _, [], hc => by simp [compatible] at hc
  | n₁ :: r₁, n₂ :: r₂, hc => by
    unfold compatible at hc
    simp only [Bool.and_eq_true, Bool.or_eq_true, beq_iff_eq] at hc
    obtain ⟨⟨he, hpm⟩, hcr⟩ := hc
    have ih := flippedProduct_sq_right f m r₁ r₂ hcr
    unfold flippedProduct
    have : ∀ a b : Int, a * a = 1 → b * b = 1 → (a * b) * (a * b) = 1 := by
      intro a b ha hb
      calc (a * b) * (a * b) = (a * a) * (b * b) := by ring
        _ = 1 := by rw [ha, hb]; rfl
    apply this _ _ _ ih
    split
    · rw [← he]; rcases hpm with h | h <;> simp [h]
    · rfl

end Ampverif.Lemmas.C03Parity
