/-
C03 — Racah's closed formula equals the REGENERATED SymPy Clebsch–Gordan table on every admissible
key of the blocks `(2j₁, 2j₂) = (3, ·)` (kernel evaluation, exact rational arithmetic; generated
file layout: one module per `2j₁` so that the blocks build in parallel).
-/
import Ampverif.Lemmas.C03Racah
import Ampverif.Gen.C03CG

namespace Ampverif.Lemmas.C03RacahBlocks
open Ampverif.Model.C03CG Ampverif.Lemmas.C03CG Ampverif.Gen.C03CG

theorem racah_3_0 : blockIsRacah table 3 0 = true := by decide +kernel
theorem racah_3_1 : blockIsRacah table 3 1 = true := by decide +kernel
theorem racah_3_2 : blockIsRacah table 3 2 = true := by decide +kernel
theorem racah_3_3 : blockIsRacah table 3 3 = true := by decide +kernel
theorem racah_3_4 : blockIsRacah table 3 4 = true := by decide +kernel
theorem racah_3_5 : blockIsRacah table 3 5 = true := by decide +kernel
theorem racah_3_6 : blockIsRacah table 3 6 = true := by decide +kernel

end Ampverif.Lemmas.C03RacahBlocks
