/- Concrete histories / reactions for the witness and non-vacuity statements of Props/C13.lean. -/
import Ampverif.Model.C13Selector
import Ampverif.Lemmas.C01Examples

namespace Ampverif.Model.C13.Examples
open Ampverif.Model.C01 Ampverif.Model.C13

/-- J/psi -> pi0 pi0 gamma via omega(782) (three transitions, each with the swapped chain) -/
def omegaR : Reaction := Ampverif.Model.C01.Examples.omega

instance : Inhabited NodeInfo := ⟨⟨0, default, default, default, []⟩⟩

/-- the omega node of the first transition on the reaction's own topology … -/
def omegaDecayOwn : Decay :=
  match omegaR.transitions with
  | t :: _ => dkey t.states t.inters ((omegaR.tree 0).infosSorted.getD 1 default)
  | [] => default

/-- … and of its swapped chain on topology (02)1 -/
def omegaDecaySwapped : Decay :=
  match omegaR.transitions with
  | t :: _ => dkey t.states t.inters ((omegaR.tree 1).infosSorted.getD 1 default)
  | [] => default

/-- an interleaved history: by name, by decay, by particle, by node, unknown name, by name again -/
def history : List Op :=
  [⟨.byName n!"omega(782)", 1⟩, ⟨.byDecay omegaDecayOwn, 4⟩, ⟨.byParticle 0, 2⟩, ⟨.byNode 1 1, 5⟩,
   ⟨.byName n!"no such particle", 6⟩, ⟨.unsupported, 7⟩, ⟨.byName n!"omega(782)", 3⟩, ⟨.byNode 2 0, 4⟩]

end Ampverif.Model.C13.Examples
