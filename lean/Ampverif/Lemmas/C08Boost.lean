/-
Helper lemmas for C08: an abstract boost / rotation matrix over ℝ whose Lorentz properties are
polynomial identities modulo the relations `γ²(1−β²) = 1`, `u·β² = γ−1`, `u·(γ+1) = γ²`
(resp. `c² + s² = 1`). The property file instantiates them with the regenerated definitions.
-/
import Mathlib.LinearAlgebra.Matrix.Notation
import Mathlib.LinearAlgebra.Matrix.Determinant.Basic
import Mathlib.Data.Real.Basic
import Mathlib.Analysis.Real.Sqrt
import Mathlib.Tactic.Ring
import Mathlib.Tactic.FieldSimp
import Mathlib.Tactic.LinearCombination
import Mathlib.Tactic.Linarith
import Mathlib.Tactic.FinCases
import Ampverif.Lemmas.C08Attr

set_option linter.unusedVariables false
set_option linter.unusedSimpArgs false

namespace Ampverif.Lemmas.C08
open Matrix

/-- Unfold the regenerated entry definitions (and the named intermediate vectors) and evaluate
`!![…] i j` / `![…] i` at literal indices. -/
macro "c08_unfold" : tactic =>
  `(tactic| simp only [c08_entries, c08_vectors, Matrix.of_apply, Matrix.cons_val', Matrix.cons_val_zero,
      Matrix.cons_val_one, Matrix.cons_val, Fin.zero_eta, Fin.mk_one, Fin.reduceFinMk, Fin.isValue])

/-- As `c08_unfold`, but the named intermediate vectors `<family>_v<k>_<i>` stay folded (so that a
previously proved value of such a vector can be substituted for it). -/
macro "c08_unfold_entries" : tactic =>
  `(tactic| simp only [c08_entries, Matrix.of_apply, Matrix.cons_val', Matrix.cons_val_zero,
      Matrix.cons_val_one, Matrix.cons_val, Fin.zero_eta, Fin.mk_one, Fin.reduceFinMk, Fin.isValue])

/-- Split a 4×4 matrix equation into its 16 scalar entries (regenerated definitions unfolded). -/
macro "c08_mat_ext" : tactic =>
  `(tactic| (ext i j; fin_cases i <;> fin_cases j <;> c08_unfold))

/-- Split a 4-vector equation into its 4 scalar entries (regenerated definitions unfolded). -/
macro "c08_vec_ext" : tactic =>
  `(tactic| (ext i; fin_cases i <;> c08_unfold))

/-- Minkowski metric `diag(1,−1,−1,−1)` (hand-written reference; the regenerated
`MinkowskiMetric` is proved equal to it in the property file). -/
def eta : Matrix (Fin 4) (Fin 4) ℝ := !![1,0,0,0; 0,-1,0,0; 0,0,-1,0; 0,0,0,-1]

/-- Laplace expansion of a 4×4 determinant. -/
theorem det4 (A : Matrix (Fin 4) (Fin 4) ℝ) :
    A.det = A 0 0 * (A 1 1 * A 2 2 * A 3 3 - A 1 1 * A 2 3 * A 3 2 - A 1 2 * A 2 1 * A 3 3 + A 1 2 * A 2 3 * A 3 1 + A 1 3 * A 2 1 * A 3 2 - A 1 3 * A 2 2 * A 3 1)
          - A 0 1 * (A 1 0 * A 2 2 * A 3 3 - A 1 0 * A 2 3 * A 3 2 - A 1 2 * A 2 0 * A 3 3 + A 1 2 * A 2 3 * A 3 0 + A 1 3 * A 2 0 * A 3 2 - A 1 3 * A 2 2 * A 3 0)
          + A 0 2 * (A 1 0 * A 2 1 * A 3 3 - A 1 0 * A 2 3 * A 3 1 - A 1 1 * A 2 0 * A 3 3 + A 1 1 * A 2 3 * A 3 0 + A 1 3 * A 2 0 * A 3 1 - A 1 3 * A 2 1 * A 3 0)
          - A 0 3 * (A 1 0 * A 2 1 * A 3 2 - A 1 0 * A 2 2 * A 3 1 - A 1 1 * A 2 0 * A 3 2 + A 1 1 * A 2 2 * A 3 0 + A 1 2 * A 2 0 * A 3 1 - A 1 2 * A 2 1 * A 3 0) := by
  rw [Matrix.det_succ_row_zero]
  simp [Fin.sum_univ_succ, Matrix.det_fin_three, Matrix.submatrix_apply, Fin.succAbove]
  ring

/-! ### Abstract boost -/

/-- The boost matrix in terms of `γ`, the velocity components and `u = (γ−1)/β²`. -/
def absBoost (g bx by' bz u : ℝ) : Matrix (Fin 4) (Fin 4) ℝ :=
  !![g, -g*bx, -g*by', -g*bz;
     -g*bx, 1+u*bx*bx, u*bx*by', u*bx*bz;
     -g*by', u*by'*bx, 1+u*by'*by', u*by'*bz;
     -g*bz, u*bz*bx, u*bz*by', 1+u*bz*bz]

theorem absBoost_lorentz (g bx by' bz u : ℝ)
    (h1 : g^2 * (1 - (bx^2+by'^2+bz^2)) = 1)
    (h2 : u * (bx^2+by'^2+bz^2) = g - 1)
    (h3 : u * (g + 1) = g^2) :
    (absBoost g bx by' bz u)ᵀ * eta * absBoost g bx by' bz u = eta := by
  ext i j
  fin_cases i <;> fin_cases j <;>
    simp [absBoost, eta, Matrix.mul_apply, Fin.sum_univ_succ] <;> grind

theorem absBoost_det (g bx by' bz u : ℝ)
    (h1 : g^2 * (1 - (bx^2+by'^2+bz^2)) = 1)
    (h2 : u * (bx^2+by'^2+bz^2) = g - 1) :
    (absBoost g bx by' bz u).det = 1 := by
  rw [det4]
  simp [absBoost]
  linear_combination h1 + g * h2

/-- Boosting `e·(1, β⃗)` with the boost of velocity `β⃗`. -/
theorem absBoost_mulVec (g bx by' bz u e : ℝ)
    (h2 : u * (bx^2+by'^2+bz^2) = g - 1) :
    (absBoost g bx by' bz u).mulVec ![e, e*bx, e*by', e*bz]
      = ![g * e * (1 - (bx^2+by'^2+bz^2)), 0, 0, 0] := by
  ext i
  fin_cases i <;> simp [absBoost, Matrix.mulVec, dotProduct, Fin.sum_univ_succ]
  · ring
  · linear_combination e * bx * h2
  · linear_combination e * by' * h2
  · linear_combination e * bz * h2

/-- The boost with the opposite velocity is the inverse. -/
theorem absBoost_neg_mul (g bx by' bz u : ℝ)
    (h1 : g^2 * (1 - (bx^2+by'^2+bz^2)) = 1)
    (h2 : u * (bx^2+by'^2+bz^2) = g - 1)
    (h3 : u * (g + 1) = g^2) :
    absBoost g (-bx) (-by') (-bz) u * absBoost g bx by' bz u = 1 := by
  ext i j
  fin_cases i <;> fin_cases j <;>
    simp [absBoost, Matrix.mul_apply, Fin.sum_univ_succ, Matrix.one_apply] <;> grind

/-! ### Abstract rotations -/

def absRotY (c s : ℝ) : Matrix (Fin 4) (Fin 4) ℝ :=
  !![1,0,0,0; 0,c,0,s; 0,0,1,0; 0,-s,0,c]

def absRotZ (c s : ℝ) : Matrix (Fin 4) (Fin 4) ℝ :=
  !![1,0,0,0; 0,c,-s,0; 0,s,c,0; 0,0,0,1]

theorem absRotY_lorentz (c s : ℝ) (h : c^2 + s^2 = 1) :
    (absRotY c s)ᵀ * eta * absRotY c s = eta := by
  ext i j
  fin_cases i <;> fin_cases j <;>
    simp [absRotY, eta, Matrix.mul_apply, Fin.sum_univ_succ] <;> grind

theorem absRotZ_lorentz (c s : ℝ) (h : c^2 + s^2 = 1) :
    (absRotZ c s)ᵀ * eta * absRotZ c s = eta := by
  ext i j
  fin_cases i <;> fin_cases j <;>
    simp [absRotZ, eta, Matrix.mul_apply, Fin.sum_univ_succ] <;> grind

theorem absRotY_det (c s : ℝ) (h : c^2 + s^2 = 1) : (absRotY c s).det = 1 := by
  rw [det4]; simp [absRotY]; linear_combination h

theorem absRotZ_det (c s : ℝ) (h : c^2 + s^2 = 1) : (absRotZ c s).det = 1 := by
  rw [det4]; simp [absRotZ]; linear_combination h

theorem absRotY_mul (c1 s1 c2 s2 : ℝ) :
    absRotY c1 s1 * absRotY c2 s2 = absRotY (c1*c2 - s1*s2) (s1*c2 + c1*s2) := by
  ext i j
  fin_cases i <;> fin_cases j <;>
    simp [absRotY, Matrix.mul_apply, Fin.sum_univ_succ] <;> ring

theorem absRotZ_mul (c1 s1 c2 s2 : ℝ) :
    absRotZ c1 s1 * absRotZ c2 s2 = absRotZ (c1*c2 - s1*s2) (s1*c2 + c1*s2) := by
  ext i j
  fin_cases i <;> fin_cases j <;>
    simp [absRotZ, Matrix.mul_apply, Fin.sum_univ_succ] <;> ring

/-- With `u = γ²/(γ+1)` the relations `u·β² = γ−1` and `u(γ+1) = γ²` follow from `γ²(1−β²) = 1`
(no `β ≠ 0` needed). -/
theorem u_relations (g b2 : ℝ) (hg : 0 < g) (h1 : g ^ 2 * (1 - b2) = 1) :
    g ^ 2 / (g + 1) * b2 = g - 1 ∧ g ^ 2 / (g + 1) * (g + 1) = g ^ 2 := by
  have hg1 : g + 1 ≠ 0 := by linarith
  constructor
  · field_simp; linear_combination -h1
  · field_simp

/-! ### Square roots -/

/-- `√((E²−p²)/E²) = √(E²−p²)/E` for `E > 0`. -/
theorem sqrt_radicand (E p2 r : ℝ) (hE : 0 < E) (h : r = (E^2 - p2) / E^2) :
    Real.sqrt r = Real.sqrt (E^2 - p2) / E := by
  rw [h, Real.sqrt_div' _ (sq_nonneg E), Real.sqrt_sq hE.le]

end Ampverif.Lemmas.C08
